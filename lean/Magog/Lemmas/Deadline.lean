import Magog.Lemmas.SearchLocal

/-! The deadline is honoured (helpers for `Props/C13Deadline.lean`).

The clock of the search model is the oracle `env.timeUp : Nat → Bool` over the consultation counter `s.tick` (one tick
per consultation of ANY oracle: clock, stop channel, print gate). `ClockMono env`: once the clock has answered
`true` it answers `true` ever after. `Late env s`: as seen from the state `s`, the deadline has passed — every clock
consultation from now on answers `true`.

The search consults the clock in exactly five places, each time right after a callee has returned: `qLoop` after a
child, `abLoop` (`pollAfterMove`) after a child, `rootLoop` after a child, `deepenLoop` after `startAlphaBeta`,
`iterDeep` after the first `startAlphaBeta`. The lemmas below say: when the callee returns in a `Late` state the loop
returns without calling `child` again — the remaining siblings are dead code — and without evaluating a node. -/

namespace Magog.Model
open Magog

/-- once the clock has answered `true` it answers `true` at every later consultation -/
def ClockMono (env : Env) : Prop := ∀ a b, a ≤ b → env.timeUp a = true → env.timeUp b = true

/-- as seen from `s` the deadline has passed: every consultation of the clock from now on answers `true` -/
def Late (env : Env) (s : SS) : Prop := ∀ t, s.tick ≤ t → env.timeUp t = true

theorem late_of_timeUp {env : Env} (hm : ClockMono env) {t : Nat} (h : env.timeUp t = true) {s : SS}
    (ht : t ≤ s.tick) : Late env s :=
  fun u hu => hm t u (Nat.le_trans ht hu) h

theorem late_iff {env : Env} (hm : ClockMono env) (s : SS) : Late env s ↔ env.timeUp s.tick = true :=
  ⟨fun h => h _ (Nat.le_refl _), fun h => late_of_timeUp hm h (Nat.le_refl _)⟩

theorem Late.mono {env : Env} {s s' : SS} (h : Late env s) (ht : s.tick ≤ s'.tick) : Late env s' :=
  fun u hu => h u (Nat.le_trans ht hu)

theorem Late.now {env : Env} {s : SS} (h : Late env s) : env.timeUp s.tick = true := h _ (Nat.le_refl _)

theorem Late.consult {env : Env} {s : SS} (h : Late env s) : Late env s.consult := h.mono (Nat.le_succ _)

/-- the state after the break test `if interrupted || time.Now().After(end) { break }` when it breaks -/
def SS.afterBreak (s : SS) : SS := if s.interrupted then s else s.consult

@[simp] theorem SS.afterBreak_nodes (s : SS) : s.afterBreak.nodes = s.nodes := by
  unfold SS.afterBreak; split <;> rfl

theorem SS.afterBreak_tick (s : SS) : s.tick ≤ s.afterBreak.tick ∧ s.afterBreak.tick ≤ s.tick + 1 := by
  unfold SS.afterBreak; split
  · exact ⟨Nat.le_refl _, Nat.le_succ _⟩
  · exact ⟨Nat.le_succ _, Nat.le_refl _⟩

theorem Late.afterBreak {env : Env} {s : SS} (h : Late env s) : Late env s.afterBreak :=
  h.mono s.afterBreak_tick.1

/-- in a late state the two polls after a move break at once -/
theorem pollAfterMove_late {env : Env} {s : SS} (h : Late env s) : pollAfterMove env s = (true, s.afterBreak) := by
  rw [pollAfterMove_eq]
  unfold SS.afterBreak
  by_cases hi : s.interrupted = true
  · rw [if_pos hi, if_pos hi]
  · rw [if_neg hi, if_neg hi, if_pos h.now]

/-! ### `qLoop` -/

/-- **no new sibling, `qLoop`**: when the child entered for the first move returns in a late state, the loop
    returns the window and line it was entered with and the child's state (plus one clock consultation, unless
    interrupted); `rest` is not looked at. Generic in `child`. -/
theorem qLoop_no_new_sibling {env : Env} {child : NodeFn} {p : Position} {idx depth : Nat} {beta : Int}
    {mv : RMove} {rest : List RMove} {alpha : Int} {curLen subLen : Nat} {s : SS} {q : Position}
    {v : Int} {sub' : Nat} {s1 : SS}
    (hcap : ¬ idx + 1 ≥ env.stackCap) (hmk : makeMove p mv.mov = .ok (q, true))
    (hch : child q (idx + 1) (depth + 1) (-beta) (-alpha) subLen s = .ok (v, sub', s1)) (hl : Late env s1) :
    qLoop env child p idx depth beta (mv :: rest) alpha curLen subLen s = .ok ⟨alpha, curLen, s1.afterBreak⟩ := by
  simp only [qLoop, hcap, if_false, hmk, hch, bind, Except.bind, Bool.not_true, Bool.false_eq_true]
  unfold SS.afterBreak
  by_cases hi : s1.interrupted = true
  · simp only [hi, if_true]; rfl
  · have : env.timeUp (s1.consult.tick - 1) = true := by
      simp only [SS.consult_tick, Nat.add_sub_cancel]; exact hl.now
    simp only [hi, this, if_true]; rfl

/-- elimination form: a successful `qLoop` on `mv :: rest` whose child can only return late has this shape -/
theorem qLoop_late_elim {env : Env} {child : NodeFn} {p : Position} {idx depth : Nat} {beta : Int}
    {mv : RMove} {rest : List RMove} {alpha : Int} {curLen subLen : Nat} {s : SS} {r : LoopOut}
    (h : qLoop env child p idx depth beta (mv :: rest) alpha curLen subLen s = .ok r)
    (hcl : ∀ q v l s1, child q (idx + 1) (depth + 1) (-beta) (-alpha) subLen s = .ok (v, l, s1) → Late env s1) :
    ∃ q v l s1, makeMove p mv.mov = .ok (q, true) ∧
      child q (idx + 1) (depth + 1) (-beta) (-alpha) subLen s = .ok (v, l, s1) ∧ Late env s1 ∧
      r = ⟨alpha, curLen, s1.afterBreak⟩ := by
  have h0 := h
  simp only [qLoop] at h
  split at h
  · exact absurd h (by simp [throw_ok])
  next hcap =>
  simp only [bind_ok] at h
  obtain ⟨⟨q, b⟩, hmk, h⟩ := h
  split at h
  · exact absurd h (by simp [throw_ok])
  next hb =>
  have hb' : b = true := by simpa using hb
  subst hb'
  simp only [bind_ok] at h
  obtain ⟨⟨v, sl, s1⟩, hch, _⟩ := h
  have hl := hcl q v sl s1 hch
  rw [qLoop_no_new_sibling hcap hmk hch hl] at h0
  exact ⟨q, v, sl, s1, hmk, hch, hl, (Except.ok.inj h0).symm⟩

/-! ### `abLoop` -/

/-- the value an `abLoop` iteration returns when it does not go on to the next sibling: fail-hard cut-off (with
    the killer update) or the improved window after the break -/
def abAfterChild (p : Position) (depth : Nat) (beta : Int) (mv : RMove) (alpha : Int) (curLen : Nat)
    (x : Int × Nat × SS) : M LoopOut :=
  if -x.1 ≥ beta then
    (if !mv.tactical then do
       let kt ← updateKillers x.2.2.killers p.ply mv.mov
       pure ⟨beta, curLen, { x.2.2 with killers := kt }⟩
     else pure ⟨beta, curLen, x.2.2⟩)
  else do
    let y ← improve x.2.2 depth x.2.1 mv.mov (-x.1) alpha curLen
    pure ⟨y.1, y.2.1, y.2.2.afterBreak⟩

theorem improve_tick {s depth subLen mv score alpha curLen a l s'}
    (h : improve s depth subLen mv score alpha curLen = .ok (a, l, s')) :
    s'.tick = s.tick ∧ s'.nodes = s.nodes ∧ s'.interrupted = s.interrupted := by
  unfold improve at h
  split at h
  · obtain ⟨⟨s2, cl⟩, hu, h⟩ := bind_ok.1 h
    simp only [pure_ok, Prod.mk.injEq] at h
    rw [← h.2.2]
    unfold updateBestLine at hu
    split at hu
    · split at hu
      · exact absurd hu (by simp [throw_ok])
      · simp only [pure_ok, Prod.mk.injEq] at hu
        rw [← hu.1]; exact ⟨rfl, rfl, rfl⟩
    · exact absurd hu (by simp [throw_ok])
  · simp only [pure_ok, Prod.mk.injEq] at h; rw [← h.2.2]; exact ⟨rfl, rfl, rfl⟩

/-- **no new sibling, `abLoop`**: when the child entered for the first move returns in a late state, the loop
    returns what `abAfterChild` computes from the child's result — cut-off, or improved window and break —;
    `rest` is not looked at. Generic in `child`. -/
theorem abLoop_no_new_sibling {env : Env} {child : NodeFn} {p : Position} {idx depth : Nat} {beta : Int}
    {mv : RMove} {rest : List RMove} {alpha : Int} {curLen subLen : Nat} {s : SS} {q : Position}
    {x : Int × Nat × SS}
    (hni : s.interrupted = false) (hcap : ¬ idx + 1 ≥ env.stackCap) (hmk : makeMove p mv.mov = .ok (q, true))
    (hch : child q (idx + 1) (depth + 1) (-beta) (-alpha) subLen s = .ok x) (hl : Late env x.2.2) :
    abLoop env child p idx depth beta (mv :: rest) alpha curLen subLen s =
      abAfterChild p depth beta mv alpha curLen x := by
  rw [abLoop_cons_eq]
  simp only [hni, Bool.false_eq_true, if_false, hcap, hmk, hch, bind, Except.bind, Bool.not_true]
  unfold abAfterChild
  split
  · rfl
  · cases hi : improve x.2.2 depth x.2.1 mv.mov (-x.1) alpha curLen with
    | error e => rfl
    | ok y =>
      obtain ⟨a, l, s2⟩ := y
      have ht := improve_tick hi
      have hl2 : Late env s2 := hl.mono (by rw [ht.1]; exact Nat.le_refl _)
      simp only [bind, Except.bind, pollAfterMove_late hl2, if_true]

/-- what `abAfterChild` returns: the child's node count, a late state -/
theorem abAfterChild_ok {p : Position} {depth : Nat} {beta : Int} {mv : RMove} {alpha : Int} {curLen : Nat}
    {x : Int × Nat × SS} {r : LoopOut} (h : abAfterChild p depth beta mv alpha curLen x = .ok r) :
    r.st.nodes = x.2.2.nodes ∧ x.2.2.tick ≤ r.st.tick ∧ r.st.tick ≤ x.2.2.tick + 1 := by
  unfold abAfterChild at h
  split at h
  · split at h
    · obtain ⟨kt, _, h⟩ := bind_ok.1 h
      simp only [pure_ok] at h; subst h; exact ⟨rfl, Nat.le_refl _, Nat.le_succ _⟩
    · simp only [pure_ok] at h; subst h; exact ⟨rfl, Nat.le_refl _, Nat.le_succ _⟩
  · obtain ⟨⟨a, l, s2⟩, hi, h⟩ := bind_ok.1 h
    have ht := improve_tick hi
    simp only [pure_ok] at h; subst h
    have := s2.afterBreak_tick
    exact ⟨by simp [ht.2.1], by dsimp only; omega, by dsimp only; omega⟩

theorem abLoop_late_elim {env : Env} {child : NodeFn} {p : Position} {idx depth : Nat} {beta : Int}
    {mv : RMove} {rest : List RMove} {alpha : Int} {curLen subLen : Nat} {s : SS} {r : LoopOut}
    (h : abLoop env child p idx depth beta (mv :: rest) alpha curLen subLen s = .ok r) (hni : s.interrupted = false)
    (hcl : ∀ q x, child q (idx + 1) (depth + 1) (-beta) (-alpha) subLen s = .ok x → Late env x.2.2) :
    ∃ q x, makeMove p mv.mov = .ok (q, true) ∧
      child q (idx + 1) (depth + 1) (-beta) (-alpha) subLen s = .ok x ∧ Late env x.2.2 ∧
      abAfterChild p depth beta mv alpha curLen x = .ok r := by
  have h0 := h
  rw [abLoop_cons_eq] at h
  simp only [hni, Bool.false_eq_true, if_false] at h
  split at h
  · exact absurd h (by simp [throw_ok])
  next hcap =>
  obtain ⟨⟨q, b⟩, hmk, h⟩ := bind_ok.1 h
  split at h
  · exact absurd h (by simp [throw_ok])
  next hb =>
  have hb' : b = true := by simpa using hb
  subst hb'
  obtain ⟨x, hch, _⟩ := bind_ok.1 h
  have hl := hcl q x hch
  rw [abLoop_no_new_sibling hni hcap hmk hch hl] at h0
  exact ⟨q, x, hmk, hch, hl, h0⟩

/-! ### `rootLoop` -/

/-- what a `rootLoop` iteration returns when it breaks after its child: the (possibly improved and printed) window
    and the state after the break test -/
def rootAfterChild (env : Env) (target : Nat) (mv : RMove) (alpha : Int) (curLen : Nat) (x : Int × Nat × SS) :
    M LoopOut := do
  let y ← rootImprove env target x.2.2 x.2.1 mv.mov (-x.1) alpha curLen
  pure ⟨y.1, y.2.1, y.2.2.afterBreak⟩

theorem rootImprove_tick {env target s subLen mv score alpha curLen a l s'}
    (h : rootImprove env target s subLen mv score alpha curLen = .ok (a, l, s')) :
    s.tick ≤ s'.tick ∧ s'.tick ≤ s.tick + 1 ∧ s'.nodes = s.nodes ∧ s'.interrupted = s.interrupted := by
  unfold rootImprove at h
  split at h
  · obtain ⟨⟨s2, cl⟩, hu, h⟩ := bind_ok.1 h
    obtain ⟨s3, hp, h⟩ := bind_ok.1 h
    simp only [pure_ok, Prod.mk.injEq] at h
    rw [← h.2.2]
    have h2 : s2.tick = s.tick ∧ s2.nodes = s.nodes ∧ s2.interrupted = s.interrupted := by
      unfold updateBestLine at hu
      split at hu
      · split at hu
        · exact absurd hu (by simp [throw_ok])
        · simp only [pure_ok, Prod.mk.injEq] at hu
          rw [← hu.1]; exact ⟨rfl, rfl, rfl⟩
      · exact absurd hu (by simp [throw_ok])
    have h3 : s3.tick = s2.consult.tick ∧ s3.nodes = s2.consult.nodes ∧ s3.interrupted = s2.consult.interrupted := by
      unfold rootPrint at hp
      split at hp
      · split at hp
        · exact absurd hp (by simp [throw_ok])
        · simp only [pure_ok] at hp; rw [← hp]; exact ⟨rfl, rfl, rfl⟩
      · simp only [pure_ok] at hp; rw [← hp]; exact ⟨rfl, rfl, rfl⟩
    simp only [SS.consult_tick] at h3
    refine ⟨by omega, by omega, ?_, ?_⟩
    · rw [h3.2.1]; exact h2.2.1
    · rw [h3.2.2]; exact h2.2.2
  · simp only [pure_ok, Prod.mk.injEq] at h; rw [← h.2.2]
    exact ⟨Nat.le_refl _, Nat.le_succ _, rfl, rfl⟩

/-- **no new sibling, `rootLoop`**: when the child entered for the first root move returns in a late state, the root
    loop updates and prints the best line if the move improved it, and returns; `rest` is not looked at. -/
theorem rootLoop_no_new_sibling {env : Env} {child : NodeFn} {p : Position} {target : Nat}
    {mv : RMove} {rest : List RMove} {alpha : Int} {curLen subLen : Nat} {s : SS} {q : Position}
    {x : Int × Nat × SS}
    (hni : s.interrupted = false) (hcap : ¬ 1 ≥ env.stackCap) (hmk : makeMove p mv.mov = .ok (q, true))
    (hch : child q 1 1 (-(Gen.InfinityScore : Int)) (-alpha) subLen s = .ok x) (hl : Late env x.2.2) :
    rootLoop env child p target (mv :: rest) alpha curLen subLen s = rootAfterChild env target mv alpha curLen x := by
  rw [rootLoop_cons_eq]
  simp only [hni, Bool.false_eq_true, if_false, hcap, hmk, hch, bind, Except.bind, Bool.not_true]
  unfold rootAfterChild
  cases hi : rootImprove env target x.2.2 x.2.1 mv.mov (-x.1) alpha curLen with
  | error e => rfl
  | ok y =>
    obtain ⟨a, l, s2⟩ := y
    have ht := rootImprove_tick hi
    have hl2 : Late env s2 := hl.mono ht.1
    simp only [bind, Except.bind]
    unfold SS.afterBreak
    by_cases hint : s2.interrupted = true
    · simp only [hint, if_true]
    · have : env.timeUp (s2.consult.tick - 1) = true := by
        simp only [SS.consult_tick, Nat.add_sub_cancel]; exact hl2.now
      simp only [hint, this, if_true]; rfl

theorem rootAfterChild_ok {env : Env} {target : Nat} {mv : RMove} {alpha : Int} {curLen : Nat}
    {x : Int × Nat × SS} {r : LoopOut} (h : rootAfterChild env target mv alpha curLen x = .ok r) :
    r.st.nodes = x.2.2.nodes ∧ x.2.2.tick ≤ r.st.tick ∧ r.st.tick ≤ x.2.2.tick + 2 := by
  unfold rootAfterChild at h
  obtain ⟨⟨a, l, s2⟩, hi, h⟩ := bind_ok.1 h
  have ht := rootImprove_tick hi
  simp only [pure_ok] at h; subst h
  have := s2.afterBreak_tick
  exact ⟨by simp [ht.2.2.1], by dsimp only; omega, by dsimp only; omega⟩

theorem rootLoop_late_elim {env : Env} {child : NodeFn} {p : Position} {target : Nat}
    {mv : RMove} {rest : List RMove} {alpha : Int} {curLen subLen : Nat} {s : SS} {r : LoopOut}
    (h : rootLoop env child p target (mv :: rest) alpha curLen subLen s = .ok r) (hni : s.interrupted = false)
    (hcl : ∀ q x, child q 1 1 (-(Gen.InfinityScore : Int)) (-alpha) subLen s = .ok x → Late env x.2.2) :
    ∃ q x, makeMove p mv.mov = .ok (q, true) ∧
      child q 1 1 (-(Gen.InfinityScore : Int)) (-alpha) subLen s = .ok x ∧ Late env x.2.2 ∧
      rootAfterChild env target mv alpha curLen x = .ok r := by
  have h0 := h
  rw [rootLoop_cons_eq] at h
  simp only [hni, Bool.false_eq_true, if_false] at h
  split at h
  · exact absurd h (by simp [throw_ok])
  next hcap =>
  obtain ⟨⟨q, b⟩, hmk, h⟩ := bind_ok.1 h
  split at h
  · exact absurd h (by simp [throw_ok])
  next hb =>
  have hb' : b = true := by simpa using hb
  subst hb'
  obtain ⟨x, hch, _⟩ := bind_ok.1 h
  have hl := hcl q x hch
  rw [rootLoop_no_new_sibling hni hcap hmk hch hl] at h0
  exact ⟨q, x, hmk, hch, hl, h0⟩

/-! ### `deepenLoop`, `iterDeep` -/

/-- **no new iteration**: when an iteration (`startAlphaBeta` at depth `cur`) returns in a late state, the
    deepening loop discards it and returns the result of the last completed depth; no deeper iteration is
    started. -/
theorem deepenLoop_no_new_iteration {env : Env} {qfuel : Nat} {p : Position} {maxDepth n cur : Nat} {best : Int}
    {done len0 : Nat} {s : SS} {x : Int × Bool × Nat × SS}
    (hcur : ¬ cur > maxDepth) (hsab : startAlphaBeta env qfuel p cur len0 s = .ok x) (hl : Late env x.2.2.2) :
    deepenLoop env qfuel p maxDepth (n + 1) cur best done len0 s = .ok (best, done, x.2.2.2.consult) := by
  rw [deepenLoop_succ_eq]
  have : env.timeUp (x.2.2.2.consult.tick - 1) = true := by
    simp only [SS.consult_tick, Nat.add_sub_cancel]; exact hl.now
  simp only [hcur, if_false, hsab, bind, Except.bind, this, if_true]
  rfl

/-- when the first iteration returns in a late state no second iteration is started -/
theorem deepenFrom_late {env : Env} {qfuel : Nat} {p : Position} {maxDepth : Nat} {score : Int} {one : Bool}
    {len0 : Nat} {s : SS} (hl : env.timeUp (s.tick - 1) = true) :
    deepenFrom env qfuel p maxDepth score one len0 s = .ok (score, 1, s) := by
  unfold deepenFrom
  simp only [hl, Bool.not_true, Bool.false_and, Bool.false_eq_true, if_false]
  rfl

/-! ### entered after the deadline: one leftmost line, then out -/

theorem qLog_same {env : Env} {s s' : SS} (h : qLog env s = .ok s') :
    s'.tick = s.tick ∧ s'.nodes = s.nodes ∧ s'.interrupted = s.interrupted := by
  unfold qLog at h
  split at h
  · exact absurd h (by simp [throw_ok])
  split at h
  · split at h
    · simp only [pure_ok] at h; subst h; exact ⟨rfl, rfl, rfl⟩
    · exact absurd h (by simp [throw_ok])
  · simp only [pure_ok] at h; subst h; exact ⟨rfl, rfl, rfl⟩

/-- a quiescence node entered after the deadline evaluates itself and then at most its FIRST capture, recursively:
    at most `fuel` nodes (one per level of the leftmost line), and every loop on the way back breaks -/
theorem quiescence_late_nodes {env : Env} : ∀ (fuel : Nat) {p : Position} {idx depth : Nat} {alpha beta : Int}
    {curLen : Nat} {s : SS} {v : Int} {l : Nat} {s' : SS}, Late env s →
    quiescence env fuel p idx depth alpha beta curLen s = .ok (v, l, s') → s'.nodes ≤ s.nodes + fuel
  | 0, _, _, _, _, _, _, _, _, _, _, _, h => by simp only [quiescence, throw_ok] at h
  | fuel + 1, p, idx, depth, alpha, beta, curLen, s, v, l, s', hl, h => by
    rw [quiescence_succ_eq] at h
    obtain ⟨subLen, _, h⟩ := bind_ok.1 h
    obtain ⟨score, _, h⟩ := bind_ok.1 h
    obtain ⟨s1, hs1, h⟩ := bind_ok.1 h
    have e1 := qLog_same hs1
    have hn1 : s1.nodes = s.nodes + 1 := e1.2.1
    have hl1 : Late env s1 := hl.mono (by rw [e1.1]; exact Nat.le_refl _)
    split at h
    · simp only [pure_ok, Prod.mk.injEq] at h; rw [← h.2.2]; omega
    · obtain ⟨ms, _, h⟩ := bind_ok.1 h
      obtain ⟨r, hr, h⟩ := bind_ok.1 h
      simp only [pure_ok, Prod.mk.injEq] at h; rw [← h.2.2]
      cases hms : env.sortFn ms with
      | nil =>
        rw [hms] at hr
        simp only [qLoop, pure_ok] at hr; subst hr
        dsimp only; omega
      | cons mv rest =>
        rw [hms] at hr
        obtain ⟨q, v1, l1, s2, _, hch, _, rfl⟩ := qLoop_late_elim hr (fun q v l s2 hc =>
          hl1.mono (quiescence_frame (tickLe_rel env) fuel _ _ _ _ _ _ _ _ _ _ hc))
        have := quiescence_late_nodes fuel hl1 hch
        simp only [SS.afterBreak_nodes]
        omega

/-- an alpha-beta node entered after the deadline: the first move of every level down to the leaf, the leaf's
    leftmost quiescence line — at most `max qfuel 1` evaluated nodes -/
theorem alphaBeta_late_nodes {env : Env} {qfuel : Nat} : ∀ (rem : Nat) {p : Position} {idx depth : Nat}
    {alpha beta : Int} {curLen : Nat} {s : SS} {v : Int} {l : Nat} {s' : SS}, Late env s →
    alphaBeta env qfuel rem p idx depth alpha beta curLen s = .ok (v, l, s') → s'.nodes ≤ s.nodes + max qfuel 1
  | 0, p, idx, depth, alpha, beta, curLen, s, v, l, s', hl, h => by
    simp only [alphaBeta] at h
    obtain ⟨_, _, h⟩ := bind_ok.1 h
    have := quiescence_late_nodes qfuel hl h
    omega
  | rem + 1, p, idx, depth, alpha, beta, curLen, s, v, l, s', hl, h => by
    simp only [alphaBeta] at h
    obtain ⟨subLen, _, h⟩ := bind_ok.1 h
    obtain ⟨ms, _, h⟩ := bind_ok.1 h
    split at h
    · obtain ⟨tv, _, h⟩ := bind_ok.1 h
      simp only [pure_ok, Prod.mk.injEq] at h; rw [← h.2.2]; dsimp only; omega
    · obtain ⟨r, hr, h⟩ := bind_ok.1 h
      simp only [pure_ok, Prod.mk.injEq] at h; rw [← h.2.2]
      generalize hs2 : ({ s with matched := (applyPvBonus s.cand s.matched depth ms).2 } : SS) = s2 at hr
      have hl2 : Late env s2 := by rw [← hs2]; exact hl
      have hn2 : s2.nodes = s.nodes := by rw [← hs2]
      cases hms : env.sortFn (applyPvBonus s.cand s.matched depth ms).1 with
      | nil =>
        rw [hms] at hr
        simp only [abLoop, pure_ok] at hr; subst hr
        dsimp only; omega
      | cons mv rest =>
        rw [hms] at hr
        by_cases hi : s2.interrupted = true
        · rw [abLoop_cons_eq, if_pos hi] at hr
          simp only [pure_ok] at hr; subst hr
          dsimp only; omega
        · have hi' : s2.interrupted = false := by simpa using hi
          obtain ⟨q, x, _, hch, _, hac⟩ := abLoop_late_elim hr hi' (fun q x hc =>
            hl2.mono (alphaBeta_frame (tickLe_rel env) qfuel rem _ _ _ _ _ _ _ _ _ _ hc))
          obtain ⟨xv, xl, xs⟩ := x
          have := alphaBeta_late_nodes rem hl2 hch
          have := (abAfterChild_ok hac).1
          dsimp only at *
          omega

/-- an iteration entered after the deadline searches its first root move only (down its leftmost line) -/
theorem startAlphaBeta_late_nodes {env : Env} {qfuel : Nat} {p : Position} {target curLen : Nat} {s : SS}
    {v : Int} {one : Bool} {l : Nat} {s' : SS} (hl : Late env s)
    (h : startAlphaBeta env qfuel p target curLen s = .ok (v, one, l, s')) : s'.nodes ≤ s.nodes + max qfuel 1 := by
  simp only [startAlphaBeta] at h
  obtain ⟨subLen, _, h⟩ := bind_ok.1 h
  obtain ⟨ms, _, h⟩ := bind_ok.1 h
  split at h
  · obtain ⟨tv, _, h⟩ := bind_ok.1 h
    simp only [pure_ok, Prod.mk.injEq] at h; rw [← h.2.2.2]; dsimp only; omega
  · obtain ⟨r, hr, h⟩ := bind_ok.1 h
    simp only [pure_ok, Prod.mk.injEq] at h; rw [← h.2.2.2]
    generalize hs2 : SS.mk s.rows s.killers s.nodes s.interrupted s.tick (applyPvBonus s.cand s.matched 0 ms).2 s.cand
        (env.sortFn (applyPvBonus s.cand s.matched 0 ms).1) 0 s.out = s2 at hr
    have hl2 : Late env s2 := by rw [← hs2]; exact hl
    have hn2 : s2.nodes = s.nodes := by rw [← hs2]
    cases hms : env.sortFn (applyPvBonus s.cand s.matched 0 ms).1 with
    | nil =>
      rw [hms] at hr
      simp only [rootLoop, pure_ok] at hr; subst hr
      dsimp only; omega
    | cons mv rest =>
      rw [hms] at hr
      by_cases hi : s2.interrupted = true
      · rw [rootLoop_cons_eq, if_pos hi] at hr
        simp only [pure_ok] at hr; subst hr
        dsimp only; omega
      · have hi' : s2.interrupted = false := by simpa using hi
        obtain ⟨q, x, _, hch, _, hac⟩ := rootLoop_late_elim hr hi' (fun q x hc =>
          hl2.mono (alphaBeta_frame (tickLe_rel env) qfuel _ _ _ _ _ _ _ _ _ _ _ hc))
        obtain ⟨xv, xl, xs⟩ := x
        have := alphaBeta_late_nodes _ hl2 hch
        have := (rootAfterChild_ok hac).1
        dsimp only at *
        omega

/-! ### the loops entered after the deadline, generically in `child` -/

/-- a node function entered in a late state evaluates at most `B` nodes -/
def NodeLate (env : Env) (B : Nat) (f : NodeFn) : Prop :=
  ∀ p idx d a b l s v l' s', Late env s → f p idx d a b l s = .ok (v, l', s') → s'.nodes ≤ s.nodes + B

theorem qLoop_late_nodes {env : Env} {B : Nat} {child : NodeFn} (hb : NodeLate env B child)
    (hf : NodeFrame TickLe child) {p : Position} {idx depth : Nat} {beta : Int} {ms : List RMove} {alpha : Int}
    {curLen subLen : Nat} {s : SS} {r : LoopOut} (hl : Late env s)
    (h : qLoop env child p idx depth beta ms alpha curLen subLen s = .ok r) : r.st.nodes ≤ s.nodes + B := by
  cases ms with
  | nil => simp only [qLoop, pure_ok] at h; subst h; exact Nat.le_add_right _ _
  | cons mv rest =>
    obtain ⟨q, v, l, s1, _, hch, _, rfl⟩ := qLoop_late_elim h (fun q v l s1 hc => hl.mono (hf _ _ _ _ _ _ _ _ _ _ hc))
    have := hb _ _ _ _ _ _ _ _ _ _ hl hch
    simpa using this

theorem abLoop_late_nodes {env : Env} {B : Nat} {child : NodeFn} (hb : NodeLate env B child)
    (hf : NodeFrame TickLe child) {p : Position} {idx depth : Nat} {beta : Int} {ms : List RMove} {alpha : Int}
    {curLen subLen : Nat} {s : SS} {r : LoopOut} (hl : Late env s)
    (h : abLoop env child p idx depth beta ms alpha curLen subLen s = .ok r) : r.st.nodes ≤ s.nodes + B := by
  cases ms with
  | nil => simp only [abLoop, pure_ok] at h; subst h; exact Nat.le_add_right _ _
  | cons mv rest =>
    by_cases hi : s.interrupted = true
    · rw [abLoop_cons_eq, if_pos hi] at h
      simp only [pure_ok] at h; subst h; exact Nat.le_add_right _ _
    · have hi' : s.interrupted = false := by simpa using hi
      obtain ⟨q, x, _, hch, _, hac⟩ := abLoop_late_elim h hi' (fun q x hc => hl.mono (hf _ _ _ _ _ _ _ _ _ _ hc))
      obtain ⟨xv, xl, xs⟩ := x
      have := hb _ _ _ _ _ _ _ _ _ _ hl hch
      rw [(abAfterChild_ok hac).1]
      exact this

theorem rootLoop_late_nodes {env : Env} {B : Nat} {child : NodeFn} (hb : NodeLate env B child)
    (hf : NodeFrame TickLe child) {p : Position} {target : Nat} {ms : List RMove} {alpha : Int}
    {curLen subLen : Nat} {s : SS} {r : LoopOut} (hl : Late env s)
    (h : rootLoop env child p target ms alpha curLen subLen s = .ok r) : r.st.nodes ≤ s.nodes + B := by
  cases ms with
  | nil => simp only [rootLoop, pure_ok] at h; subst h; exact Nat.le_add_right _ _
  | cons mv rest =>
    by_cases hi : s.interrupted = true
    · rw [rootLoop_cons_eq, if_pos hi] at h
      simp only [pure_ok] at h; subst h; exact Nat.le_add_right _ _
    · have hi' : s.interrupted = false := by simpa using hi
      obtain ⟨q, x, _, hch, _, hac⟩ := rootLoop_late_elim h hi' (fun q x hc => hl.mono (hf _ _ _ _ _ _ _ _ _ _ hc))
      obtain ⟨xv, xl, xs⟩ := x
      have := hb _ _ _ _ _ _ _ _ _ _ hl hch
      rw [(rootAfterChild_ok hac).1]
      exact this

theorem quiescence_nodeLate (env : Env) (fuel : Nat) : NodeLate env fuel (quiescence env fuel) :=
  fun _ _ _ _ _ _ _ _ _ _ hl h => quiescence_late_nodes fuel hl h

theorem alphaBeta_nodeLate (env : Env) (qfuel rem : Nat) : NodeLate env (max qfuel 1) (alphaBeta env qfuel rem) :=
  fun _ _ _ _ _ _ _ _ _ _ hl h => alphaBeta_late_nodes rem hl h

theorem NodeLate.mono {env : Env} {B B' : Nat} {f : NodeFn} (h : NodeLate env B f) (hB : B ≤ B') : NodeLate env B' f :=
  fun p idx d a b l s v l' s' hl hr => Nat.le_trans (h p idx d a b l s v l' s' hl hr) (Nat.add_le_add_left hB _)

/-- the deepening loop entered after the deadline: the iteration it starts is cut to one line and discarded, the
    result of the last completed depth stands -/
theorem deepenLoop_late {env : Env} {qfuel : Nat} {p : Position} {maxDepth n cur : Nat} {best : Int}
    {done len0 : Nat} {s : SS} {best' : Int} {done' : Nat} {s' : SS} (hl : Late env s)
    (h : deepenLoop env qfuel p maxDepth n cur best done len0 s = .ok (best', done', s')) :
    best' = best ∧ done' = done ∧ s'.nodes ≤ s.nodes + max qfuel 1 := by
  cases n with
  | zero =>
    simp only [deepenLoop, pure_ok, Prod.mk.injEq] at h
    obtain ⟨rfl, rfl, rfl⟩ := h
    exact ⟨rfl, rfl, by omega⟩
  | succ n =>
    by_cases hcur : cur > maxDepth
    · rw [deepenLoop_succ_eq, if_pos hcur] at h
      simp only [pure_ok, Prod.mk.injEq] at h
      obtain ⟨rfl, rfl, rfl⟩ := h
      exact ⟨rfl, rfl, by omega⟩
    · have h0 := h
      rw [deepenLoop_succ_eq, if_neg hcur] at h
      obtain ⟨x, hsab, _⟩ := bind_ok.1 h
      have hlx : Late env x.2.2.2 := hl.mono (startAlphaBeta_frame (tickLe_rel env) hsab)
      rw [deepenLoop_no_new_iteration hcur hsab hlx] at h0
      simp only [Except.ok.injEq, Prod.mk.injEq] at h0
      obtain ⟨rfl, rfl, rfl⟩ := h0
      have := startAlphaBeta_late_nodes hl hsab
      exact ⟨rfl, rfl, this⟩

/-- **a search started after its deadline** (`ClockMono`, the clock answers `true` from the first consultation on):
    iteration 1 has no deadline test before its first root move, so that move is searched — down its leftmost line
    only, at most `max qfuel 1` evaluated nodes in all —, no second iteration is started, and the result of depth 1 is
    announced: `bestmove m` with `info … depth 1` (or `bestmove 0000` for a root without legal moves). -/
theorem iterDeep_late_start {env : Env} {qfuel : Nat} {p : Position} {maxDepth : Nat} {killers : Killers}
    {rows : Array (Array Move)} {len0 : Nat} {s : SS} (hm : ClockMono env) (h0 : env.timeUp 0 = true)
    (h : iterDeep env qfuel p maxDepth killers rows len0 = .ok s) :
    s.nodes ≤ max qfuel 1 ∧
    ((∃ score rest, s.out = .bestmoveNone :: .infoTerminal score :: rest) ∨
     (∃ m best pv rest, s.out = .bestmove m :: .infoPv best 1 s.nodes pv :: rest)) := by
  have hl0 : Late env (initSS rows killers) := late_of_timeUp hm h0 (Nat.zero_le _)
  obtain ⟨score, one, l, s1, hsab, hc⟩ := iterDeep_cases h
  have hn := startAlphaBeta_late_nodes hl0 hsab
  have hl1 : Late env s1 := hl0.mono (startAlphaBeta_frame (tickLe_rel env) hsab)
  have hn1 : s1.nodes ≤ max qfuel 1 := by
    have : (initSS rows killers).nodes = 0 := rfl
    omega
  rcases hc with ⟨_, rfl⟩ | ⟨_, best, done, s2, m, tl, hd, hcand, rfl⟩
  · exact ⟨hn1, .inl ⟨score, _, rfl⟩⟩
  · have ht : env.timeUp ((copyBestLine s1 l).consult.tick - 1) = true := by
      show env.timeUp (s1.tick + 1 - 1) = true
      rw [Nat.add_sub_cancel]; exact hl1.now
    rw [deepenFrom_late ht] at hd
    simp only [Except.ok.injEq, Prod.mk.injEq] at hd
    obtain ⟨rfl, rfl, rfl⟩ := hd
    exact ⟨hn1, .inr ⟨m, score, _, _, rfl⟩⟩

end Magog.Model
