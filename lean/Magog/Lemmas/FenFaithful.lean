import Magog.Lemmas.Fen

/-! The accepted position is the one the FEN fields denote (`FenSpec.FenFaithful`). -/

set_option linter.unusedSimpArgs false

namespace Magog.FenLemmas
open Magog Magog.Model Magog.FenSpec

theorem length_six {α : Type} {l : List α} (h : l.length = 6) :
    ∃ a b c d e f, l = [a, b, c, d, e, f] := by
  match l, h with
  | [a, b, c, d, e, f], _ => exact ⟨a, b, c, d, e, f, rfl⟩

/-- bit facts about the flag word built from the five tests -/
theorem flags_bits (b0 b1 b2 b3 b4 : Bool) :
    let fl0 := if b0 then FWhiteTurn else 0
    let fl1 := if b1 then fl0 ||| FWK else fl0
    let fl2 := if b2 then fl1 ||| FWQ else fl1
    let fl3 := if b3 then fl2 ||| FBK else fl2
    let fl4 := if b4 then fl3 ||| FBQ else fl3
    (fl4 &&& FWhiteTurn != 0) = b0 ∧ (fl4 &&& FWK != 0) = b1 ∧ (fl4 &&& FWQ != 0) = b2 ∧
    (fl4 &&& FBK != 0) = b3 ∧ (fl4 &&& FBQ != 0) = b4 ∧ fl4 < 32 := by
  cases b0 <;> cases b1 <;> cases b2 <;> cases b3 <;> cases b4 <;> decide

theorem flagsOf_bits (f0 f1 f2 f3 f4 f5 : Bytes) :
    (flagsOf [f0, f1, f2, f3, f4, f5] &&& FWhiteTurn != 0) = (f1 == [119]) ∧
    (flagsOf [f0, f1, f2, f3, f4, f5] &&& FWK != 0) = containsByte f2 75 ∧
    (flagsOf [f0, f1, f2, f3, f4, f5] &&& FWQ != 0) = containsByte f2 81 ∧
    (flagsOf [f0, f1, f2, f3, f4, f5] &&& FBK != 0) = containsByte f2 107 ∧
    (flagsOf [f0, f1, f2, f3, f4, f5] &&& FBQ != 0) = containsByte f2 113 ∧
    flagsOf [f0, f1, f2, f3, f4, f5] < 32 :=
  flags_bits (f1 == [119]) (containsByte f2 75) (containsByte f2 81) (containsByte f2 107) (containsByte f2 113)

theorem epParse_faithful (eps : Bytes) (ep : Nat) (h : epParse eps = .ok ep) :
    (eps.length ≠ 2 → ep = InvalidSq) ∧
    (∀ fc rc : Nat, eps = [fc, rc] →
      97 ≤ fc ∧ fc ≤ 104 ∧ (rc = 51 ∨ rc = 54) ∧ ep = (fc - 97) + (rc - 49) * 16) := by
  unfold epParse at h
  split at h
  · next fc rc =>
    split at h
    · cases h
    · next hc =>
      simp only [Bool.or_eq_true, Bool.and_eq_true, decide_eq_true_eq, bne_iff_ne, ne_eq, not_or, not_and,
        Decidable.not_not, Nat.not_lt] at hc
      simp only [Except.ok.injEq] at h
      subst h
      obtain ⟨⟨h1, h2⟩, h3⟩ := hc
      have hrc : rc = 51 ∨ rc = 54 := by
        by_cases e : rc = 51
        · exact Or.inl e
        · exact Or.inr (h3 e)
      refine ⟨by simp, ?_⟩
      intro fc' rc' e
      simp only [List.cons.injEq, and_true] at e
      obtain ⟨rfl, rfl⟩ := e
      refine ⟨h1, h2, hrc, ?_⟩
      rcases hrc with rfl | rfl <;> simp
  · next hne =>
    simp only [Except.ok.injEq] at h
    subst h
    refine ⟨fun _ => rfl, ?_⟩
    intro fc rc e
    exact absurd e (hne fc rc)

theorem faithful_of_spec (s : Bytes) (q : Position) (h : parseFen s = .ok (.ok q)) : FenFaithful s q := by
  obtain ⟨r, hr, hs⟩ := parseFen_spec s
  rw [h] at hr
  simp only [Except.ok.injEq] at hr
  obtain ⟨hI, _, hasc, h6, h8, ⟨p0, hRF, hb, hfl, hep, n, hn1, hn2, hn3, hn4⟩, hturn, heps⟩ := hs q hr.symm
  obtain ⟨f0, f1, f2, f3, f4, f5, hf⟩ := length_six h6
  rw [hf] at h8 hRF hfl hep hn1 hturn heps hn4
  simp only [List.getD_cons_zero, List.getD_cons_succ] at h8 hRF hep hn1 hturn heps
  obtain ⟨g0, g1, g2, g3, g4, g5⟩ := flagsOf_bits f0 f1 f2 f3 f4 f5
  obtain ⟨e1, e2⟩ := epParse_faithful f3 q.ep hep
  have hwt : whiteTurn q = (f1 == [119]) := by unfold whiteTurn; rw [hfl]; exact g0
  refine ⟨hasc, f0, f1, f2, f3, f4, f5, hf, h8, ?_, ?_, ?_, ?_, ?_, ?_, ?_, heps, e1, e2, n, hn1, hn2, hn3, ?_⟩
  · intro idx row hrow
    obtain ⟨hl, hv⟩ := hRF.1 idx row hrow
    refine ⟨hl, ?_⟩
    intro j v hjv
    have hj : j < 8 := by
      rcases Nat.lt_or_ge j (expandRank row).length with h' | h'
      · omega
      · rw [List.getElem?_eq_none h'] at hjv; cases hjv
    have := hv j v hjv
    simp only [Nat.zero_add] at this
    rw [← hb] at this
    exact getElem?_of_getD_lt this (by rw [hI.size]; omega)
  · rcases hturn with e | e
    · exact Or.inl ⟨e, by rw [hwt, e]; rfl⟩
    · exact Or.inr ⟨e, by rw [hwt, e]; rfl⟩
  · rw [hfl]; exact g1
  · rw [hfl]; exact g2
  · rw [hfl]; exact g3
  · rw [hfl]; exact g4
  · rw [hfl]; exact g5
  · rw [hn4]; unfold whiteTurn; rw [hfl]

end Magog.FenLemmas
