import Magog.Lemmas.FenWriteTail
import Magog.Lemmas.LegalMoves

/-! C08, converse of the round trip: a well-formed model position (`Inv`) in which the side not to move is
    not in check (`MM.OppSafe`) abstracts to a legal position of the rules specification (`Spec.Legal`).
    Every position the FEN loader accepts is of this kind (`Props.C02.fen_inv`, `Props.C08.fen_oppSafe`).

    Route: `Inv p` gives `FenWrite.BoardIs (abs p) p.board` (the 0x88 board holds exactly the men of the
    abstraction), from which the counting clauses follow by the counting lemmas of the round-trip proof
    (`FenWriteCount.lean`), and the castling / en-passant / back-rank clauses by reading single squares. The
    clauses are collected in `FenWrite.LegalFacts`, which is equivalent to `Spec.Legal` (`legal_iff_facts`). -/

set_option linter.unusedSimpArgs false

namespace Magog.FenLegal
open Magog Magog.Model Magog.FenSpec Magog.FenLemmas Magog.FenWrite Magog.Atk Magog.Geo

/-! ### `LegalFacts` is `Spec.Legal` -/

theorem legal_of_facts {P : Spec.Pos} (h : LegalFacts P) : Spec.Legal P = true := by
  simp only [Spec.Legal, Bool.and_eq_true, beq_iff_eq, decide_eq_true_eq, Bool.not_eq_true']
  refine ⟨⟨⟨⟨⟨⟨⟨⟨⟨⟨⟨⟨⟨h.size, h.wKing⟩, h.bKing⟩, h.safe⟩, ?_⟩, h.wPawns⟩, h.bPawns⟩, h.wMen⟩, h.bMen⟩,
    ?_⟩, ?_⟩, ?_⟩, ?_⟩, ?_⟩
  · rw [List.all_eq_true]
    intro s hs
    have hs64 : s < 64 := by simpa [Spec.allSq] using hs
    cases hat : P.at s with
    | none => rfl
    | some m =>
      obtain ⟨c, k⟩ := m
      cases k <;> try rfl
      have := h.backPawn s hs64 c hat
      simp [this.1, this.2]
  · cases hk : P.wk with
    | false => rfl
    | true => obtain ⟨a, b⟩ := h.wk hk; simp [a, b]
  · cases hk : P.wq with
    | false => rfl
    | true => obtain ⟨a, b⟩ := h.wq hk; simp [a, b]
  · cases hk : P.bk with
    | false => rfl
    | true => obtain ⟨a, b⟩ := h.bk hk; simp [a, b]
  · cases hk : P.bq with
    | false => rfl
    | true => obtain ⟨a, b⟩ := h.bq hk; simp [a, b]
  · cases he : P.ep with
    | none => rfl
    | some e =>
      obtain ⟨h64, hw, hb⟩ := h.ep e he
      simp only [Bool.and_eq_true, decide_eq_true_eq]
      refine ⟨h64, ?_⟩
      cases ht : P.turn with
      | white =>
        obtain ⟨a, b, c, d⟩ := hw ht
        simp [a, b, c, d]
      | black =>
        obtain ⟨a, b, c, d⟩ := hb ht
        simp [a, b, c, d]

theorem legal_iff_facts {P : Spec.Pos} : Spec.Legal P = true ↔ LegalFacts P :=
  ⟨legalFacts, legal_of_facts⟩

/-! ### the board of a well-formed position holds exactly the men of its abstraction -/

theorem abs_at (p : Position) {i : Nat} (hi : i < 64) :
    (abs p).at i = decodePiece (p.board.getD (to88 i) 0) := by
  simp [Spec.Pos.at, abs, absBoard, Array.getD_eq_getD_getElem?, hi]

theorem optCode_decode {v : Nat} (hv : v = 0 ∨ v ∈ pieceCodes) : optCode (decodePiece v) = v := by
  have : ∀ v ∈ 0 :: pieceCodes, optCode (decodePiece v) = v := by decide
  exact this v (List.mem_cons.2 hv)

theorem invalid_of_off : ∀ i < 128, ¬ i % 16 < 8 → isValid i = false := by decide

theorem boardIs_abs {p : Position} (hI : Inv p) : BoardIs (abs p) p.board := by
  refine ⟨hI.board.size, fun i hi => ?_, fun i hi hv => ?_⟩
  · rw [abs_at p hi]
    obtain ⟨h1, h2⟩ := mem_sq88.1 (to88_mem hi)
    obtain ⟨v, hv, hc⟩ := hI.board.codes _ h1 h2
    rw [getD_of_some hv, optCode_decode hc]
  · exact getD_of_some (hI.offBoard i hi (invalid_of_off i hi hv))

/-- a slot that holds a man is an on-board slot -/
theorem valid_of_man {p : Position} (hI : Inv p) {s v : Nat} (h : p.board[s]? = some v) (hv : v ≠ 0) :
    s < 128 ∧ isValid s = true :=
  InvFen.valid_of_ne_zero hI.board.size hI.offBoard h hv

/-! ### counting -/

/-- the number of board slots holding one of `codes` is the number of such men of the abstraction -/
theorem countCodes_boardIs {P : Spec.Pos} {b : Array Nat} (hb : BoardIs P b) (codes : List Nat)
    (g : Spec.Man → Bool) (hg : ∀ m, codes.contains (manCode m) = g m) (h0 : (0 : Nat) ∉ codes) :
    countCodes b codes = Spec.countMen P g := by
  obtain ⟨hs, hon, hoff⟩ := hb
  have h0' : codes.contains 0 = false := by simpa using h0
  unfold countCodes
  rw [toList_eq_map b hs, List.filter_map, List.length_map, ← List.countP_eq_length_filter]
  rw [count128 _ (fun i hi hv => by simp only [Function.comp, hoff i hi hv, h0'])]
  unfold Spec.countMen Spec.allSq
  apply List.countP_congr
  intro i hi
  simp only [Function.comp, hon i (List.mem_range.1 hi)]
  cases P.at i with
  | none => simpa [optCode] using h0
  | some m => simp [optCode, ← hg m]

/-- the three lists of one side, as `ListSound` / `ListComplete` facts -/
theorem side_lists {p : Position} (hI : Inv p) (w : Bool) :
    (ListSound p.board (p.side w).pawns [pawnOf w] ∧ ListComplete p.board (p.side w).pawns [pawnOf w]) ∧
    (ListSound p.board (p.side w).pieces (officersOf w) ∧ ListComplete p.board (p.side w).pieces (officersOf w)) ∧
    (ListSound p.board [(p.side w).king] [kingOf w] ∧ ListComplete p.board [(p.side w).king] [kingOf w]) := by
  have hs := MMAbs.inv_side hI w
  have z : ∀ w : Bool, pawnOf w ≠ 0 ∧ kingOf w ≠ 0 ∧ ∀ c ∈ officersOf w, c ≠ 0 := by decide
  obtain ⟨zp, zk, zo⟩ := z w
  refine ⟨⟨fun s hm => ?_, fun s pc hb hpc => ?_⟩, ⟨fun s hm => ?_, fun s pc hb hpc => ?_⟩,
    ⟨fun s hm => ?_, fun s pc hb hpc => ?_⟩⟩
  · obtain ⟨a, b, c⟩ := (hs.pawns s).1 hm
    exact ⟨a, b, _, List.mem_singleton.2 rfl, c⟩
  · have e := List.mem_singleton.1 hpc
    subst e
    obtain ⟨a, b⟩ := valid_of_man hI hb zp
    exact (hs.pawns s).2 ⟨a, b, hb⟩
  · exact (hs.pieces s).1 hm
  · obtain ⟨a, b⟩ := valid_of_man hI hb (zo pc hpc)
    exact (hs.pieces s).2 ⟨a, b, pc, hpc, hb⟩
  · have e := List.mem_singleton.1 hm
    subst e
    obtain ⟨a, b, c⟩ := (hs.king _).1 rfl
    exact ⟨a, b, _, List.mem_singleton.2 rfl, c⟩
  · have e := List.mem_singleton.1 hpc
    subst e
    obtain ⟨a, b⟩ := valid_of_man hI hb zk
    exact List.mem_singleton.2 ((hs.king s).2 ⟨a, b, hb⟩)

theorem side_nodup {p : Position} (hI : Inv p) (w : Bool) :
    (p.side w).pawns.Nodup ∧ (p.side w).pieces.Nodup := by
  cases w
  · exact ⟨hI.bpNodup, hI.bpcNodup⟩
  · exact ⟨hI.wpNodup, hI.wpcNodup⟩

theorem side_len {p : Position} (hI : Inv p) (w : Bool) :
    (p.side w).pawns.length ≤ 8 ∧ (p.side w).pawns.length + (p.side w).pieces.length ≤ 15 := by
  cases w
  · exact ⟨hI.bpLen, hI.bLen⟩
  · exact ⟨hI.wpLen, hI.wLen⟩

/-- the counting clauses of `Spec.Legal`, for one colour -/
theorem counts_abs {p : Position} (hI : Inv p) (w : Bool) :
    Spec.kingsOf (abs p) (colorOf w) = 1 ∧ Spec.pawnsOf (abs p) (colorOf w) ≤ 8 ∧
    Spec.pawnsOf (abs p) (colorOf w) + Spec.othersOf (abs p) (colorOf w) ≤ 15 := by
  have hb := boardIs_abs hI
  have hsz := hI.board.size
  obtain ⟨⟨ps, pc⟩, ⟨os, oc⟩, ⟨ks, kc⟩⟩ := side_lists hI w
  obtain ⟨pn, on⟩ := side_nodup hI w
  obtain ⟨pl, ol⟩ := side_len hI w
  have z : ∀ w : Bool, (0 : Nat) ∉ [pawnOf w] ∧ (0 : Nat) ∉ [kingOf w] ∧ (0 : Nat) ∉ officersOf w ∧
      (∀ x, x ∈ [pawnOf w] → x ∉ officersOf w) ∧ (0 : Nat) ∉ [pawnOf w] ++ officersOf w := by decide
  obtain ⟨z1, z2, z3, z4, z5⟩ := z w
  have e1 : (1 : Nat) = countCodes p.board [kingOf w] :=
    length_eq_countCodes (l := [(p.side w).king]) hsz z2 (List.nodup_singleton _) ks kc
  have e2 := length_eq_countCodes hsz z1 pn ps pc
  have e3 := length_append_eq_countCodes hsz z1 z3 z4 pn ps pc on os oc
  have k1 : countCodes p.board [kingOf w] = Spec.kingsOf (abs p) (colorOf w) :=
    countCodes_boardIs hb _ _ (by apply man_cases; cases w <;> decide) z2
  have k2 : countCodes p.board [pawnOf w] = Spec.pawnsOf (abs p) (colorOf w) :=
    countCodes_boardIs hb _ _ (by apply man_cases; cases w <;> decide) z1
  have k3 : countCodes p.board ([pawnOf w] ++ officersOf w) =
      Spec.pawnsOf (abs p) (colorOf w) + Spec.othersOf (abs p) (colorOf w) := by
    rw [countCodes_boardIs hb _ (fun m => m.color == colorOf w && m.kind != .king)
      (by apply man_cases; cases w <;> decide) z5]
    exact countMen_add (abs p) _ _ _ (by apply man_cases; cases w <;> decide)
  refine ⟨?_, ?_, ?_⟩
  · rw [← k1, ← e1]
  · rw [← k2, ← e2]; exact pl
  · rw [← k3, ← e3]; exact ol

/-! ### single squares: back ranks, castling, en passant -/

/-- the abstraction's square `i` holds what the 0x88 slot decodes to -/
theorem abs_at_of_some {p : Position} {i v : Nat} (hi : i < 64) (h : p.board[to88 i]? = some v) :
    (abs p).at i = decodePiece v := by
  rw [abs_at p hi, getD_of_some h]

theorem abs_at_of_getD {p : Position} {i v : Nat} (hi : i < 64) (h : p.board.getD (to88 i) 0 = v) :
    (abs p).at i = decodePiece v := by
  rw [abs_at p hi, h]

theorem rank_table : ∀ s < 64,
    (Model.rankOf (to88 s) ≠ Gen.Rank1 → Spec.rankOf s ≠ 0) ∧ (Model.rankOf (to88 s) ≠ Gen.Rank8 → Spec.rankOf s ≠ 7) := by
  decide

theorem backPawn_abs {p : Position} (hI : Inv p) (s : Nat) (hs : s < 64) (c : Spec.Color)
    (h : (abs p).at s = some ⟨c, .pawn⟩) : Spec.rankOf s ≠ 0 ∧ Spec.rankOf s ≠ 7 := by
  have hb := (boardIs_abs hI).2.1 s hs
  rw [h] at hb
  have hne : optCode (some (⟨c, .pawn⟩ : Spec.Man)) ≠ 0 := manCode_ne_zero _
  have hget := getElem?_of_getD hb hne
  have hp : p.board[to88 s]? = some Gen.WPawn ∨ p.board[to88 s]? = some Gen.BPawn := by
    cases c
    · exact Or.inl hget
    · exact Or.inr hget
  obtain ⟨r1, r8⟩ := hI.noBackPawn (to88 s) hp
  exact ⟨(rank_table s hs).1 r1, (rank_table s hs).2 r8⟩

/-- the four castling clauses -/
theorem castling_abs {p : Position} (hI : Inv p) :
    ((abs p).wk = true → (abs p).at 4 = some ⟨.white, .king⟩ ∧ (abs p).at 7 = some ⟨.white, .rook⟩) ∧
    ((abs p).wq = true → (abs p).at 4 = some ⟨.white, .king⟩ ∧ (abs p).at 0 = some ⟨.white, .rook⟩) ∧
    ((abs p).bk = true → (abs p).at 60 = some ⟨.black, .king⟩ ∧ (abs p).at 63 = some ⟨.black, .rook⟩) ∧
    ((abs p).bq = true → (abs p).at 60 = some ⟨.black, .king⟩ ∧ (abs p).at 56 = some ⟨.black, .rook⟩) := by
  have hc := hI.castling
  simp only [castlingConsistent, Bool.and_eq_true, Bool.not_eq_true', Bool.and_eq_false_iff,
    Bool.or_eq_false_iff, bne_eq_false_iff_eq] at hc
  obtain ⟨⟨⟨c1, c2⟩, c3⟩, c4⟩ := hc
  have d : decodePiece Gen.WKing = some ⟨.white, .king⟩ ∧ decodePiece Gen.WRook = some ⟨.white, .rook⟩ ∧
      decodePiece Gen.BKing = some ⟨.black, .king⟩ ∧ decodePiece Gen.BRook = some ⟨.black, .rook⟩ := by decide
  obtain ⟨d1, d2, d3, d4⟩ := d
  refine ⟨fun h => ?_, fun h => ?_, fun h => ?_, fun h => ?_⟩
  · have hf : (p.flags &&& FWK != 0) = true := h
    rcases c1 with c | ⟨a, b⟩
    · rw [c] at hf; cases hf
    · exact ⟨by rw [← d1]; exact abs_at_of_getD (by omega) a, by rw [← d2]; exact abs_at_of_getD (by omega) b⟩
  · have hf : (p.flags &&& FWQ != 0) = true := h
    rcases c2 with c | ⟨a, b⟩
    · rw [c] at hf; cases hf
    · exact ⟨by rw [← d1]; exact abs_at_of_getD (by omega) a, by rw [← d2]; exact abs_at_of_getD (by omega) b⟩
  · have hf : (p.flags &&& FBK != 0) = true := h
    rcases c3 with c | ⟨a, b⟩
    · rw [c] at hf; cases hf
    · exact ⟨by rw [← d3]; exact abs_at_of_getD (by omega) a, by rw [← d4]; exact abs_at_of_getD (by omega) b⟩
  · have hf : (p.flags &&& FBQ != 0) = true := h
    rcases c4 with c | ⟨a, b⟩
    · rw [c] at hf; cases hf
    · exact ⟨by rw [← d3]; exact abs_at_of_getD (by omega) a, by rw [← d4]; exact abs_at_of_getD (by omega) b⟩

/-- geometry of the en-passant square, by enumeration of the 64 squares -/
theorem ep_geo : ∀ e < 64,
    (Model.rankOf (to88 e) = Gen.Rank6 → Spec.rankOf e = 5 ∧ to88 e - Gen.UnitRank = to88 (e - 8) ∧
      to88 e + Gen.UnitRank = to88 (e + 8) ∧ e - 8 < 64 ∧ e + 8 < 64) ∧
    (Model.rankOf (to88 e) = Gen.Rank3 → Spec.rankOf e = 2 ∧ to88 e - Gen.UnitRank = to88 (e - 8) ∧
      to88 e + Gen.UnitRank = to88 (e + 8) ∧ e - 8 < 64 ∧ e + 8 < 64) := by decide

theorem ep_abs {p : Position} (hI : Inv p) (e : Nat) (he : (abs p).ep = some e) :
    e < 64 ∧
    ((abs p).turn = .white → Spec.rankOf e = 5 ∧ (abs p).at e = none ∧ (abs p).at (e - 8) = some ⟨.black, .pawn⟩ ∧
      (abs p).at (e + 8) = none) ∧
    ((abs p).turn = .black → Spec.rankOf e = 2 ∧ (abs p).at e = none ∧ (abs p).at (e + 8) = some ⟨.white, .pawn⟩ ∧
      (abs p).at (e - 8) = none) := by
  have he' : (if isValid p.ep = true then some (to64 p.ep) else none) = some e := he
  have hv : isValid p.ep = true := by
    cases h : isValid p.ep with
    | true => rfl
    | false => rw [h] at he'; cases he'
  rw [if_pos hv] at he'
  have hee : to64 p.ep = e := Option.some.inj he'
  have hok : EpOk p := by
    rcases hI.ep with h | h
    · rw [h] at hv; exact absurd hv (by decide)
    · exact h
  obtain ⟨h128, _, h0, hside⟩ := hok
  have hm : p.ep ∈ sq88 := mem_sq88.2 ⟨h128, hv⟩
  have h64 : e < 64 := hee ▸ to64_lt hm
  have h88 : to88 e = p.ep := hee ▸ to88_to64 hm
  have d : decodePiece 0 = none ∧ decodePiece Gen.BPawn = some ⟨.black, .pawn⟩ ∧
      decodePiece Gen.WPawn = some ⟨.white, .pawn⟩ := by decide
  obtain ⟨d0, db, dw⟩ := d
  have hturn : (abs p).turn = if whiteTurn p then .white else .black := rfl
  rw [← h88] at h0 hside
  refine ⟨h64, fun ht => ?_, fun ht => ?_⟩
  · have hw : whiteTurn p = true := by
      cases h : whiteTurn p with
      | true => rfl
      | false => rw [hturn, h] at ht; cases ht
    rw [if_pos hw] at hside
    obtain ⟨r, f, b⟩ := hside
    obtain ⟨g1, g2, g3, g4, g5⟩ := (ep_geo e h64).1 r
    rw [g2] at f; rw [g3] at b
    exact ⟨g1, by rw [← d0]; exact abs_at_of_some h64 h0, by rw [← db]; exact abs_at_of_some g4 f,
      by rw [← d0]; exact abs_at_of_some g5 b⟩
  · have hw : whiteTurn p = false := by
      cases h : whiteTurn p with
      | false => rfl
      | true => rw [hturn, h] at ht; cases ht
    rw [hw] at hside
    simp only [Bool.false_eq_true, if_false] at hside
    obtain ⟨r, f, b⟩ := hside
    obtain ⟨g1, g2, g3, g4, g5⟩ := (ep_geo e h64).2 r
    rw [g3] at f; rw [g2] at b
    exact ⟨g1, by rw [← d0]; exact abs_at_of_some h64 h0, by rw [← dw]; exact abs_at_of_some g5 f,
      by rw [← d0]; exact abs_at_of_some g4 b⟩

/-! ### assembly -/

/-- **A well-formed model position with the side not to move out of check is a legal position of the
    specification.** (`Inv` holds of every accepted FEN and is preserved by every generated move, so this covers
    every position the engine reaches.) -/
theorem legalFacts_of_inv {p : Position} (hI : Inv p) (hS : MM.OppSafe p) : LegalFacts (abs p) := by
  obtain ⟨wk1, wp, wm⟩ := counts_abs hI true
  obtain ⟨bk1, bp, bm⟩ := counts_abs hI false
  obtain ⟨c1, c2, c3, c4⟩ := castling_abs hI
  exact
    { size := by simp [abs, absBoard]
      wKing := wk1, bKing := bk1
      safe := (LegalMoves.oppSafe_iff hI).1 hS
      backPawn := backPawn_abs hI
      wPawns := wp, bPawns := bp, wMen := wm, bMen := bm
      wk := c1, wq := c2, bk := c3, bq := c4
      ep := ep_abs hI }

theorem legal_of_inv {p : Position} (hI : Inv p) (hS : MM.OppSafe p) : Spec.Legal (abs p) = true :=
  legal_of_facts (legalFacts_of_inv hI hS)

/-- for a well-formed model position, `Spec.Legal` of the abstraction is exactly `OppSafe` -/
theorem legal_iff_oppSafe {p : Position} (hI : Inv p) : Spec.Legal (abs p) = true ↔ MM.OppSafe p :=
  ⟨LegalMoves.oppSafe_of_legal hI, legal_of_inv hI⟩

/-! ### the ply of an accepted position -/

theorem ply_of_faithful {s : Bytes} {p : Position} (h : FenFaithful s p) :
    ∃ n : Int, 1 ≤ n ∧ n ≤ (Gen.maxFullMoveCounter : Int) ∧ p.ply = 2 * (n - 1) + (if whiteTurn p then 0 else 1) := by
  obtain ⟨_, _, _, _, _, _, _, _, _, _, _, _, _, _, _, _, _, _, _, n, _, h1, h2, h3⟩ := h
  exact ⟨n, h1, h2, h3⟩

end Magog.FenLegal
