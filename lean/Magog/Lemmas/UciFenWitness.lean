import Magog.Lemmas.UciFen
import Magog.Lemmas.FenCount

/-! The defect witness behind the extra UCI precondition of C17 (`PreF`'s FEN clause with `FenOk := OppSafe`):
    the FEN loader accepts a position in which the side NOT to move is in check; the position is well-formed
    (`Inv`), and `perft 3` on it panics: the generator emits the capture of the enemy king (Re1xe8), `MakeMove`
    does not book it in any list, and two plies later the stale king square is read
    ("Unexpected piece found: 0 at 116"). Hence `OpsTotal.fen` is false for every `G` on which perft is total
    (`opsTotal_fen_false`), and `Inv` alone does not make perft total. -/

namespace Magog.UciTotal
open Magog Magog.Model

/-- White Kf1 Re1, Black Ke8, WHITE to move: Black (not to move) is in check on the e-file -/
def fenCheckWitness : Bytes := FenSpec.strBytes "4k3/8/8/8/8/8/8/4RK2 w - - 0 1"

/-! ### `perftDivide` panics as soon as one root move does -/

/-- the body of `perftDivide`'s loop over the root moves -/
def perftStep (kt : Killers) (cap : Nat) (p : Position) (depth : Nat) (rm : RMove) : M (Move × Nat) := do
  if 1 ≥ cap then throw (.index "posStack" 1) else do
    let r ← makeMove p rm.mov
    if !r.2 then throw (.explicit "Applying move resulted in illegal position") else do
      let n ← perft kt cap (depth - 1) 1 r.1
      pure (rm.mov, n)

theorem perftDivide_eq (kt : Killers) (cap : Nat) (p : Position) (depth : Nat) :
    perftDivide kt cap p depth = (generateMoves kt p >>= fun ms => ms.mapM (perftStep kt cap p depth)) := rfl

theorem mapM_error_of_mem {α β} {f : α → M β} : ∀ {l : List α} {a : α} {e : Panic}, a ∈ l → f a = .error e →
    ∃ e', l.mapM f = .error e' := by
  intro l
  induction l with
  | nil => intro a e h; cases h
  | cons x xs ih =>
    intro a e hm hf
    rw [List.mapM_cons]
    cases hx : f x with
    | error e1 => exact ⟨e1, rfl⟩
    | ok b =>
      rcases List.mem_cons.1 hm with rfl | hm
      · rw [hf] at hx; cases hx
      · obtain ⟨e2, h2⟩ := ih hm hf
        rw [h2]
        exact ⟨e2, rfl⟩

theorem perftDivide_error {kt : Killers} {cap : Nat} {p : Position} {depth : Nat} {ms : List RMove} {rm : RMove}
    {e : Panic} (hg : generateMoves kt p = .ok ms) (hm : rm ∈ ms) (hs : perftStep kt cap p depth rm = .error e) :
    ∃ e', perftDivide kt cap p depth = .error e' := by
  rw [perftDivide_eq, hg]
  exact mapM_error_of_mem hm hs

/-! ### the witness, by kernel evaluation -/

/-- accepted, well-formed, and the side not to move is in check -/
def fenCheckWitnessB : Bool :=
  match parseFen fenCheckWitness with
  | .ok (.ok p) => invB p && !oppSafeB p
  | _ => false

/-- the legal-move generator emits the capture of the king (e1 → e8), and the subtree below it panics -/
def kingCapturePanicsB (p : Position) (depth : Nat) : Bool :=
  match generateMoves Killers.empty p with
  | .ok ms =>
    (match ms.find? (fun rm => rm.mov.frm == Gen.E1 && rm.mov.to == Gen.E8) with
     | some rm =>
       (match perftStep Killers.empty Gen.plyBufferCapacity p depth rm with
        | .error _ => true
        | .ok _ => false)
     | none => false)
  | .error _ => false

theorem perftDivide_error_of_B {p : Position} {depth : Nat} (h : kingCapturePanicsB p depth = true) :
    ∃ e, perftDivide Killers.empty Gen.plyBufferCapacity p depth = .error e := by
  unfold kingCapturePanicsB at h
  split at h
  · next ms hg =>
    split at h
    · next rm hf =>
      split at h
      · next e hs => exact perftDivide_error hg (List.mem_of_find?_eq_some hf) hs
      · cases h
    · cases h
  · cases h

def fenCheckWitnessPerftB : Bool :=
  match parseFen fenCheckWitness with
  | .ok (.ok p) => kingCapturePanicsB p 3
  | _ => false

set_option maxRecDepth 100000 in
theorem fenCheckWitnessB_true : fenCheckWitnessB = true := by decide +kernel

set_option maxRecDepth 100000 in
theorem fenCheckWitnessPerftB_true : fenCheckWitnessPerftB = true := by decide +kernel

theorem not_oppSafe_of_B {p : Position} (h : oppSafeB p = false) : ¬ MM.OppSafe p := by
  intro hS
  unfold MM.OppSafe at hS
  unfold oppSafeB at h
  rw [hS] at h
  exact absurd h (by decide)

/-- **The FEN loader accepts a position with the side not to move in check**; it is well-formed, and
    `perft 3` on it panics. -/
theorem fenCheckWitness_accepted : ∃ p, parseFen fenCheckWitness = .ok (.ok p) ∧ Inv p ∧ ¬ MM.OppSafe p ∧
    (∃ e, perftDivide Killers.empty Gen.plyBufferCapacity p 3 = .error e) := by
  have h1 := fenCheckWitnessB_true
  have h2 := fenCheckWitnessPerftB_true
  unfold fenCheckWitnessB at h1
  unfold fenCheckWitnessPerftB at h2
  cases hp : parseFen fenCheckWitness with
  | error x => rw [hp] at h1; cases h1
  | ok r =>
    cases r with
    | error x => rw [hp] at h1; cases h1
    | ok p =>
      rw [hp] at h1 h2
      simp only [Bool.and_eq_true, Bool.not_eq_true'] at h1
      exact ⟨p, rfl, inv_of_invB h1.1, not_oppSafe_of_B h1.2, perftDivide_error_of_B h2⟩

/-- consequently the `fen` clause of `OpsTotal` fails for the operations the driver runs, for EVERY `G` on which
    `perft` is total: `OpsTotal (modelOps …) G Legal` is unprovable, whatever `G` and `Legal` -/
theorem opsTotal_modelOps_false {blend : Blend} {tostr : Position → M Bytes} {G : Position → Prop}
    {Legal : Position → Move → Prop} : ¬ OpsTotal (modelOps blend tostr) G Legal := by
  intro ho
  obtain ⟨p, hp, _, _, e, he⟩ := fenCheckWitness_accepted
  obtain ⟨r, hr⟩ := ho.perft p 3 (ho.fen _ p hp) (by decide) (by decide)
  have : perftDivide Killers.empty Gen.plyBufferCapacity p 3 = .ok r := hr
  rw [he] at this
  cases this

/-- closed operations with the driver's string library (only `str` matters for `positionPart` / `fenArg`) -/
def strOps : EngineOps :=
  { str := goStrEnv, startPos := startPosition, evalOp := fun _ => pure 0, perftDivOp := fun _ _ => pure [],
    tperftDivOp := fun _ _ => pure [], applyMove := applyUciMove, tostrOp := fun _ => pure [] }

/-- with the precondition on the line the witness is simply excluded: `position fen <witness>` does not satisfy
    `PreF … OppSafe` (for any operations using the driver's string library) -/
theorem fenCheckWitness_not_preF {ops : EngineOps} {Legal : Position → Move → Prop} {st : UciState}
    (hstr : ops.str = goStrEnv) :
    ¬ PreF ops Legal MM.OppSafe st (FenSpec.strBytes "position fen 4k3/8/8/8/8/8/8/4RK2 w - - 0 1") := by
  intro h
  obtain ⟨p, hp, _, hn, _⟩ := fenCheckWitness_accepted
  have hs : ops.str = strOps.str := hstr
  refine hn (h.2 (by decide +kernel) (FenSpec.strBytes "fen 4k3/8/8/8/8/8/8/4RK2 w - - 0 1") fenCheckWitness p ?_ ?_ hp)
  · rw [positionPart_str hs, hs]
    decide +kernel
  · rw [fenArg_str hs]
    decide +kernel

/-! ### non-vacuity of `PreF` / `SessionPreF` / `uciRun_total_F`: a concrete session

`strOps`: the real string functions, start position, FEN loader and `applyUciMove`; evaluation and perft are stubs
(their totality on good positions is the hypothesis of `modelOps_opsTotalF`). Legality is `LegalGen` (through the
generator), loaded positions must be `OppSafe`. The session has legal move lists (double pushes, castling) after
`startpos` and after a FEN, a rejected FEN followed by moves, malformed lines and random bytes. -/

theorem strOps_totalF : OpsTotalF strOps GoodPos LegalGen MM.OppSafe :=
  ⟨goodPos_start, fun _ _ h hS => goodPos_of_fen h hS, fun _ _ => ⟨0, rfl⟩, fun _ _ _ _ _ => ⟨[], rfl⟩,
    fun _ _ _ _ _ => ⟨[], rfl⟩, fun _ _ hg hl => applyUciMove_good hg hl⟩

def fenSession : List Bytes :=
  [FenSpec.strBytes "eval", FenSpec.strBytes "position startpos moves e2e4 e7e5 g1f3",
   FenSpec.strBytes "position fen r3k2r/8/8/8/8/8/8/R3K2R w KQkq - 0 1 moves e1g1 e8c8",
   FenSpec.strBytes "position garbage moves e2e4", FenSpec.strBytes "perft 2", [255, 0, 300, 32, 9],
   FenSpec.strBytes "position fen 4k3/8/8/8/8/8/8/4RK2 b - - 0 1", FenSpec.strBytes "go depth"]

set_option maxRecDepth 100000 in
theorem fenSession_pre : SessionPreF strOps LegalGen MM.OppSafe UciState.init fenSession :=
  sessionPreF_of_B (kt := Killers.empty) (f := oppSafeB) (fun _ h => oppSafe_of_B h) fenSession UciState.init
    (by decide +kernel)

example : ∃ st' outs, uciRun strOps UciState.init fenSession = .ok (st', outs) ∧ StateOk GoodPos st' ∧
    outs.length = fenSession.length :=
  uciRun_total_F strOps_totalF fenSession UciState.init (stateOk_init _) fenSession_pre

/-- the Boolean test of the precondition is not vacuous: it rejects the witness line, and an illegal move -/
example : preFB strOps Killers.empty oppSafeB UciState.init
    (FenSpec.strBytes "position fen 4k3/8/8/8/8/8/8/4RK2 w - - 0 1") = false := by decide +kernel
example : preFB strOps Killers.empty oppSafeB UciState.init
    (FenSpec.strBytes "position startpos moves e2e4 e1e8") = false := by decide +kernel

end Magog.UciTotal
