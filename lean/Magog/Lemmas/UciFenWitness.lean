import Magog.Lemmas.UciFen
import Magog.Lemmas.FenCount

/-! The defect witness behind the repair of the FEN loader, and what is left of it.

    HISTORY (about the UNREPAIRED engine). The FEN loader accepted `4k3/8/8/8/8/8/8/4RK2 w - - 0 1`, a position in
    which the side NOT to move is in check; the loaded position was well-formed (`Inv`), and `perft 3` on it
    panicked: the generator emits the capture of the enemy king (Re1xe8), `MakeMove` does not book it in any list,
    and two plies later the stale king square is read ("Unexpected piece found: 0 at 116"). This file used to prove
    `fenCheckWitness_accepted` (accepted ∧ `Inv` ∧ ¬ `OppSafe` ∧ `perftDivide … 3` panics), hence
    `opsTotal_modelOps_false : ¬ OpsTotal (modelOps …) G Legal` for every `G`, `Legal`, and
    `fenCheckWitness_not_preF` (the line `position fen <witness>` fails `PreF … OppSafe`). These statements led to
    the repair (`NewPositionFromFen` now rejects a FEN with the side not to move in check; model: `parseFen`) and
    are FALSE about the repaired model; they have been removed.

    NOW:
    * `fenCheckWitness_rejected`: the loader rejects the witness in an orderly way;
    * `checkWitness_perft_panics`: the same POSITION, built directly (`checkWitnessPos`; it is what the accepted
      Black-to-move FEN loads, with the turn flipped — `checkWitnessPos_eq`), is still well-formed, not `OppSafe`,
      and `perft 3` on it panics: `Inv` alone does not make perft total, `G := Inv ∧ OppSafe` cannot be weakened;
    * a concrete session on `strOps` under the original precondition `SessionPre` (no FEN clause), in which the
      witness line is answered with `invalid FEN` and the position is kept. -/

namespace Magog.UciTotal
open Magog Magog.Model

/-- White Kf1 Re1, Black Ke8, WHITE to move: Black (not to move) is in check on the e-file -/
def fenCheckWitness : Bytes := FenSpec.strBytes "4k3/8/8/8/8/8/8/4RK2 w - - 0 1"

/-! ### `perftDivide` panics as soon as one root move does -/

/-- the body of `perftDivide`'s loop over the root moves -/
def perftStep (kt : Killers) (cap : Nat) (p : Position) (depth : Nat) (rm : RMove) : M (Move × Nat) := do
  if 1 ≥ cap then throw (.index "posStack" 1) else do
    let r ← makeMove p rm.mov
    if !r.2 then throw (.explicit "Applying move resulted in illegal position") else do
      let n ← perft kt cap (depth - 1) 1 r.1
      pure (rm.mov, n)

theorem perftDivide_eq (kt : Killers) (cap : Nat) (p : Position) (depth : Nat) :
    perftDivide kt cap p depth = (generateMoves kt p >>= fun ms => ms.mapM (perftStep kt cap p depth)) := rfl

theorem mapM_error_of_mem {α β} {f : α → M β} : ∀ {l : List α} {a : α} {e : Panic}, a ∈ l → f a = .error e →
    ∃ e', l.mapM f = .error e' := by
  intro l
  induction l with
  | nil => intro a e h; cases h
  | cons x xs ih =>
    intro a e hm hf
    rw [List.mapM_cons]
    cases hx : f x with
    | error e1 => exact ⟨e1, rfl⟩
    | ok b =>
      rcases List.mem_cons.1 hm with rfl | hm
      · rw [hf] at hx; cases hx
      · obtain ⟨e2, h2⟩ := ih hm hf
        rw [h2]
        exact ⟨e2, rfl⟩

theorem perftDivide_error {kt : Killers} {cap : Nat} {p : Position} {depth : Nat} {ms : List RMove} {rm : RMove}
    {e : Panic} (hg : generateMoves kt p = .ok ms) (hm : rm ∈ ms) (hs : perftStep kt cap p depth rm = .error e) :
    ∃ e', perftDivide kt cap p depth = .error e' := by
  rw [perftDivide_eq, hg]
  exact mapM_error_of_mem hm hs

/-! ### the witness, by kernel evaluation -/

/-- the repaired loader rejects the witness in an orderly way -/
theorem fenCheckWitness_rejected :
    parseFen fenCheckWitness = .ok (.error (.invalid "side not to move in check")) :=
  FenLemmas.rejectedWith_iff.1 (by decide +kernel)

/-- the witness position built directly: White Kf1 Re1, Black Ke8, WHITE to move -/
def checkWitnessPos : Position :=
  { board := ((List.range 128).map fun s =>
      if s == Gen.E1 then Gen.WRook else if s == Gen.F1 then Gen.WKing else if s == Gen.E8 then Gen.BKing else 0).toArray,
    blackPieces := [], whitePieces := [Gen.E1], blackPawns := [], whitePawns := [],
    blackKing := Gen.E8, whiteKing := Gen.F1, flags := FWhiteTurn, ep := InvalidSq, ply := 0 }

/-- it is what the (accepted) Black-to-move FEN loads, with the turn flipped -/
def checkWitnessPosB : Bool :=
  match parseFen (FenSpec.strBytes "4k3/8/8/8/8/8/8/4RK2 b - - 0 1") with
  | .ok (.ok p) =>
    p.board.toList == checkWitnessPos.board.toList && p.blackPieces == checkWitnessPos.blackPieces &&
    p.whitePieces == checkWitnessPos.whitePieces && p.blackPawns == checkWitnessPos.blackPawns &&
    p.whitePawns == checkWitnessPos.whitePawns && p.blackKing == checkWitnessPos.blackKing &&
    p.whiteKing == checkWitnessPos.whiteKing && p.flags ||| FWhiteTurn == checkWitnessPos.flags &&
    p.ep == checkWitnessPos.ep
  | _ => false

set_option maxRecDepth 100000 in
theorem checkWitnessPos_eq : checkWitnessPosB = true := by decide +kernel

/-- the legal-move generator emits the capture of the king (e1 → e8), and the subtree below it panics -/
def kingCapturePanicsB (p : Position) (depth : Nat) : Bool :=
  match generateMoves Killers.empty p with
  | .ok ms =>
    (match ms.find? (fun rm => rm.mov.frm == Gen.E1 && rm.mov.to == Gen.E8) with
     | some rm =>
       (match perftStep Killers.empty Gen.plyBufferCapacity p depth rm with
        | .error _ => true
        | .ok _ => false)
     | none => false)
  | .error _ => false

theorem perftDivide_error_of_B {p : Position} {depth : Nat} (h : kingCapturePanicsB p depth = true) :
    ∃ e, perftDivide Killers.empty Gen.plyBufferCapacity p depth = .error e := by
  unfold kingCapturePanicsB at h
  split at h
  · next ms hg =>
    split at h
    · next rm hf =>
      split at h
      · next e hs => exact perftDivide_error hg (List.mem_of_find?_eq_some hf) hs
      · cases h
    · cases h
  · cases h

set_option maxRecDepth 100000 in
theorem checkWitnessPos_inv : invB checkWitnessPos = true := by decide +kernel

set_option maxRecDepth 100000 in
theorem checkWitnessPos_notSafe : oppSafeB checkWitnessPos = false := by decide +kernel

set_option maxRecDepth 100000 in
theorem checkWitnessPos_perft : kingCapturePanicsB checkWitnessPos 3 = true := by decide +kernel

theorem not_oppSafe_of_B {p : Position} (h : oppSafeB p = false) : ¬ MM.OppSafe p := by
  intro hS
  unfold MM.OppSafe at hS
  unfold oppSafeB at h
  rw [hS] at h
  exact absurd h (by decide)

/-- **`Inv` alone does not make perft total**: on a well-formed position with the side not to move in check
    `perft 3` panics. (Such a position can no longer be loaded from a FEN, nor reached by legal moves.) -/
theorem checkWitness_perft_panics : Inv checkWitnessPos ∧ ¬ MM.OppSafe checkWitnessPos ∧
    (∃ e, perftDivide Killers.empty Gen.plyBufferCapacity checkWitnessPos 3 = .error e) :=
  ⟨inv_of_invB checkWitnessPos_inv, not_oppSafe_of_B checkWitnessPos_notSafe,
    perftDivide_error_of_B checkWitnessPos_perft⟩

/-- closed operations with the driver's string library: the real string functions, start position, FEN loader and
    `applyUciMove`; evaluation and perft are stubs (their totality on good positions is proved in Lemmas/Total.lean) -/
def strOps : EngineOps :=
  { str := goStrEnv, startPos := startPosition, evalOp := fun _ => pure 0, perftDivOp := fun _ _ => pure [],
    tperftDivOp := fun _ _ => pure [], applyMove := applyUciMove, tostrOp := fun _ => pure [] }

/-! ### non-vacuity of `Pre` / `SessionPre` / `uciRun_total` with `Legal := LegalGen`: a concrete session

The session has legal move lists (double pushes, castling) after `startpos` and after a FEN, a rejected FEN followed
by moves, malformed lines, random bytes, the accepted Black-to-move FEN (side to move in check) and the former
witness line (now answered with `invalid FEN`). No condition on the FENs. -/

theorem strOps_total : OpsTotal strOps GoodPos LegalGen :=
  ⟨goodPos_start, fun _ _ h => goodPos_of_fen h, fun _ _ => ⟨0, rfl⟩, fun _ _ _ _ _ => ⟨[], rfl⟩,
    fun _ _ _ _ _ => ⟨[], rfl⟩, fun _ _ hg hl => applyUciMove_good hg hl⟩

def fenSession : List Bytes :=
  [FenSpec.strBytes "eval", FenSpec.strBytes "position startpos moves e2e4 e7e5 g1f3",
   FenSpec.strBytes "position fen r3k2r/8/8/8/8/8/8/R3K2R w KQkq - 0 1 moves e1g1 e8c8",
   FenSpec.strBytes "position garbage moves e2e4", FenSpec.strBytes "perft 2", [255, 0, 300, 32, 9],
   FenSpec.strBytes "position fen 4k3/8/8/8/8/8/8/4RK2 b - - 0 1",
   FenSpec.strBytes "position fen 4k3/8/8/8/8/8/8/4RK2 w - - 0 1 moves e1e8", FenSpec.strBytes "go depth"]

set_option maxRecDepth 100000 in
theorem fenSession_pre : SessionPre strOps LegalGen UciState.init fenSession :=
  sessionPre_of_genB (kt := Killers.empty) fenSession UciState.init (by decide +kernel)

example : ∃ st' outs, uciRun strOps UciState.init fenSession = .ok (st', outs) ∧ StateOk GoodPos st' ∧
    outs.length = fenSession.length :=
  uciRun_total strOps_total fenSession UciState.init (stateOk_init _) fenSession_pre

/-- the former witness line (with a move list after the FEN) is answered with `invalid FEN: …` and nothing else;
    by `doPosition_keeps_old` (C17.position_keeps_old) the state is then what it was and the moves are not applied -/
def witnessLineAnswerB : Bool :=
  match uciStep strOps UciState.init (FenSpec.strBytes "position fen 4k3/8/8/8/8/8/8/4RK2 w - - 0 1 moves e1e8") with
  | .ok (_, [.invalidFen e]) => e == .invalid "side not to move in check"
  | _ => false

example : witnessLineAnswerB = true := by decide +kernel

/-- the Boolean test of the precondition is not vacuous: it rejects an illegal move -/
example : preFB strOps Killers.empty (fun _ => true) UciState.init
    (FenSpec.strBytes "position startpos moves e2e4 e1e8") = false := by decide +kernel

end Magog.UciTotal
