import Magog.Lemmas.PvLegal
import Magog.Lemmas.SearchLocal

/-! Stale PV buffers do not matter (C14): a run of the search on a table with the same shape but different
    contents proceeds in lock step, and every row prefix that is ever read (copied by a parent, printed, stored
    as the candidate line) was written before in the same search, hence is the same in both runs.

    The second run is always on the state `(s.setRows r)`. -/

namespace Magog.Model
open Magog

local notation "INF" => (Gen.InfinityScore : Int)

/-- the same search state with another PV table -/
def SS.setRows (s : SS) (r : Array (Array Move)) : SS := { s with rows := r }

@[simp] theorem SS.setRows_rows (s : SS) (r) : (s.setRows r).rows = r := rfl
@[simp] theorem SS.setRows_killers (s : SS) (r) : (s.setRows r).killers = s.killers := rfl
@[simp] theorem SS.setRows_nodes (s : SS) (r) : (s.setRows r).nodes = s.nodes := rfl
@[simp] theorem SS.setRows_interrupted (s : SS) (r) : (s.setRows r).interrupted = s.interrupted := rfl
@[simp] theorem SS.setRows_tick (s : SS) (r) : (s.setRows r).tick = s.tick := rfl
@[simp] theorem SS.setRows_matched (s : SS) (r) : (s.setRows r).matched = s.matched := rfl
@[simp] theorem SS.setRows_cand (s : SS) (r) : (s.setRows r).cand = s.cand := rfl
@[simp] theorem SS.setRows_rootMoves (s : SS) (r) : (s.setRows r).rootMoves = s.rootMoves := rfl
@[simp] theorem SS.setRows_firstMoveIdx (s : SS) (r) : (s.setRows r).firstMoveIdx = s.firstMoveIdx := rfl
@[simp] theorem SS.setRows_out (s : SS) (r) : (s.setRows r).out = s.out := rfl
@[simp] theorem SS.setRows_consult (s : SS) (r) : (s.setRows r).consult = s.consult.setRows r := rfl
theorem SS.setRows_setRows (s : SS) (r r') : (s.setRows r).setRows r' = s.setRows r' := rfl

theorem rowLen_sim {s t : SS} (h : SameShape s t) (d : Nat) : rowLen t d = rowLen s d := by
  unfold rowLen
  have := h.row d
  cases hs : s.rows[d]? with
  | none =>
    rw [hs] at this
    cases ht : t.rows[d]? with
    | none => rfl
    | some x => rw [ht] at this; cases this
  | some y =>
    rw [hs] at this
    cases ht : t.rows[d]? with
    | none => rw [ht] at this; cases this
    | some x =>
      rw [ht] at this
      simp only [Option.map_some, Option.some.injEq] at this
      simp only [this]

theorem shape_some {s t : SS} (h : SameShape s t) {d : Nat} {row : Array Move} (hr : s.rows[d]? = some row) :
    ∃ row', t.rows[d]? = some row' ∧ row'.size = row.size := by
  have := h.row d
  rw [hr] at this
  cases ht : t.rows[d]? with
  | none => rw [ht] at this; cases this
  | some x =>
    rw [ht] at this
    simp only [Option.map_some, Option.some.injEq] at this
    exact ⟨x, rfl, this⟩

theorem updateBestLine_sim {s : SS} {d subLen : Nat} {mv : Move} {s2 : SS} {n : Nat}
    (h : updateBestLine s d subLen mv = .ok (s2, n)) {r : Array (Array Move)}
    (hs : SameShape s (s.setRows r)) :
    ∃ r2, updateBestLine (s.setRows r) d subLen mv = .ok ((s2.setRows r2), n) := by
  unfold updateBestLine at h
  split at h
  · rename_i row sub hrow hsub
    split at h
    · exact absurd h (by simp [throw_ok])
    · rename_i hsz
      simp only [pure_ok, Prod.mk.injEq] at h
      obtain ⟨h1, h2⟩ := h
      subst h1 h2
      obtain ⟨row', hrow', hsz'⟩ := shape_some hs hrow
      obtain ⟨sub', hsub', _⟩ := shape_some hs hsub
      have hrow'' : r[d]? = some row' := hrow'
      have hsub'' : r[d + 1]? = some sub' := hsub'
      unfold updateBestLine SS.setRows
      dsimp only
      rw [hrow'', hsub'']
      dsimp only
      rw [if_neg (by rw [hsz']; exact hsz)]
      exact ⟨_, rfl⟩
  · exact absurd h (by simp [throw_ok])

theorem qLog_sim {env : Env} {s s1 : SS} (h : qLog env s = .ok s1) (r : Array (Array Move)) :
    qLog env (s.setRows r) = .ok (s1.setRows r) := by
  unfold qLog SS.setRows at *
  dsimp only
  split at h
  · exact absurd h (by simp [throw_ok])
  rename_i h0
  rw [if_neg h0]
  split at h
  · rename_i h1
    rw [if_pos h1]
    split at h
    · rename_i rm hrm
      simp only [pure_ok] at h; subst h
      first | rfl | (rw [hrm]; rfl)
    · exact absurd h (by simp [throw_ok])
  · rename_i h1
    rw [if_neg h1]
    simp only [pure_ok] at h; subst h
    rfl

theorem pollAfterMove_sim (env : Env) (s : SS) (r : Array (Array Move)) :
    pollAfterMove env (s.setRows r) =
      ((pollAfterMove env s).1, ((pollAfterMove env s).2.setRows r)) := by
  rw [pollAfterMove_eq, pollAfterMove_eq]
  unfold SS.setRows
  dsimp only
  by_cases h1 : s.interrupted = true
  · rw [if_pos h1, if_pos h1]
  · rw [if_neg h1, if_neg h1]
    by_cases h2 : env.timeUp s.tick = true
    · rw [if_pos h2, if_pos h2]; rfl
    · rw [if_neg h2, if_neg h2]
      by_cases h3 : env.stopAt (s.tick + 1) = true
      · rw [if_pos h3, if_pos h3]; rfl
      · rw [if_neg h3, if_neg h3]; rfl

theorem rootStop_sim (env : Env) (s : SS) (r : Array (Array Move)) :
    rootStop env (s.setRows r) = (rootStop env s).setRows r := by
  unfold rootStop SS.setRows SS.consult
  dsimp only
  cases h : env.stopAt (s.tick + 1 - 1)
  · simp only [Bool.false_eq_true, ↓reduceIte]
  · simp only [↓reduceIte]

/-! ### The simulation invariant -/

/-- relation between a piece of the run on `s` (ending in `s'`) and the same piece of the run on
    `(s.setRows rw)` (ending in `(s'.setRows rw')`), at depth `d`; `inside` = "the row prefix of
    length `len` will be read" -/
structure SimPost (d : Nat) (s s' : SS) (rw rw' : Array (Array Move)) (len : Nat) (inside : Prop) : Prop where
  shape : SameShape s s'
  shape' : SameShape s' (s'.setRows rw')
  below : RowsBelow d s s'
  below' : ∀ j, j < d → rw'[j]? = rw[j]?
  lenOk : LenOk s' d len
  eq : inside → rowPrefix (s'.setRows rw') d len = rowPrefix s' d len

def NodeSim (f : NodeFn) : Prop :=
  ∀ p idx d α β curLen s v len s', f p idx d α β curLen s = .ok (v, len, s') → LenOk s d curLen →
    ∀ rw, SameShape s (s.setRows rw) →
    ∃ rw', f p idx d α β curLen (s.setRows rw) = .ok (v, len, (s'.setRows rw')) ∧
      SimPost d s s' rw rw' len (α < v ∧ v < β)

/-- "the incoming prefix of row `d` is the same in both runs" -/
def SamePrefix (s : SS) (rw : Array (Array Move)) (d len : Nat) : Prop :=
  rowPrefix (s.setRows rw) d len = rowPrefix s d len

/-- the loop stops with `x` (its `α`, or `β`) without having touched row `d` since state `s` -/
theorem SimPost.ret {d : Nat} {α β x : Int} {s s2 : SS} {rw rw2 : Array (Array Move)} {curLen : Nat}
    (hs : SameShape s s2) (hs' : SameShape s2 (s2.setRows rw2))
    (hb : RowsBelow (d + 1) s s2) (hb' : ∀ j, j < d + 1 → rw2[j]? = rw[j]?) (hlen : LenOk s d curLen)
    (hx : x ≤ α ∨ β ≤ x) :
    SimPost d s s2 rw rw2 curLen ((SamePrefix s rw d curLen ∨ α < x) ∧ x < β) where
  shape := hs
  shape' := hs'
  below := hb.mono (Nat.le_succ _)
  below' := fun j hj => hb' j (Nat.lt_succ_of_lt hj)
  lenOk := hlen.shape hs
  eq := by
    rintro ⟨h1 | h1, h2⟩
    · rw [rowPrefix_congr (s := s) (hb d (Nat.lt_succ_self _)),
        rowPrefix_congr (s := (s.setRows rw)) (s' := (s2.setRows rw2)) (hb' d (Nat.lt_succ_self _))]
      exact h1
    · exfalso; omega
    
theorem SimPost.chain {d : Nat} {s s2 s3 : SS} {rw rw2 rw3 : Array (Array Move)} {len : Nat} {inside inside2 : Prop}
    (hs : SameShape s s2) (hb : RowsBelow d s s2) (hb' : ∀ j, j < d → rw2[j]? = rw[j]?)
    (himp : inside → inside2) (post : SimPost d s2 s3 rw2 rw3 len inside2) : SimPost d s s3 rw rw3 len inside where
  shape := hs.trans post.shape
  shape' := post.shape'
  below := hb.trans post.below
  below' := fun j hj => (post.below' j hj).trans (hb' j hj)
  lenOk := post.lenOk
  eq := fun h => post.eq (himp h)

/-! ### `quiescence` -/

/-- what `qLoop` does with the result of a child -/
def qTail (env : Env) (child : NodeFn) (p : Position) (idx depth : Nat) (beta : Int) (mv : Move) (rest : List RMove)
    (alpha : Int) (curLen : Nat) (x : Int × Nat × SS) : M LoopOut :=
  if x.2.2.interrupted then pure ⟨alpha, curLen, x.2.2⟩ else
  if env.timeUp (x.2.2.consult.tick - 1) then pure ⟨alpha, curLen, x.2.2.consult⟩ else
  if -x.1 ≥ beta then pure ⟨beta, curLen, x.2.2.consult⟩ else
  if -x.1 > alpha then do
    let y ← updateBestLine x.2.2.consult depth x.2.1 mv
    qLoop env child p idx depth beta rest (-x.1) y.2 x.2.1 y.1
  else qLoop env child p idx depth beta rest alpha curLen x.2.1 x.2.2.consult

theorem qLoop_cons_eq (env : Env) (child : NodeFn) (p : Position) (idx depth : Nat) (beta : Int)
    (mv : RMove) (rest : List RMove) (alpha : Int) (curLen subLen : Nat) (s : SS) :
    qLoop env child p idx depth beta (mv :: rest) alpha curLen subLen s =
      (if idx + 1 ≥ env.stackCap then throw (.index "posStack" (idx + 1)) else do
       let r ← makeMove p mv.mov
       if !r.2 then throw (.explicit "Applying move resulted in illegal position") else do
       let x ← child r.1 (idx + 1) (depth + 1) (-beta) (-alpha) subLen s
       qTail env child p idx depth beta mv.mov rest alpha curLen x) := by
  rw [qLoop]
  unfold qTail
  split <;> rfl

theorem qTail_mk (env : Env) (child : NodeFn) (p : Position) (idx depth : Nat) (beta : Int) (mv : Move)
    (rest : List RMove) (alpha : Int) (curLen : Nat) (v : Int) (sl : Nat) (s1 : SS) :
    qTail env child p idx depth beta mv rest alpha curLen (v, sl, s1) =
      (if s1.interrupted then pure ⟨alpha, curLen, s1⟩ else
       if env.timeUp (s1.consult.tick - 1) then pure ⟨alpha, curLen, s1.consult⟩ else
       if -v ≥ beta then pure ⟨beta, curLen, s1.consult⟩ else
       if -v > alpha then do
         let y ← updateBestLine s1.consult depth sl mv
         qLoop env child p idx depth beta rest (-v) y.2 sl y.1
       else qLoop env child p idx depth beta rest alpha curLen sl s1.consult) := rfl

/-- simulation statement for a move loop `loop` (already applied to everything but `α curLen subLen s`) -/
def LoopSim (loop : Int → Nat → Nat → SS → M LoopOut) (d : Nat) (β : Int) : Prop :=
  ∀ α curLen subLen s r, loop α curLen subLen s = .ok r → LenOk s d curLen → LenOk s (d + 1) subLen →
    ∀ rw, SameShape s (s.setRows rw) →
    ∃ rw', loop α curLen subLen (s.setRows rw) = .ok ⟨r.score, r.curLen, (r.st.setRows rw')⟩ ∧
      SimPost d s r.st rw rw' r.curLen ((SamePrefix s rw d curLen ∨ α < r.score) ∧ r.score < β)

theorem shape_consult {s s1 : SS} (h : SameShape s s1) : SameShape s s1.consult := ⟨h.size, h.row⟩

theorem shape_consult' {s1 : SS} {rw1 : Array (Array Move)} (h : SameShape s1 (s1.setRows rw1)) :
    SameShape s1.consult (s1.consult.setRows rw1) := ⟨h.size, h.row⟩

/-- both runs call `updateBestLine` at depth `d` with the child's line: the new prefixes agree -/
theorem updateBestLine_both {s1 : SS} {rw1 : Array (Array Move)} {d sl : Nat} {mv : Move} {s2 : SS} {cl : Nat}
    (hu : updateBestLine s1 d sl mv = .ok (s2, cl)) (hs : SameShape s1 (s1.setRows rw1))
    (hsub : LenOk s1 (d + 1) sl)
    (heq : rowPrefix (s1.setRows rw1) (d + 1) sl = rowPrefix s1 (d + 1) sl) :
    ∃ r2, updateBestLine (s1.setRows rw1) d sl mv = .ok ((s2.setRows r2), cl) ∧
      SameShape s1 s2 ∧ SameShape s2 (s2.setRows r2) ∧ LenOk s2 d cl ∧
      (∀ j, j ≠ d → s2.rows[j]? = s1.rows[j]?) ∧ (∀ j, j ≠ d → r2[j]? = rw1[j]?) ∧
      SamePrefix s2 r2 d cl ∧ (∃ rows', s2 = (s1.setRows rows')) := by
  obtain ⟨r2, hu'⟩ := updateBestLine_sim hu hs
  obtain ⟨_, hlen2, hsh2, hrows2, hex, hline⟩ := updateBestLine_spec hu
  obtain ⟨_, _, hsh2', hrows2', _, hline'⟩ := updateBestLine_spec hu'
  refine ⟨r2, hu', hsh2, (hsh2.symm.trans hs).trans hsh2', hlen2, hrows2, hrows2', ?_, hex⟩
  unfold SamePrefix
  rw [hline' (hsub.shape hs), hline hsub, heq]

theorem qTail_sim {env : Env} {child : NodeFn} {p : Position} {idx d : Nat} {β : Int} {mv : Move} {rest : List RMove}
    (ih : LoopSim (qLoop env child p idx d β rest) d β)
    {α : Int} {curLen : Nat} {s0 : SS} {rw : Array (Array Move)} {v : Int} {sl : Nat} {s1 : SS}
    {rw1 : Array (Array Move)} (C : SimPost (d + 1) s0 s1 rw rw1 sl (-β < v ∧ v < -α)) (hlen : LenOk s0 d curLen)
    {r : LoopOut} (h : qTail env child p idx d β mv rest α curLen (v, sl, s1) = .ok r) :
    ∃ rw', qTail env child p idx d β mv rest α curLen (v, sl, (s1.setRows rw1)) =
        .ok ⟨r.score, r.curLen, (r.st.setRows rw')⟩ ∧
      SimPost d s0 r.st rw rw' r.curLen ((SamePrefix s0 rw d curLen ∨ α < r.score) ∧ r.score < β) := by
  rw [qTail_mk] at h ⊢
  have shc := shape_consult C.shape
  have shc' := shape_consult' C.shape'
  split at h
  · rename_i hi
    rw [if_pos (show (s1.setRows rw1).interrupted = true from hi)]
    simp only [pure_ok] at h; subst h
    exact ⟨rw1, rfl, SimPost.ret C.shape C.shape' C.below C.below' hlen (.inl (Int.le_refl _))⟩
  rename_i hi
  rw [if_neg (show ¬ (s1.setRows rw1).interrupted = true from hi)]
  split at h
  · rename_i hto
    rw [if_pos (show env.timeUp ((s1.setRows rw1).consult.tick - 1) = true from hto)]
    simp only [pure_ok] at h; subst h
    exact ⟨rw1, rfl, SimPost.ret shc shc' C.below C.below' hlen (.inl (Int.le_refl _))⟩
  rename_i hto
  rw [if_neg (show ¬ env.timeUp ((s1.setRows rw1).consult.tick - 1) = true from hto)]
  split at h
  · rename_i hcut
    rw [if_pos hcut]
    simp only [pure_ok] at h; subst h
    exact ⟨rw1, rfl, SimPost.ret shc shc' C.below C.below' hlen (.inr (Int.le_refl _))⟩
  rename_i hcut
  rw [if_neg hcut]
  split at h
  · rename_i himp
    rw [if_pos himp]
    obtain ⟨⟨s2, cl⟩, hu, h⟩ := bind_ok.1 h
    obtain ⟨r2, hu', hsh2, hsh2', hlen2, hrows2, hrows2', hsp, _⟩ :=
      updateBestLine_both hu shc' C.lenOk (C.eq ⟨by omega, by omega⟩)
    obtain ⟨rw', e, P⟩ := ih _ _ _ _ _ h hlen2 ((show LenOk s1.consult (d + 1) sl from C.lenOk).shape hsh2) r2 hsh2'
    refine ⟨rw', bind_ok.2 ⟨(_, cl), hu', e⟩, ?_⟩
    refine SimPost.chain (shc.trans hsh2) ?_ ?_ (fun hin => ⟨.inl hsp, hin.2⟩) P
    · intro j hj
      rw [hrows2 j (by omega)]
      exact C.below j (by omega)
    · intro j hj
      rw [hrows2' j (by omega)]
      exact C.below' j (by omega)
  · rename_i himp
    rw [if_neg himp]
    obtain ⟨rw', e, P⟩ := ih _ _ _ _ _ h (hlen.shape shc) C.lenOk rw1 shc'
    refine ⟨rw', e, ?_⟩
    refine SimPost.chain shc (C.below.mono (Nat.le_succ _)) (fun j hj => C.below' j (by omega)) ?_ P
    rintro ⟨h1 | h1, h2⟩
    · refine ⟨.inl ?_, h2⟩
      unfold SamePrefix at h1 ⊢
      rw [rowPrefix_congr (s := s0) (s' := s1.consult) (C.below d (Nat.lt_succ_self _)),
        rowPrefix_congr (s := (s0.setRows rw)) (s' := (s1.consult.setRows rw1))
          (C.below' d (Nat.lt_succ_self _))]
      exact h1
    · exact ⟨.inr h1, h2⟩

theorem qLoop_sim {env : Env} {child : NodeFn} (hs : NodeSim child) (p : Position) (idx d : Nat) (β : Int) :
    ∀ ms : List RMove, LoopSim (qLoop env child p idx d β ms) d β := by
  intro ms
  induction ms with
  | nil =>
    intro α curLen subLen s r h hlen _ rw hsh
    simp only [qLoop, pure_ok] at h; subst h
    exact ⟨rw, rfl, SimPost.ret (SameShape.refl _) hsh (RowsBelow.refl _ _) (fun _ _ => rfl) hlen
      (.inl (Int.le_refl _))⟩
  | cons mv rest ih =>
    intro α curLen subLen s r h hlen hsub rw hsh
    rw [qLoop_cons_eq] at h ⊢
    split at h
    · exact absurd h (by simp [throw_ok])
    rename_i hcap
    rw [if_neg hcap]
    obtain ⟨⟨q, b⟩, hmk, h⟩ := bind_ok.1 h
    split at h
    · exact absurd h (by simp [throw_ok])
    rename_i hleg
    obtain ⟨⟨v, sl, s1⟩, hch, h⟩ := bind_ok.1 h
    obtain ⟨rw1, hch', C⟩ := hs _ _ _ _ _ _ _ _ _ _ hch hsub rw hsh
    obtain ⟨rw', e, P⟩ := qTail_sim ih C hlen h
    refine ⟨rw', bind_ok.2 ⟨(q, b), hmk, ?_⟩, P⟩
    rw [if_neg hleg]
    exact bind_ok.2 ⟨_, hch', e⟩

theorem shape_setRows_of_rows_eq {s s1 : SS} {rw : Array (Array Move)} (hr : s1.rows = s.rows)
    (h : SameShape s (s.setRows rw)) : SameShape s1 (s1.setRows rw) :=
  ⟨by show rw.size = s1.rows.size; rw [hr]; exact h.size, fun i => by
    show rw[i]?.map Array.size = s1.rows[i]?.map Array.size
    rw [hr]; exact h.row i⟩

theorem quiescence_sim (env : Env) (fuel : Nat) : NodeSim (quiescence env fuel) := by
  induction fuel with
  | zero => intro p idx d a b l s v l' s' h; simp only [quiescence, throw_ok] at h
  | succ fuel ih =>
    intro p idx d α β curLen s v len s' h hlen rw hsh
    rw [quiescence_succ_eq] at h ⊢
    obtain ⟨subLen, hsl, h⟩ := bind_ok.1 h
    obtain ⟨sub, hsub, rfl, _⟩ := rowLen_ok hsl
    obtain ⟨score, hsc, h⟩ := bind_ok.1 h
    obtain ⟨s1, hs1, h⟩ := bind_ok.1 h
    obtain ⟨hr1, _, _⟩ := qLog_spec hs1
    have hr1' : s1.rows = s.rows := hr1
    have sh1 : SameShape s s1 := SameShape.of_rows_eq hr1'
    have sh1' : SameShape s1 (s1.setRows rw) := shape_setRows_of_rows_eq hr1' hsh
    have hs1' : qLog env { s.setRows rw with nodes := (s.setRows rw).nodes + 1 } = .ok (s1.setRows rw) :=
      qLog_sim hs1 rw
    -- the prefix of the computation on the other table
    have lift : ∀ res, (if score ≥ β then pure (β, curLen, s1.setRows rw) else do
          let ms ← generateTacticalMoves p
          let r ← qLoop env (quiescence env fuel) p idx d β (env.sortFn ms)
                    (if score > α then (score, 0) else (α, curLen)).1
                    (if score > α then (score, 0) else (α, curLen)).2 sub.size (s1.setRows rw)
          pure (r.score, r.curLen, r.st)) = .ok res →
        (do
          let subLen ← rowLen (s.setRows rw) (d + 1)
          let score ← qEval env p d α β
          let s ← qLog env { s.setRows rw with nodes := (s.setRows rw).nodes + 1 }
          if score ≥ β then pure (β, curLen, s) else do
          let ms ← generateTacticalMoves p
          let r ← qLoop env (quiescence env fuel) p idx d β (env.sortFn ms)
                    (if score > α then (score, 0) else (α, curLen)).1
                    (if score > α then (score, 0) else (α, curLen)).2 subLen s
          pure (r.score, r.curLen, r.st)) = .ok res := by
      intro res hres
      rw [rowLen_sim hsh, hsl]
      exact bind_ok.2 ⟨_, rfl, bind_ok.2 ⟨score, hsc, bind_ok.2 ⟨_, hs1', hres⟩⟩⟩
    split at h
    · rename_i hcut
      simp only [pure_ok, Prod.mk.injEq] at h
      obtain ⟨rfl, rfl, rfl⟩ := h
      refine ⟨rw, lift _ (by rw [if_pos hcut]; rfl), sh1, sh1', RowsBelow.of_rows_eq hr1', fun _ _ => rfl,
        hlen.shape sh1, fun hin => ?_⟩
      exfalso; omega
    rename_i hcut
    obtain ⟨ms, hms, h⟩ := bind_ok.1 h
    obtain ⟨r, hr, h⟩ := bind_ok.1 h
    simp only [pure_ok, Prod.mk.injEq] at h
    obtain ⟨rfl, rfl, rfl⟩ := h
    have hsub1 : LenOk s1 (d + 1) sub.size := by
      intro row hrow
      rw [hr1', hsub] at hrow
      cases hrow; exact Nat.le_refl _
    have hlen1 : LenOk s1 d (if score > α then (score, 0) else (α, curLen)).2 := by
      split
      · exact fun _ _ => Nat.zero_le _
      · exact lenOk_of_rows_eq hlen hr1'
    obtain ⟨rw', e, P⟩ := qLoop_sim ih p idx d β _ _ _ _ _ _ hr hlen1 hsub1 rw sh1'
    refine ⟨rw', lift _ ?_, ?_⟩
    · rw [if_neg hcut]
      exact bind_ok.2 ⟨ms, hms, bind_ok.2 ⟨_, e, rfl⟩⟩
    · refine SimPost.chain sh1 (RowsBelow.of_rows_eq hr1') (fun _ _ => rfl) ?_ P
      rintro ⟨h1, h2⟩
      refine ⟨?_, h2⟩
      by_cases himp : score > α
      · left
        simp only [if_pos himp]
        unfold SamePrefix
        rw [rowPrefix_zero, rowPrefix_zero]
      · right
        simp only [if_neg himp]
        exact h1

/-! ### `alphaBeta` -/

theorem samePrefix_of_rows_eq {s s' : SS} {rw : Array (Array Move)} {d len : Nat} (h : SamePrefix s rw d len)
    (hr : s'.rows = s.rows) : SamePrefix s' rw d len := by
  unfold SamePrefix at h ⊢
  rw [rowPrefix_congr (s := s) (s' := s') (by rw [hr])]
  exact h

theorem improve_both {s1 : SS} {rw1 : Array (Array Move)} {d sl : Nat} {mv : Move} {sc α : Int} {curLen : Nat}
    {a2 : Int} {l2 : Nat} {s2 : SS} (h : improve s1 d sl mv sc α curLen = .ok (a2, l2, s2))
    (hs : SameShape s1 (s1.setRows rw1)) (hsub : LenOk s1 (d + 1) sl) (hlen : LenOk s1 d curLen)
    (heq : sc > α → rowPrefix (s1.setRows rw1) (d + 1) sl = rowPrefix s1 (d + 1) sl) :
    ∃ r2, improve (s1.setRows rw1) d sl mv sc α curLen = .ok (a2, l2, s2.setRows r2) ∧
      SameShape s1 s2 ∧ SameShape s2 (s2.setRows r2) ∧ LenOk s2 d l2 ∧
      (∀ j, j ≠ d → s2.rows[j]? = s1.rows[j]?) ∧ (∀ j, j ≠ d → r2[j]? = rw1[j]?) ∧
      ((sc > α ∧ a2 = sc ∧ SamePrefix s2 r2 d l2) ∨ (¬ sc > α ∧ a2 = α ∧ l2 = curLen ∧ s2 = s1 ∧ r2 = rw1)) := by
  unfold improve at h ⊢
  split at h
  · rename_i hgt
    rw [if_pos hgt]
    obtain ⟨⟨s2', cl⟩, hu, h⟩ := bind_ok.1 h
    simp only [pure_ok, Prod.mk.injEq] at h
    obtain ⟨rfl, rfl, rfl⟩ := h
    obtain ⟨r2, hu', hsh2, hsh2', hlen2, hrows2, hrows2', hsp, _⟩ := updateBestLine_both hu hs hsub (heq hgt)
    exact ⟨r2, bind_ok.2 ⟨_, hu', rfl⟩, hsh2, hsh2', hlen2, hrows2, hrows2', .inl ⟨hgt, rfl, hsp⟩⟩
  · rename_i hgt
    rw [if_neg hgt]
    simp only [pure_ok, Prod.mk.injEq] at h
    obtain ⟨rfl, rfl, rfl⟩ := h
    exact ⟨rw1, rfl, SameShape.refl _, hs, hlen, fun _ _ => rfl, fun _ _ => rfl, .inr ⟨hgt, rfl, rfl, rfl, rfl⟩⟩

/-- what `abLoop` does with the result of a child -/
def abTail (env : Env) (child : NodeFn) (p : Position) (idx depth : Nat) (beta : Int) (mv : RMove) (rest : List RMove)
    (alpha : Int) (curLen : Nat) (x : Int × Nat × SS) : M LoopOut :=
  if -x.1 ≥ beta then
    (if !mv.tactical then do
       let kt ← updateKillers x.2.2.killers p.ply mv.mov
       pure ⟨beta, curLen, { x.2.2 with killers := kt }⟩
     else pure ⟨beta, curLen, x.2.2⟩)
  else do
    let y ← improve x.2.2 depth x.2.1 mv.mov (-x.1) alpha curLen
    if (pollAfterMove env y.2.2).1 then pure ⟨y.1, y.2.1, (pollAfterMove env y.2.2).2⟩
    else abLoop env child p idx depth beta rest y.1 y.2.1 x.2.1 (pollAfterMove env y.2.2).2

theorem abLoop_cons_eq' (env : Env) (child : NodeFn) (p : Position) (idx depth : Nat) (beta : Int)
    (mv : RMove) (rest : List RMove) (alpha : Int) (curLen subLen : Nat) (s : SS) :
    abLoop env child p idx depth beta (mv :: rest) alpha curLen subLen s =
      (if s.interrupted then pure ⟨alpha, curLen, s⟩ else
       if idx + 1 ≥ env.stackCap then throw (.index "posStack" (idx + 1)) else do
       let r ← makeMove p mv.mov
       if !r.2 then throw (.explicit "Applying move resulted in illegal position") else do
       let x ← child r.1 (idx + 1) (depth + 1) (-beta) (-alpha) subLen s
       abTail env child p idx depth beta mv rest alpha curLen x) := by
  rw [abLoop_cons_eq]; rfl

theorem abTail_mk (env : Env) (child : NodeFn) (p : Position) (idx depth : Nat) (beta : Int) (mv : RMove)
    (rest : List RMove) (alpha : Int) (curLen : Nat) (v : Int) (sl : Nat) (s1 : SS) :
    abTail env child p idx depth beta mv rest alpha curLen (v, sl, s1) =
      (if -v ≥ beta then
        (if !mv.tactical then do
           let kt ← updateKillers s1.killers p.ply mv.mov
           pure ⟨beta, curLen, { s1 with killers := kt }⟩
         else pure ⟨beta, curLen, s1⟩)
      else do
        let y ← improve s1 depth sl mv.mov (-v) alpha curLen
        if (pollAfterMove env y.2.2).1 then pure ⟨y.1, y.2.1, (pollAfterMove env y.2.2).2⟩
        else abLoop env child p idx depth beta rest y.1 y.2.1 sl (pollAfterMove env y.2.2).2) := rfl

theorem abTail_sim {env : Env} {child : NodeFn} {p : Position} {idx d : Nat} {β : Int} {mv : RMove} {rest : List RMove}
    (ih : LoopSim (abLoop env child p idx d β rest) d β)
    {α : Int} {curLen : Nat} {s0 : SS} {rw : Array (Array Move)} {v : Int} {sl : Nat} {s1 : SS}
    {rw1 : Array (Array Move)} (C : SimPost (d + 1) s0 s1 rw rw1 sl (-β < v ∧ v < -α)) (hlen : LenOk s0 d curLen)
    {r : LoopOut} (h : abTail env child p idx d β mv rest α curLen (v, sl, s1) = .ok r) :
    ∃ rw', abTail env child p idx d β mv rest α curLen (v, sl, s1.setRows rw1) =
        .ok ⟨r.score, r.curLen, r.st.setRows rw'⟩ ∧
      SimPost d s0 r.st rw rw' r.curLen ((SamePrefix s0 rw d curLen ∨ α < r.score) ∧ r.score < β) := by
  rw [abTail_mk] at h ⊢
  split at h
  · rename_i hcut
    rw [if_pos hcut]
    split at h
    · rename_i htac
      rw [if_pos htac]
      obtain ⟨kt, hkt, h⟩ := bind_ok.1 h
      simp only [pure_ok] at h; subst h
      refine ⟨rw1, bind_ok.2 ⟨kt, hkt, rfl⟩, ?_⟩
      exact SimPost.ret (s2 := { s1 with killers := kt }) ⟨C.shape.size, C.shape.row⟩ ⟨C.shape'.size, C.shape'.row⟩
        C.below C.below' hlen (.inr (Int.le_refl _))
    · rename_i htac
      rw [if_neg htac]
      simp only [pure_ok] at h; subst h
      exact ⟨rw1, rfl, SimPost.ret C.shape C.shape' C.below C.below' hlen (.inr (Int.le_refl _))⟩
  rename_i hcut
  rw [if_neg hcut]
  obtain ⟨⟨a2, l2, s2⟩, himp, h⟩ := bind_ok.1 h
  dsimp only at h
  obtain ⟨r2, himp', hsh2, hsh2', hlen2, hrows2, hrows2', hcase⟩ :=
    improve_both himp C.shape' C.lenOk (hlen.shape C.shape) (fun hgt => C.eq ⟨by omega, by omega⟩)
  obtain ⟨hpr, _⟩ := pollAfterMove_spec env s2
  have hpoll := pollAfterMove_sim env s2 r2
  have shP : SameShape s2 (pollAfterMove env s2).2 := SameShape.of_rows_eq hpr
  have shP' : SameShape (pollAfterMove env s2).2 ((pollAfterMove env s2).2.setRows r2) :=
    shape_setRows_of_rows_eq hpr hsh2'
  -- the rest of the loop from the polled state
  have hrest : ∃ rw', (if (pollAfterMove env (s2.setRows r2)).1 then
        pure ⟨a2, l2, (pollAfterMove env (s2.setRows r2)).2⟩
        else abLoop env child p idx d β rest a2 l2 sl (pollAfterMove env (s2.setRows r2)).2) =
          .ok ⟨r.score, r.curLen, r.st.setRows rw'⟩ ∧
      SimPost d (pollAfterMove env s2).2 r.st r2 rw' r.curLen
        ((SamePrefix (pollAfterMove env s2).2 r2 d l2 ∨ a2 < r.score) ∧ r.score < β) := by
    rw [hpoll]
    dsimp only
    split at h
    · rename_i hbrk
      rw [if_pos hbrk]
      simp only [pure_ok] at h; subst h
      exact ⟨r2, rfl, SimPost.ret (SameShape.refl _) shP' (RowsBelow.refl _ _) (fun _ _ => rfl)
        (lenOk_of_rows_eq hlen2 hpr) (.inl (Int.le_refl _))⟩
    · rename_i hbrk
      rw [if_neg hbrk]
      exact ih _ _ _ _ _ h (lenOk_of_rows_eq hlen2 hpr) (lenOk_of_rows_eq (C.lenOk.shape hsh2) hpr) r2 shP'
  obtain ⟨rw', e, P⟩ := hrest
  refine ⟨rw', bind_ok.2 ⟨_, himp', e⟩, ?_⟩
  refine SimPost.chain ((C.shape.trans hsh2).trans shP) ?_ ?_ ?_ P
  · intro j hj
    rw [hpr, hrows2 j (by omega)]
    exact C.below j (by omega)
  · intro j hj
    rw [hrows2' j (by omega)]
    exact C.below' j (by omega)
  · rintro ⟨h1, h2⟩
    refine ⟨?_, h2⟩
    rcases hcase with ⟨_, _, hsp⟩ | ⟨_, rfl, rfl, rfl, rfl⟩
    · exact .inl (samePrefix_of_rows_eq hsp hpr)
    · rcases h1 with h1 | h1
      · left
        unfold SamePrefix at h1 ⊢
        rw [rowPrefix_congr (s := s0) (s' := (pollAfterMove env s2).2)
            (by rw [hpr]; exact C.below d (Nat.lt_succ_self _)),
          rowPrefix_congr (s := s0.setRows rw) (s' := (pollAfterMove env s2).2.setRows r2)
            (C.below' d (Nat.lt_succ_self _))]
        exact h1
      · exact .inr h1

theorem abLoop_sim {env : Env} {child : NodeFn} (hs : NodeSim child) (p : Position) (idx d : Nat) (β : Int) :
    ∀ ms : List RMove, LoopSim (abLoop env child p idx d β ms) d β := by
  intro ms
  induction ms with
  | nil =>
    intro α curLen subLen s r h hlen _ rw hsh
    simp only [abLoop, pure_ok] at h; subst h
    exact ⟨rw, rfl, SimPost.ret (SameShape.refl _) hsh (RowsBelow.refl _ _) (fun _ _ => rfl) hlen
      (.inl (Int.le_refl _))⟩
  | cons mv rest ih =>
    intro α curLen subLen s r h hlen hsub rw hsh
    rw [abLoop_cons_eq'] at h ⊢
    split at h
    · rename_i hi
      rw [if_pos (show (s.setRows rw).interrupted = true from hi)]
      simp only [pure_ok] at h; subst h
      exact ⟨rw, rfl, SimPost.ret (SameShape.refl _) hsh (RowsBelow.refl _ _) (fun _ _ => rfl) hlen
        (.inl (Int.le_refl _))⟩
    rename_i hi
    rw [if_neg (show ¬ (s.setRows rw).interrupted = true from hi)]
    split at h
    · exact absurd h (by simp [throw_ok])
    rename_i hcap
    rw [if_neg hcap]
    obtain ⟨⟨q, b⟩, hmk, h⟩ := bind_ok.1 h
    split at h
    · exact absurd h (by simp [throw_ok])
    rename_i hleg
    obtain ⟨⟨v, sl, s1⟩, hch, h⟩ := bind_ok.1 h
    obtain ⟨rw1, hch', C⟩ := hs _ _ _ _ _ _ _ _ _ _ hch hsub rw hsh
    obtain ⟨rw', e, P⟩ := abTail_sim ih C hlen h
    refine ⟨rw', bind_ok.2 ⟨(q, b), hmk, ?_⟩, P⟩
    rw [if_neg hleg]
    exact bind_ok.2 ⟨_, hch', e⟩

theorem alphaBeta_sim (env : Env) (qfuel rem : Nat) : NodeSim (alphaBeta env qfuel rem) := by
  induction rem with
  | zero =>
    intro p idx d α β curLen s v len s' h hlen rw hsh
    simp only [alphaBeta] at h ⊢
    obtain ⟨n, hn, h⟩ := bind_ok.1 h
    obtain ⟨rw', e, P⟩ := quiescence_sim env qfuel _ _ _ _ _ _ _ _ _ _ h hlen rw hsh
    exact ⟨rw', bind_ok.2 ⟨n, by rw [rowLen_sim hsh]; exact hn, e⟩, P⟩
  | succ rem ih =>
    intro p idx d α β curLen s v len s' h hlen rw hsh
    simp only [alphaBeta] at h ⊢
    obtain ⟨subLen, hsl, h⟩ := bind_ok.1 h
    obtain ⟨sub, hsub, rfl, _⟩ := rowLen_ok hsl
    refine Exists.imp (fun rw' hx => And.imp_left (fun e => bind_ok.2 ⟨_, by rw [rowLen_sim hsh]; exact hsl, e⟩) hx) ?_
    obtain ⟨ms, hms, h⟩ := bind_ok.1 h
    refine Exists.imp (fun rw' hx => And.imp_left (fun e => bind_ok.2 ⟨ms, hms, e⟩) hx) ?_
    split at h
    · rename_i hemp
      rw [if_pos hemp]
      obtain ⟨tv, htv, h⟩ := bind_ok.1 h
      simp only [pure_ok, Prod.mk.injEq] at h
      obtain ⟨rfl, rfl, rfl⟩ := h
      refine ⟨rw, bind_ok.2 ⟨_, htv, rfl⟩, SameShape.of_rows_eq rfl, ⟨hsh.size, hsh.row⟩, RowsBelow.refl _ _,
        fun _ _ => rfl, fun _ _ => Nat.zero_le _, fun _ => ?_⟩
      rw [rowPrefix_zero, rowPrefix_zero]
    rename_i hemp
    rw [if_neg hemp]
    obtain ⟨r, hr, h⟩ := bind_ok.1 h
    simp only [pure_ok, Prod.mk.injEq] at h
    obtain ⟨rfl, rfl, rfl⟩ := h
    obtain ⟨rw', e, P⟩ := abLoop_sim ih p idx d β _ _ _ _ _ _ hr hlen
      (fun row hrow => by rw [show row = sub from Option.some.inj (hrow.symm.trans hsub)]; exact Nat.le_refl _)
      rw ⟨hsh.size, hsh.row⟩
    refine ⟨rw', bind_ok.2 ⟨_, e, rfl⟩, ⟨P.shape.size, P.shape.row⟩, P.shape', P.below, P.below', P.lenOk, ?_⟩
    rintro ⟨h1, h2⟩
    exact P.eq ⟨.inr h1, h2⟩

/-! ### The root -/

theorem rootPrint_sim {env : Env} {target : Nat} {sc : Int} {cl : Nat} {s s3 : SS} {r : Array (Array Move)}
    (h : rootPrint env target sc cl s = .ok s3) (hp : SamePrefix s r 0 cl) :
    rootPrint env target sc cl (s.setRows r) = .ok (s3.setRows r) ∧ s3.rows = s.rows := by
  unfold rootPrint at h ⊢
  split at h
  · rename_i hg
    rw [if_pos (show env.gateOpen ((s.setRows r).tick - 1) = true from hg)]
    split at h
    · exact absurd h (by simp [throw_ok])
    · rename_i h0
      rw [if_neg h0]
      simp only [pure_ok] at h; subst h
      unfold SamePrefix at hp
      rw [hp]
      exact ⟨rfl, rfl⟩
  · rename_i hg
    rw [if_neg (show ¬ env.gateOpen ((s.setRows r).tick - 1) = true from hg)]
    simp only [pure_ok] at h; subst h
    exact ⟨rfl, rfl⟩

theorem rootImprove_both {env : Env} {target : Nat} {s1 : SS} {rw1 : Array (Array Move)} {sl : Nat} {mv : Move}
    {sc α : Int} {curLen curLen' : Nat} {a2 : Int} {l2 : Nat} {s2 : SS}
    (h : rootImprove env target s1 sl mv sc α curLen = .ok (a2, l2, s2))
    (hs : SameShape s1 (s1.setRows rw1)) (hsub : LenOk s1 1 sl)
    (heq : sc > α → rowPrefix (s1.setRows rw1) 1 sl = rowPrefix s1 1 sl)
    (hpre : (curLen' = curLen ∧ SamePrefix s1 rw1 0 curLen) ∨ sc > α) :
    ∃ r2, rootImprove env target (s1.setRows rw1) sl mv sc α curLen' = .ok (a2, l2, s2.setRows r2) ∧
      SameShape s1 s2 ∧ SameShape s2 (s2.setRows r2) ∧ SamePrefix s2 r2 0 l2 ∧ (a2 = sc ∨ a2 = α) := by
  unfold rootImprove at h ⊢
  split at h
  · rename_i hgt
    rw [if_pos hgt]
    obtain ⟨⟨s2', cl⟩, hu, h⟩ := bind_ok.1 h
    obtain ⟨s3, hpr, h⟩ := bind_ok.1 h
    simp only [pure_ok, Prod.mk.injEq] at h
    obtain ⟨rfl, rfl, rfl⟩ := h
    obtain ⟨r2, hu', hsh2, hsh2', _, _, _, hsp, _⟩ := updateBestLine_both hu hs hsub (heq hgt)
    obtain ⟨hpr', hr3⟩ := rootPrint_sim (r := r2) hpr (samePrefix_of_rows_eq hsp rfl)
    have hr3' : s3.rows = s2'.rows := hr3
    refine ⟨r2, bind_ok.2 ⟨_, hu', bind_ok.2 ⟨_, hpr', rfl⟩⟩, hsh2.trans (SameShape.of_rows_eq hr3'),
      shape_setRows_of_rows_eq hr3' hsh2', samePrefix_of_rows_eq hsp hr3', .inl rfl⟩
  · rename_i hgt
    rw [if_neg hgt]
    simp only [pure_ok, Prod.mk.injEq] at h
    obtain ⟨rfl, rfl, rfl⟩ := h
    rcases hpre with ⟨rfl, hsp⟩ | hgt'
    · exact ⟨rw1, rfl, SameShape.refl _, hs, hsp, .inr rfl⟩
    · exact absurd hgt' hgt

/-- what `rootLoop` does with the result of a child -/
def rootTail (env : Env) (child : NodeFn) (p : Position) (target : Nat) (mv : RMove) (rest : List RMove)
    (alpha : Int) (curLen : Nat) (x : Int × Nat × SS) : M LoopOut := do
  let y ← rootImprove env target x.2.2 x.2.1 mv.mov (-x.1) alpha curLen
  if y.2.2.interrupted then pure ⟨y.1, y.2.1, y.2.2⟩ else
  if env.timeUp (y.2.2.consult.tick - 1) then pure ⟨y.1, y.2.1, y.2.2.consult⟩ else
  if nextMoveWins (-x.1) then pure ⟨y.1, y.2.1, y.2.2.consult⟩ else
  rootLoop env child p target rest y.1 y.2.1 x.2.1 (rootStop env y.2.2.consult)

theorem rootLoop_cons_eq' (env : Env) (child : NodeFn) (p : Position) (target : Nat)
    (mv : RMove) (rest : List RMove) (alpha : Int) (curLen subLen : Nat) (s : SS) :
    rootLoop env child p target (mv :: rest) alpha curLen subLen s =
      (if s.interrupted then pure ⟨alpha, curLen, s⟩ else
       if 1 ≥ env.stackCap then throw (.index "posStack" 1) else do
       let r ← makeMove p mv.mov
       if !r.2 then throw (.explicit "Applying move resulted in illegal position") else do
       let x ← child r.1 1 1 (-(Gen.InfinityScore : Int)) (-alpha) subLen s
       rootTail env child p target mv rest alpha curLen x) := by
  rw [rootLoop_cons_eq]; rfl

theorem rootTail_mk (env : Env) (child : NodeFn) (p : Position) (target : Nat) (mv : RMove) (rest : List RMove)
    (alpha : Int) (curLen : Nat) (v : Int) (sl : Nat) (s1 : SS) :
    rootTail env child p target mv rest alpha curLen (v, sl, s1) = (do
      let y ← rootImprove env target s1 sl mv.mov (-v) alpha curLen
      if y.2.2.interrupted then pure ⟨y.1, y.2.1, y.2.2⟩ else
      if env.timeUp (y.2.2.consult.tick - 1) then pure ⟨y.1, y.2.1, y.2.2.consult⟩ else
      if nextMoveWins (-v) then pure ⟨y.1, y.2.1, y.2.2.consult⟩ else
      rootLoop env child p target rest y.1 y.2.1 sl (rootStop env y.2.2.consult)) := rfl

/-- simulation statement for the root loop: the two runs may start with different header lengths of row 0 if the
    first move is going to be searched with `α = −∞` -/
def RootSim (env : Env) (child : NodeFn) (p : Position) (target : Nat) (D : Nat) (ms : List RMove) : Prop :=
  ∀ α curLen curLen' subLen s r, rootLoop env child p target ms α curLen subLen s = .ok r →
    s.rows.size ≤ D → LenOk s 1 subLen → α < INF → ∀ rw, SameShape s (s.setRows rw) →
    ((curLen' = curLen ∧ SamePrefix s rw 0 curLen) ∨ (ms ≠ [] ∧ s.interrupted = false ∧ α = -INF)) →
    ∃ rw', rootLoop env child p target ms α curLen' subLen (s.setRows rw) =
        .ok ⟨r.score, r.curLen, r.st.setRows rw'⟩ ∧
      SameShape s r.st ∧ SameShape r.st (r.st.setRows rw') ∧ SamePrefix r.st rw' 0 r.curLen

theorem rootLoop_sim {env : Env} {G : Nat → Position → Prop} {D : Nat} (hcl : GenClosed G) {child : NodeFn}
    (hc : NodeOk G D child) (hsim : NodeSim child) (p : Position) (target : Nat) (hp : G 0 p) :
    ∀ ms : List RMove, (∀ mv ∈ ms, GenFull p mv.mov) → RootSim env child p target D ms := by
  intro ms
  induction ms with
  | nil =>
    intro _ α curLen curLen' subLen s r h _ _ _ rw hsh hpre
    simp only [rootLoop, pure_ok] at h; subst h
    rcases hpre with ⟨rfl, hsp⟩ | ⟨hne, _, _⟩
    · exact ⟨rw, rfl, SameShape.refl _, hsh, hsp⟩
    · exact absurd rfl hne
  | cons mv rest ih =>
    intro hgen α curLen curLen' subLen s r h hD hsub hα rw hsh hpre
    rw [rootLoop_cons_eq'] at h ⊢
    split at h
    · rename_i hi
      rw [if_pos (show (s.setRows rw).interrupted = true from hi)]
      simp only [pure_ok] at h; subst h
      rcases hpre with ⟨rfl, hsp⟩ | ⟨_, hi', _⟩
      · exact ⟨rw, rfl, SameShape.refl _, hsh, hsp⟩
      · rw [hi'] at hi; cases hi
    rename_i hi
    have hint : s.interrupted = false := by simpa using hi
    rw [if_neg (show ¬ (s.setRows rw).interrupted = true from hi)]
    split at h
    · exact absurd h (by simp [throw_ok])
    rename_i hcap
    rw [if_neg hcap]
    obtain ⟨⟨q, b⟩, hmk, h⟩ := bind_ok.1 h
    split at h
    · exact absurd h (by simp [throw_ok])
    rename_i hleg
    have hb : b = true := by simpa using hleg
    subst hb
    obtain ⟨⟨v, sl, s1⟩, hch, h⟩ := bind_ok.1 h
    have hgm := hgen mv List.mem_cons_self
    have N := hc _ _ _ _ _ _ _ _ _ _ hch (hcl _ _ _ _ hp (.inl hgm) hmk) hD hsub hint
    have hlow : -INF < v := N.lower (by omega)
    have hupp : v < INF := N.upper (by have := inf_pos; omega)
    obtain ⟨rw1, hch', C⟩ := hsim _ _ _ _ _ _ _ _ _ _ hch hsub rw hsh
    suffices key : ∃ rw', rootTail env child p target mv rest α curLen' (v, sl, s1.setRows rw1) =
          .ok ⟨r.score, r.curLen, r.st.setRows rw'⟩ ∧
        SameShape s r.st ∧ SameShape r.st (r.st.setRows rw') ∧ SamePrefix r.st rw' 0 r.curLen by
      obtain ⟨rw', e, P⟩ := key
      refine ⟨rw', bind_ok.2 ⟨(q, true), hmk, ?_⟩, P⟩
      rw [if_neg hleg]
      exact bind_ok.2 ⟨_, hch', e⟩
    rw [rootTail_mk] at h ⊢
    obtain ⟨⟨a2, l2, s2⟩, himp, h⟩ := bind_ok.1 h
    dsimp only at h
    have hpre1 : (curLen' = curLen ∧ SamePrefix s1 rw1 0 curLen) ∨ -v > α := by
      rcases hpre with ⟨rfl, hsp⟩ | ⟨_, _, rfl⟩
      · left
        refine ⟨rfl, ?_⟩
        unfold SamePrefix at hsp ⊢
        rw [rowPrefix_congr (s := s) (s' := s1) (C.below 0 Nat.zero_lt_one),
          rowPrefix_congr (s := s.setRows rw) (s' := s1.setRows rw1) (C.below' 0 Nat.zero_lt_one)]
        exact hsp
      · right; omega
    obtain ⟨r2, himp', hsh2, hsh2', hsp2, ha2⟩ :=
      rootImprove_both himp C.shape' C.lenOk (fun hgt => C.eq ⟨hlow, by omega⟩) hpre1
    have ha2' : a2 < INF := by rcases ha2 with rfl | rfl <;> omega
    have sh02 : SameShape s s2 := C.shape.trans hsh2
    refine Exists.imp (fun rw' hx => And.imp_left (fun e => bind_ok.2 ⟨(a2, l2, s2.setRows r2), himp', e⟩) hx) ?_
    dsimp only
    split at h
    · rename_i hi2
      rw [if_pos (show (s2.setRows r2).interrupted = true from hi2)]
      simp only [pure_ok] at h; subst h
      exact ⟨r2, rfl, sh02, hsh2', hsp2⟩
    rename_i hi2
    rw [if_neg (show ¬ (s2.setRows r2).interrupted = true from hi2)]
    split at h
    · rename_i hto
      rw [if_pos (show env.timeUp ((s2.setRows r2).consult.tick - 1) = true from hto)]
      simp only [pure_ok] at h; subst h
      exact ⟨r2, rfl, shape_consult sh02, shape_consult' hsh2', samePrefix_of_rows_eq hsp2 rfl⟩
    rename_i hto
    rw [if_neg (show ¬ env.timeUp ((s2.setRows r2).consult.tick - 1) = true from hto)]
    split at h
    · rename_i hw
      rw [if_pos hw]
      simp only [pure_ok] at h; subst h
      exact ⟨r2, rfl, shape_consult sh02, shape_consult' hsh2', samePrefix_of_rows_eq hsp2 rfl⟩
    rename_i hw
    rw [if_neg hw]
    obtain ⟨hrr, _⟩ := rootStop_spec env s2.consult
    have hrr' : (rootStop env s2.consult).rows = s2.rows := hrr
    have e1 : rootStop env (s2.setRows r2).consult = (rootStop env s2.consult).setRows r2 := rootStop_sim env s2.consult r2
    rw [e1]
    obtain ⟨rw', e, sh3, sh3', hsp3⟩ := ih (fun m hm => hgen m (List.mem_cons_of_mem _ hm)) _ _ l2 _ _ _ h
      (by rw [hrr', sh02.size]; exact hD) (lenOk_of_rows_eq (C.lenOk.shape hsh2) hrr') ha2' r2
      (shape_setRows_of_rows_eq hrr' hsh2') (.inl ⟨rfl, samePrefix_of_rows_eq hsp2 hrr'⟩)
    exact ⟨rw', e, (sh02.trans (SameShape.of_rows_eq hrr')).trans sh3, sh3', hsp3⟩

theorem startAlphaBeta_sim {env : Env} {G : Nat → Position → Prop} {D : Nat} (H : PvHyps env G D)
    {qfuel : Nat} {p : Position} {target curLen curLen' : Nat} {s : SS} {v : Int} {one : Bool} {len : Nat} {s' : SS}
    (h : startAlphaBeta env qfuel p target curLen s = .ok (v, one, len, s')) (hp : G 0 p) (hD : s.rows.size ≤ D)
    {rw : Array (Array Move)} (hsh : SameShape s (s.setRows rw))
    (hpre : (curLen' = curLen ∧ SamePrefix s rw 0 curLen) ∨ s.interrupted = false) :
    ∃ rw', startAlphaBeta env qfuel p target curLen' (s.setRows rw) = .ok (v, one, len, s'.setRows rw') ∧
      SameShape s s' ∧ SameShape s' (s'.setRows rw') ∧ SamePrefix s' rw' 0 len := by
  simp only [startAlphaBeta] at h ⊢
  obtain ⟨subLen, hsl, h⟩ := bind_ok.1 h
  obtain ⟨sub, hsub, rfl, _⟩ := rowLen_ok hsl
  refine Exists.imp (fun rw' hx => And.imp_left (fun e => bind_ok.2 ⟨_, by rw [rowLen_sim hsh]; exact hsl, e⟩) hx) ?_
  obtain ⟨ms, hms, h⟩ := bind_ok.1 h
  refine Exists.imp (fun rw' hx => And.imp_left (fun e => bind_ok.2 ⟨ms, hms, e⟩) hx) ?_
  split at h
  · rename_i hemp
    rw [if_pos hemp]
    obtain ⟨tv, htv, h⟩ := bind_ok.1 h
    simp only [pure_ok, Prod.mk.injEq] at h
    obtain ⟨rfl, rfl, rfl, rfl⟩ := h
    refine ⟨rw, bind_ok.2 ⟨_, htv, rfl⟩, SameShape.of_rows_eq rfl, ⟨hsh.size, hsh.row⟩, ?_⟩
    unfold SamePrefix
    rw [rowPrefix_zero, rowPrefix_zero]
  rename_i hemp
  rw [if_neg hemp]
  obtain ⟨r, hr, h⟩ := bind_ok.1 h
  simp only [pure_ok, Prod.mk.injEq] at h
  obtain ⟨rfl, rfl, rfl, rfl⟩ := h
  have hmovs := applyPvBonus_movs s.cand s.matched 0 ms
  have hgen : ∀ mv ∈ env.sortFn (applyPvBonus s.cand s.matched 0 ms).1, GenFull p mv.mov := by
    intro mv hmv
    refine ⟨s.killers, ms, hms, ?_⟩
    rw [← hmovs]
    exact List.mem_map.2 ⟨mv, H.sort.mem _ _ hmv, rfl⟩
  have hne' : env.sortFn (applyPvBonus s.cand s.matched 0 ms).1 ≠ [] := by
    apply H.sort.ne
    intro h0
    rw [h0] at hmovs
    have : ms = [] := List.map_eq_nil_iff.1 hmovs.symm
    rw [this] at hemp
    exact hemp rfl
  rw [minusInf_eq'] at hr ⊢
  obtain ⟨rw', e, sh, sh', hsp⟩ := rootLoop_sim H.closed (alphaBeta_pv H qfuel (target - 1))
    (alphaBeta_sim env qfuel (target - 1)) p target hp _ hgen _ _ curLen' _ _ _ hr hD
    (fun row hrow => by rw [show row = sub from Option.some.inj (hrow.symm.trans hsub)]; exact Nat.le_refl _)
    (by have := inf_pos; omega) rw ⟨hsh.size, hsh.row⟩
    (hpre.elim (fun hx => .inl ⟨hx.1, samePrefix_of_rows_eq hx.2 rfl⟩) (fun hi => .inr ⟨hne', hi, rfl⟩))
  exact ⟨rw', bind_ok.2 ⟨_, e, rfl⟩, ⟨sh.size, sh.row⟩, sh', hsp⟩

/-! ### Iterative deepening -/

theorem copyBestLine_sim {s : SS} {rw : Array (Array Move)} {len : Nat} (h : SamePrefix s rw 0 len) :
    copyBestLine (s.setRows rw) len = (copyBestLine s len).setRows rw := by
  unfold copyBestLine
  unfold SamePrefix at h
  rw [h]; rfl

theorem printInfoAfterDepth_sim {s s' : SS} {score : Int} {depth : Nat} (h : printInfoAfterDepth s score depth = .ok s')
    (rw : Array (Array Move)) : printInfoAfterDepth (s.setRows rw) score depth = .ok (s'.setRows rw) := by
  unfold printInfoAfterDepth at h ⊢
  split at h
  · exact absurd h (by simp [throw_ok])
  · rename_i hne
    rw [if_neg (show ¬ (s.setRows rw).cand.isEmpty = true from hne)]
    simp only [pure_ok] at h; subst h; rfl

theorem printInfo_sim {s s' : SS} {score : Int} {depth : Nat} (h : printInfo s score depth = .ok s')
    (rw : Array (Array Move)) : printInfo (s.setRows rw) score depth = .ok (s'.setRows rw) := by
  unfold printInfo at h ⊢
  split at h
  · exact absurd h (by simp [throw_ok])
  · rename_i hne
    rw [if_neg (show ¬ (s.setRows rw).cand.isEmpty = true from hne)]
    simp only [pure_ok] at h; subst h; rfl

theorem announce_sim {s s' : SS} {best : Int} {done : Nat} (h : announce s best done = .ok s')
    (rw : Array (Array Move)) : announce (s.setRows rw) best done = .ok (s'.setRows rw) := by
  obtain ⟨m, tl, hc, rfl⟩ := announce_ok h
  rw [announce_eq (s := s.setRows rw) (m := m) (tl := tl) hc]
  rfl

theorem deepenLoop_sim {env : Env} {G : Nat → Position → Prop} {D : Nat} (H : PvHyps env G D)
    (qfuel : Nat) (p : Position) (hp : G 0 p) (maxDepth : Nat) :
    ∀ (n cur : Nat) (best : Int) (done len0 : Nat) (s : SS) (best' : Int) (done' : Nat) (s' : SS),
      deepenLoop env qfuel p maxDepth n cur best done len0 s = .ok (best', done', s') →
      s.rows.size ≤ D → ∀ rw, SameShape s (s.setRows rw) → SamePrefix s rw 0 len0 →
      ∃ rw', deepenLoop env qfuel p maxDepth n cur best done len0 (s.setRows rw) = .ok (best', done', s'.setRows rw') := by
  intro n
  induction n with
  | zero =>
    intro cur best done len0 s best' done' s' h _ rw _ _
    simp only [deepenLoop, pure_ok, Prod.mk.injEq] at h ⊢
    obtain ⟨rfl, rfl, rfl⟩ := h
    exact ⟨rw, rfl, rfl, rfl⟩
  | succ n ih =>
    intro cur best done len0 s best' done' s' h hD rw hsh hsp
    rw [deepenLoop_succ_eq] at h ⊢
    split at h
    · rename_i hcur
      rw [if_pos hcur]
      simp only [pure_ok, Prod.mk.injEq] at h ⊢
      obtain ⟨rfl, rfl, rfl⟩ := h
      exact ⟨rw, rfl, rfl, rfl⟩
    rename_i hcur
    rw [if_neg hcur]
    obtain ⟨⟨score, one, l1, s1⟩, hsab, h⟩ := bind_ok.1 h
    obtain ⟨rw1, hsab', sh1, sh1', hsp1⟩ := startAlphaBeta_sim (curLen' := len0) H hsab hp hD hsh (.inl ⟨rfl, hsp⟩)
    refine Exists.imp (fun rw' e => bind_ok.2 ⟨_, hsab', e⟩) ?_
    dsimp only at h ⊢
    split at h
    · rename_i hto
      rw [if_pos (show env.timeUp ((s1.setRows rw1).consult.tick - 1) = true from hto)]
      simp only [pure_ok, Prod.mk.injEq] at h ⊢
      obtain ⟨rfl, rfl, rfl⟩ := h
      exact ⟨rw1, rfl, rfl, rfl⟩
    rename_i hto
    rw [if_neg (show ¬ env.timeUp ((s1.setRows rw1).consult.tick - 1) = true from hto)]
    split at h
    · rename_i hi
      rw [if_pos (show (s1.setRows rw1).consult.interrupted = true from hi)]
      simp only [pure_ok, Prod.mk.injEq] at h ⊢
      obtain ⟨rfl, rfl, rfl⟩ := h
      exact ⟨rw1, rfl, rfl, rfl⟩
    rename_i hi
    rw [if_neg (show ¬ (s1.setRows rw1).consult.interrupted = true from hi)]
    obtain ⟨s3, hpi, h⟩ := bind_ok.1 h
    have hcb : copyBestLine (s1.setRows rw1).consult l1 = (copyBestLine s1.consult l1).setRows rw1 :=
      copyBestLine_sim (s := s1.consult) (samePrefix_of_rows_eq hsp1 rfl)
    rw [hcb]
    refine Exists.imp (fun rw' e => bind_ok.2 ⟨_, printInfoAfterDepth_sim hpi rw1, e⟩) ?_
    obtain ⟨_, rfl⟩ := printInfoAfterDepth_ok hpi
    split at h
    · rename_i hm
      rw [if_pos hm]
      simp only [pure_ok, Prod.mk.injEq] at h ⊢
      obtain ⟨rfl, rfl, rfl⟩ := h
      exact ⟨rw1, rfl, rfl, rfl⟩
    rename_i hm
    rw [if_neg hm]
    split at h
    · rename_i ho
      rw [if_pos ho]
      simp only [pure_ok, Prod.mk.injEq] at h ⊢
      obtain ⟨rfl, rfl, rfl⟩ := h
      exact ⟨rw1, rfl, rfl, rfl⟩
    rename_i ho
    rw [if_neg ho]
    exact ih _ _ _ _ _ _ _ _ h (by show s1.rows.size ≤ D; rw [sh1.size]; exact hD) rw1
      ⟨sh1'.size, sh1'.row⟩ (samePrefix_of_rows_eq hsp1 rfl)

/-- Two runs of `iterDeep` on PV tables of the same shape (arbitrary contents, arbitrary initial lengths of the
    row-0 header) end in states that differ in the table only. -/
theorem iterDeep_sim {env : Env} {G : Nat → Position → Prop} {rows rows' : Array (Array Move)}
    (H : PvHyps env G rows.size) {qfuel : Nat} {p : Position} (hp : G 0 p) {maxDepth : Nat} {killers : Killers}
    {len0 len0' : Nat} {s : SS} (h : iterDeep env qfuel p maxDepth killers rows len0 = .ok s)
    (hsz : rows.size = rows'.size) (hrow : ∀ i : Nat, (rows[i]?).map (·.size) = (rows'[i]?).map (·.size)) :
    ∃ rw', iterDeep env qfuel p maxDepth killers rows' len0' = .ok (s.setRows rw') := by
  rw [iterDeep_eq] at h ⊢
  obtain ⟨⟨score, one, l, s1⟩, hsab, h⟩ := bind_ok.1 h
  have hsh : SameShape (initSS rows killers) ((initSS rows killers).setRows rows') :=
    ⟨hsz.symm, fun i => (hrow i).symm⟩
  obtain ⟨rw1, hsab', sh1, sh1', hsp1⟩ := startAlphaBeta_sim (curLen' := len0') H hsab hp (Nat.le_refl _) hsh (.inr rfl)
  refine Exists.imp (fun rw' e => bind_ok.2 ⟨_, hsab', e⟩) ?_
  dsimp only at h ⊢
  rw [copyBestLine_sim hsp1]
  split at h
  · rename_i hemp
    rw [if_pos (show ((copyBestLine s1 l).setRows rw1).cand.isEmpty = true from hemp)]
    simp only [pure_ok] at h ⊢
    subst h
    exact ⟨rw1, rfl⟩
  rename_i hemp
  rw [if_neg (show ¬ ((copyBestLine s1 l).setRows rw1).cand.isEmpty = true from hemp)]
  obtain ⟨⟨best, done, s2⟩, hd, h⟩ := bind_ok.1 h
  have hd' : ∃ rw2, deepenFrom env qfuel p maxDepth score one l ((copyBestLine s1 l).setRows rw1).consult =
      .ok (best, done, s2.setRows rw2) := by
    unfold deepenFrom at hd ⊢
    split at hd
    · rename_i hc
      rw [if_pos (show (!env.timeUp (((copyBestLine s1 l).setRows rw1).consult.tick - 1) &&
        !((copyBestLine s1 l).setRows rw1).consult.interrupted && !one) = true from hc)]
      exact deepenLoop_sim H qfuel p hp maxDepth _ _ _ _ _ _ _ _ _ hd
        (by show s1.rows.size ≤ _; rw [sh1.size]; exact Nat.le_refl _) rw1 ⟨sh1'.size, sh1'.row⟩
        (samePrefix_of_rows_eq hsp1 rfl)
    · rename_i hc
      rw [if_neg (show ¬ (!env.timeUp (((copyBestLine s1 l).setRows rw1).consult.tick - 1) &&
        !((copyBestLine s1 l).setRows rw1).consult.interrupted && !one) = true from hc)]
      simp only [pure_ok, Prod.mk.injEq] at hd ⊢
      obtain ⟨rfl, rfl, rfl⟩ := hd
      exact ⟨rw1, rfl, rfl, rfl⟩
  obtain ⟨rw2, hd'⟩ := hd'
  exact ⟨rw2, bind_ok.2 ⟨_, hd', announce_sim h rw2⟩⟩

end Magog.Model
