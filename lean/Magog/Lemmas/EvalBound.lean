import Magog.Lemmas.AlphaBeta
import Magog.Lemmas.Inv
import Magog.Lemmas.CountGen

/-! Lemmas for C05, part 1: the static evaluation of a well-formed position (`Inv`) is bounded by an explicit
    number `evalB` computed from the generated constants and piece-square tables, `evalB` is below
    `Gen.ScoreCloseToMate`, and therefore non-mate evaluations are far inside the mate-score band.

    Contents: `BlendBounded` (parameter assumption on the float blend: at most `blendK`-fold extrapolation on
    material sums `≤ maxMaterialSum`), `exactBlend` / `blendBounded_exact` (the exact interpolation satisfies it),
    `old_blend_hypothesis_false_of_exact`, `pstMaxAbs` (kernel-computed table maximum), `countMoves_le` (mobility
    bound from the list lengths), `nonPawnMaterial_le` / `materialSum_le`, `pieceSquareScore_bound`,
    `lazyEvaluate_cases` / `eval_bound`, `evalB_lt`, `evalRange_of_inv` (discharges C04's `EvalRange`). -/

namespace Magog.Lemmas.EvalBound
open Magog Magog.Model Magog.Lemmas.AlphaBeta

/-! ### the parameter assumption on the king-table interpolation -/

/-- the largest generated material value (the queen's, 900 on the current constants) -/
def matMax : Nat :=
  max Gen.MaterialPawnScore (max Gen.MaterialKnightScore (max Gen.MaterialBishopScore
    (max Gen.MaterialRookScore Gen.MaterialQueenScore)))

theorem mat_le : Gen.MaterialPawnScore ≤ matMax ∧ Gen.MaterialKnightScore ≤ matMax ∧
    Gen.MaterialBishopScore ≤ matMax ∧ Gen.MaterialRookScore ≤ matMax ∧ Gen.MaterialQueenScore ≤ matMax := by
  unfold matMax
  omega

/-- the largest non-pawn material sum the two piece lists of a well-formed position can hold: `pieceCap` men a
    side, each worth at most `matMax` (27 000 on the current constants; `nonPawnMaterial_le`) -/
def maxMaterialSum : Nat := 2 * Gen.pieceCap * matMax

/-- the extrapolation factor of the king-table interpolation, computed from the generated constants:
    `⌈2·maxMaterialSum / StartingSumOfMaterial⌉ − 1` (= 8 on the current constants).

    The engine's game-phase factor `f = materialSum / StartingSumOfMaterial` is NOT clamped to `[0, 1]`
    (`math.Min(f, 1.0)` in `gamePhaseFactor` discards its result), so with promoted pieces `f > 1` and
    `f·mid + (1 − f)·end` extrapolates beyond the two table values: for `|mid|, |end| ≤ B` it is bounded by `B`
    when `f ≤ 1` and by `(2f − 1)·B` when `f ≥ 1`, and `f ≤ maxMaterialSum / StartingSumOfMaterial`. -/
def blendK : Nat :=
  (2 * maxMaterialSum + Gen.StartingSumOfMaterial - 1) / Gen.StartingSumOfMaterial - 1

/-- the parameter assumption on the king-table interpolation: on every material sum a well-formed position can
    have (`msum ≤ maxMaterialSum`), the blend of two table values bounded by `B` is bounded by `blendK · B`.

    This is true of the real-valued formula the Go code computes in `float64`, including the extrapolating range
    `msum > StartingSumOfMaterial` (`blendBounded_exact`). The earlier form of this assumption (result `≤ B` for
    every `msum`) is FALSE of the engine (`old_blend_hypothesis_false_of_exact`: the Go binary returns
    `blend 12800 (-50) 50 = -150` and `blend 27000 50 (-50) = 371`). The driver's `float64` blend is compared with
    Go on its complete domain on every run. The constant is conservative: the real maximum over the generated
    tables and `msum ≤ 27000` is 371 < 8·50 = 400. -/
def BlendBounded (blend : Blend) (B : Nat) : Prop :=
  ∀ (msum : Nat) (mid end_ : Int), msum ≤ maxMaterialSum → mid.natAbs ≤ B → end_.natAbs ≤ B →
    (blend msum mid end_).natAbs ≤ blendK * B

/-- the facts about the generated constants the proofs below use (decided on the constants) -/
theorem startingSum_pos : 0 < Gen.StartingSumOfMaterial := by decide

theorem one_le_blendK : 1 ≤ blendK := by decide

/-- `blendK` is large enough: `2·maxMaterialSum − StartingSum ≤ blendK · StartingSum` -/
theorem blendK_spec : 2 * maxMaterialSum ≤ blendK * Gen.StartingSumOfMaterial + Gen.StartingSumOfMaterial := by
  decide

example : matMax = 900 ∧ maxMaterialSum = 27000 ∧ Gen.StartingSumOfMaterial = 6400 ∧ blendK = 8 := by decide

/-- the generated constant is the starting sum of the non-pawn material of both sides, as in engine/score.go -/
example : Gen.StartingSumOfMaterial = 2 * (Gen.MaterialQueenScore + 2 * Gen.MaterialRookScore +
    2 * Gen.MaterialBishopScore + 2 * Gen.MaterialKnightScore) := by decide

/-- the trivial blend `mid` satisfies the parameter assumption (non-vacuity) -/
theorem blendBounded_mid (B : Nat) : BlendBounded (fun _ m _ => m) B := fun _ _ _ _ h _ =>
  Nat.le_trans h (Nat.le_mul_of_pos_left B one_le_blendK)

/-! ### the exact interpolation satisfies the assumption -/

/-- the mathematically exact king-table interpolation `f·mid + (1 − f)·end`, `f = msum / StartingSum`, in integer
    arithmetic, truncated toward zero like Go's `int(float64)`. The Go code approximates this in `float64`. -/
def exactBlend (msum : Nat) (mid end_ : Int) : Int :=
  Int.tdiv ((msum : Int) * mid + ((Gen.StartingSumOfMaterial : Int) - (msum : Int)) * end_)
    (Gen.StartingSumOfMaterial : Int)

theorem natAbs_natMul_le (a : Nat) {x : Int} {B : Nat} (h : x.natAbs ≤ B) : ((a : Int) * x).natAbs ≤ a * B := by
  rw [Int.natAbs_mul, Int.natAbs_natCast]
  exact Nat.mul_le_mul_left a h

/-- the numerator of the exact interpolation is bounded by `StartingSum · blendK · B` on `msum ≤ maxMaterialSum`
    (generic in the constants: only `1 ≤ K` and `2·M ≤ K·S + S` are used) -/
theorem exactNum_bound {S M K : Nat} (hK : 1 ≤ K) (hS : 2 * M ≤ K * S + S) {msum : Nat} {mid end_ : Int} {B : Nat}
    (hm : msum ≤ M) (h1 : mid.natAbs ≤ B) (h2 : end_.natAbs ≤ B) :
    ((msum : Int) * mid + ((S : Int) - (msum : Int)) * end_).natAbs ≤ S * (K * B) := by
  refine Nat.le_trans (Int.natAbs_add_le _ _) ?_
  have a1 := natAbs_natMul_le msum h1
  by_cases hle : msum ≤ S
  · obtain ⟨d, rfl⟩ := Nat.exists_eq_add_of_le hle
    have e : ((msum + d : Nat) : Int) - (msum : Int) = (d : Int) := by omega
    rw [e]
    have a2 := natAbs_natMul_le d h2
    have a3 : (msum + d) * B ≤ (msum + d) * (K * B) :=
      Nat.mul_le_mul_left _ (Nat.le_mul_of_pos_left B hK)
    rw [Nat.add_mul] at a3
    omega
  · obtain ⟨d, rfl⟩ := Nat.exists_eq_add_of_le (Nat.le_of_not_le hle)
    have e : (S : Int) - ((S + d : Nat) : Int) = -(d : Int) := by omega
    rw [e, Int.neg_mul, Int.natAbs_neg]
    have a2 := natAbs_natMul_le d h2
    have a3 : (S + d + d) * B ≤ (K * S) * B := by
      apply Nat.mul_le_mul_right
      generalize K * S = KS at *
      omega
    rw [Nat.mul_comm K S, Nat.mul_assoc] at a3
    rw [Nat.add_mul] at a3
    omega

/-- **the exact interpolation satisfies the parameter assumption**, for every bound `B`, including the
    extrapolating range `StartingSum < msum ≤ maxMaterialSum` -/
theorem blendBounded_exact (B : Nat) : BlendBounded exactBlend B := by
  intro msum mid end_ hm h1 h2
  unfold exactBlend
  rw [Int.natAbs_tdiv, Int.natAbs_natCast]
  exact Nat.div_le_of_le_mul (exactNum_bound one_le_blendK blendK_spec hm h1 h2)

/-- the exact interpolation takes the values the Go binary returns on the extrapolating range -/
example : exactBlend 12800 (-50) 50 = -150 ∧ exactBlend 27000 50 (-50) = 371 ∧ exactBlend 6400 50 (-50) = 50 ∧
    exactBlend 0 50 (-50) = -50 ∧ exactBlend 3200 50 (-50) = 0 := by decide

/-- the earlier form of the parameter assumption ("the blend of two values within `B` is within `B`, whatever the
    material sum") is false of the exact interpolation, at the table bound `B = 50`, on material sums a
    well-formed position can have: 12 800 and 27 000 are `≤ maxMaterialSum` -/
theorem old_blend_hypothesis_false_of_exact :
    ¬ (∀ (msum : Nat) (mid end_ : Int), mid.natAbs ≤ 50 → end_.natAbs ≤ 50 →
        (exactBlend msum mid end_).natAbs ≤ 50) := by
  intro h
  have := h 12800 (-50) 50 (by decide) (by decide)
  revert this
  decide

/-! ### the generated tables -/

/-- all 14 generated piece-square tables -/
def allPst : List (List Int) :=
  [Gen.sqTableKnightsWhite, Gen.sqTableBishopsWhite, Gen.sqTableRooksWhite, Gen.sqTableQueensWhite,
   Gen.sqTablePawnsWhite, Gen.sqTableKingMidgameWhite, Gen.sqTableKingEndgameWhite,
   Gen.sqTableKnightsBlack, Gen.sqTableBishopsBlack, Gen.sqTableRooksBlack, Gen.sqTableQueensBlack,
   Gen.sqTablePawnsBlack, Gen.sqTableKingMidgameBlack, Gen.sqTableKingEndgameBlack]

def listMaxAbs (l : List Int) : Nat := l.foldl (fun a v => max a v.natAbs) 0

/-- the largest absolute value of an entry of any generated piece-square table -/
def pstMaxAbs : Nat := allPst.foldl (fun a t => max a (listMaxAbs t)) 0

/-- Boolean form of "every entry of `l` is bounded by `pstMaxAbs`" -/
def tableOk (l : List Int) : Bool := l.all fun v => decide (v.natAbs ≤ pstMaxAbs)

set_option maxRecDepth 100000 in
/-- every entry of every generated table is bounded by `pstMaxAbs` (kernel-evaluated on the generated lists) -/
theorem allPst_ok : allPst.all tableOk = true := by decide +kernel

theorem tableOk_of_mem {l : List Int} (h : l ∈ allPst) : tableOk l = true :=
  List.all_eq_true.mp allPst_ok l h

theorem tgetI_bound {l : List Int} (h : tableOk l = true) {what : String} {i : Nat} {v : Int}
    (hv : tgetI l.toArray what i = .ok v) : v.natAbs ≤ pstMaxAbs := by
  unfold tgetI at hv
  split at hv
  · rename_i w hw
    rw [pure_ok] at hv
    subst hv
    rw [List.getElem?_toArray] at hw
    have hm := List.mem_of_getElem? hw
    have := List.all_eq_true.mp h w hm
    simpa using this
  · rw [throw_ok] at hv; cases hv

/-- the bound for each of the 14 model arrays -/
def TableBounded (t : Array Int) : Prop :=
  ∀ (what : String) (i : Nat) (v : Int), tgetI t what i = .ok v → v.natAbs ≤ pstMaxAbs

theorem tb_of_mem {l : List Int} (h : l ∈ allPst) : TableBounded l.toArray :=
  fun _ _ _ hv => tgetI_bound (tableOk_of_mem h) hv

theorem tb_knightsWhite : TableBounded pstKnightsWhite := tb_of_mem (by simp [allPst])
theorem tb_bishopsWhite : TableBounded pstBishopsWhite := tb_of_mem (by simp [allPst])
theorem tb_rooksWhite : TableBounded pstRooksWhite := tb_of_mem (by simp [allPst])
theorem tb_queensWhite : TableBounded pstQueensWhite := tb_of_mem (by simp [allPst])
theorem tb_pawnsWhite : TableBounded pstPawnsWhite := tb_of_mem (by simp [allPst])
theorem tb_kingMidWhite : TableBounded pstKingMidWhite := tb_of_mem (by simp [allPst])
theorem tb_kingEndWhite : TableBounded pstKingEndWhite := tb_of_mem (by simp [allPst])
theorem tb_knightsBlack : TableBounded pstKnightsBlack := tb_of_mem (by simp [allPst])
theorem tb_bishopsBlack : TableBounded pstBishopsBlack := tb_of_mem (by simp [allPst])
theorem tb_rooksBlack : TableBounded pstRooksBlack := tb_of_mem (by simp [allPst])
theorem tb_queensBlack : TableBounded pstQueensBlack := tb_of_mem (by simp [allPst])
theorem tb_pawnsBlack : TableBounded pstPawnsBlack := tb_of_mem (by simp [allPst])
theorem tb_kingMidBlack : TableBounded pstKingMidBlack := tb_of_mem (by simp [allPst])
theorem tb_kingEndBlack : TableBounded pstKingEndBlack := tb_of_mem (by simp [allPst])

/-! ### mobility: `countMoves` is bounded by the list lengths -/

theorem sumM'_le {α} (f : α → M Nat) (C : Nat) (l : List α)
    (hf : ∀ x ∈ l, ∀ n, f x = .ok n → n ≤ C) : ∀ n, sumM' f l = .ok n → n ≤ l.length * C := by
  induction l with
  | nil => intro n h; simp only [sumM', pure_ok] at h; omega
  | cons x xs ih =>
    intro n h
    simp only [sumM', bind_ok, pure_ok] at h
    obtain ⟨a, ha, b, hb, rfl⟩ := h
    have h1 := hf x (by simp) a ha
    have h2 := ih (fun y hy => hf y (by simp [hy])) b hb
    rw [List.length_cons, Nat.succ_mul]
    omega

theorem b2n_le (b : Bool) : b2n b ≤ 1 := by cases b <;> simp [b2n]

theorem countPawnMoves_le {p : Position} {frm to pr n : Nat} (h : countPawnMoves p frm to pr = .ok n) : n ≤ 4 := by
  unfold countPawnMoves at h
  simp only [bind_ok] at h
  obtain ⟨ok, _, h⟩ := h
  split at h
  · rw [pure_ok] at h; omega
  · rw [pure_ok] at h; subst h; split <;> omega

/-- one pawn: two capture directions (≤ 4 each: a promotion counts four times) and the pushes (≤ 4 + 1) -/
theorem pawnCount_le {p : Position} {c : Ctx} {frm n : Nat} (h : pawnCount p c frm = .ok n) : n ≤ 13 := by
  rw [Count.pawnCount_eq] at h
  simp only [bind_ok] at h
  obtain ⟨nQ, hnQ, nK, hnK, nP, hnP, h⟩ := h
  rw [pure_ok] at h
  have h1 : nQ ≤ 4 := by
    unfold Count.pawnCntQG at hnQ
    simp only [bind_ok] at hnQ
    obtain ⟨hit, _, hnQ⟩ := hnQ
    split at hnQ
    · exact countPawnMoves_le hnQ
    · rw [pure_ok] at hnQ; omega
  have h2 : nK ≤ 4 := by
    unfold Count.pawnCntKG at hnK
    simp only [bind_ok] at hnK
    obtain ⟨x, _, hnK⟩ := hnK
    split at hnK
    · exact countPawnMoves_le hnK
    · rw [pure_ok] at hnK; omega
  have h3 : nP ≤ 5 := by
    unfold Count.pawnCntPush at hnP
    simp only [bind_ok] at hnP
    obtain ⟨y, _, hnP⟩ := hnP
    split at hnP
    · simp only [bind_ok] at hnP
      obtain ⟨single, hs, dbl, _, hnP⟩ := hnP
      have := countPawnMoves_le hs
      split at hnP
      · simp only [bind_ok, pure_ok] at hnP
        obtain ⟨ok, _, rfl⟩ := hnP
        have := b2n_le ok
        omega
      · rw [pure_ok] at hnP; omega
    · rw [pure_ok] at hnP; omega
  omega

theorem knightCount_le {p : Position} {c : Ctx} {frm n : Nat} (h : knightCount p c frm = .ok n) : n ≤ 8 := by
  unfold knightCount at h
  have := sumM'_le _ 1 knightDirs (fun d _ k hk => ?_) n h
  · have hl : knightDirs.length = 8 := by decide
    omega
  · simp only [bind_ok] at hk
    obtain ⟨ok, _, hk⟩ := hk
    split at hk
    · simp only [bind_ok, pure_ok] at hk
      obtain ⟨l, _, rfl⟩ := hk
      exact b2n_le l
    · rw [pure_ok] at hk; omega

/-- a ray yields at most one move per unit of fuel -/
theorem slideDirCount_le (p : Position) (c : Ctx) (frm dir : Nat) :
    ∀ (fuel to n : Nat), slideDirCount p c frm dir fuel to = .ok n → n ≤ fuel := by
  intro fuel
  induction fuel with
  | zero => intro to n h; simp only [slideDirCount, throw_ok] at h
  | succ fuel ih =>
    intro to n h
    unfold slideDirCount at h
    split at h
    · rw [pure_ok] at h; omega
    · simp only [bind_ok] at h
      obtain ⟨x, _, h⟩ := h
      split at h
      · rw [pure_ok] at h; omega
      · simp only [bind_ok] at h
        obtain ⟨l, _, h⟩ := h
        have := b2n_le l
        split at h
        · rw [pure_ok] at h; omega
        · simp only [bind_ok, pure_ok] at h
          obtain ⟨rest, hrest, rfl⟩ := h
          have := ih _ _ hrest
          omega

theorem slide_le {p : Position} {c : Ctx} {frm : Nat} (dirs : List Nat) {n : Nat}
    (h : sumM' (fun d => slideDirCount p c frm d 8 (addb frm d)) dirs = .ok n) : n ≤ dirs.length * 8 :=
  sumM'_le _ 8 dirs (fun d _ k hk => slideDirCount_le p c frm d 8 _ k hk) n h

/-- one piece: a knight ≤ 8, a bishop or rook ≤ 4 rays × 8, a queen ≤ 8 rays × 8 (fuel 8 per ray) -/
theorem pieceCount_le {p : Position} {c : Ctx} {frm n : Nat} (h : pieceCount p c frm = .ok n) : n ≤ 64 := by
  unfold pieceCount at h
  simp only [bind_ok] at h
  obtain ⟨pc, _, h⟩ := h
  have hb : bishopDirs.length = 4 := by decide
  have hr : rookDirs.length = 4 := by decide
  have hk : kingDirs.length = 8 := by decide
  split at h
  · have := knightCount_le h; omega
  · split at h
    · have := slide_le _ h; omega
    · split at h
      · have := slide_le _ h; omega
      · split at h
        · have := slide_le _ h; omega
        · rw [throw_ok] at h; cases h

theorem kingCount_le {p : Position} {c : Ctx} {n : Nat} (h : kingCount p c = .ok n) : n ≤ 8 := by
  unfold kingCount at h
  have := sumM'_le _ 1 kingDirs (fun d _ k hk => ?_) n h
  · have hl : kingDirs.length = 8 := by decide
    omega
  · simp only [bind_ok] at hk
    obtain ⟨ok, _, hk⟩ := hk
    split at hk
    · simp only [bind_ok, pure_ok] at hk
      obtain ⟨l, _, rfl⟩ := hk
      exact b2n_le l
    · rw [pure_ok] at hk; omega

/-- bound on the number of moves of the side with the lists `s`: 13 per pawn, 64 per piece, 8 king steps,
    2 castlings -/
def sideBound (s : Side) : Nat := 13 * s.pawns.length + 64 * s.pieces.length + 10

/-- bound on `countMoves` whoever is to move -/
def moveBound (p : Position) : Nat := max (sideBound (p.side true)) (sideBound (p.side false))

theorem countMoves_le_side {p : Position} {n : Nat} (h : countMoves p = .ok n) : n ≤ sideBound p.ctx.cur := by
  rw [Count.countMoves_eq] at h
  simp only [bind_ok] at h
  obtain ⟨a, ha, b, hb, k, hk, q, hq, ks, hks, h⟩ := h
  rw [pure_ok] at h
  have h1 := sumM'_le _ 13 _ (fun x _ m hm => pawnCount_le hm) a ha
  have h2 := sumM'_le _ 64 _ (fun x _ m hm => pieceCount_le hm) b hb
  have h3 := kingCount_le hk
  have h4 : q ≤ 1 := by
    unfold Count.castleQCnt at hq
    split at hq
    · simp only [bind_ok, pure_ok] at hq
      obtain ⟨ok, _, rfl⟩ := hq
      exact b2n_le ok
    · rw [pure_ok] at hq; omega
  have h5 : ks ≤ 1 := by
    unfold Count.castleKCnt at hks
    split at hks
    · simp only [bind_ok, pure_ok] at hks
      obtain ⟨ok, _, rfl⟩ := hks
      exact b2n_le ok
    · rw [pure_ok] at hks; omega
  unfold sideBound
  omega

theorem ctx_cur (p : Position) : p.ctx.cur = p.side (whiteTurn p) := by
  unfold Position.ctx
  split <;> rename_i h <;> simp [h]

/-- `countMoves` is bounded by the list lengths (no invariant needed) -/
theorem countMoves_le {p : Position} {n : Nat} (h : countMoves p = .ok n) : n ≤ moveBound p := by
  have := countMoves_le_side h
  rw [ctx_cur] at this
  unfold moveBound
  generalize whiteTurn p = w at this
  cases w <;> omega

theorem moveBound_flipTurn (p : Position) : moveBound (flipTurn p) = moveBound p := rfl

/-- numeric mobility bound under the list capacities -/
def maxMoves : Nat := 64 * Gen.pieceCap + 10

theorem moveBound_le {p : Position} (hp : Inv p) : moveBound p ≤ maxMoves := by
  have h1 := hp.wLen
  have h2 := hp.bLen
  unfold moveBound sideBound maxMoves
  simp only [Position.side, if_true, Bool.false_eq_true, if_false, pieceCap] at *
  omega

theorem countMoves_le_max {p : Position} (hp : Inv p) {n : Nat} (h : countMoves p = .ok n) : n ≤ maxMoves :=
  Nat.le_trans (countMoves_le h) (moveBound_le hp)

theorem countMoves_flip_le_max {p : Position} (hp : Inv p) {n : Nat} (h : countMoves (flipTurn p) = .ok n) :
    n ≤ maxMoves := by
  have := countMoves_le h
  rw [moveBound_flipTurn] at this
  exact Nat.le_trans this (moveBound_le hp)

/-! ### the piece-square score -/

theorem sumMI_bound {α} (f : α → M Int) (lo hi : Nat) (l : List α)
    (hf : ∀ x ∈ l, ∀ v, f x = .ok v → -(lo : Int) ≤ v ∧ v ≤ (hi : Int)) :
    ∀ s, sumMI f l = .ok s → -((l.length * lo : Nat) : Int) ≤ s ∧ s ≤ ((l.length * hi : Nat) : Int) := by
  induction l with
  | nil => intro s h; simp only [sumMI, pure_ok] at h; subst h; simp
  | cons x xs ih =>
    intro s h
    simp only [sumMI, bind_ok, pure_ok] at h
    obtain ⟨a, ha, b, hb, rfl⟩ := h
    have h1 := hf x (by simp) a ha
    have h2 := ih (fun y hy => hf y (by simp [hy])) b hb
    rw [List.length_cons, Nat.succ_mul, Nat.succ_mul]
    omega

/-- one side's material + table sum: each man contributes between `−T` and `matMax + T` -/
theorem sidePst_bound {board : Array Nat} {s : Side} {tN tB tR tQ tP : Array Int}
    (hN : TableBounded tN) (hB : TableBounded tB) (hR : TableBounded tR) (hQ : TableBounded tQ)
    (hP : TableBounded tP) {w : Int} (h : sidePst board s tN tB tR tQ tP = .ok w) :
    -(((s.pieces.length + s.pawns.length) * pstMaxAbs : Nat) : Int) ≤ w ∧
    w ≤ (((s.pieces.length + s.pawns.length) * (matMax + pstMaxAbs) : Nat) : Int) := by
  unfold sidePst at h
  simp only [bind_ok, pure_ok] at h
  obtain ⟨a, ha, b, hb, rfl⟩ := h
  obtain ⟨m1, m2, m3, m4, m5⟩ := mat_le
  have h1 := sumMI_bound _ pstMaxAbs (matMax + pstMaxAbs) _ (fun sq _ v hv => ?_) a ha
  have h2 := sumMI_bound _ pstMaxAbs (matMax + pstMaxAbs) _ (fun sq _ v hv => ?_) b hb
  · rw [Nat.add_mul, Nat.add_mul]
    omega
  · simp only [bind_ok, pure_ok] at hv
    obtain ⟨t, ht, rfl⟩ := hv
    have := hP _ _ _ ht
    omega
  · simp only [bind_ok] at hv
    obtain ⟨pc, _, hv⟩ := hv
    split at hv
    · simp only [bind_ok, pure_ok] at hv
      obtain ⟨t, ht, rfl⟩ := hv
      have := hN _ _ _ ht
      omega
    · split at hv
      · simp only [bind_ok, pure_ok] at hv
        obtain ⟨t, ht, rfl⟩ := hv
        have := hB _ _ _ ht
        omega
      · split at hv
        · simp only [bind_ok, pure_ok] at hv
          obtain ⟨t, ht, rfl⟩ := hv
          have := hR _ _ _ ht
          omega
        · split at hv
          · simp only [bind_ok, pure_ok] at hv
            obtain ⟨t, ht, rfl⟩ := hv
            have := hQ _ _ _ ht
            omega
          · rw [pure_ok] at hv
            omega

/-- the non-pawn material of a piece list is at most `matMax` per listed square (no invariant needed) -/
theorem nonPawnMaterial_le_length {board : Array Nat} {pieces : List Nat} {m : Nat}
    (h : nonPawnMaterial board pieces = .ok m) : m ≤ pieces.length * matMax := by
  unfold nonPawnMaterial at h
  refine sumM'_le _ matMax pieces (fun s _ n hn => ?_) m h
  simp only [bind_ok, pure_ok] at hn
  obtain ⟨pc, _, rfl⟩ := hn
  obtain ⟨_, m2, m3, m4, m5⟩ := mat_le
  unfold materialOf
  repeat' split
  all_goals omega

/-- on a well-formed position each side's non-pawn material is at most `pieceCap · matMax`, so the material sum
    the blend is applied to is at most `maxMaterialSum` -/
theorem nonPawnMaterial_le {p : Position} (hp : Inv p) :
    (∀ wm, nonPawnMaterial p.board p.whitePieces = .ok wm → wm ≤ Gen.pieceCap * matMax) ∧
    (∀ bm, nonPawnMaterial p.board p.blackPieces = .ok bm → bm ≤ Gen.pieceCap * matMax) := by
  have l1 := hp.wLen
  have l2 := hp.bLen
  simp only [pieceCap] at l1 l2
  constructor
  · intro wm h
    exact Nat.le_trans (nonPawnMaterial_le_length h) (Nat.mul_le_mul_right matMax (by omega))
  · intro bm h
    exact Nat.le_trans (nonPawnMaterial_le_length h) (Nat.mul_le_mul_right matMax (by omega))

theorem materialSum_le {p : Position} (hp : Inv p) {wm bm : Nat}
    (hw : nonPawnMaterial p.board p.whitePieces = .ok wm) (hb : nonPawnMaterial p.board p.blackPieces = .ok bm) :
    wm + bm ≤ maxMaterialSum := by
  have h1 := (nonPawnMaterial_le hp).1 wm hw
  have h2 := (nonPawnMaterial_le hp).2 bm hb
  unfold maxMaterialSum
  rw [Nat.mul_assoc]
  omega

/-- bound of the piece-square score: one side at most `cap` men worth `matMax + T` each, the other side at
    least `−T` each, and two blended king-table values, each within `blendK · T` -/
def psB : Nat := Gen.pieceCap * (matMax + pstMaxAbs) + Gen.pieceCap * pstMaxAbs + 2 * (blendK * pstMaxAbs)

theorem pieceSquareScore_bound {blend : Blend} {p : Position} (hp : Inv p)
    (hb : BlendBounded blend pstMaxAbs) {c : Int} (h : pieceSquareScore blend p = .ok c) : c.natAbs ≤ psB := by
  unfold pieceSquareScore at h
  simp only [bind_ok, pure_ok] at h
  obtain ⟨wm, hwm, bm, hbm, w, hw, wkm, hwkm, wke, hwke, b, hbk, bkm, hbkm, bke, hbke, h⟩ := h
  have hms := materialSum_le hp hwm hbm
  have hw' := sidePst_bound tb_knightsWhite tb_bishopsWhite tb_rooksWhite tb_queensWhite tb_pawnsWhite hw
  have hb' := sidePst_bound tb_knightsBlack tb_bishopsBlack tb_rooksBlack tb_queensBlack tb_pawnsBlack hbk
  have k1 := hb (wm + bm) wkm wke hms (tb_kingMidWhite _ _ _ hwkm) (tb_kingEndWhite _ _ _ hwke)
  have k2 := hb (wm + bm) bkm bke hms (tb_kingMidBlack _ _ _ hbkm) (tb_kingEndBlack _ _ _ hbke)
  have l1 := hp.wLen
  have l2 := hp.bLen
  simp only [Position.side, if_true, Bool.false_eq_true, if_false] at hw' hb'
  simp only [pieceCap] at l1 l2
  have e1 := Nat.mul_le_mul_right pstMaxAbs (show p.whitePieces.length + p.whitePawns.length ≤ Gen.pieceCap by omega)
  have e2 := Nat.mul_le_mul_right (matMax + pstMaxAbs)
    (show p.whitePieces.length + p.whitePawns.length ≤ Gen.pieceCap by omega)
  have e3 := Nat.mul_le_mul_right pstMaxAbs (show p.blackPieces.length + p.blackPawns.length ≤ Gen.pieceCap by omega)
  have e4 := Nat.mul_le_mul_right (matMax + pstMaxAbs)
    (show p.blackPieces.length + p.blackPawns.length ≤ Gen.pieceCap by omega)
  unfold psB
  generalize blend (wm + bm) wkm wke = kw at *
  generalize blend (wm + bm) bkm bke = kb at *
  generalize blendK * pstMaxAbs = KB at *
  split at h <;> omega

/-! ### the lazy / full evaluation -/

/-- the shape of a `lazyEvaluate` result: the mate score at this depth exactly when `isCheckMate` says so;
    otherwise the cheap score, the draw score, or the cheap score plus the mobility difference -/
theorem lazyEvaluate_cases {blend : Blend} {p : Position} {d α β x : Int}
    (h : lazyEvaluate blend p d α β = .ok x) :
    (isCheckMate p = .ok true ∧ x = Gen.LostScore + d) ∨
    (isCheckMate p = .ok false ∧ ∃ cheap, pieceSquareScore blend p = .ok cheap ∧
      (x = cheap ∨ x = Gen.DrawScore ∨
        ∃ own enemy, countMoves p = .ok own ∧ countMoves (flipTurn p) = .ok enemy ∧
          x = cheap + ((own * Gen.MobilityScoreFactor : Nat) : Int) -
            ((enemy * Gen.MobilityScoreFactor : Nat) : Int))) := by
  unfold lazyEvaluate at h
  simp only [bind_ok] at h
  obtain ⟨mate, hmate, h⟩ := h
  cases mate with
  | true =>
    simp only [if_true, pure_ok] at h
    exact .inl ⟨hmate, h.symm⟩
  | false =>
    simp only [Bool.false_eq_true, if_false, bind_ok] at h
    obtain ⟨cheap, hcheap, h⟩ := h
    refine .inr ⟨hmate, cheap, hcheap, ?_⟩
    split at h
    · rw [pure_ok] at h; exact .inl h.symm
    · simp only [bind_ok] at h
      obtain ⟨own, hown, h⟩ := h
      split at h
      · rw [pure_ok] at h; exact .inr (.inl h.symm)
      · simp only [bind_ok, pure_ok] at h
        obtain ⟨enemy, hen, h⟩ := h
        exact .inr (.inr ⟨own, enemy, hown, hen, h.symm⟩)

/-- bound of the mobility term -/
def mobB : Nat := maxMoves * Gen.MobilityScoreFactor

/-- **the evaluation bound**: computed from the generated constants and tables only -/
def evalB : Nat := psB + mobB

/-- `evalB` unfolded: 15·(900 + 50) + 15·50 + 2·(8·50) + (64·15 + 10)·5 = 20 650 on the current constants -/
theorem evalB_eq : evalB = Gen.pieceCap * (matMax + pstMaxAbs) + Gen.pieceCap * pstMaxAbs +
    2 * (blendK * pstMaxAbs) +
    (64 * Gen.pieceCap + 10) * Gen.MobilityScoreFactor := by
  unfold evalB psB mobB maxMoves
  rfl

/-- the bound is below the mate band (decided on the generated constants and tables) -/
theorem evalB_lt : evalB < Gen.ScoreCloseToMate := by decide +kernel

/-- the mate band starts far below the mate score (decided on the generated constants) -/
theorem closeToMate_lt : (Gen.ScoreCloseToMate : Int) < -Gen.LostScore - 200 := by decide

theorem psB_le : psB ≤ evalB := by unfold evalB; omega

/-- the result of a lazy evaluation: the mate score iff `isCheckMate`, otherwise bounded by `evalB` -/
theorem lazyEvaluate_bound {blend : Blend} {p : Position} (hp : Inv p) (hb : BlendBounded blend pstMaxAbs)
    {d α β x : Int} (h : lazyEvaluate blend p d α β = .ok x) :
    (isCheckMate p = .ok true ∧ x = Gen.LostScore + d) ∨ (isCheckMate p = .ok false ∧ x.natAbs ≤ evalB) := by
  rcases lazyEvaluate_cases h with h | ⟨hm, cheap, hc, h⟩
  · exact .inl h
  · refine .inr ⟨hm, ?_⟩
    have hcb := pieceSquareScore_bound hp hb hc
    rcases h with rfl | rfl | ⟨own, enemy, hown, hen, rfl⟩
    · exact Nat.le_trans hcb psB_le
    · simp [Gen.DrawScore]
    · have h1 := Nat.mul_le_mul_right Gen.MobilityScoreFactor (countMoves_le_max hp hown)
      have h2 := Nat.mul_le_mul_right Gen.MobilityScoreFactor (countMoves_flip_le_max hp hen)
      unfold evalB mobB
      omega

/-- `eval_bound`: on a well-formed position, with a blend satisfying `BlendBounded`, the piece-square score, the
    lazy evaluation (any window) and the full evaluation are bounded by `evalB`, except for the exact mate score
    of a checkmate -/
theorem eval_bound {blend : Blend} {p : Position} (hp : Inv p) (hb : BlendBounded blend pstMaxAbs) :
    (∀ c, pieceSquareScore blend p = .ok c → c.natAbs ≤ evalB) ∧
    (∀ (d α β x : Int), lazyEvaluate blend p d α β = .ok x → x = Gen.LostScore + d ∨ x.natAbs ≤ evalB) ∧
    (∀ (d x : Int), evaluate blend p d = .ok x → x = Gen.LostScore + d ∨ x.natAbs ≤ evalB) := by
  refine ⟨fun c hc => Nat.le_trans (pieceSquareScore_bound hp hb hc) psB_le, fun d α β x h => ?_, fun d x h => ?_⟩
  · rcases lazyEvaluate_bound hp hb h with h | h
    · exact .inl h.2
    · exact .inr h.2
  · rcases lazyEvaluate_bound hp hb h with h | h
    · exact .inl h.2
    · exact .inr h.2

/-- the evaluation classifies: mate score at this depth iff `isCheckMate`, else within `evalB` -/
theorem evaluate_class {blend : Blend} {p : Position} (hp : Inv p) (hb : BlendBounded blend pstMaxAbs)
    {d x : Int} (h : evaluate blend p d = .ok x) :
    (isCheckMate p = .ok true ∧ x = Gen.LostScore + d) ∨ (isCheckMate p = .ok false ∧ x.natAbs ≤ evalB) :=
  lazyEvaluate_bound hp hb h

/-! ### C04's hypothesis `EvalRange` -/

theorem terminalNodeScore_cases {p : Position} {d x : Int} (h : terminalNodeScore p d = .ok x) :
    (isCurrentKingUnderCheck p = .ok true ∧ x = Gen.LostScore + d) ∨
    (isCurrentKingUnderCheck p = .ok false ∧ x = Gen.DrawScore) := by
  unfold terminalNodeScore at h
  simp only [bind_ok, pure_ok] at h
  obtain ⟨chk, hchk, rfl⟩ := h
  cases chk
  · exact .inr ⟨hchk, by simp⟩
  · exact .inl ⟨hchk, by simp⟩

/-- the evaluation bound discharges the hypothesis `EvalRange` of C04's root theorems on every set of
    well-formed positions, for all depths `D` with `Gen.LostScore + D ≤ −evalB` -/
theorem evalRange_of_inv {blend : Blend} {G : Position → Prop} (hG : ∀ p, G p → Inv p)
    (hb : BlendBounded blend pstMaxAbs) (D : Nat) (hD : Gen.LostScore + (D : Int) ≤ -(evalB : Int)) :
    EvalRange blend G D := by
  intro p hp d hd hdD
  unfold InRange
  constructor
  · intro x hx
    rcases (eval_bound (hG p hp) hb).2.2 d x hx with h | h <;> omega
  · intro x hx
    rcases terminalNodeScore_cases hx with ⟨_, h⟩ | ⟨_, h⟩
    · omega
    · simp only [Gen.DrawScore] at h
      omega

/-- the largest admissible depth bound on the current constants is `−Lost − evalB`; 10000 is far inside -/
theorem depth_10000_ok : Gen.LostScore + ((10000 : Nat) : Int) ≤ -(evalB : Int) := by decide +kernel

end Magog.Lemmas.EvalBound
