import Magog.Lemmas.Inv
import Magog.Lemmas.MirrorPst
import Magog.Model.Eval

/-! The static evaluation never panics on a well-formed position (`Inv`): every board / table index it
    uses is a square of a piece list or a king square (`< 128` by `SideOk`), boards have 128 slots
    (`BoardOk.size`) and the fourteen generated piece-square tables have 128 entries (`Mir.pst_mirror`).
    The totality of the move counters is proved elsewhere and enters as a hypothesis. -/

namespace Magog.TotalEval
open Magog Magog.Model Magog.Atk

/-! ### monad plumbing -/

theorem bget_total {b : Array Nat} {i : Nat} (h : i < b.size) : ∃ x, bget b i = .ok x := by
  unfold bget
  exact ⟨b[i], by simp [h]; rfl⟩

theorem tgetI_total {t : Array Int} (what : String) {i : Nat} (h : i < t.size) :
    ∃ x, tgetI t what i = .ok x := by
  unfold tgetI
  rw [Array.getElem?_eq_getElem h]
  exact ⟨t[i], rfl⟩

theorem sumMI_total {α} (f : α → M Int) (l : List α) (hf : ∀ x ∈ l, ∃ v, f x = .ok v) :
    ∃ v, sumMI f l = .ok v := by
  induction l with
  | nil => exact ⟨0, rfl⟩
  | cons x xs ih =>
    obtain ⟨a, ha⟩ := hf x (by simp)
    obtain ⟨b, hb⟩ := ih (fun y hy => hf y (by simp [hy]))
    exact ⟨a + b, by simp only [sumMI, ha, hb]; rfl⟩

theorem sumM'_total {α} (f : α → M Nat) (l : List α) (hf : ∀ x ∈ l, ∃ v, f x = .ok v) :
    ∃ v, sumM' f l = .ok v := by
  induction l with
  | nil => exact ⟨0, rfl⟩
  | cons x xs ih =>
    obtain ⟨a, ha⟩ := hf x (by simp)
    obtain ⟨b, hb⟩ := ih (fun y hy => hf y (by simp [hy]))
    exact ⟨a + b, by simp only [sumM', ha, hb]; rfl⟩

/-! ### the tables have 128 entries -/

theorem pair_size {w b : List Int} (hp : (w, b) ∈ Mir.tablePairs) :
    w.toArray.size = 128 ∧ b.toArray.size = 128 := by
  obtain ⟨h1, h2, _⟩ := Mir.pst_mirror w b hp 0 (by decide)
  exact ⟨by simpa using h1, by simpa using h2⟩

theorem size_pawns : pstPawnsWhite.size = 128 ∧ pstPawnsBlack.size = 128 :=
  pair_size (w := Gen.sqTablePawnsWhite) (b := Gen.sqTablePawnsBlack) (by simp [Mir.tablePairs])
theorem size_knights : pstKnightsWhite.size = 128 ∧ pstKnightsBlack.size = 128 :=
  pair_size (w := Gen.sqTableKnightsWhite) (b := Gen.sqTableKnightsBlack) (by simp [Mir.tablePairs])
theorem size_bishops : pstBishopsWhite.size = 128 ∧ pstBishopsBlack.size = 128 :=
  pair_size (w := Gen.sqTableBishopsWhite) (b := Gen.sqTableBishopsBlack) (by simp [Mir.tablePairs])
theorem size_rooks : pstRooksWhite.size = 128 ∧ pstRooksBlack.size = 128 :=
  pair_size (w := Gen.sqTableRooksWhite) (b := Gen.sqTableRooksBlack) (by simp [Mir.tablePairs])
theorem size_queens : pstQueensWhite.size = 128 ∧ pstQueensBlack.size = 128 :=
  pair_size (w := Gen.sqTableQueensWhite) (b := Gen.sqTableQueensBlack) (by simp [Mir.tablePairs])
theorem size_kingMid : pstKingMidWhite.size = 128 ∧ pstKingMidBlack.size = 128 :=
  pair_size (w := Gen.sqTableKingMidgameWhite) (b := Gen.sqTableKingMidgameBlack) (by simp [Mir.tablePairs])
theorem size_kingEnd : pstKingEndWhite.size = 128 ∧ pstKingEndBlack.size = 128 :=
  pair_size (w := Gen.sqTableKingEndgameWhite) (b := Gen.sqTableKingEndgameBlack) (by simp [Mir.tablePairs])

/-! ### the sums -/

theorem nonPawnMaterial_total {board : Array Nat} (hb : board.size = 128) (l : List Nat)
    (hl : ∀ s ∈ l, s < 128) : ∃ x, nonPawnMaterial board l = .ok x := by
  unfold nonPawnMaterial
  refine sumM'_total _ l (fun s hs => ?_)
  obtain ⟨pc, hpc⟩ := bget_total (b := board) (i := s) (by rw [hb]; exact hl s hs)
  exact ⟨materialOf (pc &&& Colorless), by rw [hpc]; rfl⟩

theorem sidePst_total {board : Array Nat} (hb : board.size = 128) (s : Side) {tN tB tR tQ tP : Array Int}
    (hN : tN.size = 128) (hB : tB.size = 128) (hR : tR.size = 128) (hQ : tQ.size = 128) (hP : tP.size = 128)
    (hpc : ∀ x ∈ s.pieces, x < 128) (hpw : ∀ x ∈ s.pawns, x < 128) :
    ∃ x, sidePst board s tN tB tR tQ tP = .ok x := by
  unfold sidePst
  obtain ⟨a, ha⟩ := sumMI_total (fun sq => do
    let pc ← bget board sq
    let k := pc &&& Colorless
    if k == Knight then do let v ← tgetI tN "sqTableKnights" sq; pure ((Gen.MaterialKnightScore : Int) + v)
    else if k == Bishop then do let v ← tgetI tB "sqTableBishops" sq; pure ((Gen.MaterialBishopScore : Int) + v)
    else if k == Rook then do let v ← tgetI tR "sqTableRooks" sq; pure ((Gen.MaterialRookScore : Int) + v)
    else if k == Queen then do let v ← tgetI tQ "sqTableQueens" sq; pure ((Gen.MaterialQueenScore : Int) + v)
    else pure 0) s.pieces (fun sq hsq => by
      have h128 := hpc sq hsq
      obtain ⟨pc, hpc'⟩ := bget_total (b := board) (i := sq) (by omega)
      obtain ⟨vN, hvN⟩ := tgetI_total (t := tN) "sqTableKnights" (i := sq) (by omega)
      obtain ⟨vB, hvB⟩ := tgetI_total (t := tB) "sqTableBishops" (i := sq) (by omega)
      obtain ⟨vR, hvR⟩ := tgetI_total (t := tR) "sqTableRooks" (i := sq) (by omega)
      obtain ⟨vQ, hvQ⟩ := tgetI_total (t := tQ) "sqTableQueens" (i := sq) (by omega)
      simp only [hpc', hvN, hvB, hvR, hvQ, Count.ok_bind]
      split
      · exact ⟨_, rfl⟩
      · split
        · exact ⟨_, rfl⟩
        · split
          · exact ⟨_, rfl⟩
          · split
            · exact ⟨_, rfl⟩
            · exact ⟨_, rfl⟩)
  obtain ⟨b, hb'⟩ := sumMI_total
    (fun sq => do let v ← tgetI tP "sqTablePawns" sq; pure ((Gen.MaterialPawnScore : Int) + v)) s.pawns
    (fun sq hsq => by
      obtain ⟨v, hv⟩ := tgetI_total (t := tP) "sqTablePawns" (i := sq) (by have := hpw sq hsq; omega)
      exact ⟨_, by rw [hv]; rfl⟩)
  exact ⟨a + b, by rw [ha, hb']; rfl⟩

/-! ### index facts from `Inv` -/

theorem wpieces_lt {p : Position} (hI : Inv p) : ∀ s ∈ p.whitePieces, s < 128 :=
  fun s hs => ((hI.white.pieces s).1 (by simpa [Position.side] using hs)).1
theorem bpieces_lt {p : Position} (hI : Inv p) : ∀ s ∈ p.blackPieces, s < 128 :=
  fun s hs => ((hI.black.pieces s).1 (by simpa [Position.side] using hs)).1
theorem wpawns_lt {p : Position} (hI : Inv p) : ∀ s ∈ p.whitePawns, s < 128 :=
  fun s hs => ((hI.white.pawns s).1 (by simpa [Position.side] using hs)).1
theorem bpawns_lt {p : Position} (hI : Inv p) : ∀ s ∈ p.blackPawns, s < 128 :=
  fun s hs => ((hI.black.pawns s).1 (by simpa [Position.side] using hs)).1
theorem wking_lt {p : Position} (hI : Inv p) : p.whiteKing < 128 :=
  ((hI.white.king p.whiteKing).1 (by simp [Position.side])).1
theorem bking_lt {p : Position} (hI : Inv p) : p.blackKing < 128 :=
  ((hI.black.king p.blackKing).1 (by simp [Position.side])).1

/-! ### the required theorems -/

/-- the material + piece-square score never panics -/
theorem pieceSquareScore_total {p : Position} (hI : Inv p) (blend : Blend) :
    ∃ x, pieceSquareScore blend p = .ok x := by
  have hsz := hI.board.size
  obtain ⟨wm, hwm⟩ := nonPawnMaterial_total hsz p.whitePieces (wpieces_lt hI)
  obtain ⟨bm, hbm⟩ := nonPawnMaterial_total hsz p.blackPieces (bpieces_lt hI)
  obtain ⟨w, hw⟩ := sidePst_total hsz (p.side true) size_knights.1 size_bishops.1 size_rooks.1
    size_queens.1 size_pawns.1 (by simpa [Position.side] using wpieces_lt hI)
    (by simpa [Position.side] using wpawns_lt hI)
  obtain ⟨b, hb⟩ := sidePst_total hsz (p.side false) size_knights.2 size_bishops.2 size_rooks.2
    size_queens.2 size_pawns.2 (by simpa [Position.side] using bpieces_lt hI)
    (by simpa [Position.side] using bpawns_lt hI)
  obtain ⟨wkm, hwkm⟩ := tgetI_total (t := pstKingMidWhite) "sqTableKingMidgameWhite" (i := p.whiteKing)
    (by rw [size_kingMid.1]; exact wking_lt hI)
  obtain ⟨wke, hwke⟩ := tgetI_total (t := pstKingEndWhite) "sqTableKingEndgameWhite" (i := p.whiteKing)
    (by rw [size_kingEnd.1]; exact wking_lt hI)
  obtain ⟨bkm, hbkm⟩ := tgetI_total (t := pstKingMidBlack) "sqTableKingMidgameBlack" (i := p.blackKing)
    (by rw [size_kingMid.2]; exact bking_lt hI)
  obtain ⟨bke, hbke⟩ := tgetI_total (t := pstKingEndBlack) "sqTableKingEndgameBlack" (i := p.blackKing)
    (by rw [size_kingEnd.2]; exact bking_lt hI)
  unfold pieceSquareScore
  simp only [hwm, hbm, hw, hb, hwkm, hwke, hbkm, hbke, Count.ok_bind]
  exact ⟨_, rfl⟩

/-- check detection never panics (it is the rules' `inCheck`, C09) -/
theorem isCurrentKingUnderCheck_total {p : Position} (hI : Inv p) :
    ∃ b, isCurrentKingUnderCheck p = .ok b := by
  simp only [isCurrentKingUnderCheck]
  cases whiteTurn p
  · exact ⟨_, inCheck_eq (w := false) hI.board hI.black hI.white⟩
  · exact ⟨_, inCheck_eq (w := true) hI.board hI.white hI.black⟩

theorem terminalNodeScore_total {p : Position} (hI : Inv p) (d : Int) :
    ∃ x, terminalNodeScore p d = .ok x := by
  obtain ⟨c, hc⟩ := isCurrentKingUnderCheck_total hI
  unfold terminalNodeScore
  rw [hc]
  exact ⟨_, rfl⟩

theorem isCheckMate_total {p : Position} (hI : Inv p) (hc : ∃ n, countMoves p = .ok n) :
    ∃ b, isCheckMate p = .ok b := by
  obtain ⟨c, hc'⟩ := isCurrentKingUnderCheck_total hI
  obtain ⟨n, hn⟩ := hc
  unfold isCheckMate
  rw [hc', hn]
  cases c
  · exact ⟨_, rfl⟩
  · exact ⟨_, rfl⟩

theorem lazyEvaluate_total {p : Position} (hI : Inv p) (hc : ∃ n, countMoves p = .ok n)
    (hf : ∃ n, countMoves (flipTurn p) = .ok n) (blend : Blend) (d a b : Int) :
    ∃ x, lazyEvaluate blend p d a b = .ok x := by
  obtain ⟨mate, hmate⟩ := isCheckMate_total hI hc
  obtain ⟨cheap, hcheap⟩ := pieceSquareScore_total hI blend
  obtain ⟨n, hn⟩ := hc
  obtain ⟨n', hn'⟩ := hf
  unfold lazyEvaluate
  simp only [hmate, hcheap, hn, hn', Count.ok_bind]
  split
  · exact ⟨_, rfl⟩
  · split
    · exact ⟨_, rfl⟩
    · split
      · exact ⟨_, rfl⟩
      · exact ⟨_, rfl⟩

theorem evaluate_total {p : Position} (hI : Inv p) (hc : ∃ n, countMoves p = .ok n)
    (hf : ∃ n, countMoves (flipTurn p) = .ok n) (blend : Blend) (d : Int) :
    ∃ x, evaluate blend p d = .ok x :=
  lazyEvaluate_total hI hc hf blend d _ _

/-- non-vacuity: the hypotheses hold on the initial position (the counters run there) -/
example : Inv startPosition ∧ (∃ n, countMoves startPosition = .ok n) ∧
    (∃ n, countMoves (flipTurn startPosition) = .ok n) :=
  ⟨inv_startPosition, ⟨20, Count.okVal_eq_some (by decide +kernel)⟩,
    ⟨20, Count.okVal_eq_some (by decide +kernel)⟩⟩

end Magog.TotalEval
