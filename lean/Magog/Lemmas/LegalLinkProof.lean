import Magog.Lemmas.Replay
import Magog.Props.C01

/-! `Replay.LegalLink` holds: every move the rules call legal is denoted by a generated engine move that
    `makeMove` accepts. From pieces that exist: the pseudo-legal generator is complete for legal moves
    (`C01.genPseudo_complete_legal`), `makeMove` returns "mover's king not attacked" (`makeMove_spec`), the
    engine's attack test is the rules' (`Atk.inCheck_eq`), and the new board is the rules' new board
    (`MMAbs.abs_board_eq`). -/

namespace Magog.Replay
open Magog Magog.Model Magog.Atk Magog.MM

/-- "the side not to move is not in check", in the terms of the rules -/
theorem oppSafe_iff {p : Position} (hI : Inv p) :
    OppSafe p ↔ Spec.inCheck (abs p).board (colorOf (!whiteTurn p)) = false := by
  have hen : SideOk p.board (p.side (whiteTurn p)) (!(!whiteTurn p)) := by
    rw [Bool.not_not]; exact MMAbs.inv_side hI _
  have h := inCheck_eq hI.board (MMAbs.inv_side hI (!whiteTurn p)) hen
  unfold OppSafe
  rw [h]
  constructor
  · intro e
    exact (Except.ok.inj e)
  · intro e
    rw [← e]
    rfl

theorem abs_turn (p : Position) : (abs p).turn = colorOf (whiteTurn p) := by
  unfold abs colorOf; rfl

/-- the verdict of `makeMove` on a generated move is the rules' "the mover's king is not attacked afterwards" -/
theorem verdict_spec {p p' : Position} {m : Move} {b : Bool} (hI : Inv p) (hS : OppSafe p) (hG : MM.Generated p m)
    (h : makeMove p m = .ok (p', b)) :
    b = !Spec.inCheck (Spec.apply (abs p) (absMove m)).board (abs p).turn := by
  obtain ⟨q, c, h1, hI', hb⟩ := makeMove_spec hI hS hG
  rw [h] at h1
  simp only [Except.ok.injEq, Prod.mk.injEq] at h1
  obtain ⟨rfl, rfl⟩ := h1
  have hcase := MMAbs.generated_cases hI hG
  obtain ⟨fp, tp, hc⟩ := MMAbs.gen_common hI hcase
  have hboard := MMAbs.abs_board_eq hI hcase hc h
  have hturn : whiteTurn p' = !whiteTurn p := (makeMove_ply_aux h).2
  rw [oppSafe_iff hI', hboard, hturn, Bool.not_not, ← abs_turn] at hb
  cases b
  · cases hc : Spec.inCheck (Spec.apply (abs p) (absMove m)).board (abs p).turn
    · exact absurd (hb.mpr hc) (by simp)
    · rfl
  · rw [hb.mp rfl]; rfl

theorem legalLink : LegalLink := by
  intro p hI hS sm hleg
  obtain ⟨ms, hgen⟩ := Props.C01.genPseudo_ok hI Killers.empty Props.C18.killers_empty_size
  obtain ⟨rm, hrm, he⟩ := Props.C01.genPseudo_complete_legal hI hgen sm hleg
  have hG : MM.Generated p rm.mov := ⟨_, ms, hgen, List.mem_map.mpr ⟨rm, hrm, rfl⟩⟩
  obtain ⟨p', b, hmm, _, _⟩ := makeMove_spec hI hS hG
  have hv := verdict_spec hI hS hG hmm
  rw [he] at hv
  simp only [Spec.legal, Bool.and_eq_true, Bool.not_eq_true'] at hleg
  rw [hleg.2] at hv
  subst hv
  exact ⟨rm.mov, hG, he, p', hmm⟩

end Magog.Replay
