import Magog.Lemmas.CountTac
import Magog.Lemmas.CountPromo
/-! C06, parts 2 and 3: the counters against the generators. -/

namespace Magog.Count
open Magog Magog.Model

def pawnCntQG (g : Bool) (p : Position) (c : Ctx) (frm : Nat) : M Nat := do
  let toQ := addb (addb frm c.adv) 0xFF
  let hitQ ← andM (isValid toQ) (do
    let x ← bget p.board toQ
    pure (x &&& c.enBit != 0 || (toQ == p.ep && g)))
  if hitQ then countPawnMoves p frm toQ c.promoRank else pure 0

def pawnCntKG (g : Bool) (p : Position) (c : Ctx) (frm : Nat) : M Nat := do
  let toK := addb (addb frm c.adv) 1
  let x ← bget p.board toK
  if x &&& c.enBit != 0 || (toK == p.ep && g) then countPawnMoves p frm toK c.promoRank else pure 0

def pawnCntPush (p : Position) (c : Ctx) (frm : Nat) : M Nat := do
  let to1 := addb frm c.adv
  let y ← bget p.board to1
  if y == 0 then do
    let single ← countPawnMoves p frm to1 c.promoRank
    let to2 := addb to1 c.adv
    let dbl ← andM (rankOf frm == c.startRank) (do let z ← bget p.board to2; pure (z == 0))
    if dbl then do
      let ok ← isLegal p ⟨frm, to2, 0, to1⟩
      pure (single + b2n ok)
    else pure single
  else pure 0

def pawnTCntPush (p : Position) (c : Ctx) (frm : Nat) : M Nat := do
  let to1 := addb frm c.adv
  let y ← bget p.board to1
  if y == 0 && rankOf to1 == c.promoRank then countPawnMoves p frm to1 c.promoRank else pure 0

theorem pawnCount_eq (p c frm) : pawnCount p c frm = (do
    let a ← pawnCntQG (rankOf frm != c.startRank) p c frm
    let b ← pawnCntKG (rankOf frm != c.startRank) p c frm
    let d ← pawnCntPush p c frm
    pure (a + b + d)) := by
  unfold pawnCount pawnCntQG pawnCntKG pawnCntPush
  simp only [bind_assoc, pure_bind]
  repeat' first | rfl | split | (simp only [bind_assoc, pure_bind]) | (apply bind_congr; intro _)

theorem pawnCountTactical_eq (p c frm) : pawnCountTactical p c frm = (do
    let a ← pawnCntQG true p c frm
    let b ← pawnCntKG true p c frm
    let d ← pawnTCntPush p c frm
    pure (a + b + d)) := by
  unfold pawnCountTactical pawnCntQG pawnCntKG pawnTCntPush
  simp only [pure_bind, Bool.and_true]
  repeat' first | rfl | split | (simp only [bind_assoc, pure_bind]) | (apply bind_congr; intro _)

/-! ### "count = number of legal moves of the pseudo-legal list" -/

def CntRel (p : Position) (n : Nat) (a : List RMove) : Prop :=
  n = ((a.map (·.mov)).filter (legalB p)).length

theorem CntRel.nil {p : Position} : CntRel p 0 [] := rfl

theorem CntRel.append {p : Position} {n m : Nat} {a b : List RMove} (h1 : CntRel p n a) (h2 : CntRel p m b) :
    CntRel p (n + m) (a ++ b) := by
  unfold CntRel at *
  simp only [List.map_append, List.filter_append, List.length_append, h1, h2]

theorem CntRel.single {p : Position} {m : Move} {l : Bool} {rm : RMove} (hl : isLegal p m = .ok l)
    (hm : rm.mov = m) : CntRel p (b2n l) [rm] := by
  unfold CntRel
  simp only [List.map_cons, List.map_nil, hm, List.filter_cons, legalB_of_ok hl]
  cases l <;> rfl

theorem CntRel.of_mov {p : Position} {n : Nat} {a : List RMove} {ms : List Move} (hm : a.map (·.mov) = ms)
    (h : n = (ms.filter (legalB p)).length) : CntRel p n a := by
  unfold CntRel; rw [hm]; exact h

/-- the counting version of `sum_flatMap_rel`, also handing each element the fact that its moves
    are among the generated ones -/
theorem sum_flatMap_cnt {α} {p : Position} {g : α → M Nat} {h : α → M (List RMove)} {l : List α} {n : Nat}
    {f : List RMove} (hn : sumM' g l = .ok n) (hf : flatMapM' h l = .ok f)
    (hel : ∀ x ∈ l, ∀ k a, g x = .ok k → h x = .ok a → (∀ y ∈ a, y ∈ f) → CntRel p k a) : CntRel p n f := by
  induction l generalizing n f with
  | nil =>
    simp only [sumM', flatMapM', pure_eq_ok, Except.ok.injEq] at hn hf
    subst hn; subst hf; exact CntRel.nil
  | cons x xs ih =>
    simp only [sumM', flatMapM', bind_ok, pure_eq_ok, Except.ok.injEq] at hn hf
    obtain ⟨a, ha, t', ht', rfl⟩ := hn
    obtain ⟨b, hb, f', hf', rfl⟩ := hf
    refine CntRel.append (hel x List.mem_cons_self a b ha hb (fun y hy => List.mem_append_left _ hy)) ?_
    exact ih ht' hf' (fun y hy k a hk ha hsub =>
      hel y (List.mem_cons_of_mem _ hy) k a hk ha (fun z hz => List.mem_append_right _ (hsub z hz)))

/-! ### legality needs the destination on the board array -/

theorem mmMover_size {board : Array Nat} {flags : Nat} {cur : Side} {m : Move} {cc cr ck cq : Nat}
    {b' : Array Nat} {f' : Nat} {cur' : Side}
    (h : mmMover board flags cur m cc cr ck cq = .ok (b', f', cur')) : b'.size = board.size := by
  unfold mmMover at h
  simp only [bind_ok] at h
  obtain ⟨fp, _, h⟩ := h
  repeat' split at h
  all_goals
    simp only [bind_ok, pure_eq_ok, Except.ok.injEq, Prod.mk.injEq, bset_ok_iff] at h
  all_goals first
    | (obtain ⟨rfl, _, _⟩ := h; rfl)
    | (obtain ⟨_, _, rfl, _, _⟩ := h; rfl)
    | (obtain ⟨b1, ⟨_, rfl⟩, b2, ⟨_, rfl⟩, rfl, _, _⟩ := h; simp)

theorem isLegal_to_lt {p : Position} {m : Move} (h : IsOk (isLegal p m)) : m.to < p.board.size := by
  obtain ⟨b, h⟩ := h
  simp only [isLegal, bind_ok, pure_eq_ok, Except.ok.injEq] at h
  obtain ⟨⟨q, b'⟩, h, _⟩ := h
  obtain ⟨bd, fl, cur, en, B, en', chk, hm, hc, _⟩ := makeMove_ok h
  have hs := mmMover_size hm
  unfold mmCapture at hc
  simp only [bind_ok, bget_ok_iff] at hc
  obtain ⟨tg, htg, _⟩ := hc
  have := (Array.getElem?_eq_some_iff.mp htg).1
  omega

/-! ### knights, sliders -/

theorem knight_cnt {p : Position} {c kt frm n a} (hn : knightCount p c frm = .ok n)
    (ha : knightGen p c kt frm = .ok a) : CntRel p n a := by
  unfold knightCount at hn
  unfold knightGen at ha
  refine sum_flatMap_rel (CntRel p) CntRel.nil (fun _ _ _ _ => CntRel.append) hn ha ?_
  intro d _ k b hk hb
  dsimp only at hk hb
  simp only [bind_ok] at hk hb
  obtain ⟨ok1, h1, hk⟩ := hk
  obtain ⟨ok2, h2, hb⟩ := hb
  rw [h1] at h2; cases h2
  cases ok1
  · simp only [Bool.false_eq_true, if_false, pure_eq_ok, Except.ok.injEq] at hk hb
    subst hk; subst hb; exact CntRel.nil
  · simp only [if_true, bind_ok, pure_eq_ok, Except.ok.injEq] at hk hb
    obtain ⟨l, hl, rfl⟩ := hk
    obtain ⟨x, _, pc, _, mv, hmv, rfl⟩ := hb
    exact CntRel.single hl (moveOrCapture_mov hmv)

theorem knight_tcnt {p : Position} {c frm n a} (hn : knightCountTactical p c frm = .ok n)
    (ha : knightGenTactical p c frm = .ok a) : CntRel p n a := by
  unfold knightCountTactical at hn
  unfold knightGenTactical at ha
  refine sum_flatMap_rel (CntRel p) CntRel.nil (fun _ _ _ _ => CntRel.append) hn ha ?_
  intro d _ k b hk hb
  dsimp only at hk hb
  simp only [bind_ok] at hk hb
  obtain ⟨ok1, h1, hk⟩ := hk
  obtain ⟨ok2, h2, hb⟩ := hb
  rw [h1] at h2; cases h2
  cases ok1
  · simp only [Bool.false_eq_true, if_false, pure_eq_ok, Except.ok.injEq] at hk hb
    subst hk; subst hb; exact CntRel.nil
  · simp only [if_true, bind_ok, pure_eq_ok, Except.ok.injEq] at hk hb
    obtain ⟨l, hl, rfl⟩ := hk
    obtain ⟨x, _, mv, hmv, rfl⟩ := hb
    exact CntRel.single hl (captureRM_shape hmv).1

theorem slideDir_cnt {p : Position} {c : Ctx} {kt : Killers} {frm att dir : Nat} :
    ∀ (fuel to n : Nat) (a : List RMove), slideDirCount p c frm dir fuel to = .ok n →
      slideDir p.board c kt p.ply frm att dir fuel to = .ok a → CntRel p n a := by
  intro fuel
  induction fuel with
  | zero => intro to n a hn; simp [slideDirCount, throw_eq_error] at hn
  | succ fuel ih =>
    intro to n a hn ha
    unfold slideDirCount at hn
    unfold slideDir at ha
    cases hv : isValid to
    · simp only [hv, Bool.not_false, if_true, pure_eq_ok, Except.ok.injEq] at hn ha
      subst hn; subst ha; exact CntRel.nil
    · cases hx : bget p.board to with
      | error e => simp [hv, hx] at hn
      | ok x =>
        simp only [hv, hx, Bool.not_true, Bool.false_eq_true, if_false, ok_bind, pure_eq_ok] at hn ha
        cases hcb : (x &&& c.curBit != 0)
        · simp only [hcb, Bool.false_eq_true, if_false, bind_ok] at hn ha
          obtain ⟨l, hl, hn⟩ := hn
          obtain ⟨mv, hmv, ha⟩ := ha
          have h1 : CntRel p (b2n l) [mv] := CntRel.single hl (moveOrCapture_mov hmv)
          cases he : (x &&& c.enBit != 0)
          · simp only [he, Bool.false_eq_true, if_false, bind_ok, Except.ok.injEq] at hn ha
            obtain ⟨rest, hrest, rfl⟩ := hn
            obtain ⟨rest', hrest', rfl⟩ := ha
            exact CntRel.append h1 (ih _ _ _ hrest hrest')
          · simp only [he, if_true, Except.ok.injEq] at hn ha
            subst hn; subst ha; exact h1
        · simp only [hcb, if_true, Except.ok.injEq] at hn ha
          subst hn; subst ha; exact CntRel.nil

theorem slideDir_tcnt {p : Position} {c : Ctx} {frm dir : Nat} :
    ∀ (fuel to n : Nat) (a : List RMove), slideDirCountTactical p c frm dir fuel to = .ok n →
      slideDirTactical p.board c frm dir fuel to = .ok a → CntRel p n a := by
  intro fuel
  induction fuel with
  | zero => intro to n a hn; simp [slideDirCountTactical, throw_eq_error] at hn
  | succ fuel ih =>
    intro to n a hn ha
    unfold slideDirCountTactical at hn
    unfold slideDirTactical at ha
    cases hv : isValid to
    · simp only [hv, Bool.not_false, if_true, pure_eq_ok, Except.ok.injEq] at hn ha
      subst hn; subst ha; exact CntRel.nil
    · cases hx : bget p.board to with
      | error e => simp [hv, hx] at hn
      | ok x =>
        simp only [hv, hx, Bool.not_true, Bool.false_eq_true, if_false, ok_bind, pure_eq_ok] at hn ha
        cases hcb : (x &&& c.curBit != 0)
        · simp only [hcb, Bool.false_eq_true, if_false] at hn ha
          cases he : (x &&& c.enBit != 0)
          · simp only [he, Bool.false_eq_true, if_false] at hn ha
            exact ih _ _ _ hn ha
          · simp only [he, if_true, bind_ok, Except.ok.injEq] at hn ha
            obtain ⟨l, hl, rfl⟩ := hn
            obtain ⟨pc, _, mv, hmv, rfl⟩ := ha
            exact CntRel.single hl (captureRM_shape hmv).1
        · simp only [hcb, if_true, Except.ok.injEq] at hn ha
          subst hn; subst ha; exact CntRel.nil

theorem slide_cnt {p : Position} {c kt frm dirs n a}
    (hn : sumM' (fun d => slideDirCount p c frm d 8 (addb frm d)) dirs = .ok n)
    (ha : slideGen p c kt frm dirs = .ok a) : CntRel p n a := by
  simp only [slideGen, bind_ok] at ha
  obtain ⟨pc, _, ha⟩ := ha
  refine sum_flatMap_rel (CntRel p) CntRel.nil (fun _ _ _ _ => CntRel.append) hn ha ?_
  intro d _ k b hk hb
  exact slideDir_cnt _ _ _ _ hk hb

theorem slide_tcnt {p : Position} {c frm dirs n a}
    (hn : sumM' (fun d => slideDirCountTactical p c frm d 8 (addb frm d)) dirs = .ok n)
    (ha : flatMapM' (fun d => slideDirTactical p.board c frm d 8 (addb frm d)) dirs = .ok a) :
    CntRel p n a := by
  refine sum_flatMap_rel (CntRel p) CntRel.nil (fun _ _ _ _ => CntRel.append) hn ha ?_
  intro d _ k b hk hb
  exact slideDir_tcnt _ _ _ _ hk hb

theorem piece_cnt {p : Position} {c kt frm n a} (hn : pieceCount p c frm = .ok n)
    (ha : pieceGen p c kt frm = .ok a) : CntRel p n a := by
  simp only [pieceCount, pieceGen, bind_ok] at hn ha
  obtain ⟨pc, hpc, hn⟩ := hn
  obtain ⟨pc', hpc', ha⟩ := ha
  rw [hpc] at hpc'; cases hpc'
  split at hn
  · rename_i h; rw [if_pos h] at ha; exact knight_cnt hn ha
  · rename_i h; rw [if_neg h] at ha
    split at hn
    · rename_i h; rw [if_pos h] at ha; exact slide_cnt hn ha
    · rename_i h; rw [if_neg h] at ha
      split at hn
      · rename_i h; rw [if_pos h] at ha; exact slide_cnt hn ha
      · rename_i h; rw [if_neg h] at ha
        split at hn
        · rename_i h; rw [if_pos h] at ha; exact slide_cnt hn ha
        · simp [throw_eq_error] at hn

theorem piece_tcnt {p : Position} {c frm n a} (hn : pieceCountTactical p c frm = .ok n)
    (ha : pieceGenTactical p c frm = .ok a) : CntRel p n a := by
  simp only [pieceCountTactical, pieceGenTactical, bind_ok] at hn ha
  obtain ⟨pc, hpc, hn⟩ := hn
  obtain ⟨pc', hpc', ha⟩ := ha
  rw [hpc] at hpc'; cases hpc'
  split at hn
  · rename_i h; rw [if_pos h] at ha; exact knight_tcnt hn ha
  · rename_i h; rw [if_neg h] at ha
    split at hn
    · rename_i h; rw [if_pos h] at ha; exact slide_tcnt hn ha
    · rename_i h; rw [if_neg h] at ha
      split at hn
      · rename_i h; rw [if_pos h] at ha; exact slide_tcnt hn ha
      · rename_i h; rw [if_neg h] at ha
        split at hn
        · rename_i h; rw [if_pos h] at ha; exact slide_tcnt hn ha
        · simp [throw_eq_error] at hn

/-! ### king steps -/

/-- `KingStepSafe` for an arbitrary context record -/
def KingStepSafeC (p : Position) (c : Ctx) : Prop :=
  ∀ d ∈ kingDirs, isUnderCheck p.board c.en (addb c.cur.king d) = .ok true →
    isLegal p ⟨c.cur.king, addb c.cur.king d, 0, InvalidSq⟩ ≠ .ok true

theorem king_cnt {p : Position} {c kt n a} (hks : KingStepSafeC p c) (hn : kingCount p c = .ok n)
    (ha : kingGen p c kt = .ok a) : CntRel p n a := by
  unfold kingCount at hn
  unfold kingGen at ha
  refine sum_flatMap_rel (CntRel p) CntRel.nil (fun _ _ _ _ => CntRel.append) hn ha ?_
  intro d hd k b hk hb
  dsimp only at hk hb
  cases hv : isValid (addb c.cur.king d)
  · simp only [hv, andM_false, ok_bind, Bool.false_eq_true, if_false, pure_eq_ok, Except.ok.injEq] at hk hb
    subst hk; subst hb; exact CntRel.nil
  · cases hx : bget p.board (addb c.cur.king d) with
    | error e => simp [hv, hx] at hk
    | ok x =>
      simp only [hv, hx, andM_true, ok_bind, pure_eq_ok] at hk hb
      cases hcb : (x &&& c.curBit == 0)
      · simp only [hcb, andM_false, ok_bind, Bool.false_eq_true, if_false, Except.ok.injEq] at hk hb
        subst hk; subst hb; exact CntRel.nil
      · cases hu : isUnderCheck p.board c.en (addb c.cur.king d) with
        | error e => simp [hcb, hu] at hb
        | ok chk =>
          simp only [hcb, hu, andM_true, ok_bind, if_true, bind_ok, Except.ok.injEq] at hk hb
          obtain ⟨l, hl, rfl⟩ := hk
          cases chk
          · simp only [Bool.not_false, if_true, bind_ok, Except.ok.injEq] at hb
            obtain ⟨pc, _, mv, hmv, rfl⟩ := hb
            exact CntRel.single hl (moveOrCapture_mov hmv)
          · simp only [Bool.not_true, Bool.false_eq_true, if_false, Except.ok.injEq] at hb
            subst hb
            have := hks d hd hu
            cases l
            · exact CntRel.nil
            · exact absurd hl this

theorem king_tcnt {p : Position} {c n a} (hks : KingStepSafeC p c) (hn : kingCountTactical p c = .ok n)
    (ha : kingGenTactical p c = .ok a) : CntRel p n a := by
  unfold kingCountTactical at hn
  unfold kingGenTactical at ha
  refine sum_flatMap_rel (CntRel p) CntRel.nil (fun _ _ _ _ => CntRel.append) hn ha ?_
  intro d hd k b hk hb
  dsimp only at hk hb
  cases hv : isValid (addb c.cur.king d)
  · simp only [hv, andM_false, ok_bind, Bool.false_eq_true, if_false, pure_eq_ok, Except.ok.injEq] at hk hb
    subst hk; subst hb; exact CntRel.nil
  · cases hx : bget p.board (addb c.cur.king d) with
    | error e => simp [hv, hx] at hk
    | ok x =>
      simp only [hv, hx, andM_true, ok_bind, pure_eq_ok] at hk hb
      cases he : (x &&& c.enBit != 0)
      · simp only [he, andM_false, ok_bind, Bool.false_eq_true, if_false, Except.ok.injEq] at hk hb
        subst hk; subst hb; exact CntRel.nil
      · cases hu : isUnderCheck p.board c.en (addb c.cur.king d) with
        | error e => simp [he, hu] at hb
        | ok chk =>
          simp only [he, hu, andM_true, ok_bind, if_true, bind_ok, Except.ok.injEq] at hk hb
          obtain ⟨l, hl, rfl⟩ := hk
          cases chk
          · simp only [Bool.not_false, if_true, bind_ok, Except.ok.injEq] at hb
            obtain ⟨mv, hmv, rfl⟩ := hb
            exact CntRel.single hl (captureRM_shape hmv).1
          · simp only [Bool.not_true, Bool.false_eq_true, if_false, Except.ok.injEq] at hb
            subst hb
            have := hks d hd hu
            cases l
            · exact CntRel.nil
            · exact absurd hl this

/-! ### pawns -/

/-- the four promotion moves and the plain move of a pawn step, as the generator emits them -/
def pawnMovs (frm to pr : Nat) : List Move :=
  if rankOf to == pr then
    [⟨frm, to, Queen, InvalidSq⟩, ⟨frm, to, Rook, InvalidSq⟩, ⟨frm, to, Bishop, InvalidSq⟩,
     ⟨frm, to, Knight, InvalidSq⟩]
  else [⟨frm, to, 0, InvalidSq⟩]

/-- what the per-pawn counting lemmas need; `g` is the counter's extra en-passant guard -/
structure PawnHyp (g : Bool) (p : Position) (c : Ctx) (frm : Nat) : Prop where
  uniform : ∀ to k b0 b1, k ∈ [Queen, Rook, Bishop, Knight] → (rankOf to == c.promoRank) = true →
    isLegal p ⟨frm, to, 0, InvalidSq⟩ = .ok b0 → isLegal p ⟨frm, to, k, InvalidSq⟩ = .ok b1 → b0 = b1
  ep : ∀ to, to = addb (addb frm c.adv) 0xFF ∨ to = addb (addb frm c.adv) 1 → to = p.ep →
    to < p.board.size → isValid to = true ∧ g = true

theorem countPawn_rel {g : Bool} {p : Position} {c : Ctx} {frm to n : Nat} {a : List RMove}
    (hh : PawnHyp g p c frm) (hn : countPawnMoves p frm to c.promoRank = .ok n)
    (hmov : a.map (·.mov) = pawnMovs frm to c.promoRank)
    (hok : ∀ rm ∈ a, IsOk (isLegal p rm.mov)) : CntRel p n a := by
  have hok' : ∀ m ∈ a.map (·.mov), IsOk (isLegal p m) := by
    intro m hm
    obtain ⟨rm, hrm, rfl⟩ := List.mem_map.mp hm
    exact hok rm hrm
  rw [hmov] at hok'
  refine CntRel.of_mov hmov ?_
  simp only [countPawnMoves, bind_ok] at hn
  obtain ⟨l0, hl0, hn⟩ := hn
  unfold pawnMovs at hok' ⊢
  cases hr : (rankOf to == c.promoRank)
  · simp only [hr, Bool.false_eq_true, if_false, pure_eq_ok] at hn ⊢
    simp only [List.filter_cons, legalB_of_ok hl0]
    cases l0
    · simp at hn; subst hn; rfl
    · simp at hn; subst hn; rfl
  · simp only [hr, if_true, pure_eq_ok] at hn hok' ⊢
    obtain ⟨bq, hbq⟩ := hok' ⟨frm, to, Queen, InvalidSq⟩ (by simp)
    obtain ⟨br, hbr⟩ := hok' ⟨frm, to, Rook, InvalidSq⟩ (by simp)
    obtain ⟨bb, hbb⟩ := hok' ⟨frm, to, Bishop, InvalidSq⟩ (by simp)
    obtain ⟨bn, hbn⟩ := hok' ⟨frm, to, Knight, InvalidSq⟩ (by simp)
    have eq := hh.uniform to Queen l0 bq (by simp) hr hl0 hbq
    have er := hh.uniform to Rook l0 br (by simp) hr hl0 hbr
    have eb := hh.uniform to Bishop l0 bb (by simp) hr hl0 hbb
    have en := hh.uniform to Knight l0 bn (by simp) hr hl0 hbn
    subst eq; subst er; subst eb; subst en
    simp only [List.filter_cons, legalB_of_ok hbq, legalB_of_ok hbr, legalB_of_ok hbb, legalB_of_ok hbn]
    cases l0
    · simp at hn; subst hn; rfl
    · simp at hn; subst hn; rfl

theorem pawnCaptures_movs {frm to pr cap a} (h : pawnCaptures frm to pr cap = .ok a) :
    a.map (·.mov) = pawnMovs frm to pr := (pawnCaptures_shape h).2

theorem pawnMovs_mem (frm to pr : Nat) : ∃ m ∈ pawnMovs frm to pr, m.to = to := by
  unfold pawnMovs
  split
  · exact ⟨_, List.mem_cons_self, rfl⟩
  · exact ⟨_, List.mem_cons_self, rfl⟩

theorem movs_to_lt {p : Position} {frm to pr : Nat} {a : List RMove}
    (hmov : a.map (·.mov) = pawnMovs frm to pr) (hok : ∀ rm ∈ a, IsOk (isLegal p rm.mov)) :
    to < p.board.size := by
  obtain ⟨m, hm, hto⟩ := pawnMovs_mem frm to pr
  rw [← hmov] at hm
  obtain ⟨rm, hrm, rfl⟩ := List.mem_map.mp hm
  rw [← hto]
  exact isLegal_to_lt (hok rm hrm)

theorem pawnQ_cnt {g : Bool} {p : Position} {c : Ctx} {frm n : Nat} {a : List RMove}
    (hh : PawnHyp g p c frm) (hn : pawnCntQG g p c frm = .ok n) (ha : pawnCapQ p c frm = .ok a)
    (hok : ∀ rm ∈ a, IsOk (isLegal p rm.mov)) : CntRel p n a := by
  unfold pawnCntQG at hn
  unfold pawnCapQ at ha
  dsimp only at hn ha
  cases hv : isValid (addb (addb frm c.adv) 255)
  · simp only [hv, andM_false, ok_bind, Bool.false_eq_true, if_false, pure_eq_ok, Except.ok.injEq] at hn ha
    subst hn
    cases hq : (addb (addb frm c.adv) 255 == p.ep)
    · simp only [hq, Bool.false_eq_true, if_false, Except.ok.injEq] at ha
      subst ha; exact CntRel.nil
    · simp only [hq, if_true] at ha
      have hlt := movs_to_lt (pawnCaptures_movs ha) hok
      have := (hh.ep _ (.inl rfl) (by simpa using hq) hlt).1
      rw [hv] at this; cases this
  · cases hx : bget p.board (addb (addb frm c.adv) 255) with
    | error e => simp [hv, hx] at hn
    | ok x =>
      simp only [hv, hx, andM_true, ok_bind, pure_eq_ok] at hn ha
      cases he : (x &&& c.enBit != 0)
      · simp only [he, Bool.false_or, Bool.false_eq_true, if_false] at hn ha
        cases hq : (addb (addb frm c.adv) 255 == p.ep)
        · simp only [hq, Bool.false_and, Bool.false_eq_true, if_false, Except.ok.injEq] at hn ha
          subst hn; subst ha; exact CntRel.nil
        · simp only [hq, if_true, Bool.true_and] at hn ha
          have hlt := movs_to_lt (pawnCaptures_movs ha) hok
          have hg := (hh.ep _ (.inl rfl) (by simpa using hq) hlt).2
          simp only [hg, if_true] at hn
          exact countPawn_rel hh hn (pawnCaptures_movs ha) hok
      · simp only [he, Bool.true_or, if_true] at hn ha
        exact countPawn_rel hh hn (pawnCaptures_movs ha) hok

theorem pawnK_cnt {g : Bool} {p : Position} {c : Ctx} {frm n : Nat} {a : List RMove}
    (hh : PawnHyp g p c frm) (hn : pawnCntKG g p c frm = .ok n) (ha : pawnCapK p c frm = .ok a)
    (hok : ∀ rm ∈ a, IsOk (isLegal p rm.mov)) : CntRel p n a := by
  unfold pawnCntKG at hn
  unfold pawnCapK at ha
  dsimp only at hn ha
  cases hx : bget p.board (addb (addb frm c.adv) 1) with
  | error e => simp [hx] at hn
  | ok x =>
    simp only [hx, ok_bind, pure_eq_ok] at hn ha
    cases he : (x &&& c.enBit != 0)
    · simp only [he, Bool.false_or, Bool.false_eq_true, if_false] at hn ha
      cases hq : (addb (addb frm c.adv) 1 == p.ep)
      · simp only [hq, Bool.false_and, Bool.false_eq_true, if_false, Except.ok.injEq] at hn ha
        subst hn; subst ha; exact CntRel.nil
      · simp only [hq, if_true, Bool.true_and] at hn ha
        have hlt := movs_to_lt (pawnCaptures_movs ha) hok
        have hg := (hh.ep _ (.inr rfl) (by simpa using hq) hlt).2
        simp only [hg, if_true] at hn
        exact countPawn_rel hh hn (pawnCaptures_movs ha) hok
    · simp only [he, Bool.true_or, if_true] at hn ha
      exact countPawn_rel hh hn (pawnCaptures_movs ha) hok

theorem pawnPushes_movs {kt ply frm to pr a} (h : pawnPushes kt ply frm to pr = .ok a) :
    a.map (·.mov) = pawnMovs frm to pr := by
  have hs := pawnPushes_shape h
  unfold pawnMovs
  split at hs
  · rename_i hr; rw [if_pos hr, hs]; rfl
  · rename_i hr; rw [if_neg hr]
    obtain ⟨q, rfl, hq, _⟩ := hs
    simp [hq]

theorem pawnPush_cnt {g : Bool} {p : Position} {c : Ctx} {kt : Killers} {frm n : Nat} {a : List RMove}
    (hh : PawnHyp g p c frm) (hn : pawnCntPush p c frm = .ok n) (ha : pawnPushGen p c kt frm = .ok a)
    (hok : ∀ rm ∈ a, IsOk (isLegal p rm.mov)) : CntRel p n a := by
  simp only [pawnCntPush, pawnPushGen, bind_ok] at hn ha
  obtain ⟨y, hy, hn⟩ := hn
  obtain ⟨y', hy', ha⟩ := ha
  rw [hy] at hy'; cases hy'
  cases h0 : (y == 0)
  · simp only [h0, Bool.false_eq_true, if_false, pure_eq_ok, Except.ok.injEq] at hn ha
    subst hn; subst ha; exact CntRel.nil
  · simp only [h0, if_true, bind_ok, pure_eq_ok] at hn ha
    obtain ⟨sn, hsn, dbl, hdbl, hn⟩ := hn
    obtain ⟨sa, hsa, dbl', hdbl', ha⟩ := ha
    rw [hdbl] at hdbl'; cases hdbl'
    cases dbl
    · simp only [Bool.false_eq_true, if_false, Except.ok.injEq] at hn ha
      subst hn; subst ha
      exact countPawn_rel hh hsn (pawnPushes_movs hsa) hok
    · simp only [if_true, bind_ok, Except.ok.injEq] at hn ha
      obtain ⟨l, hl, rfl⟩ := hn
      subst ha
      refine CntRel.append (countPawn_rel hh hsn (pawnPushes_movs hsa) ?_) (CntRel.single hl rfl)
      intro rm hrm
      exact hok rm (List.mem_append_left _ hrm)

theorem pawnPush_tcnt {g : Bool} {p : Position} {c : Ctx} {frm n : Nat} {a : List RMove}
    (hh : PawnHyp g p c frm) (hn : pawnTCntPush p c frm = .ok n) (ha : pawnPushTac p c frm = .ok a)
    (hok : ∀ rm ∈ a, IsOk (isLegal p rm.mov)) : CntRel p n a := by
  simp only [pawnTCntPush, pawnPushTac, bind_ok] at hn ha
  obtain ⟨y, hy, hn⟩ := hn
  obtain ⟨y', hy', ha⟩ := ha
  rw [hy] at hy'; cases hy'
  simp only [pure_eq_ok, Except.ok.injEq] at ha
  cases h0 : (y == 0 && rankOf (addb frm c.adv) == c.promoRank)
  · simp only [h0, Bool.false_eq_true, if_false, pure_eq_ok, Except.ok.injEq] at hn ha
    subst hn; subst ha; exact CntRel.nil
  · simp only [h0, if_true] at hn ha
    subst ha
    have hr : (rankOf (addb frm c.adv) == c.promoRank) = true := by
      simp only [Bool.and_eq_true] at h0; exact h0.2
    refine countPawn_rel hh hn ?_ hok
    unfold pawnMovs
    rw [if_pos hr]; rfl

theorem pawn_cnt {p : Position} {c : Ctx} {kt : Killers} {frm n : Nat} {a : List RMove}
    (hh : PawnHyp (rankOf frm != c.startRank) p c frm) (hn : pawnCount p c frm = .ok n)
    (ha : pawnGen p c kt frm = .ok a) (hok : ∀ rm ∈ a, IsOk (isLegal p rm.mov)) : CntRel p n a := by
  rw [pawnCount_eq] at hn
  rw [pawnGen_eq] at ha
  simp only [bind_ok, pure_eq_ok, Except.ok.injEq] at hn ha
  obtain ⟨n1, h1, n2, h2, n3, h3, rfl⟩ := hn
  obtain ⟨a1, g1, a2, g2, a3, g3, rfl⟩ := ha
  refine CntRel.append (CntRel.append (pawnQ_cnt hh h1 g1 ?_) (pawnK_cnt hh h2 g2 ?_)) (pawnPush_cnt hh h3 g3 ?_)
  · intro rm hrm; exact hok rm (List.mem_append_left _ (List.mem_append_left _ hrm))
  · intro rm hrm; exact hok rm (List.mem_append_left _ (List.mem_append_right _ hrm))
  · intro rm hrm; exact hok rm (List.mem_append_right _ hrm)

theorem pawn_tcnt {p : Position} {c : Ctx} {frm n : Nat} {a : List RMove}
    (hh : PawnHyp true p c frm) (hn : pawnCountTactical p c frm = .ok n)
    (ha : pawnGenTactical p c frm = .ok a) (hok : ∀ rm ∈ a, IsOk (isLegal p rm.mov)) : CntRel p n a := by
  rw [pawnCountTactical_eq] at hn
  rw [pawnGenTactical_eq] at ha
  simp only [bind_ok, pure_eq_ok, Except.ok.injEq] at hn ha
  obtain ⟨n1, h1, n2, h2, n3, h3, rfl⟩ := hn
  obtain ⟨a1, g1, a2, g2, a3, g3, rfl⟩ := ha
  refine CntRel.append (CntRel.append (pawnQ_cnt hh h1 g1 ?_) (pawnK_cnt hh h2 g2 ?_)) (pawnPush_tcnt hh h3 g3 ?_)
  · intro rm hrm; exact hok rm (List.mem_append_left _ (List.mem_append_left _ hrm))
  · intro rm hrm; exact hok rm (List.mem_append_left _ (List.mem_append_right _ hrm))
  · intro rm hrm; exact hok rm (List.mem_append_right _ hrm)

/-! ### castling -/

def castleQCnt (p : Position) (c : Ctx) : M Nat :=
  if c.qOk then do let ok ← castleQOk p c; pure (b2n ok) else pure 0

def castleKCnt (p : Position) (c : Ctx) : M Nat :=
  if c.kOk then do let ok ← castleKOk p c; pure (b2n ok) else pure 0

theorem countMoves_eq (p : Position) : countMoves p = (do
    let a ← sumM' (pawnCount p p.ctx) p.ctx.cur.pawns
    let b ← sumM' (pieceCount p p.ctx) p.ctx.cur.pieces
    let k ← kingCount p p.ctx
    let q ← castleQCnt p p.ctx
    let ks ← castleKCnt p p.ctx
    pure (a + b + k + q + ks)) := by
  unfold countMoves castleQCnt castleKCnt
  dsimp only
  generalize p.ctx.qOk = bq
  generalize p.ctx.kOk = bk
  cases bq <;> cases bk <;> simp

theorem castleQ_cnt {p : Position} {c : Ctx} {kt : Killers} {n : Nat} {a : List RMove}
    (hsafe : c.qOk = true → castleQOk p c = .ok true →
      isLegal p ⟨c.cur.king, castleQTo c, 0, InvalidSq⟩ = .ok true)
    (hn : castleQCnt p c = .ok n) (ha : castleQPart p c kt = .ok a) : CntRel p n a := by
  unfold castleQCnt at hn
  rcases castleQPart_shape ha with ⟨rfl, hq | hq⟩ | ⟨mv, rfl, hm, _, hq, hok⟩
  · simp only [hq, Bool.false_eq_true, if_false, pure_eq_ok, Except.ok.injEq] at hn
    subst hn; exact CntRel.nil
  · split at hn
    · simp only [hq, ok_bind, pure_eq_ok, Except.ok.injEq] at hn
      subst hn; exact CntRel.nil
    · simp only [pure_eq_ok, Except.ok.injEq] at hn
      subst hn; exact CntRel.nil
  · simp only [hq, if_true, hok, ok_bind, pure_eq_ok, Except.ok.injEq] at hn
    subst hn
    exact CntRel.single (hsafe hq hok) hm

theorem castleK_cnt {p : Position} {c : Ctx} {kt : Killers} {n : Nat} {a : List RMove}
    (hsafe : c.kOk = true → castleKOk p c = .ok true →
      isLegal p ⟨c.cur.king, castleKTo c, 0, InvalidSq⟩ = .ok true)
    (hn : castleKCnt p c = .ok n) (ha : castleKPart p c kt = .ok a) : CntRel p n a := by
  unfold castleKCnt at hn
  rcases castleKPart_shape ha with ⟨rfl, hq | hq⟩ | ⟨mv, rfl, hm, _, hq, hok⟩
  · simp only [hq, Bool.false_eq_true, if_false, pure_eq_ok, Except.ok.injEq] at hn
    subst hn; exact CntRel.nil
  · split at hn
    · simp only [hq, ok_bind, pure_eq_ok, Except.ok.injEq] at hn
      subst hn; exact CntRel.nil
    · simp only [pure_eq_ok, Except.ok.injEq] at hn
      subst hn; exact CntRel.nil
  · simp only [hq, if_true, hok, ok_bind, pure_eq_ok, Except.ok.injEq] at hn
    subst hn
    exact CntRel.single (hsafe hq hok) hm

/-! ### from the position-level side conditions to `PawnHyp` -/

theorem rankOf_mod (x : Nat) : rankOf x = rankOf (x % 256) := by
  unfold rankOf
  have h1 : x &&& 0xF0 = (x &&& 0xF0) % 2^8 := by
    rw [Nat.mod_eq_of_lt]
    exact Nat.lt_of_le_of_lt Nat.and_le_right (by decide)
  rw [h1, Nat.and_mod_two_pow]

theorem addb_mod (x d : Nat) : addb x d = addb (x % 256) d := by
  unfold addb; omega

set_option maxRecDepth 100000 in
theorem ep_rank_white_fin : ∀ f < 256, (rankOf (addb (addb f Gen.DirN) 255) = Gen.Rank6 ∨
    rankOf (addb (addb f Gen.DirN) 1) = Gen.Rank6) → rankOf f ≠ Gen.Rank2 := by decide +kernel

set_option maxRecDepth 100000 in
theorem ep_rank_black_fin : ∀ f < 256, (rankOf (addb (addb f Gen.DirS) 255) = Gen.Rank3 ∨
    rankOf (addb (addb f Gen.DirS) 1) = Gen.Rank3) → rankOf f ≠ Gen.Rank7 := by decide +kernel

/-- a pawn on its start rank cannot capture onto the en-passant rank -/
theorem ep_rank_white (f : Nat) (h : rankOf (addb (addb f Gen.DirN) 255) = Gen.Rank6 ∨
    rankOf (addb (addb f Gen.DirN) 1) = Gen.Rank6) : rankOf f ≠ Gen.Rank2 := by
  rw [rankOf_mod]
  rw [addb_mod f] at h
  exact ep_rank_white_fin (f % 256) (Nat.mod_lt _ (by decide)) h

theorem ep_rank_black (f : Nat) (h : rankOf (addb (addb f Gen.DirS) 255) = Gen.Rank3 ∨
    rankOf (addb (addb f Gen.DirS) 1) = Gen.Rank3) : rankOf f ≠ Gen.Rank7 := by
  rw [rankOf_mod]
  rw [addb_mod f] at h
  exact ep_rank_black_fin (f % 256) (Nat.mod_lt _ (by decide)) h

/-- the en-passant square is never on the mover's promotion rank -/
theorem ep_not_promoRank {p : Position} (hep : EpRankOk p) : rankOf p.ep ≠ p.ctx.promoRank := by
  unfold Position.ctx
  rcases hep with h | ⟨_, h⟩
  · rw [h]; split <;> (dsimp only; decide)
  · rw [h]; split <;> (dsimp only; decide)

theorem ep_lt_valid {p : Position} (hsz : BoardSize p) (hep : EpRankOk p) (h : p.ep < p.board.size) :
    isValid p.ep = true := by
  rcases hep with h' | ⟨h', _⟩
  · rw [hsz, h'] at h; exact absurd h (by decide)
  · exact h'

theorem pawnHyp_uniform {p : Position} (hep : EpRankOk p) (hpw : PawnsOk p) (hcap : CaptureOk p)
    {frm : Nat} (hfrm : frm ∈ p.ctx.cur.pawns) :
    ∀ to k b0 b1, k ∈ [Queen, Rook, Bishop, Knight] → (rankOf to == p.ctx.promoRank) = true →
      isLegal p ⟨frm, to, 0, InvalidSq⟩ = .ok b0 → isLegal p ⟨frm, to, k, InvalidSq⟩ = .ok b1 → b0 = b1 := by
  intro to k b0 b1 hk hr h0 h1
  simp only [isLegal, bind_ok, pure_eq_ok, Except.ok.injEq] at h0 h1
  obtain ⟨⟨q0, c0⟩, h0, rfl⟩ := h0
  obtain ⟨⟨q1, c1⟩, h1, rfl⟩ := h1
  have hto : to ≠ p.ep := by
    intro hh
    have := ep_not_promoRank hep
    rw [← hh] at this
    exact this (by simpa using hr)
  have hkb : k &&& BlackBit = 0 := by
    simp only [List.mem_cons, List.not_mem_nil, or_false] at hk
    rcases hk with rfl | rfl | rfl | rfl <;> decide
  exact promo_legal_uniform hcap (hpw frm hfrm) hto hkb h0 h1

theorem pawnHyp_tactical {p : Position} (hsz : BoardSize p) (hep : EpRankOk p) (hpw : PawnsOk p)
    (hcap : CaptureOk p) {frm : Nat} (hfrm : frm ∈ p.ctx.cur.pawns) : PawnHyp true p p.ctx frm where
  uniform := pawnHyp_uniform hep hpw hcap hfrm
  ep := by
    intro to _ hto hlt
    subst hto
    exact ⟨ep_lt_valid hsz hep hlt, rfl⟩

theorem pawnHyp_full {p : Position} (hsz : BoardSize p) (hep : EpRankOk p) (hpw : PawnsOk p)
    (hcap : CaptureOk p) {frm : Nat} (hfrm : frm ∈ p.ctx.cur.pawns) :
    PawnHyp (rankOf frm != p.ctx.startRank) p p.ctx frm where
  uniform := pawnHyp_uniform hep hpw hcap hfrm
  ep := by
    intro to hsq hto hlt
    subst hto
    have hv := ep_lt_valid hsz hep hlt
    refine ⟨hv, ?_⟩
    rcases hep with h' | ⟨_, hr⟩
    · rw [h'] at hv; exact absurd hv (by decide)
    · simp only [bne_iff_ne, ne_eq]
      revert hsq hr
      unfold Position.ctx
      split
      · rename_i hw
        intro hsq hr
        dsimp only at hsq ⊢
        exact ep_rank_white frm (by
          rcases hsq with h | h
          · left; rw [← h]; exact hr
          · right; rw [← h]; exact hr)
      · rename_i hw
        intro hsq hr
        dsimp only at hsq ⊢
        exact ep_rank_black frm (by
          rcases hsq with h | h
          · left; rw [← h]; exact hr
          · right; rw [← h]; exact hr)

/-! ### items 2 and 3 -/

theorem length_of_cntRel {p : Position} {n : Nat} {ps : List RMove} (h : CntRel p n ps) :
    n = (ps.filter (fun rm => legalB p rm.mov)).length := by
  unfold CntRel at h
  rw [h, List.filter_map, List.length_map]
  rfl

theorem countTactical_length {p : Position} {n : Nat} {ts : List RMove} (hsz : BoardSize p)
    (hep : EpRankOk p) (hpw : PawnsOk p) (hcap : CaptureOk p) (hks : KingStepSafe p)
    (hn : countTacticalMoves p = .ok n) (ht : generateTacticalMoves p = .ok ts) : n = ts.length := by
  simp only [generateTacticalMoves, bind_ok] at ht
  obtain ⟨ps, hps, ht⟩ := ht
  obtain ⟨hokall, rfl⟩ := legalFilter_ok ht
  simp only [genPseudoTactical, countTacticalMoves, bind_ok, pure_eq_ok, Except.ok.injEq] at hps hn
  obtain ⟨a, ha, b, hb, k, hk, rfl⟩ := hps
  obtain ⟨na, hna, nb, hnb, nk, hnk, rfl⟩ := hn
  apply length_of_cntRel
  refine CntRel.append (CntRel.append ?_ ?_) (king_tcnt hks hnk hk)
  · refine sum_flatMap_cnt hna ha ?_
    intro frm hfrm k' a' hk' ha' hsub
    refine pawn_tcnt (pawnHyp_tactical hsz hep hpw hcap hfrm) hk' ha' ?_
    intro rm hrm
    exact hokall rm (List.mem_append_left _ (List.mem_append_left _ (hsub rm hrm)))
  · exact sum_flatMap_rel (CntRel p) CntRel.nil (fun _ _ _ _ => CntRel.append) hnb hb
      (fun frm _ k' a' hk' ha' => piece_tcnt hk' ha')

theorem countMoves_length {kt : Killers} {p : Position} {n : Nat} {ms : List RMove} (hsz : BoardSize p)
    (hep : EpRankOk p) (hpw : PawnsOk p) (hcap : CaptureOk p) (hks : KingStepSafe p) (hcs : CastleSafe p)
    (hf : generateMoves kt p = .ok ms) (hn : countMoves p = .ok n) : n = ms.length := by
  simp only [generateMoves, bind_ok] at hf
  obtain ⟨ps, hps, hf⟩ := hf
  obtain ⟨hokall, rfl⟩ := legalFilter_ok hf
  rw [countMoves_eq] at hn
  simp only [genPseudo, bind_ok, pure_eq_ok, Except.ok.injEq] at hps hn
  obtain ⟨a, ha, b, hb, k, hk, cs, hcs', rfl⟩ := hps
  obtain ⟨na, hna, nb, hnb, nk, hnk, nq, hnq, nks, hnks, rfl⟩ := hn
  rw [castleGen_eq] at hcs'
  simp only [bind_ok, pure_eq_ok, Except.ok.injEq] at hcs'
  obtain ⟨q, hq, ks, hks', rfl⟩ := hcs'
  apply length_of_cntRel
  have e : na + nb + nk + nq + nks = na + nb + nk + (nq + nks) := by omega
  rw [e]
  refine CntRel.append (CntRel.append (CntRel.append ?_ ?_) (king_cnt hks hnk hk))
    (CntRel.append (castleQ_cnt hcs.1 hnq hq) (castleK_cnt hcs.2 hnks hks'))
  · refine sum_flatMap_cnt hna ha ?_
    intro frm hfrm k' a' hk' ha' hsub
    refine pawn_cnt (pawnHyp_full hsz hep hpw hcap hfrm) hk' ha' ?_
    intro rm hrm
    exact hokall rm (List.mem_append_left _ (List.mem_append_left _ (List.mem_append_left _ (hsub rm hrm))))
  · exact sum_flatMap_rel (CntRel p) CntRel.nil (fun _ _ _ _ => CntRel.append) hnb hb
      (fun frm _ k' a' hk' ha' => piece_cnt hk' ha')

end Magog.Count
