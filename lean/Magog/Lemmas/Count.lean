import Magog.Model.MoveGen
import Magog.Model.Start

/-! Helpers for property C06 (the four hand-copied move loops agree): monad plumbing for
    `M = Except Panic`, generic lemmas on `flatMapM'` / `filterM'` / `sumM'`, the named side
    conditions of the C06 theorems, and the model-level path counts `pathsM` / `tpathsM`. -/

namespace Magog.Count
open Magog Magog.Model

/-! ### `Except` plumbing -/

@[simp] theorem ok_bind {α β} (a : α) (f : α → M β) : (Except.ok a >>= f : M β) = f a := rfl
@[simp] theorem error_bind {α β} (e : Panic) (f : α → M β) :
    ((Except.error e : M α) >>= f : M β) = .error e := rfl
theorem pure_eq_ok {α} (a : α) : (pure a : M α) = .ok a := rfl
theorem throw_eq_error {α} (e : Panic) : (throw e : M α) = .error e := rfl

theorem bget_ok_iff {b : Array Nat} {i x : Nat} : bget b i = .ok x ↔ b[i]? = some x := by
  unfold bget
  by_cases h : i < b.size
  · simp [h, pure_eq_ok]
  · simp [h, throw_eq_error]

theorem bind_ok {α β} {x : M α} {f : α → M β} {b : β} :
    (x >>= f) = .ok b ↔ ∃ a, x = .ok a ∧ f a = .ok b := by
  cases x <;> simp

@[simp] theorem andM_true (b : M Bool) : andM true b = b := rfl
@[simp] theorem andM_false (b : M Bool) : andM false b = .ok false := rfl

/-- "runs without panic" -/
def IsOk {α} (x : M α) : Prop := ∃ a, x = .ok a

/-- the value of a Boolean computation, `false` on panic (only ever used next to an `IsOk` fact) -/
def okTrue (x : M Bool) : Bool :=
  match x with
  | .ok true => true
  | _ => false

@[simp] theorem okTrue_ok (b : Bool) : okTrue (.ok b) = b := by cases b <;> rfl

theorem okTrue_eq_true {x : M Bool} (h : okTrue x = true) : x = .ok true := by
  unfold okTrue at h
  split at h
  · rfl
  · cases h

/-- the value of a computation as an `Option` (decidable equality, for kernel-evaluated examples) -/
def okVal {α} (x : M α) : Option α :=
  match x with
  | .ok a => some a
  | .error _ => none

theorem okVal_eq_some {α} {x : M α} {a : α} (h : okVal x = some a) : x = .ok a := by
  unfold okVal at h
  split at h
  · cases h; rfl
  · cases h

/-! ### generic list-loop lemmas -/

theorem filterM'_ok {α} {f : α → M Bool} {l r : List α} (h : filterM' f l = .ok r) :
    (∀ x ∈ l, IsOk (f x)) ∧ r = l.filter (fun x => okTrue (f x)) := by
  induction l generalizing r with
  | nil =>
    simp only [filterM', pure_eq_ok, Except.ok.injEq] at h
    subst h; simp
  | cons x xs ih =>
    simp only [filterM', bind_ok, pure_eq_ok, Except.ok.injEq] at h
    obtain ⟨b, hb, r', hr', rfl⟩ := h
    obtain ⟨h1, h2⟩ := ih hr'
    refine ⟨?_, ?_⟩
    · intro y hy
      rcases List.mem_cons.mp hy with rfl | hy
      · exact ⟨b, hb⟩
      · exact h1 y hy
    · simp only [List.filter_cons, hb, okTrue_ok, h2]

theorem flatMapM'_mem_ok {α β} {f : α → M (List β)} {l : List α} {r : List β}
    (h : flatMapM' f l = .ok r) : ∀ x ∈ l, ∃ a, f x = .ok a ∧ ∀ y ∈ a, y ∈ r := by
  induction l generalizing r with
  | nil => intro x hx; cases hx
  | cons x xs ih =>
    simp only [flatMapM', bind_ok, pure_eq_ok, Except.ok.injEq] at h
    obtain ⟨a, ha, b, hb, rfl⟩ := h
    intro y hy
    rcases List.mem_cons.mp hy with rfl | hy
    · exact ⟨a, ha, fun z hz => List.mem_append_left _ hz⟩
    · obtain ⟨a', ha', hsub⟩ := ih hb y hy
      exact ⟨a', ha', fun z hz => List.mem_append_right _ (hsub z hz)⟩

/-- two `flatMapM'` loops over the same list, related element-wise by a relation that is closed
    under `[]` and `++` -/
theorem flatMap_flatMap_rel {α β γ} (R : List β → List γ → Prop) (hnil : R [] [])
    (happ : ∀ a b c d, R a b → R c d → R (a ++ c) (b ++ d))
    {g : α → M (List β)} {h : α → M (List γ)} {l : List α} {t : List β} {f : List γ}
    (ht : flatMapM' g l = .ok t) (hf : flatMapM' h l = .ok f)
    (hel : ∀ x ∈ l, ∀ a b, g x = .ok a → h x = .ok b → R a b) : R t f := by
  induction l generalizing t f with
  | nil =>
    simp only [flatMapM', pure_eq_ok, Except.ok.injEq] at ht hf
    subst ht; subst hf; exact hnil
  | cons x xs ih =>
    simp only [flatMapM', bind_ok, pure_eq_ok, Except.ok.injEq] at ht hf
    obtain ⟨a, ha, t', ht', rfl⟩ := ht
    obtain ⟨b, hb, f', hf', rfl⟩ := hf
    exact happ _ _ _ _ (hel x List.mem_cons_self a b ha hb)
      (ih ht' hf' (fun y hy => hel y (List.mem_cons_of_mem _ hy)))

/-- a counting loop against a generating loop over the same list -/
theorem sum_flatMap_rel {α β} (R : Nat → List β → Prop) (hnil : R 0 [])
    (happ : ∀ n a m b, R n a → R m b → R (n + m) (a ++ b))
    {g : α → M Nat} {h : α → M (List β)} {l : List α} {n : Nat} {f : List β}
    (hn : sumM' g l = .ok n) (hf : flatMapM' h l = .ok f)
    (hel : ∀ x ∈ l, ∀ k a, g x = .ok k → h x = .ok a → R k a) : R n f := by
  induction l generalizing n f with
  | nil =>
    simp only [sumM', flatMapM', pure_eq_ok, Except.ok.injEq] at hn hf
    subst hn; subst hf; exact hnil
  | cons x xs ih =>
    simp only [sumM', flatMapM', bind_ok, pure_eq_ok, Except.ok.injEq] at hn hf
    obtain ⟨a, ha, t', ht', rfl⟩ := hn
    obtain ⟨b, hb, f', hf', rfl⟩ := hf
    exact happ _ _ _ _ (hel x List.mem_cons_self a b ha hb)
      (ih ht' hf' (fun y hy => hel y (List.mem_cons_of_mem _ hy)))

/-- two counting loops over the same list that agree element-wise agree -/
theorem sum_sum_eq {α} {g h : α → M Nat} {l : List α} {n m : Nat}
    (hn : sumM' g l = .ok n) (hm : sumM' h l = .ok m)
    (hel : ∀ x ∈ l, ∀ a b, g x = .ok a → h x = .ok b → a = b) : n = m := by
  induction l generalizing n m with
  | nil =>
    simp only [sumM', pure_eq_ok, Except.ok.injEq] at hn hm
    omega
  | cons x xs ih =>
    simp only [sumM', bind_ok, pure_eq_ok, Except.ok.injEq] at hn hm
    obtain ⟨a, ha, t', ht', rfl⟩ := hn
    obtain ⟨b, hb, f', hf', rfl⟩ := hm
    have h1 := hel x List.mem_cons_self a b ha hb
    have h2 := ih ht' hf' (fun y hy => hel y (List.mem_cons_of_mem _ hy))
    omega

/-! ### the legality verdict as a pure function of the move -/

/-- `isLegal` as a Boolean (false on panic) -/
def legalB (p : Position) (m : Move) : Bool := okTrue (isLegal p m)

theorem legalB_of_ok {p : Position} {m : Move} {b : Bool} (h : isLegal p m = .ok b) :
    legalB p m = b := by
  simp [legalB, h]

/-- the legality filter of both generators, as a pure filter -/
theorem legalFilter_ok {p : Position} {ps ms : List RMove}
    (h : filterM' (fun rm => isLegal p rm.mov) ps = .ok ms) :
    (∀ rm ∈ ps, IsOk (isLegal p rm.mov)) ∧ ms = ps.filter (fun rm => legalB p rm.mov) :=
  filterM'_ok h

/-! ### side conditions of the C06 theorems -/

/-- A board cell carries a colour bit iff it carries a piece kind, and never both colour bits.
    Needed by `tactical_is_filter`: the full generator classifies a target as a capture by
    `cell &&& Colorless != 0` (after `cell &&& own == 0`), the tactical generator by
    `cell &&& enemy != 0`; on a cell like `64` (black bit, no kind) or `1` (kind, no colour) the two
    tests differ and the two generators really produce different lists. -/
def CellOk (x : Nat) : Prop :=
  (x &&& WhiteBit ≠ 0 → x &&& BlackBit = 0 ∧ x &&& Colorless ≠ 0) ∧
  (x &&& BlackBit ≠ 0 → x &&& WhiteBit = 0 ∧ x &&& Colorless ≠ 0) ∧
  (x &&& WhiteBit = 0 → x &&& BlackBit = 0 → x &&& Colorless = 0)

instance (x : Nat) : Decidable (CellOk x) := by unfold CellOk; infer_instance

/-- every board cell is well-formed (`CellOk`) -/
def CellsOk (p : Position) : Prop := ∀ x ∈ p.board.toList, CellOk x

instance (p : Position) : Decidable (CellsOk p) := by unfold CellsOk; infer_instance

/-- the board is the 128-slot 0x88 array. Needed by the counting theorems: with `p.ep = InvalidSq`
    (= 0x88 = 136) a pawn whose capture target wraps to byte 136 makes the generators emit a pseudo
    "en-passant" move to square 136 (their `to == enPassSquare` test is not guarded by square
    validity), which only the index panic of `board[136]` in MakeMove keeps from mattering; the
    counters test validity first on the queen side and never count it. On an array longer than 136
    slots the two would differ. -/
def BoardSize (p : Position) : Prop := p.board.size = 128

instance (p : Position) : Decidable (BoardSize p) := by unfold BoardSize; infer_instance

/-- the en-passant square is absent or a valid square on the rank behind a just double-pushed enemy pawn -/
def EpRankOk (p : Position) : Prop :=
  p.ep = InvalidSq ∨ (isValid p.ep = true ∧ rankOf p.ep = (if whiteTurn p then Gen.Rank6 else Gen.Rank3))

instance (p : Position) : Decidable (EpRankOk p) := by unfold EpRankOk; infer_instance

/-- every entry of the mover's pawn list holds a pawn of the mover's colour -/
def PawnsOk (p : Position) : Prop :=
  ∀ f ∈ p.ctx.cur.pawns, p.board[f]? = some (Pawn ||| p.ctx.curBit)

instance (p : Position) : Decidable (PawnsOk p) := by unfold PawnsOk; infer_instance

/-- the enemy piece list is duplicate-free and each entry's board cell is something MakeMove's
    capture bookkeeping removes from that list (non-empty, not the enemy king, not an enemy pawn).
    Consequence: after MakeMove's `kill`, the destination square is not in the enemy piece list. -/
def CaptureOk (p : Position) : Prop :=
  p.ctx.en.pieces.Nodup ∧
  ∀ a ∈ p.ctx.en.pieces,
    p.board[a]? ≠ some 0 ∧ p.board[a]? ≠ some (King ||| p.ctx.enBit) ∧
    p.board[a]? ≠ some (Pawn ||| p.ctx.enBit)

instance (p : Position) : Decidable (CaptureOk p) := by unfold CaptureOk; infer_instance

/-- the destination of the queenside / kingside castling move as the generator writes it -/
def castleQTo (c : Ctx) : Nat := toByte (add8 (int8 c.cur.king) (-2))
def castleKTo (c : Ctx) : Nat := toByte (add8 (int8 c.cur.king) 2)

/-- Once the castling path test passes (squares empty, king square and the two squares it crosses
    not attacked) and the right is still set, the castling move passes the generator's `isLegal`
    filter. The counter counts the move on the path test alone. (Chess geometry: after castling the
    king stands on the tested, unattacked square and the rook move cannot open a line onto it;
    discharged from the attack-detection theorems, kept as a hypothesis here.) -/
def CastleSafe (p : Position) : Prop :=
  (p.ctx.qOk = true → castleQOk p p.ctx = .ok true →
      isLegal p ⟨p.ctx.cur.king, castleQTo p.ctx, 0, InvalidSq⟩ = .ok true) ∧
  (p.ctx.kOk = true → castleKOk p p.ctx = .ok true →
      isLegal p ⟨p.ctx.cur.king, castleKTo p.ctx, 0, InvalidSq⟩ = .ok true)

/-- A king step onto a square that is attacked in the current position is not legal. The generators
    (`kingGen`, `kingGenTactical`) drop such a step before the `isLegal` filter by asking
    `isUnderCheck` on the *current* board; the counters (`kingCount`, `kingCountTactical`) only ask
    `isLegal`. They agree iff the pre-test never removes a legal move. This is proved from the
    structural condition `KingsOk` in `Lemmas/CountKing.lean` (`kingStepSafe_of_kingsOk`: the move
    only vacates the king's square and a captured piece does not attack its own square, so every
    attack on the target persists). It does fail on positions with adjacent kings (`c06AdjKings`). -/
def KingStepSafe (p : Position) : Prop :=
  ∀ d ∈ kingDirs, isUnderCheck p.board p.ctx.en (addb p.ctx.cur.king d) = .ok true →
    isLegal p ⟨p.ctx.cur.king, addb p.ctx.cur.king d, 0, InvalidSq⟩ ≠ .ok true

/-- `CastleSafe` from a Boolean check (for concrete positions) -/
theorem CastleSafe.of_check {p : Position}
    (h : ((!(p.ctx.qOk && okTrue (castleQOk p p.ctx))) ||
            okTrue (isLegal p ⟨p.ctx.cur.king, castleQTo p.ctx, 0, InvalidSq⟩)) = true ∧
         ((!(p.ctx.kOk && okTrue (castleKOk p p.ctx))) ||
            okTrue (isLegal p ⟨p.ctx.cur.king, castleKTo p.ctx, 0, InvalidSq⟩)) = true) :
    CastleSafe p := by
  refine ⟨fun h1 h2 => ?_, fun h1 h2 => ?_⟩
  · have := h.1
    simp only [h1, h2, okTrue_ok, Bool.and_self, Bool.not_true, Bool.false_or] at this
    exact okTrue_eq_true this
  · have := h.2
    simp only [h1, h2, okTrue_ok, Bool.and_self, Bool.not_true, Bool.false_or] at this
    exact okTrue_eq_true this

/-- `KingStepSafe` from a Boolean check (for concrete positions) -/
theorem KingStepSafe.of_check {p : Position}
    (h : ∀ d ∈ kingDirs, (okTrue (isUnderCheck p.board p.ctx.en (addb p.ctx.cur.king d)) &&
        okTrue (isLegal p ⟨p.ctx.cur.king, addb p.ctx.cur.king d, 0, InvalidSq⟩)) = false) :
    KingStepSafe p := by
  intro d hd h1 h2
  have := h d hd
  simp [h1, h2] at this

/-- the side conditions of `countTactical_eq_length`, bundled (for the perft invariant) -/
structure TCountOk (p : Position) : Prop where
  size : BoardSize p
  ep : EpRankOk p
  pawns : PawnsOk p
  capture : CaptureOk p
  king : KingStepSafe p

/-- the side conditions of `countMoves_eq_length`, bundled (for the perft invariant) -/
structure CountOk (p : Position) : Prop extends TCountOk p where
  castle : CastleSafe p

/-! ### model-level path counts -/

/-- number of legal move paths of length `d` from `p`, by the full generator -/
def pathsM (kt : Killers) : Nat → Position → M Nat
  | 0, _ => pure 1
  | d + 1, p => do
    let ms ← generateMoves kt p
    sumM' (fun rm => do
      let r ← makeMove p rm.mov
      pathsM kt d r.1) ms

/-- number of paths of `d` legal moves followed by one tactical legal move (tactical generator at
    the leaves) -/
def tpathsM (kt : Killers) : Nat → Position → M Nat
  | 0, p => do
    let ts ← generateTacticalMoves p
    pure ts.length
  | d + 1, p => do
    let ms ← generateMoves kt p
    sumM' (fun rm => do
      let r ← makeMove p rm.mov
      tpathsM kt d r.1) ms

/-- the same with the leaves counted as the tactical-flagged moves of the full generator -/
def tpathsF (kt : Killers) : Nat → Position → M Nat
  | 0, p => do
    let ms ← generateMoves kt p
    pure (ms.filter (·.tactical)).length
  | d + 1, p => do
    let ms ← generateMoves kt p
    sumM' (fun rm => do
      let r ← makeMove p rm.mov
      tpathsF kt d r.1) ms

/-! ### a concrete witness position for the non-vacuity examples -/

def afterMoves (p : Position) : List Move → M Position
  | [] => pure p
  | m :: ms => do
    let r ← makeMove p m
    afterMoves r.1 ms

/-- 1.e4 e5 2.Nf3 Nc6 3.Bc4 Bc5 4.a4 a6 5.a5 b5 -/
def c06WitnessMoves : List Move :=
  [⟨Gen.E2, Gen.E4, 0, Gen.E3⟩, ⟨Gen.E7, Gen.E5, 0, Gen.E6⟩, ⟨Gen.G1, Gen.F3, 0, InvalidSq⟩,
   ⟨Gen.B8, Gen.C6, 0, InvalidSq⟩, ⟨Gen.F1, Gen.C4, 0, InvalidSq⟩, ⟨Gen.F8, Gen.C5, 0, InvalidSq⟩,
   ⟨Gen.A2, Gen.A4, 0, Gen.A3⟩, ⟨Gen.A7, Gen.A6, 0, InvalidSq⟩, ⟨Gen.A4, Gen.A5, 0, InvalidSq⟩,
   ⟨Gen.B7, Gen.B5, 0, Gen.B6⟩]

/-- White to move with an en-passant capture (a5xb6), three ordinary captures (Bxf7+, Bxb5, Nxe5)
    and kingside castling available: 35 legal moves, 4 of them tactical. (The `startPosition` fallback
    is never taken; the examples in `Props/C06.lean` pin the en-passant square to b6.) -/
def c06Witness : Position :=
  match afterMoves startPosition c06WitnessMoves with
  | .ok p => p
  | .error _ => startPosition

/-- White Ke1, Pa7; black Kh6, Rb8; White to move: a7-a8 and a7xb8, each with four promotions, plus
    five king steps: 13 legal moves, 8 tactical. Exercises `promo_legal_uniform` inside the counting
    theorems. -/
def c06PromoWitness : Position :=
  { board := ((((Array.replicate 128 0).setIfInBounds Gen.E1 Gen.WKing).setIfInBounds Gen.H6 Gen.BKing).setIfInBounds
      Gen.A7 Gen.WPawn).setIfInBounds Gen.B8 Gen.BRook,
    blackPieces := [Gen.B8], whitePieces := [], blackPawns := [], whitePawns := [Gen.A7],
    blackKing := Gen.H6, whiteKing := Gen.E1, flags := Gen.FlagWhiteTurn, ep := InvalidSq, ply := 0 }

/-- `startPosition` with a colourless pawn code on a3, listed as a black piece: the full generator
    flags Nb1xa3 tactical (`cell &&& Colorless != 0`), the tactical generator does not see it
    (`cell &&& enemy == 0`). Shows that `CellsOk` cannot be dropped from `tactical_is_filter`. -/
def c06BadCell : Position :=
  { startPosition with board := startPosition.board.setIfInBounds Gen.A3 1,
                       blackPieces := startPosition.blackPieces ++ [Gen.A3] }

/-- White Ke1, black Ke2 protected by a black pawn on d3, White to move: the generators drop K×e2 by
    their pre-test (e2 is attacked by the d3 pawn), while `isLegal` accepts it (after the capture the
    cell on the recorded black-king square is white, so `isUnderCheck` consults the white pawn-attack
    table). Both counters return 1, both generators return no move. Shows that `KingStepSafe`
    cannot be dropped from the counting theorems. -/
def c06AdjKings : Position :=
  { board := (((Array.replicate 128 0).setIfInBounds Gen.E1 Gen.WKing).setIfInBounds Gen.E2 Gen.BKing).setIfInBounds
      Gen.D3 Gen.BPawn,
    blackPieces := [], whitePieces := [], blackPawns := [Gen.D3], whitePawns := [],
    blackKing := Gen.E2, whiteKing := Gen.E1, flags := Gen.FlagWhiteTurn, ep := InvalidSq, ply := 0 }

end Magog.Count
