import Magog.Lemmas.SearchLocal

/-! Independence of the analysis from the logging option `currmoveLogInterval` (`env.logInterval`): two runs
    of the search under environments that differ only in that option go through states that agree in every
    field except `out`, and their `out`s agree after dropping the `currmove` events (simulation `Sim`). -/

namespace Magog.Model
open Magog

def Event.isCurrmove : Event → Bool
  | .currmove .. => true
  | _ => false

/-- the output without the `currmove` lines -/
def noCurr (l : List Event) : List Event := l.filter (fun e => !e.isCurrmove)

theorem noCurr_cons_currmove (m : Move) (k n : Nat) (l : List Event) : noCurr (.currmove m k n :: l) = noCurr l := rfl

theorem noCurr_cons_of_not {e : Event} {l : List Event} (h : e.isCurrmove = false) :
    noCurr (e :: l) = e :: noCurr l := by
  simp [noCurr, h]

/-- the two states agree except for `currmove` lines in the output -/
structure Sim (s s2 : SS) : Prop where
  rows : s2.rows = s.rows
  killers : s2.killers = s.killers
  nodes : s2.nodes = s.nodes
  interrupted : s2.interrupted = s.interrupted
  tick : s2.tick = s.tick
  matched : s2.matched = s.matched
  cand : s2.cand = s.cand
  rootMoves : s2.rootMoves = s.rootMoves
  firstMoveIdx : s2.firstMoveIdx = s.firstMoveIdx
  out : noCurr s2.out = noCurr s.out

theorem Sim.refl (s : SS) : Sim s s := ⟨rfl, rfl, rfl, rfl, rfl, rfl, rfl, rfl, rfl, rfl⟩

theorem Sim.symm {a b : SS} (h : Sim a b) : Sim b a :=
  ⟨h.rows.symm, h.killers.symm, h.nodes.symm, h.interrupted.symm, h.tick.symm, h.matched.symm, h.cand.symm,
   h.rootMoves.symm, h.firstMoveIdx.symm, h.out.symm⟩

theorem Sim.trans {a b c : SS} (h1 : Sim a b) (h2 : Sim b c) : Sim a c :=
  ⟨h2.rows.trans h1.rows, h2.killers.trans h1.killers, h2.nodes.trans h1.nodes,
   h2.interrupted.trans h1.interrupted, h2.tick.trans h1.tick, h2.matched.trans h1.matched, h2.cand.trans h1.cand,
   h2.rootMoves.trans h1.rootMoves, h2.firstMoveIdx.trans h1.firstMoveIdx, h2.out.trans h1.out⟩

theorem Sim.repr {s s2 : SS} (h : Sim s s2) : s2 = { s with out := s2.out } := by
  obtain ⟨h1, h2, h3, h4, h5, h6, h7, h8, h9, _⟩ := h
  cases s; cases s2
  simp only at h1 h2 h3 h4 h5 h6 h7 h8 h9
  subst h1 h2 h3 h4 h5 h6 h7 h8 h9
  rfl

theorem Sim.of_repr {s : SS} {o : List Event} (ho : noCurr o = noCurr s.out) : Sim s { s with out := o } :=
  ⟨rfl, rfl, rfl, rfl, rfl, rfl, rfl, rfl, rfl, ho⟩

/-- a state update that neither reads nor writes `out` preserves the simulation -/
theorem Sim.upd {s s2 : SS} (h : Sim s s2) (U : SS → SS) (hU : ∀ s o, U { s with out := o } = { U s with out := o })
    (hout : ∀ s, (U s).out = s.out) : Sim (U s) (U s2) := by
  have e : U s2 = { U s with out := s2.out } := by
    have := hU s s2.out
    rw [← h.repr] at this
    exact this
  rw [e]
  have ho : noCurr s2.out = noCurr (U s).out := by rw [hout s]; exact h.out
  exact Sim.of_repr ho

/-- close a `Sim` goal between two record updates of related states field by field -/
macro "sim_fields " h:term : tactic =>
  `(tactic| (constructor <;>
      simp only [($h).rows, ($h).killers, ($h).nodes, ($h).interrupted, ($h).tick, ($h).matched, ($h).cand,
        ($h).rootMoves, ($h).firstMoveIdx, ($h).out]))

theorem Sim.consult {s s2 : SS} (h : Sim s s2) : Sim s.consult s2.consult :=
  h.upd SS.consult (fun _ _ => rfl) (fun _ => rfl)

/-- pushing the same event (not a `currmove`) on both sides -/
theorem Sim.push {s s2 : SS} (h : Sim s s2) (e : Event) (he : e.isCurrmove = false) :
    Sim { s with out := e :: s.out } { s2 with out := e :: s2.out } :=
  ⟨h.rows, h.killers, h.nodes, h.interrupted, h.tick, h.matched, h.cand, h.rootMoves, h.firstMoveIdx,
   by show noCurr (e :: s2.out) = noCurr (e :: s.out)
      rw [noCurr_cons_of_not he, noCurr_cons_of_not he, h.out]⟩

/-- `rootMoves` and `firstMoveIdx` (what the `currmove` line reads besides `nodes`) are untouched -/
def Keep (s r : SS) : Prop := r.rootMoves = s.rootMoves ∧ r.firstMoveIdx = s.firstMoveIdx

theorem Keep.refl (s : SS) : Keep s s := ⟨rfl, rfl⟩
theorem Keep.trans {a b c : SS} (h1 : Keep a b) (h2 : Keep b c) : Keep a c :=
  ⟨h2.1.trans h1.1, h2.2.trans h1.2⟩

/-- `movStack[0][firstMoveIdx]` exists: the `currmove` line cannot hit an index panic -/
def InRange (s : SS) : Prop := s.firstMoveIdx < s.rootMoves.length

theorem InRange.keep {s r : SS} (h : InRange s) (k : Keep s r) : InRange r := by
  unfold InRange at *
  rw [k.1, k.2]; exact h

/-- `env'` is `env` with another, non-zero, `currmoveLogInterval` -/
structure LogAgree (env env' : Env) : Prop where
  blend : env'.blend = env.blend
  sortFn : env'.sortFn = env.sortFn
  timeUp : env'.timeUp = env.timeUp
  stopAt : env'.stopAt = env.stopAt
  gateOpen : env'.gateOpen = env.gateOpen
  lazy : env'.lazy = env.lazy
  stackCap : env'.stackCap = env.stackCap
  nz : env'.logInterval ≠ 0

theorem logAgree_of_eq {env env' : Env} (hnz : env'.logInterval ≠ 0)
    (h : env' = { env with logInterval := env'.logInterval }) : LogAgree env env' := by
  refine ⟨?_, ?_, ?_, ?_, ?_, ?_, ?_, hnz⟩ <;> rw [h]

theorem ok_bind {α β} (a : α) (f : α → M β) : ((Except.ok a : M α) >>= f) = f a := rfl

/-! ### primitives -/

theorem rowLen_simL {s s2 : SS} (h : Sim s s2) (d : Nat) : rowLen s2 d = rowLen s d := by
  unfold rowLen; rw [h.rows]

theorem rowPrefix_sim {s s2 : SS} (h : Sim s s2) (d len : Nat) : rowPrefix s2 d len = rowPrefix s d len := by
  unfold rowPrefix; rw [h.rows]

theorem updateBestLine_simL {s s2 : SS} {d subLen : Nat} {mv : Move} {r : SS} {n : Nat} (h : Sim s s2)
    (hu : updateBestLine s d subLen mv = .ok (r, n)) :
    ∃ r2, updateBestLine s2 d subLen mv = .ok (r2, n) ∧ Sim r r2 ∧ Keep s r := by
  unfold updateBestLine at hu ⊢
  rw [h.rows]
  split at hu
  · rename_i row sub hrow hsub
    split at hu
    · exact absurd hu (by simp [throw_ok])
    · rename_i hsz
      rw [if_neg hsz]
      simp only [pure_ok, Prod.mk.injEq] at hu
      obtain ⟨rfl, rfl⟩ := hu
      exact ⟨_, rfl, h.upd (fun s => { s with rows := _ }) (fun _ _ => rfl) (fun _ => rfl), rfl, rfl⟩
  · exact absurd hu (by simp [throw_ok])

theorem pollAfterMove_simL {env env' : Env} (ag : LogAgree env env') {s s2 : SS} (h : Sim s s2) :
    (pollAfterMove env' s2).1 = (pollAfterMove env s).1 ∧ Sim (pollAfterMove env s).2 (pollAfterMove env' s2).2 ∧
      Keep s (pollAfterMove env s).2 := by
  rw [pollAfterMove_eq, pollAfterMove_eq, ag.timeUp, ag.stopAt, h.interrupted, h.tick]
  split
  · exact ⟨rfl, h, Keep.refl _⟩
  split
  · exact ⟨rfl, h.consult, rfl, rfl⟩
  split
  · exact ⟨rfl, h.consult.consult.upd (fun s => { s with interrupted := true }) (fun _ _ => rfl) (fun _ => rfl),
      rfl, rfl⟩
  · exact ⟨rfl, h.consult.consult, rfl, rfl⟩

theorem qEval_log {env env' : Env} (ag : LogAgree env env') (p : Position) (d : Nat) (a b : Int) :
    qEval env' p d a b = qEval env p d a b := by
  unfold qEval; rw [ag.lazy, ag.blend]

/-- the logging step changes nothing but the output, and only by a `currmove` line -/
theorem qLog_self {env : Env} {s r : SS} (h : qLog env s = .ok r) : Sim s r ∧ Keep s r := by
  unfold qLog at h
  split at h
  · exact absurd h (by simp [throw_ok])
  split at h
  · split at h
    · simp only [pure_ok] at h; subst h
      exact ⟨Sim.of_repr (noCurr_cons_currmove _ _ _ _), rfl, rfl⟩
    · exact absurd h (by simp [throw_ok])
  · simp only [pure_ok] at h; subst h; exact ⟨Sim.refl _, Keep.refl _⟩

/-- with a non-zero interval and the current root move in range the logging step cannot panic -/
theorem qLog_total {env : Env} (hnz : env.logInterval ≠ 0) {s : SS} (hin : InRange s) : ∃ r, qLog env s = .ok r := by
  unfold qLog
  rw [if_neg (by simpa using hnz)]
  split
  · have : s.rootMoves[s.firstMoveIdx]? = some s.rootMoves[s.firstMoveIdx] := List.getElem?_eq_getElem hin
    rw [this]
    exact ⟨_, rfl⟩
  · exact ⟨_, rfl⟩

theorem qLog_simL {env env' : Env} (ag : LogAgree env env') {s s2 r : SS} (h : Sim s s2) (hin : InRange s)
    (hq : qLog env s = .ok r) : ∃ r2, qLog env' s2 = .ok r2 ∧ Sim r r2 ∧ Keep s r := by
  have hin2 : InRange s2 := by unfold InRange at *; rw [h.rootMoves, h.firstMoveIdx]; exact hin
  obtain ⟨r2, hr2⟩ := qLog_total ag.nz hin2
  exact ⟨r2, hr2, (qLog_self hq).1.symm.trans (h.trans (qLog_self hr2).1), (qLog_self hq).2⟩

theorem improve_sim {s s2 : SS} {depth subLen : Nat} {mv : Move} {score alpha : Int} {curLen : Nat} {a : Int}
    {l : Nat} {r : SS} (h : Sim s s2) (hi : improve s depth subLen mv score alpha curLen = .ok (a, l, r)) :
    ∃ r2, improve s2 depth subLen mv score alpha curLen = .ok (a, l, r2) ∧ Sim r r2 ∧ Keep s r := by
  unfold improve at hi ⊢
  split at hi
  · rename_i hs
    rw [if_pos hs]
    obtain ⟨⟨u, cl⟩, hu, hi⟩ := bind_ok.1 hi
    obtain ⟨u2, hu2, simu, keepu⟩ := updateBestLine_simL h hu
    rw [hu2, ok_bind]
    simp only [pure_ok, Prod.mk.injEq] at hi
    obtain ⟨rfl, rfl, rfl⟩ := hi
    exact ⟨u2, rfl, simu, keepu⟩
  · rename_i hs
    rw [if_neg hs]
    simp only [pure_ok, Prod.mk.injEq] at hi
    obtain ⟨rfl, rfl, rfl⟩ := hi
    exact ⟨s2, rfl, h, Keep.refl _⟩

/-! ### the node functions -/

/-- `f'` (under `env'`) simulates `f` (under `env`): from related states in which the current root move is in
    range, a successful run of `f` is matched by a successful run of `f'` with the same score and line length
    and related final states -/
def NodeSimL (f f' : NodeFn) : Prop :=
  ∀ p idx d a b l s s2 v l' r, Sim s s2 → InRange s → f p idx d a b l s = .ok (v, l', r) →
    ∃ r2, f' p idx d a b l s2 = .ok (v, l', r2) ∧ Sim r r2 ∧ Keep s r

theorem qLoop_simL {env env' : Env} (ag : LogAgree env env') {child child' : NodeFn} (hc : NodeSimL child child')
    (p : Position) (idx depth : Nat) (beta : Int) :
    ∀ (ms : List RMove) (alpha : Int) (curLen subLen : Nat) (s s2 : SS) (r : LoopOut), Sim s s2 → InRange s →
      qLoop env child p idx depth beta ms alpha curLen subLen s = .ok r →
      ∃ st2, qLoop env' child' p idx depth beta ms alpha curLen subLen s2 = .ok ⟨r.score, r.curLen, st2⟩ ∧
        Sim r.st st2 ∧ Keep s r.st := by
  intro ms
  induction ms with
  | nil =>
    intro alpha curLen subLen s s2 r hs _ h
    simp only [qLoop, pure_ok] at h; subst h
    exact ⟨s2, rfl, hs, Keep.refl _⟩
  | cons mv rest ih =>
    intro alpha curLen subLen s s2 r hs hin h
    simp only [qLoop] at h ⊢
    split at h
    · exact absurd h (by simp [throw_ok])
    rename_i hcap
    rw [if_neg (by rw [ag.stackCap]; exact hcap)]
    obtain ⟨mk, hmk, h⟩ := bind_ok.1 h
    rw [hmk, ok_bind]
    split at h
    · exact absurd h (by simp [throw_ok])
    rename_i hleg
    rw [if_neg hleg]
    obtain ⟨⟨v, sl, s1⟩, hch, h⟩ := bind_ok.1 h
    obtain ⟨s1', hch', sim1, keep1⟩ := hc _ _ _ _ _ _ _ _ _ _ _ hs hin hch
    rw [hch', ok_bind]
    simp only [SS.consult_tick, Nat.add_sub_cancel] at h ⊢
    rw [sim1.interrupted, sim1.tick, ag.timeUp]
    split at h
    · rename_i hi
      rw [if_pos hi]
      simp only [pure_ok] at h; subst h
      exact ⟨s1', rfl, sim1, keep1⟩
    rename_i hi
    rw [if_neg hi]
    split at h
    · rename_i hto
      rw [if_pos hto]
      simp only [pure_ok] at h; subst h
      exact ⟨s1'.consult, rfl, sim1.consult, keep1⟩
    rename_i hto
    rw [if_neg hto]
    split at h
    · rename_i hb
      rw [if_pos hb]
      simp only [pure_ok] at h; subst h
      exact ⟨s1'.consult, rfl, sim1.consult, keep1⟩
    rename_i hb
    rw [if_neg hb]
    split at h
    · rename_i ha
      rw [if_pos ha]
      obtain ⟨⟨u, cl⟩, hu, h⟩ := bind_ok.1 h
      obtain ⟨u2, hu2, simu, keepu⟩ := updateBestLine_simL sim1.consult hu
      rw [hu2, ok_bind]
      have keep2 : Keep s u := keep1.trans (Keep.trans (b := s1.consult) ⟨rfl, rfl⟩ keepu)
      obtain ⟨st2, hq, simq, keepq⟩ := ih _ _ _ _ _ _ simu (hin.keep keep2) h
      exact ⟨st2, hq, simq, keep2.trans keepq⟩
    · rename_i ha
      rw [if_neg ha]
      have keep2 : Keep s s1.consult := keep1.trans ⟨rfl, rfl⟩
      obtain ⟨st2, hq, simq, keepq⟩ := ih _ _ _ _ _ _ sim1.consult (hin.keep keep2) h
      exact ⟨st2, hq, simq, keep2.trans keepq⟩

theorem quiescence_simL {env env' : Env} (ag : LogAgree env env') (fuel : Nat) :
    NodeSimL (quiescence env fuel) (quiescence env' fuel) := by
  induction fuel with
  | zero => intro p idx d a b l s s2 v l' r _ _ h; simp only [quiescence, throw_ok] at h
  | succ fuel ih =>
    intro p idx d a b l s s2 v l' r hs hin h
    rw [quiescence_succ_eq] at h ⊢
    rw [rowLen_simL hs, qEval_log ag, ag.sortFn]
    obtain ⟨subLen, hsl, h⟩ := bind_ok.1 h
    rw [hsl, ok_bind]
    obtain ⟨score, hsc, h⟩ := bind_ok.1 h
    rw [hsc, ok_bind]
    obtain ⟨s1, hs1, h⟩ := bind_ok.1 h
    have hs0 : Sim { s with nodes := s.nodes + 1 } { s2 with nodes := s2.nodes + 1 } :=
      hs.upd (fun s => { s with nodes := s.nodes + 1 }) (fun _ _ => rfl) (fun _ => rfl)
    obtain ⟨s1', hs1', sim1, keep1⟩ := qLog_simL ag hs0 hin hs1
    rw [hs1', ok_bind]
    have keep1' : Keep s s1 := keep1
    split at h
    · rename_i hb
      rw [if_pos hb]
      simp only [pure_ok, Prod.mk.injEq] at h
      obtain ⟨rfl, rfl, rfl⟩ := h
      exact ⟨s1', rfl, sim1, keep1'⟩
    rename_i hb
    rw [if_neg hb]
    obtain ⟨ms, hms, h⟩ := bind_ok.1 h
    rw [hms, ok_bind]
    obtain ⟨lo, hlo, h⟩ := bind_ok.1 h
    simp only [pure_ok, Prod.mk.injEq] at h
    obtain ⟨rfl, rfl, rfl⟩ := h
    obtain ⟨st2, hq, simq, keepq⟩ := qLoop_simL ag ih _ _ _ _ _ _ _ _ _ _ _ sim1 (hin.keep keep1') hlo
    rw [hq, ok_bind]
    exact ⟨st2, rfl, simq, keep1'.trans keepq⟩

theorem abLoop_simL {env env' : Env} (ag : LogAgree env env') {child child' : NodeFn} (hc : NodeSimL child child')
    (p : Position) (idx depth : Nat) (beta : Int) :
    ∀ (ms : List RMove) (alpha : Int) (curLen subLen : Nat) (s s2 : SS) (r : LoopOut), Sim s s2 → InRange s →
      abLoop env child p idx depth beta ms alpha curLen subLen s = .ok r →
      ∃ st2, abLoop env' child' p idx depth beta ms alpha curLen subLen s2 = .ok ⟨r.score, r.curLen, st2⟩ ∧
        Sim r.st st2 ∧ Keep s r.st := by
  intro ms
  induction ms with
  | nil =>
    intro alpha curLen subLen s s2 r hs _ h
    simp only [abLoop, pure_ok] at h; subst h
    exact ⟨s2, rfl, hs, Keep.refl _⟩
  | cons mv rest ih =>
    intro alpha curLen subLen s s2 r hs hin h
    rw [abLoop_cons_eq] at h ⊢
    rw [hs.interrupted]
    split at h
    · rename_i hi
      rw [if_pos hi]
      simp only [pure_ok] at h; subst h
      exact ⟨s2, rfl, hs, Keep.refl _⟩
    rename_i hi
    rw [if_neg hi]
    split at h
    · exact absurd h (by simp [throw_ok])
    rename_i hcap
    rw [if_neg (by rw [ag.stackCap]; exact hcap)]
    obtain ⟨mk, hmk, h⟩ := bind_ok.1 h
    rw [hmk, ok_bind]
    split at h
    · exact absurd h (by simp [throw_ok])
    rename_i hleg
    rw [if_neg hleg]
    obtain ⟨⟨v, sl, s1⟩, hch, h⟩ := bind_ok.1 h
    obtain ⟨s1', hch', sim1, keep1⟩ := hc _ _ _ _ _ _ _ _ _ _ _ hs hin hch
    rw [hch', ok_bind]
    dsimp only at h ⊢
    split at h
    · rename_i hb
      rw [if_pos hb]
      split at h
      · rename_i ht
        rw [if_pos ht]
        obtain ⟨kt, hkt, h⟩ := bind_ok.1 h
        rw [sim1.killers, hkt, ok_bind]
        simp only [pure_ok] at h; subst h
        exact ⟨_, rfl, sim1.upd (fun s => { s with killers := kt }) (fun _ _ => rfl) (fun _ => rfl), keep1⟩
      · rename_i ht
        rw [if_neg ht]
        simp only [pure_ok] at h; subst h
        exact ⟨_, rfl, sim1, keep1⟩
    · rename_i hb
      rw [if_neg hb]
      obtain ⟨⟨a2, l2, y⟩, hi2, h⟩ := bind_ok.1 h
      obtain ⟨y', hi2', simy, keepy⟩ := improve_sim sim1 hi2
      rw [hi2', ok_bind]
      dsimp only at h ⊢
      obtain ⟨hp1, hp2, hp3⟩ := pollAfterMove_simL ag simy
      rw [hp1]
      have keep2 : Keep s (pollAfterMove env y).2 := keep1.trans (keepy.trans hp3)
      split at h
      · rename_i hbrk
        rw [if_pos hbrk]
        simp only [pure_ok] at h; subst h
        exact ⟨_, rfl, hp2, keep2⟩
      · rename_i hbrk
        rw [if_neg hbrk]
        obtain ⟨st2, hq, simq, keepq⟩ := ih _ _ _ _ _ _ hp2 (hin.keep keep2) h
        exact ⟨st2, hq, simq, keep2.trans keepq⟩

theorem alphaBeta_simL {env env' : Env} (ag : LogAgree env env') (qfuel rem : Nat) :
    NodeSimL (alphaBeta env qfuel rem) (alphaBeta env' qfuel rem) := by
  induction rem with
  | zero =>
    intro p idx d a b l s s2 v l' r hs hin h
    simp only [alphaBeta] at h ⊢
    rw [rowLen_simL hs]
    obtain ⟨x, hx, h⟩ := bind_ok.1 h
    rw [hx, ok_bind]
    exact quiescence_simL ag qfuel _ _ _ _ _ _ _ _ _ _ _ hs hin h
  | succ rem ih =>
    intro p idx d a b l s s2 v l' r hs hin h
    simp only [alphaBeta] at h ⊢
    have e1 : generateMoves s2.killers p = generateMoves s.killers p := by rw [hs.killers]
    have e2 : applyPvBonus s2.cand s2.matched d = applyPvBonus s.cand s.matched d := by rw [hs.cand, hs.matched]
    rw [rowLen_simL hs, e1, ag.sortFn]
    obtain ⟨subLen, hsl, h⟩ := bind_ok.1 h
    rw [hsl, ok_bind]
    obtain ⟨ms, hms, h⟩ := bind_ok.1 h
    rw [hms, ok_bind]
    split at h
    · rename_i he
      rw [if_pos he]
      obtain ⟨tv, htv, h⟩ := bind_ok.1 h
      rw [htv, ok_bind]
      simp only [pure_ok, Prod.mk.injEq] at h
      obtain ⟨rfl, rfl, rfl⟩ := h
      exact ⟨_, rfl, by sim_fields hs, rfl, rfl⟩
    · rename_i he
      rw [if_neg he, e2]
      obtain ⟨lo, hlo, h⟩ := bind_ok.1 h
      simp only [pure_ok, Prod.mk.injEq] at h
      obtain ⟨rfl, rfl, rfl⟩ := h
      have keep0 : Keep s { s with matched := (applyPvBonus s.cand s.matched d ms).2 } := ⟨rfl, rfl⟩
      have sim0 : Sim { s with matched := (applyPvBonus s.cand s.matched d ms).2 }
          { s2 with matched := (applyPvBonus s.cand s.matched d ms).2 } := by sim_fields hs
      obtain ⟨st2, hq, simq, keepq⟩ := abLoop_simL ag ih _ _ _ _ _ _ _ _ _ _ _ sim0 (hin.keep keep0) hlo
      rw [hq, ok_bind]
      exact ⟨st2, rfl, simq, keep0.trans keepq⟩

/-! ### the root -/

theorem rootPrint_simL {env env' : Env} (ag : LogAgree env env') {target : Nat} {score : Int} {curLen : Nat}
    {s s2 r : SS} (hs : Sim s s2) (h : rootPrint env target score curLen s = .ok r) :
    ∃ r2, rootPrint env' target score curLen s2 = .ok r2 ∧ Sim r r2 ∧ Keep s r := by
  unfold rootPrint at h ⊢
  have eg : env'.gateOpen (s2.tick - 1) = env.gateOpen (s.tick - 1) := by rw [ag.gateOpen, hs.tick]
  rw [eg]
  split at h
  · rename_i hg
    rw [if_pos hg]
    split at h
    · exact absurd h (by simp [throw_ok])
    · rename_i hz
      rw [if_neg hz]
      simp only [pure_ok] at h; subst h
      refine ⟨_, rfl, ?_, rfl, rfl⟩
      have e : Event.infoPv score target s2.nodes (rowPrefix s2 0 curLen) =
          Event.infoPv score target s.nodes (rowPrefix s 0 curLen) := by rw [rowPrefix_sim hs, hs.nodes]
      rw [e]
      exact hs.push (.infoPv score target s.nodes (rowPrefix s 0 curLen)) rfl
  · rename_i hg
    rw [if_neg hg]
    simp only [pure_ok] at h; subst h
    exact ⟨s2, rfl, hs, Keep.refl _⟩

theorem rootImprove_sim {env env' : Env} (ag : LogAgree env env') {target : Nat} {s s2 : SS} {subLen : Nat}
    {mv : Move} {score alpha : Int} {curLen : Nat} {a : Int} {l : Nat} {r : SS} (hs : Sim s s2)
    (h : rootImprove env target s subLen mv score alpha curLen = .ok (a, l, r)) :
    ∃ r2, rootImprove env' target s2 subLen mv score alpha curLen = .ok (a, l, r2) ∧ Sim r r2 ∧ Keep s r := by
  unfold rootImprove at h ⊢
  split at h
  · rename_i hc
    rw [if_pos hc]
    obtain ⟨⟨u, cl⟩, hu, h⟩ := bind_ok.1 h
    obtain ⟨u2, hu2, simu, keepu⟩ := updateBestLine_simL hs hu
    rw [hu2, ok_bind]
    obtain ⟨w, hw, h⟩ := bind_ok.1 h
    obtain ⟨w2, hw2, simw, keepw⟩ := rootPrint_simL ag simu.consult hw
    dsimp only at hw2 ⊢
    rw [hw2, ok_bind]
    simp only [pure_ok, Prod.mk.injEq] at h
    obtain ⟨rfl, rfl, rfl⟩ := h
    exact ⟨w2, rfl, simw, keepu.trans (Keep.trans (b := u.consult) ⟨rfl, rfl⟩ keepw)⟩
  · rename_i hc
    rw [if_neg hc]
    simp only [pure_ok, Prod.mk.injEq] at h
    obtain ⟨rfl, rfl, rfl⟩ := h
    exact ⟨s2, rfl, hs, Keep.refl _⟩

theorem rootStop_simL {env env' : Env} (ag : LogAgree env env') {s s2 : SS} (hs : Sim s s2) :
    Sim (rootStop env s) (rootStop env' s2) := by
  unfold rootStop
  dsimp only
  rw [ag.stopAt]
  have ht : s2.consult.tick = s.consult.tick := hs.consult.tick
  rw [ht]
  split
  · sim_fields hs.consult
  · sim_fields hs.consult

theorem rootStop_root (env : Env) (s : SS) :
    (rootStop env s).rootMoves = s.rootMoves ∧ (rootStop env s).firstMoveIdx = s.firstMoveIdx + 1 := by
  unfold rootStop
  dsimp only
  split <;> exact ⟨rfl, rfl⟩

theorem rootLoop_simL {env env' : Env} (ag : LogAgree env env') {child child' : NodeFn} (hc : NodeSimL child child')
    (p : Position) (target : Nat) :
    ∀ (ms : List RMove) (alpha : Int) (curLen subLen : Nat) (s s2 : SS) (r : LoopOut), Sim s s2 →
      (∃ pre, s.rootMoves = pre ++ ms ∧ s.firstMoveIdx = pre.length) →
      rootLoop env child p target ms alpha curLen subLen s = .ok r →
      ∃ st2, rootLoop env' child' p target ms alpha curLen subLen s2 = .ok ⟨r.score, r.curLen, st2⟩ ∧
        Sim r.st st2 := by
  intro ms
  induction ms with
  | nil =>
    intro alpha curLen subLen s s2 r hs _ h
    simp only [rootLoop, pure_ok] at h; subst h
    exact ⟨s2, rfl, hs⟩
  | cons mv rest ih =>
    intro alpha curLen subLen s s2 r hs hpre h
    have hin : InRange s := by
      obtain ⟨pre, h1, h2⟩ := hpre
      unfold InRange
      rw [h1, h2, List.length_append, List.length_cons]
      omega
    rw [rootLoop_cons_eq] at h ⊢
    rw [hs.interrupted]
    split at h
    · rename_i hi
      rw [if_pos hi]
      simp only [pure_ok] at h; subst h
      exact ⟨s2, rfl, hs⟩
    rename_i hi
    rw [if_neg hi]
    split at h
    · exact absurd h (by simp [throw_ok])
    rename_i hcap
    rw [if_neg (by rw [ag.stackCap]; exact hcap)]
    obtain ⟨mk, hmk, h⟩ := bind_ok.1 h
    rw [hmk, ok_bind]
    split at h
    · exact absurd h (by simp [throw_ok])
    rename_i hleg
    rw [if_neg hleg]
    obtain ⟨⟨v, sl, s1⟩, hch, h⟩ := bind_ok.1 h
    obtain ⟨s1', hch', sim1, keep1⟩ := hc _ _ _ _ _ _ _ _ _ _ _ hs hin hch
    rw [hch', ok_bind]
    obtain ⟨⟨a2, l2, y⟩, hi2, h⟩ := bind_ok.1 h
    obtain ⟨y', hi2', simy, keepy⟩ := rootImprove_sim ag sim1 hi2
    dsimp only at hi2' ⊢
    rw [hi2', ok_bind]
    simp only [SS.consult_tick, Nat.add_sub_cancel] at h ⊢
    rw [simy.interrupted, simy.tick, ag.timeUp]
    split at h
    · rename_i hi'
      rw [if_pos hi']
      simp only [pure_ok] at h; subst h
      exact ⟨y', rfl, simy⟩
    rename_i hi'
    rw [if_neg hi']
    split at h
    · rename_i hto
      rw [if_pos hto]
      simp only [pure_ok] at h; subst h
      exact ⟨y'.consult, rfl, simy.consult⟩
    rename_i hto
    rw [if_neg hto]
    split at h
    · rename_i hw
      rw [if_pos hw]
      simp only [pure_ok] at h; subst h
      exact ⟨y'.consult, rfl, simy.consult⟩
    rename_i hw
    rw [if_neg hw]
    refine ih _ _ _ _ _ _ (rootStop_simL ag simy.consult) ?_ h
    obtain ⟨pre, h1, h2⟩ := hpre
    have ky : Keep s y := keep1.trans keepy
    refine ⟨pre ++ [mv], ?_, ?_⟩
    · rw [(rootStop_root env y.consult).1]
      show y.rootMoves = _
      rw [ky.1, h1, List.append_assoc]; rfl
    · rw [(rootStop_root env y.consult).2]
      show y.firstMoveIdx + 1 = _
      rw [ky.2, h2, List.length_append]; rfl

theorem startAlphaBeta_simL {env env' : Env} (ag : LogAgree env env') {qfuel : Nat} {p : Position} {target curLen : Nat}
    {s s2 : SS} {v : Int} {one : Bool} {l : Nat} {r : SS} (hs : Sim s s2)
    (h : startAlphaBeta env qfuel p target curLen s = .ok (v, one, l, r)) :
    ∃ r2, startAlphaBeta env' qfuel p target curLen s2 = .ok (v, one, l, r2) ∧ Sim r r2 := by
  simp only [startAlphaBeta] at h ⊢
  have e1 : generateMoves s2.killers p = generateMoves s.killers p := by rw [hs.killers]
  have e2 : applyPvBonus s2.cand s2.matched 0 = applyPvBonus s.cand s.matched 0 := by rw [hs.cand, hs.matched]
  rw [rowLen_simL hs, e1, ag.sortFn]
  obtain ⟨subLen, hsl, h⟩ := bind_ok.1 h
  rw [hsl, ok_bind]
  obtain ⟨ms, hms, h⟩ := bind_ok.1 h
  rw [hms, ok_bind]
  split at h
  · rename_i he
    rw [if_pos he]
    obtain ⟨tv, htv, h⟩ := bind_ok.1 h
    rw [htv, ok_bind]
    simp only [pure_ok, Prod.mk.injEq] at h
    obtain ⟨rfl, rfl, rfl, rfl⟩ := h
    exact ⟨_, rfl, by sim_fields hs⟩
  · rename_i he
    rw [if_neg he, e2]
    obtain ⟨lo, hlo, h⟩ := bind_ok.1 h
    simp only [pure_ok, Prod.mk.injEq] at h
    obtain ⟨rfl, rfl, rfl, rfl⟩ := h
    have sim0 : Sim { s with matched := (applyPvBonus s.cand s.matched 0 ms).2,
                             rootMoves := env.sortFn (applyPvBonus s.cand s.matched 0 ms).1, firstMoveIdx := 0 }
        { s2 with matched := (applyPvBonus s.cand s.matched 0 ms).2,
                  rootMoves := env.sortFn (applyPvBonus s.cand s.matched 0 ms).1, firstMoveIdx := 0 } := by
      sim_fields hs
    obtain ⟨st2, hq, simq⟩ := rootLoop_simL ag (alphaBeta_simL ag qfuel (target - 1)) _ _ _ _ _ _ _ _ _ sim0
      ⟨[], rfl, rfl⟩ hlo
    rw [hq, ok_bind]
    exact ⟨st2, rfl, simq⟩

/-! ### iterative deepening -/

theorem copyBestLine_simL {s s2 : SS} (hs : Sim s s2) (len0 : Nat) : Sim (copyBestLine s len0) (copyBestLine s2 len0) := by
  unfold copyBestLine
  rw [rowPrefix_sim hs]
  sim_fields hs

theorem printInfoAfterDepth_simL {s s2 r : SS} {score : Int} {depth : Nat} (hs : Sim s s2)
    (h : printInfoAfterDepth s score depth = .ok r) :
    ∃ r2, printInfoAfterDepth s2 score depth = .ok r2 ∧ Sim r r2 := by
  obtain ⟨hne, rfl⟩ := printInfoAfterDepth_ok h
  unfold printInfoAfterDepth
  rw [if_neg (by rw [hs.cand]; intro h0; exact hne (List.isEmpty_iff.1 h0))]
  have e : Event.infoDepth depth score s2.nodes s2.cand = Event.infoDepth depth score s.nodes s.cand := by
    rw [hs.cand, hs.nodes]
  rw [e]
  exact ⟨_, rfl, hs.push (.infoDepth depth score s.nodes s.cand) rfl⟩

theorem deepenLoop_simL {env env' : Env} (ag : LogAgree env env') {qfuel : Nat} {p : Position} {maxDepth : Nat} :
    ∀ (n cur : Nat) (best : Int) (done len0 : Nat) (s s2 : SS) (best' : Int) (done' : Nat) (r : SS), Sim s s2 →
      deepenLoop env qfuel p maxDepth n cur best done len0 s = .ok (best', done', r) →
      ∃ r2, deepenLoop env' qfuel p maxDepth n cur best done len0 s2 = .ok (best', done', r2) ∧ Sim r r2 := by
  intro n
  induction n with
  | zero =>
    intro cur best done len0 s s2 best' done' r hs h
    simp only [deepenLoop, pure_ok, Prod.mk.injEq] at h
    obtain ⟨rfl, rfl, rfl⟩ := h
    exact ⟨s2, rfl, hs⟩
  | succ n ih =>
    intro cur best done len0 s s2 best' done' r hs h
    rw [deepenLoop_succ_eq] at h ⊢
    split at h
    · rename_i hc
      rw [if_pos hc]
      simp only [pure_ok, Prod.mk.injEq] at h
      obtain ⟨rfl, rfl, rfl⟩ := h
      exact ⟨s2, rfl, hs⟩
    rename_i hc
    rw [if_neg hc]
    obtain ⟨⟨score, one, l1, s1⟩, hsab, h⟩ := bind_ok.1 h
    obtain ⟨s1', hsab', sim1⟩ := startAlphaBeta_simL ag hs hsab
    rw [hsab', ok_bind]
    have simc := sim1.consult
    dsimp only at h ⊢
    rw [ag.timeUp, simc.tick, simc.interrupted]
    split at h
    · rename_i hto
      rw [if_pos hto]
      simp only [pure_ok, Prod.mk.injEq] at h
      obtain ⟨rfl, rfl, rfl⟩ := h
      exact ⟨_, rfl, simc⟩
    rename_i hto
    rw [if_neg hto]
    split at h
    · rename_i hi
      rw [if_pos hi]
      simp only [pure_ok, Prod.mk.injEq] at h
      obtain ⟨rfl, rfl, rfl⟩ := h
      exact ⟨_, rfl, simc⟩
    rename_i hi
    rw [if_neg hi]
    obtain ⟨s3, hp, h⟩ := bind_ok.1 h
    obtain ⟨s3', hp', sim3⟩ := printInfoAfterDepth_simL (copyBestLine_simL simc l1) hp
    rw [hp', ok_bind]
    split at h
    · rename_i hm
      rw [if_pos hm]
      simp only [pure_ok, Prod.mk.injEq] at h
      obtain ⟨rfl, rfl, rfl⟩ := h
      exact ⟨_, rfl, sim3⟩
    rename_i hm
    rw [if_neg hm]
    split at h
    · rename_i ho
      rw [if_pos ho]
      simp only [pure_ok, Prod.mk.injEq] at h
      obtain ⟨rfl, rfl, rfl⟩ := h
      exact ⟨_, rfl, sim3⟩
    rename_i ho
    rw [if_neg ho]
    exact ih _ _ _ _ _ _ _ _ _ sim3 h

theorem deepenFrom_sim {env env' : Env} (ag : LogAgree env env') {qfuel : Nat} {p : Position} {maxDepth : Nat}
    {score : Int} {one : Bool} {len0 : Nat} {s s2 : SS} {best : Int} {done : Nat} {r : SS} (hs : Sim s s2)
    (h : deepenFrom env qfuel p maxDepth score one len0 s = .ok (best, done, r)) :
    ∃ r2, deepenFrom env' qfuel p maxDepth score one len0 s2 = .ok (best, done, r2) ∧ Sim r r2 := by
  unfold deepenFrom at h ⊢
  rw [ag.timeUp, hs.tick, hs.interrupted]
  split at h
  · rename_i hc
    rw [if_pos hc]
    exact deepenLoop_simL ag _ _ _ _ _ _ _ _ _ _ hs h
  · rename_i hc
    rw [if_neg hc]
    simp only [pure_ok, Prod.mk.injEq] at h
    obtain ⟨rfl, rfl, rfl⟩ := h
    exact ⟨s2, rfl, hs⟩

theorem announce_simL {s s2 r : SS} {best : Int} {done : Nat} (hs : Sim s s2) (h : announce s best done = .ok r) :
    ∃ r2, announce s2 best done = .ok r2 ∧ Sim r r2 := by
  obtain ⟨m, tl, hc, rfl⟩ := announce_ok h
  have hc2 : s2.cand = m :: tl := hs.cand.trans hc
  refine ⟨_, announce_eq hc2 best done, ?_⟩
  have e : Event.infoPv best done s2.nodes s2.cand = Event.infoPv best done s.nodes s.cand := by
    rw [hs.cand, hs.nodes]
  rw [e]
  exact (hs.push (.infoPv best done s.nodes s.cand) rfl).push (.bestmove m) rfl

/-- **Simulation theorem for `iterDeep`.** If `env'` differs from `env` only in a non-zero `logInterval`, every
    successful run under `env` is matched by a successful run under `env'` whose final state agrees in every field
    except `currmove` lines of the output. In particular the `env'` run cannot hit the index panic of the
    `currmove` line: inside the search `firstMoveIdx` always points into `rootMoves`. -/
theorem iterDeep_simL {env env' : Env} (ag : LogAgree env env') {qfuel : Nat} {p : Position} {maxDepth : Nat}
    {killers : Killers} {rows : Array (Array Move)} {len0 : Nat} {s : SS}
    (h : iterDeep env qfuel p maxDepth killers rows len0 = .ok s) :
    ∃ s', iterDeep env' qfuel p maxDepth killers rows len0 = .ok s' ∧ Sim s s' := by
  rw [iterDeep_eq] at h ⊢
  obtain ⟨⟨score, one, l, s1⟩, hsab, h⟩ := bind_ok.1 h
  obtain ⟨s1', hsab', sim1⟩ := startAlphaBeta_simL ag (Sim.refl _) hsab
  rw [hsab', ok_bind]
  have simc := copyBestLine_simL sim1 l
  dsimp only at h ⊢
  have ec : (copyBestLine s1' l).cand.isEmpty = (copyBestLine s1 l).cand.isEmpty := by rw [simc.cand]
  rw [ec]
  split at h
  · rename_i he
    rw [if_pos he]
    simp only [pure_ok] at h; subst h
    refine ⟨_, rfl, ?_⟩
    have : Sim { copyBestLine s1 l with out := s1.out } { copyBestLine s1' l with out := s1'.out } :=
      ⟨simc.rows, simc.killers, simc.nodes, simc.interrupted, simc.tick, simc.matched, simc.cand, simc.rootMoves,
       simc.firstMoveIdx, sim1.out⟩
    exact (this.push (.infoTerminal score) rfl).push .bestmoveNone rfl
  · rename_i he
    rw [if_neg he]
    obtain ⟨⟨best, done, s2⟩, hd, h⟩ := bind_ok.1 h
    obtain ⟨s2', hd', sim2⟩ := deepenFrom_sim ag simc.consult hd
    rw [hd', ok_bind]
    exact announce_simL sim2 h

/-- the final announcement (`bestmove`, preceded by the last `info … pv` line) is literally the same -/
theorem iterDeep_sim_best {env env' : Env} (ag : LogAgree env env') {qfuel : Nat} {p : Position} {maxDepth : Nat}
    {killers : Killers} {rows : Array (Array Move)} {len0 : Nat} {s : SS}
    (h : iterDeep env qfuel p maxDepth killers rows len0 = .ok s)
    {m : Move} {best : Int} {D n : Nat} {pv : List Move} {rest : List Event}
    (hout : s.out = .bestmove m :: .infoPv best D n pv :: rest) :
    ∃ s' rest', iterDeep env' qfuel p maxDepth killers rows len0 = .ok s' ∧
      s'.out = .bestmove m :: .infoPv best D n pv :: rest' ∧ noCurr rest' = noCurr rest := by
  obtain ⟨s', h', sim⟩ := iterDeep_simL ag h
  have ho := sim.out
  rw [hout, noCurr_cons_of_not rfl, noCurr_cons_of_not rfl] at ho
  obtain ⟨score, one, l, s1, _, hc⟩ := iterDeep_cases h'
  rcases hc with ⟨_, rfl⟩ | ⟨_, best', D', s2, m', tl, _, _, rfl⟩
  · have ho' : noCurr (Event.bestmoveNone :: Event.infoTerminal score :: s1.out) = _ := ho
    rw [noCurr_cons_of_not rfl] at ho'
    cases (List.cons.inj ho').1
  · have ho' : noCurr (Event.bestmove m' :: Event.infoPv best' D' s2.nodes s2.cand :: s2.out) = _ := ho
    rw [noCurr_cons_of_not rfl, noCurr_cons_of_not rfl] at ho'
    obtain ⟨e1, ho'⟩ := List.cons.inj ho'
    obtain ⟨e2, ho'⟩ := List.cons.inj ho'
    refine ⟨_, s2.out, h', ?_, ho'⟩
    show Event.bestmove m' :: Event.infoPv best' D' s2.nodes s2.cand :: s2.out = _
    rw [e1, e2]

/-- number of `currmove` lines, total number of output lines, node count of a run (for the examples of
    `Props/C14Log.lean`) -/
def runStats : M SS → Option (Nat × Nat × Nat)
  | .ok s => some ((s.out.filter Event.isCurrmove).length, s.out.length, s.nodes)
  | .error _ => none

end Magog.Model
