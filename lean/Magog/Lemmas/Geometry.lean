import Magog.Abs

/-! Finite geometry of the 0x88 tables, decided by kernel evaluation over the complete domain
    (all 64 × 64 ordered pairs of board squares) on the tables regenerated from the Go source,
    then lifted to ∀-statements. `Nat` and `List` only (DESIGN §8). -/

namespace Magog.Geo
open Magog Magog.Model

/-- the 64 valid 0x88 squares -/
def sq88 : List Nat := (List.range 64).map to88

theorem mem_sq88 {s : Nat} : s ∈ sq88 ↔ s < 128 ∧ isValid s = true := by
  constructor
  · intro h
    simp only [sq88, List.mem_map, List.mem_range] at h
    obtain ⟨i, hi, rfl⟩ := h
    have : ∀ i < 64, to88 i < 128 ∧ isValid (to88 i) = true := by decide
    exact this i hi
  · intro ⟨h1, h2⟩
    have : ∀ s < 128, isValid s = true → s ∈ sq88 := by decide
    exact this s h1 h2

/-- table lookup by move index, as a natural number (valid squares never give a negative index) -/
def idxN (frm to : Nat) : Nat := Gen.lastValidSquare + to - frm

def attackAt (frm to : Nat) : Nat := Gen.attackTable.getD (idxN frm to) 0
def dirAt (frm to : Nat) : Nat := Gen.directionTable.getD (idxN frm to) 0

def hasBit (frm to bit : Nat) : Bool := attackAt frm to &&& bit != 0

/-- the squares `checkedBySlidingPiece` inspects, without a board -/
def walkList (dir dest : Nat) : Nat → Nat → Option (List Nat)
  | 0, _ => none
  | fuel + 1, sq => if sq == dest then some [] else (walkList dir dest fuel (addb sq dir)).map (sq :: ·)

def emptyBoard : Array (Option Spec.Man) := Array.replicate 64 none

/-- per-pair check: every attack bit is exactly the piece's geometric relation, and for slider-related
    pairs the direction-table walk visits exactly the squares strictly between, all on the board -/
def pairOk (a t : Nat) : Bool :=
  let a' := to64 a; let t' := to64 t
  idxN a t < 239 &&
  hasBit a t Gen.KnightAttacks == Spec.manAttacks emptyBoard ⟨.white, .knight⟩ a' t' &&
  hasBit a t Gen.KingAttacks == Spec.manAttacks emptyBoard ⟨.white, .king⟩ a' t' &&
  hasBit a t Gen.WPawnAttacks == Spec.manAttacks emptyBoard ⟨.white, .pawn⟩ a' t' &&
  hasBit a t Gen.BPawnAttacks == Spec.manAttacks emptyBoard ⟨.black, .pawn⟩ a' t' &&
  hasBit a t Gen.RookAttacks == Spec.onLine a' t' &&
  hasBit a t Gen.BishopAttacks == Spec.onDiag a' t' &&
  hasBit a t Gen.QueenAttacks == (Spec.onLine a' t' || Spec.onDiag a' t') &&
  (if Spec.onLine a' t' || Spec.onDiag a' t' then
     match walkList (dirAt a t) t 8 (addb a (dirAt a t)) with
     | some l => l.all (fun s => s < 128 && isValid s) && l.map to64 == Spec.between a' t'
     | none => false
   else true)

def allPairsOk : Bool := sq88.all fun a => sq88.all fun t => pairOk a t

set_option maxRecDepth 100000 in
theorem allPairsOk_true : allPairsOk = true := by decide +kernel

theorem pairOk_of_valid {a t : Nat} (ha : a ∈ sq88) (ht : t ∈ sq88) : pairOk a t = true := by
  have h := allPairsOk_true
  simp only [allPairsOk, List.all_eq_true] at h
  exact h a ha t ht

end Magog.Geo
