import Magog.Lemmas.SearchFrame

/-! Analysis of the iterative-deepening driver (`deepenLoop`, `iterDeep`) on top of the frame lemmas. -/

namespace Magog.Model
open Magog

def Event.isBest : Event → Bool
  | .bestmove _ => true
  | .bestmoveNone => true
  | _ => false

/-- events that `deepenLoop` may print: search info and iteration-completed lines -/
def Event.isIterEvent : Event → Bool
  | .infoPv .. => true
  | .currmove .. => true
  | .infoDepth .. => true
  | _ => false

def Event.depth? : Event → Option Nat
  | .infoDepth d _ _ _ => some d
  | _ => none

/-- depths of the `infoDepth` (iteration completed) events of an output list, in list order -/
def depthsOf (l : List Event) : List Nat := l.filterMap Event.depth?

theorem depthsOf_append (a b : List Event) : depthsOf (a ++ b) = depthsOf a ++ depthsOf b :=
  List.filterMap_append ..

theorem mem_depthsOf {l : List Event} {d : Nat} :
    d ∈ depthsOf l ↔ ∃ sc n pv, Event.infoDepth d sc n pv ∈ l := by
  simp only [depthsOf, List.mem_filterMap]
  constructor
  · rintro ⟨e, he, hd⟩
    cases e <;> simp only [Event.depth?, Option.some.injEq, reduceCtorEq] at hd
    subst hd; exact ⟨_, _, _, he⟩
  · rintro ⟨sc, n, pv, he⟩; exact ⟨_, he, rfl⟩

theorem depthsOf_searchInfo {l : List Event} (h : ∀ e ∈ l, e.isSearchInfo = true) : depthsOf l = [] := by
  simp only [depthsOf, List.filterMap_eq_nil_iff]
  intro e he
  have := h e he
  cases e <;> simp_all [Event.isSearchInfo, Event.depth?]

theorem isSearchInfo_isIterEvent {e : Event} (h : e.isSearchInfo = true) : e.isIterEvent = true := by
  cases e <;> simp_all [Event.isSearchInfo, Event.isIterEvent]

theorem isIterEvent_not_isBest {e : Event} (h : e.isIterEvent = true) : e.isBest = false := by
  cases e <;> simp_all [Event.isBest, Event.isIterEvent]

theorem deepenLoop_succ_eq (env : Env) (qfuel : Nat) (p : Position) (maxDepth n cur : Nat) (best : Int)
    (done len0 : Nat) (s : SS) :
    deepenLoop env qfuel p maxDepth (n + 1) cur best done len0 s =
      (if cur > maxDepth then pure (best, done, s) else do
       let x ← startAlphaBeta env qfuel p cur len0 s
       if env.timeUp (x.2.2.2.consult.tick - 1) then pure (best, done, x.2.2.2.consult) else
       if x.2.2.2.consult.interrupted then pure (best, done, x.2.2.2.consult) else do
       let s3 ← printInfoAfterDepth (copyBestLine x.2.2.2.consult x.2.2.1) x.1 cur
       if pliesToMate x.1 == cur then pure (x.1, cur, s3) else
       if x.2.1 then pure (x.1, cur, s3) else
       deepenLoop env qfuel p maxDepth n (cur + 1) x.1 cur x.2.2.1 s3) := by
  rw [deepenLoop]

theorem printInfoAfterDepth_ok {s score depth s'} (h : printInfoAfterDepth s score depth = .ok s') :
    s.cand ≠ [] ∧ s' = { s with out := .infoDepth depth score s.nodes s.cand :: s.out } := by
  unfold printInfoAfterDepth at h
  split at h
  · exact absurd h (by simp [throw_ok])
  · rename_i hne
    simp only [pure_ok] at h
    exact ⟨by intro h0; rw [h0] at hne; simp at hne, h.symm⟩

theorem printInfo_ok {s score depth s'} (h : printInfo s score depth = .ok s') :
    s.cand ≠ [] ∧ s' = { s with out := .infoPv score depth s.nodes s.cand :: s.out } := by
  unfold printInfo at h
  split at h
  · exact absurd h (by simp [throw_ok])
  · rename_i hne
    simp only [pure_ok] at h
    exact ⟨by intro h0; rw [h0] at hne; simp at hne, h.symm⟩

/-- What a run of `deepenLoop` starting at iteration `cur` with the accepted result `(best, done)` does:
    it appends `added` (search info and `infoDepth` lines, all with non-empty pv), and
    either no iteration was accepted and nothing else changes; or iterations `cur … done'` were accepted, each
    announced by its `infoDepth` event, the last one carrying the returned score and the stored line. -/
def DeepenSpec (maxDepth cur : Nat) (best : Int) (done : Nat) (s : SS) (best' : Int) (done' : Nat) (s' : SS) :
    Prop :=
  ∃ added, s'.out = added ++ s.out ∧ (∀ e ∈ added, e.isIterEvent = true ∧ e.pvOk = true) ∧ s.tick ≤ s'.tick ∧
    ((depthsOf added = [] ∧ best' = best ∧ done' = done ∧ s'.cand = s.cand) ∨
     (cur ≤ done' ∧ done' ≤ maxDepth ∧ (depthsOf added).reverse = List.range' cur (done' + 1 - cur) ∧
       ∃ nodes', Event.infoDepth done' best' nodes' s'.cand ∈ added))

theorem searchFrame_iter {s s' : SS} (h : SearchFrame s s') :
    ∃ added, s'.out = added ++ s.out ∧ (∀ e ∈ added, e.isIterEvent = true ∧ e.pvOk = true) ∧ depthsOf added = [] := by
  obtain ⟨added, e, hp⟩ := h.out
  exact ⟨added, e, fun e he => ⟨isSearchInfo_isIterEvent (hp e he).1, (hp e he).2⟩,
    depthsOf_searchInfo fun e he => (hp e he).1⟩

theorem deepenLoop_spec (env : Env) (qfuel : Nat) (p : Position) (maxDepth : Nat) :
    ∀ (n cur : Nat) (best : Int) (done len0 : Nat) (s : SS) (best' : Int) (done' : Nat) (s' : SS),
      deepenLoop env qfuel p maxDepth n cur best done len0 s = .ok (best', done', s') →
      DeepenSpec maxDepth cur best done s best' done' s' := by
  intro n
  induction n with
  | zero =>
    intro cur best done len0 s best' done' s' h
    simp only [deepenLoop, pure_ok, Prod.mk.injEq] at h
    obtain ⟨rfl, rfl, rfl⟩ := h
    exact ⟨[], rfl, by simp, Nat.le_refl _, .inl ⟨rfl, rfl, rfl, rfl⟩⟩
  | succ n ih =>
    intro cur best done len0 s best' done' s' h
    rw [deepenLoop_succ_eq] at h
    split at h
    · simp only [pure_ok, Prod.mk.injEq] at h
      obtain ⟨rfl, rfl, rfl⟩ := h
      exact ⟨[], rfl, by simp, Nat.le_refl _, .inl ⟨rfl, rfl, rfl, rfl⟩⟩
    rename_i hcur
    obtain ⟨⟨score, one, l1, s1⟩, hsab, h⟩ := bind_ok.1 h
    have hf := startAlphaBeta_searchFrame hsab
    obtain ⟨added1, e1, p1, d1⟩ := searchFrame_iter hf
    dsimp only at h
    have stopped : DeepenSpec maxDepth cur best done s best done s1.consult :=
      ⟨added1, e1, p1, Nat.le_succ_of_le hf.tick, .inl ⟨d1, rfl, rfl, hf.cand⟩⟩
    split at h
    · simp only [pure_ok, Prod.mk.injEq] at h
      obtain ⟨rfl, rfl, rfl⟩ := h
      exact stopped
    split at h
    · simp only [pure_ok, Prod.mk.injEq] at h
      obtain ⟨rfl, rfl, rfl⟩ := h
      exact stopped
    obtain ⟨s3, hp, h⟩ := bind_ok.1 h
    obtain ⟨hne, rfl⟩ := printInfoAfterDepth_ok hp
    -- the state after the accepted iteration `cur`
    have accepted : ∀ s', s' = ({ copyBestLine s1.consult l1 with
          out := Event.infoDepth cur score (copyBestLine s1.consult l1).nodes (copyBestLine s1.consult l1).cand ::
            (copyBestLine s1.consult l1).out } : SS) →
        ∃ added0, s'.out = added0 ++ s.out ∧ (∀ e ∈ added0, e.isIterEvent = true ∧ e.pvOk = true) ∧
          s.tick ≤ s'.tick ∧ depthsOf added0 = [cur] ∧ ∃ nodes0, Event.infoDepth cur score nodes0 s'.cand ∈ added0 := by
      rintro s' rfl
      refine ⟨Event.infoDepth cur score s1.nodes (rowPrefix s1 0 l1) :: added1, ?_, ?_, Nat.le_succ_of_le hf.tick, ?_, ⟨_, List.mem_cons_self⟩⟩
      · show _ :: s1.out = _
        rw [e1]; rfl
      · intro e he
        rcases List.mem_cons.1 he with rfl | he
        · refine ⟨rfl, ?_⟩
          have : rowPrefix s1 0 l1 ≠ [] := hne
          cases hr : rowPrefix s1 0 l1 with
          | nil => exact absurd hr this
          | cons a t => rfl
        · exact p1 e he
      · show depthsOf ([_] ++ added1) = _
        rw [depthsOf_append, d1]; rfl
    have accepted' : ∀ s', s' = ({ copyBestLine s1.consult l1 with
          out := Event.infoDepth cur score (copyBestLine s1.consult l1).nodes (copyBestLine s1.consult l1).cand ::
            (copyBestLine s1.consult l1).out } : SS) → DeepenSpec maxDepth cur best done s score cur s' := by
      intro s' hs'
      obtain ⟨added0, e0, p0, t0, hd0, hm0⟩ := accepted s' hs'
      refine ⟨added0, e0, p0, t0, .inr ⟨Nat.le_refl _, by omega, ?_, hm0⟩⟩
      have : cur + 1 - cur = 1 := by omega
      rw [hd0, this]; rfl
    split at h
    · simp only [pure_ok, Prod.mk.injEq] at h
      obtain ⟨rfl, rfl, rfl⟩ := h
      exact accepted' _ rfl
    split at h
    · simp only [pure_ok, Prod.mk.injEq] at h
      obtain ⟨rfl, rfl, rfl⟩ := h
      exact accepted' _ rfl
    -- continue with iteration `cur + 1`
    obtain ⟨added0, e0, p0, t0, hd0, nodes0, hm0⟩ := accepted _ rfl
    obtain ⟨added2, e2, p2, t2, r2⟩ := ih _ _ _ _ _ _ _ _ h
    refine ⟨added2 ++ added0, by rw [e2, e0, List.append_assoc], ?_, Nat.le_trans t0 t2, .inr ?_⟩
    · intro e he
      rcases List.mem_append.1 he with he | he
      · exact p2 e he
      · exact p0 e he
    rcases r2 with ⟨hd2, rfl, rfl, hc2⟩ | ⟨hle, hmax, hd2, nodes', hmem⟩
    · refine ⟨Nat.le_refl _, by omega, ?_, ?_⟩
      · rw [depthsOf_append, hd2, hd0]
        have : done' + 1 - done' = 1 := by omega
        rw [this]; rfl
      · exact ⟨nodes0, List.mem_append_right _ (by rw [hc2]; exact hm0)⟩
    · refine ⟨by omega, hmax, ?_, nodes', List.mem_append_left _ hmem⟩
      rw [depthsOf_append, hd0, List.reverse_append, hd2]
      have : done' + 1 - cur = (done' + 1 - (cur + 1)) + 1 := by omega
      rw [this, List.range'_succ]; rfl

/-- the state `iterDeep` starts from -/
def initSS (rows : Array (Array Move)) (killers : Killers) : SS :=
  { rows, killers, nodes := 0, interrupted := false, tick := 0, matched := 0, cand := [],
    rootMoves := [], firstMoveIdx := 0, out := [] }

/-- iterations `2 … maxDepth`, unless iteration 1 was cut short or found a single legal move -/
def deepenFrom (env : Env) (qfuel : Nat) (p : Position) (maxDepth : Nat) (score : Int) (one : Bool) (len0 : Nat)
    (s : SS) : M (Int × Nat × SS) :=
  if !env.timeUp (s.tick - 1) && !s.interrupted && !one then
    deepenLoop env qfuel p maxDepth maxDepth 2 score 1 len0 s
  else pure (score, 1, s)

/-- the final `printInfo` and `bestmove` -/
def announce (s : SS) (best : Int) (done : Nat) : M SS := do
  let s ← printInfo s best done
  match s.cand with
  | m :: _ => pure { s with out := .bestmove m :: s.out }
  | [] => throw (.index "bestLine.moves[0]" 0)

theorem iterDeep_eq (env : Env) (qfuel : Nat) (p : Position) (maxDepth : Nat) (killers : Killers)
    (rows : Array (Array Move)) (len0 : Nat) :
    iterDeep env qfuel p maxDepth killers rows len0 = (do
      let x ← startAlphaBeta env qfuel p 1 len0 (initSS rows killers)
      if (copyBestLine x.2.2.2 x.2.2.1).cand.isEmpty then
        pure { copyBestLine x.2.2.2 x.2.2.1 with out := .bestmoveNone :: .infoTerminal x.1 :: x.2.2.2.out }
      else do
        let y ← deepenFrom env qfuel p maxDepth x.1 x.2.1 x.2.2.1 (copyBestLine x.2.2.2 x.2.2.1).consult
        announce y.2.2 y.1 y.2.1) := by
  unfold iterDeep deepenFrom announce
  dsimp only
  congr 1; funext x
  obtain ⟨score, one, l, s1⟩ := x
  dsimp only
  split
  · rfl
  · split <;> rfl

theorem deepenFrom_spec {env qfuel p maxDepth score one len0 s best done s'}
    (h : deepenFrom env qfuel p maxDepth score one len0 s = .ok (best, done, s')) :
    DeepenSpec maxDepth 2 score 1 s best done s' := by
  unfold deepenFrom at h
  split at h
  · exact deepenLoop_spec _ _ _ _ _ _ _ _ _ _ _ _ _ h
  · simp only [pure_ok, Prod.mk.injEq] at h
    obtain ⟨rfl, rfl, rfl⟩ := h
    exact ⟨[], rfl, by simp, Nat.le_refl _, .inl ⟨rfl, rfl, rfl, rfl⟩⟩

theorem announce_ok {s best done s'} (h : announce s best done = .ok s') :
    ∃ m tl, s.cand = m :: tl ∧ s' = { s with out := .bestmove m :: .infoPv best done s.nodes s.cand :: s.out } := by
  unfold announce at h
  obtain ⟨s2, hp, h⟩ := bind_ok.1 h
  obtain ⟨_, rfl⟩ := printInfo_ok hp
  dsimp only at h
  split at h
  · rename_i m tl hc
    simp only [pure_ok] at h
    exact ⟨m, tl, hc, h.symm⟩
  · exact absurd h (by simp [throw_ok])

/-- Anatomy of a successful `iterDeep` run. -/
theorem iterDeep_cases {env qfuel p maxDepth killers rows len0 s}
    (h : iterDeep env qfuel p maxDepth killers rows len0 = .ok s) :
    ∃ score one l s1, startAlphaBeta env qfuel p 1 len0 (initSS rows killers) = .ok (score, one, l, s1) ∧
      ((rowPrefix s1 0 l = [] ∧
          s = { copyBestLine s1 l with out := .bestmoveNone :: .infoTerminal score :: s1.out }) ∨
       (rowPrefix s1 0 l ≠ [] ∧ ∃ best done s2 m tl,
          deepenFrom env qfuel p maxDepth score one l (copyBestLine s1 l).consult = .ok (best, done, s2) ∧
          s2.cand = m :: tl ∧
          s = { s2 with out := .bestmove m :: .infoPv best done s2.nodes s2.cand :: s2.out })) := by
  rw [iterDeep_eq] at h
  obtain ⟨⟨score, one, l, s1⟩, hsab, h⟩ := bind_ok.1 h
  refine ⟨score, one, l, s1, hsab, ?_⟩
  dsimp only at h
  split at h
  · rename_i hemp
    simp only [pure_ok] at h
    exact .inl ⟨List.isEmpty_iff.1 hemp, h.symm⟩
  · rename_i hne
    obtain ⟨⟨best, done, s2⟩, hd, h⟩ := bind_ok.1 h
    obtain ⟨m, tl, hc, rfl⟩ := announce_ok h
    exact .inr ⟨fun h0 => hne (List.isEmpty_iff.2 h0), best, done, s2, m, tl, hd, hc, rfl⟩

/-- The complete output of a successful `iterDeep` run. -/
theorem iterDeep_shape {env qfuel p maxDepth killers rows len0 s}
    (h : iterDeep env qfuel p maxDepth killers rows len0 = .ok s) :
    ∃ score one l s1 added1,
      startAlphaBeta env qfuel p 1 len0 (initSS rows killers) = .ok (score, one, l, s1) ∧
      s1.out = added1 ∧ (∀ e ∈ added1, e.isSearchInfo = true ∧ e.pvOk = true) ∧
      ((rowPrefix s1 0 l = [] ∧ s.out = .bestmoveNone :: .infoTerminal score :: added1 ∧ s.cand = []) ∨
       (rowPrefix s1 0 l ≠ [] ∧ ∃ best done nodes added m tl,
          s.cand = m :: tl ∧
          s.out = .bestmove m :: .infoPv best done nodes (m :: tl) :: (added ++ added1) ∧
          (∀ e ∈ added, e.isIterEvent = true ∧ e.pvOk = true) ∧
          ((depthsOf added = [] ∧ done = 1 ∧ best = score ∧ m :: tl = rowPrefix s1 0 l) ∨
           (2 ≤ done ∧ done ≤ maxDepth ∧ (depthsOf added).reverse = List.range' 2 (done - 1) ∧
              ∃ nodes', Event.infoDepth done best nodes' (m :: tl) ∈ added)))) := by
  obtain ⟨score, one, l, s1, hsab, hc⟩ := iterDeep_cases h
  have hf := startAlphaBeta_searchFrame hsab
  obtain ⟨added1, e1, p1⟩ := hf.out
  have e1' : s1.out = added1 := by rw [e1]; exact List.append_nil _
  refine ⟨score, one, l, s1, added1, hsab, e1', p1, ?_⟩
  rcases hc with ⟨hemp, rfl⟩ | ⟨hne, best, done, s2, m, tl, hd, hcand, rfl⟩
  · refine .inl ⟨hemp, ?_, hemp⟩
    show _ :: _ :: s1.out = _
    rw [e1']
  · obtain ⟨added, e2, p2, _, r2⟩ := deepenFrom_spec hd
    refine .inr ⟨hne, best, done, s2.nodes, added, m, tl, hcand, ?_, p2, ?_⟩
    · show _ :: _ :: s2.out = _
      rw [e2, hcand]
      show _ :: _ :: (added ++ s1.out) = _
      rw [e1']
    · rcases r2 with ⟨hd0, rfl, rfl, hc2⟩ | ⟨h2, hmax, hdep, nodes', hmem⟩
      · refine .inl ⟨hd0, rfl, rfl, ?_⟩
        rw [← hcand, hc2]; rfl
      · refine .inr ⟨h2, hmax, ?_, nodes', by rw [← hcand]; exact hmem⟩
        have : done + 1 - 2 = done - 1 := by omega
        rw [hdep, this]

/-- why deepening may end below `maxDepth` although nothing interrupted it: the accepted iteration `done` reported a
    forced mate in exactly `done` plies, or found a single legal root move (`one = true`) -/
def StopReason (env : Env) (qfuel : Nat) (p : Position) (best : Int) (done : Nat) : Prop :=
  pliesToMate best = done ∨
  ∃ len sb len' sa, startAlphaBeta env qfuel p done len sb = .ok (best, true, len', sa)

theorem deepenLoop_quiet {env : Env} (hq : env.Quiet) (qfuel : Nat) (p : Position) (maxDepth : Nat) :
    ∀ (n cur : Nat) (best : Int) (done len0 : Nat) (s : SS) (best' : Int) (done' : Nat) (s' : SS),
      s.interrupted = false → maxDepth + 1 - cur ≤ n →
      deepenLoop env qfuel p maxDepth n cur best done len0 s = .ok (best', done', s') →
      s'.interrupted = false ∧
      ((maxDepth < cur ∧ best' = best ∧ done' = done) ∨
       (cur ≤ done' ∧ (done' = maxDepth ∨ StopReason env qfuel p best' done'))) := by
  intro n
  induction n with
  | zero =>
    intro cur best done len0 s best' done' s' hi hn h
    simp only [deepenLoop, pure_ok, Prod.mk.injEq] at h
    obtain ⟨rfl, rfl, rfl⟩ := h
    exact ⟨hi, .inl ⟨by omega, rfl, rfl⟩⟩
  | succ n ih =>
    intro cur best done len0 s best' done' s' hi hn h
    rw [deepenLoop_succ_eq] at h
    split at h
    · rename_i hcur
      simp only [pure_ok, Prod.mk.injEq] at h
      obtain ⟨rfl, rfl, rfl⟩ := h
      exact ⟨hi, .inl ⟨hcur, rfl, rfl⟩⟩
    rename_i hcur
    obtain ⟨⟨score, one, l1, s1⟩, hsab, h⟩ := bind_ok.1 h
    have hi1 : s1.interrupted = false := startAlphaBeta_quiet (fun n => (hq n).2) hsab hi
    dsimp only at h
    rw [(hq _).1] at h
    have hi1' : s1.consult.interrupted = false := hi1
    rw [hi1'] at h
    simp only [Bool.false_eq_true, if_false] at h
    obtain ⟨s3, hp, h⟩ := bind_ok.1 h
    obtain ⟨_, rfl⟩ := printInfoAfterDepth_ok hp
    split at h
    · rename_i hmate
      simp only [pure_ok, Prod.mk.injEq] at h
      obtain ⟨rfl, rfl, rfl⟩ := h
      exact ⟨hi1, .inr ⟨Nat.le_refl _, .inr (.inl (by simpa using hmate))⟩⟩
    split at h
    · rename_i hone
      simp only [pure_ok, Prod.mk.injEq] at h
      obtain ⟨rfl, rfl, rfl⟩ := h
      subst hone
      exact ⟨hi1, .inr ⟨Nat.le_refl _, .inr (.inr ⟨_, _, _, _, hsab⟩)⟩⟩
    have hih := fun a b => ih (cur + 1) _ _ _ _ _ _ _ a b h
    obtain ⟨hi', r⟩ := hih hi1 (by omega)
    refine ⟨hi', .inr ?_⟩
    rcases r with ⟨hlt, rfl, rfl⟩ | ⟨hle, hr⟩
    · exact ⟨Nat.le_refl _, .inl (by omega)⟩
    · exact ⟨by omega, hr⟩

/-- an iteration that ends with the clock run out or the interrupt flag set is discarded -/
theorem deepenLoop_discard {env qfuel p maxDepth n cur best done len0 s score one len1 s1}
    (hcur : cur ≤ maxDepth)
    (hsab : startAlphaBeta env qfuel p cur len0 s = .ok (score, one, len1, s1))
    (hstop : env.timeUp s1.tick = true ∨ s1.interrupted = true) :
    deepenLoop env qfuel p maxDepth (n + 1) cur best done len0 s = .ok (best, done, s1.consult) := by
  rw [deepenLoop_succ_eq, if_neg (by omega), hsab]
  show (if env.timeUp (s1.tick + 1 - 1) = true then _ else _) = _
  rw [Nat.add_sub_cancel]
  rcases hstop with ht | hi
  · rw [if_pos ht]; rfl
  · split
    · rfl
    · have : s1.consult.interrupted = true := hi
      rw [if_pos this]; rfl

/-- Under a quiet oracle the only reasons for `iterDeep` to stop below `maxDepth`: a mate score at an iteration
    `done ≥ 2` (`pliesToMate best = done`), or a single legal root move reported by iteration `done`. -/
theorem iterDeep_quiet_stop {env qfuel p maxDepth killers rows len0 s} (hq : env.Quiet)
    (h : iterDeep env qfuel p maxDepth killers rows len0 = .ok s)
    {m best done nodes pv rest} (hout : s.out = .bestmove m :: .infoPv best done nodes pv :: rest)
    (hlt : done < maxDepth) :
    (2 ≤ done ∧ pliesToMate best = done) ∨
    ∃ len sb len' sa, startAlphaBeta env qfuel p done len sb = .ok (best, true, len', sa) := by
  obtain ⟨score, one, l, s1, hsab, hc⟩ := iterDeep_cases h
  rcases hc with ⟨_, rfl⟩ | ⟨_, best', done', s2, m', tl, hd, _, rfl⟩
  · cases hout
  simp only [List.cons.injEq, Event.bestmove.injEq, Event.infoPv.injEq] at hout
  obtain ⟨rfl, ⟨rfl, rfl, rfl, rfl⟩, rfl⟩ := hout
  have hi1 : s1.interrupted = false := startAlphaBeta_quiet (fun n => (hq n).2) hsab rfl
  unfold deepenFrom at hd
  rw [(hq _).1] at hd
  have hi1' : (copyBestLine s1 l).consult.interrupted = false := hi1
  rw [hi1'] at hd
  simp only [Bool.not_false, Bool.true_and] at hd
  cases one with
  | true =>
    simp only [Bool.not_true, Bool.false_eq_true, if_false, pure_ok, Prod.mk.injEq] at hd
    obtain ⟨rfl, rfl, rfl⟩ := hd
    exact .inr ⟨_, _, _, _, hsab⟩
  | false =>
    simp only [Bool.not_false, if_true] at hd
    obtain ⟨_, r⟩ := deepenLoop_quiet hq qfuel p maxDepth _ _ _ _ _ _ _ _ _ hi1' (by omega) hd
    rcases r with ⟨h2, _, rfl⟩ | ⟨h2, rfl | hm | hone⟩
    · omega
    · omega
    · exact .inl ⟨h2, hm⟩
    · exact .inr hone

end Magog.Model
