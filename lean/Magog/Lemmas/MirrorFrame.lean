import Magog.Lemmas.MirrorMove

/-! C15 helpers, part 7: what the stages of `makeMove` leave untouched (frame facts), as needed to
    re-establish the hypotheses of `isUnderCheck_mirror` on the position after the move. -/

namespace Magog.Mir
open Magog Magog.Model Magog.Count Magog.Geo Magog.Atk

theorem set_cell {b : Array Nat} {i v a x : Nat} (h : (b.setIfInBounds i v)[a]? = some x) :
    (a = i ∧ x = v) ∨ b[a]? = some x := by
  rw [Array.getElem?_setIfInBounds] at h
  by_cases hia : i = a
  · subst hia
    simp only [if_true] at h
    split at h
    · left; exact ⟨rfl, (Option.some.inj h).symm⟩
    · cases h
  · simp only [hia, if_false] at h
    right; exact h

/-- the castling shapes `mmMover` recognises -/
def shapeQ (cur : Side) (m : Move) : Prop := m.frm = cur.king ∧ fileOf m.frm = Gen.E ∧ fileOf m.to = Gen.C
def shapeK (cur : Side) (m : Move) : Prop := m.frm = cur.king ∧ fileOf m.frm = Gen.E ∧ fileOf m.to = Gen.G

theorem mmMover_frame {b : Array Nat} {f : Nat} {cur : Side} {m : Move} {cc cr ck cq : Nat}
    {b1 : Array Nat} {f1 : Nat} {c1 : Side} (h : mmMover b f cur m cc cr ck cq = .ok (b1, f1, c1)) :
    b1.size = b.size ∧ (f1 = f ∨ f1 = clearBits f (ck ||| cq)) ∧
    (c1.king = cur.king ∨ (m.frm = cur.king ∧ c1.king = m.to)) ∧
    ∀ a x, b1[a]? = some x → b[a]? = some x ∨
      (shapeQ cur m ∧ ((a = (Gen.A + cr) % 256 ∧ x = 0) ∨ (a = (Gen.D + cr) % 256 ∧ x = Rook ||| cc))) ∨
      (shapeK cur m ∧ ((a = (Gen.H + cr) % 256 ∧ x = 0) ∨ (a = (Gen.F + cr) % 256 ∧ x = Rook ||| cc))) := by
  unfold mmMover at h
  simp only [bind_ok] at h
  obtain ⟨fp, _, h⟩ := h
  split at h
  · split at h
    · simp only [pure_eq_ok, Except.ok.injEq, Prod.mk.injEq] at h
      obtain ⟨rfl, rfl, rfl⟩ := h
      exact ⟨rfl, .inl rfl, .inl rfl, fun a x hx => .inl hx⟩
    · split at h
      · simp only [bind_ok, pure_eq_ok, Except.ok.injEq, Prod.mk.injEq] at h
        obtain ⟨pcs, _, rfl, rfl, rfl⟩ := h
        exact ⟨rfl, .inl rfl, .inl rfl, fun a x hx => .inl hx⟩
      · simp only [pure_eq_ok, Except.ok.injEq, Prod.mk.injEq] at h
        obtain ⟨rfl, rfl, rfl⟩ := h
        exact ⟨rfl, .inl rfl, .inl rfl, fun a x hx => .inl hx⟩
  · split at h
    · rename_i hk
      have hk' : m.frm = cur.king := by simpa using hk
      split at h
      · rename_i hE
        have hE' : fileOf m.frm = Gen.E := by simpa using hE
        split at h
        · rename_i hC
          have hC' : fileOf m.to = Gen.C := by simpa using hC
          simp only [bind_ok, pure_eq_ok, Except.ok.injEq, Prod.mk.injEq, bset_ok_iff] at h
          obtain ⟨b', ⟨_, rfl⟩, b'', ⟨_, rfl⟩, rfl, rfl, rfl⟩ := h
          refine ⟨by simp, .inr rfl, .inr ⟨hk', rfl⟩, fun a x hx => ?_⟩
          rcases set_cell hx with ⟨rfl, rfl⟩ | hx
          · exact .inr (.inl ⟨⟨hk', hE', hC'⟩, .inr ⟨rfl, rfl⟩⟩)
          · rcases set_cell hx with ⟨rfl, rfl⟩ | hx
            · exact .inr (.inl ⟨⟨hk', hE', hC'⟩, .inl ⟨rfl, rfl⟩⟩)
            · exact .inl hx
        · split at h
          · rename_i hG
            have hG' : fileOf m.to = Gen.G := by simpa using hG
            simp only [bind_ok, pure_eq_ok, Except.ok.injEq, Prod.mk.injEq, bset_ok_iff] at h
            obtain ⟨b', ⟨_, rfl⟩, b'', ⟨_, rfl⟩, rfl, rfl, rfl⟩ := h
            refine ⟨by simp, .inr rfl, .inr ⟨hk', rfl⟩, fun a x hx => ?_⟩
            rcases set_cell hx with ⟨rfl, rfl⟩ | hx
            · exact .inr (.inr ⟨⟨hk', hE', hG'⟩, .inr ⟨rfl, rfl⟩⟩)
            · rcases set_cell hx with ⟨rfl, rfl⟩ | hx
              · exact .inr (.inr ⟨⟨hk', hE', hG'⟩, .inl ⟨rfl, rfl⟩⟩)
              · exact .inl hx
          · simp only [pure_eq_ok, Except.ok.injEq, Prod.mk.injEq] at h
            obtain ⟨rfl, rfl, rfl⟩ := h
            exact ⟨rfl, .inr rfl, .inr ⟨hk', rfl⟩, fun a x hx => .inl hx⟩
      · simp only [pure_eq_ok, Except.ok.injEq, Prod.mk.injEq] at h
        obtain ⟨rfl, rfl, rfl⟩ := h
        exact ⟨rfl, .inr rfl, .inr ⟨hk', rfl⟩, fun a x hx => .inl hx⟩
    · simp only [pure_eq_ok, Except.ok.injEq, Prod.mk.injEq] at h
      obtain ⟨rfl, rfl, rfl⟩ := h
      exact ⟨rfl, .inl rfl, .inl rfl, fun a x hx => .inl hx⟩

theorem mmCapture_frame {b : Array Nat} {en en1 : Side} {m : Move} {ec : Nat}
    (h : mmCapture b en m ec = .ok en1) :
    en1.king = en.king ∧ (∀ s ∈ en1.pawns, s ∈ en.pawns) ∧ (∀ s ∈ en1.pieces, s ∈ en.pieces) := by
  unfold mmCapture at h
  simp only [bind_ok] at h
  obtain ⟨tg, _, h⟩ := h
  split at h
  · split at h
    · split at h
      · simp only [bind_ok, pure_eq_ok, Except.ok.injEq] at h
        obtain ⟨pw, hk, rfl⟩ := h
        exact ⟨rfl, kill_subset hk, fun s hs => hs⟩
      · simp only [bind_ok, pure_eq_ok, Except.ok.injEq] at h
        obtain ⟨pc, hk, rfl⟩ := h
        exact ⟨rfl, fun s hs => hs, kill_subset hk⟩
    · simp only [pure_eq_ok, Except.ok.injEq] at h
      subst h; exact ⟨rfl, fun s hs => hs, fun s hs => hs⟩
  · simp only [pure_eq_ok, Except.ok.injEq] at h
    subst h; exact ⟨rfl, fun s hs => hs, fun s hs => hs⟩

/-- a captured officer leaves the (duplicate-free) piece list -/
theorem mmCapture_to_not_mem {b : Array Nat} {en en1 : Side} {m : Move} {ec t : Nat}
    (hnd : en.pieces.Nodup) (ht : b[m.to]? = some t) (h0 : t ≠ 0) (hK : t ≠ King ||| ec)
    (hP : t ≠ Pawn ||| ec) (h : mmCapture b en m ec = .ok en1) : m.to ∉ en1.pieces := by
  unfold mmCapture at h
  rw [bget_eq, ht] at h
  have e0 : (t != 0) = true := by simpa using h0
  have eK : (t != (King ||| ec)) = true := by simpa using hK
  have eP : (t == (Pawn ||| ec)) = false := by simpa using hP
  simp only [ok_bind, e0, eK, eP, if_true, Bool.false_eq_true, if_false, bind_ok, pure_eq_ok,
    Except.ok.injEq] at h
  obtain ⟨pcs, hkill, rfl⟩ := h
  exact kill_not_mem hnd hkill

theorem mmBoard_frame {b1 : Array Nat} {en1 : Side} {m : Move} {ep cc : Nat} {b2 : Array Nat} {en2 : Side}
    (h : mmBoard b1 en1 m ep cc = .ok (b2, en2)) :
    b2.size = b1.size ∧ en2.king = en1.king ∧ en2.pieces = en1.pieces ∧ (∀ s ∈ en2.pawns, s ∈ en1.pawns) ∧
    ∀ a x, b2[a]? = some x → b1[a]? = some x ∨
      (a = m.to ∧ (b1[m.frm]? = some x ∨ x = m.promo ||| cc)) ∨ (x = 0 ∧ (a = m.frm ∨ a ∈ en1.pawns)) := by
  unfold mmBoard at h
  split at h
  · simp only [bind_ok] at h
    obtain ⟨fp, hfp, b', hb', h⟩ := h
    obtain ⟨_, rfl⟩ := bset_ok_iff.1 hb'
    have hfp' := bget_ok_iff.1 hfp
    split at h
    · simp only [bind_ok, pure_eq_ok, Except.ok.injEq, Prod.mk.injEq, bset_ok_iff] at h
      obtain ⟨pw, hkill, b'', ⟨_, rfl⟩, b3, ⟨_, rfl⟩, rfl, rfl⟩ := h
      have hin : (fileOf m.to + rankOf m.frm) % 256 ∈ en1.pawns := by
        unfold kill at hkill
        split at hkill
        · rename_i i hi
          obtain ⟨hil, hli, _⟩ := List.idxOf?_eq_some_iff.1 hi
          rw [← hli]; exact List.getElem_mem hil
        · simp [throw_eq_error] at hkill
      refine ⟨by simp, rfl, rfl, kill_subset hkill, fun a x hx => ?_⟩
      rcases set_cell hx with ⟨rfl, rfl⟩ | hx
      · exact .inr (.inr ⟨rfl, .inl rfl⟩)
      · rcases set_cell hx with ⟨rfl, rfl⟩ | hx
        · exact .inr (.inr ⟨rfl, .inr hin⟩)
        · rcases set_cell hx with ⟨rfl, rfl⟩ | hx
          · exact .inr (.inl ⟨rfl, .inl hfp'⟩)
          · exact .inl hx
    · simp only [bind_ok, pure_eq_ok, Except.ok.injEq, Prod.mk.injEq, bset_ok_iff] at h
      obtain ⟨b'', ⟨_, rfl⟩, rfl, rfl⟩ := h
      refine ⟨by simp, rfl, rfl, fun s hs => hs, fun a x hx => ?_⟩
      rcases set_cell hx with ⟨rfl, rfl⟩ | hx
      · exact .inr (.inr ⟨rfl, .inl rfl⟩)
      · rcases set_cell hx with ⟨rfl, rfl⟩ | hx
        · exact .inr (.inl ⟨rfl, .inl hfp'⟩)
        · exact .inl hx
  · simp only [bind_ok, pure_eq_ok, Except.ok.injEq, Prod.mk.injEq, bset_ok_iff] at h
    obtain ⟨b', ⟨_, rfl⟩, b'', ⟨_, rfl⟩, rfl, rfl⟩ := h
    refine ⟨by simp, rfl, rfl, fun s hs => hs, fun a x hx => ?_⟩
    rcases set_cell hx with ⟨rfl, rfl⟩ | hx
    · exact .inr (.inr ⟨rfl, .inl rfl⟩)
    · rcases set_cell hx with ⟨rfl, rfl⟩ | hx
      · exact .inr (.inl ⟨rfl, .inr rfl⟩)
      · exact .inl hx

end Magog.Mir
