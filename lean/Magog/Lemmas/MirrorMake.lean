import Magog.Lemmas.MirrorFrame

/-! C15 helpers, part 8: `makeMove` commutes with the colour flip. -/

namespace Magog.Mir
open Magog Magog.Model Magog.Count Magog.Geo Magog.Atk

/-- what a move must satisfy (relative to the mover's colour `w`) for `makeMove` to commute with the
    colour flip: the moved man is the mover's; a promotion piece is a bare kind; a king move lands on a
    board square; a castling-shaped king move does not wipe the enemy king off the rook's corner. -/
structure MoveOkW (w : Bool) (p : Position) (m : Move) : Prop where
  own : ∃ c, p.board[m.frm]? = some c ∧ c &&& colBit w ≠ 0 ∧ c &&& colBit (!w) = 0
  promo : m.promo < 64
  kingTo : m.frm = (p.side w).king → m.to ∈ sq88
  cornerQ : shapeQ (p.side w) m → (p.side (!w)).king ≠ (Gen.A + homeRank w) % 256
  cornerK : shapeK (p.side w) m → (p.side (!w)).king ≠ (Gen.H + homeRank w) % 256

def MoveOk (p : Position) (m : Move) : Prop := MoveOkW (whiteTurn p) p m

def mirrorRes (r : Position × Bool) : Position × Bool := (mirror r.1, r.2)

theorem officer_fin (w : Bool) : ∀ c ∈ officersOf w,
    c &&& Pawn = 0 ∧ c ≠ 0 ∧ c ≠ King ||| colBit w ∧ c ≠ Pawn ||| colBit w ∧ c < 256 := by
  cases w <;> decide

theorem rookc_fin (w : Bool) :
    (Rook ||| colBit w) &&& Pawn = 0 ∧ oneColour (Rook ||| colBit w) = true ∧ Rook ||| colBit w < 256 ∧
    oneColour (kingOf w) = true ∧ kingOf (!w) &&& colBit w = 0 ∧ pawnOf w ≠ kingOf w ∧
    fileOf ((Gen.A + homeRank w) % 256) = Gen.A ∧ fileOf ((Gen.D + homeRank w) % 256) = Gen.D ∧
    fileOf ((Gen.H + homeRank w) % 256) = Gen.H ∧ fileOf ((Gen.F + homeRank w) % 256) = Gen.F := by
  cases w <;> decide

theorem own_fin : ∀ c < 256, ∀ w : Bool, c &&& colBit w ≠ 0 → c &&& colBit (!w) = 0 → oneColour c = true := by
  decide +kernel

/-- the hypotheses of `isUnderCheck_mirror` hold on the board after the move -/
theorem afterMove_hyps (w : Bool) {p : Position} {m : Move} (h : MirrorOk p) (hm : MoveOkW w p m)
    {b1 : Array Nat} {f1 : Nat} {c1 : Side} {en1 : Side} {b2 : Array Nat} {en2 : Side}
    (h1 : mmMover p.board p.flags (p.side w) m (colBit w) (homeRank w) (flagK w) (flagQ w) = .ok (b1, f1, c1))
    (h2 : mmCapture b1 (p.side (!w)) m (colBit (!w)) = .ok en1)
    (h3 : mmBoard b1 en1 m p.ep (colBit w) = .ok (b2, en2)) :
    b2.size = 128 ∧ (∀ (i x : Nat), b2[i]? = some x → x < 256) ∧ (∀ a ∈ en2.pawns, a ∈ sq88) ∧
    (∀ a ∈ en2.pieces, a ∈ sq88 ∧ ∀ x, b2[a]? = some x → x &&& Pawn = 0) ∧ en2.king ∈ sq88 ∧
    (∀ x, b2[en2.king]? = some x → oneColour x = true) ∧ c1.king ∈ sq88 := by
  obtain ⟨hsz1, _, hk1, hcell1⟩ := mmMover_frame h1
  obtain ⟨hk2, hpw2, hpc2⟩ := mmCapture_frame h2
  obtain ⟨hsz3, hk3, hpc3, hpw3, hcell3⟩ := mmBoard_frame h3
  obtain ⟨rP, rO, rL, kO, kC, pk, fA, fD, fH, fF⟩ := rookc_fin w
  have hen := h.side (!w)
  have hcur := h.side w
  obtain ⟨c, hc, hcw, hce⟩ := hm.own
  have hc256 := h.bytes _ _ hc
  have hcone := own_fin c hc256 w hcw hce
  have hfrm128 : m.frm < 128 := by
    have := (Array.getElem?_eq_some_iff.1 hc).1
    rw [h.size] at this; exact this
  -- the moved man as seen after `mmMover`
  have hfp : ∀ x, b1[m.frm]? = some x → x = c := by
    intro x hx
    rcases hcell1 _ _ hx with h0 | ⟨⟨_, hE, _⟩, hh⟩ | ⟨⟨_, hE, _⟩, hh⟩
    · rw [hc] at h0; exact (Option.some.inj h0).symm
    · rcases hh with ⟨ha, _⟩ | ⟨ha, _⟩
      · rw [ha, fA] at hE; exact absurd hE (by decide)
      · rw [ha, fD] at hE; exact absurd hE (by decide)
    · rcases hh with ⟨ha, _⟩ | ⟨ha, _⟩
      · rw [ha, fH] at hE; exact absurd hE (by decide)
      · rw [ha, fF] at hE; exact absurd hE (by decide)
  have hbytes1 : ∀ (i x : Nat), b1[i]? = some x → x < 256 := by
    intro i x hx
    rcases hcell1 _ _ hx with h0 | ⟨_, hh⟩ | ⟨_, hh⟩
    · exact h.bytes _ _ h0
    · rcases hh with ⟨_, rfl⟩ | ⟨_, rfl⟩
      · decide
      · exact rL
    · rcases hh with ⟨_, rfl⟩ | ⟨_, rfl⟩
      · decide
      · exact rL
  have hking : en2.king = (p.side (!w)).king := by rw [hk3, hk2]
  refine ⟨by rw [hsz3, hsz1, h.size], ?_, ?_, ?_, ?_, ?_, ?_⟩
  · intro i x hx
    rcases hcell3 _ _ hx with h0 | ⟨_, h0 | rfl⟩ | ⟨rfl, _⟩
    · exact hbytes1 _ _ h0
    · exact hbytes1 _ _ h0
    · exact (promo_fin _ hm.promo w).2.1
    · decide
  · intro a ha
    exact (hen.pawns a (hpw2 a (hpw3 a ha))).1
  · intro a ha
    rw [hpc3] at ha
    obtain ⟨ha88, co, hco, hbo⟩ := hen.pieces a (hpc2 a ha)
    obtain ⟨o1, o2, o3, o4, o5⟩ := officer_fin (!w) co hco
    refine ⟨ha88, fun x hx => ?_⟩
    -- the cell after `mmMover`
    have hb1cell : ∀ y, b1[a]? = some y → y &&& Pawn = 0 := by
      intro y hy
      rcases hcell1 _ _ hy with h0 | ⟨_, hh⟩ | ⟨_, hh⟩
      · rw [hbo] at h0; rw [← Option.some.inj h0]; exact o1
      · rcases hh with ⟨_, rfl⟩ | ⟨_, rfl⟩
        · decide
        · exact rP
      · rcases hh with ⟨_, rfl⟩ | ⟨_, rfl⟩
        · decide
        · exact rP
    rcases hcell3 _ _ hx with h0 | ⟨rfl, _⟩ | ⟨rfl, _⟩
    · exact hb1cell _ h0
    · -- the destination holds an enemy officer: it was removed from the list
      exfalso
      have hto128 : m.to < b1.size := by rw [hsz1, h.size]; exact (mem_sq88.1 ha88).1
      have hb1to : b1[m.to]? = some b1[m.to] := Array.getElem?_eq_getElem hto128
      have : b1[m.to] = co := by
        rcases hcell1 _ _ hb1to with h0 | ⟨⟨_, _, hC⟩, hh⟩ | ⟨⟨_, _, hG⟩, hh⟩
        · rw [hbo] at h0; exact (Option.some.inj h0).symm
        · rcases hh with ⟨ha', _⟩ | ⟨ha', _⟩
          · rw [ha', fA] at hC; exact absurd hC (by decide)
          · rw [ha', fD] at hC; exact absurd hC (by decide)
        · rcases hh with ⟨ha', _⟩ | ⟨ha', _⟩
          · rw [ha', fH] at hG; exact absurd hG (by decide)
          · rw [ha', fF] at hG; exact absurd hG (by decide)
      rw [this] at hb1to
      exact mmCapture_to_not_mem hen.nodup hb1to o2 o3 o4 h2 ha
    · decide
  · rw [hking]; exact hen.king.1
  · intro x hx
    rw [hking] at hx
    obtain ⟨hk88, hkb⟩ := hen.king
    have hk_ne_frm : (p.side (!w)).king ≠ m.frm := by
      intro he
      rw [he, hc] at hkb
      have : c = kingOf (!w) := Option.some.inj hkb
      rw [this] at hcw
      exact hcw kC
    have hb1k : ∀ y, b1[(p.side (!w)).king]? = some y → oneColour y = true := by
      intro y hy
      rcases hcell1 _ _ hy with h0 | ⟨hs, hh⟩ | ⟨hs, hh⟩
      · rw [hkb] at h0; rw [← Option.some.inj h0]
        have := (rookc_fin (!w)).2.2.2.1
        exact this
      · rcases hh with ⟨ha', _⟩ | ⟨_, rfl⟩
        · exact absurd ha' (hm.cornerQ hs)
        · exact rO
      · rcases hh with ⟨ha', _⟩ | ⟨_, rfl⟩
        · exact absurd ha' (hm.cornerK hs)
        · exact rO
    rcases hcell3 _ _ hx with h0 | ⟨_, h0 | rfl⟩ | ⟨rfl, h0 | h0⟩
    · exact hb1k _ h0
    · rw [hfp _ h0]; exact hcone
    · exact (promo_fin _ hm.promo w).2.2
    · exact absurd h0 hk_ne_frm
    · exfalso
      obtain ⟨_, hpb⟩ := hen.pawns _ (hpw2 _ h0)
      rw [hkb] at hpb
      exact (rookc_fin (!w)).2.2.2.2.2.1 (Option.some.inj hpb).symm
  · rcases hk1 with hk | ⟨hk, hk'⟩
    · rw [hk]; exact hcur.king.1
    · rw [hk']; exact hm.kingTo hk

theorem makeMoveW_mirror (w : Bool) {p : Position} {m : Move} (h : MirrorOk p) (hm : MoveOkW w p m) :
    okVal (makeMoveW (!w) (mirror p) (mirrorMove m)) = (okVal (makeMoveW w p m)).map mirrorRes := by
  unfold makeMoveW
  simp only [okVal_bind, side_mirror, Bool.not_not]
  have e1 := mmMover_mirror w h.size h.bytes h.flags (p.side w) m
  have e1' : okVal (mmMover (mirror p).board (mirror p).flags (mirrorSide (p.side w)) (mirrorMove m) (colBit (!w))
        (homeRank (!w)) (flagK (!w)) (flagQ (!w))) = _ := e1
  rw [e1']
  cases h1 : mmMover p.board p.flags (p.side w) m (colBit w) (homeRank w) (flagK w) (flagQ w) with
  | error e => rfl
  | ok r1 =>
    obtain ⟨b1, f1, c1⟩ := r1
    simp only [okVal_ok, Option.map_some, Option.bind_some, mirror3]
    obtain ⟨hsz1, hf1, _, hcell1⟩ := mmMover_frame h1
    have hb1 : b1.size = 128 := by rw [hsz1, h.size]
    have hbytes1 : ∀ (i x : Nat), b1[i]? = some x → x < 256 := by
      intro i x hx
      rcases hcell1 _ _ hx with h0 | ⟨_, hh⟩ | ⟨_, hh⟩
      · exact h.bytes _ _ h0
      · rcases hh with ⟨_, rfl⟩ | ⟨_, rfl⟩
        · decide
        · exact (rookc_fin w).2.2.1
      · rcases hh with ⟨_, rfl⟩ | ⟨_, rfl⟩
        · decide
        · exact (rookc_fin w).2.2.1
    have hf1lt : f1 < 256 := by
      rcases hf1 with rfl | rfl
      · exact h.flags
      · have := flagK_lt w; have := flagQ_lt w
        exact clearBits_lt _ (Nat.or_lt_two_pow (n := 8) (flagK_lt w) (flagQ_lt w))
    have e2 := mmCapture_mirror (!w) hb1 hbytes1 (p.side (!w)) m
    simp only [Bool.not_not] at e2
    rw [e2]
    cases h2 : mmCapture b1 (p.side (!w)) m (colBit (!w)) with
    | error e => rfl
    | ok en1 =>
      simp only [okVal_ok, Option.map_some, Option.bind_some]
      have e3 := mmBoard_mirror w hb1 hbytes1 en1 hm.promo h.epValid
      have e3' : okVal (mmBoard (mirrorBoard b1) (mirrorSide en1) (mirrorMove m) (mirror p).ep (colBit (!w))) = _ := e3
      rw [e3']
      cases h3 : mmBoard b1 en1 m p.ep (colBit w) with
      | error e => rfl
      | ok r3 =>
        obtain ⟨b2, en2⟩ := r3
        simp only [okVal_ok, Option.map_some, Option.bind_some, mirror2]
        obtain ⟨g1, g2, g3, g4, g5, g6, g7⟩ := afterMove_hyps w h hm h1 h2 h3
        have e4 := isUnderCheck_mirror g1 g2 g3 g4 g5 g6 g7
        have e4' : isUnderCheck (mirrorBoard b2) (mirrorSide en2) (mirrorSide c1).king = _ := e4
        rw [e4']
        cases h4 : isUnderCheck b2 en2 c1.king with
        | error e => rfl
        | ok chk =>
          simp only [okVal_ok, Option.bind_some, okVal_pure, Option.map_some, mirrorRes, Option.some.injEq,
            Prod.mk.injEq, and_true]
          have hfl : mmCorners (mirrorFlags f1) (mirrorMove m) (homeRank (!w)) (homeRank w) (flagK (!w)) (flagQ (!w))
              (flagK w) (flagQ w) ^^^ FWhiteTurn
              = mirrorFlags (mmCorners f1 m (homeRank w) (homeRank (!w)) (flagK w) (flagQ w) (flagK (!w))
                  (flagQ (!w)) ^^^ FWhiteTurn) := by
            rw [← mmCorners_mirror w hf1lt m]
            exact ((flags_fin _ (mmCorners_lt hf1lt m _ _ (flagK_lt w) (flagQ_lt w) (flagK_lt _)
              (flagQ_lt _))).2.2.2.2.2.2.2.1).symm
          rw [hfl]
          cases w <;> rfl


/-- **`makeMove` commutes with the colour flip**: same panic behaviour up to the payload, and the
    `.ok` results correspond (mirrored position, same king-safety verdict) -/
theorem makeMove_mirror {p : Position} {m : Move} (h : MirrorOk p) (hm : MoveOk p m) :
    okVal (makeMove (mirror p) (mirrorMove m)) = (okVal (makeMove p m)).map mirrorRes := by
  rw [makeMove_eq, makeMove_eq, whiteTurn_mirror h.flags]
  exact makeMoveW_mirror _ h hm

theorem isLegal_mirror {p : Position} {m : Move} (h : MirrorOk p) (hm : MoveOk p m) :
    okVal (isLegal (mirror p) (mirrorMove m)) = okVal (isLegal p m) := by
  unfold isLegal
  simp only [okVal_bind, okVal_pure, makeMove_mirror h hm]
  cases okVal (makeMove p m) <;> rfl

end Magog.Mir
