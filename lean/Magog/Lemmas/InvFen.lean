import Magog.Lemmas.Inv

/-! Bridge: what the FEN loader guarantees (`FenSpec.FenInv` + `FenSpec.FenLists`, property C08) is the
    shared position invariant `Inv`. -/

namespace Magog
open Magog.Model Magog.Atk Magog.FenSpec

namespace InvFen

theorem filter_one_unique {k : Nat} : ∀ (l : List Nat) (i j : Nat),
    (l.filter (· == k)).length = 1 → l[i]? = some k → l[j]? = some k → i = j := by
  intro l
  induction l with
  | nil => intro i j h; simp at h
  | cons x xs ih =>
    intro i j h hi hj
    by_cases hx : x = k
    · subst hx
      have hnil : xs.filter (· == x) = [] := by
        simp only [List.filter_cons, beq_self_eq_true, if_true, List.length_cons] at h
        exact List.eq_nil_of_length_eq_zero (by omega)
      have hno : ∀ n : Nat, xs[n]? ≠ some x := by
        intro n hn
        have hm : x ∈ xs := List.mem_of_getElem? hn
        have : x ∈ xs.filter (· == x) := List.mem_filter.mpr ⟨hm, by simp⟩
        rw [hnil] at this; cases this
      cases i with
      | zero =>
        cases j with
        | zero => rfl
        | succ j => exact absurd hj (by simpa using hno j)
      | succ i => exact absurd hi (by simpa using hno i)
    · have hxb : (x == k) = false := by simpa using hx
      simp only [List.filter_cons, hxb, Bool.false_eq_true, if_false] at h
      cases i with
      | zero => simp at hi; exact absurd hi hx
      | succ i =>
        cases j with
        | zero => simp at hj; exact absurd hj hx
        | succ j =>
          simp only [List.getElem?_cons_succ] at hi hj
          rw [ih i j h hi hj]

theorem countKings_unique {b : Array Nat} {k i j : Nat} (h : countKings b k = 1)
    (hi : b[i]? = some k) (hj : b[j]? = some k) : i = j := by
  unfold countKings at h
  exact filter_one_unique b.toList i j h (by simpa using hi) (by simpa using hj)

theorem valid_of_ne_zero {p : Position} (hsz : p.board.size = 128)
    (hoff : ∀ i : Nat, i < 128 → isValid i = false → p.board[i]? = some 0) {s v : Nat}
    (h : p.board[s]? = some v) (hv : v ≠ 0) : s < 128 ∧ isValid s = true := by
  have hlt : s < 128 := by
    have := (Array.getElem?_eq_some_iff.mp h).1
    omega
  refine ⟨hlt, ?_⟩
  cases hval : isValid s with
  | true => rfl
  | false =>
    have := hoff s hlt hval
    rw [h] at this
    simp only [Option.some.injEq] at this
    exact absurd this hv

end InvFen

open InvFen in
/-- the loader's guarantees are exactly the shared invariant -/
theorem inv_of_fen {p : Position} (h : FenInv p) (hl : FenLists p) (hf : p.flags < 32) : Inv p := by
  have hv := @valid_of_ne_zero p h.size h.offBoard
  refine
    { board := ⟨h.size, fun s hs _ => ?_⟩
      offBoard := h.offBoard
      white := ⟨fun s => ⟨fun hs => ?_, fun hs => ?_⟩, fun s => ⟨fun hs => ?_, fun hs => ?_⟩,
        fun s => ⟨fun hs => ?_, fun hs => ?_⟩⟩
      black := ⟨fun s => ⟨fun hs => ?_, fun hs => ?_⟩, fun s => ⟨fun hs => ?_, fun hs => ?_⟩,
        fun s => ⟨fun hs => ?_, fun hs => ?_⟩⟩
      wpNodup := hl.wpNodup, bpNodup := hl.bpNodup, wpcNodup := hl.wpcNodup, bpcNodup := hl.bpcNodup
      wpLen := h.wpLen, bpLen := h.bpLen, wLen := h.wLen, bLen := h.bLen
      noBackPawn := h.noBackPawn, flags := hf, castling := h.castling, ep := h.ep }
  · have hlt : s < p.board.size := by rw [h.size]; exact hs
    refine ⟨p.board[s], Array.getElem?_eq_getElem hlt, ?_⟩
    have := hl.codes s _ (Array.getElem?_eq_getElem hlt)
    have hw : ∀ v ∈ whitePieceCodes, v ∈ pieceCodes := by decide
    have hb : ∀ v ∈ blackPieceCodes, v ∈ pieceCodes := by decide
    rcases this with h0 | h0 | h0 | h0 | h0 | h0 | h0
    · exact .inl h0
    · right; rw [h0]; decide
    · right; rw [h0]; decide
    · right; rw [h0]; decide
    · right; rw [h0]; decide
    · exact .inr (hw _ h0)
    · exact .inr (hb _ h0)
  -- white
  · obtain ⟨h1, h2, pc, hpc, h3⟩ := h.wpSound s hs
    simp only [List.mem_cons, List.not_mem_nil, or_false] at hpc
    subst hpc
    exact ⟨h1, h2, h3⟩
  · exact hl.wpComplete s _ hs.2.2 (by simp [pawnOf])
  · obtain ⟨h1, h2, pc, hpc, h3⟩ := h.wpcSound s hs
    exact ⟨h1, h2, pc, hpc, h3⟩
  · obtain ⟨_, _, c, hc, h3⟩ := hs
    exact hl.wpcComplete s c h3 hc
  · subst hs
    exact ⟨h.wKingValid.1, h.wKingValid.2, h.wKing⟩
  · exact countKings_unique h.wKing1 hs.2.2 h.wKing
  -- black
  · obtain ⟨h1, h2, pc, hpc, h3⟩ := h.bpSound s hs
    simp only [List.mem_cons, List.not_mem_nil, or_false] at hpc
    subst hpc
    exact ⟨h1, h2, h3⟩
  · exact hl.bpComplete s _ hs.2.2 (by simp [pawnOf])
  · obtain ⟨h1, h2, pc, hpc, h3⟩ := h.bpcSound s hs
    exact ⟨h1, h2, pc, hpc, h3⟩
  · obtain ⟨_, _, c, hc, h3⟩ := hs
    exact hl.bpcComplete s c h3 hc
  · subst hs
    exact ⟨h.bKingValid.1, h.bKingValid.2, h.bKing⟩
  · exact countKings_unique h.bKing1 hs.2.2 h.bKing

end Magog
