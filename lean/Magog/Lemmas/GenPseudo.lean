import Magog.Lemmas.GenPure
import Magog.Lemmas.PseudoSpec
import Magog.Lemmas.KingStep
import Magog.AbsMove
import Mathlib.Data.List.Nodup

/-! The pure pseudo-legal move list `GenPure.genList` against the rules of chess (`Spec.pseudo'`), for
    property C01: per origin square the generated moves are exactly the specification's, without
    duplicates, with the right tactical flag and en-passant auxiliary field. -/

set_option linter.unusedSimpArgs false
set_option linter.unusedVariables false

namespace Magog.GenPseudo
open Magog Magog.Model Magog.Geo Magog.Atk Magog.GenGeoO Magog.GenPure Magog.PseudoSpec Magog.Count

/-! ### dictionary: engine board ↔ abstract position -/

/-- the abstraction of an en-passant / skipped-square field, as in `abs` -/
def absEp (e : Nat) : Option Nat := if isValid e then some (to64 e) else none

/-- auxiliary fields of a generated move: tactical flag and skipped square -/
def AuxOk (P : Spec.Pos) (y : Move × Bool) : Prop :=
  y.2 = Spec.isTactical P (absMove y.1) ∧ (y.1.ep = InvalidSq ∨ y.1.ep ∈ sq88) ∧
    absEp y.1.ep = (Spec.apply P (absMove y.1)).ep

/-- what is proved about the moves generated from one origin square -/
structure OriginOk (P : Spec.Pos) (x : Nat) (G : List (Move × Bool)) : Prop where
  frm : ∀ y ∈ G, (absMove y.1).frm = to64 x
  sound : ∀ y ∈ G, Spec.pseudo' P (absMove y.1) = true ∧ AuxOk P y
  complete : ∀ sm : Spec.Move, sm.frm = to64 x → Spec.pseudo' P sm = true → ∃ y ∈ G, absMove y.1 = sm
  nodup : (G.map fun y => absMove y.1).Nodup

theorem turn_eq (p : Position) : (abs p).turn = colorOf (whiteTurn p) := by
  unfold abs colorOf; rfl

theorem absEp_invalid : absEp InvalidSq = none := by decide

section Dict
variable {p : Position} {kt : Killers} (env : Env p p.ctx (whiteTurn p) kt)
include env

theorem at_eq {s : Nat} (hs : s ∈ sq88) : (abs p).at (to64 s) = decodePiece (cell p.board s) := by
  simp only [Spec.Pos.at, abs]
  exact absBoard_at hs (some_cell (lt_size env.board hs))

theorem isSome_eq {s : Nat} (hs : s ∈ sq88) :
    ((abs p).at (to64 s)).isSome = (cell p.board s &&& Colorless != 0) := by
  rw [at_eq env hs, (code_facts (cell_code env.board hs) true).1]

theorem isNone_eq {s : Nat} (hs : s ∈ sq88) : ((abs p).at (to64 s)).isNone = (cell p.board s == 0) := by
  rw [at_eq env hs, (code_facts (cell_code env.board hs) true).2.2.2]

theorem tgtOk_eq {t : Nat} (ht : t ∈ sq88) :
    tgtOk (abs p) (to64 t) = (cell p.board t &&& p.ctx.curBit == 0) := by
  unfold tgtOk
  rw [at_eq env ht, turn_eq, env.curBit]
  have := (code_facts (cell_code env.board ht) (whiteTurn p)).2.1
  cases h : decodePiece (cell p.board t) with
  | none =>
    rw [h] at this
    simp only [bne_eq_false_iff_eq] at this
    simp [this]
  | some m =>
    rw [h] at this
    simp only at this ⊢
    cases hc : (m.color == colorOf (whiteTurn p))
    · rw [hc] at this
      simp only [bne_eq_false_iff_eq] at this
      simp [this, bne, hc]
    · rw [hc] at this
      simp only [bne_iff_ne, ne_eq] at this
      simp [this, bne, hc]

end Dict

/-! ### targets of sliding pieces -/

theorem mem_rayTargets {board : Array Nat} (hb : BoardOk board) (w : Bool) {t : Nat} :
    ∀ l : List Nat, (∀ s ∈ l, s ∈ sq88) →
    (t ∈ rayTargets board (colorBit w) (colorBit (!w)) l ↔
      ∃ pre post, l = pre ++ t :: post ∧ (∀ s ∈ pre, cell board s = 0) ∧ cell board t &&& colorBit w = 0) := by
  intro l
  induction l with
  | nil => intro _; simp [rayTargets]
  | cons a l ih =>
    intro hl
    have ha : a ∈ sq88 := hl a List.mem_cons_self
    have ih' := ih (fun s hs => hl s (List.mem_cons_of_mem _ hs))
    have hcode := cell_code hb ha
    by_cases hown : cell board a &&& colorBit w = 0
    · by_cases hen : cell board a &&& colorBit (!w) = 0
      · have h0 := code_empty hcode w hown hen
        simp only [rayTargets, hown, hen, bne_self_eq_false, Bool.false_eq_true, if_false, List.mem_cons]
        constructor
        · rintro (rfl | h)
          · exact ⟨[], l, rfl, by simp, hown⟩
          · obtain ⟨pre, post, rfl, h1, h2⟩ := ih'.1 h
            refine ⟨a :: pre, post, rfl, ?_, h2⟩
            intro s hs
            rcases List.mem_cons.1 hs with rfl | hs
            · exact h0
            · exact h1 s hs
        · rintro ⟨pre, post, heq, h1, h2⟩
          cases pre with
          | nil =>
            simp only [List.nil_append, List.cons.injEq] at heq
            exact .inl heq.1.symm
          | cons b pre =>
            simp only [List.cons_append, List.cons.injEq] at heq
            exact .inr (ih'.2 ⟨pre, post, heq.2, fun s hs => h1 s (List.mem_cons_of_mem _ hs), h2⟩)
      · have hen' : (cell board a &&& colorBit (!w) != 0) = true := by simpa using hen
        simp only [rayTargets, hown, hen', bne_self_eq_false, Bool.false_eq_true, if_false, if_true,
          List.mem_singleton]
        constructor
        · rintro rfl
          exact ⟨[], l, rfl, by simp, hown⟩
        · rintro ⟨pre, post, heq, h1, h2⟩
          cases pre with
          | nil =>
            simp only [List.nil_append, List.cons.injEq] at heq
            exact heq.1.symm
          | cons b pre =>
            simp only [List.cons_append, List.cons.injEq] at heq
            have := h1 b List.mem_cons_self
            rw [← heq.1] at this
            rw [this] at hen
            exact absurd (Nat.zero_and _) hen
    · have hown' : (cell board a &&& colorBit w != 0) = true := by simpa using hown
      simp only [rayTargets, hown', if_true, List.not_mem_nil, false_iff]
      rintro ⟨pre, post, heq, h1, h2⟩
      cases pre with
      | nil =>
        simp only [List.nil_append, List.cons.injEq] at heq
        rw [← heq.1] at h2
        exact hown h2
      | cons b pre =>
        simp only [List.cons_append, List.cons.injEq] at heq
        have := h1 b List.mem_cons_self
        rw [← heq.1] at this
        rw [this] at hown
        exact hown (Nat.zero_and _)

theorem rayTargets_sublist (board : Array Nat) (cb eb : Nat) : ∀ l, List.Sublist (rayTargets board cb eb l) l := by
  intro l
  induction l with
  | nil => exact List.Sublist.slnil
  | cons a l ih =>
    simp only [rayTargets]
    split
    · exact List.nil_sublist _
    · split
      · exact List.Sublist.cons_cons a (List.nil_sublist _)
      · exact List.Sublist.cons_cons a ih

theorem flatMap_sublist {α β} {f g : α → List β} (h : ∀ x, List.Sublist (f x) (g x)) :
    ∀ l : List α, List.Sublist (l.flatMap f) (l.flatMap g) := by
  intro l
  induction l with
  | nil => exact List.Sublist.slnil
  | cons a l ih => simp only [List.flatMap_cons]; exact List.Sublist.append (h a) ih

def slideTargets (board : Array Nat) (c : Ctx) (frm : Nat) (dirs : List Nat) : List Nat :=
  dirs.flatMap fun d => rayTargets board c.curBit c.enBit (rayOf frm d)

theorem slideList_eq (board : Array Nat) (c : Ctx) (frm : Nat) (dirs : List Nat) :
    slideList board c frm dirs = (slideTargets board c frm dirs).map (plainMv board frm) := by
  simp [slideList, slideTargets, List.map_flatMap]

theorem slideTargets_nodup (board : Array Nat) (c : Ctx) {frm : Nat} {dirs : List Nat}
    (h : (dirs.flatMap (rayOf frm)).Nodup) : (slideTargets board c frm dirs).Nodup :=
  List.Nodup.sublist (flatMap_sublist (fun d => rayTargets_sublist board c.curBit c.enBit (rayOf frm d)) dirs) h

section Slide
variable {p : Position} {kt : Killers} (env : Env p p.ctx (whiteTurn p) kt)
include env

/-- the walk of `slideDir` reaches exactly the squares in the given relation with a clear path and no own
    man on them -/
theorem slide_spec {x t : Nat} (hx : x ∈ sq88) (hto : t ∈ sq88) {dirs : List Nat}
    (hd : ∀ d ∈ dirs, d ∈ kingDirs) {rel : Bool} (hrel : rel = true ↔ ∃ d ∈ dirs, t ∈ rayOf x d) :
    t ∈ slideTargets p.board p.ctx x dirs ↔
      ((cell p.board t &&& p.ctx.curBit == 0) &&
        (rel && Spec.clear (absBoard p.board) (to64 x) (to64 t))) = true := by
  unfold slideTargets
  rw [env.curBit, env.enBit]
  simp only [List.mem_flatMap, Bool.and_eq_true, beq_iff_eq]
  constructor
  · rintro ⟨d, hdd, hmem⟩
    have hval : ∀ s ∈ rayOf x d, s ∈ sq88 := fun s hs => rayOf_valid hx (hd d hdd) hs
    obtain ⟨pre, post, heq, hpre, hfree⟩ := (mem_rayTargets env.board (whiteTurn p) _ hval).1 hmem
    have hmemr : t ∈ rayOf x d := by rw [heq]; simp
    refine ⟨hfree, hrel.2 ⟨d, hdd, hmemr⟩, ?_⟩
    have hprev : ∀ s ∈ pre, s ∈ sq88 := fun s hs => hval s (by rw [heq]; simp [hs])
    rw [clear_eq env.board hprev (ray_between hx (hd d hdd) heq).symm, List.all_eq_true]
    intro s hs
    have := hpre s hs
    simpa [cell] using this
  · rintro ⟨hfree, hr, hclear⟩
    obtain ⟨d, hdd, hmemr⟩ := hrel.1 hr
    have hval : ∀ s ∈ rayOf x d, s ∈ sq88 := fun s hs => rayOf_valid hx (hd d hdd) hs
    obtain ⟨pre, post, heq⟩ := List.append_of_mem hmemr
    refine ⟨d, hdd, (mem_rayTargets env.board (whiteTurn p) _ hval).2 ⟨pre, post, heq, ?_, hfree⟩⟩
    have hprev : ∀ s ∈ pre, s ∈ sq88 := fun s hs => hval s (by rw [heq]; simp [hs])
    rw [clear_eq env.board hprev (ray_between hx (hd d hdd) heq).symm, List.all_eq_true] at hclear
    intro s hs
    have := hclear s hs
    simpa [cell] using this

omit env in
theorem slideTargets_valid {x t : Nat} (hx : x ∈ sq88) {dirs : List Nat} (hd : ∀ d ∈ dirs, d ∈ kingDirs)
    (h : t ∈ slideTargets p.board p.ctx x dirs) : t ∈ sq88 := by
  unfold slideTargets at h
  obtain ⟨d, hdd, hmem⟩ := List.mem_flatMap.1 h
  exact rayOf_valid hx (hd d hdd) ((rayTargets_sublist _ _ _ _).subset hmem)

end Slide

/-! ### plain movers (everything but pawns and castling) -/

theorem decodePromo_zero : decodePromo 0 = none := by decide

theorem plain_abs (board : Array Nat) (x t : Nat) :
    absMove (plainMv board x t).1 = ⟨to64 x, to64 t, none⟩ := by
  simp only [plainMv, absMove, decodePromo_zero]

section Plain
variable {p : Position} {kt : Killers} (env : Env p p.ctx (whiteTurn p) kt)
include env

/-- auxiliary fields of a plain move by a man that is not a pawn -/
theorem plain_aux {x t : Nat} (hx : x ∈ sq88) (ht : t ∈ sq88) {man : Spec.Man}
    (hman : decodePiece (cell p.board x) = some man) (hp : man.kind ≠ .pawn) :
    AuxOk (abs p) (plainMv p.board x t) := by
  have hat : (abs p).at (absMove (plainMv p.board x t).1).frm = some man := by
    rw [plain_abs]; simp only; rw [at_eq env hx, hman]
  refine ⟨?_, .inl rfl, ?_⟩
  · rw [isTactical_nonpawn hat hp, plain_abs]
    simp only [isSome_eq env ht, Option.isSome_none, Bool.or_false, plainMv]
  · rw [apply_ep hat]
    have : (man.kind == Spec.Kind.pawn) = false := by simpa using hp
    simp only [this, Bool.false_and, Bool.false_eq_true, if_false]
    exact absEp_invalid

/-- a list of plain moves from `x` to the targets `T` is right as soon as `T` is duplicate-free and
    contains exactly the specification's target squares -/
theorem plain_originOk {x : Nat} (hx : x ∈ sq88) {man : Spec.Man}
    (hman : decodePiece (cell p.board x) = some man) (hp : man.kind ≠ .pawn)
    (T : List Nat) (hT : T.Nodup) (hTv : ∀ t ∈ T, t ∈ sq88)
    (hmem : ∀ t ∈ sq88, t ∈ T ↔ Spec.pseudo' (abs p) ⟨to64 x, to64 t, none⟩ = true)
    (hshape : ∀ sm : Spec.Move, sm.frm = to64 x → Spec.pseudo' (abs p) sm = true → sm.promo = none ∧ sm.to < 64) :
    OriginOk (abs p) x (T.map (plainMv p.board x)) := by
  refine ⟨?_, ?_, ?_, ?_⟩
  · intro y hy
    obtain ⟨t, _, rfl⟩ := List.mem_map.1 hy
    rw [plain_abs]
  · intro y hy
    obtain ⟨t, ht, rfl⟩ := List.mem_map.1 hy
    refine ⟨?_, plain_aux env hx (hTv t ht) hman hp⟩
    rw [plain_abs]
    exact (hmem t (hTv t ht)).1 ht
  · intro sm hf hs
    obtain ⟨hpr, hlt⟩ := hshape sm hf hs
    have ht := to88_mem hlt
    have hsm : sm = ⟨to64 x, to64 (to88 sm.to), none⟩ := by
      rw [to64_to88 hlt, ← hf, ← hpr]
    refine ⟨plainMv p.board x (to88 sm.to), List.mem_map.2 ⟨_, (hmem _ ht).2 (by rw [← hsm]; exact hs), rfl⟩, ?_⟩
    rw [plain_abs]; exact hsm.symm
  · rw [List.map_map]
    refine List.Nodup.map_on ?_ hT
    intro a ha b hb hab
    simp only [Function.comp, plain_abs, Spec.Move.mk.injEq, and_true, true_and] at hab
    exact to64_inj (hTv a ha) (hTv b hb) hab

end Plain

/-! ### knights, bishops, rooks, queens -/

theorem officer_decode {w : Bool} {pc : Nat} (h : pc ∈ officersOf w) :
    ((pc == Gen.WKnight || pc == Gen.BKnight) = true ∧ decodePiece pc = some ⟨colorOf w, .knight⟩) ∨
    ((pc == Gen.WKnight || pc == Gen.BKnight) = false ∧ (pc == Gen.WBishop || pc == Gen.BBishop) = true ∧
      decodePiece pc = some ⟨colorOf w, .bishop⟩) ∨
    ((pc == Gen.WKnight || pc == Gen.BKnight) = false ∧ (pc == Gen.WBishop || pc == Gen.BBishop) = false ∧
      (pc == Gen.WRook || pc == Gen.BRook) = true ∧ decodePiece pc = some ⟨colorOf w, .rook⟩) ∨
    ((pc == Gen.WKnight || pc == Gen.BKnight) = false ∧ (pc == Gen.WBishop || pc == Gen.BBishop) = false ∧
      (pc == Gen.WRook || pc == Gen.BRook) = false ∧ decodePiece pc = some ⟨colorOf w, .queen⟩) := by
  revert pc
  cases w <;> decide

theorem manAttacks_knight (B : Array (Option Spec.Man)) (c : Spec.Color) (a b : Nat) :
    Spec.manAttacks B ⟨c, .knight⟩ a b = Spec.manAttacks emptyBoard ⟨.white, .knight⟩ a b := by
  simp only [Spec.manAttacks]
theorem manAttacks_king (B : Array (Option Spec.Man)) (c : Spec.Color) (a b : Nat) :
    Spec.manAttacks B ⟨c, .king⟩ a b = Spec.manAttacks emptyBoard ⟨.white, .king⟩ a b := by
  simp only [Spec.manAttacks]
theorem manAttacks_bishop (B : Array (Option Spec.Man)) (c : Spec.Color) (a b : Nat) :
    Spec.manAttacks B ⟨c, .bishop⟩ a b = (Spec.onDiag a b && Spec.clear B a b) := by
  simp only [Spec.manAttacks]
theorem manAttacks_rook (B : Array (Option Spec.Man)) (c : Spec.Color) (a b : Nat) :
    Spec.manAttacks B ⟨c, .rook⟩ a b = (Spec.onLine a b && Spec.clear B a b) := by
  simp only [Spec.manAttacks]
theorem manAttacks_queen (B : Array (Option Spec.Man)) (c : Spec.Color) (a b : Nat) :
    Spec.manAttacks B ⟨c, .queen⟩ a b = ((Spec.onLine a b || Spec.onDiag a b) && Spec.clear B a b) := by
  simp only [Spec.manAttacks]

section Officer
variable {p : Position} {kt : Killers} (env : Env p p.ctx (whiteTurn p) kt)
include env

theorem officer_pseudo {x t : Nat} (hx : x ∈ sq88) (ht : t ∈ sq88) {k : Spec.Kind}
    (hman : decodePiece (cell p.board x) = some ⟨colorOf (whiteTurn p), k⟩) (hp : k ≠ .pawn) (hk : k ≠ .king) :
    Spec.pseudo' (abs p) ⟨to64 x, to64 t, none⟩ =
      ((cell p.board t &&& p.ctx.curBit == 0) &&
        Spec.manAttacks (absBoard p.board) ⟨colorOf (whiteTurn p), k⟩ (to64 x) (to64 t)) := by
  have hat : (abs p).at (to64 x) = some ⟨colorOf (whiteTurn p), k⟩ := by rw [at_eq env hx, hman]
  rw [pseudo'_officer (m := ⟨to64 x, to64 t, none⟩) hat hp hk]
  simp only [common, turn_eq, beq_self_eq_true, to64_lt hx, to64_lt ht, decide_true, Bool.true_and,
    tgtOk_eq env ht]
  rfl

theorem officer_shape {x : Nat} (hx : x ∈ sq88) {k : Spec.Kind}
    (hman : decodePiece (cell p.board x) = some ⟨colorOf (whiteTurn p), k⟩) (hp : k ≠ .pawn) (hk : k ≠ .king)
    (sm : Spec.Move) (hf : sm.frm = to64 x) (hs : Spec.pseudo' (abs p) sm = true) :
    sm.promo = none ∧ sm.to < 64 := by
  have hat : (abs p).at sm.frm = some ⟨colorOf (whiteTurn p), k⟩ := by rw [hf, at_eq env hx, hman]
  rw [pseudo'_officer hat hp hk] at hs
  simp only [common, Bool.and_eq_true, decide_eq_true_eq, beq_iff_eq] at hs
  exact ⟨hs.2.1, hs.1.1.2⟩

theorem officer_originOk {x : Nat} (hf : x ∈ p.ctx.cur.pieces) :
    OriginOk (abs p) x (officerList p.board p.ctx x) := by
  obtain ⟨hx, hoff⟩ := officer_mem env hf
  have hrays := rays_nodup hx
  unfold officerList
  rcases officer_decode hoff with ⟨h1, hdec⟩ | ⟨h1, h2, hdec⟩ | ⟨h1, h2, h3, hdec⟩ | ⟨h1, h2, h3, hdec⟩
  · simp only [h1, if_true, stepList]
    refine plain_originOk env hx hdec (by simp) _
      (List.Nodup.filter _ (step_nodup knightSteps_ok hx))
      (fun t ht => stepSqs_mem (List.mem_filter.1 ht).1) ?_
      (officer_shape env hx hdec (by simp) (by simp))
    intro t ht
    rw [officer_pseudo env hx ht hdec (by simp) (by simp), List.mem_filter, step_spec knightSteps_ok hx ht,
      manAttacks_knight (absBoard p.board)]
    simp only [Bool.and_true, Bool.and_eq_true, and_comm]
  · simp only [h1, h2, Bool.false_eq_true, if_false, if_true, slideList_eq]
    refine plain_originOk env hx hdec (by simp) _ (slideTargets_nodup _ _ hrays.2.2)
      (fun t ht => slideTargets_valid hx (fun d hd => bishopDirs_sub hd) ht) ?_
      (officer_shape env hx hdec (by simp) (by simp))
    intro t ht
    rw [officer_pseudo env hx ht hdec (by simp) (by simp),
      slide_spec env hx ht (fun d hd => bishopDirs_sub hd) (diag_iff hx ht), manAttacks_bishop]
  · simp only [h1, h2, h3, Bool.false_eq_true, if_false, if_true, slideList_eq]
    refine plain_originOk env hx hdec (by simp) _ (slideTargets_nodup _ _ hrays.2.1)
      (fun t ht => slideTargets_valid hx (fun d hd => rookDirs_sub hd) ht) ?_
      (officer_shape env hx hdec (by simp) (by simp))
    intro t ht
    rw [officer_pseudo env hx ht hdec (by simp) (by simp),
      slide_spec env hx ht (fun d hd => rookDirs_sub hd) (line_iff hx ht), manAttacks_rook]
  · simp only [h1, h2, h3, Bool.false_eq_true, if_false, slideList_eq]
    refine plain_originOk env hx hdec (by simp) _ (slideTargets_nodup _ _ hrays.1)
      (fun t ht => slideTargets_valid hx (fun d hd => hd) ht) ?_
      (officer_shape env hx hdec (by simp) (by simp))
    intro t ht
    rw [officer_pseudo env hx ht hdec (by simp) (by simp),
      slide_spec env hx ht (fun d hd => hd) (queen_iff hx ht), manAttacks_queen]

end Officer

/-! ### the king: steps and castling -/

theorem king_near {a b : Nat} (h : Spec.manAttacks emptyBoard ⟨.white, .king⟩ a b = true) :
    (Spec.adiff (Spec.fileOf a) (Spec.fileOf b) == 2) = false := by
  simp only [Spec.manAttacks, Bool.and_eq_true, decide_eq_true_eq] at h
  have := h.1.1
  simp only [beq_eq_false_iff_ne, ne_eq]
  omega

theorem castle_far (w : Bool) :
    (Spec.adiff (Spec.fileOf (to64 (kingHome w))) (Spec.fileOf (to64 (kingHome w - 2))) == 2) = true ∧
    (Spec.adiff (Spec.fileOf (to64 (kingHome w))) (Spec.fileOf (to64 (kingHome w + 2))) == 2) = true := by
  cases w <;> decide

theorem decode_rook (w : Bool) :
    decodePiece (if w then Gen.WRook else Gen.BRook) = some ⟨colorOf w, .rook⟩ := by
  cases w <;> decide

theorem canCastleK_eq (p : Position) : Spec.canCastleK (abs p) = p.ctx.kOk := by
  unfold Spec.canCastleK abs Position.ctx
  cases whiteTurn p <;> rfl

theorem canCastleQ_eq (p : Position) : Spec.canCastleQ (abs p) = p.ctx.qOk := by
  unfold Spec.canCastleQ abs Position.ctx
  cases whiteTurn p <;> rfl

theorem attacked_eq (p : Position) (s : Nat) :
    Spec.attacked (abs p).board (colorOf (whiteTurn p)).other (to64 s) = !safeSq p.board (whiteTurn p) s := by
  rw [other_colorOf]
  simp only [safeSq, Bool.not_not]
  rfl

theorem to64_eq_iff {a b : Nat} (ha : a ∈ sq88) (hb : b ∈ sq88) : to64 a = to64 b ↔ a = b :=
  ⟨to64_inj ha hb, fun h => h ▸ rfl⟩

def castleTargets (board : Array Nat) (c : Ctx) (w : Bool) : List Nat :=
  (if c.qOk && castleQCond board w c.cur.king then [c.cur.king - 2] else []) ++
  (if c.kOk && castleKCond board w c.cur.king then [c.cur.king + 2] else [])

theorem castleList_eq (board : Array Nat) (c : Ctx) (w : Bool) :
    castleList board c w = (castleTargets board c w).map (plainMv board c.cur.king) := by
  unfold castleList castleTargets
  rw [List.map_append]
  congr 1
  · cases hq : (c.qOk && castleQCond board w c.cur.king)
    · simp
    · simp only [if_true, List.map_cons, List.map_nil, plainMv]
      simp only [Bool.and_eq_true, castleQCond, beq_iff_eq] at hq
      simp [hq.2.2.1]
  · cases hq : (c.kOk && castleKCond board w c.cur.king)
    · simp
    · simp only [if_true, List.map_cons, List.map_nil, plainMv]
      simp only [Bool.and_eq_true, castleKCond, beq_iff_eq] at hq
      simp [hq.2.2.1]

section King
variable {p : Position} {kt : Killers} (env : Env p p.ctx (whiteTurn p) kt)
include env

theorem castleK_iff {t : Nat} (ht : t ∈ sq88) :
    castleKClause (abs p) ⟨to64 p.ctx.cur.king, to64 t, none⟩ = true ↔
      (p.ctx.kOk = true ∧ t = p.ctx.cur.king + 2 ∧
        castleKCond p.board (whiteTurn p) p.ctx.cur.king = true) := by
  by_cases hk : p.ctx.kOk = true
  · obtain ⟨hhome, hrook⟩ := env.castleK hk
    obtain ⟨c0, c1, c2, c3, c4, c5, c6, c7⟩ := castle_to64 (whiteTurn p)
    obtain ⟨m0, m1, m2, m3, m4, m5, m6, m7⟩ := castle_sq (whiteTurn p)
    simp only [castleKClause, canCastleK_eq, hk, turn_eq, ← c0, ← c5, ← c6, ← c7, hhome, Bool.true_and,
      at_eq env m7, hrook, decode_rook, isNone_eq env m4, isNone_eq env m5, attacked_eq, castleKCond,
      Bool.and_eq_true, beq_iff_eq, Bool.not_not, to64_eq_iff ht m5, true_and]
    simp only [and_true, and_assoc]
  · have hk' : p.ctx.kOk = false := by simpa using hk
    simp only [castleKClause, canCastleK_eq, hk', Bool.false_and, Bool.false_eq_true, false_and]

theorem castleQ_iff {t : Nat} (ht : t ∈ sq88) :
    castleQClause (abs p) ⟨to64 p.ctx.cur.king, to64 t, none⟩ = true ↔
      (p.ctx.qOk = true ∧ t = p.ctx.cur.king - 2 ∧
        castleQCond p.board (whiteTurn p) p.ctx.cur.king = true) := by
  by_cases hk : p.ctx.qOk = true
  · obtain ⟨hhome, hrook⟩ := env.castleQ hk
    obtain ⟨c0, c1, c2, c3, c4, c5, c6, c7⟩ := castle_to64 (whiteTurn p)
    obtain ⟨m0, m1, m2, m3, m4, m5, m6, m7⟩ := castle_sq (whiteTurn p)
    simp only [castleQClause, canCastleQ_eq, hk, turn_eq, ← c0, ← c1, ← c2, ← c3, ← c4, hhome, Bool.true_and,
      at_eq env m6, hrook, decode_rook, isNone_eq env m1, isNone_eq env m2, isNone_eq env m3, attacked_eq,
      castleQCond, Bool.and_eq_true, beq_iff_eq, Bool.not_not, to64_eq_iff ht m2, true_and]
    simp only [and_true, and_assoc]
  · have hk' : p.ctx.qOk = false := by simpa using hk
    simp only [castleQClause, canCastleQ_eq, hk', Bool.false_and, Bool.false_eq_true, false_and]

omit env in
theorem mem_castleTargets {t : Nat} :
    t ∈ castleTargets p.board p.ctx (whiteTurn p) ↔
      (p.ctx.qOk = true ∧ t = p.ctx.cur.king - 2 ∧ castleQCond p.board (whiteTurn p) p.ctx.cur.king = true) ∨
      (p.ctx.kOk = true ∧ t = p.ctx.cur.king + 2 ∧ castleKCond p.board (whiteTurn p) p.ctx.cur.king = true) := by
  unfold castleTargets
  rw [List.mem_append]
  apply or_congr
  · cases h : (p.ctx.qOk && castleQCond p.board (whiteTurn p) p.ctx.cur.king)
    · simp only [Bool.false_eq_true, if_false, List.not_mem_nil, false_iff]
      rintro ⟨a, _, b⟩
      simp [a, b] at h
    · simp only [Bool.and_eq_true] at h
      simp [h.1, h.2]
  · cases h : (p.ctx.kOk && castleKCond p.board (whiteTurn p) p.ctx.cur.king)
    · simp only [Bool.false_eq_true, if_false, List.not_mem_nil, false_iff]
      rintro ⟨a, _, b⟩
      simp [a, b] at h
    · simp only [Bool.and_eq_true] at h
      simp [h.1, h.2]

theorem king_mem_iff {t : Nat} (ht : t ∈ sq88) :
    t ∈ (stepSqs p.ctx.cur.king kingDirs).filter
          (fun t => cell p.board t &&& p.ctx.curBit == 0 && safeSq p.board (whiteTurn p) t) ++
        castleTargets p.board p.ctx (whiteTurn p) ↔
      Spec.pseudo' (abs p) ⟨to64 p.ctx.cur.king, to64 t, none⟩ = true := by
  obtain ⟨hx, hcell⟩ := king_mem env
  have hat : (abs p).at (to64 p.ctx.cur.king) = some ⟨colorOf (whiteTurn p), .king⟩ := by
    rw [at_eq env hx, hcell]; exact decode_king _
  rw [pseudo'_king (m := ⟨to64 p.ctx.cur.king, to64 t, none⟩) hat]
  simp only [common, turn_eq, beq_self_eq_true, to64_lt hx, to64_lt ht, decide_true, Bool.true_and,
    tgtOk_eq env ht, manAttacks_king (abs p).board, attacked_eq, Bool.and_eq_true, Bool.or_eq_true,
    castleK_iff env ht, castleQ_iff env ht, List.mem_append, List.mem_filter, step_spec kingSteps_ok hx ht,
    mem_castleTargets, Bool.not_eq_true', Bool.and_eq_false_iff, Bool.not_eq_false']
  constructor
  · rintro (⟨hm, hfree, hsafe⟩ | ⟨hq, rfl, hc⟩ | ⟨hk, rfl, hc⟩)
    · exact ⟨⟨hfree, .inl (.inl hm)⟩, .inr hsafe⟩
    · obtain ⟨hhome, _⟩ := env.castleQ hq
      have h0 : cell p.board (p.ctx.cur.king - 2) = 0 := by
        simp only [castleQCond, Bool.and_eq_true, beq_iff_eq] at hc
        exact hc.2.1
      refine ⟨⟨by rw [h0]; simp, .inr ⟨hq, rfl, hc⟩⟩, .inl ?_⟩
      rw [hhome]; exact (castle_far _).1
    · obtain ⟨hhome, _⟩ := env.castleK hk
      have h0 : cell p.board (p.ctx.cur.king + 2) = 0 := by
        simp only [castleKCond, Bool.and_eq_true, beq_iff_eq] at hc
        exact hc.2.1
      refine ⟨⟨by rw [h0]; simp, .inl (.inr ⟨hk, rfl, hc⟩)⟩, .inl ?_⟩
      rw [hhome]; exact (castle_far _).2
  · rintro ⟨⟨hfree, (hm | hk) | hq⟩, hfs⟩
    · rcases hfs with hfar | hsafe
      · rw [king_near hm] at hfar; cases hfar
      · exact .inl ⟨hm, hfree, hsafe⟩
    · exact .inr (.inr hk)
    · exact .inr (.inl hq)

theorem king_originOk :
    OriginOk (abs p) p.ctx.cur.king
      (kingList p.board p.ctx (whiteTurn p) ++ castleList p.board p.ctx (whiteTurn p)) := by
  obtain ⟨hx, hcell⟩ := king_mem env
  have hdec : decodePiece (cell p.board p.ctx.cur.king) = some ⟨colorOf (whiteTurn p), .king⟩ := by
    rw [hcell]; exact decode_king _
  have hat : (abs p).at (to64 p.ctx.cur.king) = some ⟨colorOf (whiteTurn p), .king⟩ := by
    rw [at_eq env hx, hdec]
  rw [castleList_eq, kingList, stepList, ← List.map_append]
  have hCT : ∀ t ∈ castleTargets p.board p.ctx (whiteTurn p),
      p.ctx.cur.king = kingHome (whiteTurn p) ∧ (t = p.ctx.cur.king - 2 ∨ t = p.ctx.cur.king + 2) := by
    intro t ht
    rcases mem_castleTargets.1 ht with ⟨hq, rfl, _⟩ | ⟨hk, rfl, _⟩
    · exact ⟨(env.castleQ hq).1, .inl rfl⟩
    · exact ⟨(env.castleK hk).1, .inr rfl⟩
  refine plain_originOk env hx hdec (by simp) _ ?_ ?_ (fun t ht => king_mem_iff env ht) ?_
  · rw [List.nodup_append]
    refine ⟨List.Nodup.filter _ (step_nodup kingSteps_ok hx), ?_, ?_⟩
    · unfold castleTargets
      split <;> split <;> simp
      omega
    · intro a ha b hb hab
      subst hab
      have hstep := (List.mem_filter.1 ha).1
      obtain ⟨hhome, hb'⟩ := hCT a hb
      rw [hhome] at hstep hb'
      rcases hb' with rfl | rfl
      · exact (castle_not_step _).1 hstep
      · exact (castle_not_step _).2 hstep
  · intro t ht
    rcases List.mem_append.1 ht with ht | ht
    · exact stepSqs_mem (List.mem_filter.1 ht).1
    · obtain ⟨hhome, hb'⟩ := hCT t ht
      obtain ⟨m0, m1, m2, m3, m4, m5, m6, m7⟩ := castle_sq (whiteTurn p)
      rw [hhome] at hb'
      rcases hb' with rfl | rfl
      · exact m2
      · exact m5
  · intro sm hf hs
    have hat' : (abs p).at sm.frm = some ⟨colorOf (whiteTurn p), .king⟩ := by rw [hf]; exact hat
    rw [pseudo'_king hat'] at hs
    simp only [common, Bool.and_eq_true, decide_eq_true_eq, beq_iff_eq] at hs
    exact ⟨hs.1.2.1, hs.1.1.1.2⟩

end King

/-! ### pawns -/

theorem decodePromo_codes :
    decodePromo Queen = some .queen ∧ decodePromo Rook = some .rook ∧ decodePromo Bishop = some .bishop ∧
    decodePromo Knight = some .knight := by decide

/-- what `pawnTo` contributes for an on-board target `t`: exactly the moves `x → t` with an admissible
    promotion piece, each once -/
theorem pawnTo_spec (w : Bool) (x : Nat) {t : Nat} (ht : t ∈ sq88) (tac : Bool) :
    (∀ y ∈ pawnTo (promoRankOf w) x t tac,
      (absMove y.1).frm = to64 x ∧ (absMove y.1).to = to64 t ∧ promoOkB (colorOf w) (absMove y.1) = true ∧
      y.1.ep = InvalidSq ∧ y.2 = (tac || (absMove y.1).promo.isSome)) ∧
    (∀ sm : Spec.Move, sm.frm = to64 x → sm.to = to64 t → promoOkB (colorOf w) sm = true →
      ∃ y ∈ pawnTo (promoRankOf w) x t tac, absMove y.1 = sm) ∧
    ((pawnTo (promoRankOf w) x t tac).map fun y => absMove y.1).Nodup := by
  obtain ⟨dq, dr, db, dn⟩ := decodePromo_codes
  have hpr := promoRank_iff w ht
  unfold pawnTo
  cases hr : (rankOf t == promoRankOf w)
  · rw [hr] at hpr
    simp only [Bool.false_eq_true, if_false, List.mem_singleton, List.map_cons, List.map_nil]
    refine ⟨?_, ?_, by simp⟩
    · rintro y rfl
      simp [absMove, promoOkB, hpr, decodePromo_zero]
    · intro sm hf ht' hp
      refine ⟨_, rfl, ?_⟩
      simp only [promoOkB, ht', hpr, Bool.false_eq_true, if_false, beq_iff_eq] at hp
      cases sm
      simp_all [absMove, decodePromo_zero]
  · rw [hr] at hpr
    simp only [if_true, promoList, List.mem_cons, List.not_mem_nil, or_false, List.map_cons, List.map_nil]
    refine ⟨?_, ?_, ?_⟩
    · rintro y (rfl | rfl | rfl | rfl) <;> simp [absMove, promoOkB, hpr, dq, dr, db, dn]
    · intro sm hf ht' hp
      simp only [promoOkB, ht', hpr, if_true, Bool.or_eq_true, beq_iff_eq] at hp
      cases sm
      simp only at hf ht'
      subst hf ht'
      rcases hp with ((hp | hp) | hp) | hp
      · exact ⟨_, .inl rfl, by simp only [absMove, dq]; exact congrArg _ hp.symm⟩
      · exact ⟨_, .inr (.inl rfl), by simp only [absMove, dr]; exact congrArg _ hp.symm⟩
      · exact ⟨_, .inr (.inr (.inl rfl)), by simp only [absMove, db]; exact congrArg _ hp.symm⟩
      · exact ⟨_, .inr (.inr (.inr rfl)), by simp only [absMove, dn]; exact congrArg _ hp.symm⟩
    · simp [absMove, dq, dr, db, dn]

/-- the on-board squares a pawn on `x` may move to, in engine terms -/
def pawnTgt (p : Position) (x t : Nat) : Bool :=
  (t == addb x p.ctx.adv && cell p.board t == 0) ||
  (rankOf x == p.ctx.startRank && t == addb (addb x p.ctx.adv) p.ctx.adv && cell p.board t == 0 &&
    cell p.board (addb x p.ctx.adv) == 0) ||
  ((t == addb (addb x p.ctx.adv) 0xFF || t == addb (addb x p.ctx.adv) 1) &&
    (cell p.board t &&& p.ctx.enBit != 0 || t == p.ep))

theorem invalidSq_not_mem : InvalidSq ∉ sq88 := by decide

set_option maxRecDepth 100000 in
/-- the Boolean core of `pawn_pseudo`, over all well-formed target cells -/
theorem pawn_bool : ∀ v ∈ 0 :: pieceCodes, ∀ w A D Z1 C E PR : Bool, (E = true → v = 0) →
    (v &&& colorBit w == 0 &&
      (PR && (A && v == 0 || D && v == 0 && Z1 || C && v &&& Colorless != 0 || C && v == 0 && E))) =
    (PR && (A && v == 0 || D && v == 0 && Z1 || C && ((v &&& colorBit !w) != 0 || E))) := by
  decide +kernel

/-- what is proved about the moves generated from `x` to one target square `t` -/
structure TgtOk (P : Spec.Pos) (x t : Nat) (G : List (Move × Bool)) : Prop where
  frm_to : ∀ y ∈ G, (absMove y.1).frm = to64 x ∧ (absMove y.1).to = to64 t
  sound : ∀ y ∈ G, Spec.pseudo' P (absMove y.1) = true ∧ AuxOk P y
  complete : ∀ sm : Spec.Move, sm.frm = to64 x → sm.to = to64 t → Spec.pseudo' P sm = true →
    ∃ y ∈ G, absMove y.1 = sm
  nodup : (G.map fun y => absMove y.1).Nodup

theorem addb_ne {a d1 d2 : Nat} (h1 : d1 < 256) (h2 : d2 < 256) (h : d1 ≠ d2) : addb a d1 ≠ addb a d2 := by
  unfold addb; omega

theorem addb_ne_self {a d : Nat} (ha : a < 256) (h1 : 0 < d) (h2 : d < 256) : addb a d ≠ a := by
  unfold addb; omega

theorem advOf_lt (w : Bool) : 1 < advOf w ∧ advOf w < 255 := by cases w <;> decide

def push1 (board : Array Nat) (c : Ctx) (x : Nat) : List (Move × Bool) :=
  if cell board (addb x c.adv) == 0 then pawnTo c.promoRank x (addb x c.adv) false else []

def push2 (board : Array Nat) (c : Ctx) (x : Nat) : List (Move × Bool) :=
  if cell board (addb x c.adv) == 0 && (rankOf x == c.startRank && cell board (addb (addb x c.adv) c.adv) == 0)
  then [(⟨x, addb (addb x c.adv) c.adv, 0, addb x c.adv⟩, false)] else []

theorem pushList_eq (board : Array Nat) (c : Ctx) (x : Nat) :
    pushList board c x = push1 board c x ++ push2 board c x := by
  unfold pushList push1 push2
  cases h1 : (cell board (addb x c.adv) == 0) <;> simp [h1]

theorem tgt_disj {t1 t2 : Nat} {G1 G2 : List (Move × Bool)}
    (h1 : ∀ y ∈ G1, t1 ∈ sq88 ∧ (absMove y.1).to = to64 t1)
    (h2 : ∀ y ∈ G2, t2 ∈ sq88 ∧ (absMove y.1).to = to64 t2) (hne : t1 ≠ t2) :
    ∀ a ∈ G1.map (fun y => absMove y.1), ∀ b ∈ G2.map (fun y => absMove y.1), a ≠ b := by
  intro a ha b hb hab
  obtain ⟨y1, hy1, rfl⟩ := List.mem_map.1 ha
  obtain ⟨y2, hy2, e⟩ := List.mem_map.1 hb
  obtain ⟨v1, e1⟩ := h1 y1 hy1
  obtain ⟨v2, e2⟩ := h2 y2 hy2
  rw [← hab] at e
  rw [e, e1] at e2
  exact hne (to64_inj v1 v2 e2)

section Pawn
variable {p : Position} {kt : Killers} (env : Env p p.ctx (whiteTurn p) kt)
include env

theorem ep_eq {t : Nat} (ht : t ∈ sq88) : ((abs p).ep == some (to64 t)) = (t == p.ep) := by
  rcases env.ep with h | ⟨h, _⟩
  · have hv : isValid p.ep = false := by rw [h]; decide
    have hne : (t == p.ep) = false := by
      rw [h, beq_eq_false_iff_ne]; rintro rfl; exact invalidSq_not_mem ht
    simp [abs, hv, hne]
  · have hv : isValid p.ep = true := (mem_sq88.1 h).2
    simp only [abs, hv, if_true]
    rw [Bool.eq_iff_iff]
    simp only [beq_iff_eq, Option.some.injEq]
    rw [to64_eq_iff h ht]
    exact eq_comm

theorem pawn_pseudo {x t : Nat} (hf : x ∈ p.ctx.cur.pawns) (ht : t ∈ sq88) (sm : Spec.Move)
    (h1 : sm.frm = to64 x) (h2 : sm.to = to64 t) :
    Spec.pseudo' (abs p) sm = (promoOkB (colorOf (whiteTurn p)) sm && pawnTgt p x t) := by
  obtain ⟨hx, hcell, hg⟩ := pawn_mem env hf
  have hat : (abs p).at sm.frm = some ⟨colorOf (whiteTurn p), .pawn⟩ := by
    rw [h1, at_eq env hx, hcell]; exact decode_pawn _
  have hnp : (Spec.rankOf (to64 x) != Spec.promoRank (colorOf (whiteTurn p))) = true := by
    simpa using hg.notPromo
  rw [pseudo'_pawn hat]
  simp only [common, turn_eq, h1, h2, beq_self_eq_true, to64_lt hx, to64_lt ht, decide_true, Bool.true_and,
    tgtOk_eq env ht, hg.push t ht, hg.dbl t ht, hg.cap t ht, hg.mid, isNone_eq env ht, isNone_eq env hg.to1_mem,
    isSome_eq env ht, ep_eq env ht, hnp, Bool.and_true, pawnTgt, env.adv, env.startRank, env.enBit, env.curBit]
  have hE : (t == p.ep) = true → cell p.board t = 0 := by
    intro h
    rcases env.ep with h' | ⟨_, h'⟩
    · rw [beq_iff_eq] at h; rw [h, h'] at ht; exact absurd ht invalidSq_not_mem
    · rw [beq_iff_eq] at h; rw [h]; exact h'
  have hcode := cell_code env.board ht
  generalize cell p.board t = v at hcode hE ⊢
  exact pawn_bool v (List.mem_cons.2 hcode) _ _ _ _ _ _ _ hE

/-- the engine's target squares of a pawn are pairwise different -/
theorem pawn_distinct (x : Nat) :
    let to1 := addb x p.ctx.adv
    addb to1 0xFF ≠ to1 ∧ addb to1 1 ≠ to1 ∧ addb to1 p.ctx.adv ≠ to1 ∧ addb to1 0xFF ≠ addb to1 1 ∧
      addb to1 0xFF ≠ addb to1 p.ctx.adv ∧ addb to1 1 ≠ addb to1 p.ctx.adv := by
  have h := advOf_lt (whiteTurn p)
  have hlt := addb_lt x p.ctx.adv
  rw [env.adv] at hlt ⊢
  refine ⟨addb_ne_self hlt (by omega) (by omega), addb_ne_self hlt (by omega) (by omega),
    addb_ne_self hlt (by omega) (by omega), addb_ne (by omega) (by omega) (by omega),
    addb_ne (by omega) (by omega) (by omega), addb_ne (by omega) (by omega) (by omega)⟩

theorem capList_valid {x t : Nat} (hne : t ≠ InvalidSq) (hlt : t < 256) {y : Move × Bool}
    (hy : y ∈ capList p.board p.ctx p.ep x t) : t ∈ sq88 := by
  unfold capList at hy
  split at hy
  · rename_i hc
    simp only [Bool.or_eq_true, Bool.and_eq_true, beq_iff_eq] at hc
    rcases hc with hc | hc
    · exact mem_sq88.2 ⟨valid_lt128 hlt hc.1, hc.1⟩
    · rcases env.ep with h | ⟨h, _⟩
      · exact absurd (hc.trans h) hne
      · rw [hc]; exact h
  · cases hy

omit env in
theorem capList_eq {x t : Nat} (ht : t ∈ sq88) :
    capList p.board p.ctx p.ep x t =
      if (cell p.board t &&& p.ctx.enBit != 0 || t == p.ep) then pawnTo p.ctx.promoRank x t true else [] := by
  unfold capList
  rw [(mem_sq88.1 ht).2, Bool.true_and]

/-- captures (incl. en passant) towards one of the two capture squares -/
theorem cap_part {x t : Nat} (hf : x ∈ p.ctx.cur.pawns) (ht : t ∈ sq88)
    (hcap : t = addb (addb x p.ctx.adv) 0xFF ∨ t = addb (addb x p.ctx.adv) 1) :
    TgtOk (abs p) x t (capList p.board p.ctx p.ep x t) := by
  obtain ⟨hx, hcell, hg⟩ := pawn_mem env hf
  obtain ⟨d1, d2, d3, d4, d5, d6⟩ := pawn_distinct env x
  have hcapB : (t == addb (addb x p.ctx.adv) 0xFF || t == addb (addb x p.ctx.adv) 1) = true := by
    rcases hcap with h | h <;> simp [← h]
  have hn1 : (t == addb x p.ctx.adv) = false := by
    rw [beq_eq_false_iff_ne]; rcases hcap with h | h <;> rw [h]
    · exact d1
    · exact d2
  have hn2 : (t == addb (addb x p.ctx.adv) p.ctx.adv) = false := by
    rw [beq_eq_false_iff_ne]; rcases hcap with h | h <;> rw [h]
    · exact d5
    · exact d6
  have hrel : capRel (colorOf (whiteTurn p)) (to64 x) (to64 t) = true := by
    rw [hg.cap t ht, ← env.adv]; exact hcapB
  obtain ⟨A1, A2, A3⟩ := pawnTo_spec (whiteTurn p) x ht true
  have htgt : pawnTgt p x t = (cell p.board t &&& p.ctx.enBit != 0 || t == p.ep) := by
    simp only [pawnTgt, hn1, hn2, hcapB, Bool.false_and, Bool.and_false, Bool.false_or, Bool.true_and]
  rw [capList_eq ht, env.promoRank]
  cases hc : (cell p.board t &&& p.ctx.enBit != 0 || t == p.ep)
  · refine ⟨by simp, by simp, ?_, by simp⟩
    intro sm h1 h2 hs
    rw [pawn_pseudo env hf ht sm h1 h2, htgt, hc, Bool.and_false] at hs
    cases hs
  · simp only [if_true]
    refine ⟨fun y hy => ⟨(A1 y hy).1, (A1 y hy).2.1⟩, ?_, ?_, A3⟩
    · intro y hy
      obtain ⟨a1, a2, a3, a4, a5⟩ := A1 y hy
      have hat : (abs p).at (absMove y.1).frm = some ⟨colorOf (whiteTurn p), .pawn⟩ := by
        rw [a1, at_eq env hx, hcell]; exact decode_pawn _
      refine ⟨?_, ?_, .inl a4, ?_⟩
      · rw [pawn_pseudo env hf ht _ a1 a2, a3, htgt, hc]; rfl
      · rw [a5, Bool.true_or, isTactical_pawn hat, a1, a2]
        simp only [capRel, Bool.and_eq_true, beq_iff_eq] at hrel
        have hfile : (Spec.fileOf (to64 x) != Spec.fileOf (to64 t)) = true := by
          rw [bne_iff_ne]; exact (adiff_one_ne hrel.1).symm
        cases hs : ((abs p).at (to64 t)) <;> simp [hfile]
      · rw [a4, absEp_invalid, apply_ep hat, a1, a2]
        simp only [capRel, Bool.and_eq_true, beq_iff_eq] at hrel
        rw [hrel.2]
        have := fwd_adiff (colorOf (whiteTurn p)) (Spec.rankOf (to64 x))
        simp [this]
    · intro sm h1 h2 hs
      rw [pawn_pseudo env hf ht sm h1 h2, Bool.and_eq_true] at hs
      exact A2 sm h1 h2 hs.1

/-- single pushes (incl. promotions) -/
theorem push1_part {x : Nat} (hf : x ∈ p.ctx.cur.pawns) :
    TgtOk (abs p) x (addb x p.ctx.adv) (push1 p.board p.ctx x) := by
  obtain ⟨hx, hcell, hg⟩ := pawn_mem env hf
  obtain ⟨d1, d2, d3, d4, d5, d6⟩ := pawn_distinct env x
  have ht : addb x p.ctx.adv ∈ sq88 := by rw [env.adv]; exact hg.to1_mem
  have hrel : pushRel (colorOf (whiteTurn p)) (to64 x) (to64 (addb x p.ctx.adv)) = true := by
    rw [hg.push _ ht, ← env.adv]; simp
  obtain ⟨A1, A2, A3⟩ := pawnTo_spec (whiteTurn p) x ht false
  have htgt : pawnTgt p x (addb x p.ctx.adv) = (cell p.board (addb x p.ctx.adv) == 0) := by
    have e2 : (addb x p.ctx.adv == addb (addb x p.ctx.adv) p.ctx.adv) = false := by
      rw [beq_eq_false_iff_ne]; exact d3.symm
    have e3 : (addb x p.ctx.adv == addb (addb x p.ctx.adv) 0xFF) = false := by
      rw [beq_eq_false_iff_ne]; exact d1.symm
    have e4 : (addb x p.ctx.adv == addb (addb x p.ctx.adv) 1) = false := by
      rw [beq_eq_false_iff_ne]; exact d2.symm
    simp only [pawnTgt, e2, e3, e4, beq_self_eq_true, Bool.true_and, Bool.false_and, Bool.and_false,
      Bool.or_false, Bool.false_or]
  unfold push1
  rw [env.promoRank]
  cases hc : (cell p.board (addb x p.ctx.adv) == 0)
  · refine ⟨by simp, by simp, ?_, by simp⟩
    intro sm h1 h2 hs
    rw [pawn_pseudo env hf ht sm h1 h2, htgt, hc, Bool.and_false] at hs
    cases hs
  · simp only [if_true]
    refine ⟨fun y hy => ⟨(A1 y hy).1, (A1 y hy).2.1⟩, ?_, ?_, A3⟩
    · intro y hy
      obtain ⟨a1, a2, a3, a4, a5⟩ := A1 y hy
      have hat : (abs p).at (absMove y.1).frm = some ⟨colorOf (whiteTurn p), .pawn⟩ := by
        rw [a1, at_eq env hx, hcell]; exact decode_pawn _
      refine ⟨?_, ?_, .inl a4, ?_⟩
      · rw [pawn_pseudo env hf ht _ a1 a2, a3, htgt, hc]; rfl
      · rw [a5, Bool.false_or, isTactical_pawn hat, a1, a2]
        simp only [pushRel, Bool.and_eq_true, beq_iff_eq] at hrel
        have hfile : (Spec.fileOf (to64 x) != Spec.fileOf (to64 (addb x p.ctx.adv))) = false := by
          rw [hrel.1]; simp
        have hsome : ((abs p).at (to64 (addb x p.ctx.adv))).isSome = false := by
          rw [isSome_eq env ht]
          rw [beq_iff_eq] at hc
          rw [hc]; rfl
        simp [hfile, hsome]
      · rw [a4, absEp_invalid, apply_ep hat, a1, a2]
        simp only [pushRel, Bool.and_eq_true, beq_iff_eq] at hrel
        rw [hrel.2]
        have := fwd_adiff (colorOf (whiteTurn p)) (Spec.rankOf (to64 x))
        simp [this]
    · intro sm h1 h2 hs
      rw [pawn_pseudo env hf ht sm h1 h2, Bool.and_eq_true] at hs
      exact A2 sm h1 h2 hs.1

omit env in
theorem push2_nil {x : Nat} (h : (rankOf x == p.ctx.startRank) = false) : push2 p.board p.ctx x = [] := by
  simp [push2, h]

/-- the double push from the start rank -/
theorem push2_part {x : Nat} (hf : x ∈ p.ctx.cur.pawns) (hstart : (rankOf x == p.ctx.startRank) = true) :
    addb (addb x p.ctx.adv) p.ctx.adv ∈ sq88 ∧
    TgtOk (abs p) x (addb (addb x p.ctx.adv) p.ctx.adv) (push2 p.board p.ctx x) := by
  obtain ⟨hx, hcell, hg⟩ := pawn_mem env hf
  obtain ⟨d1, d2, d3, d4, d5, d6⟩ := pawn_distinct env x
  have hstart' : rankOf x = startRankOf (whiteTurn p) := by rw [← env.startRank]; simpa using hstart
  have ht1 : addb x p.ctx.adv ∈ sq88 := by rw [env.adv]; exact hg.to1_mem
  have ht : addb (addb x p.ctx.adv) p.ctx.adv ∈ sq88 := by rw [env.adv]; exact hg.to2_mem hstart'
  obtain ⟨x1, x2, x3⟩ := hg.dblAux hstart'
  rw [← env.adv] at x1 x2 x3
  have hrel : dblRel (colorOf (whiteTurn p)) (to64 x) (to64 (addb (addb x p.ctx.adv) p.ctx.adv)) = true := by
    rw [hg.dbl _ ht, ← env.adv, ← env.startRank, hstart]; simp
  have hnpr : (Spec.rankOf (to64 (addb (addb x p.ctx.adv) p.ctx.adv))
      == Spec.promoRank (colorOf (whiteTurn p))) = false := by
    rw [promoRank_iff _ ht, beq_eq_false_iff_ne]; exact x1
  have htgt : pawnTgt p x (addb (addb x p.ctx.adv) p.ctx.adv) =
      (cell p.board (addb (addb x p.ctx.adv) p.ctx.adv) == 0 && cell p.board (addb x p.ctx.adv) == 0) := by
    have e1 : (addb (addb x p.ctx.adv) p.ctx.adv == addb x p.ctx.adv) = false := by
      rw [beq_eq_false_iff_ne]; exact d3
    have e3 : (addb (addb x p.ctx.adv) p.ctx.adv == addb (addb x p.ctx.adv) 0xFF) = false := by
      rw [beq_eq_false_iff_ne]; exact d5.symm
    have e4 : (addb (addb x p.ctx.adv) p.ctx.adv == addb (addb x p.ctx.adv) 1) = false := by
      rw [beq_eq_false_iff_ne]; exact d6.symm
    simp only [pawnTgt, e1, e3, e4, hstart, beq_self_eq_true, Bool.true_and, Bool.false_and, Bool.and_false,
      Bool.or_false, Bool.false_or]
  have habs : absMove (⟨x, addb (addb x p.ctx.adv) p.ctx.adv, 0, addb x p.ctx.adv⟩ : Move) =
      ⟨to64 x, to64 (addb (addb x p.ctx.adv) p.ctx.adv), none⟩ := by
    simp only [absMove, decodePromo_zero]
  have hpok : ∀ sm : Spec.Move, sm.to = to64 (addb (addb x p.ctx.adv) p.ctx.adv) →
      promoOkB (colorOf (whiteTurn p)) sm = (sm.promo == none) := by
    intro sm h2
    simp only [promoOkB, h2, hnpr, Bool.false_eq_true, if_false]
  refine ⟨ht, ?_⟩
  unfold push2
  rw [hstart, Bool.true_and]
  cases hc : (cell p.board (addb x p.ctx.adv) == 0 && cell p.board (addb (addb x p.ctx.adv) p.ctx.adv) == 0)
  · refine ⟨by simp, by simp, ?_, by simp⟩
    intro sm h1 h2 hs
    rw [pawn_pseudo env hf ht sm h1 h2, htgt, Bool.and_comm (cell p.board _ == 0), hc, Bool.and_false] at hs
    cases hs
  · simp only [if_true, List.mem_singleton, List.map_cons, List.map_nil]
    rw [Bool.and_eq_true] at hc
    refine ⟨?_, ?_, ?_, by simp⟩
    · intro y hy
      rw [List.mem_singleton] at hy; subst hy
      rw [habs]; exact ⟨rfl, rfl⟩
    · intro y hy
      rw [List.mem_singleton] at hy; subst hy
      have hat : (abs p).at (to64 x) = some ⟨colorOf (whiteTurn p), .pawn⟩ := by
        rw [at_eq env hx, hcell]; exact decode_pawn _
      refine ⟨?_, ?_, .inr ht1, ?_⟩
      · simp only [habs]
        rw [pawn_pseudo env hf ht _ rfl rfl, hpok _ rfl, htgt, hc.1, hc.2]; rfl
      · simp only [habs]
        rw [isTactical_pawn (m := ⟨to64 x, _, none⟩) hat]
        simp only [dblRel, Bool.and_eq_true, beq_iff_eq] at hrel
        have hfile : (Spec.fileOf (to64 x) != Spec.fileOf (to64 (addb (addb x p.ctx.adv) p.ctx.adv))) = false := by
          rw [hrel.1.1]; simp
        have hsome : ((abs p).at (to64 (addb (addb x p.ctx.adv) p.ctx.adv))).isSome = false := by
          rw [isSome_eq env ht]
          have := hc.2
          rw [beq_iff_eq] at this
          rw [this]; rfl
        simp [hfile, hsome]
      · simp only [habs]
        rw [apply_ep (m := ⟨to64 x, _, none⟩) hat]
        simp only [beq_self_eq_true, Bool.true_and, x2, if_true, x3, absEp, (mem_sq88.1 ht1).2]
    · intro sm h1 h2 hs
      rw [pawn_pseudo env hf ht sm h1 h2, Bool.and_eq_true, hpok sm h2, beq_iff_eq] at hs
      refine ⟨_, List.mem_singleton.2 rfl, ?_⟩
      rw [habs]
      cases sm
      simp only at h1 h2 hs
      rw [h1, h2, hs.1]

theorem pawn_originOk {x : Nat} (hf : x ∈ p.ctx.cur.pawns) :
    OriginOk (abs p) x (pawnList p.board p.ctx p.ep x) := by
  obtain ⟨hx, hcell, hg⟩ := pawn_mem env hf
  obtain ⟨d1, d2, d3, d4, d5, d6⟩ := pawn_distinct env x
  have hat : (abs p).at (to64 x) = some ⟨colorOf (whiteTurn p), .pawn⟩ := by
    rw [at_eq env hx, hcell]; exact decode_pawn _
  have ht1 : addb x p.ctx.adv ∈ sq88 := by rw [env.adv]; exact hg.to1_mem
  -- the four parts
  have hQv : ∀ y ∈ capList p.board p.ctx p.ep x (addb (addb x p.ctx.adv) 0xFF),
      addb (addb x p.ctx.adv) 0xFF ∈ sq88 := fun y hy =>
    capList_valid env (by rw [env.adv]; exact hg.toQ_ne) (addb_lt _ _) hy
  have hKv : ∀ y ∈ capList p.board p.ctx p.ep x (addb (addb x p.ctx.adv) 1),
      addb (addb x p.ctx.adv) 1 ∈ sq88 := fun y hy =>
    capList_valid env (by rw [env.adv]; exact hg.toK_ne) (addb_lt _ _) hy
  have hQ := fun h => cap_part env hf (t := addb (addb x p.ctx.adv) 0xFF) h (.inl rfl)
  have hK := fun h => cap_part env hf (t := addb (addb x p.ctx.adv) 1) h (.inr rfl)
  have h1 := push1_part env hf
  have h2v : ∀ y ∈ push2 p.board p.ctx x, (rankOf x == p.ctx.startRank) = true := by
    intro y hy
    cases hs : (rankOf x == p.ctx.startRank)
    · rw [push2_nil hs] at hy; cases hy
    · rfl
  have h2 := fun h => push2_part env hf h
  unfold pawnList
  rw [pushList_eq]
  refine ⟨?_, ?_, ?_, ?_⟩
  · intro y hy
    simp only [List.mem_append] at hy
    rcases hy with (hy | hy) | (hy | hy)
    · exact ((hQ (hQv y hy)).frm_to y hy).1
    · exact ((hK (hKv y hy)).frm_to y hy).1
    · exact (h1.frm_to y hy).1
    · exact ((h2 (h2v y hy)).2.frm_to y hy).1
  · intro y hy
    simp only [List.mem_append] at hy
    rcases hy with (hy | hy) | (hy | hy)
    · exact (hQ (hQv y hy)).sound y hy
    · exact (hK (hKv y hy)).sound y hy
    · exact h1.sound y hy
    · exact (h2 (h2v y hy)).2.sound y hy
  · intro sm hfr hs
    have hlt : sm.to < 64 := by
      have hat' : (abs p).at sm.frm = some ⟨colorOf (whiteTurn p), .pawn⟩ := by rw [hfr]; exact hat
      have := hs
      rw [pseudo'_pawn hat'] at this
      simp only [common, Bool.and_eq_true, decide_eq_true_eq] at this
      exact this.1.1.2
    have ht := to88_mem hlt
    have hto : sm.to = to64 (to88 sm.to) := (to64_to88 hlt).symm
    have hp := hs
    rw [pawn_pseudo env hf ht sm hfr hto, Bool.and_eq_true] at hp
    have htg := hp.2
    simp only [pawnTgt, Bool.or_eq_true, Bool.and_eq_true, beq_iff_eq] at htg
    rcases htg with (⟨e, _⟩ | ⟨⟨⟨hst, e⟩, _⟩, _⟩) | ⟨e | e, _⟩
    · obtain ⟨y, hy, hye⟩ := h1.complete sm hfr (by rw [← e]; exact hto) hs
      exact ⟨y, by simp only [List.mem_append]; exact .inr (.inl hy), hye⟩
    · obtain ⟨y, hy, hye⟩ := (h2 (by simpa using hst)).2.complete sm hfr (by rw [← e]; exact hto) hs
      exact ⟨y, by simp only [List.mem_append]; exact .inr (.inr hy), hye⟩
    · obtain ⟨y, hy, hye⟩ := (hQ (by rw [← e]; exact ht)).complete sm hfr (by rw [← e]; exact hto) hs
      exact ⟨y, by simp only [List.mem_append]; exact .inl (.inl hy), hye⟩
    · obtain ⟨y, hy, hye⟩ := (hK (by rw [← e]; exact ht)).complete sm hfr (by rw [← e]; exact hto) hs
      exact ⟨y, by simp only [List.mem_append]; exact .inl (.inr hy), hye⟩
  · have vQ : ∀ y ∈ capList p.board p.ctx p.ep x (addb (addb x p.ctx.adv) 0xFF),
        addb (addb x p.ctx.adv) 0xFF ∈ sq88 ∧ (absMove y.1).to = to64 (addb (addb x p.ctx.adv) 0xFF) :=
      fun y hy => ⟨hQv y hy, ((hQ (hQv y hy)).frm_to y hy).2⟩
    have vK : ∀ y ∈ capList p.board p.ctx p.ep x (addb (addb x p.ctx.adv) 1),
        addb (addb x p.ctx.adv) 1 ∈ sq88 ∧ (absMove y.1).to = to64 (addb (addb x p.ctx.adv) 1) :=
      fun y hy => ⟨hKv y hy, ((hK (hKv y hy)).frm_to y hy).2⟩
    have v1 : ∀ y ∈ push1 p.board p.ctx x,
        addb x p.ctx.adv ∈ sq88 ∧ (absMove y.1).to = to64 (addb x p.ctx.adv) :=
      fun y hy => ⟨ht1, (h1.frm_to y hy).2⟩
    have v2 : ∀ y ∈ push2 p.board p.ctx x,
        addb (addb x p.ctx.adv) p.ctx.adv ∈ sq88 ∧
          (absMove y.1).to = to64 (addb (addb x p.ctx.adv) p.ctx.adv) :=
      fun y hy => ⟨(h2 (h2v y hy)).1, ((h2 (h2v y hy)).2.frm_to y hy).2⟩
    have nQ : ((capList p.board p.ctx p.ep x (addb (addb x p.ctx.adv) 0xFF)).map fun y => absMove y.1).Nodup := by
      cases hl : capList p.board p.ctx p.ep x (addb (addb x p.ctx.adv) 0xFF) with
      | nil => simp
      | cons a l => rw [← hl]; exact (hQ (hQv a (by rw [hl]; simp))).nodup
    have nK : ((capList p.board p.ctx p.ep x (addb (addb x p.ctx.adv) 1)).map fun y => absMove y.1).Nodup := by
      cases hl : capList p.board p.ctx p.ep x (addb (addb x p.ctx.adv) 1) with
      | nil => simp
      | cons a l => rw [← hl]; exact (hK (hKv a (by rw [hl]; simp))).nodup
    have n2 : ((push2 p.board p.ctx x).map fun y => absMove y.1).Nodup := by
      cases hl : push2 p.board p.ctx x with
      | nil => simp
      | cons a l => rw [← hl]; exact (h2 (h2v a (by rw [hl]; simp))).2.nodup
    simp only [List.map_append]
    rw [List.nodup_append, List.nodup_append, List.nodup_append]
    refine ⟨⟨nQ, nK, tgt_disj vQ vK d4⟩, ⟨h1.nodup, n2, tgt_disj v1 v2 d3.symm⟩, ?_⟩
    intro a ha b hb
    rcases List.mem_append.1 ha with ha | ha <;> rcases List.mem_append.1 hb with hb | hb
    · exact tgt_disj vQ v1 d1 a ha b hb
    · exact tgt_disj vQ v2 d5 a ha b hb
    · exact tgt_disj vK v1 d2 a ha b hb
    · exact tgt_disj vK v2 d6 a ha b hb

end Pawn

/-! ### assembly -/

theorem pseudo_origin {P : Spec.Pos} {m : Spec.Move} (h : Spec.pseudo P m = true) :
    ∃ man, P.at m.frm = some man ∧ man.color = P.turn ∧ m.frm < 64 := by
  unfold Spec.pseudo at h
  cases hat : P.at m.frm with
  | none => simp [hat] at h
  | some man =>
    simp only [hat, Bool.and_eq_true, decide_eq_true_eq, beq_iff_eq] at h
    exact ⟨man, rfl, h.1.1.1.1, h.1.1.1.2⟩

theorem nodup_flatMap_key {α : Type} {l : List α} {f : α → List Spec.Move} (orig : α → Nat)
    (hl : (l.map orig).Nodup) (hf : ∀ x ∈ l, (f x).Nodup) (hk : ∀ x ∈ l, ∀ b ∈ f x, b.frm = orig x) :
    (l.flatMap f).Nodup := by
  induction l with
  | nil => simp
  | cons a l ih =>
    rw [List.map_cons, List.nodup_cons] at hl
    rw [List.flatMap_cons, List.nodup_append]
    refine ⟨hf a List.mem_cons_self,
      ih hl.2 (fun x hx => hf x (List.mem_cons_of_mem _ hx)) (fun x hx => hk x (List.mem_cons_of_mem _ hx)), ?_⟩
    intro b hb b' hb' e
    obtain ⟨x', hx', hbx⟩ := List.mem_flatMap.1 hb'
    have e1 := hk a List.mem_cons_self b hb
    have e2 := hk x' (List.mem_cons_of_mem _ hx') b' hbx
    rw [← e, e1] at e2
    exact hl.1 (List.mem_map.2 ⟨x', hx', e2.symm⟩)

theorem pawn_not_officer (w : Bool) : pawnOf w ∉ officersOf w ∧ kingOf w ∉ officersOf w ∧ pawnOf w ≠ kingOf w := by
  cases w <;> decide

section Assembly
variable {p : Position} {kt : Killers} (env : Env p p.ctx (whiteTurn p) kt)
include env

omit env in
theorem map_to64_nodup {l : List Nat} (hl : l.Nodup) (hv : ∀ x ∈ l, x ∈ sq88) : (l.map to64).Nodup :=
  List.Nodup.map_on (fun a ha b hb h => to64_inj (hv a ha) (hv b hb) h) hl

theorem genList_spec :
    (∀ y ∈ genList p, Spec.pseudo' (abs p) (absMove y.1) = true ∧ AuxOk (abs p) y) ∧
    (∀ sm : Spec.Move, Spec.pseudo' (abs p) sm = true → ∃ y ∈ genList p, absMove y.1 = sm) ∧
    ((genList p).map fun y => absMove y.1).Nodup := by
  have hP := fun x hx => pawn_originOk env (x := x) hx
  have hO := fun x hx => officer_originOk env (x := x) hx
  have hK := king_originOk env
  obtain ⟨hkv, hkc⟩ := king_mem env
  have hpv : ∀ x ∈ p.ctx.cur.pawns, x ∈ sq88 := fun x hx => (pawn_mem env hx).1
  have hov : ∀ x ∈ p.ctx.cur.pieces, x ∈ sq88 := fun x hx => (officer_mem env hx).1
  have hgl : genList p = p.ctx.cur.pawns.flatMap (pawnList p.board p.ctx p.ep) ++
      (p.ctx.cur.pieces.flatMap (officerList p.board p.ctx) ++
        (kingList p.board p.ctx (whiteTurn p) ++ castleList p.board p.ctx (whiteTurn p))) := by
    simp only [genList, List.append_assoc]
  rw [hgl]
  refine ⟨?_, ?_, ?_⟩
  · intro y hy
    rcases List.mem_append.1 hy with hy | hy
    · obtain ⟨x, hx, hyx⟩ := List.mem_flatMap.1 hy
      exact (hP x hx).sound y hyx
    · rcases List.mem_append.1 hy with hy | hy
      · obtain ⟨x, hx, hyx⟩ := List.mem_flatMap.1 hy
        exact (hO x hx).sound y hyx
      · exact hK.sound y hy
  · intro sm hs
    obtain ⟨man, hat, hcol, hlt⟩ := pseudo_origin (Spec.pseudo_of_pseudo' hs)
    have hx := to88_mem hlt
    have hfr : sm.frm = to64 (to88 sm.frm) := (to64_to88 hlt).symm
    rw [hfr, at_eq env hx] at hat
    rw [turn_eq] at hcol
    have hcl := classify (cell_code env.board hx) (whiteTurn p) (by rw [hat]; simp [hcol])
    obtain ⟨h1, h2⟩ := mem_sq88.1 hx
    have hsome := some_cell (lt_size env.board hx)
    rcases hcl with hc | hc | hc
    · have hmem : to88 sm.frm ∈ p.ctx.cur.pawns := (env.cur.pawns _).2 ⟨h1, h2, by rw [hsome, hc]⟩
      obtain ⟨y, hy, hye⟩ := (hP _ hmem).complete sm hfr hs
      exact ⟨y, List.mem_append_left _ (List.mem_flatMap.2 ⟨_, hmem, hy⟩), hye⟩
    · have hmem : to88 sm.frm ∈ p.ctx.cur.pieces :=
        (env.cur.pieces _).2 ⟨h1, h2, _, hc, hsome⟩
      obtain ⟨y, hy, hye⟩ := (hO _ hmem).complete sm hfr hs
      exact ⟨y, List.mem_append_right _ (List.mem_append_left _ (List.mem_flatMap.2 ⟨_, hmem, hy⟩)), hye⟩
    · have hmem : to88 sm.frm = p.ctx.cur.king := (env.cur.king _).2 ⟨h1, h2, by rw [hsome, hc]⟩
      obtain ⟨y, hy, hye⟩ := hK.complete sm (by rw [← hmem]; exact hfr) hs
      exact ⟨y, List.mem_append_right _ (List.mem_append_right _ hy), hye⟩
  · simp only [List.map_append, List.map_flatMap]
    have nP : (p.ctx.cur.pawns.flatMap fun x => (pawnList p.board p.ctx p.ep x).map fun y => absMove y.1).Nodup :=
      nodup_flatMap_key to64 (map_to64_nodup env.pawnsNodup hpv) (fun x hx => (hP x hx).nodup)
        (fun x hx b hb => by
          obtain ⟨y, hy, rfl⟩ := List.mem_map.1 hb
          exact (hP x hx).frm y hy)
    have nO : (p.ctx.cur.pieces.flatMap fun x => (officerList p.board p.ctx x).map fun y => absMove y.1).Nodup :=
      nodup_flatMap_key to64 (map_to64_nodup env.piecesNodup hov) (fun x hx => (hO x hx).nodup)
        (fun x hx b hb => by
          obtain ⟨y, hy, rfl⟩ := List.mem_map.1 hb
          exact (hO x hx).frm y hy)
    have nK := hK.nodup
    simp only [List.map_append] at nK
    obtain ⟨q1, q2, q3⟩ := pawn_not_officer (whiteTurn p)
    -- origins of the elements of each class
    have oP : ∀ a ∈ (p.ctx.cur.pawns.flatMap fun x => (pawnList p.board p.ctx p.ep x).map fun y => absMove y.1),
        ∃ x ∈ sq88, cell p.board x = pawnOf (whiteTurn p) ∧ a.frm = to64 x := by
      intro a ha
      obtain ⟨x, hx, hax⟩ := List.mem_flatMap.1 ha
      obtain ⟨y, hy, rfl⟩ := List.mem_map.1 hax
      exact ⟨x, hpv x hx, (pawn_mem env hx).2.1, (hP x hx).frm y hy⟩
    have oO : ∀ a ∈ (p.ctx.cur.pieces.flatMap fun x => (officerList p.board p.ctx x).map fun y => absMove y.1),
        ∃ x ∈ sq88, cell p.board x ∈ officersOf (whiteTurn p) ∧ a.frm = to64 x := by
      intro a ha
      obtain ⟨x, hx, hax⟩ := List.mem_flatMap.1 ha
      obtain ⟨y, hy, rfl⟩ := List.mem_map.1 hax
      exact ⟨x, hov x hx, (officer_mem env hx).2, (hO x hx).frm y hy⟩
    have oK : ∀ a ∈ (kingList p.board p.ctx (whiteTurn p)).map (fun y => absMove y.1) ++
        (castleList p.board p.ctx (whiteTurn p)).map (fun y => absMove y.1), a.frm = to64 p.ctx.cur.king := by
      intro a ha
      rw [← List.map_append] at ha
      obtain ⟨y, hy, rfl⟩ := List.mem_map.1 ha
      exact hK.frm y hy
    rw [List.nodup_append]
    refine ⟨nP, ?_, ?_⟩
    · rw [List.nodup_append]
      refine ⟨nO, nK, ?_⟩
      intro a ha b hb e
      obtain ⟨x, hx, hc, hf⟩ := oO a ha
      have := oK b hb
      rw [← e, hf] at this
      have := to64_inj hx hkv this
      rw [this, hkc] at hc
      exact q2 hc
    · intro a ha b hb e
      obtain ⟨x, hx, hc, hf⟩ := oP a ha
      rcases List.mem_append.1 hb with hb | hb
      · obtain ⟨x', hx', hc', hf'⟩ := oO b hb
        rw [← e, hf] at hf'
        have := to64_inj hx hx' hf'
        rw [← this, hc] at hc'
        exact q1 hc'
      · have := oK b hb
        rw [← e, hf] at this
        have := to64_inj hx hkv this
        rw [this, hkc] at hc
        exact q3 hc.symm

end Assembly

/-! ### legal moves satisfy `Spec.pseudo'` -/

theorem abs_board_size (p : Position) : (abs p).board.size = 64 := by
  simp [abs, absBoard]

theorem abs_unique_king {p : Position} {kt : Killers} (env : Env p p.ctx (whiteTurn p) kt) :
    ∀ s < 64, ∀ s' < 64, (abs p).at s = some ⟨(abs p).turn, .king⟩ →
      (abs p).at s' = some ⟨(abs p).turn, .king⟩ → s = s' := by
  have key : ∀ s < 64, (abs p).at s = some ⟨(abs p).turn, .king⟩ → to88 s = p.ctx.cur.king := by
    intro s hs h
    have hm := to88_mem hs
    rw [← to64_to88 hs, at_eq env hm, turn_eq] at h
    have := decode_eq_king (cell_code env.board hm) _ h
    obtain ⟨h1, h2⟩ := mem_sq88.1 hm
    exact (env.cur.king _).2 ⟨h1, h2, by rw [some_cell (lt_size env.board hm), this]⟩
  intro s hs s' hs' h h'
  have e := (key s hs h).trans (key s' hs' h').symm
  rw [← to64_to88 hs, ← to64_to88 hs', e]

theorem legal_pseudo' {p : Position} {kt : Killers} (env : Env p p.ctx (whiteTurn p) kt) {sm : Spec.Move}
    (h : Spec.legal (abs p) sm = true) : Spec.pseudo' (abs p) sm = true :=
  KingStep.pseudo'_of_legal (abs_board_size p) (abs_unique_king env) h

/-! ### from the pure list back to the generator's result -/

theorem view_of_maps {ms ms' : List RMove} (h1 : ms.map (·.mov) = ms'.map (·.mov))
    (h2 : ms.map (·.tactical) = ms'.map (·.tactical)) : ms.map view = ms'.map view := by
  induction ms generalizing ms' with
  | nil =>
    cases ms' with
    | nil => rfl
    | cons b l => simp at h1
  | cons a l ih =>
    cases ms' with
    | nil => simp at h1
    | cons b l' =>
      simp only [List.map_cons, List.cons.injEq] at h1 h2 ⊢
      exact ⟨by simp [view, h1.1, h2.1], ih h1.2 h2.2⟩

/-- whatever killer table is used, a successful generation on a well-formed position yields `genList p`
    (without rankings) -/
theorem genPseudo_view_eq {p : Position} (inv : Inv p) {kt : Killers} {ms : List RMove}
    (h : genPseudo kt p = .ok ms) : ms.map view = genList p := by
  obtain ⟨ms', h', hv⟩ := genPseudo_genList inv Props.C18.killers_empty_size
  obtain ⟨e1, e2⟩ := Magog.Lemmas.KillerIndep.genPseudo_movs_indep kt Killers.empty p ms ms' h h'
  rw [view_of_maps e1 e2, hv]

theorem mem_view {ms : List RMove} {rm : RMove} (h : rm ∈ ms) : (rm.mov, rm.tactical) ∈ ms.map view :=
  List.mem_map.2 ⟨rm, h, rfl⟩

end Magog.GenPseudo
