import Magog.Lemmas.MMGen
import Magog.Model.Notation
import Magog.Props.C02

/-! Property C17, the `apply` clause of `OpsTotal` for the real operation: `Generator.ApplyUciMove`
    (`Model.applyUciMove`) on the UCI rendering `⟨frm, to, promo, InvalidSq⟩` of a generated, accepted move `m`
    plays exactly `m`: the en-passant target it reconstructs from the origin / destination ranks is the
    generator's (`dbl`), and for every other class of generated move the reconstruction does not fire. -/

namespace Magog.TotalApply
open Magog Magog.Model Magog.MM

/-- the move `ApplyUciMove` hands to `MakeMove` when the origin square holds `pc` -/
def uciFix (pc : Nat) (m : Move) : Move :=
  if pc &&& Colorless == Pawn &&
      ((rankOf m.frm == Gen.Rank7 && rankOf m.to == Gen.Rank5) || (rankOf m.frm == Gen.Rank2 && rankOf m.to == Gen.Rank4))
    then { m with ep := ((m.frm + m.to) % 256) / 2 } else m

theorem applyUciMove_of_board {p : Position} {m : Move} {pc : Nat} (h : p.board[m.frm]? = some pc) :
    applyUciMove p m = (do
      let r ← makeMove p (uciFix pc m)
      if r.2 then pure r.1 else throw (.explicit "Applying uci move resulted in illegal position")) := by
  unfold applyUciMove
  rw [Count.bget_ok_iff.mpr h]
  rfl

/-- the two-rank test of `ApplyUciMove`, irrespective of colour (as in the Go code) -/
def twoRank (frm to : Nat) : Bool :=
  (rankOf frm == Gen.Rank7 && rankOf to == Gen.Rank5) || (rankOf frm == Gen.Rank2 && rankOf to == Gen.Rank4)

theorem uciFix_eq (pc : Nat) (m : Move) :
    uciFix pc m = if pc &&& Colorless == Pawn && twoRank m.frm m.to then { m with ep := ((m.frm + m.to) % 256) / 2 } else m := rfl

/-! ### finite facts (all squares, both colours, both rank patterns) -/

/-- a double push from the start rank passes the test and the midpoint is the skipped square -/
theorem dbl_fact : ∀ f ∈ Geo.sq88, ∀ w : Bool, rankOf f = MMAbs.startRankOf w →
    twoRank f (addb (addb f (MMAbs.advOf w)) (MMAbs.advOf w)) = true ∧
    ((f + addb (addb f (MMAbs.advOf w)) (MMAbs.advOf w)) % 256) / 2 = addb f (MMAbs.advOf w) := by
  decide +kernel

/-- a single step never spans two ranks -/
theorem push_fact : ∀ f ∈ Geo.sq88, ∀ w : Bool, twoRank f (addb f (MMAbs.advOf w)) = false := by
  decide +kernel

/-- a pawn capture (ordinary or en passant) onto a board square never spans two ranks (off board it can:
    a7 + S + W = 0x4F has "rank 5"; such a target is never generated) -/
theorem cap_fact : ∀ f ∈ Geo.sq88, ∀ w : Bool, ∀ d : Nat, d = 255 ∨ d = 1 →
    addb (addb f (MMAbs.advOf w)) d ∈ Geo.sq88 → twoRank f (addb (addb f (MMAbs.advOf w)) d) = false := by
  intro f hf w d hd
  have h : ∀ f ∈ Geo.sq88, ∀ w : Bool,
      (addb (addb f (MMAbs.advOf w)) 255 ∈ Geo.sq88 → twoRank f (addb (addb f (MMAbs.advOf w)) 255) = false) ∧
      (addb (addb f (MMAbs.advOf w)) 1 ∈ Geo.sq88 → twoRank f (addb (addb f (MMAbs.advOf w)) 1) = false) := by
    decide +kernel
  rcases hd with rfl | rfl
  · exact (h f hf w).1
  · exact (h f hf w).2

theorem pawn_code : ∀ w : Bool, (Atk.pawnOf w &&& Colorless == Pawn) = true := by decide
theorem officer_code : ∀ w : Bool, ∀ c ∈ Atk.officersOf w, (c &&& Colorless == Pawn) = false := by decide
theorem king_code : ∀ w : Bool, (Atk.kingOf w &&& Colorless == Pawn) = false := by decide

/-- **The reconstruction is exact**: for every class of generated move, the origin square is occupied and
    `ApplyUciMove`'s fix-up of the UCI rendering gives back the generated move (incl. its `ep` field). -/
theorem uciFix_generated {p : Position} {m : Move} (hI : Inv p) (hc : MMAbs.GenCase p m) :
    ∃ pc, p.board[m.frm]? = some pc ∧ uciFix pc ⟨m.frm, m.to, m.promo, InvalidSq⟩ = m := by
  have hking : p.board[(p.side (whiteTurn p)).king]? = some (Atk.kingOf (whiteTurn p)) :=
    (((MMAbs.inv_side hI (whiteTurn p)).king _).mp rfl).2.2
  obtain ⟨frm, to, promo, ep⟩ := m
  cases hc with
  | push hfrm hpawn hto hto88 hempty hep hpromo =>
    dsimp only at *
    refine ⟨_, hpawn, ?_⟩
    subst hep
    rw [uciFix_eq]
    dsimp only
    rw [hto, push_fact frm hfrm, Bool.and_false]
    rfl
  | dbl hfrm hpawn hrank hto hto88 hempty hep hpromo =>
    dsimp only at *
    refine ⟨_, hpawn, ?_⟩
    obtain ⟨h1, h2⟩ := dbl_fact frm hfrm _ hrank
    rw [uciFix_eq]
    dsimp only
    rw [hto, h1, pawn_code, Bool.and_true, if_pos rfl, h2, hep]
  | capture hfrm hpawn d hd hto hto88 x hx hen hep hpromo =>
    dsimp only at *
    refine ⟨_, hpawn, ?_⟩
    subst hep
    rw [uciFix_eq]
    dsimp only
    rw [hto, cap_fact frm hfrm _ d hd (hto ▸ hto88), Bool.and_false]
    rfl
  | enpassant hfrm hpawn d hd hto hepsq hepok hep hpromo =>
    dsimp only at *
    refine ⟨_, hpawn, ?_⟩
    subst hep
    rw [uciFix_eq]
    dsimp only
    have hto88 : to ∈ Geo.sq88 := hepsq ▸ Geo.mem_sq88.mpr ⟨hepok.1, hepok.2.1⟩
    rw [hto, cap_fact frm hfrm _ d hd (hto ▸ hto88), Bool.and_false]
    rfl
  | officer hfrm c hc hpc hto88 x hx hown hep hpromo =>
    dsimp only at *
    refine ⟨_, hpc, ?_⟩
    subst hep
    rw [uciFix_eq, officer_code _ c hc, Bool.false_and]
    rfl
  | king hk d hd hto hto88 x hx hown hep hpromo =>
    dsimp only at *
    subst hk hep
    refine ⟨_, hking, ?_⟩
    rw [uciFix_eq, king_code, Bool.false_and]
    rfl
  | castleK hk hflag hhome hto hempty hep hpromo =>
    dsimp only at *
    subst hk hep
    refine ⟨_, hking, ?_⟩
    rw [uciFix_eq, king_code, Bool.false_and]
    rfl
  | castleQ hk hflag hhome hto hempty hep hpromo =>
    dsimp only at *
    subst hk hep
    refine ⟨_, hking, ?_⟩
    rw [uciFix_eq, king_code, Bool.false_and]
    rfl

/-- the UCI move string of a generated move, re-applied through `ApplyUciMove`, is that move: the reconstructed
    en-passant target equals the generator's -/
theorem applyUciMove_eq {p : Position} {m : Move} (hI : Inv p) (hG : Generated p m) {q : Position}
    (h : makeMove p m = .ok (q, true)) : applyUciMove p ⟨m.frm, m.to, m.promo, InvalidSq⟩ = .ok q := by
  obtain ⟨pc, hpc, hfix⟩ := uciFix_generated hI (MMAbs.generated_cases hI hG)
  rw [applyUciMove_of_board (m := ⟨m.frm, m.to, m.promo, InvalidSq⟩) hpc, hfix, h]
  rfl

theorem applyUciMove_total {p : Position} {m : Move} (hI : Inv p) (hS : OppSafe p) (hG : Generated p m)
    (hacc : ∃ q, makeMove p m = .ok (q, true)) :
    ∃ p', applyUciMove p ⟨m.frm, m.to, m.promo, InvalidSq⟩ = .ok p' ∧ Inv p' ∧ OppSafe p' := by
  obtain ⟨q, hq⟩ := hacc
  obtain ⟨h1, h2⟩ := Props.C02.makeMove_inv hI hS hG hq
  exact ⟨q, applyUciMove_eq hI hG hq, h1, h2⟩

/-! ### non-vacuity: 1. e2-e4 on the start position (a double push; the en-passant square e3 is reconstructed) -/

example : ∃ p', applyUciMove startPosition ⟨0x14, 0x34, 0, InvalidSq⟩ = .ok p' ∧ Inv p' ∧ OppSafe p' := by
  obtain ⟨_, p', h, _⟩ := gameOk_of_B (kt := Killers.empty) (p := startPosition)
    (ms := [⟨0x14, 0x34, 0, 0x24⟩]) (by decide +kernel)
  exact applyUciMove_total (m := ⟨0x14, 0x34, 0, 0x24⟩) inv_startPosition Props.C02.oppSafe_start
    Props.C02.generated_e2e4 ⟨p', h⟩

end Magog.TotalApply
