import Magog.Lemmas.UciTotal
import Magog.Lemmas.TotalApply
import Magog.Props.C02

/-! Property C17 for the operations the driver runs, and the (now historical) generalisation of the totality
    chain by a predicate `FenOk` on loaded positions.

HISTORY. About the UNREPAIRED engine, `OpsTotal`'s field `fen : ∀ s p, parseFen s = .ok (.ok p) → G p` could not be
discharged for the real operations with any `G` on which `perft` is total: the FEN loader accepted positions in
which the side NOT to move is in check (`4k3/8/8/8/8/8/8/4RK2 w - - 0 1`), the generator then emitted the capture of
the enemy king, `MakeMove` did not book it, and `perft 3` panicked. This was proved (`opsTotal_modelOps_false`,
`fenCheckWitness_accepted` in Lemmas/UciFenWitness.lean, headline `C17.modelOps_opsTotal_false` /
`C17.fen_check_witness`) and led to the repair: `NewPositionFromFen` now rejects such a FEN ("the side that is not
to move is in check"), and `C08.fen_oppSafe` proves that every accepted position satisfies `MM.OppSafe`. The
negative theorems are false about the repaired model and have been removed; the positive statement
`modelOps_opsTotal` (below; all hypotheses discharged in Lemmas/Total.lean) replaces them, and the headline theorems
of C17 carry the original precondition `Pre` / `SessionPre` again.

What remains of the generalisation (kept as lemmas; `FenOk := fun _ => True` gives back `OpsTotal` / `Pre`):
* `OpsTotalF ops G Legal FenOk`: as `OpsTotal`, but a loaded position has to satisfy `G` only if it satisfies `FenOk`;
* `PreF ops Legal FenOk st line`: `Pre` (listed moves legal) AND the position this line loads from a FEN — if it is a
  `position` command with a FEN the loader accepts — satisfies `FenOk`;
* `uciStep_total_F`, `uciRun_total_F`;
* `modelOps_opsTotal` / `modelOps_opsTotalF`: the operations the driver runs, with `G := GoodPos = Inv ∧ OppSafe`,
  `Legal := LegalGen` (the move string denotes a generated move which `MakeMove` accepts): `start`, `fen`, `apply`
  are PROVED (C02, C08.fen_oppSafe, TotalApply); evaluation and the two perfts are hypotheses here, discharged in
  Lemmas/Total.lean (C18);
* Boolean checkers `preFB` / `sessionPreFB` for `PreF` / `SessionPreF` (hence, with the void test, for `Pre` /
  `SessionPre` with `Legal := LegalGen`: `pre_of_genB`, `sessionPre_of_genB`). -/

namespace Magog.UciTotal
open Magog Magog.Model

/-! ### hypotheses -/

/-- like `OpsTotal`, but a loaded position only has to satisfy `G` when it satisfies `FenOk` -/
structure OpsTotalF (ops : EngineOps) (G : Position → Prop) (Legal : Position → Move → Prop)
    (FenOk : Position → Prop) : Prop where
  start : G ops.startPos
  fen : ∀ s p, parseFen s = .ok (.ok p) → FenOk p → G p
  eval : ∀ p, G p → ∃ v, ops.evalOp p = .ok v
  perft : ∀ p d, G p → 0 < d → d < Gen.plyBufferCapacity → ∃ r, ops.perftDivOp p d = .ok r
  tperft : ∀ p d, G p → 0 < d → d < Gen.plyBufferCapacity → ∃ r, ops.tperftDivOp p d = .ok r
  apply : ∀ p mv, G p → Legal p mv → ∃ p', ops.applyMove p mv = .ok p' ∧ G p'

/-- sanity: the old notion is the special case (any `FenOk`) -/
theorem opsTotalF_of_opsTotal {ops : EngineOps} {G : Position → Prop} {Legal : Position → Move → Prop}
    {FenOk : Position → Prop} (h : OpsTotal ops G Legal) : OpsTotalF ops G Legal FenOk :=
  ⟨h.start, fun s p hp _ => h.fen s p hp, h.eval, h.perft, h.tperft, h.apply⟩

/-- and conversely with the void condition on loaded positions -/
theorem opsTotal_of_opsTotalF {ops : EngineOps} {G : Position → Prop} {Legal : Position → Move → Prop}
    (h : OpsTotalF ops G Legal (fun _ => True)) : OpsTotal ops G Legal :=
  ⟨h.start, fun s p hp => h.fen s p hp trivial, h.eval, h.perft, h.tperft, h.apply⟩

/-- the FEN string `parsePosition` hands to the loader for the position part `s` (none for `startpos`) -/
def fenArg (ops : EngineOps) (s : Bytes) : Option Bytes :=
  if hasPrefix s Gen.uStartpos_bytes then none
  else some (if hasPrefix s (Gen.uFen_bytes ++ [32]) then ops.str.trimSpace (trimPrefix s Gen.uFen_bytes) else s)

/-- the position part of a `position` command: the whole command without "moves", else the trimmed prefix
    (`positionCommand[:movesIdx]`, a checked slice as in `positionHead`) -/
def positionPart (ops : EngineOps) (cmd : Bytes) : M Bytes :=
  match indexOf Gen.uMoves_bytes cmd with
  | none => pure cmd
  | some i => do
    let head ← sliceTo cmd i
    pure (ops.str.trimSpace head)

/-- the FEN clause on a `position` command `cmd` (already stripped of the keyword): the position the loader
    returns for the FEN this command carries, if any, satisfies `FenOk` -/
def FenPre (ops : EngineOps) (FenOk : Position → Prop) (cmd : Bytes) : Prop :=
  ∀ part fen p, positionPart ops cmd = .ok part → fenArg ops part = some fen → parseFen fen = .ok (.ok p) → FenOk p

/-- precondition on one line: `Pre` (move lists legal) AND every position this line loads from a FEN satisfies
    `FenOk` -/
def PreF (ops : EngineOps) (Legal : Position → Move → Prop) (FenOk : Position → Prop) (st : UciState)
    (line : Bytes) : Prop :=
  Pre ops Legal st line ∧
    (hasPrefix line Gen.uPosition_bytes = true →
      ∀ part fen p, positionPart ops (ops.str.trimSpace (trimPrefix line Gen.uPosition_bytes)) = .ok part →
        fenArg ops part = some fen → parseFen fen = .ok (.ok p) → FenOk p)

/-- the precondition along a session: every line satisfies `PreF` in the state it is received in -/
def SessionPreF (ops : EngineOps) (Legal : Position → Move → Prop) (FenOk : Position → Prop) :
    UciState → List Bytes → Prop
  | _, [] => True
  | st, l :: ls =>
    PreF ops Legal FenOk st l ∧ ∀ st' out, uciStep ops st l = .ok (st', out) → SessionPreF ops Legal FenOk st' ls

/-! ### the FEN clause is void where it should be -/

/-- every line that is not a `position` command satisfies the precondition -/
theorem preF_of_not_position {ops : EngineOps} {Legal : Position → Move → Prop} {FenOk : Position → Prop}
    {st : UciState} {line : Bytes} (h : hasPrefix line Gen.uPosition_bytes = false) : PreF ops Legal FenOk st line :=
  ⟨pre_of_not_position h, fun h' => by rw [h] at h'; cases h'⟩

theorem fenArg_startpos {ops : EngineOps} {s : Bytes} (h : hasPrefix s Gen.uStartpos_bytes = true) :
    fenArg ops s = none := by
  unfold fenArg; rw [if_pos h]

/-- `position startpos …`: no FEN is loaded, the clause is void -/
theorem fenPre_startpos {ops : EngineOps} {FenOk : Position → Prop} {cmd part : Bytes}
    (hp : positionPart ops cmd = .ok part) (h : hasPrefix part Gen.uStartpos_bytes = true) : FenPre ops FenOk cmd := by
  intro part' fen p hp' hf _
  rw [hp] at hp'
  cases hp'
  rw [fenArg_startpos h] at hf
  cases hf

/-- a rejected FEN: the clause is void -/
theorem fenPre_rejected {ops : EngineOps} {FenOk : Position → Prop} {cmd part fen : Bytes} {e : FenError}
    (hp : positionPart ops cmd = .ok part) (ha : fenArg ops part = some fen) (hr : parseFen fen = .ok (.error e)) :
    FenPre ops FenOk cmd := by
  intro part' fen' p hp' hf hl
  rw [hp] at hp'
  cases hp'
  rw [ha] at hf
  cases hf
  rw [hr] at hl
  cases hl

/-- `positionPart` / `fenArg` depend on the operations only through the string library -/
theorem positionPart_str {ops ops' : EngineOps} (h : ops.str = ops'.str) (cmd : Bytes) :
    positionPart ops cmd = positionPart ops' cmd := by
  unfold positionPart; rw [h]

theorem fenArg_str {ops ops' : EngineOps} (h : ops.str = ops'.str) (s : Bytes) : fenArg ops s = fenArg ops' s := by
  unfold fenArg; rw [h]

/-- with the void condition on loaded positions `PreF` is `Pre` -/
theorem preF_true_iff {ops : EngineOps} {Legal : Position → Move → Prop} {st : UciState} {line : Bytes} :
    PreF ops Legal (fun _ => True) st line ↔ Pre ops Legal st line :=
  ⟨fun h => h.1, fun h => ⟨h, fun _ _ _ _ _ _ _ => trivial⟩⟩

/-- with the void condition on loaded positions `SessionPreF` is `SessionPre` -/
theorem sessionPreF_true_iff {ops : EngineOps} {Legal : Position → Move → Prop} (lines : List Bytes) :
    ∀ st, SessionPreF ops Legal (fun _ => True) st lines ↔ SessionPre ops Legal st lines := by
  induction lines with
  | nil => intro st; exact Iff.rfl
  | cons l ls ih =>
    intro st
    unfold SessionPreF SessionPre
    exact ⟨fun h => ⟨preF_true_iff.1 h.1, fun st' out hs => (ih st').1 (h.2 st' out hs)⟩,
      fun h => ⟨preF_true_iff.2 h.1, fun st' out hs => (ih st').2 (h.2 st' out hs)⟩⟩

theorem preF_mono {ops : EngineOps} {Legal : Position → Move → Prop} {F F' : Position → Prop} (hF : ∀ p, F p → F' p)
    {st : UciState} {line : Bytes} (h : PreF ops Legal F st line) : PreF ops Legal F' st line :=
  ⟨h.1, fun hp part fen p h1 h2 h3 => hF p (h.2 hp part fen p h1 h2 h3)⟩

/-! ### the pieces of the interpreter -/

/-- `parsePosition` in terms of `fenArg` -/
theorem parsePosition_eq (ops : EngineOps) (st : UciState) (s : Bytes) :
    parsePosition ops st s =
      match fenArg ops s with
      | none => pure ({ st with pos := some ops.startPos }, none)
      | some fen => (do
        match (← parseFen fen) with
        | .error e => pure (st, some e)
        | .ok p => pure ({ st with pos := some p }, none)) := by
  unfold parsePosition fenArg
  split <;> rfl

theorem parsePosition_total_F {ops : EngineOps} {G : Position → Prop} {Legal : Position → Move → Prop}
    {FenOk : Position → Prop} (ho : OpsTotalF ops G Legal FenOk) (st : UciState) (hst : ∀ p, st.pos = some p → G p)
    (s : Bytes) (hfen : ∀ fen p, fenArg ops s = some fen → parseFen fen = .ok (.ok p) → FenOk p) :
    ∃ st' err, parsePosition ops st s = .ok (st', err) ∧ Keeps G st st' ∧
      (err = none → ∃ p, st'.pos = some p) ∧ (err ≠ none → st' = st) := by
  rw [parsePosition_eq]
  cases ha : fenArg ops s with
  | none =>
    refine ⟨_, none, rfl, ⟨fun p h => ?_, rfl⟩, fun _ => ⟨_, rfl⟩, fun h => absurd rfl h⟩
    cases h; exact ho.start
  | some fen =>
    obtain ⟨r, hr, _⟩ := FenLemmas.parseFen_spec fen
    dsimp only
    rw [hr]
    cases r with
    | error e => exact ⟨st, some e, rfl, keeps_refl hst, fun h => (by cases h), fun _ => rfl⟩
    | ok p =>
      refine ⟨_, none, rfl, ⟨fun q h => ?_, rfl⟩, fun _ => ⟨_, rfl⟩, fun h => absurd rfl h⟩
      cases h; exact ho.fen fen p hr (hfen fen p ha hr)

theorem applyMoves_total_F {ops : EngineOps} {G : Position → Prop} {Legal : Position → Move → Prop}
    {FenOk : Position → Prop} (ho : OpsTotalF ops G Legal FenOk) (l : List Bytes) :
    ∀ (st : UciState) (p : Position), st.pos = some p → G p →
      MovesLegal ops Legal p l → ∃ r, applyMoves ops st l = .ok r ∧ Keeps G st r.1 := by
  induction l with
  | nil =>
    intro st p hp hg _
    refine ⟨_, rfl, fun q h => ?_, rfl⟩
    have : st.pos = some q := h
    rw [hp] at this; cases this; exact hg
  | cons ms rest ih =>
    intro st p hp hg hl
    unfold applyMoves
    unfold MovesLegal at hl
    cases hm : parseMoveString ops.str.lower ms with
    | none =>
      refine ⟨_, rfl, fun q h => ?_, rfl⟩
      have : st.pos = some q := h
      rw [hp] at this; cases this; exact hg
    | some mv =>
      rw [hm] at hl
      obtain ⟨hleg, hrest⟩ := hl
      obtain ⟨p', hap, hg'⟩ := ho.apply p mv hg hleg
      simp only [hp, hap, ok_bind]
      obtain ⟨r, hr, hk⟩ := ih { st with pos := some p' } p' rfl hg' (hrest p' hap)
      exact ⟨r, hr, hk.1, hk.2⟩

theorem doPosition_total_F {ops : EngineOps} {G : Position → Prop} {Legal : Position → Move → Prop}
    {FenOk : Position → Prop} (ho : OpsTotalF ops G Legal FenOk) (st : UciState) (hst : ∀ p, st.pos = some p → G p)
    (cmd : Bytes)
    (hpre : ∀ st' moveStrs, positionHead ops st cmd = .ok (.moves st' moveStrs) →
      ∀ p, st'.pos = some p → MovesLegal ops Legal p moveStrs)
    (hfen : FenPre ops FenOk cmd) :
    ∃ r, doPosition ops st cmd = .ok r ∧ Keeps G st r.1 := by
  unfold doPosition
  unfold positionHead at hpre ⊢
  unfold FenPre positionPart at hfen
  cases hi : indexOf Gen.uMoves_bytes cmd with
  | none =>
    rw [hi] at hfen
    obtain ⟨st', err, hp, hk, _, _⟩ := parsePosition_total_F ho st hst cmd (fun fen p h1 h2 => hfen cmd fen p rfl h1 h2)
    simp only [hp, ok_bind, pure_bind']
    exact ⟨_, rfl, hk.1, hk.2⟩
  | some i =>
    have hb := indexOf_bound _ _ _ hi
    rw [hi] at hpre hfen
    simp only [sliceTo_total (show i ≤ cmd.length by omega), ok_bind] at hpre hfen ⊢
    obtain ⟨st', err, hp, hk, hsome, hsame⟩ := parsePosition_total_F ho st hst (ops.str.trimSpace (cmd.take i))
      (fun fen p h1 h2 => hfen _ fen p rfl h1 h2)
    simp only [hp, ok_bind] at hpre ⊢
    cases err with
    | some e => exact ⟨_, rfl, hk.1, hk.2⟩
    | none =>
      simp only [sliceFrom_total hb, ok_bind, pure_bind'] at hpre ⊢
      obtain ⟨p, hp'⟩ := hsome rfl
      obtain ⟨r, hr, hk'⟩ := applyMoves_total_F ho _ st' p hp' (hk.1 p hp') (hpre _ _ rfl p hp')
      exact ⟨r, hr, hk'.1, hk'.2.trans hk.2⟩

theorem doPerft_total_F {ops : EngineOps} {G : Position → Prop} {Legal : Position → Move → Prop}
    {FenOk : Position → Prop} (ho : OpsTotalF ops G Legal FenOk) (tactical : Bool) (st : UciState)
    (hst : ∀ p, st.pos = some p → G p) (arg : Bytes) :
    ∃ out, doPerft tactical ops st arg = .ok (st, out) := by
  unfold doPerft
  split
  · exact ⟨_, rfl⟩
  · next d _ =>
    split
    · exact ⟨_, rfl⟩
    · next hd =>
      have hd' : 0 < d ∧ d < (Gen.plyBufferCapacity : Int) := by
        simp only [Bool.or_eq_true, decide_eq_true_eq, not_or, ge_iff_le] at hd
        omega
      cases hp : st.pos with
      | none => exact ⟨_, rfl⟩
      | some p =>
        have hg := hst p hp
        have h1 : 0 < d.toNat := by omega
        have h2 : d.toNat < Gen.plyBufferCapacity := by omega
        cases tactical with
        | true =>
          obtain ⟨r, hr⟩ := ho.tperft p d.toNat hg h1 h2
          simp only [hr, if_true, ok_bind]
          exact ⟨_, rfl⟩
        | false =>
          obtain ⟨r, hr⟩ := ho.perft p d.toNat hg h1 h2
          simp only [hr, Bool.false_eq_true, if_false, ok_bind]
          exact ⟨_, rfl⟩

/-! ### the dispatcher -/

/-- one line: no panic, and the state invariant is kept -/
theorem uciStep_total_F {ops : EngineOps} {G : Position → Prop} {Legal : Position → Move → Prop}
    {FenOk : Position → Prop} (ho : OpsTotalF ops G Legal FenOk) {st : UciState} (hst : StateOk G st) (line : Bytes)
    (hpre : PreF ops Legal FenOk st line) :
    ∃ st' out, uciStep ops st line = .ok (st', out) ∧ StateOk G st' := by
  have same : ∀ out, ∃ st' out', (Except.ok (st, out) : M (UciState × List UOut)) = .ok (st', out') ∧ StateOk G st' :=
    fun out => ⟨st, out, rfl, hst⟩
  rw [uciStep]
  by_cases c1 : (line == Gen.uIsReady_bytes) = true
  · rw [if_pos c1]; exact ⟨_, _, rfl, hst.1, hst.2⟩
  rw [if_neg c1]
  by_cases c2 : (line == kwEval) = true
  · rw [if_pos c2]
    cases hp : st.pos with
    | none => exact same _
    | some p =>
      obtain ⟨v, hv⟩ := ho.eval p (hst.1 p hp)
      simp only [hv, ok_bind]
      exact same _
  rw [if_neg c2]
  by_cases c3 : (line == kwQuit) = true
  · rw [if_pos c3]; exact ⟨_, _, rfl, hst.1, hst.2⟩
  rw [if_neg c3]
  by_cases c4 : hasPrefix line Gen.uPosition_bytes = true
  · rw [if_pos c4]
    obtain ⟨r, hr, hk⟩ := doPosition_total_F ho st hst.1 _ (hpre.1 c4) (hpre.2 c4)
    exact ⟨r.1, r.2, hr, hk.stateOk hst⟩
  rw [if_neg c4]
  by_cases c5 : (line == Gen.uUci_bytes) = true
  · rw [if_pos c5]; exact same _
  rw [if_neg c5]
  by_cases c6 : hasPrefix line Gen.uGo_bytes = true
  · rw [if_pos c6]
    obtain ⟨r, hr, hk⟩ := doGo_total (G := G) st hst.1 (ops.str.trimSpace (trimPrefix line Gen.uGo_bytes))
    exact ⟨r.1, r.2, hr, hk.stateOk hst⟩
  rw [if_neg c6]
  by_cases c7 : (line == kwStop) = true
  · rw [if_pos c7]; exact same _
  rw [if_neg c7]
  by_cases c8 : hasPrefix line Gen.uOptionSet_bytes = true
  · rw [if_pos c8]
    obtain ⟨st', h1, h2, _⟩ := setOption_total st hst (ops.str.trimSpace (trimPrefix line Gen.uOptionSet_bytes))
    simp only [h1, ok_bind]
    exact ⟨_, _, rfl, h2⟩
  rw [if_neg c8]
  by_cases c9 : (line == kwTostr) = true
  · rw [if_pos c9]
    cases hp : st.pos with
    | none => exact same _
    | some p =>
      dsimp only
      cases ops.tostrOp p <;> exact same _
  rw [if_neg c9]
  by_cases c10 : hasPrefix line kwPerft = true
  · rw [if_pos c10]
    obtain ⟨out, h⟩ := doPerft_total_F ho false st hst.1 (ops.str.trimSpace (trimPrefix line kwPerft))
    exact ⟨_, _, h, hst⟩
  rw [if_neg c10]
  by_cases c11 : hasPrefix line kwTperft = true
  · rw [if_pos c11]
    obtain ⟨out, h⟩ := doPerft_total_F ho true st hst.1 (ops.str.trimSpace (trimPrefix line kwTperft))
    exact ⟨_, _, h, hst⟩
  rw [if_neg c11]
  by_cases c12 : (line == kwHelp) = true
  · rw [if_pos c12]; exact same _
  rw [if_neg c12]
  exact same _

/-- a whole session -/
theorem uciRun_total_F {ops : EngineOps} {G : Position → Prop} {Legal : Position → Move → Prop}
    {FenOk : Position → Prop} (ho : OpsTotalF ops G Legal FenOk) (lines : List Bytes) :
    ∀ st : UciState, StateOk G st → SessionPreF ops Legal FenOk st lines →
      ∃ st' outs, uciRun ops st lines = .ok (st', outs) ∧ StateOk G st' ∧ outs.length = lines.length := by
  induction lines with
  | nil => intro st hst _; exact ⟨st, [], rfl, hst, rfl⟩
  | cons l ls ih =>
    intro st hst hpre
    obtain ⟨hp, hrest⟩ := hpre
    obtain ⟨st1, out, h1, hst1⟩ := uciStep_total_F ho hst l hp
    obtain ⟨st2, outs, h2, hst2, hlen⟩ := ih st1 hst1 (hrest st1 out h1)
    unfold uciRun
    simp only [h1, h2, ok_bind]
    exact ⟨st2, out :: outs, rfl, hst2, by simp [hlen]⟩

/-- the old one-line theorem is the instance `FenOk := fun _ => True` -/
theorem uciStep_total_of_F {ops : EngineOps} {G : Position → Prop} {Legal : Position → Move → Prop}
    (ho : OpsTotal ops G Legal) {st : UciState} (hst : StateOk G st) {line : Bytes} (hpre : Pre ops Legal st line) :
    ∃ st' out, uciStep ops st line = .ok (st', out) ∧ StateOk G st' :=
  uciStep_total_F (FenOk := fun _ => True) (opsTotalF_of_opsTotal ho) hst line (preF_true_iff.2 hpre)

/-! ### the operations the driver runs -/

/-- legality of a UCI move through the generator: the move string denotes a generated move that makeMove accepts -/
def LegalGen (p : Position) (mv : Move) : Prop :=
  ∃ m, MM.Generated p m ∧ mv = ⟨m.frm, m.to, m.promo, InvalidSq⟩ ∧ ∃ q, makeMove p m = .ok (q, true)

/-- well-formed, and the side NOT to move is not in check -/
def GoodPos (p : Position) : Prop := Inv p ∧ MM.OppSafe p

theorem goodPos_start : GoodPos startPosition := ⟨inv_startPosition, Props.C02.oppSafe_start⟩

/-- what the FEN loader accepts is well-formed (C02.fen_inv), and the side not to move is not in check
    (C08.fen_oppSafe: the loader's own test, since the repair) -/
theorem goodPos_of_fen {s : Bytes} {p : Position} (h : parseFen s = .ok (.ok p)) : GoodPos p :=
  ⟨Props.C02.fen_inv h, Props.C08.fen_oppSafe h⟩

/-- `ApplyUciMove` on a legal move string: no panic (in particular not the explicit one for an illegal result),
    and the position stays good -/
theorem applyUciMove_good {p : Position} {mv : Move} (hg : GoodPos p) (hl : LegalGen p mv) :
    ∃ p', applyUciMove p mv = .ok p' ∧ GoodPos p' := by
  obtain ⟨m, hG, rfl, hacc⟩ := hl
  exact TotalApply.applyUciMove_total hg.1 hg.2 hG hacc

/-- **The real operations.** With `G := Inv ∧ OppSafe` and legality through the generator, `start`, `fen` and
    `apply` hold; what remains are the three hypotheses on evaluation and perft over good positions (discharged in
    Lemmas/Total.lean). No condition on loaded positions: the loader establishes `G` itself. -/
theorem modelOps_opsTotal {blend : Blend} {tostr : Position → M Bytes}
    (heval : ∀ p, GoodPos p → ∃ v, evaluate blend p 0 = .ok v)
    (hperft : ∀ p d, GoodPos p → 0 < d → d < Gen.plyBufferCapacity →
      ∃ r, perftDivide Killers.empty Gen.plyBufferCapacity p d = .ok r)
    (htperft : ∀ p d, GoodPos p → 0 < d → d < Gen.plyBufferCapacity →
      ∃ r, tperftDivide Killers.empty Gen.plyBufferCapacity p d = .ok r) :
    OpsTotal (modelOps blend tostr) GoodPos LegalGen :=
  ⟨goodPos_start, fun _ _ h => goodPos_of_fen h, heval, hperft, htperft, fun _ _ hg hl => applyUciMove_good hg hl⟩

/-- the `…F` form, for any condition `FenOk` on loaded positions (it is not used any more) -/
theorem modelOps_opsTotalF {blend : Blend} {tostr : Position → M Bytes} {FenOk : Position → Prop}
    (heval : ∀ p, GoodPos p → ∃ v, evaluate blend p 0 = .ok v)
    (hperft : ∀ p d, GoodPos p → 0 < d → d < Gen.plyBufferCapacity →
      ∃ r, perftDivide Killers.empty Gen.plyBufferCapacity p d = .ok r)
    (htperft : ∀ p d, GoodPos p → 0 < d → d < Gen.plyBufferCapacity →
      ∃ r, tperftDivide Killers.empty Gen.plyBufferCapacity p d = .ok r) :
    OpsTotalF (modelOps blend tostr) GoodPos LegalGen FenOk :=
  opsTotalF_of_opsTotal (modelOps_opsTotal heval hperft htperft)

/-! ### Boolean checkers of `PreF` / `SessionPreF` with `Legal := LegalGen`, for kernel-evaluated examples -/

/-- `OppSafe` as a Boolean -/
def oppSafeB (p : Position) : Bool :=
  Count.okVal (isUnderCheck p.board (p.side (whiteTurn p)) (p.side (!whiteTurn p)).king) == some false

theorem oppSafe_of_B {p : Position} (h : oppSafeB p = true) : MM.OppSafe p :=
  Count.okVal_eq_some (by simpa [oppSafeB] using h)

/-- the generated move (with killer table `kt`) whose UCI rendering is `mv`, accepted by `makeMove` -/
def legalGenB (kt : Killers) (p : Position) (mv : Move) : Bool :=
  match genPseudo kt p with
  | .ok l => (l.map (·.mov)).any fun m =>
      decide (mv = ⟨m.frm, m.to, m.promo, InvalidSq⟩) && (match makeMove p m with | .ok (_, true) => true | _ => false)
  | .error _ => false

theorem legalGen_of_B {kt : Killers} {p : Position} {mv : Move} (h : legalGenB kt p mv = true) : LegalGen p mv := by
  unfold legalGenB at h
  split at h
  · next l hl =>
    obtain ⟨m, hm, hb⟩ := List.any_eq_true.1 h
    simp only [Bool.and_eq_true, decide_eq_true_eq] at hb
    refine ⟨m, ⟨kt, l, hl, hm⟩, hb.1, ?_⟩
    have h2 := hb.2
    split at h2
    · next q hq => exact ⟨q, hq⟩
    · cases h2
  · cases h

def movesGenB (ops : EngineOps) (kt : Killers) : Position → List Bytes → Bool
  | _, [] => true
  | p, ms :: rest =>
    match parseMoveString ops.str.lower ms with
    | none => true
    | some mv =>
      legalGenB kt p mv &&
        match ops.applyMove p mv with
        | .ok p' => movesGenB ops kt p' rest
        | .error _ => true

theorem movesLegal_of_genB {ops : EngineOps} {kt : Killers} (l : List Bytes) :
    ∀ p, movesGenB ops kt p l = true → MovesLegal ops LegalGen p l := by
  induction l with
  | nil => intro p _; trivial
  | cons ms rest ih =>
    intro p h
    unfold movesGenB at h
    unfold MovesLegal
    cases hm : parseMoveString ops.str.lower ms with
    | none => trivial
    | some mv =>
      rw [hm] at h
      dsimp only at h ⊢
      simp only [Bool.and_eq_true] at h
      refine ⟨legalGen_of_B h.1, fun q hq => ?_⟩
      have h2 := h.2
      rw [hq] at h2
      exact ih q h2

/-- Boolean form of `PreF … LegalGen FenOk` given a Boolean test `f` for `FenOk` -/
def preFB (ops : EngineOps) (kt : Killers) (f : Position → Bool) (st : UciState) (line : Bytes) : Bool :=
  !hasPrefix line Gen.uPosition_bytes ||
    ((match positionHead ops st (ops.str.trimSpace (trimPrefix line Gen.uPosition_bytes)) with
      | .ok (.moves st' ms) => (match st'.pos with | some p => movesGenB ops kt p ms | none => true)
      | _ => true) &&
     (match positionPart ops (ops.str.trimSpace (trimPrefix line Gen.uPosition_bytes)) with
      | .ok part =>
        (match fenArg ops part with
         | some fen => (match parseFen fen with | .ok (.ok p) => f p | _ => true)
         | none => true)
      | .error _ => true))

theorem preF_of_B {ops : EngineOps} {kt : Killers} {f : Position → Bool} {FenOk : Position → Prop}
    (hf : ∀ p, f p = true → FenOk p) {st : UciState} {line : Bytes} (h : preFB ops kt f st line = true) :
    PreF ops LegalGen FenOk st line := by
  refine ⟨fun hp st' ms hh p hpos => ?_, fun hp part fen p h1 h2 h3 => ?_⟩
  · unfold preFB at h
    rw [hp, hh] at h
    simp only [Bool.not_true, Bool.false_or, hpos, Bool.and_eq_true] at h
    exact movesLegal_of_genB ms p h.1
  · unfold preFB at h
    rw [hp, h1] at h
    simp only [Bool.not_true, Bool.false_or, h2, h3, Bool.and_eq_true] at h
    exact hf p h.2

def sessionPreFB (ops : EngineOps) (kt : Killers) (f : Position → Bool) : UciState → List Bytes → Bool
  | _, [] => true
  | st, l :: ls =>
    preFB ops kt f st l &&
      match uciStep ops st l with
      | .ok r => sessionPreFB ops kt f r.1 ls
      | .error _ => true

theorem sessionPreF_of_B {ops : EngineOps} {kt : Killers} {f : Position → Bool} {FenOk : Position → Prop}
    (hf : ∀ p, f p = true → FenOk p) (lines : List Bytes) :
    ∀ st, sessionPreFB ops kt f st lines = true → SessionPreF ops LegalGen FenOk st lines := by
  induction lines with
  | nil => intro st _; trivial
  | cons l ls ih =>
    intro st h
    unfold sessionPreFB at h
    simp only [Bool.and_eq_true] at h
    refine ⟨preF_of_B hf h.1, fun st' out hs => ?_⟩
    have h2 := h.2
    rw [hs] at h2
    exact ih st' h2

/-! ### … and of `Pre` / `SessionPre` with `Legal := LegalGen` (the void test on loaded positions) -/

theorem pre_of_genB {ops : EngineOps} {kt : Killers} {st : UciState} {line : Bytes}
    (h : preFB ops kt (fun _ => true) st line = true) : Pre ops LegalGen st line :=
  preF_true_iff.1 (preF_of_B (FenOk := fun _ => True) (fun _ _ => trivial) h)

theorem sessionPre_of_genB {ops : EngineOps} {kt : Killers} (lines : List Bytes) (st : UciState)
    (h : sessionPreFB ops kt (fun _ => true) st lines = true) : SessionPre ops LegalGen st lines :=
  (sessionPreF_true_iff lines st).1 (sessionPreF_of_B (FenOk := fun _ => True) (fun _ _ => trivial) lines st h)

end Magog.UciTotal
