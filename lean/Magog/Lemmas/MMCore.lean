import Magog.Lemmas.Inv
import Magog.Lemmas.MMList
import Magog.Lemmas.CountPromo

/-! Core of the `makeMove` invariant proof: the invariant split into a board part and a per-side part,
    colour-generic constants, the two-square board update and what it does to one side's lists, and
    the composition of the `makeMove` stages into an explicit result. -/

namespace Magog.MM
open Magog Magog.Model Magog.Atk Magog.Geo Magog.Count

/-! ### colour-generic constants -/

def colorBit (w : Bool) : Nat := if w then WhiteBit else BlackBit
def homeRank (w : Bool) : Nat := if w then Gen.Rank1 else Gen.Rank8
def flagK (w : Bool) : Nat := if w then FWK else FBK
def flagQ (w : Bool) : Nat := if w then FWQ else FBQ

/-- a man of colour `w` -/
def Man (w : Bool) (v : Nat) : Prop := v = pawnOf w ∨ v ∈ officersOf w ∨ v = kingOf w

instance (w : Bool) (v : Nat) : Decidable (Man w v) := by unfold Man; infer_instance

/-- the four promotion kinds -/
def promoKinds : List Nat := [Queen, Rook, Bishop, Knight]

theorem pawn_code (w : Bool) : Pawn ||| colorBit w = pawnOf w := by cases w <;> decide
theorem king_code (w : Bool) : King ||| colorBit w = kingOf w := by cases w <;> decide
theorem rook_code_mem (w : Bool) : Rook ||| colorBit w ∈ officersOf w := by cases w <;> decide
theorem promo_code_mem (w : Bool) {k : Nat} (hk : k ∈ promoKinds) : k ||| colorBit w ∈ officersOf w := by
  have : ∀ w : Bool, ∀ k ∈ promoKinds, k ||| colorBit w ∈ officersOf w := by decide
  exact this w k hk
theorem promoKinds_ne_zero {k : Nat} (hk : k ∈ promoKinds) : k ≠ 0 := by
  have : ∀ k ∈ promoKinds, k ≠ 0 := by decide
  exact this k hk

theorem pawnOf_ne_zero (w : Bool) : pawnOf w ≠ 0 := by cases w <;> decide
theorem kingOf_ne_zero (w : Bool) : kingOf w ≠ 0 := by cases w <;> decide
theorem officer_ne_zero {w : Bool} {v : Nat} (h : v ∈ officersOf w) : v ≠ 0 := by
  have : ∀ w : Bool, ∀ v ∈ officersOf w, v ≠ 0 := by decide
  exact this w v h
theorem pawnOf_not_officer (w c : Bool) : pawnOf w ∉ officersOf c := by cases w <;> cases c <;> decide
theorem kingOf_not_officer (w c : Bool) : kingOf w ∉ officersOf c := by cases w <;> cases c <;> decide
theorem pawnOf_ne_kingOf (w c : Bool) : pawnOf w ≠ kingOf c := by cases w <;> cases c <;> decide
theorem pawnOf_ne_not (w : Bool) : pawnOf w ≠ pawnOf (!w) := by cases w <;> decide
theorem kingOf_ne_not (w : Bool) : kingOf w ≠ kingOf (!w) := by cases w <;> decide
theorem officer_not_other {w : Bool} {v : Nat} (h : v ∈ officersOf w) : v ∉ officersOf (!w) := by
  have : ∀ w : Bool, ∀ v ∈ officersOf w, v ∉ officersOf (!w) := by decide
  exact this w v h

theorem man_ne_zero {w : Bool} {v : Nat} (h : Man w v) : v ≠ 0 := by
  rcases h with rfl | h | rfl
  · exact pawnOf_ne_zero w
  · exact officer_ne_zero h
  · exact kingOf_ne_zero w

theorem man_not_other {w : Bool} {v : Nat} (h : Man w v) : ¬ Man (!w) v := by
  have : ∀ w : Bool, ∀ v ∈ pieceCodes, Man w v → ¬ Man (!w) v := by decide
  have hm : v ∈ pieceCodes := by
    have : ∀ w : Bool, ∀ v, Man w v → v ∈ pieceCodes := by
      intro w v h
      rcases h with rfl | h | rfl
      · cases w <;> decide
      · have : ∀ w : Bool, ∀ v ∈ officersOf w, v ∈ pieceCodes := by decide
        exact this w v h
      · cases w <;> decide
    exact this w v h
  exact this w v hm h

theorem man_mem_codes {w : Bool} {v : Nat} (h : Man w v) : v ∈ pieceCodes := by
  rcases h with rfl | h | rfl
  · cases w <;> decide
  · have : ∀ w : Bool, ∀ v ∈ officersOf w, v ∈ pieceCodes := by decide
    exact this w v h
  · cases w <;> decide

/-- a cell (0 or piece code) without the colour bit of `w` is empty or a man of the other colour -/
theorem not_own_cases {w : Bool} {t : Nat} (hc : t = 0 ∨ t ∈ pieceCodes) (h : t &&& colorBit w = 0) :
    t = 0 ∨ Man (!w) t := by
  have : ∀ w : Bool, ∀ t ∈ 0 :: pieceCodes, t &&& colorBit w = 0 → t = 0 ∨ Man (!w) t := by decide
  exact this w t (List.mem_cons.mpr hc) h

theorem own_bit {w : Bool} {v : Nat} (h : Man w v) : v &&& colorBit w ≠ 0 := by
  have : ∀ w : Bool, ∀ v ∈ pieceCodes, Man w v → v &&& colorBit w ≠ 0 := by decide
  exact this w v (man_mem_codes h) h

theorem other_bit {w : Bool} {v : Nat} (h : Man (!w) v) : v &&& colorBit w = 0 := by
  have : ∀ w : Bool, ∀ v ∈ pieceCodes, Man (!w) v → v &&& colorBit w = 0 := by decide
  exact this w v (man_mem_codes h) h

/-! ### the invariant, split -/

structure BoardInv (B : Array Nat) : Prop where
  ok : BoardOk B
  offBoard : ∀ i : Nat, i < 128 → isValid i = false → B[i]? = some 0
  noBackPawn : ∀ i : Nat, (B[i]? = some Gen.WPawn ∨ B[i]? = some Gen.BPawn) →
    rankOf i ≠ Gen.Rank1 ∧ rankOf i ≠ Gen.Rank8

structure SideInv (B : Array Nat) (sd : Side) (w : Bool) : Prop where
  ok : SideOk B sd w
  ndPawns : sd.pawns.Nodup
  ndPieces : sd.pieces.Nodup
  lenPawns : sd.pawns.length ≤ pawnCap
  len : sd.pawns.length + sd.pieces.length ≤ pieceCap

theorem _root_.Magog.Inv.boardInv {p : Position} (h : Inv p) : BoardInv p.board := ⟨h.board, h.offBoard, h.noBackPawn⟩

theorem _root_.Magog.Inv.sideInv {p : Position} (h : Inv p) (w : Bool) : SideInv p.board (p.side w) w := by
  cases w
  · exact ⟨h.black, h.bpNodup, h.bpcNodup, h.bpLen, h.bLen⟩
  · exact ⟨h.white, h.wpNodup, h.wpcNodup, h.wpLen, h.wLen⟩

theorem inv_of_parts {p : Position} (hb : BoardInv p.board) (hw : SideInv p.board (p.side true) true)
    (hbl : SideInv p.board (p.side false) false) (hf : p.flags < 32) (hc : castlingConsistent p = true)
    (he : p.ep = InvalidSq ∨ FenSpec.EpOk p) : Inv p :=
  { board := hb.ok, offBoard := hb.offBoard, white := hw.ok, black := hbl.ok
    wpNodup := hw.ndPawns, bpNodup := hbl.ndPawns, wpcNodup := hw.ndPieces, bpcNodup := hbl.ndPieces
    wpLen := hw.lenPawns, bpLen := hbl.lenPawns, wLen := hw.len, bLen := hbl.len
    noBackPawn := hb.noBackPawn, flags := hf, castling := hc, ep := he }

/-! ### reading the board through `SideOk` -/

theorem cell_of_valid {B : Array Nat} (hb : BoardOk B) {s : Nat} (hs : s ∈ sq88) :
    ∃ v, B[s]? = some v ∧ (v = 0 ∨ v ∈ pieceCodes) := by
  obtain ⟨h1, h2⟩ := mem_sq88.mp hs
  exact hb.codes s h1 h2

/-- a man of colour `c` on a valid square is in the corresponding list -/
theorem _root_.Magog.Atk.SideOk.mem_of_man {B : Array Nat} {sd : Side} {c : Bool} (h : SideOk B sd c) {s v : Nat}
    (hs : s ∈ sq88) (hv : B[s]? = some v) :
    (v = pawnOf c → s ∈ sd.pawns) ∧ (v ∈ officersOf c → s ∈ sd.pieces) ∧ (v = kingOf c → s = sd.king) := by
  obtain ⟨h1, h2⟩ := mem_sq88.mp hs
  exact ⟨fun e => (h.pawns s).mpr ⟨h1, h2, e ▸ hv⟩, fun e => (h.pieces s).mpr ⟨h1, h2, v, e, hv⟩,
    fun e => (h.king s).mpr ⟨h1, h2, e ▸ hv⟩⟩

theorem _root_.Magog.Atk.SideOk.pawn_cell {B : Array Nat} {sd : Side} {c : Bool} (h : SideOk B sd c) {s : Nat}
    (hs : s ∈ sd.pawns) : s ∈ sq88 ∧ B[s]? = some (pawnOf c) := by
  obtain ⟨h1, h2, h3⟩ := (h.pawns s).mp hs
  exact ⟨mem_sq88.mpr ⟨h1, h2⟩, h3⟩

theorem _root_.Magog.Atk.SideOk.piece_cell {B : Array Nat} {sd : Side} {c : Bool} (h : SideOk B sd c) {s : Nat}
    (hs : s ∈ sd.pieces) : s ∈ sq88 ∧ ∃ v ∈ officersOf c, B[s]? = some v := by
  obtain ⟨h1, h2, h3⟩ := (h.pieces s).mp hs
  exact ⟨mem_sq88.mpr ⟨h1, h2⟩, h3⟩

theorem _root_.Magog.Atk.SideOk.king_cell {B : Array Nat} {sd : Side} {c : Bool} (h : SideOk B sd c) :
    sd.king ∈ sq88 ∧ B[sd.king]? = some (kingOf c) := by
  obtain ⟨h1, h2, h3⟩ := (h.king sd.king).mp rfl
  exact ⟨mem_sq88.mpr ⟨h1, h2⟩, h3⟩

/-- a square in one of the side's lists (or its king square) holds a man of that colour -/
theorem _root_.Magog.Atk.SideOk.not_mem_of_not_man {B : Array Nat} {sd : Side} {c : Bool} (h : SideOk B sd c) {s v : Nat}
    (hv : B[s]? = some v) (hn : ¬ Man c v) : s ∉ sd.pawns ∧ s ∉ sd.pieces ∧ s ≠ sd.king := by
  refine ⟨fun hm => ?_, fun hm => ?_, fun hm => ?_⟩
  · have := (h.pawn_cell hm).2
    rw [hv] at this; cases this
    exact hn (.inl rfl)
  · obtain ⟨o, ho, this⟩ := (h.piece_cell hm).2
    rw [hv] at this; cases this
    exact hn (.inr (.inl ho))
  · have := h.king_cell.2
    rw [← hm, hv] at this; cases this
    exact hn (.inr (.inr rfl))

/-! ### the two-square update -/

/-- `B'` is `B` with `frm` emptied and `to` set to `v'` -/
def Upd2 (B B' : Array Nat) (frm to v' : Nat) : Prop :=
  B'.size = B.size ∧ ∀ s : Nat, B'[s]? = if s = frm then some 0 else if s = to then some v' else B[s]?

theorem upd2_set {B : Array Nat} {frm to v' : Nat} (hsz : B.size = 128) (hf : frm < 128) (ht : to < 128) :
    Upd2 B ((B.setIfInBounds to v').setIfInBounds frm 0) frm to v' := by
  refine ⟨by simp, fun s => ?_⟩
  simp only [Array.getElem?_setIfInBounds, Array.size_setIfInBounds, hsz, hf, ht, if_true]
  by_cases h1 : s = frm
  · simp [h1]
  · have h1' : ¬ frm = s := fun e => h1 e.symm
    simp only [h1, h1', if_false]
    by_cases h2 : s = to
    · simp [h2]
    · have h2' : ¬ to = s := fun e => h2 e.symm
      simp only [h2, h2', if_false]

/-- what the two-square update does to the lists of one side -/
structure ListSpec (sd sd' : Side) (c : Bool) (frm to v' : Nat) : Prop where
  hp : ∀ s, s ∈ sd'.pawns ↔ (s ≠ frm ∧ s ≠ to ∧ s ∈ sd.pawns) ∨ (s = to ∧ v' = pawnOf c)
  hq : ∀ s, s ∈ sd'.pieces ↔ (s ≠ frm ∧ s ≠ to ∧ s ∈ sd.pieces) ∨ (s = to ∧ v' ∈ officersOf c)
  hk : ∀ s, s = sd'.king ↔ (s ≠ frm ∧ s ≠ to ∧ s = sd.king) ∨ (s = to ∧ v' = kingOf c)
  ndPawns : sd'.pawns.Nodup
  ndPieces : sd'.pieces.Nodup
  lenPawns : sd'.pawns.length ≤ pawnCap
  len : sd'.pawns.length + sd'.pieces.length ≤ pieceCap

theorem sideOk_upd2 {B B' : Array Nat} {sd sd' : Side} {c : Bool} {frm to v' : Nat}
    (h : SideOk B sd c) (ht : to ∈ sq88) (hne : frm ≠ to) (hB : Upd2 B B' frm to v')
    (hp : ∀ s, s ∈ sd'.pawns ↔ (s ≠ frm ∧ s ≠ to ∧ s ∈ sd.pawns) ∨ (s = to ∧ v' = pawnOf c))
    (hq : ∀ s, s ∈ sd'.pieces ↔ (s ≠ frm ∧ s ≠ to ∧ s ∈ sd.pieces) ∨ (s = to ∧ v' ∈ officersOf c))
    (hk : ∀ s, s = sd'.king ↔ (s ≠ frm ∧ s ≠ to ∧ s = sd.king) ∨ (s = to ∧ v' = kingOf c)) :
    SideOk B' sd' c := by
  obtain ⟨ht1, ht2⟩ := mem_sq88.mp ht
  refine ⟨fun s => ?_, fun s => ?_, fun s => ?_⟩
  · rw [hp s, hB.2 s]
    by_cases h1 : s = frm
    · subst h1
      simp only [ne_eq, not_true_eq_false, false_and, hne, if_true, Option.some.injEq, false_or]
      exact ⟨fun h => h.elim, fun h => (pawnOf_ne_zero c h.2.2.symm).elim⟩
    · by_cases h2 : s = to
      · subst h2
        simp [h1, ht1, ht2]
      · simp only [ne_eq, h1, not_false_eq_true, h2, true_and, false_and, or_false, if_false]
        exact h.pawns s
  · rw [hq s, hB.2 s]
    by_cases h1 : s = frm
    · subst h1
      simp only [ne_eq, not_true_eq_false, false_and, hne, if_true, Option.some.injEq, false_or]
      refine ⟨fun h => h.elim, fun h => ?_⟩
      obtain ⟨_, _, o, ho, e⟩ := h
      exact (officer_ne_zero ho e.symm).elim
    · by_cases h2 : s = to
      · subst h2
        simp only [ne_eq, h1, not_false_eq_true, not_true_eq_false, false_and, and_false, true_and, false_or,
          if_false, if_true, Option.some.injEq, ht1, ht2]
        exact ⟨fun h => ⟨v', h, rfl⟩, fun ⟨o, ho, e⟩ => e ▸ ho⟩
      · simp only [ne_eq, h1, not_false_eq_true, h2, true_and, false_and, or_false, if_false]
        exact h.pieces s
  · rw [hk s, hB.2 s]
    by_cases h1 : s = frm
    · subst h1
      simp only [ne_eq, not_true_eq_false, false_and, hne, if_true, Option.some.injEq, false_or]
      exact ⟨fun h => h.elim, fun h => (kingOf_ne_zero c h.2.2.symm).elim⟩
    · by_cases h2 : s = to
      · subst h2
        simp [h1, ht1, ht2]
      · simp only [ne_eq, h1, not_false_eq_true, h2, true_and, false_and, or_false, if_false]
        exact h.king s

theorem sideInv_upd2 {B B' : Array Nat} {sd sd' : Side} {c : Bool} {frm to v' : Nat}
    (h : SideInv B sd c) (ht : to ∈ sq88) (hne : frm ≠ to) (hB : Upd2 B B' frm to v')
    (hs : ListSpec sd sd' c frm to v') : SideInv B' sd' c :=
  ⟨sideOk_upd2 h.ok ht hne hB hs.hp hs.hq hs.hk, hs.ndPawns, hs.ndPieces, hs.lenPawns, hs.len⟩

theorem boardInv_upd2 {B B' : Array Nat} {frm to v' : Nat} (h : BoardInv B) (hf : frm ∈ sq88) (ht : to ∈ sq88)
    (hB : Upd2 B B' frm to v') (hv' : v' ∈ pieceCodes)
    (hrank : (v' = Gen.WPawn ∨ v' = Gen.BPawn) → rankOf to ≠ Gen.Rank1 ∧ rankOf to ≠ Gen.Rank8) :
    BoardInv B' := by
  obtain ⟨hf1, hf2⟩ := mem_sq88.mp hf
  obtain ⟨ht1, ht2⟩ := mem_sq88.mp ht
  refine ⟨⟨hB.1.trans h.ok.size, fun s hs hv => ?_⟩, fun i hi hv => ?_, fun i hi => ?_⟩
  · rw [hB.2 s]
    by_cases h1 : s = frm
    · exact ⟨0, by simp [h1], .inl rfl⟩
    · by_cases h2 : s = to
      · subst h2
        exact ⟨v', by simp [h1], .inr hv'⟩
      · simp only [h1, h2, if_false]
        exact h.ok.codes s hs hv
  · rw [hB.2 i]
    have h1 : i ≠ frm := fun e => by rw [e, hf2] at hv; cases hv
    have h2 : i ≠ to := fun e => by rw [e, ht2] at hv; cases hv
    simp only [h1, h2, if_false]
    exact h.offBoard i hi hv
  · rw [hB.2 i] at hi
    by_cases h1 : i = frm
    · simp only [h1, if_true, Option.some.injEq] at hi
      rcases hi with hi | hi <;> exact absurd hi (by decide)
    · by_cases h2 : i = to
      · subst h2
        simp only [h1, if_false, if_true, Option.some.injEq] at hi
        exact hrank hi
      · simp only [h1, h2, if_false] at hi
        exact h.noBackPawn i hi

/-! ### clearing one square -/

theorem getElem?_clear {B : Array Nat} {x : Nat} (hx : x < B.size) (s : Nat) :
    (B.setIfInBounds x 0)[s]? = if s = x then some 0 else B[s]? := by
  rw [Array.getElem?_setIfInBounds]
  by_cases h : s = x
  · subst h; simp [hx]
  · have : ¬ x = s := fun e => h e.symm
    simp [h, this]

theorem sideOk_clear {B : Array Nat} {sd sd' : Side} {c : Bool} {x : Nat} (h : SideOk B sd c) (hx : x < B.size)
    (hp : ∀ s, s ∈ sd'.pawns ↔ s ≠ x ∧ s ∈ sd.pawns) (hq : ∀ s, s ∈ sd'.pieces ↔ s ≠ x ∧ s ∈ sd.pieces)
    (hk : sd'.king = sd.king) (hkx : sd.king ≠ x) : SideOk (B.setIfInBounds x 0) sd' c := by
  refine ⟨fun s => ?_, fun s => ?_, fun s => ?_⟩
  · rw [hp s, getElem?_clear hx]
    by_cases h1 : s = x
    · subst h1
      simp only [ne_eq, not_true_eq_false, false_and, if_true, Option.some.injEq, false_iff]
      exact fun h => pawnOf_ne_zero c h.2.2.symm
    · simp only [ne_eq, h1, not_false_eq_true, true_and, if_false]
      exact h.pawns s
  · rw [hq s, getElem?_clear hx]
    by_cases h1 : s = x
    · subst h1
      simp only [ne_eq, not_true_eq_false, false_and, if_true, Option.some.injEq, false_iff]
      rintro ⟨_, _, o, ho, e⟩
      exact officer_ne_zero ho e.symm
    · simp only [ne_eq, h1, not_false_eq_true, true_and, if_false]
      exact h.pieces s
  · rw [hk, getElem?_clear hx]
    by_cases h1 : s = x
    · subst h1
      simp only [if_true, Option.some.injEq]
      exact ⟨fun e => absurd e.symm hkx, fun h => (kingOf_ne_zero c h.2.2.symm).elim⟩
    · simp only [h1, if_false]
      exact h.king s

theorem boardInv_clear {B : Array Nat} {x : Nat} (h : BoardInv B) (hx : x ∈ sq88) : BoardInv (B.setIfInBounds x 0) := by
  obtain ⟨hx1, hx2⟩ := mem_sq88.mp hx
  have hxs : x < B.size := by rw [h.ok.size]; exact hx1
  refine ⟨⟨by rw [Array.size_setIfInBounds]; exact h.ok.size, fun s hs hv => ?_⟩, fun i hi hv => ?_, fun i hi => ?_⟩
  · rw [getElem?_clear hxs]
    by_cases h1 : s = x
    · exact ⟨0, by simp [h1], .inl rfl⟩
    · simp only [h1, if_false]
      exact h.ok.codes s hs hv
  · rw [getElem?_clear hxs]
    have h1 : i ≠ x := fun e => by rw [e, hx2] at hv; cases hv
    simp only [h1, if_false]
    exact h.offBoard i hi hv
  · rw [getElem?_clear hxs] at hi
    by_cases h1 : i = x
    · simp only [h1, if_true, Option.some.injEq] at hi
      rcases hi with hi | hi <;> exact absurd hi (by decide)
    · simp only [h1, if_false] at hi
      exact h.noBackPawn i hi

/-! ### assembling the result of `makeMove` -/

/-- the position record `makeMove` builds -/
def mkPos (p : Position) (w : Bool) (B : Array Nat) (cur en : Side) (flags ep : Nat) : Position :=
  if w then
    { board := B, whitePieces := cur.pieces, whitePawns := cur.pawns, whiteKing := cur.king,
      blackPieces := en.pieces, blackPawns := en.pawns, blackKing := en.king,
      flags, ep, ply := wrap16 (p.ply + 1) }
  else
    { board := B, blackPieces := cur.pieces, blackPawns := cur.pawns, blackKing := cur.king,
      whitePieces := en.pieces, whitePawns := en.pawns, whiteKing := en.king,
      flags, ep, ply := wrap16 (p.ply + 1) }

@[simp] theorem mkPos_board (p w B cur en f e) : (mkPos p w B cur en f e).board = B := by
  unfold mkPos; split <;> rfl
@[simp] theorem mkPos_flags (p w B cur en f e) : (mkPos p w B cur en f e).flags = f := by
  unfold mkPos; split <;> rfl
@[simp] theorem mkPos_ep (p w B cur en f e) : (mkPos p w B cur en f e).ep = e := by
  unfold mkPos; split <;> rfl
@[simp] theorem mkPos_ply (p w B cur en f e) : (mkPos p w B cur en f e).ply = wrap16 (p.ply + 1) := by
  unfold mkPos; split <;> rfl
theorem mkPos_side_cur (p w B cur en f e) : (mkPos p w B cur en f e).side w = cur := by
  cases w <;> rfl
theorem mkPos_side_en (p w B cur en f e) : (mkPos p w B cur en f e).side (!w) = en := by
  cases w <;> rfl

/-- the flags after the move -/
def newFlags (w : Bool) (f1 : Nat) (m : Move) : Nat :=
  mmCorners f1 m (homeRank w) (homeRank (!w)) (flagK w) (flagQ w) (flagK (!w)) (flagQ (!w)) ^^^ FWhiteTurn

/-- the stages of `makeMove` composed, colour-generic -/
theorem makeMove_eq {p : Position} {m : Move} {w : Bool} (hw : whiteTurn p = w)
    {B1 : Array Nat} {f1 : Nat} {cur1 en1 : Side} {B2 : Array Nat} {en2 : Side} {chk : Bool}
    (h1 : mmMover p.board p.flags (p.side w) m (colorBit w) (homeRank w) (flagK w) (flagQ w) = .ok (B1, f1, cur1))
    (h2 : mmCapture B1 (p.side (!w)) m (colorBit (!w)) = .ok en1)
    (h3 : mmBoard B1 en1 m p.ep (colorBit w) = .ok (B2, en2))
    (h4 : isUnderCheck B2 en2 cur1.king = .ok chk) :
    makeMove p m = .ok (mkPos p w B2 cur1 en2 (newFlags w f1 m) m.ep, !chk) := by
  subst hw
  unfold makeMove
  cases hwt : whiteTurn p
  · simp only [hwt, colorBit, homeRank, flagK, flagQ, Bool.false_eq_true, if_false, Bool.not_false, if_true] at h1 h2 h3
    simp only [Bool.false_eq_true, if_false, Bool.not_false, h1, h2, h3, h4, ok_bind, pure_eq_ok, mkPos, newFlags,
      homeRank, flagK, flagQ, if_true]
  · simp only [hwt, colorBit, homeRank, flagK, flagQ, if_true, Bool.not_true, Bool.false_eq_true, if_false] at h1 h2 h3
    simp only [if_true, Bool.not_true, h1, h2, h3, h4, ok_bind, pure_eq_ok, mkPos, newFlags,
      homeRank, flagK, flagQ, Bool.false_eq_true, if_false]

end Magog.MM
