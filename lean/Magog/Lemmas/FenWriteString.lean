import Magog.Lemmas.FenWriteTail

/-! C08 round trip: the byte writer `Spec.toFenBytes` IS the UTF-8 byte view of the `String` writer
    `Spec.toFen`, for every legal position (general proof; the text is pure ASCII). -/

set_option linter.unusedSimpArgs false

namespace Magog.FenWrite
open Magog Magog.Model Magog.FenSpec Magog.FenLemmas

/-! ### byte arrays and ASCII strings -/

theorem byteArray_loop (data : Array UInt8) : ∀ (k i : Nat) (r : List UInt8), data.size - i = k →
    ByteArray.toList.loop ⟨data⟩ i r = r.reverse ++ data.toList.drop i := by
  intro k
  induction k with
  | zero =>
    intro i r h
    have hs : (ByteArray.mk data).size = data.size := rfl
    rw [ByteArray.toList.loop.eq_def, hs, if_neg (by omega)]
    have : data.toList.length ≤ i := by rw [Array.length_toList]; omega
    rw [List.drop_of_length_le this, List.append_nil]
  | succ k ih =>
    intro i r h
    have hi : i < data.size := by omega
    have hs : (ByteArray.mk data).size = data.size := rfl
    rw [ByteArray.toList.loop.eq_def, hs, if_pos hi, ih (i + 1) _ (by omega)]
    have hlen : i < data.toList.length := by rw [Array.length_toList]; exact hi
    rw [List.drop_eq_getElem_cons hlen]
    have hget : (ByteArray.mk data).get! i = data.toList[i] := by
      show data[i]! = _
      rw [getElem!_pos data i hi, Array.getElem_toList]
    rw [hget, List.reverse_cons, List.append_assoc]
    rfl

theorem byteArray_toList (bs : ByteArray) : bs.toList = bs.data.toList := by
  cases bs with
  | mk data =>
    rw [ByteArray.toList, byteArray_loop data _ 0 [] rfl]
    rfl

theorem encode_ascii : ∀ (l : List Char), (∀ c ∈ l, c.toNat < 128) →
    (l.flatMap String.utf8EncodeChar).map (·.toNat) = l.map Char.toNat := by
  intro l
  induction l with
  | nil => intro _; rfl
  | cons c l ih =>
    intro h
    have hc : c.toNat < 128 := h c (by simp)
    have hsz : c.utf8Size = 1 := by
      have : c.val.toNat < 128 := hc
      simp only [Char.utf8Size]
      rw [if_pos]
      rw [UInt32.le_iff_toNat_le]
      simp only [UInt32.toNat_ofNatLT]
      omega
    rw [List.flatMap_cons, String.utf8EncodeChar_eq_singleton hsz, List.map_append,
      ih (fun c' hc' => h c' (List.mem_cons_of_mem _ hc'))]
    have : c.val.toUInt8.toNat = c.toNat := by
      have : c.val.toNat < 128 := hc
      simp only [Char.toNat, UInt32.toNat_toUInt8]
      omega
    rw [List.map_cons, List.map_nil, this]
    rfl

/-- the loader's byte view of an ASCII string is the list of its character codes -/
theorem strBytes_ascii (s : String) (h : ∀ c ∈ s.toList, c.toNat < 128) :
    strBytes s = s.toList.map Char.toNat := by
  unfold strBytes String.toUTF8
  conv => lhs; rw [← String.ofList_toList (s := s)]
  rw [String.toByteArray_ofList, List.utf8Encode.eq_1, byteArray_toList, List.data_toByteArray]
  exact encode_ascii _ h

/-! ### the pieces of the text -/

theorem digits_chars : ∀ (fuel n : Nat) (acc : Bytes), n < fuel →
    Spec.natDigitsAux fuel n acc = (Nat.toDigits 10 n).map Char.toNat ++ acc := by
  have hd : ∀ d, d < 10 → (Nat.digitChar d).toNat = 48 + d := by decide
  intro fuel
  induction fuel with
  | zero => intro n _ h; omega
  | succ fuel ih =>
    intro n acc h
    rw [Spec.natDigitsAux, Nat.toDigits_eq_if (by decide)]
    split
    · next hn => simp [hd n hn]
    · next hn =>
      rw [ih (n / 10) _ (by omega)]
      simp [hd (n % 10) (by omega)]

theorem natDigits_chars (n : Nat) : (toString n).toList.map Char.toNat = Spec.natDigits n := by
  show (Nat.repr n).toList.map Char.toNat = _
  rw [Nat.repr_eq_ofList_toDigits, String.toList_ofList, Spec.natDigits, digits_chars (n + 1) n [] (by omega),
    List.append_nil]

theorem manChar_code (m : Spec.Man) : (Spec.manChar m).toNat = Spec.manByte m := by
  revert m; apply man_cases; decide

theorem gapChar_code : ∀ g, g ≤ 8 → (Char.ofNat (48 + g)).toNat = 48 + g := by decide

theorem rank_chars (P : Spec.Pos) (r : Nat) : ∀ (fuel f gap : Nat), gap + fuel ≤ 8 →
    (Spec.fenRankChars.go P r f fuel gap).map Char.toNat = Spec.fenRankBytes.go P r f fuel gap := by
  intro fuel
  induction fuel with
  | zero =>
    intro f gap h
    rw [Spec.fenRankChars.go, Spec.fenRankBytes.go]
    split
    · simp [gapChar_code gap (by omega)]
    · rfl
  | succ fuel ih =>
    intro f gap h
    rw [Spec.fenRankChars.go, Spec.fenRankBytes.go]
    cases hm : P.at (Spec.mkSq f r) with
    | none => exact ih (f + 1) (gap + 1) (by omega)
    | some m =>
      dsimp only
      rw [List.map_append, List.map_cons, ih (f + 1) 0 (by omega), manChar_code]
      by_cases hg : gap > 0
      · simp [hg, gapChar_code gap (by omega)]
      · simp [hg]

theorem rankChars_code (P : Spec.Pos) (r : Nat) :
    (Spec.fenRankChars P r).map Char.toNat = Spec.fenRankBytes P r :=
  rank_chars P r 8 0 0 (by omega)

theorem castle_chars (wk wq bk bq : Bool) :
    ((let c := (if wk then "K" else "") ++ (if wq then "Q" else "") ++ (if bk then "k" else "") ++ (if bq then "q" else "")
      if c == "" then "-" else c).toList.map Char.toNat) =
    (let c : Bytes := (if wk then [75] else []) ++ (if wq then [81] else []) ++ (if bk then [107] else []) ++
        (if bq then [113] else [])
      if c == [] then [45] else c) := by
  cases wk <;> cases wq <;> cases bk <;> cases bq <;> decide +kernel

theorem sqName_chars (s : Nat) (hs : s < 64) : (Spec.sqName s).toList.map Char.toNat = Spec.sqNameBytes s := by
  have h1 : ∀ f, f < 8 → (Char.ofNat (97 + f)).toNat = 97 + f := by decide
  have h2 : ∀ r, r < 8 → (Char.ofNat (49 + r)).toNat = 49 + r := by decide
  have hf : Spec.fileOf s < 8 := by show s % 8 < 8; omega
  have hr : Spec.rankOf s < 8 := by show s / 8 < 8; omega
  simp [Spec.sqName, Spec.sqNameBytes, String.toList_ofList, h1 _ hf, h2 _ hr]

/-- the characters of the written string are the written bytes -/
theorem toFen_chars (P : Spec.Pos) (n : Nat) (hep : ∀ e : Nat, P.ep = some e → e < 64) :
    (Spec.toFen P n).toList.map Char.toNat = Spec.toFenBytes P n := by
  have s1 : (" " : String).toList = [' '] := by decide
  have s2 : (" 0 " : String).toList = [' ', '0', ' '] := by decide
  have s3 : ("/" : String).toList = ['/'] := by decide
  have hturn : (if P.turn == .white then "w" else "b").toList.map Char.toNat =
      (if P.turn == .white then [119] else [98]) := by
    cases P.turn <;> decide
  have hc := castle_chars P.wk P.wq P.bk P.bq
  have c32 : ' '.toNat = 32 := rfl
  have c47 : '/'.toNat = 47 := rfl
  have c48 : '0'.toNat = 48 := rfl
  unfold Spec.toFen Spec.toFenBytes Spec.epBytes
  cases he : P.ep with
  | none =>
    have s4 : ("-" : String).toList = ['-'] := by decide
    have c45 : '-'.toNat = 45 := rfl
    simp only [String.toList_append, String.toList_intercalate, List.map_append, hturn, natDigits_chars, s1, s2, s3, s4]
    rw [hc]
    simp only [List.map_cons, List.map_nil, String.toList_ofList, List.intercalate, List.intersperse, List.flatten_cons,
      List.flatten_nil, List.map_append, rankChars_code, Spec.joinBytes, Spec.castleBytes, List.append_assoc,
      List.cons_append, List.nil_append, List.append_nil, c32, c47, c48, c45]
  | some e =>
    have hsq := sqName_chars e (hep e he)
    simp only [String.toList_append, String.toList_intercalate, List.map_append, hturn, natDigits_chars, s1, s2, s3, hsq]
    rw [hc]
    simp only [List.map_cons, List.map_nil, String.toList_ofList, List.intercalate, List.intersperse, List.flatten_cons,
      List.flatten_nil, List.map_append, rankChars_code, Spec.joinBytes, Spec.castleBytes, List.append_assoc,
      List.cons_append, List.nil_append, List.append_nil, c32, c47, c48]

/-- **the two writers agree**: for a legal position the UTF-8 bytes of the `String` writer's output are the
    output of the byte writer -/
theorem toFen_bytes {P : Spec.Pos} (hLegal : Spec.Legal P = true) (n : Nat) :
    strBytes (Spec.toFen P n) = Spec.toFenBytes P n := by
  have hL := legalFacts hLegal
  have hchars := toFen_chars P n (fun e he => (hL.ep e he).1)
  rw [strBytes_ascii, hchars]
  intro c hc
  have : c.toNat ∈ Spec.toFenBytes P n := by
    rw [← hchars]; exact List.mem_map.2 ⟨c, hc, rfl⟩
  have := (split_fields hL n).2 _ this
  omega

end Magog.FenWrite
