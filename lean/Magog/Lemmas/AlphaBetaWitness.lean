import Magog.Lemmas.AlphaBeta
import Magog.Model.Start
import Magog.Model.Fen

/-! Concrete witnesses for the non-vacuity examples of C04 (kernel-evaluated runs of the model). -/

namespace Magog.Lemmas.AlphaBeta
open Magog Magog.Model Magog.Spec.Minimax

/-- Bool test "`x` is `.ok a`", so that closed runs of the model can be checked by `decide +kernel` -/
def okIs {α} [DecidableEq α] (x : M α) (a : α) : Bool :=
  match x with
  | .ok b => decide (b = a)
  | .error _ => false

theorem okIs_eq {α} [DecidableEq α] {x : M α} {a : α} (h : okIs x a = true) : x = .ok a := by
  unfold okIs at h
  split at h
  · simp only [decide_eq_true_eq] at h; rw [h]
  · cases h

theorem map_ok {α β} {f : α → β} {x : M α} {b : β} (h : f <$> x = .ok b) : ∃ a, x = .ok a ∧ f a = b := by
  cases x with
  | error e => cases h
  | ok a => exact ⟨a, rfl, Except.ok.inj h⟩

/-- a simple integer blend (the driver uses the `float64` one) -/
def demoBlend : Blend := fun _ mid _ => mid

/-- quiet clock, identity sort, full evaluation -/
def demoEnv : Env :=
  { blend := demoBlend, sortFn := id, timeUp := fun _ => false, stopAt := fun _ => false,
    gateOpen := fun _ => false, logInterval := 1000, lazy := false }

/-- the same with the engine's lazy evaluation and a real reordering (reverse) -/
def demoEnvLazy : Env := { demoEnv with lazy := true, sortFn := List.reverse }

def demoSS : SS :=
  { rows := newRows 8, killers := Killers.empty, nodes := 0, interrupted := false, tick := 0, matched := 0,
    cand := [], rootMoves := [], firstMoveIdx := 0, out := [] }

theorem demoEnv_quiet : Quiet demoEnv := fun _ => ⟨rfl, rfl⟩
theorem demoEnv_perm : PermSort demoEnv := fun l => List.Perm.refl l
theorem demoEnvLazy_quiet : Quiet demoEnvLazy := fun _ => ⟨rfl, rfl⟩
theorem demoEnvLazy_perm : PermSort demoEnvLazy := fun l => List.reverse_perm l
theorem closed_true : Closed (fun _ => True) := fun _ _ _ _ _ _ _ => trivial
theorem demoEnv_lazyOn (G : Position → Prop) : LazyOn demoEnv G := fun h => by cases h

/-- a position from a FEN string (the fallback is never taken for the strings used below: every fact
    about these positions is checked by kernel evaluation) -/
def ofFen (fen : String) : Position :=
  match parseFen (fen.toUTF8.toList.map (·.toNat)) with
  | .ok (.ok p) => p
  | _ => startPosition

/-! #### a pawn ending with a capture sequence (exd5 Kxd5): Ke3 Pe4 / Ke5 Pd5, white to move -/

def capPos : Position := ofFen "8/8/8/3pk3/4P3/4K3/8/8 w - - 0 1"

set_option maxRecDepth 100000 in
theorem cap_notMate : isCheckMate capPos = .ok false := okIs_eq (by decide +kernel)
set_option maxRecDepth 100000 in
theorem cap_cheap : pieceSquareScore demoBlend capPos = .ok 20 := okIs_eq (by decide +kernel)
set_option maxRecDepth 100000 in
theorem cap_full : evaluate demoBlend capPos 0 = .ok 25 := okIs_eq (by decide +kernel)
-- the lazy shortcut is taken: the cheap score 20 is returned instead of the full 25
set_option maxRecDepth 100000 in
theorem cap_lazy : lazyEvaluate demoBlend capPos 0 400 500 = .ok 20 := okIs_eq (by decide +kernel)

theorem cap_lazyGood : LazyGood demoBlend capPos 0 := by
  intro cheap full _ hc hf
  rw [cap_cheap] at hc; rw [cap_full] at hf
  cases hc; cases hf
  decide

-- a 3-node quiescence search (root, exd5, Kxd5)
set_option maxRecDepth 100000 in
theorem cap_quiescence :
    okIs ((fun r => (r.1, r.2.1, r.2.2.nodes)) <$> quiescence demoEnv 3 capPos 0 0 (-50) 50 0 demoSS) (25, 0, 3) = true := by
  decide +kernel
set_option maxRecDepth 100000 in
theorem cap_QV : QV demoBlend 3 capPos 0 = .ok 25 := okIs_eq (by decide +kernel)

/-! #### Ka1 Pa2 / Kh8, white to move: four legal moves -/

def kpaPos : Position := ofFen "7k/8/8/8/8/8/P7/K7 w - - 0 1"

-- a one-ply search that fails high: 3 of the 5 nodes are visited, the fail-hard result is β = 130
set_option maxRecDepth 100000 in
theorem kpa_alphaBeta :
    okIs ((fun r => (r.1, r.2.1, r.2.2.nodes)) <$> alphaBeta demoEnv 1 1 kpaPos 0 0 100 130 0 demoSS) (130, 1, 3) = true := by
  decide +kernel
-- … while the minimax value is 135
set_option maxRecDepth 100000 in
theorem kpa_V : V demoBlend 1 1 kpaPos 0 = .ok 135 := okIs_eq (by decide +kernel)

/-! #### a mated root: 1. f3 e5 2. g4 Qh4# -/

def foolsMateFen : String := "rnb1kbnr/pppp1ppp/8/4p3/6Pq/5P2/PPPPP2P/RNBQKBNR w KQkq - 1 3"

def foolsMate : Position := ofFen foolsMateFen

set_option maxRecDepth 100000 in
theorem fm_moves : okIs ((fun ms => ms.map (·.mov)) <$> generateMoves Killers.empty foolsMate) [] = true := by
  decide +kernel
set_option maxRecDepth 100000 in
theorem fm_tactical : okIs ((fun ms => ms.map (·.mov)) <$> generateTacticalMoves foolsMate) [] = true := by
  decide +kernel
set_option maxRecDepth 100000 in
theorem fm_mate : isCheckMate foolsMate = .ok true := okIs_eq (by decide +kernel)
set_option maxRecDepth 100000 in
theorem fm_check : isCurrentKingUnderCheck foolsMate = .ok true := okIs_eq (by decide +kernel)

/-- the one-point set -/
def FM (p : Position) : Prop := p = foolsMate

theorem fm_closed (hki : KillerIndep) : Closed FM := by
  intro p m q b hp hgen _
  unfold FM at hp; subst hp
  exfalso
  cases hgen with
  | inl h =>
    obtain ⟨kt, ms, hms, hm⟩ := h
    obtain ⟨ms0, hms0, hnil⟩ := map_ok (okIs_eq fm_moves)
    rw [hki kt Killers.empty foolsMate ms ms0 hms hms0, hnil] at hm
    cases hm
  | inr h =>
    obtain ⟨ms, hms, hm⟩ := h
    obtain ⟨ms0, hms0, hnil⟩ := map_ok (okIs_eq fm_tactical)
    rw [hms] at hms0; cases hms0
    rw [hnil] at hm
    cases hm

theorem fm_lazyOn : LazyOn demoEnvLazy FM := by
  intro _ p hp d cheap full hmate _ _
  unfold FM at hp; subst hp
  rw [fm_mate] at hmate
  cases hmate

theorem fm_evalRange : EvalRange demoEnvLazy.blend FM 100 := by
  intro p hp d hd hD
  unfold FM at hp; subst hp
  constructor
  · intro x hx
    unfold evaluate lazyEvaluate at hx
    simp only [fm_mate, bind_ok, Except.ok.injEq, exists_eq_left', if_true, pure_ok] at hx
    subst hx
    unfold InRange
    simp only [Gen.LostScore]
    omega
  · intro x hx
    unfold terminalNodeScore at hx
    simp only [fm_check, bind_ok, Except.ok.injEq, exists_eq_left', if_true, pure_ok] at hx
    subst hx
    unfold InRange
    simp only [Gen.LostScore]
    omega

theorem fm_hyps (hki : KillerIndep) : Hyps demoEnvLazy FM :=
  ⟨demoEnvLazy_quiet, demoEnvLazy_perm, hki, fm_closed hki, fm_lazyOn⟩

set_option maxRecDepth 100000 in
theorem fm_start : okIs ((fun r => (r.1, r.2.1)) <$> startAlphaBeta demoEnvLazy 3 foolsMate 2 0 demoSS)
    (Gen.LostScore, false) = true := by decide +kernel
set_option maxRecDepth 100000 in
theorem fm_rootV : rootV demoBlend 3 2 foolsMate = .ok Gen.LostScore := okIs_eq (by decide +kernel)
set_option maxRecDepth 100000 in
theorem fm_rootV1 : rootV demoBlend 3 1 foolsMate = .ok Gen.LostScore := okIs_eq (by decide +kernel)
set_option maxRecDepth 100000 in
theorem fm_iterDeep : okIs ((fun s => s.out) <$> iterDeep demoEnvLazy 3 foolsMate 5 Killers.empty (newRows 8) 0)
    [.bestmoveNone, .infoTerminal Gen.LostScore] = true := by decide +kernel

end Magog.Lemmas.AlphaBeta
