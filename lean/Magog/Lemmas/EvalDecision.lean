import Magog.Model.Eval

/-! The decision structure of `Model.lazyEvaluate` as a plain function of its four sub-results; independent of the
    translated code, so that the tie diagnosis (`tools/tiehunt.py`) can evaluate it when `C05Tie` no longer builds. -/

namespace Magog.Lemmas
open Magog

/-- the model's lazy-evaluation decision as a plain function of the four sub-results (no wrap-around) -/
def lazyDecision (depth alpha beta : Int) (mate : Bool) (cheap : Int) (own enemy : Nat) : Int :=
  if mate then Gen.LostScore + depth
  else if cheap > beta + Gen.fullEvalScoreMargin || cheap < alpha - Gen.fullEvalScoreMargin then cheap
  else if own * Gen.MobilityScoreFactor == 0 then Gen.DrawScore
  else cheap + (own * Gen.MobilityScoreFactor : Nat) - (enemy * Gen.MobilityScoreFactor : Nat)

end Magog.Lemmas
