import Magog.Lemmas.PseudoSpec

/-! Why the engine's extra test at the pseudo-legal layer is harmless (specification level only):
    a king step onto a square that is attacked on the current board leaves the king in check, hence is
    never legal. Consequently `Spec.legal P m = Spec.pseudo' P m && !inCheck (apply P m) …`. -/

namespace Magog.KingStep
open Magog

theorem getD_set (b : Array (Option Spec.Man)) (i j : Nat) (v : Option Spec.Man) (hi : i < b.size) :
    (b.setIfInBounds i v).getD j none = if i = j then v else b.getD j none := by
  simp only [Array.getD_eq_getD_getElem?, Array.getElem?_setIfInBounds, hi, if_true]
  split <;> simp

theorem manAttacks_irrefl (B : Array (Option Spec.Man)) (man : Spec.Man) (a : Nat) :
    Spec.manAttacks B man a a = false := by
  obtain ⟨c, k⟩ := man
  cases k <;> simp [Spec.manAttacks, Spec.adiff, Spec.onLine, Spec.onDiag]

set_option maxRecDepth 100000 in
theorem between_not_end : ∀ a < 64, ∀ b < 64, (Spec.between a b).contains b = false := by decide +kernel

theorem clear_mono {B B' : Array (Option Spec.Man)} {a t : Nat}
    (h : ∀ s ∈ Spec.between a t, (B.getD s none).isNone = true → (B'.getD s none).isNone = true)
    (hc : Spec.clear B a t = true) : Spec.clear B' a t = true := by
  simp only [Spec.clear, List.all_eq_true] at hc ⊢
  exact fun s hs => h s hs (hc s hs)

theorem manAttacks_mono {B B' : Array (Option Spec.Man)} {man : Spec.Man} {a t : Nat}
    (h : ∀ s ∈ Spec.between a t, (B.getD s none).isNone = true → (B'.getD s none).isNone = true)
    (hm : Spec.manAttacks B man a t = true) : Spec.manAttacks B' man a t = true := by
  obtain ⟨c, k⟩ := man
  cases k <;> simp only [Spec.manAttacks, Bool.and_eq_true] at hm ⊢ <;> first
    | exact hm
    | exact ⟨hm.1, clear_mono h hm.2⟩

/-- a king step onto a square attacked on the current board leaves the mover in check -/
theorem kingStep_inCheck {P : Spec.Pos} {m : Spec.Move} (hsz : P.board.size = 64)
    (huniq : ∀ s < 64, P.at s = some ⟨P.turn, .king⟩ → s = m.frm)
    (hp : Spec.pseudo P m = true) (hk : Spec.kingStepAttacked P m = true) :
    Spec.inCheck (Spec.apply P m).board P.turn = true := by
  -- the mover is a king
  unfold Spec.kingStepAttacked at hk
  cases hat : P.at m.frm with
  | none => simp [hat] at hk
  | some man =>
    obtain ⟨col, kind⟩ := man
    cases kind <;> simp only [hat, Bool.false_eq_true] at hk
    simp only [Bool.and_eq_true, Bool.not_eq_true'] at hk
    obtain ⟨hnc, hatt⟩ := hk
    -- facts from the movement rules
    have hp' := hp
    unfold Spec.pseudo at hp'
    simp only [hat, Bool.and_eq_true, decide_eq_true_eq, beq_iff_eq] at hp'
    obtain ⟨⟨⟨⟨hcol, hfl⟩, htl⟩, htg⟩, hpr, _⟩ := hp'
    subst hcol
    have hne : m.frm ≠ m.to := by
      intro e
      rw [← e, hat] at htg
      simp at htg
    have hother : (P.turn == P.turn.other) = false := by cases P.turn <;> rfl
    -- the board after the move
    have hb : (Spec.apply P m).board =
        (P.board.setIfInBounds m.frm none).setIfInBounds m.to (some ⟨P.turn, .king⟩) := by
      simp only [Spec.apply, hat, hnc, Spec.isEnPassant, hpr, Bool.false_eq_true, if_false]
    have hget : ∀ s, (Spec.apply P m).board.getD s none =
        if m.to = s then some ⟨P.turn, .king⟩ else if m.frm = s then none else P.board.getD s none := by
      intro s
      rw [hb, getD_set _ _ _ _ (by rw [Array.size_setIfInBounds, hsz]; exact htl),
        getD_set _ _ _ _ (by rw [hsz]; exact hfl)]
    -- the king now stands on `m.to`
    have hks : Spec.kingSq (Spec.apply P m).board P.turn = some m.to := by
      apply Atk.find?_unique
      · exact List.mem_range.2 htl
      · rw [hget, if_pos rfl]; simp
      · intro y hy hpy
        rw [hget] at hpy
        by_cases h1 : m.to = y
        · exact h1.symm
        · rw [if_neg h1] at hpy
          by_cases h2 : m.frm = y
          · rw [if_pos h2] at hpy; simp at hpy
          · rw [if_neg h2, beq_iff_eq] at hpy
            exact absurd (huniq y (List.mem_range.1 hy) hpy).symm h2
    rw [Spec.inCheck, hks]
    -- the attacker is still there and still attacks
    simp only [Spec.attacked, List.any_eq_true] at hatt ⊢
    obtain ⟨a, ha, hA⟩ := hatt
    refine ⟨a, ha, ?_⟩
    have ha64 : a < 64 := List.mem_range.1 ha
    cases hman : P.board.getD a none with
    | none => simp [hman] at hA
    | some man =>
      simp only [hman, Bool.and_eq_true, beq_iff_eq] at hA
      have h1 : m.to ≠ a := by
        intro e
        rw [← e, manAttacks_irrefl] at hA
        exact absurd hA.2 (by simp)
      have h2 : m.frm ≠ a := by
        intro e
        have : P.board.getD a none = some ⟨P.turn, .king⟩ := by rw [← e]; exact hat
        rw [hman, Option.some.injEq] at this
        rw [this] at hA
        have := hA.1
        simp only at this
        rw [← beq_iff_eq, hother] at this
        cases this
      rw [hget, if_neg h1, if_neg h2, hman]
      simp only [hA.1, beq_self_eq_true, Bool.true_and]
      refine manAttacks_mono ?_ hA.2
      intro s hs hnone
      rw [hget]
      have h3 : m.to ≠ s := by
        intro e
        have := between_not_end a ha64 m.to htl
        rw [← e] at hs
        simp only [List.contains_eq_mem, decide_eq_false_iff_not] at this
        exact this hs
      rw [if_neg h3]
      split
      · rfl
      · exact hnone

/-- a legal move satisfies the engine's pseudo-legal layer `Spec.pseudo'` -/
theorem pseudo'_of_legal {P : Spec.Pos} {m : Spec.Move} (hsz : P.board.size = 64)
    (huniq : ∀ s < 64, ∀ s' < 64, P.at s = some ⟨P.turn, .king⟩ → P.at s' = some ⟨P.turn, .king⟩ → s = s')
    (h : Spec.legal P m = true) : Spec.pseudo' P m = true := by
  simp only [Spec.legal, Bool.and_eq_true, Bool.not_eq_true'] at h
  simp only [Spec.pseudo', h.1, Bool.true_and, Bool.not_eq_true']
  cases hk : Spec.kingStepAttacked P m
  · rfl
  · have hkk := hk
    unfold Spec.kingStepAttacked at hkk
    cases hat : P.at m.frm with
    | none => simp [hat] at hkk
    | some man =>
      obtain ⟨col, kind⟩ := man
      cases kind <;> simp only [hat, Bool.false_eq_true] at hkk
      obtain ⟨man', hat', hcol, hlt⟩ : ∃ man, P.at m.frm = some man ∧ man.color = P.turn ∧ m.frm < 64 := by
        have hp := h.1
        unfold Spec.pseudo at hp
        simp only [hat, Bool.and_eq_true, decide_eq_true_eq, beq_iff_eq] at hp
        exact ⟨_, hat, hp.1.1.1.1, hp.1.1.1.2⟩
      rw [hat, Option.some.injEq] at hat'
      subst hat'
      simp only at hcol
      subst hcol
      have := kingStep_inCheck hsz (fun s hs hs' => huniq s hs m.frm hlt hs' hat) h.1 hk
      rw [this] at h
      exact absurd h.2 (by simp)

end Magog.KingStep
