import Magog.Lemmas.TotalCount
import Magog.Lemmas.TotalEval
import Magog.Lemmas.TotalGen
import Magog.Lemmas.TotalMeasure
import Magog.Lemmas.TotalApply
import Magog.Lemmas.SearchTotalIter
import Magog.Lemmas.UciFen

/-! Assembly of the no-panic results on *good* positions `G p := Inv p ∧ MM.OppSafe p` (well-formed, the side
    not to move is not in check): the pieces proved in

    * `TotalMM` / `TotalCount`  — `makeMove` on the counters' moves (incl. king captures and promo-0 pawn moves),
      `countMoves`, `countMoves ∘ flipTurn`, `countTacticalMoves` need only `Inv`;
    * `TotalEval`               — piece-square score, check detection, `lazyEvaluate`, `evaluate`, `terminalNodeScore`;
    * `TotalGen`                — both legal-move generators, `perft`, `perftTactical`, the two divide drivers;
    * `TotalMeasure`            — the quiescence measure `mu` (bounded by `Gen.maxQuiescenceDepth`, strictly
      decreased by every tactical move);
    * `TotalApply`              — `applyUciMove` on the UCI string of a generated legal move;
    * `SearchTotal(Iter)`       — the search never panics given `SearchOps`;
    * `UciFen`                  — the command interpreter over the operations the driver runs

    are put together here: `G` is closed under generated accepted moves, every engine operation is total on
    `G`, `SearchOps env G mu` holds for every environment. Headline statements: `Props/C18Total.lean`,
    `Props/C17.lean`. -/

namespace Magog.Total
open Magog Magog.Model Magog.MM

/-- a good position: well-formed, and the side NOT to move is not in check -/
def G (p : Position) : Prop := Inv p ∧ MM.OppSafe p

theorem G_eq_goodPos : G = UciTotal.GoodPos := rfl

theorem G_start : G startPosition := ⟨inv_startPosition, Props.C02.oppSafe_start⟩

/-- every position the FEN loader accepts is good: well-formed (C02.fen_inv) and the side not to move is not in
    check (C08.fen_oppSafe — the loader's own test since the repair of the defect found here) -/
theorem G_of_fen {s : Bytes} {p : Position} (h : parseFen s = .ok (.ok p)) : G p :=
  ⟨Props.C02.fen_inv h, Props.C08.fen_oppSafe h⟩

/-- `G` is closed under generated moves accepted by `makeMove` -/
theorem G_child {p q : Position} {m : Move} (hg : G p) (hG : Generated p m) (h : makeMove p m = .ok (q, true)) :
    G q :=
  TotalGen.child_good hg.1 hg.2 hG h

/-! ### Part 1: operations on one position -/

theorem generateMoves_total {p : Position} {kt : Killers} (hg : G p) (hk : kt.size = Gen.killerMovesMaxPly) :
    ∃ ms, generateMoves kt p = .ok ms ∧
      ∀ rm ∈ ms, Generated p rm.mov ∧ ∃ q, makeMove p rm.mov = .ok (q, true) :=
  TotalGen.generateMoves_total hg.1 hg.2 hk

theorem generateTacticalMoves_total {p : Position} (hg : G p) :
    ∃ ts, generateTacticalMoves p = .ok ts ∧
      ∀ rm ∈ ts, Generated p rm.mov ∧ ∃ q, makeMove p rm.mov = .ok (q, true) :=
  TotalGen.generateTacticalMoves_total hg.1 hg.2

theorem lazyEvaluate_total {p : Position} (hg : G p) (blend : Blend) (d a b : Int) :
    ∃ x, lazyEvaluate blend p d a b = .ok x :=
  TotalEval.lazyEvaluate_total hg.1 (countMoves_total hg.1) (countMoves_flip_total hg.1) blend d a b

theorem evaluate_total {p : Position} (hg : G p) (blend : Blend) (d : Int) : ∃ x, evaluate blend p d = .ok x :=
  TotalEval.evaluate_total hg.1 (countMoves_total hg.1) (countMoves_flip_total hg.1) blend d

theorem isCheckMate_total {p : Position} (hg : G p) : ∃ b, isCheckMate p = .ok b :=
  TotalEval.isCheckMate_total hg.1 (countMoves_total hg.1)

theorem terminalNodeScore_total {p : Position} (hg : G p) (d : Int) : ∃ x, terminalNodeScore p d = .ok x :=
  TotalEval.terminalNodeScore_total hg.1 d

theorem perft_total {kt : Killers} (hk : kt.size = Gen.killerMovesMaxPly) {cap d idx : Nat} {p : Position}
    (hg : G p) (h : idx + d < cap) : ∃ n, perft kt cap d idx p = .ok n :=
  TotalGen.perft_total (fun _ hI _ => countMoves_total hI) hk cap d idx p hg.1 hg.2 h

theorem perftTactical_total {kt : Killers} (hk : kt.size = Gen.killerMovesMaxPly) {cap d idx : Nat} {p : Position}
    (hg : G p) (h : idx + d < cap) : ∃ n, perftTactical kt cap d idx p = .ok n :=
  TotalGen.perftTactical_total (fun _ hI _ => countTacticalMoves_total hI) hk cap d idx p hg.1 hg.2 h

theorem perftDivide_total {kt : Killers} (hk : kt.size = Gen.killerMovesMaxPly) {cap d : Nat} {p : Position}
    (hg : G p) (hd0 : 0 < d) (hd : d < cap) : ∃ r, perftDivide kt cap p d = .ok r :=
  TotalGen.perftDivide_total (fun _ hI _ => countMoves_total hI) hk hg.1 hg.2 hd0 hd

theorem tperftDivide_total {kt : Killers} (hk : kt.size = Gen.killerMovesMaxPly) {cap d : Nat} {p : Position}
    (hg : G p) (hd0 : 0 < d) (hd : d < cap) : ∃ r, tperftDivide kt cap p d = .ok r :=
  TotalGen.tperftDivide_total (fun _ hI _ => countTacticalMoves_total hI) hk hg.1 hg.2 hd0 hd

theorem applyUciMove_total {p : Position} {m : Move} (hg : G p) (hG : Generated p m)
    (hacc : ∃ q, makeMove p m = .ok (q, true)) :
    ∃ p', applyUciMove p ⟨m.frm, m.to, m.promo, InvalidSq⟩ = .ok p' ∧ G p' :=
  TotalApply.applyUciMove_total hg.1 hg.2 hG hacc

/-! ### Part 2: the interface of the search -/

/-- every per-node engine operation of the search is total on good positions, children of listed moves are
    good, and every tactical move lowers the bounded measure `mu` — for EVERY environment (oracles, blend) -/
theorem searchOps (env : Env) : SearchTotal.SearchOps env G TotalMeasure.mu where
  gen := fun p kt hg hk => by
    obtain ⟨ms, h, hall⟩ := generateMoves_total hg hk
    refine ⟨ms, h, fun rm hrm => ?_⟩
    obtain ⟨hG, q, hq⟩ := hall rm hrm
    exact ⟨q, hq, G_child hg hG hq⟩
  tac := fun p hg => by
    obtain ⟨ts, h, hall⟩ := generateTacticalMoves_total hg
    refine ⟨ts, h, fun rm hrm => ?_⟩
    obtain ⟨hG, q, hq⟩ := hall rm hrm
    exact ⟨q, hq, G_child hg hG hq, TotalMeasure.tactical_decreases hg.1 hg.2 h hrm hq⟩
  bound := fun _ hg => TotalMeasure.mu_le hg.1
  lazy := fun _ d a b hg => lazyEvaluate_total hg env.blend d a b
  eval := fun _ d hg => evaluate_total hg env.blend d
  term := fun _ d hg => terminalNodeScore_total hg d

/-! ### C17: the operations the driver runs -/

/-- all hypotheses of `UciTotal.modelOps_opsTotal` discharged: the operations the driver runs are total on `G`,
    and `G` holds of the start position, of EVERY position the FEN loader accepts, and after every legal move -/
theorem modelOps_opsTotal (blend : Blend) (tostr : Position → M Bytes) :
    UciTotal.OpsTotal (modelOps blend tostr) G UciTotal.LegalGen :=
  UciTotal.modelOps_opsTotal (fun _ hg => evaluate_total hg blend 0)
    (fun _ _ hg h0 h1 => perftDivide_total Props.C18.killers_empty_size hg h0 h1)
    (fun _ _ hg h0 h1 => tperftDivide_total Props.C18.killers_empty_size hg h0 h1)

/-- the `…F` form (any condition on loaded positions; not needed any more) -/
theorem modelOps_opsTotalF (blend : Blend) (tostr : Position → M Bytes) (FenOk : Position → Prop) :
    UciTotal.OpsTotalF (modelOps blend tostr) G UciTotal.LegalGen FenOk :=
  UciTotal.opsTotalF_of_opsTotal (modelOps_opsTotal blend tostr)

end Magog.Total
