import Magog.Lemmas.CountTac
import Magog.Lemmas.MMCore

/-! What `genPseudo` can generate, generator by generator — raw facts read off the generator text
    (no invariant assumed). -/

namespace Magog.GenRaw
open Magog Magog.Model Magog.Count Magog.Geo Magog.MM

theorem flatMapM'_mem {α β} {f : α → M (List β)} {l : List α} {r : List β}
    (h : flatMapM' f l = .ok r) {y : β} (hy : y ∈ r) : ∃ x ∈ l, ∃ a, f x = .ok a ∧ y ∈ a := by
  induction l generalizing r with
  | nil =>
    simp only [flatMapM', pure_eq_ok, Except.ok.injEq] at h
    subst h; cases hy
  | cons x xs ih =>
    simp only [flatMapM', bind_ok, pure_eq_ok, Except.ok.injEq] at h
    obtain ⟨a, ha, b, hb, rfl⟩ := h
    rcases List.mem_append.mp hy with h1 | h1
    · exact ⟨x, List.mem_cons_self, a, ha, h1⟩
    · obtain ⟨x', hx', a', ha', hy'⟩ := ih hb h1
      exact ⟨x', List.mem_cons_of_mem _ hx', a', ha', hy'⟩

/-- promotion field of a pawn move to `to` when `pr` is the promotion rank -/
def PromoShape (pr to promo : Nat) : Prop := if rankOf to = pr then promo ∈ promoKinds else promo = 0

theorem promoList_mem {frm to pr : Nat} {m : Move}
    (h : m ∈ (if rankOf to == pr then
        [(⟨frm, to, Queen, InvalidSq⟩ : Move), ⟨frm, to, Rook, InvalidSq⟩, ⟨frm, to, Bishop, InvalidSq⟩,
         ⟨frm, to, Knight, InvalidSq⟩]
      else [⟨frm, to, 0, InvalidSq⟩])) :
    m.frm = frm ∧ m.to = to ∧ m.ep = InvalidSq ∧ PromoShape pr to m.promo := by
  unfold PromoShape
  by_cases hr : rankOf to = pr
  · have hr' : (rankOf to == pr) = true := by simpa using hr
    simp only [hr', if_true, List.mem_cons, List.not_mem_nil, or_false] at h
    rw [if_pos hr]
    rcases h with rfl | rfl | rfl | rfl <;> simp [promoKinds]
  · have hr' : (rankOf to == pr) = false := by simpa using hr
    simp only [hr', Bool.false_eq_true, if_false, List.mem_cons, List.not_mem_nil, or_false] at h
    rw [if_neg hr]
    subst h; simp

theorem pawnCaptures_mem {frm to pr cap : Nat} {a : List RMove} {m : Move}
    (h : pawnCaptures frm to pr cap = .ok a) (hm : m ∈ a.map (·.mov)) :
    m.frm = frm ∧ m.to = to ∧ m.ep = InvalidSq ∧ PromoShape pr to m.promo := by
  rw [(pawnCaptures_shape h).2] at hm
  exact promoList_mem hm

theorem pawnCapQ_mem {p : Position} {c : Ctx} {frm : Nat} {a : List RMove} {m : Move}
    (h : pawnCapQ p c frm = .ok a) (hm : m ∈ a.map (·.mov)) :
    m.frm = frm ∧ m.to = addb (addb frm c.adv) 0xFF ∧ m.ep = InvalidSq ∧ PromoShape c.promoRank m.to m.promo ∧
      ((∃ x, p.board[m.to]? = some x ∧ x &&& c.enBit ≠ 0) ∨ m.to = p.ep) := by
  simp only [pawnCapQ, bind_ok] at h
  obtain ⟨hit, hhit, h⟩ := h
  cases hit
  · simp only [Bool.false_eq_true, if_false] at h
    split at h
    · rename_i hep
      obtain ⟨h1, h2, h3, h4⟩ := pawnCaptures_mem h hm
      refine ⟨h1, h2, h3, h2 ▸ h4, .inr ?_⟩
      rw [h2]; simpa using hep
    · simp only [pure_eq_ok, Except.ok.injEq] at h
      subst h; cases hm
  · simp only [if_true, bind_ok] at h
    obtain ⟨x, hx, h⟩ := h
    obtain ⟨h1, h2, h3, h4⟩ := pawnCaptures_mem h hm
    refine ⟨h1, h2, h3, h2 ▸ h4, .inl ?_⟩
    cases hv : isValid (addb (addb frm c.adv) 0xFF)
    · rw [hv] at hhit; simp [pure_eq_ok] at hhit
    · rw [hv, andM_true, hx] at hhit
      simp only [ok_bind, pure_eq_ok, Except.ok.injEq, bne_iff_ne, ne_eq] at hhit
      rw [h2]
      exact ⟨x, bget_ok_iff.mp hx, hhit⟩

theorem pawnCapK_mem {p : Position} {c : Ctx} {frm : Nat} {a : List RMove} {m : Move}
    (h : pawnCapK p c frm = .ok a) (hm : m ∈ a.map (·.mov)) :
    m.frm = frm ∧ m.to = addb (addb frm c.adv) 1 ∧ m.ep = InvalidSq ∧ PromoShape c.promoRank m.to m.promo ∧
      ((∃ x, p.board[m.to]? = some x ∧ x &&& c.enBit ≠ 0) ∨ (m.to = p.ep ∧ m.to < p.board.size)) := by
  simp only [pawnCapK, bind_ok] at h
  obtain ⟨x, hx, h⟩ := h
  have hx' := bget_ok_iff.mp hx
  split at h
  · rename_i hen
    obtain ⟨h1, h2, h3, h4⟩ := pawnCaptures_mem h hm
    refine ⟨h1, h2, h3, h2 ▸ h4, .inl ?_⟩
    rw [h2]
    exact ⟨x, hx', by simpa using hen⟩
  · split at h
    · rename_i hep
      obtain ⟨h1, h2, h3, h4⟩ := pawnCaptures_mem h hm
      refine ⟨h1, h2, h3, h2 ▸ h4, .inr ⟨?_, ?_⟩⟩
      · rw [h2]; simpa using hep
      · rw [h2]; exact (Array.getElem?_eq_some_iff.mp hx').1
    · simp only [pure_eq_ok, Except.ok.injEq] at h
      subst h; cases hm

theorem pawnPush_mem {p : Position} {c : Ctx} {kt : Killers} {frm : Nat} {a : List RMove} {m : Move}
    (h : pawnPushGen p c kt frm = .ok a) (hm : m ∈ a.map (·.mov)) :
    (m.frm = frm ∧ m.to = addb frm c.adv ∧ m.ep = InvalidSq ∧ PromoShape c.promoRank m.to m.promo ∧
      p.board[m.to]? = some 0) ∨
    (m = ⟨frm, addb (addb frm c.adv) c.adv, 0, addb frm c.adv⟩ ∧ rankOf frm = c.startRank ∧
      p.board[addb frm c.adv]? = some 0 ∧ p.board[addb (addb frm c.adv) c.adv]? = some 0) := by
  simp only [pawnPushGen, bind_ok] at h
  obtain ⟨y, hy, h⟩ := h
  have hy' := bget_ok_iff.mp hy
  split at h
  · rename_i h0
    have h0' : y = 0 := by simpa using h0
    subst h0'
    simp only [bind_ok, pure_eq_ok, Except.ok.injEq] at h
    obtain ⟨single, hs, dbl, hd, rfl⟩ := h
    have hsingle : ∀ m ∈ single.map (·.mov), m.frm = frm ∧ m.to = addb frm c.adv ∧ m.ep = InvalidSq ∧
        PromoShape c.promoRank m.to m.promo := by
      intro m hm
      have hsh := pawnPushes_shape hs
      have : m ∈ (if rankOf (addb frm c.adv) == c.promoRank then
          [(⟨frm, addb frm c.adv, Queen, InvalidSq⟩ : Move), ⟨frm, addb frm c.adv, Rook, InvalidSq⟩,
           ⟨frm, addb frm c.adv, Bishop, InvalidSq⟩, ⟨frm, addb frm c.adv, Knight, InvalidSq⟩]
          else [⟨frm, addb frm c.adv, 0, InvalidSq⟩]) := by
        split at hsh
        · rename_i hr
          rw [hsh, promoRMoves_mov] at hm
          simpa [hr] using hm
        · rename_i hr
          obtain ⟨q, rfl, hq, _⟩ := hsh
          simp only [List.map_cons, List.map_nil, List.mem_cons, List.not_mem_nil, or_false] at hm
          simp only [hr, Bool.false_eq_true, if_false, List.mem_cons, List.not_mem_nil, or_false]
          rw [hm, hq]
      obtain ⟨h1, h2, h3, h4⟩ := promoList_mem this
      exact ⟨h1, h2, h3, h2 ▸ h4⟩
    cases dbl
    · simp only [Bool.false_eq_true, if_false] at hm
      obtain ⟨h1, h2, h3, h4⟩ := hsingle m hm
      exact .inl ⟨h1, h2, h3, h4, h2 ▸ hy'⟩
    · simp only [if_true, List.map_append, List.map_cons, List.map_nil, List.mem_append, List.mem_cons,
        List.not_mem_nil, or_false] at hm
      rcases hm with hm | hm
      · obtain ⟨h1, h2, h3, h4⟩ := hsingle m hm
        exact .inl ⟨h1, h2, h3, h4, h2 ▸ hy'⟩
      · refine .inr ⟨hm, ?_⟩
        cases hr : (rankOf frm == c.startRank)
        · rw [hr] at hd; simp at hd
        · rw [hr, andM_true] at hd
          simp only [bind_ok, Except.ok.injEq, beq_iff_eq] at hd
          obtain ⟨z, hz, hz0⟩ := hd
          subst hz0
          exact ⟨by simpa using hr, hy', bget_ok_iff.mp hz⟩
  · simp only [pure_eq_ok, Except.ok.injEq] at h
    subst h; cases hm

/-- a step move `frm → addb frm d` onto a valid square without a man of the mover -/
def StepFact (p : Position) (c : Ctx) (frm : Nat) (dirs : List Nat) (m : Move) : Prop :=
  ∃ d, d ∈ dirs ∧ m = ⟨frm, addb frm d, 0, InvalidSq⟩ ∧ isValid (addb frm d) = true ∧
    ∃ x, p.board[addb frm d]? = some x ∧ x &&& c.curBit = 0

theorem knightGen_mem {p : Position} {c : Ctx} {kt : Killers} {frm : Nat} {a : List RMove} {m : Move}
    (h : knightGen p c kt frm = .ok a) (hm : m ∈ a.map (·.mov)) : StepFact p c frm knightDirs m := by
  obtain ⟨rm, hrm, rfl⟩ := List.mem_map.mp hm
  obtain ⟨d, hd, b, hb, hrb⟩ := flatMapM'_mem h hrm
  simp only [bind_ok] at hb
  obtain ⟨ok, hok, hb⟩ := hb
  cases ok
  · simp only [Bool.false_eq_true, if_false, pure_eq_ok, Except.ok.injEq] at hb
    subst hb; cases hrb
  · simp only [if_true, bind_ok, pure_eq_ok, Except.ok.injEq] at hb
    obtain ⟨x, hx, a', ha', mv, hmv, rfl⟩ := hb
    simp only [List.mem_cons, List.not_mem_nil, or_false] at hrb
    subst hrb
    cases hv : isValid (addb frm d)
    · rw [hv] at hok; simp [pure_eq_ok] at hok
    · rw [hv, andM_true, hx] at hok
      simp only [ok_bind, pure_eq_ok, Except.ok.injEq, beq_iff_eq] at hok
      exact ⟨d, hd, moveOrCapture_mov hmv, hv, x, bget_ok_iff.mp hx, hok⟩

theorem kingGen_mem {p : Position} {c : Ctx} {kt : Killers} {a : List RMove} {m : Move}
    (h : kingGen p c kt = .ok a) (hm : m ∈ a.map (·.mov)) : StepFact p c c.cur.king kingDirs m := by
  obtain ⟨rm, hrm, rfl⟩ := List.mem_map.mp hm
  obtain ⟨d, hd, b, hb, hrb⟩ := flatMapM'_mem h hrm
  simp only [bind_ok] at hb
  obtain ⟨ok, hok, hb⟩ := hb
  cases ok
  · simp only [Bool.false_eq_true, if_false, pure_eq_ok, Except.ok.injEq] at hb
    subst hb; cases hrb
  · simp only [if_true, bind_ok, pure_eq_ok, Except.ok.injEq] at hb
    obtain ⟨x, hx, a', ha', mv, hmv, rfl⟩ := hb
    simp only [List.mem_cons, List.not_mem_nil, or_false] at hrb
    subst hrb
    cases hv : isValid (addb c.cur.king d)
    · rw [hv] at hok; simp [pure_eq_ok] at hok
    · rw [hv, andM_true, hx] at hok
      simp only [ok_bind] at hok
      cases hcb : (x &&& c.curBit == 0)
      · rw [hcb] at hok; simp [pure_eq_ok] at hok
      · exact ⟨d, hd, moveOrCapture_mov hmv, hv, x, bget_ok_iff.mp hx, by simpa using hcb⟩

/-- a slider move: the squares walked over (`walkList`) are valid and hold no man -/
def SlideFact (board : Array Nat) (c : Ctx) (frm dir : Nat) (fuel sq : Nat) (m : Move) : Prop :=
  ∃ t l, m = ⟨frm, t, 0, InvalidSq⟩ ∧ isValid t = true ∧ (∃ x, board[t]? = some x ∧ x &&& c.curBit = 0) ∧
    walkList dir t fuel sq = some l ∧
    ∀ s ∈ l, isValid s = true ∧ ∃ y, board[s]? = some y ∧ y &&& c.curBit = 0 ∧ y &&& c.enBit = 0

theorem slideDir_mem {board : Array Nat} {c : Ctx} {kt : Killers} {ply : Int} {frm att dir : Nat} :
    ∀ (fuel sq : Nat) (a : List RMove) (m : Move), slideDir board c kt ply frm att dir fuel sq = .ok a →
      m ∈ a.map (·.mov) → SlideFact board c frm dir fuel sq m := by
  intro fuel
  induction fuel with
  | zero => intro sq a m h; simp [slideDir, throw_eq_error] at h
  | succ n ih =>
    intro sq a m h hm
    unfold slideDir at h
    cases hv : isValid sq
    · simp only [hv, Bool.not_false, if_true, pure_eq_ok, Except.ok.injEq] at h
      subst h; cases hm
    · simp only [hv, Bool.not_true, Bool.false_eq_true, if_false, bind_ok] at h
      obtain ⟨x, hx, h⟩ := h
      have hx' := bget_ok_iff.mp hx
      split at h
      · simp only [pure_eq_ok, Except.ok.injEq] at h
        subst h; cases hm
      · rename_i hcb
        have hcb' : x &&& c.curBit = 0 := by simpa using hcb
        simp only [bind_ok] at h
        obtain ⟨mv, hmv, h⟩ := h
        have hhere : SlideFact board c frm dir (n + 1) sq mv.mov :=
          ⟨sq, [], moveOrCapture_mov hmv, hv, ⟨x, hx', hcb'⟩, by simp [walkList], fun s hs => by cases hs⟩
        split at h
        · simp only [pure_eq_ok, Except.ok.injEq] at h
          subst h
          simp only [List.map_cons, List.map_nil, List.mem_cons, List.not_mem_nil, or_false] at hm
          subst hm; exact hhere
        · rename_i hen
          have hen' : x &&& c.enBit = 0 := by simpa using hen
          simp only [bind_ok, pure_eq_ok, Except.ok.injEq] at h
          obtain ⟨rest, hrest, rfl⟩ := h
          simp only [List.map_cons, List.mem_cons] at hm
          rcases hm with hm | hm
          · subst hm; exact hhere
          · obtain ⟨t, l, e1, e2, e3, e4, e5⟩ := ih _ _ _ hrest hm
            by_cases hst : sq = t
            · subst hst
              exact ⟨sq, [], e1, e2, e3, by simp [walkList], fun s hs => by cases hs⟩
            · refine ⟨t, sq :: l, e1, e2, e3, ?_, ?_⟩
              · have : (sq == t) = false := by simpa using hst
                simp [walkList, this, e4]
              · intro s hs
                rcases List.mem_cons.mp hs with rfl | hs
                · exact ⟨hv, x, hx', hcb', hen'⟩
                · exact e5 s hs

theorem slideGen_mem {p : Position} {c : Ctx} {kt : Killers} {frm : Nat} {dirs : List Nat} {a : List RMove}
    {m : Move} (h : slideGen p c kt frm dirs = .ok a) (hm : m ∈ a.map (·.mov)) :
    ∃ d ∈ dirs, SlideFact p.board c frm d 8 (addb frm d) m := by
  simp only [slideGen, bind_ok] at h
  obtain ⟨pc, _, h⟩ := h
  obtain ⟨rm, hrm, rfl⟩ := List.mem_map.mp hm
  obtain ⟨d, hd, b, hb, hrb⟩ := flatMapM'_mem h hrm
  exact ⟨d, hd, slideDir_mem _ _ _ _ hb (List.mem_map.mpr ⟨rm, hrb, rfl⟩)⟩

/-- what `pieceGen` produces, by the piece standing on `frm` -/
theorem pieceGen_mem {p : Position} {c : Ctx} {kt : Killers} {frm : Nat} {a : List RMove} {m : Move}
    (h : pieceGen p c kt frm = .ok a) (hm : m ∈ a.map (·.mov)) :
    ∃ pc, p.board[frm]? = some pc ∧
      (((pc = Gen.WKnight ∨ pc = Gen.BKnight) ∧ StepFact p c frm knightDirs m) ∨
       ((pc = Gen.WBishop ∨ pc = Gen.BBishop) ∧ ∃ d ∈ bishopDirs, SlideFact p.board c frm d 8 (addb frm d) m) ∨
       ((pc = Gen.WRook ∨ pc = Gen.BRook) ∧ ∃ d ∈ rookDirs, SlideFact p.board c frm d 8 (addb frm d) m) ∨
       ((pc = Gen.WQueen ∨ pc = Gen.BQueen) ∧ ∃ d ∈ kingDirs, SlideFact p.board c frm d 8 (addb frm d) m)) := by
  simp only [pieceGen, bind_ok] at h
  obtain ⟨pc, hpc, h⟩ := h
  refine ⟨pc, bget_ok_iff.mp hpc, ?_⟩
  split at h
  · rename_i hk
    exact .inl ⟨by simpa using hk, knightGen_mem h hm⟩
  · split at h
    · rename_i hk
      exact .inr (.inl ⟨by simpa using hk, slideGen_mem h hm⟩)
    · split at h
      · rename_i hk
        exact .inr (.inr (.inl ⟨by simpa using hk, slideGen_mem h hm⟩))
      · split at h
        · rename_i hk
          exact .inr (.inr (.inr ⟨by simpa using hk, slideGen_mem h hm⟩))
        · simp [throw_eq_error] at h

theorem bgetI_ok {b : Array Nat} {i : Int} {x : Nat} (h : bgetI b i = .ok x) : 0 ≤ i ∧ b[i.toNat]? = some x := by
  unfold bgetI at h
  split at h
  · simp [throw_eq_error] at h
  · rename_i hi
    exact ⟨by omega, bget_ok_iff.mp h⟩

theorem andM_ok_true {a : Bool} {b : M Bool} (h : andM a b = .ok true) : a = true ∧ b = .ok true := by
  cases a
  · simp at h
  · exact ⟨rfl, by simpa using h⟩

theorem castleQOk_true {p : Position} {c : Ctx} (h : castleQOk p c = .ok true) :
    0 ≤ add8 (int8 c.cur.king) (-1) ∧ p.board[(add8 (int8 c.cur.king) (-1)).toNat]? = some 0 ∧
    0 ≤ add8 (int8 c.cur.king) (-2) ∧ p.board[(add8 (int8 c.cur.king) (-2)).toNat]? = some 0 := by
  simp only [castleQOk, bind_ok] at h
  obtain ⟨a, ha, h⟩ := h
  obtain ⟨ha0, h⟩ := andM_ok_true h
  simp only [bind_ok] at h
  obtain ⟨b, hb, h⟩ := h
  obtain ⟨hb0, _⟩ := andM_ok_true h
  have ha0' : a = 0 := by simpa using ha0
  have hb0' : b = 0 := by simpa using hb0
  subst ha0'; subst hb0'
  exact ⟨(bgetI_ok ha).1, (bgetI_ok ha).2, (bgetI_ok hb).1, (bgetI_ok hb).2⟩

theorem castleKOk_true {p : Position} {c : Ctx} (h : castleKOk p c = .ok true) :
    0 ≤ add8 (int8 c.cur.king) 1 ∧ p.board[(add8 (int8 c.cur.king) 1).toNat]? = some 0 ∧
    0 ≤ add8 (int8 c.cur.king) 2 ∧ p.board[(add8 (int8 c.cur.king) 2).toNat]? = some 0 := by
  simp only [castleKOk, bind_ok] at h
  obtain ⟨a, ha, h⟩ := h
  obtain ⟨ha0, h⟩ := andM_ok_true h
  simp only [bind_ok] at h
  obtain ⟨b, hb, h⟩ := h
  obtain ⟨hb0, _⟩ := andM_ok_true h
  have ha0' : a = 0 := by simpa using ha0
  have hb0' : b = 0 := by simpa using hb0
  subst ha0'; subst hb0'
  exact ⟨(bgetI_ok ha).1, (bgetI_ok ha).2, (bgetI_ok hb).1, (bgetI_ok hb).2⟩

/-- the raw case split of a generated move -/
theorem genPseudo_mem {kt : Killers} {p : Position} {ms : List RMove} {m : Move}
    (h : genPseudo kt p = .ok ms) (hm : m ∈ ms.map (·.mov)) :
    (∃ frm ∈ p.ctx.cur.pawns, (∃ a, pawnCapQ p p.ctx frm = .ok a ∧ m ∈ a.map (·.mov)) ∨
        (∃ a, pawnCapK p p.ctx frm = .ok a ∧ m ∈ a.map (·.mov)) ∨
        (∃ a, pawnPushGen p p.ctx kt frm = .ok a ∧ m ∈ a.map (·.mov))) ∨
    (∃ frm ∈ p.ctx.cur.pieces, ∃ a, pieceGen p p.ctx kt frm = .ok a ∧ m ∈ a.map (·.mov)) ∨
    (∃ a, kingGen p p.ctx kt = .ok a ∧ m ∈ a.map (·.mov)) ∨
    (m = ⟨p.ctx.cur.king, castleQTo p.ctx, 0, InvalidSq⟩ ∧ p.ctx.qOk = true ∧ castleQOk p p.ctx = .ok true) ∨
    (m = ⟨p.ctx.cur.king, castleKTo p.ctx, 0, InvalidSq⟩ ∧ p.ctx.kOk = true ∧ castleKOk p p.ctx = .ok true) := by
  simp only [genPseudo, bind_ok, pure_eq_ok, Except.ok.injEq] at h
  obtain ⟨a, ha, b, hb, k, hk, cs, hcs, rfl⟩ := h
  obtain ⟨rm, hrm, rfl⟩ := List.mem_map.mp hm
  simp only [List.mem_append] at hrm
  rcases hrm with ((h1 | h1) | h1) | h1
  · obtain ⟨frm, hfrm, r, hr, hmem⟩ := flatMapM'_mem ha h1
    rw [pawnGen_eq] at hr
    simp only [bind_ok, pure_eq_ok, Except.ok.injEq] at hr
    obtain ⟨x, hx, y, hy, z, hz, rfl⟩ := hr
    simp only [List.mem_append] at hmem
    refine .inl ⟨frm, hfrm, ?_⟩
    rcases hmem with (h2 | h2) | h2
    · exact .inl ⟨x, hx, List.mem_map.mpr ⟨rm, h2, rfl⟩⟩
    · exact .inr (.inl ⟨y, hy, List.mem_map.mpr ⟨rm, h2, rfl⟩⟩)
    · exact .inr (.inr ⟨z, hz, List.mem_map.mpr ⟨rm, h2, rfl⟩⟩)
  · obtain ⟨frm, hfrm, r, hr, hmem⟩ := flatMapM'_mem hb h1
    exact .inr (.inl ⟨frm, hfrm, r, hr, List.mem_map.mpr ⟨rm, hmem, rfl⟩⟩)
  · exact .inr (.inr (.inl ⟨k, hk, List.mem_map.mpr ⟨rm, h1, rfl⟩⟩))
  · rw [castleGen_eq] at hcs
    simp only [bind_ok, pure_eq_ok, Except.ok.injEq] at hcs
    obtain ⟨q, hq, kk, hkk, rfl⟩ := hcs
    rcases List.mem_append.mp h1 with h2 | h2
    · rcases castleQPart_shape hq with ⟨rfl, _⟩ | ⟨mv, rfl, hmv, _, hok, hc⟩
      · cases h2
      · simp only [List.mem_cons, List.not_mem_nil, or_false] at h2
        subst h2
        exact .inr (.inr (.inr (.inl ⟨hmv, hok, hc⟩)))
    · rcases castleKPart_shape hkk with ⟨rfl, _⟩ | ⟨mv, rfl, hmv, _, hok, hc⟩
      · cases h2
      · simp only [List.mem_cons, List.not_mem_nil, or_false] at h2
        subst h2
        exact .inr (.inr (.inr (.inr ⟨hmv, hok, hc⟩)))

end Magog.GenRaw
