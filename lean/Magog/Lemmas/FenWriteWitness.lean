import Magog.Lemmas.FenWriteTail
import Magog.Spec.FenRoundTrip

/-! C08 round trip: witness positions for the non-vacuity examples, and the kernel-evaluated tie between the
    byte writer `Spec.toFenBytes` and the `String` writer `Spec.toFen`. -/

namespace Magog.FenWrite
open Magog Magog.Model Magog.FenSpec

/-- after 1. e4 from the start position, but with only White's king-side and Black's queen-side castling
    rights left: Black to move, en-passant square e3 (`rnbqkbnr/pppppppp/8/8/4P3/8/PPPP1PPP/RNBQKBNR b Kq e3`) -/
def epWitness : Spec.Pos :=
  let back : List Spec.Kind := [.rook, .knight, .bishop, .queen, .king, .bishop, .knight, .rook]
  let row (c : Spec.Color) : List (Option Spec.Man) := back.map fun k => some ⟨c, k⟩
  let wp : Option Spec.Man := some ⟨.white, .pawn⟩
  let rank2 : List (Option Spec.Man) := [wp, wp, wp, wp, none, wp, wp, wp]
  let rank4 : List (Option Spec.Man) := [none, none, none, none, wp, none, none, none]
  { board := (row .white ++ rank2 ++ List.replicate 8 none ++ rank4 ++ List.replicate 16 none ++
      List.replicate 8 (some (Spec.Man.mk .black .pawn)) ++ row .black).toArray,
    turn := .black, wk := true, wq := false, bk := false, bq := true, ep := some 20 }

/-- a sparse endgame position (`8/2p5/3p4/KP5r/1R3p1k/8/4P1P1/8 w - -`), no castling rights -/
def sparseWitness : Spec.Pos :=
  let e : Option Spec.Man := none
  let W (k : Spec.Kind) : Option Spec.Man := some ⟨.white, k⟩
  let B (k : Spec.Kind) : Option Spec.Man := some ⟨.black, k⟩
  { board := ([e, e, e, e, e, e, e, e,
               e, e, e, e, W .pawn, e, W .pawn, e,
               e, e, e, e, e, e, e, e,
               e, W .rook, e, e, e, B .pawn, e, B .king,
               W .king, W .pawn, e, e, e, e, e, B .rook,
               e, e, e, B .pawn, e, e, e, e,
               e, e, B .pawn, e, e, e, e, e,
               e, e, e, e, e, e, e, e] : List (Option Spec.Man)).toArray,
    turn := .white, wk := false, wq := false, bk := false, bq := false, ep := none }

set_option maxRecDepth 100000 in
theorem startPos_legal : Spec.Legal Spec.startPos = true := by decide +kernel

set_option maxRecDepth 100000 in
theorem epWitness_legal : Spec.Legal epWitness = true := by decide +kernel

set_option maxRecDepth 100000 in
theorem sparseWitness_legal : Spec.Legal sparseWitness = true := by decide +kernel

/-- the byte writer agrees with the `String` writer on `P`, `n` (Bool, for kernel evaluation) -/
def sameText (P : Spec.Pos) (n : Nat) : Bool := strBytes (Spec.toFen P n) == Spec.toFenBytes P n

/-- the same for the position loaded from a FEN string -/
def sameTextOn (s : String) (n : Nat) : Bool :=
  match parseFen (strBytes s) with
  | .ok (.ok p) => sameText (abs p) n && Spec.toFen (abs p) n == s
  | _ => false

end Magog.FenWrite
