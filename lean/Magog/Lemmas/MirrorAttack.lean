import Magog.Lemmas.MirrorOk
import Magog.Lemmas.CountPromo

/-! C15 helpers, part 5: attack detection is colour-symmetric (`isUnderCheck_mirror`). -/

namespace Magog.Mir
open Magog Magog.Model Magog.Count Magog.Geo Magog.Atk

theorem and_of_and62 {x y k : Nat} (h : x &&& 62 = y &&& 62) (hk : 62 &&& k = k) : x &&& k = y &&& k := by
  rw [← hk, ← Nat.and_assoc, h, Nat.and_assoc]

theorem attacker_fin : ∀ c < 256, c &&& Pawn = 0 →
    62 &&& (c &&& Colorless) = c &&& Colorless ∧
    ((c &&& Colorless) &&& Knight = 0 → 60 &&& (c &&& Colorless) = c &&& Colorless) := by
  decide +kernel

theorem all_congr_mem {α} {f g : α → Bool} {l : List α} (h : ∀ x ∈ l, f x = g x) : l.all f = l.all g := by
  induction l with
  | nil => rfl
  | cons x xs ih =>
    simp only [List.all_cons, h x List.mem_cons_self, ih (fun y hy => h y (List.mem_cons_of_mem _ hy))]

theorem oneColour_fin : ∀ c < 256, oneColour c = true →
    (mirrorPiece c &&& BlackBit == 0) = !(c &&& BlackBit == 0) := by decide +kernel

theorem getD_mirrorBoard {b : Array Nat} (hb : b.size = 128) {s : Nat} (hs : s < 128) :
    (mirrorBoard b).getD (mirrorSq s) 0 = mirrorPiece (b.getD s 0) := by
  have : s < b.size := hb ▸ hs
  simp [Array.getD_eq_getD_getElem?, getElem?_mirrorBoard hb, this]

theorem getD_lt {b : Array Nat} (hbytes : ∀ (i x : Nat), b[i]? = some x → x < 256) (s : Nat) :
    b.getD s 0 < 256 := by
  rw [Array.getD_eq_getD_getElem?]
  cases h : b[s]? with
  | none => simp
  | some x => simpa using hbytes s x h

theorem pawnAttacks_mirror {flag flag' a d : Nat} (ha : a ∈ sq88) (hd : d ∈ sq88)
    (hf : (flag = Gen.WPawnAttacks ∧ flag' = Gen.BPawnAttacks) ∨ (flag = Gen.BPawnAttacks ∧ flag' = Gen.WPawnAttacks)) :
    pawnAttacks flag' (mirrorSq d) (mirrorSq a) = pawnAttacks flag d a := by
  obtain ⟨_, hW, hB, _⟩ := attack_mirror ha hd
  simp only [pawnAttacks, tget_attack ha hd, tget_attack (mirrorSq_mem_sq88.2 ha) (mirrorSq_mem_sq88.2 hd),
    ok_bind, pure_eq_ok]
  rcases hf with ⟨rfl, rfl⟩ | ⟨rfl, rfl⟩
  · rw [hB]
  · rw [hW]

theorem pieceAttacks_mirror {b : Array Nat} (hb : b.size = 128)
    (hbytes : ∀ (i x : Nat), b[i]? = some x → x < 256) {a d : Nat} (ha : a ∈ sq88) (hd : d ∈ sq88)
    (hbit : ∀ x, b[a]? = some x → x &&& Pawn = 0) :
    pieceAttacks (mirrorBoard b) (mirrorSq d) (mirrorSq a) = pieceAttacks b d a := by
  have ha128 : a < 128 := (mem_sq88.1 ha).1
  have hasz : a < b.size := hb ▸ ha128
  have hc : b[a]? = some b[a] := Array.getElem?_eq_getElem hasz
  have hc256 := hbytes a _ hc
  have hc' : (mirrorBoard b)[mirrorSq a]? = some (mirrorPiece b[a]) := by
    rw [getElem?_mirrorBoard hb, hc]; rfl
  obtain ⟨h62, _, _, hdir⟩ := attack_mirror ha hd
  obtain ⟨hk62, hk60⟩ := attacker_fin _ hc256 (hbit _ hc)
  have hand : attackAt (mirrorSq a) (mirrorSq d) &&& (b[a] &&& Colorless)
      = attackAt a d &&& (b[a] &&& Colorless) := and_of_and62 h62 hk62
  simp only [pieceAttacks, bget_of_some hc, bget_of_some hc', tget_attack ha hd,
    tget_attack (mirrorSq_mem_sq88.2 ha) (mirrorSq_mem_sq88.2 hd), ok_bind, mirrorPiece_kind hc256, hand]
  by_cases h0 : (attackAt a d &&& (b[a] &&& Colorless) == 0) = true
  · simp only [h0, if_true]
  · simp only [h0, Bool.false_eq_true, if_false]
    by_cases hn : ((b[a] &&& Colorless) &&& Knight != 0) = true
    · simp only [hn, if_true]
    · simp only [hn, Bool.false_eq_true, if_false]
      have hn0 : (b[a] &&& Colorless) &&& Knight = 0 := by simpa using hn
      have h60 : attackAt a d &&& 60 ≠ 0 := by
        intro hz
        apply h0
        rw [← hk60 hn0, ← Nat.and_assoc, hz]
        simp
      obtain ⟨l, hl, hlt, hl'⟩ := walk_mirror ha hd h60
      simp only [tget_direction ha hd, tget_direction (mirrorSq_mem_sq88.2 ha) (mirrorSq_mem_sq88.2 hd), ok_bind]
      rw [sliderWalk_eq b _ _ _ _ l hl (fun s hs => hb ▸ hlt s hs),
        sliderWalk_eq (mirrorBoard b) _ _ _ _ _ hl' (fun s hs => by
          obtain ⟨t, ht, rfl⟩ := List.mem_map.1 hs
          rw [size_mirrorBoard]; exact mirrorSq_lt_128 (hlt t ht))]
      congr 1
      rw [List.all_map]
      refine all_congr_mem fun s hs => ?_
      simp only [Function.comp, getD_mirrorBoard hb (hlt s hs)]
      exact mirrorPiece_eq_zero (getD_lt hbytes s)

/-- **`isUnderCheck` is colour-symmetric** (and, under these hypotheses, panic-free on both sides is not
    needed: the two computations are equal as they stand). Hypotheses: a 128-slot byte board; the
    attackers' lists name board squares; no listed officer slot carries the pawn bit; the attackers' king
    slot carries exactly one colour bit (it selects the pawn-attack flag); the target is a board square. -/
theorem isUnderCheck_mirror {b : Array Nat} {en : Side} {dest : Nat} (hb : b.size = 128)
    (hbytes : ∀ (i x : Nat), b[i]? = some x → x < 256)
    (hpw : ∀ a ∈ en.pawns, a ∈ sq88)
    (hpc : ∀ a ∈ en.pieces, a ∈ sq88 ∧ ∀ x, b[a]? = some x → x &&& Pawn = 0)
    (hk : en.king ∈ sq88) (hkc : ∀ x, b[en.king]? = some x → oneColour x = true)
    (hd : dest ∈ sq88) :
    isUnderCheck (mirrorBoard b) (mirrorSide en) (mirrorSq dest) = isUnderCheck b en dest := by
  have hk128 : en.king < 128 := (mem_sq88.1 hk).1
  have hksz : en.king < b.size := hb ▸ hk128
  have hc : b[en.king]? = some b[en.king] := Array.getElem?_eq_getElem hksz
  have hc256 := hbytes _ _ hc
  have hc' : (mirrorBoard b)[mirrorSq en.king]? = some (mirrorPiece b[en.king]) := by
    rw [getElem?_mirrorBoard hb, hc]; rfl
  obtain ⟨h62, _, _, _⟩ := attack_mirror hk hd
  have hone := hkc _ hc
  have hflag : ((if mirrorPiece b[en.king] &&& BlackBit == 0 then Gen.WPawnAttacks else Gen.BPawnAttacks)
        = Gen.BPawnAttacks ∧
        (if b[en.king] &&& BlackBit == 0 then Gen.WPawnAttacks else Gen.BPawnAttacks) = Gen.WPawnAttacks) ∨
      ((if mirrorPiece b[en.king] &&& BlackBit == 0 then Gen.WPawnAttacks else Gen.BPawnAttacks)
        = Gen.WPawnAttacks ∧
        (if b[en.king] &&& BlackBit == 0 then Gen.WPawnAttacks else Gen.BPawnAttacks) = Gen.BPawnAttacks) := by
    have e := oneColour_fin _ hc256 hone
    cases hB : (b[en.king] &&& BlackBit == 0)
    · right; simp [e, hB]
    · left; simp [e, hB]
  unfold isUnderCheck
  simp only [mirrorSide, bget_of_some hc, bget_of_some hc', ok_bind, anyM'_map]
  have e1 : anyM' (fun x => pawnAttacks (if mirrorPiece b[en.king] &&& BlackBit == 0 then Gen.WPawnAttacks
        else Gen.BPawnAttacks) (mirrorSq dest) (mirrorSq x)) en.pawns
      = anyM' (pawnAttacks (if b[en.king] &&& BlackBit == 0 then Gen.WPawnAttacks else Gen.BPawnAttacks) dest)
          en.pawns :=
    anyM'_congr fun a ha => pawnAttacks_mirror (hpw a ha) hd (by
      rcases hflag with ⟨h1, h2⟩ | ⟨h1, h2⟩
      · left; exact ⟨h2, h1⟩
      · right; exact ⟨h2, h1⟩)
  have e2 : anyM' (fun x => pieceAttacks (mirrorBoard b) (mirrorSq dest) (mirrorSq x)) en.pieces
      = anyM' (pieceAttacks b dest) en.pieces :=
    anyM'_congr fun a ha => pieceAttacks_mirror hb hbytes (hpc a ha).1 hd (hpc a ha).2
  rw [e1, e2, tget_attack hk hd, tget_attack (mirrorSq_mem_sq88.2 hk) (mirrorSq_mem_sq88.2 hd)]
  have e3 : attackAt (mirrorSq en.king) (mirrorSq dest) &&& Gen.KingAttacks
      = attackAt en.king dest &&& Gen.KingAttacks := and_of_and62 h62 (by decide)
  simp only [ok_bind, e3]

end Magog.Mir
