import Magog.Lemmas.SearchIter

/-! Principal variations are legal lines (C10).

The triangular PV table is written "before read": a node at depth `d` only writes rows `≥ d`, and whenever its
value lies strictly inside its window (`α < v < β`, the only case in which its parent copies the row) the
prefix of row `d` it returns was written during this call and is a legal line from its position. -/

namespace Magog.Model
open Magog

/-! ### Legal lines -/

/-- `m` is produced by the full move generator at `p` (under some killer table) -/
def GenFull (p : Position) (m : Move) : Prop :=
  ∃ kt ms, generateMoves kt p = .ok ms ∧ m ∈ ms.map (·.mov)

/-- `m` is produced by the tactical move generator at `p` -/
def GenTac (p : Position) (m : Move) : Prop :=
  ∃ ms, generateTacticalMoves p = .ok ms ∧ m ∈ ms.map (·.mov)

/-- a line of generated moves (full generator, or the tactical generator inside quiescence), each applied
    successfully by `makeMove` without leaving the own king in check -/
def LegalLine : Position → List Move → Prop
  | _, [] => True
  | p, m :: rest => ∃ q, (GenFull p m ∨ GenTac p m) ∧ makeMove p m = .ok (q, true) ∧ LegalLine q rest

/-- a legal line whose first move comes from the full move generator (lines of the root and of `alphaBeta` nodes) -/
def RootLine : Position → List Move → Prop
  | _, [] => True
  | p, m :: rest => ∃ q, GenFull p m ∧ makeMove p m = .ok (q, true) ∧ LegalLine q rest

theorem RootLine.legal {p : Position} {l : List Move} (h : RootLine p l) : LegalLine p l := by
  cases l with
  | nil => trivial
  | cons m rest =>
    obtain ⟨q, hg, hm, hr⟩ := h
    exact ⟨q, .inl hg, hm, hr⟩

theorem RootLine.head {p : Position} {m : Move} {rest : List Move} (h : RootLine p (m :: rest)) : GenFull p m := by
  obtain ⟨q, hg, _, _⟩ := h
  exact hg

/-! ### Hypotheses -/

/-- the sort function neither invents moves nor drops all of them (true of every permutation) -/
structure SortSound (env : Env) : Prop where
  mem : ∀ (l : List RMove) (m : RMove), m ∈ env.sortFn l → m ∈ l
  ne : ∀ l : List RMove, l ≠ [] → env.sortFn l ≠ []

/-- `G d` holds of the positions the search can reach at depth `d` -/
def GenClosed (G : Nat → Position → Prop) : Prop :=
  ∀ d p m q, G d p → (GenFull p m ∨ GenTac p m) → makeMove p m = .ok (q, true) → G (d + 1) q

/-- every static or terminal score of a position in `G d`, for a depth `d` at which the table still has a row
    `d + 1` (`d + 1 < D`, `D` = number of rows), lies strictly between `−∞` and `+∞` -/
def EvalFinite (env : Env) (G : Nat → Position → Prop) (D : Nat) : Prop :=
  ∀ (d : Nat) (p : Position), d + 1 < D → G d p → ∀ (a b x : Int),
    (lazyEvaluate env.blend p d a b = .ok x ∨ evaluate env.blend p d = .ok x ∨ terminalNodeScore p d = .ok x) →
    Gen.MinusInfinityScore < x ∧ x < Gen.InfinityScore

theorem minusInf_eq' : Gen.MinusInfinityScore = -(Gen.InfinityScore : Int) := by decide

/-! ### Rows -/

/-- the two states have the same table shape: same number of rows, same row sizes -/
structure SameShape (s s' : SS) : Prop where
  size : s'.rows.size = s.rows.size
  row : ∀ i : Nat, s'.rows[i]?.map Array.size = s.rows[i]?.map Array.size

theorem SameShape.refl (s : SS) : SameShape s s := ⟨rfl, fun _ => rfl⟩

theorem SameShape.trans {a b c : SS} (h1 : SameShape a b) (h2 : SameShape b c) : SameShape a c :=
  ⟨h2.size.trans h1.size, fun i => (h2.row i).trans (h1.row i)⟩

theorem SameShape.of_rows_eq {s s' : SS} (h : s'.rows = s.rows) : SameShape s s' :=
  ⟨by rw [h], fun _ => by rw [h]⟩

/-- rows below `d` are untouched -/
def RowsBelow (d : Nat) (s s' : SS) : Prop := ∀ j, j < d → s'.rows[j]? = s.rows[j]?

theorem RowsBelow.refl (d : Nat) (s : SS) : RowsBelow d s s := fun _ _ => rfl

theorem RowsBelow.trans {d : Nat} {a b c : SS} (h1 : RowsBelow d a b) (h2 : RowsBelow d b c) : RowsBelow d a c :=
  fun j hj => (h2 j hj).trans (h1 j hj)

theorem RowsBelow.mono {d d' : Nat} {a b : SS} (h : RowsBelow d a b) (hd : d' ≤ d) : RowsBelow d' a b :=
  fun j hj => h j (Nat.lt_of_lt_of_le hj hd)

theorem RowsBelow.of_rows_eq {d : Nat} {s s' : SS} (h : s'.rows = s.rows) : RowsBelow d s s' :=
  fun _ _ => by rw [h]

/-- `len` is a valid length for the header of row `d` -/
def LenOk (s : SS) (d len : Nat) : Prop := ∀ row, s.rows[d]? = some row → len ≤ row.size

theorem LenOk.shape {s s' : SS} {d len : Nat} (h : LenOk s d len) (hs : SameShape s s') : LenOk s' d len := by
  intro row hrow
  have := hs.row d
  rw [hrow] at this
  cases hr : s.rows[d]? with
  | none => rw [hr] at this; cases this
  | some r =>
    rw [hr] at this
    simp only [Option.map_some, Option.some.injEq] at this
    have := h r hr
    omega

theorem SameShape.symm {s s' : SS} (h : SameShape s s') : SameShape s' s :=
  ⟨h.size.symm, fun i => (h.row i).symm⟩

theorem rowPrefix_congr {s s' : SS} {d : Nat} (h : s'.rows[d]? = s.rows[d]?) (len : Nat) :
    rowPrefix s' d len = rowPrefix s d len := by
  unfold rowPrefix
  rw [Array.getD_eq_getD_getElem?, Array.getD_eq_getD_getElem?, h]

theorem rowPrefix_zero (s : SS) (d : Nat) : rowPrefix s d 0 = [] := by
  unfold rowPrefix; rfl

theorem rowPrefix_of_some {s : SS} {d : Nat} {row : Array Move} (h : s.rows[d]? = some row) (len : Nat) :
    rowPrefix s d len = row.toList.take len := by
  unfold rowPrefix
  rw [Array.getD_eq_getD_getElem?, h]; rfl

theorem rowLen_ok {s : SS} {d n : Nat} (h : rowLen s d = .ok n) :
    ∃ row, s.rows[d]? = some row ∧ n = row.size ∧ d < s.rows.size := by
  unfold rowLen at h
  split at h
  · rename_i r hr
    simp only [pure_ok] at h
    exact ⟨r, hr, h.symm, (Array.getElem?_eq_some_iff.1 hr).1⟩
  · exact absurd h (by simp [throw_ok])

/-! ### `updateBestLine` -/

theorem foldl_set_getElem? (sub : Array Move) (n : Nat) (r0 : Array Move) (j : Nat) :
    ((List.range n).foldl (fun (r : Array Move) i => r.setIfInBounds (i + 1) (sub.getD i Move.zero)) r0)[j]? =
      if 1 ≤ j ∧ j ≤ n ∧ j < r0.size then some (sub.getD (j - 1) Move.zero) else r0[j]? := by
  induction n with
  | zero =>
    simp only [List.range_zero, List.foldl_nil]
    rw [if_neg (by omega)]
  | succ n ih =>
    rw [List.range_succ, List.foldl_append, List.foldl_cons, List.foldl_nil, Array.getElem?_setIfInBounds,
      foldl_setIfInBounds_size (fun i => i + 1) (fun i => sub.getD i Move.zero), ih]
    by_cases hj : n + 1 = j
    · subst hj
      simp only [if_true]
      by_cases hs : n + 1 < r0.size
      · rw [if_pos hs, if_pos ⟨by omega, by omega, hs⟩]; rfl
      · rw [if_neg hs, if_neg (by omega)]
        exact (Array.getElem?_eq_none (by omega)).symm
    · rw [if_neg hj]
      by_cases hc : 1 ≤ j ∧ j ≤ n ∧ j < r0.size
      · rw [if_pos hc, if_pos ⟨hc.1, by omega, hc.2.2⟩]
      · rw [if_neg hc, if_neg (by omega)]

/-- what a successful `updateBestLine` does -/
theorem updateBestLine_spec {s : SS} {d subLen : Nat} {mv : Move} {s' : SS} {n : Nat}
    (h : updateBestLine s d subLen mv = .ok (s', n)) :
    n = subLen + 1 ∧ LenOk s' d n ∧ SameShape s s' ∧ (∀ j, j ≠ d → s'.rows[j]? = s.rows[j]?) ∧
    (∃ rows', s' = { s with rows := rows' }) ∧
    (LenOk s (d + 1) subLen → rowPrefix s' d n = mv :: rowPrefix s (d + 1) subLen) := by
  unfold updateBestLine at h
  split at h
  · rename_i row sub hrow hsub
    split at h
    · exact absurd h (by simp [throw_ok])
    · rename_i hsz
      simp only [pure_ok, Prod.mk.injEq] at h
      obtain ⟨h1, h2⟩ := h
      subst h1 h2
      have hd : d < s.rows.size := (Array.getElem?_eq_some_iff.1 hrow).1
      have hsize : ((List.range subLen).foldl (fun (r : Array Move) i => r.setIfInBounds (i + 1) (sub.getD i Move.zero))
          (row.setIfInBounds 0 mv)).size = row.size := by
        rw [foldl_setIfInBounds_size (fun i => i + 1) (fun i => sub.getD i Move.zero)]
        simp only [Array.size_setIfInBounds]
      have hnew : ∀ r' : Array Move, (s.rows.setIfInBounds d r')[d]? = some r' := by
        intro r'
        rw [Array.getElem?_setIfInBounds]
        simp [hd]
      refine ⟨rfl, ?_, ⟨?_, ?_⟩, ?_, ⟨_, rfl⟩, ?_⟩
      · intro r hr
        dsimp only at hr
        rw [hnew] at hr
        cases hr
        rw [hsize]; omega
      · simp only [Array.size_setIfInBounds]
      · intro i
        dsimp only
        by_cases hi : d = i
        · subst hi
          rw [hnew, hrow]
          simp only [Option.map_some, hsize]
        · rw [Array.getElem?_setIfInBounds, if_neg hi]
      · intro j hj
        dsimp only
        rw [Array.getElem?_setIfInBounds, if_neg (fun h => hj h.symm)]
      · intro hlen
        have hsl : subLen ≤ sub.size := hlen sub hsub
        rw [rowPrefix_of_some (hnew _), rowPrefix_of_some hsub]
        apply List.ext_getElem?
        intro j
        rw [List.getElem?_take]
        by_cases hj : j < subLen + 1
        · rw [if_pos hj, Array.getElem?_toList, foldl_set_getElem?]
          simp only [Array.size_setIfInBounds]
          cases j with
          | zero =>
            rw [if_neg (by omega), Array.getElem?_setIfInBounds]
            simp only [if_true, List.getElem?_cons_zero]
            rw [if_pos (by omega)]
          | succ k =>
            rw [if_pos ⟨by omega, by omega, by omega⟩]
            simp only [Nat.add_sub_cancel, List.getElem?_cons_succ]
            rw [List.getElem?_take, if_pos (by omega), Array.getElem?_toList, Array.getD_eq_getD_getElem?]
            have : k < sub.size := by omega
            rw [Array.getElem?_eq_getElem this]; rfl
        · rw [if_neg hj]
          symm
          apply List.getElem?_eq_none
          simp only [List.length_cons, List.length_take, Array.length_toList]
          omega
  · exact absurd h (by simp [throw_ok])

theorem applyPvBonus_movs (cand : List Move) (matched depth : Nat) (ms : List RMove) :
    (applyPvBonus cand matched depth ms).1.map (·.mov) = ms.map (·.mov) := by
  induction ms with
  | nil => rfl
  | cons m ms ih =>
    unfold applyPvBonus
    split
    · rfl
    · simp only [List.map_cons, ih]

/-! ### Events -/

/-- the principal variation carried by an event -/
def Event.pv? : Event → Option (List Move)
  | .infoPv _ _ _ pv => some pv
  | .infoDepth _ _ _ pv => some pv
  | _ => none

/-- the principal variations printed so far -/
def pvsOf (l : List Event) : List (List Move) := l.filterMap Event.pv?

theorem qLog_spec {env : Env} {s s' : SS} (h : qLog env s = .ok s') :
    s'.rows = s.rows ∧ pvsOf s'.out = pvsOf s.out ∧ s'.interrupted = s.interrupted := by
  unfold qLog at h
  split at h
  · exact absurd h (by simp [throw_ok])
  split at h
  · split at h
    · simp only [pure_ok] at h; subst h; exact ⟨rfl, rfl, rfl⟩
    · exact absurd h (by simp [throw_ok])
  · simp only [pure_ok] at h; subst h; exact ⟨rfl, rfl, rfl⟩

theorem pollAfterMove_spec (env : Env) (s : SS) :
    (pollAfterMove env s).2.rows = s.rows ∧ (pollAfterMove env s).2.out = s.out := by
  unfold pollAfterMove
  split
  · exact ⟨rfl, rfl⟩
  dsimp only
  split
  · exact ⟨rfl, rfl⟩
  split <;> exact ⟨rfl, rfl⟩

/-! ### The node invariant -/

local notation "INF" => (Gen.InfinityScore : Int)

theorem inf_pos : (0 : Int) < INF := by decide

/-- what a node at depth `d` on `p` with window `(α, β)` guarantees about its result `(v, len, s')` -/
structure NodePost (p : Position) (d : Nat) (α β : Int) (s : SS) (v : Int) (len : Nat) (s' : SS) : Prop where
  below : RowsBelow d s s'
  shape : SameShape s s'
  lenOk : LenOk s' d len
  pvs : pvsOf s'.out = pvsOf s.out
  /-- a value strictly inside the window comes with a legal line, written during this call -/
  legal : α < v → v < β → LegalLine p (rowPrefix s' d len)
  lower : -INF < β → -INF < v
  upper : α < INF → v < INF

def NodeOk (G : Nat → Position → Prop) (D : Nat) (f : NodeFn) : Prop :=
  ∀ p idx d α β curLen s v len s', f p idx d α β curLen s = .ok (v, len, s') → G d p → s.rows.size ≤ D →
    LenOk s d curLen → s.interrupted = false → NodePost p d α β s v len s'

/-- what a move loop at depth `d` guarantees; `first` = "the loop will search at least one move" -/
structure LoopPost (p : Position) (d : Nat) (α β : Int) (s : SS) (curLen : Nat) (first : Prop) (r : LoopOut) :
    Prop where
  below : RowsBelow d s r.st
  shape : SameShape s r.st
  lenOk : LenOk r.st d r.curLen
  pvs : pvsOf r.st.out = pvsOf s.out
  legal : (LegalLine p (rowPrefix s d curLen) ∨ α < r.score) → r.score < β → LegalLine p (rowPrefix r.st d r.curLen)
  lower : (-INF < α ∨ first) → -INF < β → -INF < r.score
  upper : α < INF → r.score < INF

/-- the loop returns `x` (its `α` or `β`) without having touched row `d` -/
theorem LoopPost.ret {p : Position} {d : Nat} {α β : Int} {s : SS} {curLen : Nat} {first : Prop} {s2 : SS} {x : Int}
    (hb : RowsBelow (d + 1) s s2) (hs : SameShape s s2) (hp : pvsOf s2.out = pvsOf s.out) (hlen : LenOk s d curLen)
    (hx : x ≤ α ∨ β ≤ x) (hlo : (-INF < α ∨ first) → -INF < β → -INF < x) (hup : α < INF → x < INF) :
    LoopPost p d α β s curLen first ⟨x, curLen, s2⟩ where
  below := hb.mono (Nat.le_succ _)
  shape := hs
  lenOk := hlen.shape hs
  pvs := hp
  legal := by
    intro h1 h2
    show LegalLine p (rowPrefix s2 d curLen)
    rw [rowPrefix_congr (hb d (Nat.lt_succ_self _))]
    rcases h1 with h1 | h1
    · exact h1
    · exfalso; change α < x at h1; change x < β at h2; omega
  lower := hlo
  upper := hup

/-- the loop continues from an intermediate state `s2` with `(α', curLen')` -/
theorem LoopPost.chain {p : Position} {d : Nat} {α α' β : Int} {s s2 : SS} {curLen curLen' : Nat}
    {first first' : Prop} {r : LoopOut}
    (hb : RowsBelow d s s2) (hs : SameShape s s2) (hp : pvsOf s2.out = pvsOf s.out)
    (hl : (LegalLine p (rowPrefix s d curLen) ∨ α < r.score) → r.score < β →
      (LegalLine p (rowPrefix s2 d curLen') ∨ α' < r.score))
    (hlo : (-INF < α ∨ first) → -INF < β → (-INF < α' ∨ first'))
    (hup : α < INF → α' < INF)
    (post : LoopPost p d α' β s2 curLen' first' r) : LoopPost p d α β s curLen first r where
  below := hb.trans post.below
  shape := hs.trans post.shape
  lenOk := post.lenOk
  pvs := post.pvs.trans hp
  legal := fun h1 h2 => post.legal (hl h1 h2) h2
  lower := fun h1 h2 => post.lower (hlo h1 h2) h2
  upper := fun h => post.upper (hup h)

theorem lenOk_of_rows_eq {s s' : SS} {d len : Nat} (h : LenOk s d len) (hr : s'.rows = s.rows) : LenOk s' d len := by
  unfold LenOk; rw [hr]; exact h

theorem qLoop_pv {env : Env} {G : Nat → Position → Prop} {D : Nat} (hcl : GenClosed G) {child : NodeFn}
    (hc : NodeOk G D child) (p : Position) (idx d : Nat) (β : Int) (hp : G d p) :
    ∀ (ms : List RMove) (α : Int) (curLen subLen : Nat) (s : SS) (r : LoopOut),
      qLoop env child p idx d β ms α curLen subLen s = .ok r →
      (∀ mv ∈ ms, GenFull p mv.mov ∨ GenTac p mv.mov) → s.rows.size ≤ D → LenOk s d curLen →
      LenOk s (d + 1) subLen → s.interrupted = false → LoopPost p d α β s curLen False r := by
  intro ms
  induction ms with
  | nil =>
    intro α curLen subLen s r h _ _ hlen _ _
    simp only [qLoop, pure_ok] at h; subst h
    exact LoopPost.ret (RowsBelow.refl _ _) (SameShape.refl _) rfl hlen (.inl (Int.le_refl _))
      (fun h _ => h.elim id False.elim) id
  | cons mv rest ih =>
    intro α curLen subLen s r h hgen hD hlen hsub hint
    simp only [qLoop] at h
    split at h
    · exact absurd h (by simp [throw_ok])
    simp only [bind_ok] at h
    obtain ⟨⟨q, b⟩, hmk, h⟩ := h
    split at h
    · exact absurd h (by simp [throw_ok])
    rename_i hleg
    have hb : b = true := by simpa using hleg
    subst hb
    simp only [bind_ok] at h
    obtain ⟨⟨v, sl, s1⟩, hch, h⟩ := h
    have hgm := hgen mv List.mem_cons_self
    have C := hc _ _ _ _ _ _ _ _ _ _ hch (hcl _ _ _ _ hp hgm hmk) hD hsub hint
    have hlow : α < INF → -INF < v := fun ha => C.lower (by omega)
    have shc : SameShape s s1.consult := ⟨C.shape.size, C.shape.row⟩
    dsimp only at h
    split at h
    · simp only [pure_ok] at h; subst h
      exact LoopPost.ret C.below C.shape C.pvs hlen (.inl (Int.le_refl _)) (fun h _ => h.elim id False.elim) id
    rename_i hint1
    split at h
    · simp only [pure_ok] at h; subst h
      exact LoopPost.ret (s2 := s1.consult) C.below shc C.pvs hlen (.inl (Int.le_refl _))
        (fun h _ => h.elim id False.elim) id
    split at h
    · rename_i hcut
      simp only [pure_ok] at h; subst h
      exact LoopPost.ret (s2 := s1.consult) C.below shc C.pvs hlen (.inr (Int.le_refl _))
        (fun _ h => h) (fun ha => by have := hlow ha; omega)
    rename_i hcut
    have hint1' : s1.interrupted = false := by simpa using hint1
    split at h
    · rename_i himp
      simp only [bind_ok] at h
      obtain ⟨⟨s2, cl⟩, hu, h⟩ := h
      obtain ⟨hcl2, hlen2, hsh2, hrows2, ⟨rows', hs2⟩, hline⟩ := updateBestLine_spec hu
      have hsub1 : LenOk s1.consult (d + 1) sl := C.lenOk
      have hleg2 : LegalLine p (rowPrefix s2 d cl) := by
        rw [hline hsub1]
        exact ⟨q, hgm, hmk, C.legal (by omega) (by omega)⟩
      have post := ih (-v) cl sl s2 r h (fun m hm => hgen m (List.mem_cons_of_mem _ hm))
        (by rw [hsh2.size]; show s1.rows.size ≤ D; rw [C.shape.size]; exact hD) hlen2
        (hsub1.shape hsh2) (by rw [hs2]; exact hint1')
      refine LoopPost.chain (s2 := s2) ?_ (shc.trans hsh2) ?_ (fun _ _ => .inl hleg2) ?_ ?_ post
      · intro j hj
        rw [hrows2 j (by omega)]
        exact C.below j (by omega)
      · rw [hs2]; exact C.pvs
      · intro h1 _
        rcases h1 with h1 | h1
        · left; omega
        · exact h1.elim
      · intro ha; have := hlow ha; omega
    · rename_i himp
      have post := ih α curLen sl s1.consult r h (fun m hm => hgen m (List.mem_cons_of_mem _ hm))
        (by show s1.rows.size ≤ D; rw [C.shape.size]; exact hD) (hlen.shape shc) C.lenOk hint1'
      refine LoopPost.chain (s2 := s1.consult) (C.below.mono (Nat.le_succ _)) shc C.pvs ?_ (fun h _ => h) id post
      intro h1 _
      rcases h1 with h1 | h1
      · left
        rw [rowPrefix_congr (show s1.consult.rows[d]? = s.rows[d]? from C.below d (Nat.lt_succ_self _))]
        exact h1
      · exact .inr h1

/-- hypotheses of the PV proofs -/
structure PvHyps (env : Env) (G : Nat → Position → Prop) (D : Nat) : Prop where
  sort : SortSound env
  closed : GenClosed G
  finite : EvalFinite env G D

theorem PvHyps.fin {env : Env} {G : Nat → Position → Prop} {D : Nat} (H : PvHyps env G D) {d : Nat} {p : Position}
    (hd : d + 1 < D) (hp : G d p) {a b x : Int}
    (h : lazyEvaluate env.blend p d a b = .ok x ∨ evaluate env.blend p d = .ok x ∨ terminalNodeScore p d = .ok x) :
    -INF < x ∧ x < INF := by
  have := H.finite d p hd hp a b x h
  rw [minusInf_eq'] at this
  exact this

theorem quiescence_pv {env : Env} {G : Nat → Position → Prop} {D : Nat} (H : PvHyps env G D) (fuel : Nat) :
    NodeOk G D (quiescence env fuel) := by
  induction fuel with
  | zero => intro p idx d a b l s v l' s' h; simp only [quiescence, throw_ok] at h
  | succ fuel ih =>
    intro p idx d α β curLen s v len s' h hp hD hlen hint
    rw [quiescence_succ_eq] at h
    obtain ⟨subLen, hsl, h⟩ := bind_ok.1 h
    obtain ⟨sub, hsub, rfl, hdlt⟩ := rowLen_ok hsl
    obtain ⟨score, hsc, h⟩ := bind_ok.1 h
    have hfin : -INF < score ∧ score < INF := by
      unfold qEval at hsc
      split at hsc
      · exact H.fin (by omega) hp (.inl hsc)
      · exact H.fin (a := 0) (b := 0) (by omega) hp (.inr (.inl hsc))
    obtain ⟨s1, hs1, h⟩ := bind_ok.1 h
    obtain ⟨hr1, hp1, hi1⟩ := qLog_spec hs1
    have hr1' : s1.rows = s.rows := hr1
    have sh1 : SameShape s s1 := SameShape.of_rows_eq hr1'
    have hp1' : pvsOf s1.out = pvsOf s.out := hp1
    split at h
    · rename_i hcut
      simp only [pure_ok, Prod.mk.injEq] at h
      obtain ⟨rfl, rfl, rfl⟩ := h
      exact ⟨RowsBelow.of_rows_eq hr1', sh1, hlen.shape sh1, hp1', fun _ h2 => absurd h2 (Int.lt_irrefl _),
        fun h => h, fun _ => by omega⟩
    rename_i hcut
    obtain ⟨ms, hms, h⟩ := bind_ok.1 h
    obtain ⟨r, hr, h⟩ := bind_ok.1 h
    simp only [pure_ok, Prod.mk.injEq] at h
    obtain ⟨rfl, rfl, rfl⟩ := h
    have hgen : ∀ mv ∈ env.sortFn ms, GenFull p mv.mov ∨ GenTac p mv.mov := fun mv hmv =>
      .inr ⟨ms, hms, List.mem_map.2 ⟨mv, H.sort.mem _ _ hmv, rfl⟩⟩
    have hsub1 : LenOk s1 (d + 1) sub.size := by
      intro row hrow
      rw [hr1', hsub] at hrow
      cases hrow; exact Nat.le_refl _
    by_cases himp : score > α
    · simp only [if_pos himp] at hr
      have L := qLoop_pv H.closed ih p idx d β hp _ _ _ _ _ _ hr hgen (by rw [hr1']; exact hD)
        (fun _ _ => Nat.zero_le _) hsub1 (by rw [hi1]; exact hint)
      refine ⟨(RowsBelow.of_rows_eq hr1').trans L.below, sh1.trans L.shape, L.lenOk, L.pvs.trans hp1',
        fun _ h2 => L.legal (.inl (by rw [rowPrefix_zero]; trivial)) h2,
        fun h2 => L.lower (.inl (by omega)) h2, fun _ => L.upper (by omega)⟩
    · simp only [if_neg himp] at hr
      have L := qLoop_pv H.closed ih p idx d β hp _ _ _ _ _ _ hr hgen (by rw [hr1']; exact hD)
        (lenOk_of_rows_eq hlen hr1') hsub1 (by rw [hi1]; exact hint)
      refine ⟨(RowsBelow.of_rows_eq hr1').trans L.below, sh1.trans L.shape, L.lenOk, L.pvs.trans hp1',
        fun h1 h2 => ?_, fun h2 => L.lower (.inl (by omega)) h2, fun h => L.upper h⟩
      exact L.legal (.inr h1) h2

theorem abLoop_pv {env : Env} {G : Nat → Position → Prop} {D : Nat} (hcl : GenClosed G) {child : NodeFn}
    (hc : NodeOk G D child) (p : Position) (idx d : Nat) (β : Int) (hp : G d p) :
    ∀ (ms : List RMove) (α : Int) (curLen subLen : Nat) (s : SS) (r : LoopOut),
      abLoop env child p idx d β ms α curLen subLen s = .ok r →
      (∀ mv ∈ ms, GenFull p mv.mov ∨ GenTac p mv.mov) → s.rows.size ≤ D → LenOk s d curLen →
      LenOk s (d + 1) subLen → LoopPost p d α β s curLen (ms ≠ [] ∧ s.interrupted = false) r := by
  intro ms
  induction ms with
  | nil =>
    intro α curLen subLen s r h _ _ hlen _
    simp only [abLoop, pure_ok] at h; subst h
    exact LoopPost.ret (RowsBelow.refl _ _) (SameShape.refl _) rfl hlen (.inl (Int.le_refl _))
      (fun h _ => h.elim id (fun h => absurd rfl h.1)) id
  | cons mv rest ih =>
    intro α curLen subLen s r h hgen hD hlen hsub
    rw [abLoop_cons_eq] at h
    split at h
    · rename_i hi
      simp only [pure_ok] at h; subst h
      exact LoopPost.ret (RowsBelow.refl _ _) (SameShape.refl _) rfl hlen (.inl (Int.le_refl _))
        (fun h _ => h.elim id (fun h => by rw [h.2] at hi; cases hi)) id
    rename_i hi
    have hint : s.interrupted = false := by simpa using hi
    split at h
    · exact absurd h (by simp [throw_ok])
    obtain ⟨⟨q, b⟩, hmk, h⟩ := bind_ok.1 h
    split at h
    · exact absurd h (by simp [throw_ok])
    rename_i hleg
    have hb : b = true := by simpa using hleg
    subst hb
    obtain ⟨⟨v, sl, s1⟩, hch, h⟩ := bind_ok.1 h
    have hgm := hgen mv List.mem_cons_self
    have C := hc _ _ _ _ _ _ _ _ _ _ hch (hcl _ _ _ _ hp hgm hmk) hD hsub hint
    have hlow : α < INF → -INF < v := fun ha => C.lower (by omega)
    have hupp : -INF < β → v < INF := fun hb => C.upper (by omega)
    dsimp only at h
    split at h
    · rename_i hcut
      have hret : ∀ s2 : SS, s2.rows = s1.rows → s2.out = s1.out →
          LoopPost p d α β s curLen (mv :: rest ≠ [] ∧ s.interrupted = false) ⟨β, curLen, s2⟩ := by
        intro s2 h1 h2
        refine LoopPost.ret (fun j hj => by rw [h1]; exact C.below j hj) ⟨by rw [h1]; exact C.shape.size,
          fun i => by rw [h1]; exact C.shape.row i⟩ (by rw [h2]; exact C.pvs) hlen (.inr (Int.le_refl _))
          (fun _ h => h) (fun ha => by have := hlow ha; omega)
      split at h
      · obtain ⟨kt, _, h⟩ := bind_ok.1 h
        simp only [pure_ok] at h; subst h
        exact hret _ rfl rfl
      · simp only [pure_ok] at h; subst h
        exact hret _ rfl rfl
    rename_i hcut
    obtain ⟨⟨a2, l2, s2⟩, himp, h⟩ := bind_ok.1 h
    dsimp only at h
    obtain ⟨hpr, hpo⟩ := pollAfterMove_spec env s2
    -- the rest of the loop, started from the polled state
    have hrest : s2.rows.size ≤ D → LenOk s2 d l2 → LenOk s2 (d + 1) sl →
        LoopPost p d a2 β (pollAfterMove env s2).2 l2 False r := by
      intro h1 h2 h3
      split at h
      · simp only [pure_ok] at h; subst h
        exact LoopPost.ret (RowsBelow.refl _ _) (SameShape.refl _) rfl (lenOk_of_rows_eq h2 hpr)
          (.inl (Int.le_refl _)) (fun h _ => h.elim id False.elim) id
      · have post := ih _ _ _ _ _ h (fun m hm => hgen m (List.mem_cons_of_mem _ hm)) (by rw [hpr]; exact h1)
          (lenOk_of_rows_eq h2 hpr) (lenOk_of_rows_eq h3 hpr)
        exact LoopPost.chain (RowsBelow.refl _ _) (SameShape.refl _) rfl (fun h _ => h)
          (fun h _ => h.elim .inl False.elim) id post
    have shP : ∀ {a : SS}, SameShape a s2 → SameShape a (pollAfterMove env s2).2 := fun h =>
      h.trans (SameShape.of_rows_eq hpr)
    unfold improve at himp
    split at himp
    · rename_i hgt
      obtain ⟨⟨s2', cl⟩, hu, himp⟩ := bind_ok.1 himp
      simp only [pure_ok, Prod.mk.injEq] at himp
      obtain ⟨rfl, rfl, rfl⟩ := himp
      obtain ⟨hcl2, hlen2, hsh2, hrows2, ⟨rows', hs2⟩, hline⟩ := updateBestLine_spec hu
      have hleg2 : LegalLine p (rowPrefix s2' d cl) := by
        rw [hline C.lenOk]
        exact ⟨q, hgm, hmk, C.legal (by omega) (by omega)⟩
      have post := hrest (by rw [hsh2.size, C.shape.size]; exact hD) hlen2 (C.lenOk.shape hsh2)
      refine LoopPost.chain (s2 := (pollAfterMove env s2').2) ?_ (shP (C.shape.trans hsh2)) ?_
        (fun _ _ => .inl (by
          rw [rowPrefix_congr (s := s2') (show (pollAfterMove env s2').2.rows[d]? = s2'.rows[d]? by rw [hpr])]
          exact hleg2)) ?_ ?_ post
      · intro j hj
        rw [hpr, hrows2 j (by omega)]
        exact C.below j (by omega)
      · rw [hpo, hs2]; exact C.pvs
      · intro _ hb; left; have := hupp hb; omega
      · intro ha; have := hlow ha; omega
    · rename_i hgt
      simp only [pure_ok, Prod.mk.injEq] at himp
      obtain ⟨rfl, rfl, rfl⟩ := himp
      have post := hrest (by rw [C.shape.size]; exact hD) (hlen.shape C.shape) C.lenOk
      refine LoopPost.chain (s2 := (pollAfterMove env s1).2) ?_ (shP C.shape) ?_ ?_ ?_ id post
      · intro j hj
        rw [hpr]; exact C.below j (by omega)
      · rw [hpo]; exact C.pvs
      · intro h1 _
        rcases h1 with h1 | h1
        · left
          rw [rowPrefix_congr (show (pollAfterMove env s1).2.rows[d]? = s.rows[d]? by
            rw [hpr]; exact C.below d (Nat.lt_succ_self _))]
          exact h1
        · exact .inr h1
      · intro _ hb; left; have := hupp hb; omega

theorem alphaBeta_pv {env : Env} {G : Nat → Position → Prop} {D : Nat} (H : PvHyps env G D) (qfuel rem : Nat) :
    NodeOk G D (alphaBeta env qfuel rem) := by
  induction rem with
  | zero =>
    intro p idx d α β curLen s v len s' h hp hD hlen hint
    simp only [alphaBeta] at h
    obtain ⟨_, _, h⟩ := bind_ok.1 h
    exact quiescence_pv H qfuel _ _ _ _ _ _ _ _ _ _ h hp hD hlen hint
  | succ rem ih =>
    intro p idx d α β curLen s v len s' h hp hD hlen hint
    simp only [alphaBeta] at h
    obtain ⟨subLen, hsl, h⟩ := bind_ok.1 h
    obtain ⟨sub, hsub, rfl, hdlt⟩ := rowLen_ok hsl
    obtain ⟨ms, hms, h⟩ := bind_ok.1 h
    split at h
    · obtain ⟨tv, htv, h⟩ := bind_ok.1 h
      simp only [pure_ok, Prod.mk.injEq] at h
      obtain ⟨rfl, rfl, rfl⟩ := h
      have hfin := H.fin (a := 0) (b := 0) (by omega) hp (.inr (.inr htv))
      exact ⟨RowsBelow.refl _ _, SameShape.of_rows_eq rfl, fun _ _ => Nat.zero_le _, rfl,
        fun _ _ => by rw [rowPrefix_zero]; trivial, fun _ => hfin.1, fun _ => hfin.2⟩
    rename_i hne
    obtain ⟨r, hr, h⟩ := bind_ok.1 h
    simp only [pure_ok, Prod.mk.injEq] at h
    obtain ⟨rfl, rfl, rfl⟩ := h
    have hmovs := applyPvBonus_movs s.cand s.matched d ms
    have hgen : ∀ mv ∈ env.sortFn (applyPvBonus s.cand s.matched d ms).1, GenFull p mv.mov ∨ GenTac p mv.mov := by
      intro mv hmv
      refine .inl ⟨s.killers, ms, hms, ?_⟩
      rw [← hmovs]
      exact List.mem_map.2 ⟨mv, H.sort.mem _ _ hmv, rfl⟩
    have hne' : env.sortFn (applyPvBonus s.cand s.matched d ms).1 ≠ [] := by
      apply H.sort.ne
      intro h0
      rw [h0] at hmovs
      have : ms = [] := List.map_eq_nil_iff.1 hmovs.symm
      rw [this] at hne
      exact hne rfl
    have L := abLoop_pv H.closed ih p idx d β hp _ _ _ _ _ _ hr hgen hD hlen
      (fun row hrow => by rw [show row = sub from Option.some.inj (hrow.symm.trans hsub)]; exact Nat.le_refl _)
    exact ⟨L.below, ⟨L.shape.size, L.shape.row⟩, L.lenOk, L.pvs, fun h1 h2 => L.legal (.inr h1) h2,
      fun h2 => L.lower (.inr ⟨hne', hint⟩) h2, L.upper⟩

/-! ### The root -/

/-- every principal variation printed so far is a legal line from `p` starting with a generated move -/
def AllPv (p : Position) (s : SS) : Prop := ∀ pv ∈ pvsOf s.out, RootLine p pv

theorem AllPv.of_out_eq {p : Position} {s s' : SS} (h : AllPv p s) (ho : pvsOf s'.out = pvsOf s.out) : AllPv p s' := by
  unfold AllPv; rw [ho]; exact h

theorem rootStop_spec (env : Env) (s : SS) : (rootStop env s).rows = s.rows ∧ (rootStop env s).out = s.out := by
  unfold rootStop
  dsimp only
  split <;> exact ⟨rfl, rfl⟩

theorem rootPrint_spec {env : Env} {target : Nat} {score : Int} {curLen : Nat} {s s' : SS} {p : Position}
    (h : rootPrint env target score curLen s = .ok s') (hl : RootLine p (rowPrefix s 0 curLen)) (ha : AllPv p s) :
    s'.rows = s.rows ∧ AllPv p s' := by
  unfold rootPrint at h
  split at h
  · split at h
    · exact absurd h (by simp [throw_ok])
    · simp only [pure_ok] at h; subst h
      refine ⟨rfl, ?_⟩
      intro pv hpv
      change pv ∈ pvsOf (_ :: s.out) at hpv
      simp only [pvsOf, List.filterMap_cons, Event.pv?, List.mem_cons] at hpv
      rcases hpv with rfl | hpv
      · exact hl
      · exact ha pv hpv
  · simp only [pure_ok] at h; subst h; exact ⟨rfl, ha⟩

theorem rootLoop_pv {env : Env} {G : Nat → Position → Prop} {D : Nat} (hcl : GenClosed G) {child : NodeFn}
    (hc : NodeOk G D child) (p : Position) (target : Nat) (hp : G 0 p) :
    ∀ (ms : List RMove) (α : Int) (curLen subLen : Nat) (s : SS) (r : LoopOut),
      rootLoop env child p target ms α curLen subLen s = .ok r →
      (∀ mv ∈ ms, GenFull p mv.mov) → s.rows.size ≤ D → LenOk s 1 subLen → α < INF → AllPv p s →
      (RootLine p (rowPrefix s 0 curLen) ∨ (ms ≠ [] ∧ s.interrupted = false ∧ α = -INF)) →
      SameShape s r.st ∧ AllPv p r.st ∧ RootLine p (rowPrefix r.st 0 r.curLen) := by
  intro ms
  induction ms with
  | nil =>
    intro α curLen subLen s r h _ _ _ _ hall hline
    simp only [rootLoop, pure_ok] at h; subst h
    exact ⟨SameShape.refl _, hall, hline.elim id (fun h => absurd rfl h.1)⟩
  | cons mv rest ih =>
    intro α curLen subLen s r h hgen hD hsub hα hall hline
    rw [rootLoop_cons_eq] at h
    split at h
    · rename_i hi
      simp only [pure_ok] at h; subst h
      exact ⟨SameShape.refl _, hall, hline.elim id (fun h => by rw [h.2.1] at hi; cases hi)⟩
    rename_i hi
    have hint : s.interrupted = false := by simpa using hi
    split at h
    · exact absurd h (by simp [throw_ok])
    obtain ⟨⟨q, b⟩, hmk, h⟩ := bind_ok.1 h
    split at h
    · exact absurd h (by simp [throw_ok])
    rename_i hleg
    have hb : b = true := by simpa using hleg
    subst hb
    obtain ⟨⟨v, sl, s1⟩, hch, h⟩ := bind_ok.1 h
    have hgm := hgen mv List.mem_cons_self
    have C := hc _ _ _ _ _ _ _ _ _ _ hch (hcl _ _ _ _ hp (.inl hgm) hmk) hD hsub hint
    have hlow : -INF < v := C.lower (by omega)
    have hupp : v < INF := C.upper (by have := inf_pos; omega)
    obtain ⟨⟨a2, l2, s2⟩, himp, h⟩ := bind_ok.1 h
    dsimp only at h himp
    -- the state after the (possible) improvement
    have mid : SameShape s s2 ∧ AllPv p s2 ∧ RootLine p (rowPrefix s2 0 l2) ∧ LenOk s2 1 sl ∧ a2 < INF := by
      unfold rootImprove at himp
      split at himp
      · obtain ⟨⟨s2', cl⟩, hu, himp⟩ := bind_ok.1 himp
        obtain ⟨s3, hpr, himp⟩ := bind_ok.1 himp
        simp only [pure_ok, Prod.mk.injEq] at himp
        obtain ⟨rfl, rfl, rfl⟩ := himp
        obtain ⟨hcl2, hlen2, hsh2, hrows2, ⟨rows', hs2⟩, hline2⟩ := updateBestLine_spec hu
        have hleg2 : RootLine p (rowPrefix s2'.consult 0 cl) := by
          show RootLine p (rowPrefix s2' 0 cl)
          rw [hline2 C.lenOk]
          exact ⟨q, hgm, hmk, C.legal hlow (by omega)⟩
        have hall2 : AllPv p s2'.consult := by
          refine hall.of_out_eq ?_
          show pvsOf s2'.out = _
          rw [hs2]; exact C.pvs
        obtain ⟨hr3, hall3⟩ := rootPrint_spec hpr hleg2 hall2
        have hr3' : s3.rows = s2'.rows := hr3
        refine ⟨(C.shape.trans hsh2).trans (SameShape.of_rows_eq hr3'), hall3, ?_,
          lenOk_of_rows_eq (C.lenOk.shape hsh2) hr3', by omega⟩
        rw [rowPrefix_congr (s := s2'.consult) (by rw [hr3])]
        exact hleg2
      · rename_i hngt
        simp only [pure_ok, Prod.mk.injEq] at himp
        obtain ⟨rfl, rfl, rfl⟩ := himp
        refine ⟨C.shape, hall.of_out_eq C.pvs, ?_, C.lenOk, hα⟩
        rw [rowPrefix_congr (C.below 0 Nat.zero_lt_one)]
        rcases hline with hline | ⟨_, _, rfl⟩
        · exact hline
        · exfalso; omega
    obtain ⟨sh2, hall2, hline2, hsub2, ha2⟩ := mid
    have shc : SameShape s s2.consult := ⟨sh2.size, sh2.row⟩
    split at h
    · simp only [pure_ok] at h; subst h; exact ⟨sh2, hall2, hline2⟩
    split at h
    · simp only [pure_ok] at h; subst h; exact ⟨shc, hall2, hline2⟩
    split at h
    · simp only [pure_ok] at h; subst h; exact ⟨shc, hall2, hline2⟩
    obtain ⟨hrr, hro⟩ := rootStop_spec env s2.consult
    have hrr' : (rootStop env s2.consult).rows = s2.rows := hrr
    have hro' : (rootStop env s2.consult).out = s2.out := hro
    obtain ⟨sh3, hall3, hline3⟩ := ih _ _ _ _ _ h (fun m hm => hgen m (List.mem_cons_of_mem _ hm))
      (by rw [hrr', sh2.size]; exact hD) (lenOk_of_rows_eq hsub2 hrr') ha2
      (hall2.of_out_eq (by rw [hro'])) (.inl (by rw [rowPrefix_congr (s := s2) (by rw [hrr'])]; exact hline2))
    exact ⟨(sh2.trans (SameShape.of_rows_eq hrr')).trans sh3, hall3, hline3⟩

theorem startAlphaBeta_pv {env : Env} {G : Nat → Position → Prop} {D : Nat} (H : PvHyps env G D)
    {qfuel : Nat} {p : Position} {target curLen : Nat} {s : SS} {v : Int} {one : Bool} {len : Nat} {s' : SS}
    (h : startAlphaBeta env qfuel p target curLen s = .ok (v, one, len, s')) (hp : G 0 p) (hD : s.rows.size ≤ D)
    (hall : AllPv p s) (hline : RootLine p (rowPrefix s 0 curLen) ∨ s.interrupted = false) :
    SameShape s s' ∧ AllPv p s' ∧ RootLine p (rowPrefix s' 0 len) := by
  simp only [startAlphaBeta] at h
  obtain ⟨subLen, hsl, h⟩ := bind_ok.1 h
  obtain ⟨sub, hsub, rfl, hdlt⟩ := rowLen_ok hsl
  obtain ⟨ms, hms, h⟩ := bind_ok.1 h
  split at h
  · obtain ⟨tv, _, h⟩ := bind_ok.1 h
    simp only [pure_ok, Prod.mk.injEq] at h
    obtain ⟨rfl, rfl, rfl, rfl⟩ := h
    exact ⟨SameShape.of_rows_eq rfl, hall, by rw [rowPrefix_zero]; trivial⟩
  rename_i hne
  obtain ⟨r, hr, h⟩ := bind_ok.1 h
  simp only [pure_ok, Prod.mk.injEq] at h
  obtain ⟨rfl, rfl, rfl, rfl⟩ := h
  have hmovs := applyPvBonus_movs s.cand s.matched 0 ms
  have hgen : ∀ mv ∈ env.sortFn (applyPvBonus s.cand s.matched 0 ms).1, GenFull p mv.mov := by
    intro mv hmv
    refine ⟨s.killers, ms, hms, ?_⟩
    rw [← hmovs]
    exact List.mem_map.2 ⟨mv, H.sort.mem _ _ hmv, rfl⟩
  have hne' : env.sortFn (applyPvBonus s.cand s.matched 0 ms).1 ≠ [] := by
    apply H.sort.ne
    intro h0
    rw [h0] at hmovs
    have : ms = [] := List.map_eq_nil_iff.1 hmovs.symm
    rw [this] at hne
    exact hne rfl
  rw [minusInf_eq'] at hr
  obtain ⟨sh, hall', hline'⟩ := rootLoop_pv H.closed (alphaBeta_pv H qfuel (target - 1)) p target hp _ _ _ _ _ _ hr
    hgen hD (fun row hrow => by
      rw [show row = sub from Option.some.inj (hrow.symm.trans hsub)]; exact Nat.le_refl _)
    (by have := inf_pos; omega) hall
    (hline.elim .inl (fun hi => .inr ⟨hne', hi, rfl⟩))
  exact ⟨⟨sh.size, sh.row⟩, hall', hline'⟩

/-! ### Iterative deepening -/

theorem deepenLoop_pv {env : Env} {G : Nat → Position → Prop} {D : Nat} (H : PvHyps env G D)
    (qfuel : Nat) (p : Position) (hp : G 0 p) (maxDepth : Nat) :
    ∀ (n cur : Nat) (best : Int) (done len0 : Nat) (s : SS) (best' : Int) (done' : Nat) (s' : SS),
      deepenLoop env qfuel p maxDepth n cur best done len0 s = .ok (best', done', s') →
      s.rows.size ≤ D → AllPv p s → RootLine p (rowPrefix s 0 len0) → RootLine p s.cand →
      AllPv p s' ∧ RootLine p s'.cand := by
  intro n
  induction n with
  | zero =>
    intro cur best done len0 s best' done' s' h _ hall _ hcand
    simp only [deepenLoop, pure_ok, Prod.mk.injEq] at h
    obtain ⟨rfl, rfl, rfl⟩ := h
    exact ⟨hall, hcand⟩
  | succ n ih =>
    intro cur best done len0 s best' done' s' h hD hall hline hcand
    rw [deepenLoop_succ_eq] at h
    split at h
    · simp only [pure_ok, Prod.mk.injEq] at h
      obtain ⟨rfl, rfl, rfl⟩ := h
      exact ⟨hall, hcand⟩
    obtain ⟨⟨score, one, l1, s1⟩, hsab, h⟩ := bind_ok.1 h
    obtain ⟨sh1, hall1, hline1⟩ := startAlphaBeta_pv H hsab hp hD hall (.inl hline)
    have hc1 : s1.cand = s.cand := (startAlphaBeta_searchFrame hsab).cand
    dsimp only at h
    have stopped : AllPv p s1.consult ∧ RootLine p s1.consult.cand := ⟨hall1, by show RootLine p s1.cand; rw [hc1]; exact hcand⟩
    split at h
    · simp only [pure_ok, Prod.mk.injEq] at h
      obtain ⟨rfl, rfl, rfl⟩ := h
      exact stopped
    split at h
    · simp only [pure_ok, Prod.mk.injEq] at h
      obtain ⟨rfl, rfl, rfl⟩ := h
      exact stopped
    obtain ⟨s3, hpi, h⟩ := bind_ok.1 h
    obtain ⟨_, rfl⟩ := printInfoAfterDepth_ok hpi
    have hall3 : AllPv p ({ copyBestLine s1.consult l1 with
          out := Event.infoDepth cur score (copyBestLine s1.consult l1).nodes (copyBestLine s1.consult l1).cand ::
            (copyBestLine s1.consult l1).out } : SS) := by
      intro pv hpv
      change pv ∈ pvsOf (_ :: s1.out) at hpv
      simp only [pvsOf, List.filterMap_cons, Event.pv?, List.mem_cons] at hpv
      rcases hpv with rfl | hpv
      · exact hline1
      · exact hall1 pv hpv
    have accepted : AllPv p ({ copyBestLine s1.consult l1 with
          out := Event.infoDepth cur score (copyBestLine s1.consult l1).nodes (copyBestLine s1.consult l1).cand ::
            (copyBestLine s1.consult l1).out } : SS) ∧ RootLine p (rowPrefix s1 0 l1) := ⟨hall3, hline1⟩
    split at h
    · simp only [pure_ok, Prod.mk.injEq] at h
      obtain ⟨rfl, rfl, rfl⟩ := h
      exact accepted
    split at h
    · simp only [pure_ok, Prod.mk.injEq] at h
      obtain ⟨rfl, rfl, rfl⟩ := h
      exact accepted
    exact ih _ _ _ _ _ _ _ _ h (by show s1.rows.size ≤ D; rw [sh1.size]; exact hD) hall3 hline1 hline1

/-- Every principal variation printed by a successful `iterDeep` run is a legal line from the searched position
    whose first move was produced by the full move generator; so is the stored best line. -/
theorem iterDeep_pv {env : Env} {G : Nat → Position → Prop} {rows : Array (Array Move)}
    (H : PvHyps env G rows.size)
    {qfuel : Nat} {p : Position} (hp : G 0 p) {maxDepth : Nat} {killers : Killers}
    {len0 : Nat} {s : SS} (h : iterDeep env qfuel p maxDepth killers rows len0 = .ok s) :
    AllPv p s ∧ RootLine p s.cand := by
  obtain ⟨score, one, l, s1, hsab, hc⟩ := iterDeep_cases h
  have hall0 : AllPv p (initSS rows killers) := fun pv hpv => by cases hpv
  obtain ⟨sh1, hall1, hline1⟩ := startAlphaBeta_pv H hsab hp (Nat.le_refl _) hall0 (.inr rfl)
  rcases hc with ⟨hemp, rfl⟩ | ⟨hne, best, done, s2, m, tl, hd, hcand, rfl⟩
  · exact ⟨hall1, hline1⟩
  · have h2 : AllPv p s2 ∧ RootLine p s2.cand := by
      unfold deepenFrom at hd
      split at hd
      · exact deepenLoop_pv H qfuel p hp maxDepth _ _ _ _ _ _ _ _ _ hd
          (by show s1.rows.size ≤ _; rw [sh1.size]; exact Nat.le_refl _) hall1 hline1 hline1
      · simp only [pure_ok, Prod.mk.injEq] at hd
        obtain ⟨rfl, rfl, rfl⟩ := hd
        exact ⟨hall1, hline1⟩
    refine ⟨?_, h2.2⟩
    intro pv hpv
    change pv ∈ pvsOf (_ :: _ :: s2.out) at hpv
    simp only [pvsOf, List.filterMap_cons, Event.pv?, List.mem_cons] at hpv
    rcases hpv with rfl | hpv
    · exact h2.2
    · exact h2.1 pv hpv

theorem mem_pvsOf {l : List Event} {pv : List Move} :
    pv ∈ pvsOf l ↔ (∃ sc d n, Event.infoPv sc d n pv ∈ l) ∨ (∃ d sc n, Event.infoDepth d sc n pv ∈ l) := by
  simp only [pvsOf, List.mem_filterMap]
  constructor
  · rintro ⟨e, he, hd⟩
    cases e <;> simp only [Event.pv?, Option.some.injEq, reduceCtorEq] at hd
    · subst hd; exact .inl ⟨_, _, _, he⟩
    · subst hd; exact .inr ⟨_, _, _, he⟩
  · rintro (⟨sc, d, n, he⟩ | ⟨d, sc, n, he⟩)
    · exact ⟨_, he, rfl⟩
    · exact ⟨_, he, rfl⟩

end Magog.Model
