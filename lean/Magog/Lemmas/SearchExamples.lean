import Magog.Lemmas.SearchIter

/-! Concrete, kernel-evaluated runs of the search model on two tiny positions; used as non-vacuity
    witnesses for the theorems about `iterDeep` / `deepenLoop`. -/

namespace Magog.Model.SearchExamples
open Magog Magog.Model

/-- an environment with the given clock / stop-channel oracles, identity sort, trivial blend -/
def exEnv (timeUp stopAt : Nat → Bool) : Env :=
  { blend := fun _ a _ => a, sortFn := id, timeUp, stopAt,
    gateOpen := fun _ => true, logInterval := 7, pvRows := 6 }

/-- never a timeout, never a stop request -/
def quietEnv : Env := exEnv (fun _ => false) (fun _ => false)

theorem quietEnv_quiet : quietEnv.Quiet := fun _ => ⟨rfl, rfl⟩

/-- the clock runs out at consultation 40 (in the middle of iteration 3 on `kkPos`) -/
def timedEnv : Env := exEnv (fun n => decide (n ≥ 40)) (fun _ => false)

/-- white Ka1, black Kh8, white to move -/
def kkPos : Position :=
  { board := (Array.replicate 128 0 |>.setIfInBounds 0 (WhiteBit ||| King)).setIfInBounds 0x77 (BlackBit ||| King),
    blackPieces := [], whitePieces := [], blackPawns := [], whitePawns := [],
    blackKing := 0x77, whiteKing := 0, flags := FWhiteTurn, ep := InvalidSq, ply := 0 }

/-- white Ka1, black Kh8, Qc2, white to move: stalemate -/
def stalePos : Position :=
  { board := ((Array.replicate 128 0 |>.setIfInBounds 0 (WhiteBit ||| King)).setIfInBounds 0x77
      (BlackBit ||| King)).setIfInBounds 0x12 (BlackBit ||| Queen),
    blackPieces := [0x12], whitePieces := [], blackPawns := [], whitePawns := [],
    blackKing := 0x77, whiteKing := 0, flags := FWhiteTurn, ep := InvalidSq, ply := 0 }

def run (env : Env) (p : Position) (maxDepth : Nat) : M SS :=
  iterDeep env 3 p maxDepth Killers.empty (newRows 6) 6

/-- the run succeeded and ended with `bestmove m`, preceded by an `infoPv` line of depth `done`, after at most
    `bound` oracle consultations -/
def endsWithBest (done bound : Nat) : M SS → Bool
  | .ok s => match s.out with
    | .bestmove _ :: .infoPv _ d _ _ :: _ => d == done && decide (s.tick ≤ bound)
    | _ => false
  | .error _ => false

def endsWithNone : M SS → Bool
  | .ok s => match s.out with
    | .bestmoveNone :: _ => true
    | _ => false
  | .error _ => false

theorem endsWithBest_elim {done bound : Nat} {r : M SS} (h : endsWithBest done bound r = true) :
    ∃ s m best nodes pv rest, r = .ok s ∧ s.out = .bestmove m :: .infoPv best done nodes pv :: rest ∧
      s.tick ≤ bound := by
  unfold endsWithBest at h
  split at h
  · rename_i s
    split at h
    · rename_i m best d nodes pv rest heq
      have : d = done ∧ s.tick ≤ bound := by simpa using h
      obtain ⟨rfl, hb⟩ := this
      exact ⟨s, m, best, nodes, pv, rest, rfl, heq, hb⟩
    · exact absurd h (by simp)
  · exact absurd h (by simp)

theorem endsWithNone_elim {r : M SS} (h : endsWithNone r = true) :
    ∃ s rest, r = .ok s ∧ s.out = .bestmoveNone :: rest := by
  unfold endsWithNone at h
  split at h
  · rename_i s
    split at h
    · rename_i rest heq
      exact ⟨s, rest, rfl, heq⟩
    · exact absurd h (by simp)
  · exact absurd h (by simp)

set_option maxRecDepth 100000 in
/-- `go depth 2` on `kkPos` under the quiet oracle completes iterations 1 and 2 -/
theorem quiet_run2 : endsWithBest 2 40 (run quietEnv kkPos 2) = true := by decide +kernel

set_option maxRecDepth 100000 in
/-- `go depth 3` on `kkPos` with the clock running out during iteration 3 plays the depth-2 move -/
theorem timed_run3 : endsWithBest 2 100 (run timedEnv kkPos 3) = true := by decide +kernel

set_option maxRecDepth 100000 in
/-- `go depth 2` on `kkPos` under `timedEnv` needs at most 40 consultations (all answered "no") -/
theorem timed_run2 : endsWithBest 2 40 (run timedEnv kkPos 2) = true := by decide +kernel

/-- like `timedEnv`, but the oracles answer differently from consultation 100 on -/
def timedEnv' : Env := exEnv (fun n => decide (n ≥ 40) && decide (n < 100)) (fun n => decide (n ≥ 100))

set_option maxRecDepth 100000 in
theorem stale_run : endsWithNone (run quietEnv stalePos 3) = true := by decide +kernel

/-- the state before iteration 2 in the discard example (fresh state) -/
def freshSS : SS := initSS (newRows 6) Killers.empty

/-- the clock runs out at consultation 5 -/
def earlyEnv : Env := exEnv (fun n => decide (n ≥ 5)) (fun _ => false)

/-- iteration 2 from `freshSS` ends with the clock run out -/
def stoppedIteration : Bool :=
  match startAlphaBeta earlyEnv 3 kkPos 2 6 freshSS with
  | .ok (_, _, _, s1) => earlyEnv.timeUp s1.tick || s1.interrupted
  | .error _ => false

set_option maxRecDepth 100000 in
theorem stoppedIteration_true : stoppedIteration = true := by decide +kernel

theorem stoppedIteration_elim :
    ∃ score one len1 s1, startAlphaBeta earlyEnv 3 kkPos 2 6 freshSS = .ok (score, one, len1, s1) ∧
      (earlyEnv.timeUp s1.tick = true ∨ s1.interrupted = true) := by
  have h := stoppedIteration_true
  unfold stoppedIteration at h
  split at h
  · rename_i score one len1 s1 heq
    refine ⟨score, one, len1, s1, heq, ?_⟩
    simpa using h
  · exact absurd h (by simp)

end Magog.Model.SearchExamples
