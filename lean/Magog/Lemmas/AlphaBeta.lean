import Magog.Spec.Minimax

/-! Lemmas for C04 ("pruning is transparent"): the model's fail-hard alpha-beta / quiescence return, up to
    clamping into the window, the plain negamax value of `Spec.Minimax`. -/

namespace Magog.Lemmas.AlphaBeta
open Magog Magog.Model Magog.Spec.Minimax

/-! ### Except plumbing -/

theorem bind_ok {α β} {x : M α} {f : α → M β} {b : β} :
    (x >>= f) = .ok b ↔ ∃ a, x = .ok a ∧ f a = .ok b := by
  cases x with
  | error e => simp [bind, Except.bind]
  | ok a => simp [bind, Except.bind]

theorem pure_ok {α} {a b : α} : (pure a : M α) = .ok b ↔ a = b := by
  simp [pure, Except.pure]

theorem throw_ok {α} {e : Panic} {b : α} : (throw e : M α) = .ok b ↔ False := by
  simp [throw, throwThe, MonadExceptOf.throw]

/-! ### (a) the lazy evaluation is transparent up to clamping -/

/-- the lazy assumption at `p`: the cheap (piece-square) score is within the generated margin of the full one -/
def LazyGood (blend : Blend) (p : Position) (d : Int) : Prop :=
  ∀ cheap full, isCheckMate p = .ok false → pieceSquareScore blend p = .ok cheap →
    evaluate blend p d = .ok full → (full - cheap).natAbs ≤ Gen.fullEvalScoreMargin

theorem lazy_clamp (blend : Blend) (p : Position) (d α β full x : Int)
    (hα : Gen.MinusInfinityScore ≤ α) (hβ : β ≤ Gen.InfinityScore) (hαβ : α ≤ β)
    (hfull : evaluate blend p d = .ok full) (hx : lazyEvaluate blend p d α β = .ok x)
    (hg : LazyGood blend p d) : clamp x α β = clamp full α β := by
  have hg' := hg
  unfold LazyGood at hg'
  have hfull' := hfull
  unfold evaluate lazyEvaluate at hfull'
  unfold lazyEvaluate at hx
  simp only [bind_ok] at hfull' hx
  obtain ⟨mate, hmate, hfull'⟩ := hfull'
  obtain ⟨mate', hmate', hx⟩ := hx
  rw [hmate] at hmate'
  cases hmate'
  cases mate with
  | true =>
    simp only [if_true, pure_ok] at hfull' hx
    rw [← hfull', ← hx]
  | false =>
    simp only [Bool.false_eq_true, if_false, bind_ok] at hfull' hx
    obtain ⟨cheap, hcheap, hfull'⟩ := hfull'
    obtain ⟨cheap', hcheap', hx⟩ := hx
    rw [hcheap] at hcheap'
    cases hcheap'
    have hm := hg' cheap full hmate hcheap hfull
    split at hx
    · -- the lazy shortcut was taken
      rename_i hc
      simp only [pure_ok] at hx
      subst hx
      simp only [Bool.or_eq_true, decide_eq_true_eq] at hc
      unfold clamp
      omega
    · rename_i hc
      simp only [Bool.or_eq_true, decide_eq_true_eq] at hc
      split at hfull'
      · rename_i hc'
        simp only [Bool.or_eq_true, decide_eq_true_eq] at hc'
        omega
      · rw [hx] at hfull'
        cases hfull'
        rfl

/-! ### foldMax: order independence, monotonicity -/

theorem foldMax_cons_ok {cv : Move → M Int} {m : Move} {l : List Move} {acc w : Int} :
    foldMax cv (m :: l) acc = .ok w ↔ ∃ v, cv m = .ok v ∧ foldMax cv l (max acc v) = .ok w := by
  simp only [foldMax, bind_ok]

theorem foldMax_nil_ok {cv : Move → M Int} {acc w : Int} : foldMax cv [] acc = .ok w ↔ acc = w := by
  simp only [foldMax, pure_ok]

/-- the maximum does not depend on the order in which the moves are tried -/
theorem foldMax_perm (cv : Move → M Int) {l l' : List Move} (h : l.Perm l') :
    ∀ acc w, foldMax cv l acc = .ok w → foldMax cv l' acc = .ok w := by
  induction h with
  | nil => intro acc w h; exact h
  | cons m _ ih =>
    intro acc w h
    rw [foldMax_cons_ok] at h ⊢
    obtain ⟨v, hv, h⟩ := h
    exact ⟨v, hv, ih _ _ h⟩
  | swap a b l =>
    intro acc w h
    simp only [foldMax_cons_ok] at h ⊢
    obtain ⟨v, hv, v', hv', h⟩ := h
    refine ⟨v', hv', v, hv, ?_⟩
    have : max (max acc v') v = max (max acc v) v' := by omega
    rw [this]; exact h
  | trans _ _ ih1 ih2 => intro acc w h; exact ih2 _ _ (ih1 _ _ h)

theorem foldMax_max (cv : Move → M Int) (l : List Move) :
    ∀ acc w a, foldMax cv l acc = .ok w → foldMax cv l (max a acc) = .ok (max a w) := by
  induction l with
  | nil => intro acc w a h; rw [foldMax_nil_ok] at h ⊢; rw [h]
  | cons m l ih =>
    intro acc w a h
    rw [foldMax_cons_ok] at h ⊢
    obtain ⟨v, hv, h⟩ := h
    refine ⟨v, hv, ?_⟩
    have : max (max a acc) v = max a (max acc v) := by omega
    rw [this]; exact ih _ _ _ h

theorem foldMax_ge (cv : Move → M Int) (l : List Move) :
    ∀ acc w, foldMax cv l acc = .ok w → acc ≤ w := by
  induction l with
  | nil => intro acc w h; rw [foldMax_nil_ok] at h; omega
  | cons m l ih =>
    intro acc w h
    rw [foldMax_cons_ok] at h
    obtain ⟨v, hv, h⟩ := h
    have := ih _ _ h
    omega

theorem foldMax_le (cv : Move → M Int) (B : Int) (l : List Move)
    (hB : ∀ m ∈ l, ∀ v, cv m = .ok v → v ≤ B) :
    ∀ acc w, acc ≤ B → foldMax cv l acc = .ok w → w ≤ B := by
  induction l with
  | nil => intro acc w ha h; rw [foldMax_nil_ok] at h; omega
  | cons m l ih =>
    intro acc w ha h
    rw [foldMax_cons_ok] at h
    obtain ⟨v, hv, h⟩ := h
    have := hB m (by simp) v hv
    exact ih (fun m hm => hB m (by simp [hm])) _ _ (by omega) h

/-! ### (b) hypotheses -/

/-- the clock never runs out and no stop request arrives -/
def Quiet (env : Env) : Prop := ∀ n, env.timeUp n = false ∧ env.stopAt n = false

/-- the sort function only reorders -/
def PermSort (env : Env) : Prop := ∀ l, (env.sortFn l).Perm l

/-- the killer table influences rankings only, not the generated moves (proved separately) -/
def KillerIndep : Prop :=
  ∀ kt kt' p ms ms', generateMoves kt p = .ok ms → generateMoves kt' p = .ok ms' →
    ms.map (·.mov) = ms'.map (·.mov)

/-- `m` is a move the search may try at `p`: generated (under some killer table) or tactical -/
def Generated (p : Position) (m : Move) : Prop :=
  (∃ kt ms, generateMoves kt p = .ok ms ∧ m ∈ ms.map (·.mov)) ∨
  (∃ ms, generateTacticalMoves p = .ok ms ∧ m ∈ ms.map (·.mov))

/-- `G` is closed under `makeMove` successors along generated moves -/
def Closed (G : Position → Prop) : Prop :=
  ∀ p m q b, G p → Generated p m → makeMove p m = .ok (q, b) → G q

/-- when the search evaluates lazily, the lazy assumption holds on `G` at every depth -/
def LazyOn (env : Env) (G : Position → Prop) : Prop :=
  env.lazy = true → ∀ p, G p → ∀ d : Int, LazyGood env.blend p d

def isInfoDepth : Event → Bool
  | .infoDepth .. => true
  | _ => false

/-- the `info depth …` lines (printInfoAfterDepth) printed so far -/
def depthEvs (s : SS) : List Event := s.out.filter isInfoDepth

/-- what a completed node leaves behind: still not interrupted, no `info depth` line added -/
def Post (s s' : SS) : Prop := s'.interrupted = false ∧ depthEvs s' = depthEvs s

theorem Post.refl {s : SS} (h : s.interrupted = false) : Post s s := ⟨h, rfl⟩
theorem Post.trans {s s' s'' : SS} (h : Post s s') (h' : Post s' s'') : Post s s'' :=
  ⟨h'.1, h'.2.trans h.2⟩

/-- `child` (a node function at depth `d`) computes `cval` up to clamping, on `G` -/
def ChildOk (G : Position → Prop) (child : NodeFn) (cval : Position → M Int) (d : Nat) : Prop :=
  ∀ q idx a b curLen s v len s' w, G q → a < b → Gen.MinusInfinityScore ≤ a → b ≤ Gen.InfinityScore →
    s.interrupted = false → child q idx d a b curLen s = .ok (v, len, s') → cval q = .ok w →
    clamp v a b = clamp w a b ∧ Post s s'

theorem minusInf_eq : Gen.MinusInfinityScore = -(Gen.InfinityScore : Int) := by decide

theorem updateBestLine_frame {s s' : SS} {d subLen len : Nat} {mv : Move}
    (h : updateBestLine s d subLen mv = .ok (s', len)) :
    s'.interrupted = s.interrupted ∧ s'.out = s.out := by
  unfold updateBestLine at h
  split at h
  · split at h
    · simp only [throw_ok] at h
    · simp only [pure_ok, Prod.mk.injEq] at h
      obtain ⟨h, -⟩ := h
      subst h
      exact ⟨rfl, rfl⟩
  · simp only [throw_ok] at h

theorem childVal_ok {f : Position → M Int} {p : Position} {m : Move} {v : Int} :
    childVal f p m = .ok v ↔ ∃ q b x, makeMove p m = .ok (q, b) ∧ b = true ∧ f q = .ok x ∧ v = -x := by
  unfold childVal
  simp only [bind_ok]
  constructor
  · rintro ⟨⟨q, b⟩, hmk, h⟩
    cases b with
    | false => simp [throw_ok] at h
    | true =>
      simp only [Bool.not_true, Bool.false_eq_true, if_false, bind_ok, pure_ok] at h
      obtain ⟨x, hx, h⟩ := h
      exact ⟨q, true, x, hmk, rfl, hx, h.symm⟩
  · rintro ⟨q, b, x, hmk, hb, hx, hv⟩
    subst hb
    refine ⟨(q, true), hmk, ?_⟩
    simp only [Bool.not_true, Bool.false_eq_true, if_false, bind_ok, pure_ok]
    exact ⟨x, hx, hv.symm⟩

theorem pollAfterMove_quiet {env : Env} (hq : Quiet env) {s : SS} (hs : s.interrupted = false) :
    pollAfterMove env s = (false, s.consult.consult) := by
  unfold pollAfterMove
  simp only [hs, Bool.false_eq_true, if_false, (hq _).1, (hq _).2]

theorem abLoop_value (env : Env) (hq : Quiet env) (G : Position → Prop) (hcl : Closed G)
    (child : NodeFn) (cval : Position → M Int) (p : Position) (hp : G p) (idx depth : Nat) (β : Int)
    (hβ : β ≤ Gen.InfinityScore) (hch : ChildOk G child cval (depth + 1)) (ms : List RMove) :
    (∀ mv ∈ ms, Generated p mv.mov) →
    ∀ (α : Int) (curLen subLen : Nat) (s : SS) (out : LoopOut) (w : Int),
      Gen.MinusInfinityScore ≤ α → α < β → s.interrupted = false →
      abLoop env child p idx depth β ms α curLen subLen s = .ok out →
      foldMax (childVal cval p) (ms.map (·.mov)) α = .ok w →
      out.score = clamp w α β ∧ Post s out.st := by
  induction ms with
  | nil =>
    intro _ α curLen subLen s out w hα hαβ hs h hw
    simp only [abLoop, pure_ok] at h
    simp only [List.map_nil, foldMax_nil_ok] at hw
    subst h; subst hw
    refine ⟨?_, Post.refl hs⟩
    unfold clamp; simp only; omega
  | cons mv rest ih =>
    intro hgen α curLen subLen s out w hα hαβ hs h hw
    have ih := ih (fun m hm => hgen m (by simp [hm]))
    simp only [List.map_cons, foldMax_cons_ok, childVal_ok] at hw
    obtain ⟨v, ⟨q, b, x, hmk, hb, hx, hv⟩, hw⟩ := hw
    subst hb
    unfold abLoop at h
    simp only [hs, Bool.false_eq_true, if_false] at h
    split at h
    · simp only [throw_ok] at h
    rw [bind_ok] at h
    obtain ⟨r, hr, h⟩ := h
    rw [hmk] at hr
    cases hr
    simp only [Bool.not_true, Bool.false_eq_true, if_false] at h
    rw [bind_ok] at h
    obtain ⟨⟨cv, subLen', s1⟩, hc, h⟩ := h
    simp only at h
    have hq' : G q := hcl p mv.mov q true hp (hgen mv (by simp)) hmk
    obtain ⟨hcl1, hpost1⟩ := hch q (idx + 1) (-β) (-α) subLen s cv subLen' s1 x hq' (by omega)
      (by rw [minusInf_eq]; omega) (by rw [minusInf_eq] at hα; omega) hs hc hx
    have hmono := foldMax_ge _ _ _ _ hw
    unfold clamp at hcl1
    split at h
    · -- β cutoff
      rename_i hcut
      have hsc : out.score = β ∧ Post s1 out.st := by
        split at h
        · obtain ⟨kt, _, h⟩ := bind_ok.mp h
          rw [pure_ok] at h; subst h
          exact ⟨rfl, hpost1.1, rfl⟩
        · rw [pure_ok] at h; subst h
          exact ⟨rfl, Post.refl hpost1.1⟩
      refine ⟨?_, hpost1.trans hsc.2⟩
      rw [hsc.1]; unfold clamp; omega
    · rename_i hcut
      split at h
      · -- raises α
        rename_i hgt
        rw [bind_ok] at h
        obtain ⟨⟨s2, curLen2⟩, hub, h⟩ := h
        have hf := updateBestLine_frame hub
        have hs2 : s2.interrupted = false := by rw [hf.1]; exact hpost1.1
        simp only [pure_bind, pollAfterMove_quiet hq hs2, Bool.false_eq_true, if_false] at h
        have hcv : -cv = v := by omega
        have hmax : max α v = -cv := by omega
        rw [hmax] at hw
        obtain ⟨hsc, hpost⟩ := ih (-cv) curLen2 subLen' s2.consult.consult out w (by omega) (by omega)
          hs2 h hw
        refine ⟨?_, hpost1.trans (Post.trans ⟨hs2, ?_⟩ hpost)⟩
        · rw [hsc]; unfold clamp; omega
        · show List.filter _ s2.out = List.filter _ s1.out
          rw [hf.2]
      · rename_i hle
        simp only [pure_bind, pollAfterMove_quiet hq hpost1.1, Bool.false_eq_true, if_false] at h
        have hmax : max α v = α := by omega
        rw [hmax] at hw
        obtain ⟨hsc, hpost⟩ := ih α curLen subLen' s1.consult.consult out w hα hαβ hpost1.1 h hw
        exact ⟨hsc, hpost1.trans (Post.trans ⟨hpost1.1, rfl⟩ hpost)⟩

theorem qLoop_value (env : Env) (hq : Quiet env) (G : Position → Prop) (hcl : Closed G)
    (child : NodeFn) (cval : Position → M Int) (p : Position) (hp : G p) (idx depth : Nat) (β : Int)
    (hβ : β ≤ Gen.InfinityScore) (hch : ChildOk G child cval (depth + 1)) (ms : List RMove) :
    (∀ mv ∈ ms, Generated p mv.mov) →
    ∀ (α : Int) (curLen subLen : Nat) (s : SS) (out : LoopOut) (w : Int),
      Gen.MinusInfinityScore ≤ α → α < β → s.interrupted = false →
      qLoop env child p idx depth β ms α curLen subLen s = .ok out →
      foldMax (childVal cval p) (ms.map (·.mov)) α = .ok w →
      out.score = clamp w α β ∧ Post s out.st := by
  induction ms with
  | nil =>
    intro _ α curLen subLen s out w hα hαβ hs h hw
    simp only [qLoop, pure_ok] at h
    simp only [List.map_nil, foldMax_nil_ok] at hw
    subst h; subst hw
    refine ⟨?_, Post.refl hs⟩
    unfold clamp; simp only; omega
  | cons mv rest ih =>
    intro hgen α curLen subLen s out w hα hαβ hs h hw
    have ih := ih (fun m hm => hgen m (by simp [hm]))
    simp only [List.map_cons, foldMax_cons_ok, childVal_ok] at hw
    obtain ⟨v, ⟨q, b, x, hmk, hb, hx, hv⟩, hw⟩ := hw
    subst hb
    unfold qLoop at h
    split at h
    · simp only [throw_ok] at h
    rw [bind_ok] at h
    obtain ⟨r, hr, h⟩ := h
    rw [hmk] at hr
    cases hr
    simp only [Bool.not_true, Bool.false_eq_true, if_false] at h
    rw [bind_ok] at h
    obtain ⟨⟨cv, subLen', s1⟩, hc, h⟩ := h
    simp only at h
    have hq' : G q := hcl p mv.mov q true hp (hgen mv (by simp)) hmk
    obtain ⟨hcl1, hpost1⟩ := hch q (idx + 1) (-β) (-α) subLen s cv subLen' s1 x hq' (by omega)
      (by rw [minusInf_eq]; omega) (by rw [minusInf_eq] at hα; omega) hs hc hx
    have hmono := foldMax_ge _ _ _ _ hw
    unfold clamp at hcl1
    simp only [hpost1.1, Bool.false_eq_true, if_false, (hq _).1] at h
    have hpc : Post s1 s1.consult := ⟨hpost1.1, rfl⟩
    split at h
    · -- β cutoff
      rename_i hcut
      rw [pure_ok] at h; subst h
      refine ⟨?_, hpost1.trans hpc⟩
      unfold clamp; simp only; omega
    · rename_i hcut
      split at h
      · -- raises α
        rename_i hgt
        rw [bind_ok] at h
        obtain ⟨⟨s2, curLen2⟩, hub, h⟩ := h
        have hf := updateBestLine_frame hub
        have hs2 : s2.interrupted = false := by rw [hf.1]; exact hpost1.1
        simp only at h
        have hmax : max α v = -cv := by omega
        rw [hmax] at hw
        obtain ⟨hsc, hpost⟩ := ih (-cv) curLen2 subLen' s2 out w (by omega) (by omega) hs2 h hw
        refine ⟨?_, hpost1.trans (hpc.trans (Post.trans ⟨hs2, ?_⟩ hpost))⟩
        · rw [hsc]; unfold clamp; omega
        · show List.filter _ s2.out = List.filter _ s1.consult.out
          rw [hf.2]
      · rename_i hle
        have hmax : max α v = α := by omega
        rw [hmax] at hw
        obtain ⟨hsc, hpost⟩ := ih α curLen subLen' s1.consult out w hα hαβ hpost1.1 h hw
        exact ⟨hsc, hpost1.trans (hpc.trans hpost)⟩

/-- the evaluation step of `quiescence` -/
def qEval (env : Env) (p : Position) (depth : Nat) (alpha beta : Int) : M Int :=
  if env.lazy then lazyEvaluate env.blend p depth alpha beta else evaluate env.blend p depth

/-- the `currmove` logging step of `quiescence` -/
def qLog (env : Env) (s : SS) : M SS :=
  if env.logInterval == 0 then throw .divZero
  else if Int.tmod (s.nodes : Int) env.logInterval == 0 then
    match s.rootMoves[s.firstMoveIdx]? with
    | some rm => pure { s with out := .currmove rm.mov (s.firstMoveIdx + 1) s.nodes :: s.out }
    | none => throw (.index "movStack[0]" s.firstMoveIdx)
  else pure s

theorem quiescence_succ (env : Env) (fuel : Nat) (p : Position) (idx depth : Nat) (alpha beta : Int)
    (curLen : Nat) (s : SS) :
    quiescence env (fuel + 1) p idx depth alpha beta curLen s = (do
      let subLen ← rowLen s (depth + 1)
      let score ← qEval env p depth alpha beta
      let s ← qLog env { s with nodes := s.nodes + 1 }
      if score ≥ beta then pure (beta, curLen, s) else
      let ms ← generateTacticalMoves p
      let r ← qLoop env (quiescence env fuel) p idx depth beta (env.sortFn ms)
                (if score > alpha then score else alpha) (if score > alpha then 0 else curLen) subLen s
      pure (r.score, r.curLen, r.st)) := by
  rw [quiescence]
  unfold qEval qLog
  dsimp only
  cases rowLen s (depth + 1) with
  | error e => rfl
  | ok subLen =>
    generalize lazyEvaluate env.blend p (↑depth) alpha beta = le
    generalize evaluate env.blend p ↑depth = fe
    have hfst : ∀ v : Int, (if v > alpha then (v, 0) else (alpha, curLen)).fst = if v > alpha then v else alpha := by
      intro v; split <;> rfl
    have hsnd : ∀ v : Int, (if v > alpha then (v, 0) else (alpha, curLen)).snd = if v > alpha then 0 else curLen := by
      intro v; split <;> rfl
    simp only [hfst, hsnd]
    cases env.lazy <;> cases le <;> cases fe <;>
      simp only [bind, Except.bind, Bool.false_eq_true, if_true, if_false] <;>
      (split
       · rfl
       · split
         · cases s.rootMoves[s.firstMoveIdx]? <;> rfl
         · rfl)

theorem quiescence_ok (env : Env) (hq : Quiet env) (hps : PermSort env) (G : Position → Prop)
    (hcl : Closed G) (hlz : LazyOn env G) (fuel : Nat) :
    ∀ d, ChildOk G (quiescence env fuel) (fun q => QV env.blend fuel q d) d := by
  induction fuel with
  | zero =>
    intro d q idx a b curLen s v len s' w _ _ _ _ _ h _
    simp only [quiescence, throw_ok] at h
  | succ fuel ih =>
    intro d p idx α β curLen s v len s' w hp hαβ hα hβ hs h hw
    unfold QV at hw
    simp only [bind_ok] at hw
    obtain ⟨e, he, ms, hms, hw⟩ := hw
    rw [quiescence_succ] at h
    simp only [bind_ok] at h
    obtain ⟨subLen, hsub, score, hscore, s2, hlog, h⟩ := h
    -- the evaluation
    have hclamp : clamp score α β = clamp e α β := by
      unfold qEval at hscore
      split at hscore
      · rename_i hl
        exact lazy_clamp env.blend p d α β e score hα hβ (by omega) he hscore (hlz hl p hp d)
      · rw [he] at hscore; cases hscore; rfl
    -- the logging step
    have hpost2 : Post s s2 := by
      unfold qLog at hlog
      split at hlog
      · simp only [throw_ok] at hlog
      · split at hlog
        · split at hlog
          · rw [pure_ok] at hlog; subst hlog; exact ⟨hs, rfl⟩
          · simp only [throw_ok] at hlog
        · rw [pure_ok] at hlog; subst hlog; exact ⟨hs, rfl⟩
    have hmono := foldMax_ge _ _ _ _ hw
    unfold clamp at hclamp
    split at h
    · -- stand-pat cut
      rename_i hcut
      simp only [pure_ok, Prod.mk.injEq] at h
      obtain ⟨h1, -, h3⟩ := h
      subst h1; subst h3
      refine ⟨?_, hpost2⟩
      unfold clamp; omega
    · rename_i hcut
      simp only [bind_ok, pure_ok, Prod.mk.injEq] at h
      obtain ⟨ms', hms', r, hr, h1, -, h3⟩ := h
      rw [hms] at hms'; cases hms'
      subst h1; subst h3
      have hperm : ((env.sortFn ms).map (·.mov)).Perm (ms.map (·.mov)) := (hps ms).map _
      have hw' := foldMax_max _ _ _ _ α (foldMax_perm _ hperm.symm _ _ hw)
      have hα' : (if score > α then score else α) = max α e := by split <;> omega
      rw [← hα'] at hw'
      have hgen : ∀ mv ∈ env.sortFn ms, Generated p mv.mov := by
        intro mv hmv
        exact Or.inr ⟨ms, hms, List.mem_map_of_mem ((hps ms).mem_iff.mp hmv)⟩
      obtain ⟨hsc, hpost⟩ := qLoop_value env hq G hcl (quiescence env fuel) _ p hp idx d β hβ (ih (d + 1))
        (env.sortFn ms) hgen _ _ subLen s2 r _ (by split <;> omega) (by split <;> omega) hpost2.1 hr hw'
      refine ⟨?_, hpost2.trans hpost⟩
      rw [hsc, hα']; unfold clamp; omega

theorem applyPvBonus_map (cand : List Move) (matched depth : Nat) (ms : List RMove) :
    (applyPvBonus cand matched depth ms).1.map (·.mov) = ms.map (·.mov) := by
  induction ms with
  | nil => rfl
  | cons m ms ih =>
    unfold applyPvBonus
    split
    · rfl
    · simp only [List.map_cons, ih]

theorem alphaBeta_ok (env : Env) (hq : Quiet env) (hps : PermSort env) (hki : KillerIndep)
    (G : Position → Prop) (hcl : Closed G) (hlz : LazyOn env G) (qfuel rem : Nat) :
    ∀ d, ChildOk G (alphaBeta env qfuel rem) (fun q => V env.blend qfuel rem q d) d := by
  induction rem with
  | zero =>
    intro d p idx α β curLen s v len s' w hp hαβ hα hβ hs h hw
    rw [alphaBeta] at h
    simp only [bind_ok] at h
    obtain ⟨_, _, h⟩ := h
    unfold V at hw
    exact quiescence_ok env hq hps G hcl hlz qfuel d p idx α β curLen s v len s' w hp hαβ hα hβ hs h hw
  | succ rem ih =>
    intro d p idx α β curLen s v len s' w hp hαβ hα hβ hs h hw
    unfold V at hw
    simp only [bind_ok] at hw
    obtain ⟨ms0, hms0, hw⟩ := hw
    rw [alphaBeta] at h
    simp only [bind_ok] at h
    obtain ⟨subLen, hsub, ms, hms, h⟩ := h
    have hmov := hki _ _ p ms ms0 hms hms0
    rw [← hmov] at hw
    split at h
    · -- no legal move
      rename_i hemp
      have : ms = [] := by simpa using hemp
      subst this
      simp only [List.map_nil, bind_ok, pure_ok, Prod.mk.injEq] at hw h
      obtain ⟨v', hv', h1, -, h3⟩ := h
      rw [hw] at hv'; cases hv'
      subst h1; subst h3
      exact ⟨rfl, hs, rfl⟩
    · rename_i hne
      simp only [bind_ok, pure_ok, Prod.mk.injEq] at h
      obtain ⟨r, hr, h1, -, h3⟩ := h
      subst h1; subst h3
      -- the spec value as a fold from α over the list the loop walks
      have hfold : foldMax (childVal (fun q => V env.blend qfuel rem q (d + 1)) p)
          (ms.map (·.mov)) α = .ok (max α w) := by
        cases hm : ms.map (·.mov) with
        | nil => simp at hm; subst hm; simp at hne
        | cons m rest =>
          rw [hm] at hw
          simp only [bind_ok] at hw
          obtain ⟨v0, hv0, hw⟩ := hw
          rw [foldMax_cons_ok]
          exact ⟨v0, hv0, foldMax_max _ _ _ _ α hw⟩
      have hperm : ((env.sortFn (applyPvBonus s.cand s.matched d ms).fst).map (·.mov)).Perm (ms.map (·.mov)) := by
        rw [← applyPvBonus_map s.cand s.matched d ms]
        exact (hps _).map _
      have hw' := foldMax_perm _ hperm.symm _ _ hfold
      have hgen : ∀ mv ∈ env.sortFn (applyPvBonus s.cand s.matched d ms).fst, Generated p mv.mov := by
        intro mv hmv
        refine Or.inl ⟨s.killers, ms, hms, ?_⟩
        rw [← applyPvBonus_map s.cand s.matched d ms]
        exact List.mem_map_of_mem ((hps _).mem_iff.mp hmv)
      obtain ⟨hsc, hpost⟩ := abLoop_value env hq G hcl (alphaBeta env qfuel rem) _ p hp idx d β hβ (ih (d + 1))
        _ hgen α curLen subLen _ r _ hα hαβ (by exact hs) hr hw'
      refine ⟨?_, hpost.1, hpost.2⟩
      rw [hsc]; unfold clamp; omega

/-! ### (c) the root -/

/-- the window of values a node at depth `d` can have: between "mated here" and "mating next ply" -/
def InRange (d : Nat) (x : Int) : Prop := Gen.LostScore + d ≤ x ∧ x ≤ -(Gen.LostScore + d)

/-- evaluation bound (C05) as an explicit hypothesis: static and terminal scores at depth `1 ≤ d ≤ D`
    on `G` lie in the mate window of that depth -/
def EvalRange (blend : Blend) (G : Position → Prop) (D : Nat) : Prop :=
  ∀ p, G p → ∀ d : Nat, 1 ≤ d → d ≤ D →
    (∀ x, evaluate blend p d = .ok x → InRange d x) ∧ (∀ x, terminalNodeScore p d = .ok x → InRange d x)

theorem foldMax_range (cv : Move → M Int) (lo hi : Int) (l : List Move)
    (hB : ∀ m ∈ l, ∀ v, cv m = .ok v → lo ≤ v ∧ v ≤ hi) (acc w : Int) (hacc : lo ≤ acc ∧ acc ≤ hi)
    (h : foldMax cv l acc = .ok w) : lo ≤ w ∧ w ≤ hi := by
  have h1 := foldMax_ge cv l acc w h
  have h2 := foldMax_le cv hi l (fun m hm v hv => (hB m hm v hv).2) acc w hacc.2 h
  omega

theorem QV_range (blend : Blend) (G : Position → Prop) (hcl : Closed G) (D : Nat)
    (her : EvalRange blend G D) (fuel : Nat) :
    ∀ (d : Nat) (p : Position) (x : Int), G p → 1 ≤ d → d + fuel ≤ D → QV blend fuel p d = .ok x → InRange d x := by
  induction fuel with
  | zero => intro d p x _ _ _ h; simp only [QV, throw_ok] at h
  | succ fuel ih =>
    intro d p x hp hd hD h
    unfold QV at h
    simp only [bind_ok] at h
    obtain ⟨e, he, ms, hms, h⟩ := h
    have hr := (her p hp d hd (by omega)).1 e he
    unfold InRange at hr ⊢
    refine foldMax_range _ _ _ _ ?_ e x hr h
    intro m hm v hv
    rw [childVal_ok] at hv
    obtain ⟨q, b, y, hmk, hb, hy, hvy⟩ := hv
    have hq : G q := hcl p m q b hp (Or.inr ⟨ms, hms, hm⟩) hmk
    have := ih (d + 1) q y hq (by omega) (by omega) hy
    unfold InRange at this
    omega

theorem V_range (blend : Blend) (qfuel : Nat) (G : Position → Prop) (hcl : Closed G) (D : Nat)
    (her : EvalRange blend G D) (rem : Nat) :
    ∀ (d : Nat) (p : Position) (x : Int), G p → 1 ≤ d → d + rem + qfuel ≤ D →
      V blend qfuel rem p d = .ok x → InRange d x := by
  induction rem with
  | zero =>
    intro d p x hp hd hD h
    unfold V at h
    exact QV_range blend G hcl D her qfuel d p x hp hd (by omega) h
  | succ rem ih =>
    intro d p x hp hd hD h
    unfold V at h
    simp only [bind_ok] at h
    obtain ⟨ms, hms, h⟩ := h
    have hchild : ∀ m ∈ ms.map (·.mov), ∀ v, childVal (fun q => V blend qfuel rem q (d + 1)) p m = .ok v →
        Gen.LostScore + d ≤ v ∧ v ≤ -(Gen.LostScore + d) := by
      intro m hm v hv
      rw [childVal_ok] at hv
      obtain ⟨q, b, y, hmk, hb, hy, hvy⟩ := hv
      have hq : G q := hcl p m q b hp (Or.inl ⟨_, ms, hms, hm⟩) hmk
      have := ih (d + 1) q y hq (by omega) (by omega) hy
      unfold InRange at this
      omega
    cases hm : ms.map (·.mov) with
    | nil =>
      rw [hm] at h
      exact (her p hp d hd (by omega)).2 x h
    | cons m rest =>
      rw [hm] at h hchild
      simp only [bind_ok] at h
      obtain ⟨v0, hv0, h⟩ := h
      unfold InRange
      exact foldMax_range _ _ _ _ (fun m' hm' => hchild m' (by simp [hm'])) v0 x (hchild m (by simp) v0 hv0) h

theorem lost_consts : Gen.MinusInfinityScore < Gen.LostScore + 1 ∧ -(Gen.LostScore + 1) < (Gen.InfinityScore : Int) := by
  decide

theorem nextMoveWins_eq {x : Int} : nextMoveWins x = true ↔ x = -(Gen.LostScore + 1) := by
  unfold nextMoveWins
  simp only [beq_iff_eq]
  omega

/-- the `if score > alpha { … maybePrintNewPvInfo … }` step of the root loop -/
def rootImprove (env : Env) (target : Nat) (mv : Move) (score alpha : Int) (curLen subLen : Nat) (s : SS) :
    M (Int × Nat × SS) :=
  if score > alpha then do
    let (s, curLen) ← updateBestLine s 0 subLen mv
    let s := s.consult
    let s ← if env.gateOpen (s.tick - 1) then
              if curLen == 0 then throw (.index "bestLine[0]" 0)
              else pure { s with out := .infoPv score target s.nodes (rowPrefix s 0 curLen) :: s.out }
            else pure s
    pure (score, curLen, s)
  else pure (alpha, curLen, s)

/-- the stop poll and move counter at the end of a root-loop round -/
def rootStop (env : Env) (s : SS) : SS :=
  let s := s.consult
  let s := if env.stopAt (s.tick - 1) then { s with interrupted := true } else s
  { s with firstMoveIdx := s.firstMoveIdx + 1 }

theorem rootLoop_cons (env : Env) (child : NodeFn) (p : Position) (target : Nat) (mv : RMove)
    (rest : List RMove) (alpha : Int) (curLen subLen : Nat) (s : SS) :
    rootLoop env child p target (mv :: rest) alpha curLen subLen s = (
      if s.interrupted then pure ⟨alpha, curLen, s⟩ else
      if 1 ≥ env.stackCap then throw (.index "posStack" 1) else do
      let r ← makeMove p mv.mov
      if !r.2 then throw (.explicit "Applying move resulted in illegal position") else do
      let x ← child r.1 1 1 (-(Gen.InfinityScore : Int)) (-alpha) subLen s
      let y ← rootImprove env target mv.mov (-x.1) alpha curLen x.2.1 x.2.2
      if y.2.2.interrupted then pure ⟨y.1, y.2.1, y.2.2⟩ else
      if env.timeUp (y.2.2.consult.tick - 1) then pure ⟨y.1, y.2.1, y.2.2.consult⟩ else
      if nextMoveWins (-x.1) then pure ⟨y.1, y.2.1, y.2.2.consult⟩ else
      rootLoop env child p target rest y.1 y.2.1 x.2.1 (rootStop env y.2.2.consult)) := by
  rw [rootLoop]
  unfold rootImprove rootStop
  split
  · rfl
  split
  · rfl
  cases makeMove p mv.mov with
  | error e => rfl
  | ok r =>
    simp only [bind, Except.bind]
    split
    · rfl
    cases child r.fst 1 1 (-(Gen.InfinityScore : Int)) (-alpha) subLen s with
    | error e => rfl
    | ok x =>
      simp only
      split
      · cases updateBestLine x.2.snd 0 x.2.fst mv.mov with
        | error e => rfl
        | ok y =>
          simp only
          split
          · split
            · rfl
            · rfl
          · rfl
      · rfl

theorem rootImprove_ok {env : Env} {target : Nat} {mv : Move} {score alpha : Int} {curLen subLen : Nat}
    {s : SS} {y : Int × Nat × SS} (h : rootImprove env target mv score alpha curLen subLen s = .ok y)
    (hs : s.interrupted = false) :
    y.1 = (if score > alpha then score else alpha) ∧ Post s y.2.2 := by
  unfold rootImprove at h
  split at h
  · rename_i hgt
    rw [bind_ok] at h
    obtain ⟨⟨s1, curLen1⟩, hub, h⟩ := h
    have hf := updateBestLine_frame hub
    have hd1 : depthEvs s1 = depthEvs s := by
      show List.filter _ s1.out = List.filter _ s.out
      rw [hf.2]
    have hi1 : s1.interrupted = false := by rw [hf.1]; exact hs
    simp only at h
    split at h
    · split at h
      · simp only [bind_ok, throw_ok, false_and, exists_false] at h
      · simp only [pure_bind, pure_ok] at h; subst h
        simp only [hgt, if_true, true_and]
        exact ⟨hi1, hd1⟩
    · simp only [pure_bind, pure_ok] at h; subst h
      simp only [hgt, if_true, true_and]
      exact ⟨hi1, hd1⟩
  · rename_i hgt
    rw [pure_ok] at h; subst h
    simp only [hgt, if_false, true_and]
    exact Post.refl hs

theorem rootLoop_value (env : Env) (hq : Quiet env) (G : Position → Prop) (hcl : Closed G)
    (child : NodeFn) (cval : Position → M Int) (p : Position) (hp : G p) (target : Nat)
    (hch : ChildOk G child cval 1) (hrange : ∀ q x, G q → cval q = .ok x → InRange 1 x) (ms : List RMove) :
    (∀ mv ∈ ms, Generated p mv.mov) →
    ∀ (α : Int) (curLen subLen : Nat) (s : SS) (out : LoopOut) (w : Int),
      Gen.MinusInfinityScore ≤ α → α ≤ -(Gen.LostScore + 1) → s.interrupted = false →
      rootLoop env child p target ms α curLen subLen s = .ok out →
      foldMax (childVal cval p) (ms.map (·.mov)) α = .ok w →
      out.score = w ∧ Post s out.st := by
  induction ms with
  | nil =>
    intro _ α curLen subLen s out w hα hαh hs h hw
    simp only [rootLoop, pure_ok] at h
    simp only [List.map_nil, foldMax_nil_ok] at hw
    subst h; subst hw
    exact ⟨rfl, Post.refl hs⟩
  | cons mv rest ih =>
    intro hgen α curLen subLen s out w hα hαh hs h hw
    have ih := ih (fun m hm => hgen m (by simp [hm]))
    have hvals : ∀ m ∈ rest.map (·.mov), ∀ v, childVal cval p m = .ok v → v ≤ -(Gen.LostScore + 1) := by
      intro m hm v hv
      rw [childVal_ok] at hv
      obtain ⟨q, b, y, hmk, hb, hy, hvy⟩ := hv
      obtain ⟨mv', hmv', rfl⟩ := List.mem_map.mp hm
      have hq : G q := hcl p _ q b hp (hgen mv' (by simp [hmv'])) hmk
      have := hrange q y hq hy
      unfold InRange at this
      omega
    simp only [List.map_cons, foldMax_cons_ok, childVal_ok] at hw
    obtain ⟨v, ⟨q, b, x, hmk, hb, hx, hv⟩, hw⟩ := hw
    subst hb
    rw [rootLoop_cons] at h
    simp only [hs, Bool.false_eq_true, if_false] at h
    split at h
    · simp only [throw_ok] at h
    rw [bind_ok] at h
    obtain ⟨r, hr, h⟩ := h
    rw [hmk] at hr
    cases hr
    simp only [Bool.not_true, Bool.false_eq_true, if_false] at h
    simp only [bind_ok] at h
    obtain ⟨⟨cv, subLen', s1⟩, hc, ⟨a2, curLen2, s2⟩, himp, h⟩ := h
    simp only at h himp
    have hq' : G q := hcl p mv.mov q true hp (hgen mv (by simp)) hmk
    have hlc := lost_consts
    obtain ⟨hcl1, hpost1⟩ := hch q 1 (-(Gen.InfinityScore : Int)) (-α) subLen s cv subLen' s1 x hq' (by omega)
      (by rw [minusInf_eq]; omega) (by rw [minusInf_eq] at hα; omega) hs hc hx
    have hxr := hrange q x hq' hx
    unfold InRange at hxr
    have hmono := foldMax_ge _ _ _ _ hw
    have hup := foldMax_le _ _ _ hvals (max α v) w (by omega) hw
    unfold clamp at hcl1
    rw [minusInf_eq] at hlc
    obtain ⟨ha2, hpost2⟩ := rootImprove_ok himp hpost1.1
    simp only at ha2 hpost2
    have ha2' : a2 = max α v := by rw [ha2]; split <;> omega
    simp only [hpost2.1, Bool.false_eq_true, if_false, (hq _).1] at h
    have hpc : Post s2 s2.consult := ⟨hpost2.1, rfl⟩
    split at h
    · -- nextMoveWins: the rest cannot improve on a mate in one
      rename_i hwin
      rw [nextMoveWins_eq] at hwin
      rw [pure_ok] at h; subst h
      refine ⟨?_, hpost1.trans (hpost2.trans hpc)⟩
      show a2 = w
      omega
    · have hps : Post s2.consult (rootStop env s2.consult) := by
        unfold rootStop
        simp only [(hq _).2, Bool.false_eq_true, if_false]
        exact ⟨hpost2.1, rfl⟩
      rw [← ha2'] at hw
      obtain ⟨hsc, hpost⟩ := ih a2 curLen2 subLen' _ out w (by omega) (by omega) hps.1 h hw
      exact ⟨hsc, hpost1.trans (hpost2.trans (hpc.trans (hps.trans hpost)))⟩

theorem minusInf_le_win : Gen.MinusInfinityScore ≤ -(Gen.LostScore + 1) := by decide

/-- all hypotheses of the value theorems that do not concern a particular run -/
structure Hyps (env : Env) (G : Position → Prop) : Prop where
  quiet : Quiet env
  perm : PermSort env
  killer : KillerIndep
  closed : Closed G
  lazyOk : LazyOn env G

theorem startAlphaBeta_value (env : Env) (G : Position → Prop) (H : Hyps env G) (D : Nat)
    (her : EvalRange env.blend G D) (qfuel : Nat) (p : Position) (hp : G p) (target : Nat)
    (hD : 1 + (target - 1) + qfuel ≤ D) (curLen : Nat) (s : SS) (score : Int) (one : Bool) (len : Nat)
    (s' : SS) (w : Int) (hs : s.interrupted = false)
    (h : startAlphaBeta env qfuel p target curLen s = .ok (score, one, len, s'))
    (hw : rootV env.blend qfuel target p = .ok w) : score = w ∧ Post s s' := by
  obtain ⟨hq, hps, hki, hcl, hlz⟩ := H
  unfold rootV V at hw
  simp only [bind_ok] at hw
  obtain ⟨ms0, hms0, hw⟩ := hw
  unfold startAlphaBeta at h
  simp only [bind_ok] at h
  obtain ⟨subLen, hsub, ms, hms, h⟩ := h
  have hmov := hki _ _ p ms ms0 hms hms0
  rw [← hmov] at hw
  split at h
  · rename_i hemp
    have : ms = [] := by simpa using hemp
    subst this
    simp only [List.map_nil, bind_ok, pure_ok, Prod.mk.injEq] at hw h
    obtain ⟨v', hv', h1, -, -, h4⟩ := h
    have : v' = w := by
      have := hv'.symm.trans hw
      exact Except.ok.inj this
    subst h1; subst h4
    exact ⟨this, hs, rfl⟩
  · rename_i hne
    simp only [bind_ok, pure_ok, Prod.mk.injEq] at h
    obtain ⟨r, hr, h1, -, -, h4⟩ := h
    subst h1; subst h4
    have hrange : ∀ q x, G q → V env.blend qfuel (target - 1) q 1 = .ok x → InRange 1 x :=
      fun q x hq hx => V_range env.blend qfuel G hcl D her (target - 1) 1 q x hq (by omega) hD hx
    have hlc := lost_consts
    have hfold : foldMax (childVal (fun q => V env.blend qfuel (target - 1) q (0 + 1)) p)
        (ms.map (·.mov)) Gen.MinusInfinityScore = .ok w := by
      cases hm : ms.map (·.mov) with
      | nil => simp at hm; subst hm; simp at hne
      | cons m rest =>
        rw [hm] at hw
        simp only [bind_ok] at hw
        obtain ⟨v0, hv0, hw⟩ := hw
        rw [foldMax_cons_ok]
        refine ⟨v0, hv0, ?_⟩
        have hv0' := hv0
        rw [childVal_ok] at hv0'
        obtain ⟨q, b, y, hmk, hb, hy, hvy⟩ := hv0'
        have hq' : G q := hcl p m q b hp (Or.inl ⟨_, ms, hms, by rw [hm]; simp⟩) hmk
        have := hrange q y hq' hy
        unfold InRange at this
        have hmax : max Gen.MinusInfinityScore v0 = v0 := by omega
        rw [hmax]; exact hw
    have hperm : ((env.sortFn (applyPvBonus s.cand s.matched 0 ms).fst).map (·.mov)).Perm (ms.map (·.mov)) := by
      rw [← applyPvBonus_map s.cand s.matched 0 ms]
      exact (hps _).map _
    have hw' := foldMax_perm _ hperm.symm _ _ hfold
    have hgen : ∀ mv ∈ env.sortFn (applyPvBonus s.cand s.matched 0 ms).fst, Generated p mv.mov := by
      intro mv hmv
      refine Or.inl ⟨s.killers, ms, hms, ?_⟩
      rw [← applyPvBonus_map s.cand s.matched 0 ms]
      exact List.mem_map_of_mem ((hps _).mem_iff.mp hmv)
    obtain ⟨hsc, hpost⟩ := rootLoop_value env hq G hcl (alphaBeta env qfuel (target - 1)) _ p hp target
      (alphaBeta_ok env hq hps hki G hcl hlz qfuel (target - 1) 1) hrange _ hgen _ curLen subLen _ r w
      (Int.le_refl _) minusInf_le_win (by exact hs) hr hw'
    exact ⟨hsc, hpost.1, hpost.2⟩

/-! ### frames: without any assumption on the spec value, a completed node under a quiet clock leaves the
    search uninterrupted and prints no `info depth` line -/

def ChildFrame (child : NodeFn) : Prop :=
  ∀ q idx d a b curLen s v len s', s.interrupted = false →
    child q idx d a b curLen s = .ok (v, len, s') → Post s s'

theorem abLoop_frame (env : Env) (hq : Quiet env) (child : NodeFn) (hch : ChildFrame child) (p : Position)
    (idx depth : Nat) (β : Int) (ms : List RMove) :
    ∀ (α : Int) (curLen subLen : Nat) (s : SS) (out : LoopOut), s.interrupted = false →
      abLoop env child p idx depth β ms α curLen subLen s = .ok out → Post s out.st := by
  induction ms with
  | nil =>
    intro α curLen subLen s out hs h
    simp only [abLoop, pure_ok] at h
    subst h; exact Post.refl hs
  | cons mv rest ih =>
    intro α curLen subLen s out hs h
    unfold abLoop at h
    simp only [hs, Bool.false_eq_true, if_false] at h
    split at h
    · simp only [throw_ok] at h
    rw [bind_ok] at h
    obtain ⟨r, hr, h⟩ := h
    split at h
    · simp only [throw_ok] at h
    rw [bind_ok] at h
    obtain ⟨⟨cv, subLen', s1⟩, hc, h⟩ := h
    simp only at h
    have hpost1 := hch _ _ _ _ _ _ _ _ _ _ hs hc
    split at h
    · split at h
      · obtain ⟨kt, _, h⟩ := bind_ok.mp h
        rw [pure_ok] at h; subst h
        exact hpost1.trans ⟨hpost1.1, rfl⟩
      · rw [pure_ok] at h; subst h
        exact hpost1
    · split at h
      · rw [bind_ok] at h
        obtain ⟨⟨s2, curLen2⟩, hub, h⟩ := h
        have hf := updateBestLine_frame hub
        have hs2 : s2.interrupted = false := by rw [hf.1]; exact hpost1.1
        simp only [pure_bind, pollAfterMove_quiet hq hs2, Bool.false_eq_true, if_false] at h
        have hpost := ih _ _ _ _ _ (by exact hs2) h
        refine hpost1.trans (Post.trans ⟨hs2, ?_⟩ hpost)
        show List.filter _ s2.out = List.filter _ s1.out
        rw [hf.2]
      · simp only [pure_bind, pollAfterMove_quiet hq hpost1.1, Bool.false_eq_true, if_false] at h
        have hpost := ih _ _ _ _ _ (by exact hpost1.1) h
        exact hpost1.trans (Post.trans ⟨hpost1.1, rfl⟩ hpost)

theorem qLoop_frame (env : Env) (hq : Quiet env) (child : NodeFn) (hch : ChildFrame child) (p : Position)
    (idx depth : Nat) (β : Int) (ms : List RMove) :
    ∀ (α : Int) (curLen subLen : Nat) (s : SS) (out : LoopOut), s.interrupted = false →
      qLoop env child p idx depth β ms α curLen subLen s = .ok out → Post s out.st := by
  induction ms with
  | nil =>
    intro α curLen subLen s out hs h
    simp only [qLoop, pure_ok] at h
    subst h; exact Post.refl hs
  | cons mv rest ih =>
    intro α curLen subLen s out hs h
    unfold qLoop at h
    split at h
    · simp only [throw_ok] at h
    rw [bind_ok] at h
    obtain ⟨r, hr, h⟩ := h
    split at h
    · simp only [throw_ok] at h
    rw [bind_ok] at h
    obtain ⟨⟨cv, subLen', s1⟩, hc, h⟩ := h
    simp only at h
    have hpost1 := hch _ _ _ _ _ _ _ _ _ _ hs hc
    simp only [hpost1.1, Bool.false_eq_true, if_false, (hq _).1] at h
    have hpc : Post s1 s1.consult := ⟨hpost1.1, rfl⟩
    split at h
    · rw [pure_ok] at h; subst h
      exact hpost1.trans hpc
    · split at h
      · rw [bind_ok] at h
        obtain ⟨⟨s2, curLen2⟩, hub, h⟩ := h
        have hf := updateBestLine_frame hub
        have hs2 : s2.interrupted = false := by rw [hf.1]; exact hpost1.1
        simp only at h
        have hpost := ih _ _ _ _ _ hs2 h
        refine hpost1.trans (hpc.trans (Post.trans ⟨hs2, ?_⟩ hpost))
        show List.filter _ s2.out = List.filter _ s1.consult.out
        rw [hf.2]
      · have hpost := ih _ _ _ _ _ (by exact hpost1.1) h
        exact hpost1.trans (hpc.trans hpost)

theorem qLog_frame {env : Env} {s s2 : SS} (hs : s.interrupted = false) (hlog : qLog env s = .ok s2) :
    Post s s2 := by
  unfold qLog at hlog
  split at hlog
  · simp only [throw_ok] at hlog
  · split at hlog
    · split at hlog
      · rw [pure_ok] at hlog; subst hlog; exact ⟨hs, rfl⟩
      · simp only [throw_ok] at hlog
    · rw [pure_ok] at hlog; subst hlog; exact ⟨hs, rfl⟩

theorem quiescence_frame (env : Env) (hq : Quiet env) (fuel : Nat) : ChildFrame (quiescence env fuel) := by
  induction fuel with
  | zero =>
    intro q idx d a b curLen s v len s' _ h
    simp only [quiescence, throw_ok] at h
  | succ fuel ih =>
    intro p idx d α β curLen s v len s' hs h
    rw [quiescence_succ] at h
    simp only [bind_ok] at h
    obtain ⟨subLen, hsub, score, hscore, s2, hlog, h⟩ := h
    have hpost2 : Post s s2 := by
      have := qLog_frame (env := env) (s2 := s2) (s := { s with nodes := s.nodes + 1 }) hs hlog
      exact ⟨this.1, this.2⟩
    split at h
    · simp only [pure_ok, Prod.mk.injEq] at h
      obtain ⟨-, -, h3⟩ := h
      subst h3; exact hpost2
    · simp only [bind_ok, pure_ok, Prod.mk.injEq] at h
      obtain ⟨ms', hms', r, hr, -, -, h3⟩ := h
      subst h3
      exact hpost2.trans (qLoop_frame env hq _ ih p idx d β _ _ _ _ _ _ hpost2.1 hr)

theorem alphaBeta_frame (env : Env) (hq : Quiet env) (qfuel rem : Nat) :
    ChildFrame (alphaBeta env qfuel rem) := by
  induction rem with
  | zero =>
    intro p idx d α β curLen s v len s' hs h
    rw [alphaBeta] at h
    simp only [bind_ok] at h
    obtain ⟨_, _, h⟩ := h
    exact quiescence_frame env hq qfuel _ _ _ _ _ _ _ _ _ _ hs h
  | succ rem ih =>
    intro p idx d α β curLen s v len s' hs h
    rw [alphaBeta] at h
    simp only [bind_ok] at h
    obtain ⟨subLen, hsub, ms, hms, h⟩ := h
    split at h
    · simp only [bind_ok, pure_ok, Prod.mk.injEq] at h
      obtain ⟨v', hv', -, -, h3⟩ := h
      subst h3
      exact ⟨hs, rfl⟩
    · simp only [bind_ok, pure_ok, Prod.mk.injEq] at h
      obtain ⟨r, hr, -, -, h3⟩ := h
      subst h3
      have hpost := abLoop_frame env hq _ ih p idx d β _ _ _ _ _ _ (by exact hs) hr
      exact ⟨hpost.1, hpost.2⟩

theorem rootImprove_frame {env : Env} {target : Nat} {mv : Move} {score alpha : Int} {curLen subLen : Nat}
    {s : SS} {y : Int × Nat × SS} (h : rootImprove env target mv score alpha curLen subLen s = .ok y)
    (hs : s.interrupted = false) : Post s y.2.2 := (rootImprove_ok h hs).2

theorem rootLoop_frame (env : Env) (hq : Quiet env) (child : NodeFn) (hch : ChildFrame child) (p : Position)
    (target : Nat) (ms : List RMove) :
    ∀ (α : Int) (curLen subLen : Nat) (s : SS) (out : LoopOut), s.interrupted = false →
      rootLoop env child p target ms α curLen subLen s = .ok out → Post s out.st := by
  induction ms with
  | nil =>
    intro α curLen subLen s out hs h
    simp only [rootLoop, pure_ok] at h
    subst h; exact Post.refl hs
  | cons mv rest ih =>
    intro α curLen subLen s out hs h
    rw [rootLoop_cons] at h
    simp only [hs, Bool.false_eq_true, if_false] at h
    split at h
    · simp only [throw_ok] at h
    rw [bind_ok] at h
    obtain ⟨r, hr, h⟩ := h
    split at h
    · simp only [throw_ok] at h
    simp only [bind_ok] at h
    obtain ⟨⟨cv, subLen', s1⟩, hc, ⟨a2, curLen2, s2⟩, himp, h⟩ := h
    simp only at h himp
    have hpost1 := hch _ _ _ _ _ _ _ _ _ _ hs hc
    have hpost2 := rootImprove_frame himp hpost1.1
    simp only at hpost2
    simp only [hpost2.1, Bool.false_eq_true, if_false, (hq _).1] at h
    have hpc : Post s2 s2.consult := ⟨hpost2.1, rfl⟩
    split at h
    · rw [pure_ok] at h; subst h
      exact hpost1.trans (hpost2.trans hpc)
    · have hps : Post s2.consult (rootStop env s2.consult) := by
        unfold rootStop
        simp only [(hq _).2, Bool.false_eq_true, if_false]
        exact ⟨hpost2.1, rfl⟩
      have hpost := ih _ _ _ _ _ hps.1 h
      exact hpost1.trans (hpost2.trans (hpc.trans (hps.trans hpost)))

theorem startAlphaBeta_frame (env : Env) (hq : Quiet env) (qfuel : Nat) (p : Position) (target curLen : Nat)
    (s : SS) (score : Int) (one : Bool) (len : Nat) (s' : SS) (hs : s.interrupted = false)
    (h : startAlphaBeta env qfuel p target curLen s = .ok (score, one, len, s')) : Post s s' := by
  unfold startAlphaBeta at h
  simp only [bind_ok] at h
  obtain ⟨subLen, hsub, ms, hms, h⟩ := h
  split at h
  · simp only [bind_ok, pure_ok, Prod.mk.injEq] at h
    obtain ⟨v', hv', -, -, -, h4⟩ := h
    subst h4
    exact ⟨hs, rfl⟩
  · simp only [bind_ok, pure_ok, Prod.mk.injEq] at h
    obtain ⟨r, hr, -, -, -, h4⟩ := h
    subst h4
    have hpost := rootLoop_frame env hq _ (alphaBeta_frame env hq qfuel (target - 1)) p target _ _ _ _ _ _
      (by exact hs) hr
    exact ⟨hpost.1, hpost.2⟩

/-! ### (d) iterative deepening -/

/-- an `info depth d score sc` line reports the root value of iteration `d` -/
def GoodEv (blend : Blend) (qfuel : Nat) (p : Position) : Event → Prop
  | .infoDepth d sc _ _ => ∀ w, rootV blend qfuel d p = .ok w → sc = w
  | _ => True

def AllGood (blend : Blend) (qfuel : Nat) (p : Position) (s : SS) : Prop :=
  ∀ e ∈ depthEvs s, GoodEv blend qfuel p e

theorem AllGood.post {blend : Blend} {qfuel : Nat} {p : Position} {s s' : SS}
    (h : AllGood blend qfuel p s) (hp : Post s s') : AllGood blend qfuel p s' := by
  unfold AllGood; rw [hp.2]; exact h

theorem deepenLoop_ok (env : Env) (G : Position → Prop) (H : Hyps env G) (D : Nat)
    (her : EvalRange env.blend G D) (qfuel : Nat) (p : Position) (hp : G p) (maxDepth : Nat)
    (hD : maxDepth + qfuel ≤ D) (n : Nat) :
    ∀ (cur : Nat) (best : Int) (done len0 : Nat) (s : SS) (best' : Int) (done' : Nat) (s' : SS),
      1 ≤ cur → s.interrupted = false → AllGood env.blend qfuel p s →
      (∀ w, rootV env.blend qfuel done p = .ok w → best = w) →
      deepenLoop env qfuel p maxDepth n cur best done len0 s = .ok (best', done', s') →
      AllGood env.blend qfuel p s' ∧ (∀ w, rootV env.blend qfuel done' p = .ok w → best' = w) := by
  induction n with
  | zero =>
    intro cur best done len0 s best' done' s' _ _ hg hb h
    simp only [deepenLoop, pure_ok, Prod.mk.injEq] at h
    obtain ⟨h1, h2, h3⟩ := h
    subst h1; subst h2; subst h3
    exact ⟨hg, hb⟩
  | succ n ih =>
    intro cur best done len0 s best' done' s' hcur hs hg hb h
    rw [deepenLoop] at h
    split at h
    · simp only [pure_ok, Prod.mk.injEq] at h
      obtain ⟨h1, h2, h3⟩ := h
      subst h1; subst h2; subst h3
      exact ⟨hg, hb⟩
    rename_i hle
    rw [bind_ok] at h
    obtain ⟨⟨score, one, len1, s1⟩, hsa, h⟩ := h
    simp only [(H.quiet _).1, Bool.false_eq_true, if_false] at h
    have hpost1 : Post s s1 := startAlphaBeta_frame env H.quiet qfuel p cur len0 s score one len1 s1 hs hsa
    have hsc : ∀ w, rootV env.blend qfuel cur p = .ok w → score = w := fun w hw =>
      (startAlphaBeta_value env G H D her qfuel p hp cur (by omega) len0 s score one len1 s1 w hs hsa hw).1
    have hi : s1.consult.interrupted = false := hpost1.1
    simp only [hi, Bool.false_eq_true, if_false] at h
    rw [bind_ok] at h
    obtain ⟨s2, hpr, h⟩ := h
    have hs2 : s2.interrupted = false ∧ AllGood env.blend qfuel p s2 := by
      unfold printInfoAfterDepth at hpr
      split at hpr
      · simp only [throw_ok] at hpr
      · rw [pure_ok] at hpr; subst hpr
        refine ⟨hpost1.1, ?_⟩
        intro e he
        have he' : e = .infoDepth cur score s1.nodes (copyBestLine s1.consult len1).cand ∨ e ∈ depthEvs s1 :=
          List.mem_cons.mp he
        cases he' with
        | inl he' => subst he'; exact hsc
        | inr he' => exact (hg.post hpost1) e he'
    split at h
    · simp only [pure_ok, Prod.mk.injEq] at h
      obtain ⟨h1, h2, h3⟩ := h
      subst h1; subst h2; subst h3
      exact ⟨hs2.2, hsc⟩
    split at h
    · simp only [pure_ok, Prod.mk.injEq] at h
      obtain ⟨h1, h2, h3⟩ := h
      subst h1; subst h2; subst h3
      exact ⟨hs2.2, hsc⟩
    exact ih (cur + 1) score cur len1 s2 best' done' s' (by omega) hs2.1 hs2.2 hsc h

theorem printInfo_tail {blend : Blend} {qfuel : Nat} {p : Position} {s3 s4 s : SS} {best : Int}
    {done : Nat} {m : Move} (hpi : printInfo s3 best done = .ok s4)
    (hs : s = { s4 with out := .bestmove m :: s4.out }) (hg : AllGood blend qfuel p s3) :
    AllGood blend qfuel p s ∧ ∃ nodes pv rest, s.out = .bestmove m :: .infoPv best done nodes pv :: rest := by
  unfold printInfo at hpi
  split at hpi
  · simp only [throw_ok] at hpi
  · rw [pure_ok] at hpi; subst hpi; subst hs
    exact ⟨hg, _, _, _, rfl⟩

theorem iterDeep_ok (env : Env) (G : Position → Prop) (H : Hyps env G) (D : Nat)
    (her : EvalRange env.blend G D) (qfuel : Nat) (p : Position) (hp : G p) (maxDepth : Nat)
    (hD1 : 1 + qfuel ≤ D) (hD : maxDepth + qfuel ≤ D) (killers : Killers) (rows : Array (Array Move))
    (len0 : Nat) (s : SS) (h : iterDeep env qfuel p maxDepth killers rows len0 = .ok s) :
    AllGood env.blend qfuel p s ∧
    ((∃ m best done nodes pv rest, s.out = .bestmove m :: .infoPv best done nodes pv :: rest ∧
        ∀ w, rootV env.blend qfuel done p = .ok w → best = w) ∨
     (∃ sc rest, s.out = .bestmoveNone :: .infoTerminal sc :: rest ∧
        ∀ w, rootV env.blend qfuel 1 p = .ok w → sc = w)) := by
  unfold iterDeep at h
  rw [bind_ok] at h
  obtain ⟨⟨score, one, len1, s1⟩, hsa, h⟩ := h
  simp only at h
  have hs0 : ({ rows, killers, nodes := 0, interrupted := false, tick := 0, matched := 0, cand := [],
                rootMoves := [], firstMoveIdx := 0, out := [] } : SS).interrupted = false := rfl
  have hpost1 := startAlphaBeta_frame env H.quiet qfuel p 1 len0 _ score one len1 s1 hs0 hsa
  have hsc : ∀ w, rootV env.blend qfuel 1 p = .ok w → score = w := fun w hw =>
    (startAlphaBeta_value env G H D her qfuel p hp 1 (by omega) len0 _ score one len1 s1 w hs0 hsa hw).1
  have hg1 : AllGood env.blend qfuel p s1 := by
    intro e he
    rw [hpost1.2] at he
    simp [depthEvs] at he
  have hg2 : AllGood env.blend qfuel p (copyBestLine s1 len1).consult := hg1
  split at h
  · rw [pure_ok] at h; subst h
    exact ⟨hg1, Or.inr ⟨score, _, rfl, hsc⟩⟩
  split at h
  · simp only [bind_ok] at h
    obtain ⟨⟨best, done, s3⟩, hdl, s4, hpi, h⟩ := h
    simp only at hpi h
    obtain ⟨hg3, hb⟩ := deepenLoop_ok env G H D her qfuel p hp maxDepth hD maxDepth 2 score 1 len1 _ best done s3
      (by omega) (by exact hpost1.1) (by exact hg2) hsc hdl
    split at h
    · rw [pure_ok] at h
      obtain ⟨hg, nodes, pv, rest, ho⟩ := printInfo_tail hpi h.symm hg3
      exact ⟨hg, Or.inl ⟨_, best, done, nodes, pv, rest, ho, hb⟩⟩
    · simp only [throw_ok] at h
  · simp only [pure_bind, bind_ok] at h
    obtain ⟨s4, hpi, h⟩ := h
    split at h
    · rw [pure_ok] at h
      obtain ⟨hg, nodes, pv, rest, ho⟩ := printInfo_tail hpi h.symm hg2
      exact ⟨hg, Or.inl ⟨_, score, 1, nodes, pv, rest, ho, hsc⟩⟩
    · simp only [throw_ok] at h

end Magog.Lemmas.AlphaBeta
