import Magog.Spec.FenBytes
import Magog.Lemmas.FenPlace
import Magog.Abs

/-! C08 round trip, text level: the byte writer `Spec.toFenBytes` against the loader's text primitives
    (`splitOn`, `atoi`, `charToPiece`, `expandRank`). -/

set_option linter.unusedSimpArgs false

namespace Magog.FenWrite
open Magog Magog.Model Magog.FenSpec Magog.FenLemmas

/-! ### `splitOn` on fields that do not contain the separator -/

theorem splitOn_ne_nil (sep : Nat) (s : Bytes) : splitOn sep s ≠ [] := by
  induction s with
  | nil => simp [splitOn]
  | cons c cs ih =>
    rw [splitOn]
    split
    · simp
    · split <;> simp

theorem splitOn_noSep (sep : Nat) : ∀ (a : Bytes), sep ∉ a → splitOn sep a = [a] := by
  intro a
  induction a with
  | nil => intro _; rfl
  | cons c cs ih =>
    intro h
    simp only [List.mem_cons, not_or] at h
    have hc : (c == sep) = false := by simpa using fun e => h.1 e.symm
    rw [splitOn, hc, ih h.2]
    rfl

theorem splitOn_append (sep : Nat) (b : Bytes) : ∀ (a : Bytes), sep ∉ a →
    splitOn sep (a ++ sep :: b) = a :: splitOn sep b := by
  intro a
  induction a with
  | nil => intro _; simp [splitOn]
  | cons c cs ih =>
    intro h
    simp only [List.mem_cons, not_or] at h
    have hc : (c == sep) = false := by simpa using fun e => h.1 e.symm
    rw [List.cons_append, splitOn, hc, ih h.2]
    rfl

theorem splitOn_join (sep : Nat) : ∀ (rows : List Bytes), rows ≠ [] → (∀ r ∈ rows, sep ∉ r) →
    splitOn sep (Spec.joinBytes sep rows) = rows := by
  intro rows
  induction rows with
  | nil => intro h; exact absurd rfl h
  | cons x rest ih =>
    intro _ hs
    cases rest with
    | nil => exact splitOn_noSep sep x (hs x (by simp))
    | cons y rest =>
      rw [Spec.joinBytes, splitOn_append sep _ x (hs x (by simp)),
        ih (by simp) (fun r hr => hs r (List.mem_cons_of_mem _ hr))]

theorem mem_join {sep c : Nat} : ∀ (rows : List Bytes), c ∈ Spec.joinBytes sep rows →
    c = sep ∨ ∃ r ∈ rows, c ∈ r := by
  intro rows
  induction rows with
  | nil => intro h; simp [Spec.joinBytes] at h
  | cons x rest ih =>
    intro h
    cases rest with
    | nil => exact Or.inr ⟨x, by simp, by simpa [Spec.joinBytes] using h⟩
    | cons y rest =>
      rw [Spec.joinBytes] at h
      rcases List.mem_append.1 h with h | h
      · exact Or.inr ⟨x, by simp, h⟩
      · rcases List.mem_cons.1 h with h | h
        · exact Or.inl h
        · rcases ih h with h | ⟨r, hr, hc⟩
          · exact Or.inl h
          · exact Or.inr ⟨r, List.mem_cons_of_mem _ hr, hc⟩

/-! ### decimal digits against `atoi` -/

theorem digitsVal_append (ds es : Bytes) (a : Nat) : digitsVal (ds ++ es) a = digitsVal es (digitsVal ds a) := by
  induction ds generalizing a with
  | nil => rfl
  | cons d ds ih => simp only [List.cons_append, digitsVal, ih]

theorem natDigitsAux_spec : ∀ (fuel n : Nat) (acc : Bytes), n < fuel →
    ∃ ds : Bytes, Spec.natDigitsAux fuel n acc = ds ++ acc ∧ ds ≠ [] ∧ (∀ d ∈ ds, 48 ≤ d ∧ d ≤ 57) ∧
      digitsVal ds 0 = n := by
  intro fuel
  induction fuel with
  | zero => intro n _ h; omega
  | succ fuel ih =>
    intro n acc h
    rw [Spec.natDigitsAux]
    split
    · next hn =>
      refine ⟨[48 + n], rfl, by simp, ?_, ?_⟩
      · intro d hd; simp only [List.mem_singleton] at hd; omega
      · simp [digitsVal]
    · next hn =>
      obtain ⟨ds, h1, h2, h3, h4⟩ := ih (n / 10) ((48 + n % 10) :: acc) (by omega)
      refine ⟨ds ++ [48 + n % 10], by rw [h1]; simp, by simp, ?_, ?_⟩
      · intro d hd
        rcases List.mem_append.1 hd with hd | hd
        · exact h3 d hd
        · simp only [List.mem_singleton] at hd; omega
      · rw [digitsVal_append, h4]
        simp only [digitsVal]
        omega

theorem natDigits_spec (n : Nat) :
    Spec.natDigits n ≠ [] ∧ (∀ d ∈ Spec.natDigits n, 48 ≤ d ∧ d ≤ 57) ∧ digitsVal (Spec.natDigits n) 0 = n := by
  obtain ⟨ds, h1, h2, h3, h4⟩ := natDigitsAux_spec (n + 1) n [] (by omega)
  unfold Spec.natDigits
  rw [h1, List.append_nil]
  exact ⟨h2, h3, h4⟩

theorem atoi_digit (d : Nat) (ds : Bytes) (hd : 48 ≤ d) : atoi (d :: ds) =
    (if (d :: ds).isEmpty || !(d :: ds).all isDigit then none else
      let v : Int := digitsVal (d :: ds) 0
      if v < -9223372036854775808 || v > 9223372036854775807 then none else some v) := by
  unfold atoi
  split
  next neg ds' heq =>
    split at heq
    · next r h => simp only [List.cons.injEq] at h; omega
    · next r h => simp only [List.cons.injEq] at h; omega
    · simp only [Prod.mk.injEq] at heq
      obtain ⟨rfl, rfl⟩ := heq
      simp

theorem atoi_natDigits (n : Nat) (hn : n ≤ 9223372036854775807) : atoi (Spec.natDigits n) = some (n : Int) := by
  obtain ⟨h1, h2, h3⟩ := natDigits_spec n
  have hall : (Spec.natDigits n).all isDigit = true := by
    rw [List.all_eq_true]
    intro d hd
    have := h2 d hd
    simp [isDigit, this.1, this.2]
  cases h : Spec.natDigits n with
  | nil => exact absurd h h1
  | cons d ds =>
    rw [atoi_digit d ds (h2 d (by rw [h]; simp)).1, ← h]
    have hempty : (Spec.natDigits n).isEmpty = false := by rw [h]; rfl
    simp only [hempty, hall, Bool.not_true, Bool.or_self, Bool.false_eq_true, if_false, h3]
    rw [if_neg]
    simp only [Bool.or_eq_true, decide_eq_true_eq, not_or]
    omega

theorem atoi_natDigits_big (n : Nat) (hn : 9223372036854775807 < n) : atoi (Spec.natDigits n) = none := by
  obtain ⟨h1, h2, h3⟩ := natDigits_spec n
  have hall : (Spec.natDigits n).all isDigit = true := by
    rw [List.all_eq_true]
    intro d hd
    have := h2 d hd
    simp [isDigit, this.1, this.2]
  cases h : Spec.natDigits n with
  | nil => exact absurd h h1
  | cons d ds =>
    rw [atoi_digit d ds (h2 d (by rw [h]; simp)).1, ← h]
    have hempty : (Spec.natDigits n).isEmpty = false := by rw [h]; rfl
    simp only [hempty, hall, Bool.not_true, Bool.or_self, Bool.false_eq_true, if_false, h3]
    rw [if_pos]
    simp only [Bool.or_eq_true, decide_eq_true_eq]
    omega

/-! ### piece letters -/

/-- the engine's code of a man -/
def manCode : Spec.Man → Nat
  | ⟨.white, .pawn⟩ => Gen.WPawn | ⟨.white, .knight⟩ => Gen.WKnight | ⟨.white, .bishop⟩ => Gen.WBishop
  | ⟨.white, .rook⟩ => Gen.WRook | ⟨.white, .queen⟩ => Gen.WQueen | ⟨.white, .king⟩ => Gen.WKing
  | ⟨.black, .pawn⟩ => Gen.BPawn | ⟨.black, .knight⟩ => Gen.BKnight | ⟨.black, .bishop⟩ => Gen.BBishop
  | ⟨.black, .rook⟩ => Gen.BRook | ⟨.black, .queen⟩ => Gen.BQueen | ⟨.black, .king⟩ => Gen.BKing

/-- the engine's code of a square content (0 = empty) -/
def optCode : Option Spec.Man → Nat
  | none => 0
  | some m => manCode m

theorem man_cases (P : Spec.Man → Prop)
    (h : ∀ c ∈ [Spec.Color.white, .black], ∀ k ∈ [Spec.Kind.pawn, .knight, .bishop, .rook, .queen, .king], P ⟨c, k⟩)
    (m : Spec.Man) : P m := by
  obtain ⟨c, k⟩ := m
  cases c <;> cases k <;> exact h _ (by simp) _ (by simp)

theorem charToPiece_manByte (m : Spec.Man) : charToPiece (Spec.manByte m) = manCode m := by
  revert m; apply man_cases; decide

theorem manCode_mem (m : Spec.Man) : manCode m ∈ codes12 := by
  revert m; apply man_cases; decide

theorem decode_manCode (m : Spec.Man) : decodePiece (manCode m) = some m := by
  revert m; apply man_cases; decide

theorem decode_optCode (o : Option Spec.Man) : decodePiece (optCode o) = o := by
  cases o with
  | none => decide
  | some m => exact decode_manCode m

theorem manByte_class (m : Spec.Man) :
    65 ≤ Spec.manByte m ∧ Spec.manByte m ≤ 122 := by
  revert m; apply man_cases; decide

theorem manCode_ne_zero (m : Spec.Man) : manCode m ≠ 0 := by
  revert m; apply man_cases; decide

/-! ### one rank: what the written string denotes -/

/-- the denotation of ranks written by `fenRankBytes.go` -/
theorem expand_go (P : Spec.Pos) (r : Nat) : ∀ (fuel f gap : Nat), gap + fuel ≤ 8 →
    expandRank (Spec.fenRankBytes.go P r f fuel gap) =
      List.replicate gap 0 ++ (List.range' f fuel).map (fun x => optCode (P.at (Spec.mkSq x r))) := by
  intro fuel
  induction fuel with
  | zero =>
    intro f gap h
    rw [Spec.fenRankBytes.go]
    split
    · next hg =>
      have hd : (49 ≤ 48 + gap && 48 + gap ≤ 56) = true := by simp; omega
      simp [expandRank, hd]
    · next hg =>
      have : gap = 0 := by omega
      subst this
      simp [expandRank]
  | succ fuel ih =>
    intro f gap h
    rw [Spec.fenRankBytes.go]
    split
    · next hnone =>
      rw [ih (f + 1) (gap + 1) (by omega)]
      simp [List.range'_succ, hnone, optCode, List.replicate_succ']
    · next m hm =>
      have hmb := manByte_class m
      have hnd : (49 ≤ Spec.manByte m && Spec.manByte m ≤ 56) = false := by
        simp only [Bool.and_eq_false_iff, decide_eq_false_iff_not]; omega
      have tailEq : expandRank (Spec.manByte m :: Spec.fenRankBytes.go P r (f + 1) fuel 0) =
          (List.range' f (fuel + 1)).map (fun x => optCode (P.at (Spec.mkSq x r))) := by
        rw [expandRank, hnd, ih (f + 1) 0 (by omega)]
        simp [List.range'_succ, hm, optCode, charToPiece_manByte]
      split
      · next hg =>
        have hd : (49 ≤ 48 + gap && 48 + gap ≤ 56) = true := by simp; omega
        rw [List.singleton_append, expandRank, hd, if_pos rfl, tailEq]
        simp
      · next hg =>
        have : gap = 0 := by omega
        subst this
        rw [List.nil_append, tailEq]
        simp

theorem expand_rank (P : Spec.Pos) (r : Nat) :
    expandRank (Spec.fenRankBytes P r) = (List.range 8).map (fun x => optCode (P.at (Spec.mkSq x r))) := by
  unfold Spec.fenRankBytes
  rw [expand_go P r 8 0 0 (by omega)]
  simp [List.range_eq_range']

/-- every byte of a written rank is a run length '1'..'8' or a piece letter -/
theorem go_class (P : Spec.Pos) (r : Nat) : ∀ (fuel f gap : Nat), gap + fuel ≤ 8 →
    ∀ c ∈ Spec.fenRankBytes.go P r f fuel gap, (49 ≤ c ∧ c ≤ 56) ∨ ∃ m : Spec.Man, c = Spec.manByte m := by
  intro fuel
  induction fuel with
  | zero =>
    intro f gap h c hc
    rw [Spec.fenRankBytes.go] at hc
    split at hc
    · simp only [List.mem_singleton] at hc; left; omega
    · cases hc
  | succ fuel ih =>
    intro f gap h c hc
    rw [Spec.fenRankBytes.go] at hc
    split at hc
    · exact ih (f + 1) (gap + 1) (by omega) c hc
    · next m hm =>
      rcases List.mem_append.1 hc with hc | hc
      · split at hc
        · simp only [List.mem_singleton] at hc; left; omega
        · cases hc
      · rcases List.mem_cons.1 hc with hc | hc
        · exact Or.inr ⟨m, hc⟩
        · exact ih (f + 1) 0 (by omega) c hc

theorem rank_class (P : Spec.Pos) (r : Nat) :
    ∀ c ∈ Spec.fenRankBytes P r, (49 ≤ c ∧ c ≤ 56) ∨ ∃ m : Spec.Man, c = Spec.manByte m :=
  go_class P r 8 0 0 (by omega)

/-- consequences used by the loader: no separator inside a rank, ASCII, and every non-digit is a piece letter -/
theorem rank_bytes (P : Spec.Pos) (r : Nat) (c : Nat) (hc : c ∈ Spec.fenRankBytes P r) :
    c ≠ 47 ∧ c ≠ 32 ∧ c ≤ 127 ∧ ((49 ≤ c ∧ c ≤ 56) ∨ charToPiece c ∈ codes12) := by
  rcases rank_class P r c hc with h | ⟨m, rfl⟩
  · exact ⟨by omega, by omega, by omega, Or.inl h⟩
  · have := manByte_class m
    exact ⟨by omega, by omega, by omega, Or.inr (by rw [charToPiece_manByte]; exact manCode_mem m)⟩

end Magog.FenWrite
