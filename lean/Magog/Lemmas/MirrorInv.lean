import Magog.Lemmas.MirrorEval
import Magog.Lemmas.Inv

/-! C15 helpers, part 11: the colour flip preserves well-formedness (`MirrorOk`, and the shared
    invariant `Inv`). -/

namespace Magog.Mir
open Magog Magog.Model Magog.Count Magog.Geo Magog.Atk

theorem codes_fin (w : Bool) :
    mirrorPiece (pawnOf w) = pawnOf (!w) ∧ mirrorPiece (kingOf w) = kingOf (!w) ∧
    (∀ c ∈ officersOf w, mirrorPiece c ∈ officersOf (!w)) ∧
    pawnOf w < 256 ∧ kingOf w < 256 ∧ (∀ c ∈ officersOf w, c < 256) := by
  cases w <;> decide

theorem getElem?_mirrorBoard' {b : Array Nat} (hb : b.size = 128) (j : Nat) :
    (mirrorBoard b)[j]? = b[mirrorSq j]?.map mirrorPiece := by
  have := getElem?_mirrorBoard hb (mirrorSq j)
  rwa [mirrorSq_mirrorSq] at this

theorem bytes_mirrorBoard {b : Array Nat} (hbytes : ∀ (i x : Nat), b[i]? = some x → x < 256) :
    ∀ (i x : Nat), (mirrorBoard b)[i]? = some x → x < 256 := by
  intro i x hx
  have hi : i < 128 := by
    have := (Array.getElem?_eq_some_iff.1 hx).1
    simpa using this
  rw [getElem?_mirrorBoard_lt _ hi] at hx
  rw [← Option.some.inj hx]
  exact mirrorPiece_lt (getD_lt hbytes _)

theorem nodup_map_mirrorSq {l : List Nat} (h : l.Nodup) : (l.map mirrorSq).Nodup := by
  induction l with
  | nil => simp
  | cons x xs ih =>
    rw [List.nodup_cons] at h
    rw [List.map_cons, List.nodup_cons]
    refine ⟨fun hm => ?_, ih h.2⟩
    obtain ⟨y, hy, hxy⟩ := List.mem_map.1 hm
    rw [mirrorSq_inj.1 hxy] at hy
    exact h.1 hy

theorem sideHolds_mirror {b : Array Nat} (hb : b.size = 128) {sd : Side} {w : Bool}
    (hs : SideHolds b sd w) : SideHolds (mirrorBoard b) (mirrorSide sd) (!w) := by
  obtain ⟨cP, cK, cO, _⟩ := codes_fin w
  refine ⟨fun s hs' => ?_, fun s hs' => ?_, ?_, nodup_map_mirrorSq hs.nodup⟩
  · obtain ⟨t, ht, rfl⟩ := List.mem_map.1 hs'
    obtain ⟨h1, h2⟩ := hs.pawns t ht
    exact ⟨mirrorSq_mem_sq88.2 h1, by rw [getElem?_mirrorBoard hb, h2, Option.map_some, cP]⟩
  · obtain ⟨t, ht, rfl⟩ := List.mem_map.1 hs'
    obtain ⟨h1, c, hc, h2⟩ := hs.pieces t ht
    exact ⟨mirrorSq_mem_sq88.2 h1, mirrorPiece c, cO c hc, by rw [getElem?_mirrorBoard hb, h2, Option.map_some]⟩
  · obtain ⟨h1, h2⟩ := hs.king
    exact ⟨mirrorSq_mem_sq88.2 h1, by
      show (mirrorBoard b)[mirrorSq sd.king]? = _
      rw [getElem?_mirrorBoard hb, h2, Option.map_some, cK]⟩

theorem castleFlagsMir_fin : ∀ f < 256,
    (mirrorFlags f &&& (FWK ||| FWQ) ≠ 0 → f &&& (FBK ||| FBQ) ≠ 0) ∧
    (mirrorFlags f &&& (FBK ||| FBQ) ≠ 0 → f &&& (FWK ||| FWQ) ≠ 0) ∧
    (f < 32 → mirrorFlags f < 32) := by decide +kernel

theorem MirrorOk.mirror {p : Position} (h : MirrorOk p) : MirrorOk (mirror p) := by
  obtain ⟨f1, f2, _⟩ := castleFlagsMir_fin _ h.flags
  refine ⟨size_mirrorBoard _, bytes_mirrorBoard h.bytes, ?_, ?_, (flags_fin _ h.flags).1, fun hne => ?_,
    fun hne => ?_, ?_, fun hlt => ?_⟩
  · exact sideHolds_mirror h.size h.black
  · exact sideHolds_mirror h.size h.white
  · show mirrorSq p.blackKing = Gen.E1
    rw [h.bCastle (f1 hne)]; decide
  · show mirrorSq p.whiteKing = Gen.E8
    rw [h.wCastle (f2 hne)]; decide
  · show mirrorEp p.ep < 256
    unfold mirrorEp; split
    · exact mirrorSq_lt_256 h.epByte
    · exact h.epByte
  · have hlt' : mirrorEp p.ep < 128 := hlt
    show isValid (mirrorEp p.ep) = true
    unfold mirrorEp at hlt' ⊢
    by_cases hv : isValid p.ep = true
    · simp only [hv, if_true, isValid_mirrorSq]
    · simp only [hv, Bool.false_eq_true, if_false] at hlt' ⊢
      exact absurd (h.epValid hlt') hv

/-! ### the shared invariant -/

theorem codeMir_fin : ∀ v ∈ 0 :: pieceCodes, (mirrorPiece v = 0 ∨ mirrorPiece v ∈ pieceCodes) ∧ v < 256 := by
  decide

/-- a mirrored slot holding the mirror image of a byte constant -/
theorem mirror_slot {b : Array Nat} (hb : b.size = 128) (hbytes : ∀ (i x : Nat), b[i]? = some x → x < 256)
    {s c : Nat} (hc : c < 256) (h : (mirrorBoard b)[s]? = some (mirrorPiece c)) : b[mirrorSq s]? = some c := by
  rw [getElem?_mirrorBoard' hb] at h
  cases hx : b[mirrorSq s]? with
  | none => rw [hx] at h; cases h
  | some x =>
    rw [hx, Option.map_some] at h
    rw [(mirrorPiece_inj (hbytes _ _ hx) hc).1 (Option.some.inj h)]

theorem sideOk_mirror {b : Array Nat} (hb : b.size = 128) (hbytes : ∀ (i x : Nat), b[i]? = some x → x < 256)
    {sd : Side} {w : Bool} (hs : SideOk b sd w) : SideOk (mirrorBoard b) (mirrorSide sd) (!w) := by
  obtain ⟨cP, cK, cO, lP, lK, lO⟩ := codes_fin w
  obtain ⟨_, _, cO', _, _, lO'⟩ := codes_fin (!w)
  simp only [Bool.not_not] at cO'
  refine ⟨fun s => ⟨fun hm => ?_, fun hm => ?_⟩, fun s => ⟨fun hm => ?_, fun hm => ?_⟩,
    fun s => ⟨fun hm => ?_, fun hm => ?_⟩⟩
  · obtain ⟨t, ht, rfl⟩ := List.mem_map.1 hm
    obtain ⟨h1, h2, h3⟩ := (hs.pawns t).1 ht
    exact ⟨mirrorSq_lt_128 h1, by rw [isValid_mirrorSq]; exact h2,
      by rw [getElem?_mirrorBoard hb, h3, Option.map_some, cP]⟩
  · obtain ⟨h1, h2, h3⟩ := hm
    rw [← cP] at h3
    have := (hs.pawns (mirrorSq s)).2 ⟨mirrorSq_lt_128 h1, by rw [isValid_mirrorSq]; exact h2,
      mirror_slot hb hbytes lP h3⟩
    exact List.mem_map.2 ⟨_, this, mirrorSq_mirrorSq s⟩
  · obtain ⟨t, ht, rfl⟩ := List.mem_map.1 hm
    obtain ⟨h1, h2, c, hc, h3⟩ := (hs.pieces t).1 ht
    exact ⟨mirrorSq_lt_128 h1, by rw [isValid_mirrorSq]; exact h2, mirrorPiece c, cO c hc,
      by rw [getElem?_mirrorBoard hb, h3, Option.map_some]⟩
  · obtain ⟨h1, h2, c, hc, h3⟩ := hm
    have hc256 := lO' c hc
    rw [← mirrorPiece_invol hc256] at h3
    have := (hs.pieces (mirrorSq s)).2 ⟨mirrorSq_lt_128 h1, by rw [isValid_mirrorSq]; exact h2,
      mirrorPiece c, cO' c hc, mirror_slot hb hbytes (mirrorPiece_lt hc256) h3⟩
    exact List.mem_map.2 ⟨_, this, mirrorSq_mirrorSq s⟩
  · have hm' : s = mirrorSq sd.king := hm
    subst hm'
    obtain ⟨h1, h2, h3⟩ := (hs.king sd.king).1 rfl
    exact ⟨mirrorSq_lt_128 h1, by rw [isValid_mirrorSq]; exact h2,
      by rw [getElem?_mirrorBoard hb, h3, Option.map_some, cK]⟩
  · obtain ⟨h1, h2, h3⟩ := hm
    rw [← cK] at h3
    have := (hs.king (mirrorSq s)).2 ⟨mirrorSq_lt_128 h1, by rw [isValid_mirrorSq]; exact h2,
      mirror_slot hb hbytes lK h3⟩
    show s = mirrorSq sd.king
    rw [← this, mirrorSq_mirrorSq]

theorem backRank_fin : ∀ i < 128, (rankOf (mirrorSq i) ≠ Gen.Rank1 ∧ rankOf (mirrorSq i) ≠ Gen.Rank8) →
    (rankOf i ≠ Gen.Rank1 ∧ rankOf i ≠ Gen.Rank8) := by decide +kernel

/-- en-passant geometry under the mirror: the squares behind and before the target swap roles -/
theorem epSq_fin : ∀ e ∈ sq88,
    (rankOf e = Gen.Rank6 → rankOf (mirrorSq e) = Gen.Rank3 ∧
      mirrorSq e + Gen.UnitRank = mirrorSq (e - Gen.UnitRank) ∧ mirrorSq e - Gen.UnitRank = mirrorSq (e + Gen.UnitRank)) ∧
    (rankOf e = Gen.Rank3 → rankOf (mirrorSq e) = Gen.Rank6 ∧
      mirrorSq e + Gen.UnitRank = mirrorSq (e - Gen.UnitRank) ∧ mirrorSq e - Gen.UnitRank = mirrorSq (e + Gen.UnitRank)) := by
  decide +kernel

theorem pieceConst_fin : mirrorPiece Gen.WKing = Gen.BKing ∧ mirrorPiece Gen.BKing = Gen.WKing ∧
    mirrorPiece Gen.WRook = Gen.BRook ∧ mirrorPiece Gen.BRook = Gen.WRook ∧
    mirrorPiece Gen.WPawn = Gen.BPawn ∧ mirrorPiece Gen.BPawn = Gen.WPawn ∧
    mirrorSq Gen.E1 = Gen.E8 ∧ mirrorSq Gen.E8 = Gen.E1 ∧ mirrorSq Gen.A1 = Gen.A8 ∧ mirrorSq Gen.A8 = Gen.A1 ∧
    mirrorSq Gen.H1 = Gen.H8 ∧ mirrorSq Gen.H8 = Gen.H1 := by decide

/-- a slot of the mirrored board differs from the mirror of a byte constant iff the original slot differs -/
theorem getD_ne_mirror {b : Array Nat} (hb : b.size = 128) (hbytes : ∀ (i x : Nat), b[i]? = some x → x < 256)
    {s c : Nat} (hs : s < 128) (hc : c < 256) :
    ((mirrorBoard b).getD (mirrorSq s) 0 != mirrorPiece c) = (b.getD s 0 != c) := by
  rw [getD_mirrorBoard hb hs]
  simp only [bne, mirrorPiece_beq (getD_lt hbytes s) hc]

theorem castlingConsistent_mirror {p : Position} (h : MirrorOk p) (hc : castlingConsistent p = true) :
    castlingConsistent (mirror p) = true := by
  obtain ⟨k1, k2, r1, r2, _, _, e1, e8, a1, a8, h1, h8⟩ := pieceConst_fin
  have hfl := flags_fin _ h.flags
  have g : ∀ {s c : Nat}, s < 128 → c < 256 →
      ((mirrorBoard p.board).getD (mirrorSq s) 0 != mirrorPiece c) = (p.board.getD s 0 != c) :=
    fun hs hc => getD_ne_mirror h.size h.bytes hs hc
  have gE1K := g (s := Gen.E8) (c := Gen.BKing) (by decide) (by decide)
  have gE8K := g (s := Gen.E1) (c := Gen.WKing) (by decide) (by decide)
  have gH1 := g (s := Gen.H8) (c := Gen.BRook) (by decide) (by decide)
  have gA1 := g (s := Gen.A8) (c := Gen.BRook) (by decide) (by decide)
  have gH8 := g (s := Gen.H1) (c := Gen.WRook) (by decide) (by decide)
  have gA8 := g (s := Gen.A1) (c := Gen.WRook) (by decide) (by decide)
  rw [e8, k2] at gE1K; rw [e1, k1] at gE8K
  rw [h8, r2] at gH1; rw [a8, r2] at gA1; rw [h1, r1] at gH8; rw [a1, r1] at gA8
  unfold castlingConsistent at hc ⊢
  simp only [mirror_board] at *
  have f1 : ((mirror p).flags &&& FWK != 0) = (p.flags &&& FBK != 0) := hfl.2.2.2.1
  have f2 : ((mirror p).flags &&& FWQ != 0) = (p.flags &&& FBQ != 0) := hfl.2.2.2.2.1
  have f3 : ((mirror p).flags &&& FBK != 0) = (p.flags &&& FWK != 0) := hfl.2.2.2.2.2.1
  have f4 : ((mirror p).flags &&& FBQ != 0) = (p.flags &&& FWQ != 0) := hfl.2.2.2.2.2.2.1
  rw [f1, f2, f3, f4, gE1K, gE8K, gH1, gA1, gH8, gA8]
  simp only [Bool.and_eq_true] at hc ⊢
  obtain ⟨⟨⟨c1, c2⟩, c3⟩, c4⟩ := hc
  exact ⟨⟨⟨c3, c4⟩, c1⟩, c2⟩

theorem inv_mirror {p : Position} (h : Inv p) : Inv (mirror p) := by
  have hm := MirrorOk.of_inv h
  have hsz := hm.size
  have hby := hm.bytes
  refine ⟨⟨size_mirrorBoard _, fun s hs hv => ?_⟩, fun i hi hv => ?_, ?_, ?_, nodup_map_mirrorSq h.bpNodup,
    nodup_map_mirrorSq h.wpNodup, nodup_map_mirrorSq h.bpcNodup, nodup_map_mirrorSq h.wpcNodup, ?_, ?_, ?_, ?_,
    fun i hi => ?_, (castleFlagsMir_fin _ hm.flags).2.2 h.flags, castlingConsistent_mirror hm h.castling, ?_⟩
  · obtain ⟨v, hv1, hv2⟩ := h.board.codes (mirrorSq s) (mirrorSq_lt_128 hs) (by rw [isValid_mirrorSq]; exact hv)
    refine ⟨mirrorPiece v, by rw [mirror_board, getElem?_mirrorBoard' hsz, hv1, Option.map_some], ?_⟩
    exact (codeMir_fin v (List.mem_cons.2 hv2)).1
  · show (mirrorBoard p.board)[i]? = some 0
    rw [getElem?_mirrorBoard' hsz, h.offBoard (mirrorSq i) (mirrorSq_lt_128 hi) (by rw [isValid_mirrorSq]; exact hv),
      Option.map_some, mirrorPiece_zero]
  · exact sideOk_mirror hsz hby h.black
  · exact sideOk_mirror hsz hby h.white
  · show (p.blackPawns.map mirrorSq).length ≤ pawnCap
    rw [List.length_map]; exact h.bpLen
  · show (p.whitePawns.map mirrorSq).length ≤ pawnCap
    rw [List.length_map]; exact h.wpLen
  · show (p.blackPawns.map mirrorSq).length + (p.blackPieces.map mirrorSq).length ≤ pieceCap
    rw [List.length_map, List.length_map]; exact h.bLen
  · show (p.whitePawns.map mirrorSq).length + (p.whitePieces.map mirrorSq).length ≤ pieceCap
    rw [List.length_map, List.length_map]; exact h.wLen
  · obtain ⟨_, _, _, _, p1, p2, _⟩ := pieceConst_fin
    have hi' : (mirrorBoard p.board)[i]? = some Gen.WPawn ∨ (mirrorBoard p.board)[i]? = some Gen.BPawn := hi
    have hi128 : i < 128 := by
      rcases hi' with hh | hh <;>
      · have := (Array.getElem?_eq_some_iff.1 hh).1
        simpa using this
    apply backRank_fin i hi128
    apply h.noBackPawn (mirrorSq i)
    rcases hi' with hh | hh
    · right; rw [← p2] at hh; exact mirror_slot hsz hby (by decide) hh
    · left; rw [← p1] at hh; exact mirror_slot hsz hby (by decide) hh
  · rcases h.ep with he | he
    · left
      show mirrorEp p.ep = InvalidSq
      rw [he]; decide
    · right
      obtain ⟨e1, e2, e3, e4⟩ := he
      have he88 : p.ep ∈ sq88 := mem_sq88.2 ⟨e1, e2⟩
      obtain ⟨q6, q3⟩ := epSq_fin _ he88
      obtain ⟨_, _, _, _, p1, p2, _⟩ := pieceConst_fin
      have hep : (Model.mirror p).ep = mirrorSq p.ep := by
        show mirrorEp p.ep = _
        simp [mirrorEp, e2]
      have hz : ∀ s, p.board[s]? = some 0 → (mirrorBoard p.board)[mirrorSq s]? = some 0 := fun s hs => by
        rw [getElem?_mirrorBoard hsz, hs, Option.map_some, mirrorPiece_zero]
      refine ⟨by rw [hep]; exact mirrorSq_lt_128 e1, by rw [hep, isValid_mirrorSq]; exact e2,
        by rw [hep]; exact hz _ e3, ?_⟩
      rw [whiteTurn_mirror hm.flags, hep, mirror_board]
      by_cases hw : whiteTurn p = true
      · simp only [hw, if_true] at e4
        obtain ⟨r, b1, b2⟩ := e4
        obtain ⟨r', s1, s2⟩ := q6 r
        simp only [hw, Bool.not_true, Bool.false_eq_true, if_false]
        refine ⟨r', ?_, ?_⟩
        · rw [s1, getElem?_mirrorBoard hsz, b1, Option.map_some, p2]
        · rw [s2]; exact hz _ b2
      · simp only [hw, Bool.false_eq_true, if_false] at e4
        obtain ⟨r, b1, b2⟩ := e4
        obtain ⟨r', s1, s2⟩ := q3 r
        have hw' : whiteTurn p = false := by simpa using hw
        simp only [hw', Bool.not_false, if_true]
        refine ⟨r', ?_, ?_⟩
        · rw [s2, getElem?_mirrorBoard hsz, b1, Option.map_some, p1]
        · rw [s1]; exact hz _ b2

end Magog.Mir
