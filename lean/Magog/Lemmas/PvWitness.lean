import Magog.Lemmas.PvLegal
import Magog.Lemmas.KillerIndep
import Magog.Lemmas.SearchExamples
import Magog.Lemmas.AlphaBeta

/-! Tools for discharging the hypotheses of the PV theorems (`GenClosed`, `EvalFinite`) on concrete inputs by
    kernel evaluation: the positions reachable in exactly `d` plies, and a Boolean bound check of the evaluation. -/

namespace Magog.Model.PvWitness
open Magog Magog.Model

def movsOf (x : M (List RMove)) : List Move :=
  match x with
  | .ok ms => ms.map (·.mov)
  | .error _ => []

def succOf (p : Position) (m : Move) : Option Position :=
  match makeMove p m with
  | .ok (q, true) => some q
  | _ => none

/-- the positions after one generated (full or tactical) legal move -/
def succList (p : Position) : List Position :=
  (movsOf (generateMoves Killers.empty p) ++ movsOf (generateTacticalMoves p)).filterMap (succOf p)

theorem killersEmpty_size : Killers.empty.size = Gen.killerMovesMaxPly := by
  simp [Killers.empty]

theorem mem_succList {p : Position} {m : Move} {q : Position} (hg : GenFull p m ∨ GenTac p m)
    (hm : makeMove p m = .ok (q, true)) : q ∈ succList p := by
  unfold succList
  refine List.mem_filterMap.2 ⟨m, ?_, by unfold succOf; rw [hm]⟩
  rcases hg with ⟨kt, ms, hms, hmem⟩ | ⟨ms, hms, hmem⟩
  · obtain ⟨ms0, hms0⟩ := Magog.Lemmas.KillerIndep.generateMoves_ok_indep' kt Killers.empty killersEmpty_size p ⟨ms, hms⟩
    refine List.mem_append_left _ ?_
    rw [hms0]
    show m ∈ ms0.map (·.mov)
    rw [← Magog.Lemmas.KillerIndep.killerIndep kt Killers.empty p ms ms0 hms hms0]
    exact hmem
  · refine List.mem_append_right _ ?_
    rw [hms]
    exact hmem

/-- the positions reachable from `p0` in exactly `d` plies (with repetitions) -/
def levels (p0 : Position) : Nat → List Position
  | 0 => [p0]
  | d + 1 => (levels p0 d).flatMap succList

/-- `q` is reachable from `p0` in `d` plies — claimed only up to depth `N` -/
def Reach (p0 : Position) (N : Nat) (d : Nat) (q : Position) : Prop := d ≤ N → q ∈ levels p0 d

theorem reach_root (p0 : Position) (N : Nat) : Reach p0 N 0 p0 := fun _ => List.mem_singleton.2 rfl

theorem reach_closed (p0 : Position) (N : Nat) : GenClosed (Reach p0 N) := by
  intro d p m q hp hg hm hd
  show q ∈ (levels p0 d).flatMap succList
  exact List.mem_flatMap.2 ⟨p, hp (by omega), mem_succList hg hm⟩

/-- Boolean check: all ingredients of the static evaluation of `p` are defined and small -/
def evalBoundedB (blend : Blend) (p : Position) : Bool :=
  match pieceSquareScore blend p, countMoves p, countMoves (flipTurn p) with
  | .ok cheap, .ok own, .ok enemy =>
    decide (cheap.natAbs + own * Gen.MobilityScoreFactor + enemy * Gen.MobilityScoreFactor < 1000000)
  | _, _, _ => false

theorem lazyEvaluate_bounded {blend : Blend} {p : Position} (hb : evalBoundedB blend p = true) {d : Nat}
    (hd : d ≤ 1000) {a b x : Int} (h : lazyEvaluate blend p d a b = .ok x) :
    Gen.MinusInfinityScore < x ∧ x < Gen.InfinityScore := by
  unfold evalBoundedB at hb
  split at hb
  · rename_i cheap own enemy hc ho he
    have hb := of_decide_eq_true hb
    simp only [Gen.MobilityScoreFactor] at hb
    unfold lazyEvaluate at h
    obtain ⟨mate, _, h⟩ := bind_ok.1 h
    split at h
    · simp only [pure_ok] at h; subst h
      simp only [Gen.LostScore, Gen.MinusInfinityScore, Gen.InfinityScore]; omega
    · rw [hc] at h
      obtain ⟨cheap', hc', h⟩ := bind_ok.1 h
      cases hc'
      split at h
      · simp only [pure_ok] at h; subst h
        simp only [Gen.MinusInfinityScore, Gen.InfinityScore]; omega
      · rw [ho] at h
        obtain ⟨own', ho', h⟩ := bind_ok.1 h
        cases ho'
        split at h
        · simp only [pure_ok] at h; subst h
          simp only [Gen.DrawScore, Gen.MinusInfinityScore, Gen.InfinityScore]; omega
        · rw [he] at h
          obtain ⟨enemy', he', h⟩ := bind_ok.1 h
          cases he'
          simp only [pure_ok] at h; subst h
          simp only [Gen.MobilityScoreFactor, Gen.MinusInfinityScore, Gen.InfinityScore]; omega
  · cases hb

theorem terminal_bounded {p : Position} {d : Nat} (hd : d ≤ 1000) {x : Int} (h : terminalNodeScore p d = .ok x) :
    Gen.MinusInfinityScore < x ∧ x < Gen.InfinityScore := by
  unfold terminalNodeScore at h
  obtain ⟨chk, _, h⟩ := bind_ok.1 h
  simp only [pure_ok] at h; subst h
  split <;> simp only [Gen.LostScore, Gen.DrawScore, Gen.MinusInfinityScore, Gen.InfinityScore] <;> omega

/-- Boolean check of `EvalFinite` on the levels `0 … N` -/
def levelsBoundedB (blend : Blend) (p0 : Position) (N : Nat) : Bool :=
  (List.range (N + 1)).all fun d => (levels p0 d).all (evalBoundedB blend)

theorem evalFinite_of_levels {env : Env} {p0 : Position} {N D : Nat} (hD : D ≤ N + 2) (hN : N ≤ 1000)
    (h : levelsBoundedB env.blend p0 N = true) : EvalFinite env (Reach p0 N) D := by
  intro d p hd hp a b x hx
  have hdN : d ≤ N := by omega
  have hb : evalBoundedB env.blend p = true := by
    unfold levelsBoundedB at h
    rw [List.all_eq_true] at h
    have := h d (List.mem_range.2 (by omega))
    rw [List.all_eq_true] at this
    exact this p (hp hdN)
  rcases hx with hx | hx | hx
  · exact lazyEvaluate_bounded hb (by omega) hx
  · exact lazyEvaluate_bounded hb (by omega) hx
  · exact terminal_bounded (by omega) hx

/-- a permutation sort is sound -/
theorem sortSound_of_perm {env : Env} (h : Magog.Lemmas.AlphaBeta.PermSort env) : SortSound env where
  mem l m hm := (h l).mem_iff.1 hm
  ne l hl h0 := by
    have hp := h l
    rw [h0] at hp
    exact hl hp.symm.eq_nil

/-! ### A concrete run: Ka1 vs Kh8, `go depth 2`, a table of 4 rows, one ply of quiescence -/

open SearchExamples

/-- the table has 4 rows, so nodes exist at depths `0 … 2` -/
def pvRun : M SS := iterDeep quietEnv 1 kkPos 2 Killers.empty (newRows 4) 4

/-- a table of the same shape filled with junk moves -/
def junkRows : Array (Array Move) := (newRows 4).map fun r => r.map fun _ => (⟨1, 2, 3, 4⟩ : Move)

def pvRunJunk : M SS := iterDeep quietEnv 1 kkPos 2 Killers.empty junkRows 3

/-- the run succeeded, printed a two-move `info depth 2 … pv` line and ended with `bestmove m` -/
def hasPv2 : M SS → Bool
  | .ok s => (s.out.any fun e => match e with
      | .infoDepth 2 _ _ [_, _] => true
      | _ => false) &&
    (match s.out with
      | .bestmove _ :: _ => true
      | _ => false)
  | .error _ => false

theorem hasPv2_elim {r : M SS} (h : hasPv2 r = true) :
    ∃ s sc n m1 m2 m rest, r = .ok s ∧ Event.infoDepth 2 sc n [m1, m2] ∈ s.out ∧ s.out = .bestmove m :: rest := by
  unfold hasPv2 at h
  split at h
  · rename_i s
    obtain ⟨h1, h2⟩ := Bool.and_eq_true_iff.1 h
    obtain ⟨e, he, h1⟩ := List.any_eq_true.1 h1
    split at h1
    · split at h2
      · rename_i hout
        exact ⟨s, _, _, _, _, _, _, rfl, he, hout⟩
      · cases h2
    · cases h1
  · cases h

set_option maxRecDepth 100000 in
theorem pvRun_ok : hasPv2 pvRun = true := by decide +kernel

set_option maxRecDepth 100000 in
/-- the static evaluation of every position within two plies of `kkPos` is defined and small -/
theorem kk_levels : levelsBoundedB quietEnv.blend kkPos 2 = true := by decide +kernel

theorem quietEnv_perm : Magog.Lemmas.AlphaBeta.PermSort quietEnv := fun l => List.Perm.refl l

theorem newRows4_size : (newRows 4).size = 4 := by simp [newRows]

theorem kk_evalFinite : EvalFinite quietEnv (Reach kkPos 2) (newRows 4).size := by
  rw [newRows4_size]
  exact evalFinite_of_levels (Nat.le_refl _) (by decide) kk_levels

theorem junkRows_shape : (newRows 4).size = junkRows.size ∧
    ∀ i : Nat, ((newRows 4)[i]?).map (·.size) = (junkRows[i]?).map (·.size) := by
  unfold junkRows
  refine ⟨by simp, fun i => ?_⟩
  rw [Array.getElem?_map, Option.map_map]
  congr 1
  funext r
  simp

/-! ### Sharpness: a run with an infinite static evaluation prints a stale line

With `hugeEnv` the static evaluation of the position after `Ka1-a2` is `≤ −∞` from the mover's point of view: the
depth-1 node returns `α = −∞` without writing row 1, the root sees `+∞ > −∞` and copies the whole stale row. -/

def hugeEnv : Env := { quietEnv with blend := fun _ _ e => e * 100000000 }

def hugeRun : M SS := iterDeep hugeEnv 1 kkPos 1 Killers.empty (newRows 4) 4

def hugeRunJunk : M SS := iterDeep hugeEnv 1 kkPos 1 Killers.empty junkRows 3

theorem genFull_mem_movsOf {p : Position} {m : Move} (hg : GenFull p m) :
    m ∈ movsOf (generateMoves Killers.empty p) := by
  obtain ⟨kt, ms, hms, hmem⟩ := hg
  obtain ⟨ms0, hms0⟩ := Magog.Lemmas.KillerIndep.generateMoves_ok_indep' kt Killers.empty killersEmpty_size p ⟨ms, hms⟩
  rw [hms0]
  show m ∈ ms0.map (·.mov)
  rw [← Magog.Lemmas.KillerIndep.killerIndep kt Killers.empty p ms ms0 hms hms0]
  exact hmem

theorem genTac_mem_movsOf {p : Position} {m : Move} (hg : GenTac p m) :
    m ∈ movsOf (generateTacticalMoves p) := by
  obtain ⟨ms, hms, hmem⟩ := hg
  rw [hms]
  exact hmem

/-- Boolean check: after `m`, the move `m2` is produced by neither generator -/
def illegalSecondB (p : Position) (m m2 : Move) : Bool :=
  match makeMove p m with
  | .ok (q, _) => !decide (m2 ∈ movsOf (generateMoves Killers.empty q)) &&
      !decide (m2 ∈ movsOf (generateTacticalMoves q))
  | .error _ => true

theorem not_legal_of_illegalSecondB {p : Position} {m m2 : Move} {rest : List Move}
    (h : illegalSecondB p m m2 = true) : ¬ LegalLine p (m :: m2 :: rest) := by
  rintro ⟨q, _, hmk, q2, hg, _, _⟩
  unfold illegalSecondB at h
  rw [hmk] at h
  simp only [Bool.and_eq_true, Bool.not_eq_true', decide_eq_false_iff_not] at h
  rcases hg with hg | hg
  · exact h.1 (genFull_mem_movsOf hg)
  · exact h.2 (genTac_mem_movsOf hg)

/-- the run succeeded and printed a pv whose second move is not a generated move -/
def printsIllegal (p : Position) : M SS → Bool
  | .ok s => s.out.any fun e => match e with
    | .infoPv _ _ _ (m :: m2 :: _) => illegalSecondB p m m2
    | _ => false
  | .error _ => false

theorem printsIllegal_elim {p : Position} {r : M SS} (h : printsIllegal p r = true) :
    ∃ s sc d n pv, r = .ok s ∧ Event.infoPv sc d n pv ∈ s.out ∧ ¬ LegalLine p pv := by
  unfold printsIllegal at h
  split at h
  · rename_i s
    obtain ⟨e, he, h⟩ := List.any_eq_true.1 h
    split at h
    · exact ⟨s, _, _, _, _, rfl, he, not_legal_of_illegalSecondB h⟩
    · cases h
  · cases h

set_option maxRecDepth 100000 in
theorem hugeRun_illegal : printsIllegal kkPos hugeRun = true := by decide +kernel

/-- both runs succeed, with different outputs -/
def outsDiffer : M SS → M SS → Bool
  | .ok s, .ok s' => decide (s.out ≠ s'.out)
  | _, _ => false

theorem outsDiffer_elim {r r' : M SS} (h : outsDiffer r r' = true) :
    ∃ s s', r = .ok s ∧ r' = .ok s' ∧ s.out ≠ s'.out := by
  unfold outsDiffer at h
  split at h
  · exact ⟨_, _, rfl, rfl, of_decide_eq_true h⟩
  · cases h

set_option maxRecDepth 100000 in
theorem hugeRun_differ : outsDiffer hugeRun hugeRunJunk = true := by decide +kernel

end Magog.Model.PvWitness
