import Magog.Lemmas.MakeMoveAbsBoard

/-! C02, second half: assembly helpers and concrete witnesses — the non-vacuity witness (1.e4 from the
    initial position) and the king-capture position showing that the hypothesis "the move does not
    capture the enemy king" of `makeMove_abs` cannot be dropped. -/

namespace Magog.MMAbs
open Magog Magog.Model Magog.Atk Magog.Geo Magog.Count

theorem pos_ext {P Q : Spec.Pos} (h1 : P.board = Q.board) (h2 : P.turn = Q.turn) (h3 : P.wk = Q.wk)
    (h4 : P.wq = Q.wq) (h5 : P.bk = Q.bk) (h6 : P.bq = Q.bq) (h7 : P.ep = Q.ep) : P = Q := by
  cases P; cases Q
  simp only at h1 h2 h3 h4 h5 h6 h7
  simp [h1, h2, h3, h4, h5, h6, h7]

/-- the mover's own two castling rights agree with the rules without any further hypothesis -/
theorem abs_castling_mover_eq {p : Position} {m : Move} {fp tp : Nat} {p' : Position} {b : Bool}
    (hi : Inv p) (hc : Common p m fp tp) (h : makeMove p m = .ok (p', b)) :
    if whiteTurn p then
      (abs p').wk = (Spec.apply (abs p) (absMove m)).wk ∧ (abs p').wq = (Spec.apply (abs p) (absMove m)).wq
    else
      (abs p').bk = (Spec.apply (abs p) (absMove m)).bk ∧ (abs p').bq = (Spec.apply (abs p) (absMove m)).bq := by
  rw [apply_wk (mv := absMove m) hc.at_frm, apply_wq (mv := absMove m) hc.at_frm,
    apply_bk (mv := absMove m) hc.at_frm, apply_bq (mv := absMove m) hc.at_frm]
  have h1 := flag_cur_K hi hc h
  have h2 := flag_cur_Q hi hc h
  cases hw : whiteTurn p
  · rw [hw] at h1 h2
    simp only [Bool.false_eq_true, if_false]
    exact ⟨h1, h2⟩
  · rw [hw] at h1 h2
    simp only [if_true]
    exact ⟨h1, h2⟩

/-- `Generated` from a kernel-evaluated membership test (empty killer table) -/
theorem generated_of_check {p : Position} {m : Move}
    (h : (match genPseudo Killers.empty p with
          | .ok ms => (ms.map (·.mov)).contains m
          | .error _ => false) = true) : Generated p m := by
  cases hgen : genPseudo Killers.empty p with
  | error e => simp [hgen] at h
  | ok ms =>
    simp only [hgen, List.contains_iff_mem] at h
    exact ⟨Killers.empty, ms, hgen, h⟩

/-- the position `makeMove` returns (the argument itself if it panics; only used on witnesses) -/
def after (p : Position) (m : Move) : Position :=
  match makeMove p m with
  | .ok r => r.1
  | .error _ => p

def afterSafe (p : Position) (m : Move) : Bool :=
  match makeMove p m with
  | .ok r => r.2
  | .error _ => false

theorem makeMove_after {p : Position} {m : Move} (h : (okVal (makeMove p m)).isSome = true) :
    makeMove p m = .ok (after p m, afterSafe p m) := by
  unfold after afterSafe
  cases hm : makeMove p m with
  | error e => simp [hm, okVal] at h
  | ok r => rfl

/-- 1.e4 -/
def e2e4 : Move := ⟨0x14, 0x34, 0, 0x24⟩

theorem generated_e2e4 : Generated startPosition e2e4 := generated_of_check (by decide +kernel)

theorem makeMove_e2e4 : makeMove startPosition e2e4 = .ok (after startPosition e2e4, afterSafe startPosition e2e4) :=
  makeMove_after (by decide +kernel)

/-- White Ke1, Qe7; Black Ke8, Rh8 with the right `k` still set; White to move. Well-formed (`Inv`),
    but Black is in check with White to move, so the pseudo-legal Qe7xe8 captures the king. -/
def kingCapturePos : Position :=
  { board := ((((Array.replicate 128 0).setIfInBounds Gen.E1 Gen.WKing).setIfInBounds Gen.E7 Gen.WQueen).setIfInBounds
      Gen.E8 Gen.BKing).setIfInBounds Gen.H8 Gen.BRook,
    blackPieces := [Gen.H8], whitePieces := [Gen.E7], blackPawns := [], whitePawns := [],
    blackKing := Gen.E8, whiteKing := Gen.E1,
    flags := Gen.FlagWhiteTurn ||| Gen.FlagBlackCanCastleKside, ep := InvalidSq, ply := 0 }

def kingCaptureMove : Move := ⟨Gen.E7, Gen.E8, 0, InvalidSq⟩

theorem inv_kingCapturePos : Inv kingCapturePos := inv_of_invB (by decide +kernel)

theorem generated_kingCapture : Generated kingCapturePos kingCaptureMove :=
  generated_of_check (by decide +kernel)

theorem makeMove_kingCapture : makeMove kingCapturePos kingCaptureMove =
    .ok (after kingCapturePos kingCaptureMove, afterSafe kingCapturePos kingCaptureMove) :=
  makeMove_after (by decide +kernel)

/-- the engine keeps Black's `k` right, the rules (`touch` on e8) remove it -/
theorem kingCapture_bk : (abs (after kingCapturePos kingCaptureMove)).bk = true ∧
    (Spec.apply (abs kingCapturePos) (absMove kingCaptureMove)).bk = false := by decide +kernel

end Magog.MMAbs
