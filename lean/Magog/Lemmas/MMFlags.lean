import Magog.Lemmas.MMCore

/-! Flags after `makeMove`: side to move flips, flags stay below 32, a castling right survives only if
    neither its king nor its rook moved and its rook was not captured; consequently
    `castlingConsistent` is preserved when the touched squares are accounted for. -/

namespace Magog.MM
open Magog Magog.Model Magog.Atk Magog.Geo Magog.Count

/-- `mmCorners` as a function of its four tests -/
def corners4 (f : Nat) (b1 b2 b3 b4 : Bool) (cK cQ eK eQ : Nat) : Nat :=
  let f := if b1 then clearBits f cQ else f
  let f := if b2 then clearBits f cK else f
  let f := if b3 then clearBits f eQ else f
  let f := if b4 then clearBits f eK else f
  f

theorem mmCorners_eq (f : Nat) (m : Move) (cr er cK cQ eK eQ : Nat) :
    mmCorners f m cr er cK cQ eK eQ =
      corners4 f (fileOf m.frm == Gen.A && rankOf m.frm == cr) (fileOf m.frm == Gen.H && rankOf m.frm == cr)
        (fileOf m.to == Gen.A && rankOf m.to == er) (fileOf m.to == Gen.H && rankOf m.to == er) cK cQ eK eQ := rfl

/-- flags after the move: `km` = the mover's king moved -/
def flagsAfter (w : Bool) (f : Nat) (km b1 b2 b3 b4 : Bool) : Nat :=
  corners4 (if km then clearBits f (flagK w ||| flagQ w) else f) b1 b2 b3 b4
    (flagK w) (flagQ w) (flagK (!w)) (flagQ (!w)) ^^^ FWhiteTurn

def cornerA (m : Move) (w : Bool) : Bool := fileOf m.frm == Gen.A && rankOf m.frm == homeRank w
def cornerH (m : Move) (w : Bool) : Bool := fileOf m.frm == Gen.H && rankOf m.frm == homeRank w
def cornerA' (m : Move) (w : Bool) : Bool := fileOf m.to == Gen.A && rankOf m.to == homeRank (!w)
def cornerH' (m : Move) (w : Bool) : Bool := fileOf m.to == Gen.H && rankOf m.to == homeRank (!w)

theorem newFlags_eq (w : Bool) (f : Nat) (km : Bool) (m : Move) :
    newFlags w (if km then clearBits f (flagK w ||| flagQ w) else f) m =
      flagsAfter w f km (cornerA m w) (cornerH m w) (cornerA' m w) (cornerH' m w) := rfl

theorem newFlags_eq' (w : Bool) (f : Nat) (m : Move) :
    newFlags w f m = flagsAfter w f false (cornerA m w) (cornerH m w) (cornerA' m w) (cornerH' m w) := rfl

def flagsCheck (w : Bool) (f : Nat) (km b1 b2 b3 b4 : Bool) : Bool :=
  let x := flagsAfter w f km b1 b2 b3 b4
  decide (x < 32) && ((x &&& FWhiteTurn != 0) == !(f &&& FWhiteTurn != 0)) &&
  (x &&& flagK w == 0 || (f &&& flagK w != 0 && !km && !b2)) &&
  (x &&& flagQ w == 0 || (f &&& flagQ w != 0 && !km && !b1)) &&
  (x &&& flagK (!w) == 0 || (f &&& flagK (!w) != 0 && !b4)) &&
  (x &&& flagQ (!w) == 0 || (f &&& flagQ (!w) != 0 && !b3))

def bools : List Bool := [false, true]

theorem mem_bools (b : Bool) : b ∈ bools := by cases b <;> decide

set_option maxRecDepth 100000 in
theorem flagsCheck_all : ((List.range 32).all fun f => bools.all fun w => bools.all fun km => bools.all fun b1 =>
    bools.all fun b2 => bools.all fun b3 => bools.all fun b4 => flagsCheck w f km b1 b2 b3 b4) = true := by
  decide +kernel

theorem flagsAfter_fin (w : Bool) (f : Nat) (hf : f < 32) (km b1 b2 b3 b4 : Bool) :
    flagsAfter w f km b1 b2 b3 b4 < 32 ∧
    (flagsAfter w f km b1 b2 b3 b4 &&& FWhiteTurn != 0) = !(f &&& FWhiteTurn != 0) ∧
    (flagsAfter w f km b1 b2 b3 b4 &&& flagK w ≠ 0 → f &&& flagK w ≠ 0 ∧ km = false ∧ b2 = false) ∧
    (flagsAfter w f km b1 b2 b3 b4 &&& flagQ w ≠ 0 → f &&& flagQ w ≠ 0 ∧ km = false ∧ b1 = false) ∧
    (flagsAfter w f km b1 b2 b3 b4 &&& flagK (!w) ≠ 0 → f &&& flagK (!w) ≠ 0 ∧ b4 = false) ∧
    (flagsAfter w f km b1 b2 b3 b4 &&& flagQ (!w) ≠ 0 → f &&& flagQ (!w) ≠ 0 ∧ b3 = false) := by
  have h := flagsCheck_all
  simp only [List.all_eq_true, List.mem_range] at h
  have h := h f hf w (mem_bools w) km (mem_bools km) b1 (mem_bools b1) b2 (mem_bools b2) b3 (mem_bools b3)
    b4 (mem_bools b4)
  simp only [flagsCheck, Bool.and_eq_true, decide_eq_true_eq, beq_iff_eq, Bool.or_eq_true, bne_iff_ne, ne_eq,
    Bool.not_eq_true'] at h
  obtain ⟨⟨⟨⟨⟨h1, h2⟩, h3⟩, h4⟩, h5⟩, h6⟩ := h
  refine ⟨h1, h2, fun h => ?_, fun h => ?_, fun h => ?_, fun h => ?_⟩
  · rcases h3 with h3 | h3
    · exact absurd h3 h
    · exact ⟨h3.1.1, h3.1.2, h3.2⟩
  · rcases h4 with h4 | h4
    · exact absurd h4 h
    · exact ⟨h4.1.1, h4.1.2, h4.2⟩
  · rcases h5 with h5 | h5
    · exact absurd h5 h
    · exact h5
  · rcases h6 with h6 | h6
    · exact absurd h6 h
    · exact h6

/-! ### castling rights, colour-generic -/

def kingHome (c : Bool) : Nat := if c then Gen.E1 else Gen.E8
def rookHomeK (c : Bool) : Nat := if c then Gen.H1 else Gen.H8
def rookHomeQ (c : Bool) : Nat := if c then Gen.A1 else Gen.A8
def rookOf (c : Bool) : Nat := if c then Gen.WRook else Gen.BRook

theorem rookOf_mem (c : Bool) : rookOf c ∈ officersOf c := by cases c <;> decide

/-- `castlingConsistent` spelled out per colour -/
def CastlingOk (B : Array Nat) (f : Nat) : Prop :=
  ∀ c : Bool,
    (f &&& flagK c ≠ 0 → B[kingHome c]? = some (kingOf c) ∧ B[rookHomeK c]? = some (rookOf c)) ∧
    (f &&& flagQ c ≠ 0 → B[kingHome c]? = some (kingOf c) ∧ B[rookHomeQ c]? = some (rookOf c))

theorem getD_eq_iff {B : Array Nat} (hsz : B.size = 128) {s v : Nat} (hs : s < 128) :
    B.getD s 0 = v ↔ B[s]? = some v := by
  have : s < B.size := by omega
  simp [Array.getD_eq_getD_getElem?, Array.getElem?_eq_getElem this]

theorem castlingConsistent_iff {p : Position} (hsz : p.board.size = 128) :
    castlingConsistent p = true ↔ CastlingOk p.board p.flags := by
  have e1 := @getD_eq_iff p.board hsz Gen.E1 Gen.WKing (by decide)
  have e2 := @getD_eq_iff p.board hsz Gen.H1 Gen.WRook (by decide)
  have e3 := @getD_eq_iff p.board hsz Gen.A1 Gen.WRook (by decide)
  have e4 := @getD_eq_iff p.board hsz Gen.E8 Gen.BKing (by decide)
  have e5 := @getD_eq_iff p.board hsz Gen.H8 Gen.BRook (by decide)
  have e6 := @getD_eq_iff p.board hsz Gen.A8 Gen.BRook (by decide)
  simp only [castlingConsistent, CastlingOk, Bool.forall_bool, kingHome, rookHomeK, rookHomeQ, rookOf, kingOf,
    flagK, flagQ, if_true, Bool.false_eq_true, if_false, Bool.and_eq_true, Bool.not_eq_true', Bool.and_eq_false_iff,
    bne_eq_false_iff_eq, Bool.or_eq_false_iff, ← e1, ← e2, ← e3, ← e4, ← e5, ← e6, ne_eq]
  constructor
  · rintro ⟨⟨⟨h1, h2⟩, h3⟩, h4⟩
    refine ⟨⟨fun h => ?_, fun h => ?_⟩, ⟨fun h => ?_, fun h => ?_⟩⟩
    · exact h3.resolve_left h
    · exact h4.resolve_left h
    · exact h1.resolve_left h
    · exact h2.resolve_left h
  · rintro ⟨⟨h3, h4⟩, ⟨h1, h2⟩⟩
    refine ⟨⟨⟨?_, ?_⟩, ?_⟩, ?_⟩
    · by_cases h : p.flags &&& FWK = 0
      · exact .inl h
      · exact .inr (h1 h)
    · by_cases h : p.flags &&& FWQ = 0
      · exact .inl h
      · exact .inr (h2 h)
    · by_cases h : p.flags &&& FBK = 0
      · exact .inl h
      · exact .inr (h3 h)
    · by_cases h : p.flags &&& FBQ = 0
      · exact .inl h
      · exact .inr (h4 h)

/-- the corner tests of `mmCorners` identify the rook home squares -/
theorem corner_fin (c : Bool) (s : Nat) (hs : s < 128) :
    ((fileOf s == Gen.A && rankOf s == homeRank c) = true ↔ s = rookHomeQ c) ∧
    ((fileOf s == Gen.H && rankOf s == homeRank c) = true ↔ s = rookHomeK c) := by
  have : ∀ s ∈ List.range 128, ∀ c ∈ bools,
      ((fileOf s == Gen.A && rankOf s == homeRank c) = true ↔ s = rookHomeQ c) ∧
      ((fileOf s == Gen.H && rankOf s == homeRank c) = true ↔ s = rookHomeK c) := by decide +kernel
  exact this s (List.mem_range.mpr hs) c (mem_bools c)

/-- Castling consistency after a move: `D` are the touched squares. -/
theorem castlingOk_step {B B' : Array Nat} {f : Nat} {w km : Bool} {m : Move} (hf : f < 32)
    (hold : CastlingOk B f) (hfrm : m.frm < 128) (hto : m.to < 128) (D : List Nat)
    (hD : ∀ s, s ∉ D → B'[s]? = B[s]?)
    (hK : ∀ s ∈ D, B[s]? = some (kingOf w) → km = true)
    (hR : ∀ s ∈ D, B[s]? = some (rookOf w) → s = m.frm ∨ km = true)
    (hEK : ∀ s ∈ D, B[s]? ≠ some (kingOf (!w)))
    (hER : ∀ s ∈ D, B[s]? = some (rookOf (!w)) → s = m.to) :
    CastlingOk B' (flagsAfter w f km (cornerA m w) (cornerH m w) (cornerA' m w) (cornerH' m w)) := by
  obtain ⟨_, _, fK, fQ, fK', fQ'⟩ := flagsAfter_fin w f hf km (cornerA m w) (cornerH m w) (cornerA' m w) (cornerH' m w)
  have keep : ∀ s v, B[s]? = some v → (s ∈ D → False) → B'[s]? = some v := fun s v hv hn => by
    rw [hD s hn]; exact hv
  have own : ∀ c, c = w → (_ : True) →
      (flagsAfter w f km (cornerA m w) (cornerH m w) (cornerA' m w) (cornerH' m w) &&& flagK c ≠ 0 →
        B'[kingHome c]? = some (kingOf c) ∧ B'[rookHomeK c]? = some (rookOf c)) ∧
      (flagsAfter w f km (cornerA m w) (cornerH m w) (cornerA' m w) (cornerH' m w) &&& flagQ c ≠ 0 →
        B'[kingHome c]? = some (kingOf c) ∧ B'[rookHomeQ c]? = some (rookOf c)) := by
    intro c hc _
    subst hc
    constructor
    · intro h
      obtain ⟨h1, h2, h3⟩ := fK h
      obtain ⟨hk, hr⟩ := (hold c).1 h1
      refine ⟨keep _ _ hk (fun hm => ?_), keep _ _ hr (fun hm => ?_)⟩
      · have := hK _ hm hk; rw [h2] at this; cases this
      · rcases hR _ hm hr with e | e
        · have := (corner_fin c m.frm hfrm).2.mpr e.symm
          simp only [cornerH] at h3; rw [h3] at this; cases this
        · rw [h2] at e; cases e
    · intro h
      obtain ⟨h1, h2, h3⟩ := fQ h
      obtain ⟨hk, hr⟩ := (hold c).2 h1
      refine ⟨keep _ _ hk (fun hm => ?_), keep _ _ hr (fun hm => ?_)⟩
      · have := hK _ hm hk; rw [h2] at this; cases this
      · rcases hR _ hm hr with e | e
        · have := (corner_fin c m.frm hfrm).1.mpr e.symm
          simp only [cornerA] at h3; rw [h3] at this; cases this
        · rw [h2] at e; cases e
  have other : ∀ c, c = (!w) → (_ : True) →
      (flagsAfter w f km (cornerA m w) (cornerH m w) (cornerA' m w) (cornerH' m w) &&& flagK c ≠ 0 →
        B'[kingHome c]? = some (kingOf c) ∧ B'[rookHomeK c]? = some (rookOf c)) ∧
      (flagsAfter w f km (cornerA m w) (cornerH m w) (cornerA' m w) (cornerH' m w) &&& flagQ c ≠ 0 →
        B'[kingHome c]? = some (kingOf c) ∧ B'[rookHomeQ c]? = some (rookOf c)) := by
    intro c hc _
    subst hc
    constructor
    · intro h
      obtain ⟨h1, h3⟩ := fK' h
      obtain ⟨hk, hr⟩ := (hold (!w)).1 h1
      refine ⟨keep _ _ hk (fun hm => hEK _ hm hk), keep _ _ hr (fun hm => ?_)⟩
      have e := hER _ hm hr
      have := (corner_fin (!w) m.to hto).2.mpr e.symm
      simp only [cornerH'] at h3; rw [h3] at this; cases this
    · intro h
      obtain ⟨h1, h3⟩ := fQ' h
      obtain ⟨hk, hr⟩ := (hold (!w)).2 h1
      refine ⟨keep _ _ hk (fun hm => hEK _ hm hk), keep _ _ hr (fun hm => ?_)⟩
      have e := hER _ hm hr
      have := (corner_fin (!w) m.to hto).1.mpr e.symm
      simp only [cornerA'] at h3; rw [h3] at this; cases this
  intro c
  by_cases hc : c = w
  · exact own c hc trivial
  · exact other c (by cases c <;> cases w <;> simp_all) trivial

end Magog.MM
