import Magog.Lemmas.EvalBound
import Magog.Spec.MateM

/-! Lemmas for C05, part 2: mate scores of the plain minimax value `Spec.Minimax.V` are exact with respect to
    forced mates on the model's own game tree (`Spec.MateM.winsInM` / `losesInM`).

    Scores: with `L = Gen.LostScore`, a node at depth `d` whose side to move is mated in `n` plies has value
    `L + d + n`; one that mates in `n` plies has value `−(L + d + n)`.

    The full-width part has `rem` plies; below it the quiescence value `QV` still recognises (a) a checkmated
    leaf (stand-pat = mate score) and (b) a mate delivered by a tactical move at the leaf. Hence `V` with `rem`
    plies can show mates of length up to `rem + 1`; within `rem` the detection is complete, at `rem + 1` it is
    sound only (a quiet mating move at the horizon is not seen). -/

namespace Magog.Lemmas.MateValue
open Magog Magog.Model Magog.Spec.Minimax Magog.Spec.MateM Magog.Lemmas.AlphaBeta Magog.Lemmas.EvalBound

/-! ### hypotheses -/

/-- the conclusion of `EvalBound.evaluate_class` on a set of positions: the full evaluation returns the mate
    score of the depth exactly when `isCheckMate`, and otherwise a value within `evalB` -/
def EvalBoundOn (blend : Blend) (G : Position → Prop) : Prop :=
  ∀ p, G p → ∀ (d x : Int), evaluate blend p d = .ok x →
    (isCheckMate p = .ok true ∧ x = Gen.LostScore + d) ∨ (isCheckMate p = .ok false ∧ x.natAbs ≤ evalB)

theorem evalBoundOn_of_inv {blend : Blend} {G : Position → Prop} (hG : ∀ p, G p → Inv p)
    (hb : BlendBounded blend pstMaxAbs) : EvalBoundOn blend G :=
  fun p hp _ _ h => evaluate_class (hG p hp) hb h

/-- the link between the three move loops the search uses (full generator, tactical generator, counter),
    on a set of positions: the full generator runs, the counter counts its list, the tactical generator lists
    its tactical-flagged moves. `count` and `tact` are C06's `countMoves_eq_length` / `tactical_is_filter`
    (`genLink_of_countOk`); `gen` is "the generator does not panic on these positions". -/
structure GenLink (G : Position → Prop) : Prop where
  gen : ∀ p, G p → ∃ ms, generateMoves Killers.empty p = .ok ms
  count : ∀ p ms n, G p → generateMoves Killers.empty p = .ok ms → countMoves p = .ok n → n = ms.length
  tact : ∀ p ms ts, G p → generateMoves Killers.empty p = .ok ms → generateTacticalMoves p = .ok ts →
    ts.map (·.mov) = (ms.filter (·.tactical)).map (·.mov)

theorem genLink_of_countOk {G : Position → Prop}
    (hgen : ∀ p, G p → ∃ ms, generateMoves Killers.empty p = .ok ms)
    (hc : ∀ p, G p → Count.CountOk p) (hcells : ∀ p, G p → Count.CellsOk p) : GenLink G where
  gen := hgen
  count := fun p _ _ hp hf hn =>
    let c := hc p hp
    Count.countMoves_length c.size c.ep c.pawns c.capture c.king c.castle hf hn
  tact := fun p _ _ hp hf ht => Count.generate_tactical_rel (hcells p hp) hf ht

/-! ### list loops -/

theorem anyM'_spec {α} (f : α → M Bool) (l : List α) (h : ∀ x ∈ l, ∃ b, f x = .ok b) :
    ∃ b, anyM' f l = .ok b ∧ (b = true ↔ ∃ x ∈ l, f x = .ok true) := by
  induction l with
  | nil => exact ⟨false, rfl, by simp⟩
  | cons x xs ih =>
    obtain ⟨b, hb⟩ := h x (by simp)
    obtain ⟨b', hb', hiff⟩ := ih (fun y hy => h y (by simp [hy]))
    cases b with
    | true =>
      refine ⟨true, ?_, ?_⟩
      · simp only [anyM', hb, bind, Except.bind, if_true]; rfl
      · simp only [true_iff]; exact ⟨x, by simp, hb⟩
    | false =>
      refine ⟨b', ?_, ?_⟩
      · simp only [anyM', hb, bind, Except.bind, Bool.false_eq_true, if_false]; exact hb'
      · rw [hiff]
        constructor
        · rintro ⟨y, hy, hfy⟩; exact ⟨y, by simp [hy], hfy⟩
        · rintro ⟨y, hy, hfy⟩
          rcases List.mem_cons.mp hy with rfl | hy
          · rw [hb] at hfy; cases hfy
          · exact ⟨y, hy, hfy⟩

theorem anyM'_false {α} (f : α → M Bool) (l : List α) (h : anyM' f l = .ok false) :
    ∀ x ∈ l, f x = .ok false := by
  induction l with
  | nil => intro x hx; cases hx
  | cons x xs ih =>
    simp only [anyM', bind_ok] at h
    obtain ⟨b, hb, h⟩ := h
    cases b with
    | true => simp only [if_true, pure_ok] at h; cases h
    | false =>
      simp only [Bool.false_eq_true, if_false] at h
      intro y hy
      rcases List.mem_cons.mp hy with rfl | hy
      · exact hb
      · exact ih h y hy

theorem allM'_spec {α} (f : α → M Bool) (l : List α) (h : ∀ x ∈ l, ∃ b, f x = .ok b) :
    ∃ b, allM' f l = .ok b ∧ (b = true ↔ ∀ x ∈ l, f x = .ok true) := by
  induction l with
  | nil => exact ⟨true, rfl, by simp⟩
  | cons x xs ih =>
    obtain ⟨b, hb⟩ := h x (by simp)
    obtain ⟨b', hb', hiff⟩ := ih (fun y hy => h y (by simp [hy]))
    cases b with
    | false =>
      refine ⟨false, ?_, ?_⟩
      · simp only [allM', hb, bind, Except.bind, Bool.false_eq_true, if_false]; rfl
      · simp only [Bool.false_eq_true, false_iff]
        intro hall
        have := hall x (by simp)
        rw [hb] at this; cases this
    | true =>
      refine ⟨b', ?_, ?_⟩
      · simp only [allM', hb, bind, Except.bind, if_true]; exact hb'
      · rw [hiff]
        constructor
        · intro hall y hy
          rcases List.mem_cons.mp hy with rfl | hy
          · exact hb
          · exact hall y hy
        · intro hall y hy; exact hall y (by simp [hy])

theorem allM'_false {α} (f : α → M Bool) (l : List α) (h : allM' f l = .ok false) :
    ∃ x ∈ l, f x = .ok false := by
  induction l with
  | nil => simp only [allM', pure_ok] at h; cases h
  | cons x xs ih =>
    simp only [allM', bind_ok] at h
    obtain ⟨b, hb, h⟩ := h
    cases b with
    | false => exact ⟨x, by simp, hb⟩
    | true =>
      simp only [if_true] at h
      obtain ⟨y, hy, hfy⟩ := ih h
      exact ⟨y, by simp [hy], hfy⟩

theorem foldMax_all (cv : Move → M Int) (l : List Move) :
    ∀ acc w, foldMax cv l acc = .ok w → acc ≤ w ∧ ∀ m ∈ l, ∃ v, cv m = .ok v ∧ v ≤ w := by
  induction l with
  | nil => intro acc w h; rw [foldMax_nil_ok] at h; subst h; exact ⟨Int.le_refl _, fun m hm => by cases hm⟩
  | cons m l ih =>
    intro acc w h
    rw [foldMax_cons_ok] at h
    obtain ⟨v, hv, h⟩ := h
    obtain ⟨h1, h2⟩ := ih _ _ h
    refine ⟨by omega, fun m' hm' => ?_⟩
    rcases List.mem_cons.mp hm' with rfl | hm'
    · exact ⟨v, hv, by omega⟩
    · exact h2 m' hm'

theorem foldMax_attain (cv : Move → M Int) (l : List Move) :
    ∀ acc w, foldMax cv l acc = .ok w → w = acc ∨ ∃ m ∈ l, cv m = .ok w := by
  induction l with
  | nil => intro acc w h; rw [foldMax_nil_ok] at h; exact .inl h.symm
  | cons m l ih =>
    intro acc w h
    rw [foldMax_cons_ok] at h
    obtain ⟨v, hv, h⟩ := h
    rcases ih _ _ h with h1 | ⟨m', hm', h1⟩
    · by_cases hc : acc ≤ v
      · refine .inr ⟨m, by simp, ?_⟩
        have : w = v := by omega
        rw [this]; exact hv
      · exact .inl (by omega)
    · exact .inr ⟨m', by simp [hm'], h1⟩

/-! ### the leaf: `isCheckMate` against `matedM` -/

theorem isCheckMate_true {p : Position} (h : isCheckMate p = .ok true) :
    isCurrentKingUnderCheck p = .ok true ∧ countMoves p = .ok 0 := by
  unfold isCheckMate at h
  simp only [bind_ok] at h
  obtain ⟨chk, hchk, h⟩ := h
  cases chk with
  | false => simp only [Model.andM, Bool.false_eq_true, if_false, pure_ok] at h
  | true =>
    simp only [Model.andM, if_true, bind_ok, pure_ok] at h
    obtain ⟨n, hn, h⟩ := h
    simp only [beq_iff_eq] at h
    subst h
    exact ⟨hchk, hn⟩

theorem isCheckMate_false {p : Position} (h : isCheckMate p = .ok false) :
    isCurrentKingUnderCheck p = .ok false ∨
    (isCurrentKingUnderCheck p = .ok true ∧ ∃ n, countMoves p = .ok n ∧ n ≠ 0) := by
  unfold isCheckMate at h
  simp only [bind_ok] at h
  obtain ⟨chk, hchk, h⟩ := h
  cases chk with
  | false => exact .inl hchk
  | true =>
    simp only [Model.andM, if_true, bind_ok, pure_ok] at h
    obtain ⟨n, hn, h⟩ := h
    simp only [beq_eq_false_iff_ne, ne_eq] at h
    exact .inr ⟨hchk, n, hn, h⟩

/-- the quiescence node's mate test (`isCheckMate`: in check and the counter says 0) agrees with the
    full-width node's (`matedM`: the generator's list is empty and in check) -/
theorem matedM_of_isCheckMate {G : Position → Prop} (hl : GenLink G) {p : Position} (hp : G p) {b : Bool}
    (h : isCheckMate p = .ok b) : matedM p = .ok b := by
  obtain ⟨ms, hms⟩ := hl.gen p hp
  unfold matedM
  simp only [hms, bind, Except.bind]
  cases b with
  | true =>
    obtain ⟨hchk, hn⟩ := isCheckMate_true h
    have := hl.count p ms 0 hp hms hn
    have hnil : ms = [] := List.length_eq_zero_iff.mp this.symm
    subst hnil
    simpa using hchk
  | false =>
    rcases isCheckMate_false h with hchk | ⟨hchk, n, hn, hne⟩
    · cases hms' : ms.isEmpty
      · rfl
      · simpa using hchk
    · have := hl.count p ms n hp hms hn
      have : ms.isEmpty = false := by
        cases ms with
        | nil => simp at this; omega
        | cons _ _ => rfl
      simp only [this]; rfl

theorem mate_no_tactical {G : Position → Prop} (hl : GenLink G) {p : Position} (hp : G p)
    (h : isCheckMate p = .ok true) {ts : List RMove} (hts : generateTacticalMoves p = .ok ts) :
    ts.map (·.mov) = [] := by
  obtain ⟨ms, hms⟩ := hl.gen p hp
  obtain ⟨_, hn⟩ := isCheckMate_true h
  have := hl.count p ms 0 hp hms hn
  have hnil : ms = [] := List.length_eq_zero_iff.mp this.symm
  subst hnil
  have := hl.tact p [] ts hp hms hts
  simpa using this

theorem childM_eq {p : Position} {m : Move} {q : Position} (f : Position → M Bool)
    (h : makeMove p m = .ok (q, true)) : childM p m f = f q := by
  unfold childM
  simp only [h, bind, Except.bind, Bool.not_true, Bool.false_eq_true, if_false]

/-! ### quiescence -/

/-- the three kinds of quiescence values: the leaf is checkmated (value = mate score of the depth), or the value
    is an evaluation-band score, or a tactical move mates at once -/
def QClass (p : Position) (d : Nat) (w : Int) : Prop :=
  (isCheckMate p = .ok true ∧ w = Gen.LostScore + d) ∨
  (isCheckMate p = .ok false ∧ w.natAbs ≤ evalB) ∨
  (isCheckMate p = .ok false ∧ w = -(Gen.LostScore + d + 1) ∧
    ∃ ts m q, generateTacticalMoves p = .ok ts ∧ m ∈ ts.map (·.mov) ∧ makeMove p m = .ok (q, true) ∧
      isCheckMate q = .ok true)

theorem QV_class (blend : Blend) (G : Position → Prop) (hcl : Closed G) (hev : EvalBoundOn blend G)
    (hl : GenLink G) (D : Nat) (hD : Gen.LostScore + (D : Int) < -(evalB : Int)) (fuel : Nat) :
    ∀ (d : Nat) (p : Position) (w : Int), G p → d + fuel + 1 ≤ D → QV blend fuel p d = .ok w → QClass p d w := by
  induction fuel with
  | zero => intro d p w _ _ h; simp only [QV, throw_ok] at h
  | succ fuel ih =>
    intro d p w hp hdD h
    unfold QV at h
    simp only [bind_ok] at h
    obtain ⟨e, he, ts, hts, h⟩ := h
    rcases hev p hp d e he with ⟨hm, hev⟩ | ⟨hm, hev⟩
    · -- checkmated: no tactical moves
      rw [mate_no_tactical hl hp hm hts, foldMax_nil_ok] at h
      subst h
      exact .inl ⟨hm, hev⟩
    · obtain ⟨hge, _⟩ := foldMax_all _ _ _ _ h
      rcases foldMax_attain _ _ _ _ h with hw | ⟨m, hmem, hw⟩
      · subst hw; exact .inr (.inl ⟨hm, hev⟩)
      · rw [childVal_ok] at hw
        obtain ⟨q, b, x, hmk, hb, hx, hwx⟩ := hw
        subst hb
        have hq : G q := hcl p m q true hp (.inr ⟨ts, hts, hmem⟩) hmk
        rcases ih (d + 1) q x hq (by omega) hx with ⟨hqm, hxv⟩ | ⟨_, hxv⟩ | ⟨_, hxv, _⟩
        · refine .inr (.inr ⟨hm, ?_, ts, m, q, hts, hmem, hmk, hqm⟩)
          rw [hwx, hxv]; push_cast; omega
        · exact .inr (.inl ⟨hm, by omega⟩)
        · exfalso
          push_cast at hxv
          omega

/-! ### the full-width part -/

/-- what the value `w` of `V … rem p d` says about forced mates from `p` on the model tree -/
structure MateSpec (p : Position) (d rem : Nat) (w : Int) : Prop where
  /-- the value is a "mated in `n`" score with `n ≤ rem + 1`, an evaluation-band score, or a "mates in `n`"
      score with `1 ≤ n ≤ rem + 1` -/
  range : (∃ n, n ≤ rem + 1 ∧ w = Gen.LostScore + d + n) ∨ w.natAbs ≤ evalB ∨
    (∃ n, 1 ≤ n ∧ n ≤ rem + 1 ∧ w = -(Gen.LostScore + d + n))
  /-- within the full-width horizon: mated within `n` plies ⇔ the value is at most the "mated in `n`" score -/
  loses : ∀ n, n ≤ rem → ∃ b, losesInM n p = .ok b ∧ (b = true ↔ w ≤ Gen.LostScore + d + n)
  /-- within the full-width horizon: mates within `n` plies ⇔ the value is at least the "mates in `n`" score -/
  wins : ∀ n, n ≤ rem → ∃ b, winsInM n p = .ok b ∧ (b = true ↔ -(Gen.LostScore + d + n) ≤ w)
  /-- one ply beyond (mates seen by quiescence): soundness only -/
  losesNext : w ≤ Gen.LostScore + d + (rem + 1 : Nat) → ∀ b, losesInM (rem + 1) p = .ok b → b = true
  winsNext : -(Gen.LostScore + d + (rem + 1 : Nat)) ≤ w → ∀ b, winsInM (rem + 1) p = .ok b → b = true

theorem mateSpec_leaf {G : Position → Prop} (hcl : Closed G) (hl : GenLink G) {D : Nat}
    (hD : Gen.LostScore + (D : Int) < -(evalB : Int)) {p : Position} (hp : G p) {d : Nat} (hdD : d + 1 ≤ D)
    {w : Int} (hc : QClass p d w) : MateSpec p d 0 w := by
  have hmated : ∀ b, isCheckMate p = .ok b → losesInM 0 p = .ok b := fun b hb => by
    rw [losesInM]; exact matedM_of_isCheckMate hl hp hb
  have hw0 : winsInM 0 p = .ok false := by rw [winsInM]; rfl
  rcases hc with ⟨hm, hw⟩ | ⟨hm, hw⟩ | ⟨hm, hw, ts, m, q, hts, hmem, hmk, hqm⟩
  · refine ⟨.inl ⟨0, by omega, by omega⟩, ?_, ?_, ?_, ?_⟩
    · intro n hn
      have : n = 0 := by omega
      subst this
      exact ⟨true, hmated _ hm, by simp only [true_iff]; omega⟩
    · intro n hn
      have : n = 0 := by omega
      subst this
      exact ⟨false, hw0, by simp only [Bool.false_eq_true, false_iff]; omega⟩
    · intro _ b hb
      rw [losesInM] at hb
      simp only [matedM_of_isCheckMate hl hp hm, bind, Except.bind, if_true, pure_ok] at hb
      exact hb.symm
    · intro h; omega
  · refine ⟨.inr (.inl hw), ?_, ?_, ?_, ?_⟩
    · intro n hn
      have : n = 0 := by omega
      subst this
      exact ⟨false, hmated _ hm, by simp only [Bool.false_eq_true, false_iff]; omega⟩
    · intro n hn
      have : n = 0 := by omega
      subst this
      exact ⟨false, hw0, by simp only [Bool.false_eq_true, false_iff]; omega⟩
    · intro h; omega
    · intro h; omega
  · refine ⟨.inr (.inr ⟨1, by omega, by omega, by omega⟩), ?_, ?_, ?_, ?_⟩
    · intro n hn
      have : n = 0 := by omega
      subst this
      exact ⟨false, hmated _ hm, by simp only [Bool.false_eq_true, false_iff]; omega⟩
    · intro n hn
      have : n = 0 := by omega
      subst this
      exact ⟨false, hw0, by simp only [Bool.false_eq_true, false_iff]; omega⟩
    · intro h; omega
    · intro _ b hb
      cases b with
      | true => rfl
      | false =>
        exfalso
        rw [winsInM] at hb
        simp only [bind_ok] at hb
        obtain ⟨ms, hms, hb⟩ := hb
        have hall := anyM'_false _ _ hb
        have hmem' : m ∈ (ms.filter (·.tactical)).map (·.mov) := by
          rw [← hl.tact p ms ts hp hms hts]; exact hmem
        obtain ⟨rm, hrm, hrmm⟩ := List.mem_map.mp hmem'
        have hrm' : rm ∈ ms := (List.mem_filter.mp hrm).1
        have hq : G q := hcl p m q true hp (.inr ⟨ts, hts, hmem⟩) hmk
        have := hall rm hrm'
        simp only [hrmm] at this
        rw [childM_eq _ hmk, losesInM, matedM_of_isCheckMate hl hq hqm] at this
        cases this

/-- the children of an interior node: every generated move leads (legally) to a successor whose value is known,
    the node's value is the maximum of the negated successor values and is attained -/
structure Kids (blend : Blend) (qfuel rem : Nat) (p : Position) (d : Nat) (ms : List RMove) (w : Int) : Prop where
  all : ∀ rm ∈ ms, ∃ q x, makeMove p rm.mov = .ok (q, true) ∧ V blend qfuel rem q (d + 1) = .ok x ∧ -x ≤ w
  att : ∃ rm ∈ ms, ∃ q x, makeMove p rm.mov = .ok (q, true) ∧ V blend qfuel rem q (d + 1) = .ok x ∧ w = -x

theorem V_succ_cases {blend : Blend} {qfuel rem : Nat} {p : Position} {d : Nat} {w : Int}
    (h : V blend qfuel (rem + 1) p d = .ok w) :
    ∃ ms, generateMoves Killers.empty p = .ok ms ∧
      ((ms = [] ∧ terminalNodeScore p d = .ok w) ∨ (ms ≠ [] ∧ Kids blend qfuel rem p d ms w)) := by
  unfold V at h
  simp only [bind_ok] at h
  obtain ⟨ms, hms, h⟩ := h
  refine ⟨ms, hms, ?_⟩
  cases hm : ms.map (·.mov) with
  | nil =>
    rw [hm] at h
    exact .inl ⟨List.map_eq_nil_iff.mp hm, h⟩
  | cons m rest =>
    rw [hm] at h
    simp only [bind_ok] at h
    obtain ⟨v0, hv0, h⟩ := h
    refine .inr ⟨fun hnil => (by rw [hnil] at hm; cases hm), ?_, ?_⟩
    · obtain ⟨h0, hall⟩ := foldMax_all _ _ _ _ h
      intro rm hrm
      have hmem : rm.mov ∈ m :: rest := by rw [← hm]; exact List.mem_map.mpr ⟨rm, hrm, rfl⟩
      have : ∃ v, childVal (fun q => V blend qfuel rem q (d + 1)) p rm.mov = .ok v ∧ v ≤ w := by
        rcases List.mem_cons.mp hmem with he | hr
        · rw [he]; exact ⟨v0, hv0, h0⟩
        · exact hall _ hr
      obtain ⟨v, hv, hvw⟩ := this
      rw [childVal_ok] at hv
      obtain ⟨q, b, x, hmk, hb, hx, hvx⟩ := hv
      subst hb
      exact ⟨q, x, hmk, hx, by omega⟩
    · have : ∃ m' ∈ m :: rest, childVal (fun q => V blend qfuel rem q (d + 1)) p m' = .ok w := by
        rcases foldMax_attain _ _ _ _ h with hw | ⟨m', hm', hw⟩
        · exact ⟨m, by simp, by rw [hw]; exact hv0⟩
        · exact ⟨m', by simp [hm'], hw⟩
      obtain ⟨m', hm', hw⟩ := this
      rw [← hm] at hm'
      obtain ⟨rm, hrm, rfl⟩ := List.mem_map.mp hm'
      rw [childVal_ok] at hw
      obtain ⟨q, b, x, hmk, hb, hx, hvx⟩ := hw
      subst hb
      exact ⟨rm, hrm, q, x, hmk, hx, hvx⟩

theorem matedM_of_moves {p : Position} {ms : List RMove} (hms : generateMoves Killers.empty p = .ok ms) :
    matedM p = if ms.isEmpty then isCurrentKingUnderCheck p else .ok false := by
  unfold matedM
  simp only [hms, bind, Except.bind]
  rfl

theorem losesInM_succ_of_moves {p : Position} {ms : List RMove} (n : Nat)
    (hms : generateMoves Killers.empty p = .ok ms) (hne : ms ≠ []) :
    losesInM (n + 1) p = allM' (fun rm => childM p rm.mov (winsInM n)) ms := by
  have he : ms.isEmpty = false := by cases ms with | nil => exact absurd rfl hne | cons _ _ => rfl
  rw [losesInM, matedM_of_moves hms]
  simp only [he, Bool.false_eq_true, if_false, bind, Except.bind, hms]

theorem winsInM_succ_of_moves {p : Position} {ms : List RMove} (n : Nat)
    (hms : generateMoves Killers.empty p = .ok ms) :
    winsInM (n + 1) p = anyM' (fun rm => childM p rm.mov (losesInM n)) ms := by
  rw [winsInM]
  simp only [hms, bind, Except.bind]

/-- a terminal interior node (no generated move) -/
theorem mateSpec_terminal {D : Nat} (hD : Gen.LostScore + (D : Int) < -(evalB : Int)) {p : Position} {d rem : Nat}
    (hdD : d + rem + 1 ≤ D) {w : Int} (hms : generateMoves Killers.empty p = .ok [])
    (h : terminalNodeScore p d = .ok w) : MateSpec p d rem w := by
  have hmat := matedM_of_moves hms
  simp only [List.isEmpty_nil, if_true] at hmat
  have hwins : ∀ n, winsInM n p = .ok false := by
    intro n
    cases n with
    | zero => rw [winsInM]; rfl
    | succ n => rw [winsInM_succ_of_moves n hms]; rfl
  rcases terminalNodeScore_cases h with ⟨hchk, hw⟩ | ⟨hchk, hw⟩
  · -- checkmate
    have hloses : ∀ n, losesInM n p = .ok true := by
      intro n
      cases n with
      | zero => rw [losesInM, hmat, hchk]
      | succ n => rw [losesInM, hmat, hchk]; rfl
    push_cast at hw
    refine ⟨.inl ⟨0, by omega, by omega⟩, ?_, ?_, ?_, ?_⟩
    · intro n _; exact ⟨true, hloses n, by simp only [true_iff]; omega⟩
    · intro n _; exact ⟨false, hwins n, by simp only [Bool.false_eq_true, false_iff]; omega⟩
    · intro _ b hb; rw [hloses] at hb; cases hb; rfl
    · intro h; exfalso; push_cast at h; omega
  · -- stalemate
    simp only [Gen.DrawScore] at hw
    have hloses : ∀ n, losesInM n p = .ok false := by
      intro n
      cases n with
      | zero => rw [losesInM, hmat, hchk]
      | succ n =>
        rw [losesInM, hmat, hchk]
        simp only [bind, Except.bind, Bool.false_eq_true, if_false, hms, List.isEmpty_nil, if_true]
        rfl
    refine ⟨.inr (.inl (by omega)), ?_, ?_, ?_, ?_⟩
    · intro n _; exact ⟨false, hloses n, by simp only [Bool.false_eq_true, false_iff]; omega⟩
    · intro n _; exact ⟨false, hwins n, by simp only [Bool.false_eq_true, false_iff]; omega⟩
    · intro h; exfalso; push_cast at h; omega
    · intro h; exfalso; push_cast at h; omega

/-- an interior node with moves, from the specification of its children -/
theorem mateSpec_step {blend : Blend} {qfuel : Nat} {D : Nat}
    (hD : Gen.LostScore + (D : Int) < -(evalB : Int)) {p : Position} {d rem : Nat} (hdD : d + rem + 2 ≤ D)
    {w : Int} {ms : List RMove} (hms : generateMoves Killers.empty p = .ok ms) (hne : ms ≠ [])
    (hk : Kids blend qfuel rem p d ms w)
    (ih : ∀ rm ∈ ms, ∀ q x, makeMove p rm.mov = .ok (q, true) → V blend qfuel rem q (d + 1) = .ok x →
      MateSpec q (d + 1) rem x) : MateSpec p d (rem + 1) w := by
  obtain ⟨rm0, hrm0, q0, x0, hmk0, hx0, hw0⟩ := hk.att
  have s0 := ih rm0 hrm0 q0 x0 hmk0 hx0
  have hrange : (∃ n, n ≤ rem + 1 + 1 ∧ w = Gen.LostScore + d + n) ∨ w.natAbs ≤ evalB ∨
      (∃ n, 1 ≤ n ∧ n ≤ rem + 1 + 1 ∧ w = -(Gen.LostScore + d + n)) := by
    rcases s0.range with ⟨n, hn, hx⟩ | hx | ⟨n, hn1, hn, hx⟩
    · exact .inr (.inr ⟨n + 1, by omega, by omega, by push_cast at hx ⊢; omega⟩)
    · exact .inr (.inl (by omega))
    · exact .inl ⟨n + 1, by omega, by push_cast at hx ⊢; omega⟩
  have hlo : Gen.LostScore + d + 1 ≤ w ∧ w ≤ -(Gen.LostScore + d + 1) := by
    rcases hrange with ⟨n, hn, hx⟩ | hx | ⟨n, hn1, hn, hx⟩
    · -- a "mated in n" value at an interior node with moves has n ≥ 2
      rcases s0.range with ⟨n', hn', hx'⟩ | hx' | ⟨n', hn1', hn', hx'⟩
      · push_cast at hx'; omega
      · omega
      · push_cast at hx'; omega
    · omega
    · omega
  refine ⟨hrange, ?_, ?_, ?_, ?_⟩
  · -- loses, n ≤ rem + 1
    intro n hn
    cases n with
    | zero =>
      refine ⟨false, ?_, by simp only [Bool.false_eq_true, false_iff]; omega⟩
      have he : ms.isEmpty = false := by cases ms with | nil => exact absurd rfl hne | cons _ _ => rfl
      rw [losesInM, matedM_of_moves hms, he]; rfl
    | succ k =>
      rw [losesInM_succ_of_moves k hms hne]
      have hdef : ∀ rm ∈ ms, ∃ b, childM p rm.mov (winsInM k) = .ok b := by
        intro rm hrm
        obtain ⟨q, x, hmk, hx, _⟩ := hk.all rm hrm
        obtain ⟨b, hb, _⟩ := (ih rm hrm q x hmk hx).wins k (by omega)
        exact ⟨b, by rw [childM_eq _ hmk]; exact hb⟩
      obtain ⟨b, hb, hiff⟩ := allM'_spec _ ms hdef
      refine ⟨b, hb, ?_⟩
      rw [hiff]
      constructor
      · intro hall
        have := hall rm0 hrm0
        rw [childM_eq _ hmk0] at this
        obtain ⟨b', hb', hiff'⟩ := s0.wins k (by omega)
        rw [this] at hb'
        cases hb'
        have := hiff'.mp rfl
        push_cast at this ⊢
        omega
      · intro hle rm hrm
        obtain ⟨q, x, hmk, hx, hxw⟩ := hk.all rm hrm
        obtain ⟨b', hb', hiff'⟩ := (ih rm hrm q x hmk hx).wins k (by omega)
        rw [childM_eq _ hmk, hb']
        congr 1
        apply hiff'.mpr
        push_cast at hle ⊢
        omega
  · -- wins, n ≤ rem + 1
    intro n hn
    cases n with
    | zero =>
      exact ⟨false, by rw [winsInM]; rfl, by simp only [Bool.false_eq_true, false_iff]; omega⟩
    | succ k =>
      rw [winsInM_succ_of_moves k hms]
      have hdef : ∀ rm ∈ ms, ∃ b, childM p rm.mov (losesInM k) = .ok b := by
        intro rm hrm
        obtain ⟨q, x, hmk, hx, _⟩ := hk.all rm hrm
        obtain ⟨b, hb, _⟩ := (ih rm hrm q x hmk hx).loses k (by omega)
        exact ⟨b, by rw [childM_eq _ hmk]; exact hb⟩
      obtain ⟨b, hb, hiff⟩ := anyM'_spec _ ms hdef
      refine ⟨b, hb, ?_⟩
      rw [hiff]
      constructor
      · rintro ⟨rm, hrm, hrmt⟩
        obtain ⟨q, x, hmk, hx, hxw⟩ := hk.all rm hrm
        obtain ⟨b', hb', hiff'⟩ := (ih rm hrm q x hmk hx).loses k (by omega)
        rw [childM_eq _ hmk, hb'] at hrmt
        cases hrmt
        have := hiff'.mp rfl
        push_cast at this ⊢
        omega
      · intro hle
        refine ⟨rm0, hrm0, ?_⟩
        obtain ⟨b', hb', hiff'⟩ := s0.loses k (by omega)
        rw [childM_eq _ hmk0, hb']
        congr 1
        apply hiff'.mpr
        push_cast at hle ⊢
        omega
  · -- losesNext
    intro hle b hb
    cases b with
    | true => rfl
    | false =>
      exfalso
      rw [losesInM_succ_of_moves (rem + 1) hms hne] at hb
      obtain ⟨rm, hrm, hf⟩ := allM'_false _ _ hb
      obtain ⟨q, x, hmk, hx, hxw⟩ := hk.all rm hrm
      rw [childM_eq _ hmk] at hf
      have := (ih rm hrm q x hmk hx).winsNext (by push_cast at hle ⊢; omega) false hf
      cases this
  · -- winsNext
    intro hle b hb
    cases b with
    | true => rfl
    | false =>
      exfalso
      rw [winsInM_succ_of_moves (rem + 1) hms] at hb
      have hf := anyM'_false _ _ hb rm0 hrm0
      rw [childM_eq _ hmk0] at hf
      have := s0.losesNext (by push_cast at hle ⊢; omega) false hf
      cases this

/-- **mate exactness of the plain minimax value** -/
theorem V_mateSpec (blend : Blend) (qfuel : Nat) (G : Position → Prop) (hcl : Closed G)
    (hev : EvalBoundOn blend G) (hl : GenLink G) (D : Nat) (hD : Gen.LostScore + (D : Int) < -(evalB : Int))
    (rem : Nat) :
    ∀ (d : Nat) (p : Position) (w : Int), G p → d + rem + qfuel + 1 ≤ D → V blend qfuel rem p d = .ok w →
      MateSpec p d rem w := by
  induction rem with
  | zero =>
    intro d p w hp hdD h
    unfold V at h
    exact mateSpec_leaf hcl hl hD hp (by omega) (QV_class blend G hcl hev hl D hD qfuel d p w hp (by omega) h)
  | succ rem ih =>
    intro d p w hp hdD h
    obtain ⟨ms, hms, ⟨hnil, hterm⟩ | ⟨hne, hk⟩⟩ := V_succ_cases h
    · subst hnil
      exact mateSpec_terminal hD (by omega) hms hterm
    · refine mateSpec_step hD (by omega) hms hne hk ?_
      intro rm hrm q x hmk hx
      have hq : G q := hcl p rm.mov q true hp (.inl ⟨_, ms, hms, List.mem_map.mpr ⟨rm, hrm, rfl⟩⟩) hmk
      exact ih (d + 1) q x hq (by omega) hx

/-! ### the spec functions are defined wherever the generator and the check test do not panic -/

/-- a generated move is legal: `makeMove` runs and reports a safe king -/
theorem makeMove_of_generated {kt : Killers} {p : Position} {ms : List RMove}
    (hms : generateMoves kt p = .ok ms) {rm : RMove} (hrm : rm ∈ ms) : ∃ q, makeMove p rm.mov = .ok (q, true) := by
  simp only [generateMoves, bind_ok] at hms
  obtain ⟨ps, _, hf⟩ := hms
  obtain ⟨_, rfl⟩ := Count.legalFilter_ok hf
  have hl := (List.mem_filter.mp hrm).2
  have := Count.okTrue_eq_true hl
  unfold isLegal at this
  simp only [bind_ok, pure_ok] at this
  obtain ⟨⟨q, b⟩, hmk, hb⟩ := this
  simp only at hb
  subst hb
  exact ⟨q, hmk⟩

theorem definedM {G : Position → Prop} (hcl : Closed G)
    (hgen : ∀ p, G p → ∃ ms, generateMoves Killers.empty p = .ok ms)
    (hchk : ∀ p, G p → ∃ c, isCurrentKingUnderCheck p = .ok c) (n : Nat) :
    ∀ p, G p → (∃ b, winsInM n p = .ok b) ∧ (∃ b, losesInM n p = .ok b) := by
  have hmated : ∀ p, G p → ∃ b, matedM p = .ok b := by
    intro p hp
    obtain ⟨ms, hms⟩ := hgen p hp
    rw [matedM_of_moves hms]
    split
    · exact hchk p hp
    · exact ⟨false, rfl⟩
  induction n with
  | zero =>
    intro p hp
    exact ⟨⟨false, by rw [winsInM]; rfl⟩, by rw [losesInM]; exact hmated p hp⟩
  | succ n ih =>
    intro p hp
    obtain ⟨ms, hms⟩ := hgen p hp
    have hkid : ∀ rm ∈ ms, ∃ q, makeMove p rm.mov = .ok (q, true) ∧ G q := by
      intro rm hrm
      obtain ⟨q, hmk⟩ := makeMove_of_generated hms hrm
      exact ⟨q, hmk, hcl p rm.mov q true hp (.inl ⟨_, ms, hms, List.mem_map.mpr ⟨rm, hrm, rfl⟩⟩) hmk⟩
    constructor
    · rw [winsInM_succ_of_moves n hms]
      obtain ⟨b, hb, _⟩ := anyM'_spec (fun rm => childM p rm.mov (losesInM n)) ms (fun rm hrm => by
        obtain ⟨q, hmk, hq⟩ := hkid rm hrm
        rw [childM_eq _ hmk]; exact (ih q hq).2)
      exact ⟨b, hb⟩
    · by_cases hne : ms = []
      · subst hne
        obtain ⟨b, hb⟩ := hmated p hp
        rw [losesInM, hb]
        cases b
        · simp only [bind, Except.bind, Bool.false_eq_true, if_false, hms, List.isEmpty_nil, if_true]
          exact ⟨false, rfl⟩
        · exact ⟨true, rfl⟩
      · rw [losesInM_succ_of_moves n hms hne]
        obtain ⟨b, hb, _⟩ := allM'_spec (fun rm => childM p rm.mov (winsInM n)) ms (fun rm hrm => by
          obtain ⟨q, hmk, hq⟩ := hkid rm hrm
          rw [childM_eq _ hmk]; exact (ih q hq).1)
        exact ⟨b, hb⟩

/-! ### soundness and completeness of mate scores -/

/-- the two mate bands and the evaluation band are disjoint from the `closeToMate` threshold's point of view -/
theorem closeToMate_iff_of_range {d rem D : Nat} {w : Int} (hD : Gen.LostScore + (D : Int) < -(Gen.ScoreCloseToMate : Int))
    (hdD : d + rem + 1 ≤ D)
    (hr : (∃ n, n ≤ rem + 1 ∧ w = Gen.LostScore + d + n) ∨ w.natAbs ≤ evalB ∨
      (∃ n, 1 ≤ n ∧ n ≤ rem + 1 ∧ w = -(Gen.LostScore + d + n))) :
    closeToMate w = true ↔ ¬ w.natAbs ≤ evalB := by
  have := evalB_lt
  unfold closeToMate
  simp only [gt_iff_lt, decide_eq_true_eq]
  rcases hr with ⟨n, hn, hw⟩ | hw | ⟨n, _, hn, hw⟩ <;> omega

/-- **soundness**: a mate-valued `V` is `±(Lost + depth + n)` for an `n ≤ rem + 1` such that a forced mate of
    exactly that length exists on the model tree -/
theorem V_mate_sound (blend : Blend) (qfuel : Nat) (G : Position → Prop) (hcl : Closed G)
    (hev : EvalBoundOn blend G) (hl : GenLink G) (hchk : ∀ p, G p → ∃ c, isCurrentKingUnderCheck p = .ok c)
    (D : Nat) (hD : Gen.LostScore + (D : Int) < -(Gen.ScoreCloseToMate : Int))
    (rem d : Nat) (p : Position) (w : Int) (hp : G p) (hdD : d + rem + qfuel + 1 ≤ D)
    (h : V blend qfuel rem p d = .ok w) (hmate : closeToMate w = true) :
    (∃ n, n ≤ rem + 1 ∧ w = Gen.LostScore + d + n ∧ losesInM n p = .ok true ∧
      ∀ k, k < n → losesInM k p = .ok false) ∨
    (∃ n, 1 ≤ n ∧ n ≤ rem + 1 ∧ w = -(Gen.LostScore + d + n) ∧ winsInM n p = .ok true ∧
      ∀ k, k < n → winsInM k p = .ok false) := by
  have hlt := evalB_lt
  have hD' : Gen.LostScore + (D : Int) < -(evalB : Int) := by omega
  have sp := V_mateSpec blend qfuel G hcl hev hl D hD' rem d p w hp hdD h
  have hnb := (closeToMate_iff_of_range hD (by omega) sp.range).mp hmate
  rcases sp.range with ⟨n, hn, hw⟩ | hw | ⟨n, hn1, hn, hw⟩
  · refine .inl ⟨n, hn, hw, ?_, ?_⟩
    · by_cases hnr : n ≤ rem
      · obtain ⟨b, hb, hiff⟩ := sp.loses n hnr
        rw [hb]; congr 1; exact hiff.mpr (by omega)
      · have hn' : n = rem + 1 := by omega
        subst hn'
        obtain ⟨b, hb⟩ := (definedM hcl hl.gen hchk (rem + 1) p hp).2
        rw [hb]; congr 1
        exact sp.losesNext (by omega) b hb
    · intro k hk
      obtain ⟨b, hb, hiff⟩ := sp.loses k (by omega)
      rw [hb]; congr 1
      cases b with
      | false => rfl
      | true => have := hiff.mp rfl; omega
  · exact absurd hw hnb
  · refine .inr ⟨n, hn1, hn, hw, ?_, ?_⟩
    · by_cases hnr : n ≤ rem
      · obtain ⟨b, hb, hiff⟩ := sp.wins n hnr
        rw [hb]; congr 1; exact hiff.mpr (by omega)
      · have hn' : n = rem + 1 := by omega
        subst hn'
        obtain ⟨b, hb⟩ := (definedM hcl hl.gen hchk (rem + 1) p hp).1
        rw [hb]; congr 1
        exact sp.winsNext (by omega) b hb
    · intro k hk
      obtain ⟨b, hb, hiff⟩ := sp.wins k (by omega)
      rw [hb]; congr 1
      cases b with
      | false => rfl
      | true => have := hiff.mp rfl; omega

/-- **completeness within the horizon**: the least `n ≤ rem` with a forced mate fixes the value -/
theorem V_mate_complete (blend : Blend) (qfuel : Nat) (G : Position → Prop) (hcl : Closed G)
    (hev : EvalBoundOn blend G) (hl : GenLink G) (D : Nat) (hD : Gen.LostScore + (D : Int) < -(evalB : Int))
    (rem d : Nat) (p : Position) (w : Int) (hp : G p) (hdD : d + rem + qfuel + 1 ≤ D)
    (h : V blend qfuel rem p d = .ok w) (n : Nat) (hn : n ≤ rem) :
    (losesInM n p = .ok true → (∀ k, k < n → losesInM k p = .ok false) → w = Gen.LostScore + d + n) ∧
    (winsInM n p = .ok true → (∀ k, k < n → winsInM k p = .ok false) → w = -(Gen.LostScore + d + n)) := by
  have sp := V_mateSpec blend qfuel G hcl hev hl D hD rem d p w hp hdD h
  constructor
  · intro ht hf
    obtain ⟨b, hb, hiff⟩ := sp.loses n hn
    rw [ht] at hb; cases hb
    have h1 := hiff.mp rfl
    cases n with
    | zero =>
      rcases sp.range with ⟨m, _, hw⟩ | hw | ⟨m, _, _, hw⟩ <;> omega
    | succ k =>
      obtain ⟨b', hb', hiff'⟩ := sp.loses k (by omega)
      rw [hf k (by omega)] at hb'; cases hb'
      have : ¬ w ≤ Gen.LostScore + d + k := fun hc => by cases hiff'.mpr hc
      push_cast at h1 ⊢
      omega
  · intro ht hf
    obtain ⟨b, hb, hiff⟩ := sp.wins n hn
    rw [ht] at hb; cases hb
    have h1 := hiff.mp rfl
    cases n with
    | zero => rw [winsInM] at ht; cases ht
    | succ k =>
      obtain ⟨b', hb', hiff'⟩ := sp.wins k (by omega)
      rw [hf k (by omega)] at hb'; cases hb'
      have : ¬ -(Gen.LostScore + d + k) ≤ w := fun hc => by cases hiff'.mpr hc
      push_cast at h1 ⊢
      omega

/-- `EvalBoundOn` gives C04's `EvalRange` -/
theorem evalRange_of_evalBoundOn {blend : Blend} {G : Position → Prop} (hev : EvalBoundOn blend G) (D : Nat)
    (hD : Gen.LostScore + (D : Int) ≤ -(evalB : Int)) : EvalRange blend G D := by
  intro p hp d hd hdD
  unfold InRange
  constructor
  · intro x hx
    rcases hev p hp d x hx with ⟨_, h⟩ | ⟨_, h⟩ <;> omega
  · intro x hx
    rcases terminalNodeScore_cases hx with ⟨_, h⟩ | ⟨_, h⟩
    · omega
    · simp only [Gen.DrawScore] at h
      omega

end Magog.Lemmas.MateValue
