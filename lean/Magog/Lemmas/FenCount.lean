import Magog.Lemmas.Fen

/-! Counting consequences of `FenInv` / `FenLists`: list lengths are board counts. -/

set_option linter.unusedSimpArgs false

namespace Magog.FenLemmas
open Magog Magog.Model Magog.FenSpec

theorem accepted_iff {r : M (Except FenError Position)} : accepted r = true ↔ ∃ p, r = .ok (.ok p) := by
  unfold accepted
  split
  · next p => simp
  · next hn =>
    simp only [Bool.false_eq_true, false_iff]
    rintro ⟨p, rfl⟩
    exact hn p rfl

theorem rejectedWith_iff {r : M (Except FenError Position)} {e : FenError} :
    rejectedWith r e = true ↔ r = .ok (.error e) := by
  unfold rejectedWith
  split
  · next e' => simp
  · next hn =>
    simp only [Bool.false_eq_true, false_iff]
    rintro rfl
    exact hn e rfl

theorem toList_eq_map (b : Array Nat) (hs : b.size = 128) :
    b.toList = (List.range 128).map (fun i => b.getD i 0) := by
  apply List.ext_getElem
  · simp [hs]
  · intro i h1 h2
    simp only [Array.length_toList] at h1
    simp [Array.getD_eq_getD_getElem?, h1]

theorem length_eq_countCodes {b : Array Nat} {l codes : List Nat} (hs : b.size = 128) (h0 : (0 : Nat) ∉ codes)
    (hN : l.Nodup) (hS : ListSound b l codes) (hC : ListComplete b l codes) : l.length = countCodes b codes := by
  have hperm : l.Perm ((List.range 128).filter (fun i => codes.contains (b.getD i 0))) := by
    refine (List.perm_ext_iff_of_nodup hN (List.filter_sublist.nodup List.nodup_range)).2 ?_
    intro i
    simp only [List.mem_filter, List.mem_range, List.contains_iff_mem]
    constructor
    · intro hi
      obtain ⟨h1, _, pc, hpc, hb⟩ := hS i hi
      exact ⟨h1, by rw [getD_of_getElem? hb]; exact hpc⟩
    · rintro ⟨_, hm⟩
      have hne : b.getD i 0 ≠ 0 := fun e => h0 (e ▸ hm)
      exact hC i _ (getElem?_of_getD rfl hne) hm
  rw [hperm.length_eq, countCodes, toList_eq_map b hs, List.filter_map, List.length_map]
  rfl

theorem countKings_eq_countCodes (b : Array Nat) (k : Nat) : countKings b k = countCodes b [k] := by
  unfold countKings countCodes
  congr 1
  apply List.filter_congr
  intro x _
  rw [Bool.eq_iff_iff]
  simp [List.contains_iff_mem]

theorem length_append_eq_countCodes {b : Array Nat} {l1 l2 c1 c2 : List Nat} (hs : b.size = 128)
    (h01 : (0 : Nat) ∉ c1) (h02 : (0 : Nat) ∉ c2) (hd : ∀ x, x ∈ c1 → x ∉ c2)
    (hN1 : l1.Nodup) (hS1 : ListSound b l1 c1) (hC1 : ListComplete b l1 c1)
    (hN2 : l2.Nodup) (hS2 : ListSound b l2 c2) (hC2 : ListComplete b l2 c2) :
    l1.length + l2.length = countCodes b (c1 ++ c2) := by
  rw [← List.length_append]
  apply length_eq_countCodes hs
  · simp [h01, h02]
  · refine List.nodup_append.2 ⟨hN1, hN2, ?_⟩
    intro a ha1 a' ha2 e
    subst e
    obtain ⟨_, _, pc1, hp1, hb1⟩ := hS1 a ha1
    obtain ⟨_, _, pc2, hp2, hb2⟩ := hS2 a ha2
    rw [hb1] at hb2
    simp only [Option.some.injEq] at hb2
    subst hb2
    exact hd _ hp1 hp2
  · intro sq hsq
    rcases List.mem_append.1 hsq with h | h
    · obtain ⟨a, b', pc, hp, hb⟩ := hS1 sq h
      exact ⟨a, b', pc, List.mem_append.2 (Or.inl hp), hb⟩
    · obtain ⟨a, b', pc, hp, hb⟩ := hS2 sq h
      exact ⟨a, b', pc, List.mem_append.2 (Or.inr hp), hb⟩
  · intro sq pc hb hp
    rcases List.mem_append.1 hp with h | h
    · exact List.mem_append.2 (Or.inl (hC1 sq pc hb h))
    · exact List.mem_append.2 (Or.inr (hC2 sq pc hb h))

/-- in an accepted position the list lengths are the board counts -/
theorem counts_of_inv {p : Position} (hI : FenInv p) (hL : FenLists p) :
    p.whitePawns.length = countCodes p.board [Gen.WPawn] ∧
    p.blackPawns.length = countCodes p.board [Gen.BPawn] ∧
    p.whitePieces.length = countCodes p.board whitePieceCodes ∧
    p.blackPieces.length = countCodes p.board blackPieceCodes ∧
    p.whitePawns.length + p.whitePieces.length = countCodes p.board (Gen.WPawn :: whitePieceCodes) ∧
    p.blackPawns.length + p.blackPieces.length = countCodes p.board (Gen.BPawn :: blackPieceCodes) := by
  obtain ⟨z1, z2, z3, z4, z5, z6⟩ := zero_not_codes
  refine ⟨?_, ?_, ?_, ?_, ?_, ?_⟩
  · exact length_eq_countCodes hI.size (by simpa using z1) hL.wpNodup hI.wpSound hL.wpComplete
  · exact length_eq_countCodes hI.size (by simpa using z2) hL.bpNodup hI.bpSound hL.bpComplete
  · exact length_eq_countCodes hI.size z5 hL.wpcNodup hI.wpcSound hL.wpcComplete
  · exact length_eq_countCodes hI.size z6 hL.bpcNodup hI.bpcSound hL.bpcComplete
  · exact length_append_eq_countCodes (c1 := [Gen.WPawn]) hI.size (by simpa using z1) z5 (by decide)
      hL.wpNodup hI.wpSound hL.wpComplete hL.wpcNodup hI.wpcSound hL.wpcComplete
  · exact length_append_eq_countCodes (c1 := [Gen.BPawn]) hI.size (by simpa using z2) z6 (by decide)
      hL.bpNodup hI.bpSound hL.bpComplete hL.bpcNodup hI.bpcSound hL.bpcComplete

end Magog.FenLemmas
