import Magog.Lemmas.FenPlace

/-! The placement step preserves the scan invariant `PInv`. -/

set_option linter.unusedSimpArgs false

namespace Magog.FenLemmas
open Magog Magog.Model Magog.FenSpec

theorem zero_not_codes : (0 : Nat) ≠ Gen.WPawn ∧ (0 : Nat) ≠ Gen.BPawn ∧ (0 : Nat) ≠ Gen.WKing ∧ (0 : Nat) ≠ Gen.BKing ∧
    (0 : Nat) ∉ whitePieceCodes ∧ (0 : Nat) ∉ blackPieceCodes := by decide

theorem PInv_place {K f : Nat} {p : Position} (h : PInv K f p) (hK : 1 ≤ K) (hK8 : K ≤ 8) (hf : f ≤ 7)
    (pc : Nat) (hc : pc ∈ codes12) (hroom : hasRoomFor p pc = true)
    (hback : (pc = Gen.WPawn ∨ pc = Gen.BPawn) → K ≠ 1 ∧ K ≠ 8) :
    PInv K (f + 1) (placePure p ((K - 1) * 16 + f) pc) := by
  obtain ⟨rwp, rwpc, rbp, rbpc⟩ := room_spec p pc hc hroom
  obtain ⟨z1, z2, z3, z4, z5, z6⟩ := zero_not_codes
  generalize hsq : (K - 1) * 16 + f = sq
  have hsq128 : sq < 128 := by omega
  have hsz : sq < p.board.size := by rw [h.size]; exact hsq128
  have hempty : p.board.getD sq 0 = 0 := by
    by_cases he : p.board.getD sq 0 = 0
    · exact he
    · have := h.region sq he; omega
  have hg : ∀ i, (placePure p sq pc).board.getD i 0 = if i = sq then pc else p.board.getD i 0 :=
    fun i => getD_set _ _ _ _ hsz
  have hwp := h.wp; have hbp := h.bp; have hwpc := h.wpc; have hbpc := h.bpc
  constructor
  · simp [placePure, h.size]
  · intro i; rw [hg]; split
    · intro _; omega
    · intro hi; have := h.region i hi; omega
  · intro i; rw [hg]; split
    · exact Or.inr hc
    · exact h.codes i
  · intro i; rw [hg]; simp only [placePure]
    by_cases hp : pc = Gen.WPawn <;> by_cases hi : i = sq <;> simp [hp, hi, hwp, hempty, z1]
  · intro i; rw [hg]; simp only [placePure]
    by_cases hp : pc = Gen.BPawn <;> by_cases hi : i = sq <;> simp [hp, hi, hbp, hempty, z2]
  · intro i; rw [hg]; simp only [placePure]
    by_cases hp : pc ∈ whitePieceCodes <;> by_cases hi : i = sq <;> simp [hp, hi, hwpc, hempty, z5]
  · intro i; rw [hg]; simp only [placePure]
    by_cases hp : pc ∈ blackPieceCodes <;> by_cases hi : i = sq <;> simp [hp, hi, hbpc, hempty, z6]
  · simp only [placePure]; split
    · refine List.nodup_append.2 ⟨h.wpN, by simp, ?_⟩
      intro a ha b hb; simp at hb; subst hb; intro e; subst e
      rw [hwp, hempty] at ha; exact z1 ha
    · exact h.wpN
  · simp only [placePure]; split
    · refine List.nodup_append.2 ⟨h.bpN, by simp, ?_⟩
      intro a ha b hb; simp at hb; subst hb; intro e; subst e
      rw [hbp, hempty] at ha; exact z2 ha
    · exact h.bpN
  · simp only [placePure]; split
    · refine List.nodup_append.2 ⟨h.wpcN, by simp, ?_⟩
      intro a ha b hb; simp at hb; subst hb; intro e; subst e
      rw [hwpc, hempty] at ha; exact z5 ha
    · exact h.wpcN
  · simp only [placePure]; split
    · refine List.nodup_append.2 ⟨h.bpcN, by simp, ?_⟩
      intro a ha b hb; simp at hb; subst hb; intro e; subst e
      rw [hbpc, hempty] at ha; exact z6 ha
    · exact h.bpcN
  · simp only [placePure]; split
    · next hp => have := rwp hp; simp; omega
    · exact h.wpLen
  · simp only [placePure]; split
    · next hp => have := rbp hp; simp; omega
    · exact h.bpLen
  · have hx : ¬ (pc = Gen.WPawn ∧ pc ∈ whitePieceCodes) := by
      rintro ⟨e, m⟩; subst e; revert m; decide
    have := h.wLen; have := h.wpLen
    simp only [placePure]; split <;> split
    · next a b => exact absurd ⟨a, b⟩ hx
    · next hp _ => have := rwp hp; simp; omega
    · next _ hp => have := rwpc hp; simp; omega
    · exact h.wLen
  · have hx : ¬ (pc = Gen.BPawn ∧ pc ∈ blackPieceCodes) := by
      rintro ⟨e, m⟩; subst e; revert m; decide
    have := h.bLen; have := h.bpLen
    simp only [placePure]; split <;> split
    · next a b => exact absurd ⟨a, b⟩ hx
    · next hp _ => have := rbp hp; simp; omega
    · next _ hp => have := rbpc hp; simp; omega
    · exact h.bLen
  · rintro ⟨i, hi⟩
    rw [hg] at hi ⊢
    simp only [placePure]
    by_cases hp : pc = Gen.WKing
    · simp [hp]
    · simp only [hp, if_false]
      have hi' : i ≠ sq := by intro e; simp [e] at hi; exact hp hi
      simp only [hi', if_false] at hi
      have hk := h.wk ⟨i, hi⟩
      have : p.whiteKing ≠ sq := by intro e; rw [e, hempty] at hk; exact z3 hk
      simp [this, hk]
  · rintro ⟨i, hi⟩
    rw [hg] at hi ⊢
    simp only [placePure]
    by_cases hp : pc = Gen.BKing
    · simp [hp]
    · simp only [hp, if_false]
      have hi' : i ≠ sq := by intro e; simp [e] at hi; exact hp hi
      simp only [hi', if_false] at hi
      have hk := h.bk ⟨i, hi⟩
      have : p.blackKing ≠ sq := by intro e; rw [e, hempty] at hk; exact z4 hk
      simp [this, hk]
  · intro i; rw [hg]; split
    · next e => intro hp; have := hback hp; subst e; omega
    · exact h.backPawn i

/-- the scan of one rank writes exactly what the rank string denotes, from file `f` on, and nothing else -/
def Faith (k : Nat) (cs : Bytes) (f : Nat) (p p' : Position) (f' : Nat) : Prop :=
  f' = f + (expandRank cs).length ∧
  (∀ j v, (expandRank cs)[j]? = some v → p'.board.getD (k * 16 + f + j) 0 = v) ∧
  (∀ i, (i / 16 ≠ k ∨ i % 16 < f) → p'.board.getD i 0 = p.board.getD i 0)

theorem fenRank_spec (k : Nat) (hk : k < 8) : ∀ (cs : Bytes) (f : Nat) (p : Position), PInv (k + 1) f p → f ≤ 8 →
    ∃ r, fenRank (k * 16) cs f p = .ok r ∧
      ∀ p' f', r = .ok (p', f') → PInv (k + 1) f' p' ∧ f' ≤ 8 ∧ Faith k cs f p p' f' := by
  intro cs
  induction cs with
  | nil =>
    intro f p h hf
    refine ⟨_, rfl, ?_⟩
    intro p' f' e
    simp only [Except.ok.injEq, Prod.mk.injEq] at e
    obtain ⟨rfl, rfl⟩ := e
    exact ⟨h, hf, by simp [Faith, expandRank]⟩
  | cons c cs ih =>
    intro f p h hf
    rw [fenRank]
    split
    · next hd =>
      have hd' := hd
      simp only [Bool.and_eq_true, decide_eq_true_eq] at hd
      dsimp only
      split
      · exact ⟨_, rfl, by intro _ _ e; cases e⟩
      · next hlt =>
        simp only [Gen.H] at hlt
        have e1 : (f + (c - 48)) % 256 = f + (c - 48) := by omega
        rw [e1] at hlt ⊢
        obtain ⟨r, hr, hs⟩ := ih (f + (c - 48)) p (h.mono (by omega)) (by omega)
        refine ⟨r, hr, ?_⟩
        intro p' f' e
        obtain ⟨a1, a2, b1, b2, b3⟩ := hs p' f' e
        refine ⟨a1, a2, ?_, ?_, ?_⟩
        · simp only [expandRank, hd', if_true, List.length_append, List.length_replicate]; omega
        · intro j v hv
          simp only [expandRank, hd', if_true] at hv
          by_cases hj : j < c - 48
          · rw [List.getElem?_append_left (by simpa using hj), List.getElem?_replicate] at hv
            simp only [hj, if_true, Option.some.injEq] at hv
            subst hv
            rw [b3 _ (by omega)]
            by_cases hz : p.board.getD (k * 16 + f + j) 0 = 0
            · exact hz
            · have := h.region _ hz; omega
          · rw [List.getElem?_append_right (by simpa using Nat.le_of_not_lt hj)] at hv
            simp only [List.length_replicate] at hv
            have := b2 _ _ hv
            have e2 : k * 16 + (f + (c - 48)) + (j - (c - 48)) = k * 16 + f + j := by omega
            rw [e2] at this; exact this
        · intro i hi; exact b3 i (by omega)
    · next hd =>
      split
      · exact ⟨_, rfl, by intro _ _ e; cases e⟩
      · next hlt =>
        simp only [Gen.H] at hlt
        dsimp only
        split
        · exact ⟨_, rfl, by intro _ _ e; cases e⟩
        · next hpc =>
          split
          · exact ⟨_, rfl, by intro _ _ e; cases e⟩
          · next hbk =>
            split
            · exact ⟨_, rfl, by intro _ _ e; cases e⟩
            · next hroom =>
              have hc : charToPiece c ∈ codes12 := by
                rcases charToPiece_codes c with h0 | h1
                · simp [h0] at hpc
                · exact h1
              have hroom' : hasRoomFor p (charToPiece c) = true := by simpa using hroom
              have hsq : (k * 16 + f) % 256 = (k + 1 - 1) * 16 + f := by omega
              have hback : (charToPiece c = Gen.WPawn ∨ charToPiece c = Gen.BPawn) → k + 1 ≠ 1 ∧ k + 1 ≠ 8 := by
                intro hp
                have := (pawn_code _ hc).2 hp
                simp only [this, Bool.true_and, Gen.Rank1, Gen.Rank8, Bool.or_eq_true, beq_iff_eq, not_or] at hbk
                omega
              rw [hsq, fenPlace_ok p _ _ hc h.size (by omega) hroom']
              have hP := PInv_place h (by omega) (by omega) (by omega) _ hc hroom' hback
              simp only [bind, Except.bind]
              have e1 : (f + 1) % 256 = f + 1 := by omega
              rw [e1]
              obtain ⟨r, hr, hs⟩ := ih (f + 1) _ hP (by omega)
              refine ⟨r, hr, ?_⟩
              intro p' f' e
              obtain ⟨a1, a2, b1, b2, b3⟩ := hs p' f' e
              have hg : ∀ i, (placePure p ((k + 1 - 1) * 16 + f) (charToPiece c)).board.getD i 0 =
                  if i = (k + 1 - 1) * 16 + f then charToPiece c else p.board.getD i 0 :=
                fun i => getD_set _ _ _ _ (by rw [h.size]; omega)
              refine ⟨a1, a2, ?_, ?_, ?_⟩
              · simp only [expandRank, hd, List.length_cons]; simp; omega
              · intro j v hv
                simp only [expandRank, hd] at hv
                simp only [Bool.false_eq_true, if_false] at hv
                cases j with
                | zero =>
                  simp only [List.getElem?_cons_zero, Option.some.injEq] at hv
                  subst hv
                  rw [b3 _ (by omega), hg]
                  simp
                | succ j =>
                  simp only [List.getElem?_cons_succ] at hv
                  have := b2 _ _ hv
                  have e2 : k * 16 + (f + 1) + j = k * 16 + f + (j + 1) := by omega
                  rw [e2] at this; exact this
              · intro i hi
                rw [b3 i (by omega), hg]
                have : i ≠ (k + 1 - 1) * 16 + f := by omega
                rw [if_neg this]

/-- the scan of the rank strings `rest` (the first one being rank `7 - idx`) writes what they denote
    and leaves the ranks above untouched -/
def RanksFaith (rest : List Bytes) (idx : Nat) (p p' : Position) : Prop :=
  (∀ m row, rest[m]? = some row → (expandRank row).length = 8 ∧
      ∀ j v, (expandRank row)[j]? = some v → p'.board.getD ((7 - (idx + m)) * 16 + j) 0 = v) ∧
  (∀ i, 8 - idx ≤ i / 16 → p'.board.getD i 0 = p.board.getD i 0)

theorem fenRanks_spec : ∀ (rest : List Bytes) (idx : Nat) (p : Position), idx + rest.length = 8 → PInv (8 - idx) 0 p →
    ∃ r, fenRanks rest idx p = .ok r ∧ ∀ p', r = .ok p' → PInv 0 0 p' ∧ RanksFaith rest idx p p' := by
  intro rest
  induction rest with
  | nil =>
    intro idx p hl h
    simp only [List.length_nil, Nat.add_zero] at hl
    subst hl
    refine ⟨_, rfl, ?_⟩
    intro p' e
    simp only [Except.ok.injEq] at e
    subst e
    exact ⟨h, by simp [RanksFaith]⟩
  | cons rs rest ih =>
    intro idx p hl h
    simp only [List.length_cons] at hl
    have hk : 7 - idx < 8 := by omega
    have hK : 8 - idx = (7 - idx) + 1 := by omega
    rw [hK] at h
    obtain ⟨r, hr, hspec⟩ := fenRank_spec (7 - idx) hk rs 0 p h (by omega)
    rw [fenRanks]
    rw [hr]
    simp only [bind, Except.bind]
    cases r with
    | error e => exact ⟨_, rfl, by intro _ e; cases e⟩
    | ok v =>
      obtain ⟨p1, f'⟩ := v
      obtain ⟨hp', _, c1, c2, c3⟩ := hspec p1 f' rfl
      dsimp only
      split
      · exact ⟨_, rfl, by intro _ e; cases e⟩
      · next hf =>
        simp only [Gen.H, bne_iff_ne, ne_eq, Decidable.not_not] at hf
        subst hf
        have hP1 : PInv (8 - (idx + 1)) 0 p1 := by
          have := hp'.nextRank (by omega)
          have e : 8 - (idx + 1) = 7 - idx + 1 - 1 := by omega
          rw [e]; exact this
        obtain ⟨r, hr2, hs2⟩ := ih (idx + 1) p1 (by omega) hP1
        refine ⟨r, hr2, ?_⟩
        intro p' e
        obtain ⟨d1, d2, d3⟩ := hs2 p' e
        refine ⟨d1, ?_, ?_⟩
        · intro m row hrow
          cases m with
          | zero =>
            simp only [List.getElem?_cons_zero, Option.some.injEq] at hrow
            subst hrow
            refine ⟨by omega, ?_⟩
            intro j v hv
            have hj : j < (expandRank rs).length := by
              rcases Nat.lt_or_ge j (expandRank rs).length with h' | h'
              · exact h'
              · rw [List.getElem?_eq_none h'] at hv; cases hv
            have := c2 j v hv
            rw [d3 _ (by omega)]
            simp only [Nat.add_zero] at this ⊢
            exact this
          | succ m =>
            simp only [List.getElem?_cons_succ] at hrow
            have := d2 m row hrow
            have e : idx + (m + 1) = idx + 1 + m := by omega
            rw [e]; exact this
        · intro i hi
          rw [d3 i (by omega), c3 i (by omega)]

end Magog.FenLemmas
