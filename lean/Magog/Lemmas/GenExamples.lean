import Magog.Lemmas.GenPseudo

/-! Concrete witnesses (kernel-evaluated) for the non-vacuity examples of property C01. -/

namespace Magog.GenExamples
open Magog Magog.Model Magog.Count

set_option maxRecDepth 100000

/-- number of moves of a successful generation (0 on panic) -/
def okLen (x : M (List RMove)) : Nat :=
  match x with
  | .ok l => l.length
  | .error _ => 0

theorem okLen_pos {x : M (List RMove)} (h : 0 < okLen x) : ∃ l, x = .ok l ∧ l.length = okLen x := by
  cases x with
  | error e => simp [okLen] at h
  | ok l => exact ⟨l, rfl, rfl⟩

theorem start_len : okLen (genPseudo Killers.empty startPosition) = 20 := by decide +kernel

/-- e2-e4 in the start position: allowed by the movement rules, a quiet double push skipping e3 -/
theorem start_e2e4 :
    Spec.pseudo (abs startPosition) ⟨12, 28, none⟩ = true ∧
    Spec.kingStepAttacked (abs startPosition) ⟨12, 28, none⟩ = false ∧
    Spec.isTactical (abs startPosition) ⟨12, 28, none⟩ = false ∧
    (Spec.apply (abs startPosition) ⟨12, 28, none⟩).ep = some 20 ∧ to88 20 = Gen.E3 := by
  decide +kernel

theorem start_e2e4_legal : Spec.legal (abs startPosition) ⟨12, 28, none⟩ = true := by decide +kernel

/-- `c06Witness` (1.e4 e5 2.Nf3 Nc6 3.Bc4 Bc5 4.a4 a6 5.a5 b5, White to move) is well formed -/
theorem inv_c06Witness : Inv c06Witness := inv_of_invB (by decide +kernel)

theorem c06Witness_len : okLen (genPseudo Killers.empty c06Witness) = 35 := by decide +kernel

/-- in `c06Witness`: the en-passant capture a5xb6 and king-side castling e1-g1 are allowed by the rules;
    the former is tactical, the latter is not -/
theorem c06Witness_moves :
    Spec.pseudo (abs c06Witness) ⟨32, 41, none⟩ = true ∧
    Spec.kingStepAttacked (abs c06Witness) ⟨32, 41, none⟩ = false ∧
    Spec.isTactical (abs c06Witness) ⟨32, 41, none⟩ = true ∧
    Spec.pseudo (abs c06Witness) ⟨4, 6, none⟩ = true ∧
    Spec.kingStepAttacked (abs c06Witness) ⟨4, 6, none⟩ = false ∧
    Spec.isTactical (abs c06Witness) ⟨4, 6, none⟩ = false := by
  decide +kernel

/-- `c06PromoWitness` (white Ke1 Pa7, black Kh6 Rb8, White to move) is well formed -/
theorem inv_c06PromoWitness : Inv c06PromoWitness := inv_of_invB (by decide +kernel)

/-- a7xb8=N is allowed by the rules and tactical -/
theorem c06PromoWitness_moves :
    Spec.pseudo (abs c06PromoWitness) ⟨48, 57, some .knight⟩ = true ∧
    Spec.kingStepAttacked (abs c06PromoWitness) ⟨48, 57, some .knight⟩ = false ∧
    Spec.isTactical (abs c06PromoWitness) ⟨48, 57, some .knight⟩ = true := by
  decide +kernel

/-- 1.e4 f5 2.Qh5+ : Black to move, the king step e8-f7 goes onto a square attacked by the queen -/
def checkWitness : Position :=
  match afterMoves startPosition
    [⟨Gen.E2, Gen.E4, 0, Gen.E3⟩, ⟨Gen.F7, Gen.F5, 0, Gen.F6⟩, ⟨Gen.D1, Gen.H5, 0, InvalidSq⟩] with
  | .ok p => p
  | .error _ => startPosition

theorem inv_checkWitness : Inv checkWitness := inv_of_invB (by decide +kernel)

theorem checkWitness_len : okLen (genPseudo Killers.empty checkWitness) = 19 := by decide +kernel

/-- the documented difference is real: Ke8-f7 satisfies the movement rules but is a king step onto an
    attacked square -/
theorem checkWitness_kf7 :
    Spec.pseudo (abs checkWitness) ⟨60, 53, none⟩ = true ∧
    Spec.kingStepAttacked (abs checkWitness) ⟨60, 53, none⟩ = true ∧
    Spec.pseudo' (abs checkWitness) ⟨60, 53, none⟩ = false := by
  decide +kernel

end Magog.GenExamples
