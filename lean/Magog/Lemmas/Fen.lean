import Magog.Lemmas.FenInvariant
import Magog.Lemmas.InvFen
import Magog.Spec.MakeMove

/-! Property C08: the FEN loader never panics, and what it accepts satisfies `FenInv` / `FenLists`. -/

set_option linter.unusedSimpArgs false

namespace Magog.FenLemmas
open Magog Magog.Model Magog.FenSpec

theorem bget_eq_ok {b : Array Nat} {i v : Nat} : bget b i = .ok v ↔ b[i]? = some v := by
  unfold bget
  by_cases h : i < b.size
  · simp [h, pure, Except.pure]
  · simp [h, throw, throwThe, MonadExceptOf.throw]

theorem bget_total {b : Array Nat} {i : Nat} (h : i < b.size) : bget b i = .ok b[i] := by
  simp [bget, h, pure, Except.pure]

theorem getD_of_getElem? {b : Array Nat} {i v : Nat} (h : b[i]? = some v) : b.getD i 0 = v := by
  simp [Array.getD_eq_getD_getElem?, h]

theorem getElem?_of_getD {b : Array Nat} {i v : Nat} (h : b.getD i 0 = v) (hv : v ≠ 0) : b[i]? = some v := by
  rw [Array.getD_eq_getD_getElem?] at h
  cases hb : b[i]? with
  | none => rw [hb] at h; exact absurd h.symm hv
  | some w => rw [hb] at h; simpa using h

theorem getElem?_of_getD_lt {b : Array Nat} {i v : Nat} (h : b.getD i 0 = v) (hi : i < b.size) : b[i]? = some v := by
  rw [Array.getD_eq_getD_getElem?] at h
  simp [hi] at h ⊢; exact h

theorem isValid_iff : ∀ i < 128, isValid i = decide (i % 16 < 8) := by decide
theorem rankOf_eq : ∀ i < 128, rankOf i = i / 16 * 16 := by decide

theorem epConsistent_total (p : Position) (hs : p.board.size = 128) (h1 : 16 ≤ p.ep) (h2 : p.ep < 112) :
    ∃ b, epConsistent p = .ok b := by
  unfold epConsistent
  simp only [Gen.UnitRank]
  have e1 : (p.ep + 256 - 16) % 256 = p.ep - 16 := by omega
  have e2 : (p.ep + 16) % 256 = p.ep + 16 := by omega
  rw [e1, e2, bget_total (by omega), bget_total (by omega), bget_total (by omega)]
  simp only [bind, Except.bind, pure, Except.pure]
  split <;> exact ⟨_, rfl⟩

theorem epConsistent_sound (p : Position) (hs : p.board.size = 128)
    (hreg : ∀ i, p.board.getD i 0 ≠ 0 → i < 128 ∧ i % 16 < 8) (h : epConsistent p = .ok true) : EpOk p := by
  unfold epConsistent at h
  simp only [Gen.UnitRank, bind, Except.bind, pure, Except.pure] at h
  cases h0 : bget p.board p.ep with
  | error e => rw [h0] at h; cases h
  | ok here =>
    rw [h0] at h
    have hlt : p.ep < 128 := by
      rw [bget_eq_ok] at h0
      have := (Array.getElem?_eq_some_iff.1 h0).1
      omega
    dsimp only at h
    unfold EpOk
    by_cases hw : whiteTurn p = true
    · simp only [hw, if_true] at h ⊢
      cases h1 : bget p.board ((p.ep + 256 - 16) % 256) with
      | error e => rw [h1] at h; cases h
      | ok front =>
        rw [h1] at h; dsimp only at h
        cases h2 : bget p.board ((p.ep + 16) % 256) with
        | error e => rw [h2] at h; cases h
        | ok behind =>
          rw [h2] at h
          simp only [Except.ok.injEq, Bool.and_eq_true, beq_iff_eq] at h
          obtain ⟨⟨⟨hr, hh⟩, hf⟩, hb⟩ := h
          subst hh hf hb
          rw [rankOf_eq _ hlt] at hr
          simp only [Gen.Rank6] at hr
          have e1 : (p.ep + 256 - 16) % 256 = p.ep - 16 := by omega
          have e2 : (p.ep + 16) % 256 = p.ep + 16 := by omega
          rw [e1, bget_eq_ok] at h1
          rw [e2, bget_eq_ok] at h2
          rw [bget_eq_ok] at h0
          have hv := hreg (p.ep - 16) (by rw [getD_of_getElem? h1]; decide)
          refine ⟨hlt, ?_, h0, ?_, h1, h2⟩
          · rw [isValid_iff _ hlt]; simp; omega
          · rw [rankOf_eq _ hlt]; simp only [Gen.Rank6]; omega
    · simp only [hw, if_false, Bool.false_eq_true] at h ⊢
      cases h1 : bget p.board ((p.ep + 16) % 256) with
      | error e => rw [h1] at h; cases h
      | ok front =>
        rw [h1] at h; dsimp only at h
        cases h2 : bget p.board ((p.ep + 256 - 16) % 256) with
        | error e => rw [h2] at h; cases h
        | ok behind =>
          rw [h2] at h
          simp only [Except.ok.injEq, Bool.and_eq_true, beq_iff_eq] at h
          obtain ⟨⟨⟨hr, hh⟩, hf⟩, hb⟩ := h
          subst hh hf hb
          rw [rankOf_eq _ hlt] at hr
          simp only [Gen.Rank3] at hr
          have e1 : (p.ep + 256 - 16) % 256 = p.ep - 16 := by omega
          have e2 : (p.ep + 16) % 256 = p.ep + 16 := by omega
          rw [e1, bget_eq_ok] at h2
          rw [e2, bget_eq_ok] at h1
          rw [bget_eq_ok] at h0
          have hv := hreg (p.ep + 16) (by rw [getD_of_getElem? h1]; decide)
          refine ⟨hlt, ?_, h0, ?_, h1, h2⟩
          · rw [isValid_iff _ hlt]; simp; omega
          · rw [rankOf_eq _ hlt]; simp only [Gen.Rank3]; omega

theorem countKings_pos {b : Array Nat} {k : Nat} (h : countKings b k = 1) : ∃ i, b.getD i 0 = k := by
  unfold countKings at h
  have hne : b.toList.filter (· == k) ≠ [] := by
    intro e; rw [e] at h; cases h
  obtain ⟨x, hx⟩ := List.exists_mem_of_ne_nil _ hne
  rw [List.mem_filter] at hx
  obtain ⟨hm, hk⟩ := hx
  simp only [beq_iff_eq] at hk
  subst hk
  rw [Array.mem_toList_iff, Array.mem_iff_getElem] at hm
  obtain ⟨i, hi, e⟩ := hm
  exact ⟨i, by simp [Array.getD_eq_getD_getElem?, hi, e]⟩

theorem codes_split {v : Nat} (h : v = 0 ∨ v ∈ codes12) :
    v = 0 ∨ v = Gen.WKing ∨ v = Gen.BKing ∨ v = Gen.WPawn ∨ v = Gen.BPawn ∨ v ∈ whitePieceCodes ∨ v ∈ blackPieceCodes := by
  rcases h with h | h
  · exact Or.inl h
  · simp only [codes12, List.mem_cons, List.not_mem_nil, or_false] at h
    rcases h with rfl | rfl | rfl | rfl | rfl | rfl | rfl | rfl | rfl | rfl | rfl | rfl <;>
      simp [whitePieceCodes, blackPieceCodes]

theorem listSound_of {b : Array Nat} {l codes : List Nat}
    (hreg : ∀ i, b.getD i 0 ≠ 0 → i < 128 ∧ i % 16 < 8) (h0 : (0 : Nat) ∉ codes)
    (hl : ∀ i, i ∈ l → b.getD i 0 ∈ codes) : ListSound b l codes := by
  intro sq hsq
  have hm := hl sq hsq
  have hne : b.getD sq 0 ≠ 0 := fun e => h0 (e ▸ hm)
  obtain ⟨h1, h2⟩ := hreg sq hne
  refine ⟨h1, ?_, _, hm, getElem?_of_getD rfl hne⟩
  rw [isValid_iff _ h1]; simpa using h2

theorem listComplete_of {b : Array Nat} {l codes : List Nat}
    (hl : ∀ i, b.getD i 0 ∈ codes → i ∈ l) : ListComplete b l codes := by
  intro sq pc h hm
  apply hl
  rw [getD_of_getElem? h]; exact hm

theorem finalInv (p0 : Position) (flags ep : Nat) (ply : Int) (h : PInv 0 0 p0)
    (hwk : countKings p0.board Gen.WKing = 1) (hbk : countKings p0.board Gen.BKing = 1)
    (hep : ep = InvalidSq ∨ epConsistent { p0 with flags := flags, ep := ep } = .ok true)
    (hcast : castlingConsistent { p0 with flags := flags, ep := ep } = true)
    (hply1 : 0 ≤ ply) (hply2 : ply ≤ 2 * (Gen.maxFullMoveCounter : Int))
    (hpar : ply % 2 = if flags &&& FWhiteTurn != 0 then 0 else 1) :
    FenInv { p0 with flags := flags, ep := ep, ply := ply } ∧
    FenLists { p0 with flags := flags, ep := ep, ply := ply } := by
  obtain ⟨z1, z2, z3, z4, z5, z6⟩ := zero_not_codes
  have hreg : ∀ i, p0.board.getD i 0 ≠ 0 → i < 128 ∧ i % 16 < 8 := fun i hi => by
    have := h.region i hi; omega
  have hWK := h.wk (countKings_pos hwk)
  have hBK := h.bk (countKings_pos hbk)
  have hWKv := hreg _ (by rw [hWK]; exact fun e => z3 e.symm)
  have hBKv := hreg _ (by rw [hBK]; exact fun e => z4 e.symm)
  constructor
  · constructor
    · exact h.size
    · exact h.wpLen
    · exact h.bpLen
    · have := h.wLen; show p0.whitePieces.length ≤ pieceCap; omega
    · have := h.bLen; show p0.blackPieces.length ≤ pieceCap; omega
    · exact h.wLen
    · exact h.bLen
    · exact listSound_of hreg (by simpa using z1) (fun i hi => by simpa using (h.wp i).1 hi)
    · exact listSound_of hreg (by simpa using z2) (fun i hi => by simpa using (h.bp i).1 hi)
    · exact listSound_of hreg z5 (fun i hi => (h.wpc i).1 hi)
    · exact listSound_of hreg z6 (fun i hi => (h.bpc i).1 hi)
    · exact getElem?_of_getD hWK (fun e => z3 e.symm)
    · exact getElem?_of_getD hBK (fun e => z4 e.symm)
    · refine ⟨hWKv.1, ?_⟩; rw [isValid_iff _ hWKv.1]; simpa using hWKv.2
    · refine ⟨hBKv.1, ?_⟩; rw [isValid_iff _ hBKv.1]; simpa using hBKv.2
    · exact hwk
    · exact hbk
    · intro i hi
      have hp : p0.board.getD i 0 = Gen.WPawn ∨ p0.board.getD i 0 = Gen.BPawn := by
        rcases hi with hi | hi
        · exact Or.inl (getD_of_getElem? hi)
        · exact Or.inr (getD_of_getElem? hi)
      have hb := h.backPawn i hp
      have hlt : i < 128 := by
        refine (hreg i ?_).1
        rcases hp with e | e <;> rw [e] <;> decide
      rw [rankOf_eq _ hlt]; simp only [Gen.Rank1, Gen.Rank8]; omega
    · intro i hi hv
      apply getElem?_of_getD_lt _ (by rw [h.size]; exact hi)
      rw [isValid_iff _ hi] at hv
      simp only [decide_eq_false_iff_not] at hv
      by_cases e : p0.board.getD i 0 = 0
      · exact e
      · have := hreg i e; omega
    · exact hcast
    · rcases hep with e | e
      · exact Or.inl e
      · exact Or.inr (epConsistent_sound _ h.size hreg e)
    · exact ⟨hply1, hply2⟩
    · exact hpar
  · constructor
    · exact listComplete_of (fun i hi => (h.wp i).2 (by simpa using hi))
    · exact listComplete_of (fun i hi => (h.bp i).2 (by simpa using hi))
    · exact listComplete_of (fun i hi => (h.wpc i).2 hi)
    · exact listComplete_of (fun i hi => (h.bpc i).2 hi)
    · exact h.wpN
    · exact h.bpN
    · exact h.wpcN
    · exact h.bpcN
    · intro i v hv
      have := h.codes i
      rw [getD_of_getElem? hv] at this
      exact codes_split this

/-- A placed position with exactly one king of each colour has a well-formed board and both sides'
    lists describe exactly that colour's men (what `isUnderCheck` relies on); flags, en-passant square and
    ply play no role. -/
theorem placed_sides (p0 : Position) (h : PInv 0 0 p0)
    (hwk : countKings p0.board Gen.WKing = 1) (hbk : countKings p0.board Gen.BKing = 1) :
    Atk.BoardOk p0.board ∧ ∀ w, Atk.SideOk p0.board (p0.side w) w := by
  have hc : castlingConsistent { p0 with flags := 0, ep := InvalidSq } = true := by
    simp [castlingConsistent]
  have hF := finalInv p0 0 InvalidSq 1 h hwk hbk (Or.inl rfl) hc (by decide)
    (by simp only [Gen.maxFullMoveCounter]; decide) (by decide)
  have hI := inv_of_fen hF.1 hF.2 (show (0 : Nat) < 32 by decide)
  exact ⟨hI.board, fun w => by cases w; exact hI.black; exact hI.white⟩

/-- the new "side not to move in check" test of the loader never panics: at that point the lists and
    the board agree (`placed_sides`), so every index `isUnderCheck` forms is in range -/
theorem oppCheck_total (p0 : Position) (flags ep : Nat) (h : PInv 0 0 p0)
    (hwk : countKings p0.board Gen.WKing = 1) (hbk : countKings p0.board Gen.BKing = 1) :
    ∃ b, isUnderCheck ({ p0 with flags := flags, ep := ep } : Position).board
      (({ p0 with flags := flags, ep := ep } : Position).side (whiteTurn { p0 with flags := flags, ep := ep }))
      (({ p0 with flags := flags, ep := ep } : Position).side (!whiteTurn { p0 with flags := flags, ep := ep })).king
      = .ok b := by
  obtain ⟨hb, hs⟩ := placed_sides p0 h hwk hbk
  generalize whiteTurn { p0 with flags := flags, ep := ep } = w
  show ∃ b, isUnderCheck p0.board (p0.side w) (p0.side (!w)).king = .ok b
  obtain ⟨k1, k2, _⟩ := ((hs (!w)).king _).1 rfl
  exact ⟨_, Atk.isUnderCheck_eq hb (hs w) (Geo.mem_sq88.2 ⟨k1, k2⟩)⟩

theorem wrap16_id {x : Int} (h1 : -32768 ≤ x) (h2 : x < 32768) : wrap16 x = x := by
  unfold wrap16; omega

/-! ### `parseFen` cut into stages (definitionally the same function) -/

def tailPly (fields : List Bytes) (p : Position) (flags : Nat) : M (Except FenError Position) :=
  match atoi (fields.getD 5 []) with
  | none => pure (.error .fullmove)
  | some n =>
    if n < 1 then pure (.error .fullmoveRange) else
    if n > Gen.maxFullMoveCounter then pure (.error (.invalid "full move counter too large")) else
    let ply := wrap16 ((n - 1) * 2)
    let ply := if flags &&& FWhiteTurn == 0 then wrap16 (ply + 1) else ply
    pure (.ok { p with ply })

/-- the "side not to move is not in check" test (`isOpponentKingUnderCheck`), then the full-move counter -/
def tailCheck (fields : List Bytes) (p : Position) (flags : Nat) : M (Except FenError Position) := do
  let oppInCheck ← isUnderCheck p.board (p.side (whiteTurn p)) (p.side (!whiteTurn p)).king
  if oppInCheck then pure (.error (.invalid "side not to move in check")) else
  tailPly fields p flags

def tailEp (fields : List Bytes) (p0 : Position) (flags : Nat) (epRes : Except FenError Nat) :
    M (Except FenError Position) :=
  match epRes with
  | .error e => pure (.error e)
  | .ok ep => do
    let p := { p0 with flags, ep }
    let epOk ← if ep == InvalidSq then pure true else epConsistent p
    if !epOk then pure (.error (.invalid "en passant")) else
    if !castlingConsistent p then pure (.error (.invalid "castling")) else
    tailCheck fields p flags

def epParse (eps : Bytes) : Except FenError Nat :=
  match eps with
  | [fc, rc] =>
    if fc < 97 || fc > 104 || (rc != 51 && rc != 54) then .error .ep
    else .ok ((fc - 97) + (((rc - 49) <<< 4) % 256))
  | _ => .ok InvalidSq

def flagsOf (fields : List Bytes) : Nat :=
  let turn := fields.getD 1 []
  let flags := if turn == [119] then FWhiteTurn else 0
  let cs := fields.getD 2 []
  let flags := if containsByte cs 75 then flags ||| FWK else flags
  let flags := if containsByte cs 81 then flags ||| FWQ else flags
  let flags := if containsByte cs 107 then flags ||| FBK else flags
  let flags := if containsByte cs 113 then flags ||| FBQ else flags
  flags

def tailKings (fields : List Bytes) (p : Position) : M (Except FenError Position) :=
  if countKings p.board Gen.WKing != 1 || countKings p.board Gen.BKing != 1 then pure (.error (.invalid "kings")) else
  let turn := fields.getD 1 []
  if turn != [119] && turn != [98] then pure (.error .side) else
  if (fields.getD 3 []).length > 2 then pure (.error .ep) else
  tailEp fields p (flagsOf fields) (epParse (fields.getD 3 []))

theorem parseFen_eq (s : Bytes) : parseFen s =
    if s.any (· > 127) then pure (.error .nonAscii) else
    if (splitOn 32 s).length != 6 then pure (.error .fields) else
    if (splitOn 47 ((splitOn 32 s).getD 0 [])).length != 8 then pure (.error .ranks) else
    fenRanks (splitOn 47 ((splitOn 32 s).getD 0 [])) 0 emptyPosition >>= fun r =>
      match r with
      | .error e => pure (.error e)
      | .ok p => tailKings (splitOn 32 s) p := rfl

theorem bind_ok' {α β : Type} {x : M α} {a : α} (f : α → M β) (h : x = .ok a) : (x >>= f) = f a := by
  subst h; rfl

theorem reject_ok {e : FenError} {P : Position → Prop} :
    ∃ r, (pure (Except.error e) : M (Except FenError Position)) = .ok r ∧ ∀ p, r = .ok p → P p :=
  ⟨.error e, rfl, by intro _ h; cases h⟩

/-- what the stages after the placement add to the placed position `p0` -/
def TailFaith (fields : List Bytes) (flags : Nat) (epRes : Except FenError Nat) (p0 q : Position) : Prop :=
  q.board = p0.board ∧ q.flags = flags ∧ epRes = .ok q.ep ∧
  ∃ n : Int, atoi (fields.getD 5 []) = some n ∧ 1 ≤ n ∧ n ≤ (Gen.maxFullMoveCounter : Int) ∧
    q.ply = 2 * (n - 1) + (if flags &&& FWhiteTurn != 0 then 0 else 1)

theorem tailPly_spec (fields : List Bytes) (p : Position) (flags : Nat) :
    ∃ r, tailPly fields p flags = .ok r ∧ ∀ q, r = .ok q →
      ∃ ply : Int, q = { p with ply := ply } ∧ 0 ≤ ply ∧ ply ≤ 2 * (Gen.maxFullMoveCounter : Int) ∧
        (ply % 2 = if flags &&& FWhiteTurn != 0 then 0 else 1) ∧
        ∃ n : Int, atoi (fields.getD 5 []) = some n ∧ 1 ≤ n ∧ n ≤ (Gen.maxFullMoveCounter : Int) ∧
          ply = 2 * (n - 1) + (if flags &&& FWhiteTurn != 0 then 0 else 1) := by
  unfold tailPly
  split
  · exact ⟨_, rfl, by intro _ e; cases e⟩
  · next n hn =>
    split
    · exact ⟨_, rfl, by intro _ e; cases e⟩
    split
    · exact ⟨_, rfl, by intro _ e; cases e⟩
    next h1 h2 =>
    refine ⟨_, rfl, ?_⟩
    intro q e
    simp only [Except.ok.injEq] at e
    subst e
    have h2' := h2
    simp only [Gen.maxFullMoveCounter] at h2 ⊢
    have e1 : wrap16 ((n - 1) * 2) = (n - 1) * 2 := wrap16_id (by omega) (by omega)
    have e2 : wrap16 ((n - 1) * 2 + 1) = (n - 1) * 2 + 1 := wrap16_id (by omega) (by omega)
    by_cases hw : flags &&& FWhiteTurn = 0
    · refine ⟨(n - 1) * 2 + 1, ?_, by omega, by omega, ?_, n, hn, by omega, by omega, ?_⟩
      · simp [hw, e1, e2]
      · simp [hw]
      · simp [hw]; omega
    · refine ⟨(n - 1) * 2, ?_, by omega, by omega, ?_, n, hn, by omega, by omega, ?_⟩
      · simp [hw, e1]
      · simp [hw]
      · simp [hw]; omega

theorem tailCheck_spec (fields : List Bytes) (p : Position) (flags : Nat)
    (ht : ∃ b, isUnderCheck p.board (p.side (whiteTurn p)) (p.side (!whiteTurn p)).king = .ok b) :
    ∃ r, tailCheck fields p flags = .ok r ∧ ∀ q, r = .ok q → MM.OppSafe p ∧
      ∃ ply : Int, q = { p with ply := ply } ∧ 0 ≤ ply ∧ ply ≤ 2 * (Gen.maxFullMoveCounter : Int) ∧
        (ply % 2 = if flags &&& FWhiteTurn != 0 then 0 else 1) ∧
        ∃ n : Int, atoi (fields.getD 5 []) = some n ∧ 1 ≤ n ∧ n ≤ (Gen.maxFullMoveCounter : Int) ∧
          ply = 2 * (n - 1) + (if flags &&& FWhiteTurn != 0 then 0 else 1) := by
  obtain ⟨b, hb⟩ := ht
  unfold tailCheck
  rw [bind_ok' _ hb]
  cases b with
  | true => exact ⟨_, rfl, by intro _ e; cases e⟩
  | false =>
    obtain ⟨r, hr1, hr2⟩ := tailPly_spec fields p flags
    exact ⟨r, hr1, fun q hq => ⟨hb, hr2 q hq⟩⟩

theorem epParse_range (eps : Bytes) (ep : Nat) (h : epParse eps = .ok ep) :
    ep = InvalidSq ∨ (16 ≤ ep ∧ ep < 112) := by
  unfold epParse at h
  split at h
  · next fc rc =>
    split at h
    · cases h
    · next hc =>
      simp only [Bool.or_eq_true, Bool.and_eq_true, decide_eq_true_eq, bne_iff_ne, ne_eq, not_or, not_and,
        Decidable.not_not, Nat.not_lt] at hc
      simp only [Except.ok.injEq] at h
      subst h
      right
      obtain ⟨⟨h1, h2⟩, h3⟩ := hc
      have : rc = 51 ∨ rc = 54 := by
        by_cases e : rc = 51
        · exact Or.inl e
        · exact Or.inr (h3 e)
      rcases this with rfl | rfl <;> simp <;> omega
  · simp only [Except.ok.injEq] at h
    exact Or.inl h.symm

theorem tailEp_spec (fields : List Bytes) (p0 : Position) (flags : Nat) (epRes : Except FenError Nat)
    (h : PInv 0 0 p0) (hwk : countKings p0.board Gen.WKing = 1) (hbk : countKings p0.board Gen.BKing = 1)
    (hepr : ∀ ep, epRes = .ok ep → ep = InvalidSq ∨ (16 ≤ ep ∧ ep < 112)) :
    ∃ r, tailEp fields p0 flags epRes = .ok r ∧
      ∀ q, r = .ok q → FenInv q ∧ FenLists q ∧ TailFaith fields flags epRes p0 q ∧ MM.OppSafe q := by
  unfold tailEp
  split
  · exact ⟨_, rfl, by intro _ e; cases e⟩
  · next ep =>
    have hr := hepr ep rfl
    have key : ∀ b : Bool,
        (b = true → ep = InvalidSq ∨ epConsistent { p0 with flags := flags, ep := ep } = .ok true) →
        ∃ r, (if (!b) = true then (pure (.error (.invalid "en passant")) : M (Except FenError Position))
          else if (!castlingConsistent { p0 with flags := flags, ep := ep }) = true then
            pure (.error (.invalid "castling"))
          else tailCheck fields { p0 with flags := flags, ep := ep } flags) = .ok r ∧
          ∀ q, r = .ok q → FenInv q ∧ FenLists q ∧ TailFaith fields flags (.ok ep) p0 q ∧ MM.OppSafe q := by
      intro b hb'
      split
      · exact reject_ok
      next hbt =>
      split
      · exact reject_ok
      next hct =>
      simp only [Bool.not_eq_true', Bool.not_eq_false, Bool.not_eq_true] at hbt hct
      obtain ⟨r, hr1, hr2⟩ := tailCheck_spec fields { p0 with flags := flags, ep := ep } flags
        (oppCheck_total p0 flags ep h hwk hbk)
      refine ⟨r, hr1, ?_⟩
      intro q hq
      obtain ⟨hsafe, ply, rfl, hp1, hp2, hp3, n, hn1, hn2, hn3, hn4⟩ := hr2 q hq
      have := finalInv p0 flags ep ply h hwk hbk (hb' hbt) hct hp1 hp2 hp3
      exact ⟨this.1, this.2, ⟨rfl, rfl, rfl, n, hn1, hn2, hn3, hn4⟩, hsafe⟩
    dsimp only
    split
    · next he =>
      simp only [beq_iff_eq] at he
      rw [bind_ok' _ (rfl : (pure true : M Bool) = .ok true)]
      exact key true (fun _ => Or.inl he)
    · next he =>
      simp only [beq_iff_eq] at he
      obtain ⟨b, hb⟩ := epConsistent_total { p0 with flags := flags, ep := ep } h.size
          (by rcases hr with e | e; exact absurd e he; exact e.1)
          (by rcases hr with e | e; exact absurd e he; exact e.2)
      rw [bind_ok' _ hb]
      exact key b (fun e => Or.inr (e ▸ hb))

theorem tailKings_spec (fields : List Bytes) (p : Position) (h : PInv 0 0 p) :
    ∃ r, tailKings fields p = .ok r ∧ ∀ q, r = .ok q → FenInv q ∧ FenLists q ∧
      TailFaith fields (flagsOf fields) (epParse (fields.getD 3 [])) p q ∧
      (fields.getD 1 [] = [119] ∨ fields.getD 1 [] = [98]) ∧ (fields.getD 3 []).length ≤ 2 ∧ MM.OppSafe q := by
  unfold tailKings
  split
  · exact reject_ok
  next hk =>
  simp only [Bool.or_eq_true, bne_iff_ne, ne_eq, not_or, Decidable.not_not] at hk
  dsimp only
  split
  · exact reject_ok
  next ht =>
  split
  · exact reject_ok
  next hl2 =>
  obtain ⟨r, hr, hs⟩ := tailEp_spec fields p (flagsOf fields) (epParse (fields.getD 3 [])) h hk.1 hk.2 (epParse_range _)
  refine ⟨r, hr, ?_⟩
  intro q hq
  obtain ⟨a, b, c, c'⟩ := hs q hq
  refine ⟨a, b, c, ?_, by omega, c'⟩
  simp only [Bool.and_eq_true, bne_iff_ne, ne_eq, not_and, Decidable.not_not] at ht
  by_cases e : fields.getD 1 [] = [119]
  · exact Or.inl e
  · exact Or.inr (ht e)

/-- everything the loader guarantees, relative to the input (with the "side not to move is not in
    check" guarantee `MM.OppSafe` as last component) -/
theorem parseFen_spec_safe (s : Bytes) :
    ∃ r, parseFen s = .ok r ∧ ∀ q, r = .ok q → FenInv q ∧ FenLists q ∧
      (∀ c ∈ s, c ≤ 127) ∧ (splitOn 32 s).length = 6 ∧ (splitOn 47 ((splitOn 32 s).getD 0 [])).length = 8 ∧
      (∃ p0, RanksFaith (splitOn 47 ((splitOn 32 s).getD 0 [])) 0 emptyPosition p0 ∧
        TailFaith (splitOn 32 s) (flagsOf (splitOn 32 s)) (epParse ((splitOn 32 s).getD 3 [])) p0 q) ∧
      ((splitOn 32 s).getD 1 [] = [119] ∨ (splitOn 32 s).getD 1 [] = [98]) ∧
      ((splitOn 32 s).getD 3 []).length ≤ 2 ∧ MM.OppSafe q := by
  rw [parseFen_eq]
  split
  · exact reject_ok
  next hasc =>
  split
  · exact reject_ok
  next hlen6 =>
  split
  · exact reject_ok
  next hlen =>
  simp only [bne_iff_ne, ne_eq, Decidable.not_not] at hlen hlen6
  obtain ⟨r, hr, hspec⟩ := fenRanks_spec _ 0 emptyPosition (by rw [hlen]) PInv_empty
  rw [bind_ok' _ hr]
  cases r with
  | error e => exact reject_ok
  | ok p =>
    obtain ⟨hP, hF⟩ := hspec p rfl
    obtain ⟨r, hr, hs⟩ := tailKings_spec (splitOn 32 s) p hP
    refine ⟨r, hr, ?_⟩
    intro q hq
    obtain ⟨a, b, c, d, d'⟩ := hs q hq
    refine ⟨a, b, ?_, hlen6, hlen, ⟨p, hF, c⟩, d, d'⟩
    intro c hc
    simp only [List.any_eq_true, decide_eq_true_eq, not_exists, not_and, Nat.not_lt] at hasc
    exact hasc c hc

/-- everything the loader guarantees, relative to the input -/
theorem parseFen_spec (s : Bytes) :
    ∃ r, parseFen s = .ok r ∧ ∀ q, r = .ok q → FenInv q ∧ FenLists q ∧
      (∀ c ∈ s, c ≤ 127) ∧ (splitOn 32 s).length = 6 ∧ (splitOn 47 ((splitOn 32 s).getD 0 [])).length = 8 ∧
      (∃ p0, RanksFaith (splitOn 47 ((splitOn 32 s).getD 0 [])) 0 emptyPosition p0 ∧
        TailFaith (splitOn 32 s) (flagsOf (splitOn 32 s)) (epParse ((splitOn 32 s).getD 3 [])) p0 q) ∧
      ((splitOn 32 s).getD 1 [] = [119] ∨ (splitOn 32 s).getD 1 [] = [98]) ∧
      ((splitOn 32 s).getD 3 []).length ≤ 2 := by
  obtain ⟨r, hr, hs⟩ := parseFen_spec_safe s
  refine ⟨r, hr, fun q hq => ?_⟩
  obtain ⟨a, b, c, d, e, f, g, g', _⟩ := hs q hq
  exact ⟨a, b, c, d, e, f, g, g'⟩

/-- in every accepted position the side not to move is not in check (the loader's last structural test) -/
theorem parseFen_oppSafe {s : Bytes} {p : Position} (h : parseFen s = .ok (.ok p)) : MM.OppSafe p := by
  obtain ⟨r, hr, hs⟩ := parseFen_spec_safe s
  rw [h] at hr
  simp only [Except.ok.injEq] at hr
  exact (hs p hr.symm).2.2.2.2.2.2.2.2

end Magog.FenLemmas
