import Magog.Props.C01
import Magog.Props.C02
import Magog.Props.C18
import Magog.Lemmas.GenPure
import Magog.Lemmas.CountTac
import Magog.Model.Uci

/-! Totality of the legal-move generators and of the perft drivers: on a well-formed legal position
    (`Inv p ∧ MM.OppSafe p`) neither `generateMoves`, `generateTacticalMoves`, `perft`, `perftTactical`
    nor the UCI drivers `perftDivide` / `tperftDivide` panic (totality of the two leaf counters
    `countMoves` / `countTacticalMoves` is a hypothesis of the perft theorems; it is proved elsewhere). -/

namespace Magog.TotalGen
open Magog Magog.Model Magog.MM Magog.Count Magog.GenPure Magog.GenGeoO Magog.Atk Magog.Geo

/-! ### generic loop lemmas -/

theorem filterM'_total {α} {f : α → M Bool} {l : List α} (h : ∀ x ∈ l, ∃ b, f x = .ok b) :
    ∃ r, filterM' f l = .ok r ∧ ∀ x ∈ r, x ∈ l ∧ f x = .ok true := by
  induction l with
  | nil => exact ⟨[], rfl, fun x hx => by cases hx⟩
  | cons y ys ih =>
    obtain ⟨b, hb⟩ := h y List.mem_cons_self
    obtain ⟨r, hr, hrm⟩ := ih (fun x hx => h x (List.mem_cons_of_mem _ hx))
    refine ⟨if b then y :: r else r, by simp only [filterM', hb, hr, ok_bind, pure_eq_ok], ?_⟩
    intro x hx
    cases b
    · simp only [Bool.false_eq_true, if_false] at hx
      exact ⟨List.mem_cons_of_mem _ (hrm x hx).1, (hrm x hx).2⟩
    · simp only [if_true, List.mem_cons] at hx
      rcases hx with rfl | hx
      · exact ⟨List.mem_cons_self, hb⟩
      · exact ⟨List.mem_cons_of_mem _ (hrm x hx).1, (hrm x hx).2⟩

theorem flatMapM'_total {α β} {f : α → M (List β)} {l : List α} (h : ∀ x ∈ l, ∃ a, f x = .ok a) :
    ∃ r, flatMapM' f l = .ok r := by
  induction l with
  | nil => exact ⟨[], rfl⟩
  | cons y ys ih =>
    obtain ⟨a, ha⟩ := h y List.mem_cons_self
    obtain ⟨r, hr⟩ := ih (fun x hx => h x (List.mem_cons_of_mem _ hx))
    exact ⟨a ++ r, by simp only [flatMapM', ha, hr, ok_bind, pure_eq_ok]⟩

theorem sumM'_total {α} {f : α → M Nat} {l : List α} (h : ∀ x ∈ l, ∃ n, f x = .ok n) :
    ∃ n, sumM' f l = .ok n := by
  induction l with
  | nil => exact ⟨0, rfl⟩
  | cons y ys ih =>
    obtain ⟨a, ha⟩ := h y List.mem_cons_self
    obtain ⟨r, hr⟩ := ih (fun x hx => h x (List.mem_cons_of_mem _ hx))
    exact ⟨a + r, by simp only [sumM', ha, hr, ok_bind, pure_eq_ok]⟩

theorem mapM_total {α β} {f : α → M β} {l : List α} (h : ∀ x ∈ l, ∃ b, f x = .ok b) :
    ∃ r, l.mapM f = .ok r := by
  induction l with
  | nil => exact ⟨[], rfl⟩
  | cons y ys ih =>
    obtain ⟨a, ha⟩ := h y List.mem_cons_self
    obtain ⟨r, hr⟩ := ih (fun x hx => h x (List.mem_cons_of_mem _ hx))
    exact ⟨a :: r, by simp only [List.mapM_cons, ha, hr, ok_bind, pure_eq_ok]⟩

/-! ### cells -/

theorem cellsOk_of_inv {p : Position} (hI : Inv p) : Count.CellsOk p := by
  intro x hx
  have hall : ∀ v ∈ 0 :: pieceCodes, CellOk v := by decide
  obtain ⟨i, hi, hxi⟩ := Array.mem_iff_getElem.1 (Array.mem_toList_iff.1 hx)
  have hi128 : i < 128 := by rw [← hI.board.size]; exact hi
  have hsome : p.board[i]? = some x := by rw [Array.getElem?_eq_getElem hi, hxi]
  cases hv : isValid i
  · have := hI.offBoard i hi128 hv
    rw [hsome] at this
    simp only [Option.some.injEq] at this
    rw [this]; exact hall 0 List.mem_cons_self
  · obtain ⟨v, hv', hc⟩ := hI.board.codes i hi128 hv
    rw [hsome] at hv'
    simp only [Option.some.injEq] at hv'
    rw [hv']; exact hall _ (List.mem_cons.2 hc)

/-! ### the tactical pseudo-legal generator never panics -/

theorem captureRM_ok (mv : Move) {att x : Nat} (ha : att ∈ kinds) (hx : x ∈ kinds) :
    ∃ rm, captureRM mv att x = .ok rm := by
  obtain ⟨s1, hs1⟩ := pieceToScore_ok hx
  obtain ⟨s2, hs2⟩ := pieceToScore_ok ha
  exact ⟨_, by simp only [captureRM, hs1, hs2, ok_bind, pure_eq_ok]; rfl⟩

theorem pawnGenTactical_ok {p : Position} {c : Ctx} {w : Bool} {kt : Killers} (env : Env p c w kt) {frm : Nat}
    (hf : frm ∈ c.cur.pawns) : ∃ a, pawnGenTactical p c frm = .ok a := by
  obtain ⟨a, ha, _⟩ := pawnCapQ_view env hf
  obtain ⟨b, hb, _⟩ := pawnCapK_view env hf
  obtain ⟨_, _, hg⟩ := pawn_mem env hf
  have hlt1 : addb frm c.adv < p.board.size := by rw [env.adv]; exact lt_size env.board hg.to1_mem
  exact ⟨_, by simp only [pawnGenTactical_eq, ha, hb, pawnPushTac, bget_cell hlt1, ok_bind, pure_eq_ok]; rfl⟩

theorem knightGenTactical_ok {p : Position} {c : Ctx} {w : Bool} {kt : Killers} (env : Env p c w kt) (frm : Nat) :
    ∃ a, knightGenTactical p c frm = .ok a := by
  unfold knightGenTactical
  apply flatMapM'_total
  intro d _
  cases hv : isValid (addb frm d)
  · exact ⟨[], by simp only [hv, andM_false, ok_bind, Bool.false_eq_true, if_false, pure_eq_ok]⟩
  · have hm := addb_mem hv
    have hlt := lt_size env.board hm
    cases he : (cell p.board (addb frm d) &&& c.enBit != 0)
    · exact ⟨[], by simp only [hv, andM_true, bget_cell hlt, ok_bind, pure_eq_ok, he, Bool.false_eq_true, if_false]⟩
    · obtain ⟨rm, hrm⟩ := captureRM_ok ⟨frm, addb frm d, 0, InvalidSq⟩ (att := Knight) (by decide)
        (enemy_kind env hm he)
      exact ⟨[rm], by simp only [hv, andM_true, bget_cell hlt, ok_bind, pure_eq_ok, he, if_true, hrm]⟩

theorem slideDirTactical_ok {p : Position} {c : Ctx} {w : Bool} {kt : Killers} (env : Env p c w kt)
    {frm : Nat} (hf : frm ∈ sq88) (hfk : cell p.board frm &&& Colorless ∈ kinds) (dir : Nat) :
    ∀ (fuel sq : Nat) (l : List Nat), ray dir fuel sq = some l → (∀ s ∈ l, s ∈ sq88) →
      ∃ a, slideDirTactical p.board c frm dir fuel sq = .ok a := by
  intro fuel
  induction fuel with
  | zero => intro sq l h; simp [ray] at h
  | succ n ih =>
    intro sq l h hl
    simp only [ray] at h
    cases hv : isValid sq
    · exact ⟨[], by simp only [slideDirTactical, hv, Bool.not_false, if_true, pure_eq_ok]⟩
    · simp only [hv, Bool.not_true, Bool.false_eq_true, if_false, Option.map_eq_some_iff] at h
      obtain ⟨l', hl', rfl⟩ := h
      have hm : sq ∈ sq88 := hl sq List.mem_cons_self
      have hlt := lt_size env.board hm
      have hfl := lt_size env.board hf
      cases hc : (cell p.board sq &&& c.curBit != 0)
      · cases he : (cell p.board sq &&& c.enBit != 0)
        · obtain ⟨a, ha'⟩ := ih (addb sq dir) l' hl' (fun s hs => hl s (List.mem_cons_of_mem _ hs))
          exact ⟨a, by simp only [slideDirTactical, hv, Bool.not_true, Bool.false_eq_true, if_false,
            bget_cell hlt, ok_bind, hc, he, ha']⟩
        · obtain ⟨rm, hrm⟩ := captureRM_ok ⟨frm, sq, 0, InvalidSq⟩ hfk (enemy_kind env hm he)
          exact ⟨[rm], by simp only [slideDirTactical, hv, Bool.not_true, Bool.false_eq_true, if_false,
            bget_cell hlt, bget_cell hfl, ok_bind, hc, he, if_true, hrm, pure_eq_ok]⟩
      · exact ⟨[], by simp only [slideDirTactical, hv, Bool.not_true, Bool.false_eq_true, if_false,
          bget_cell hlt, ok_bind, hc, if_true, pure_eq_ok]⟩

theorem slideTactical_ok {p : Position} {c : Ctx} {w : Bool} {kt : Killers} (env : Env p c w kt) {frm : Nat}
    (hf : frm ∈ sq88) (hfk : cell p.board frm &&& Colorless ∈ kinds) {dirs : List Nat}
    (hd : ∀ d ∈ dirs, d ∈ kingDirs) :
    ∃ a, flatMapM' (fun d => slideDirTactical p.board c frm d 8 (addb frm d)) dirs = .ok a := by
  apply flatMapM'_total
  intro d hdd
  exact slideDirTactical_ok env hf hfk d 8 (addb frm d) (rayOf frm d) (ray_some hf (hd d hdd))
    (fun s hs => rayOf_valid hf (hd d hdd) hs)

theorem pieceGenTactical_ok {p : Position} {c : Ctx} {w : Bool} {kt : Killers} (env : Env p c w kt) {frm : Nat}
    (hf : frm ∈ c.cur.pieces) : ∃ a, pieceGenTactical p c frm = .ok a := by
  obtain ⟨hm, hoff⟩ := officer_mem env hf
  have hk := officer_kind hoff
  unfold pieceGenTactical
  simp only [bget_cell (lt_size env.board hm), ok_bind]
  rcases officer_cases hoff with h | ⟨h1, h2⟩ | ⟨h1, h2, h3⟩ | ⟨h1, h2, h3, h4⟩
  · simp only [h, if_true]
    exact knightGenTactical_ok env frm
  · simp only [h1, h2, Bool.false_eq_true, if_false, if_true]
    exact slideTactical_ok env hm hk (fun d hd => bishopDirs_sub hd)
  · simp only [h1, h2, h3, Bool.false_eq_true, if_false, if_true]
    exact slideTactical_ok env hm hk (fun d hd => rookDirs_sub hd)
  · simp only [h1, h2, h3, h4, Bool.false_eq_true, if_false, if_true]
    exact slideTactical_ok env hm hk (fun d hd => hd)

theorem kingGenTactical_ok {p : Position} {c : Ctx} {w : Bool} {kt : Killers} (env : Env p c w kt) :
    ∃ a, kingGenTactical p c = .ok a := by
  unfold kingGenTactical
  apply flatMapM'_total
  intro d _
  cases hv : isValid (addb c.cur.king d)
  · exact ⟨[], by simp only [hv, andM_false, ok_bind, Bool.false_eq_true, if_false, pure_eq_ok]⟩
  · have hm := addb_mem hv
    have hlt := lt_size env.board hm
    have hchk := isUnderCheck_eq env.board env.en hm
    cases he : (cell p.board (addb c.cur.king d) &&& c.enBit != 0)
    · exact ⟨[], by simp only [hv, andM_true, andM_false, bget_cell hlt, ok_bind, pure_eq_ok, he,
        Bool.false_eq_true, if_false]⟩
    · cases hs : Spec.attacked (absBoard p.board) (colorOf (!w)) (to64 (addb c.cur.king d))
      · obtain ⟨rm, hrm⟩ := captureRM_ok ⟨c.cur.king, addb c.cur.king d, 0, InvalidSq⟩ (att := King) (by decide)
          (enemy_kind env hm he)
        exact ⟨[rm], by simp only [hv, andM_true, bget_cell hlt, ok_bind, pure_eq_ok, he, hchk, hs,
          Bool.not_false, if_true, hrm]⟩
      · exact ⟨[], by simp only [hv, andM_true, bget_cell hlt, ok_bind, pure_eq_ok, he, hchk, hs,
          Bool.not_true, Bool.false_eq_true, if_false]⟩

theorem genPseudoTactical_total {p : Position} (hI : Inv p) : ∃ ts, genPseudoTactical p = .ok ts := by
  have env := env_of_inv hI Props.C18.killers_empty_size
  obtain ⟨a, ha⟩ := flatMapM'_total (f := pawnGenTactical p p.ctx) (l := p.ctx.cur.pawns)
    (fun x hx => pawnGenTactical_ok env hx)
  obtain ⟨b, hb⟩ := flatMapM'_total (f := pieceGenTactical p p.ctx) (l := p.ctx.cur.pieces)
    (fun x hx => pieceGenTactical_ok env hx)
  obtain ⟨k, hk⟩ := kingGenTactical_ok env
  exact ⟨a ++ b ++ k, by simp only [genPseudoTactical, ha, hb, hk, ok_bind, pure_eq_ok]⟩

/-! ### the legal generators -/

theorem isLegal_true_iff {p : Position} {m : Move} :
    isLegal p m = .ok true ↔ ∃ q, makeMove p m = .ok (q, true) := by
  simp only [isLegal, bind_ok, pure_eq_ok, Except.ok.injEq]
  constructor
  · rintro ⟨⟨q, b⟩, h, rfl⟩
    exact ⟨q, h⟩
  · rintro ⟨q, h⟩
    exact ⟨(q, true), h, rfl⟩

theorem isLegal_ok {p : Position} {m : Move} (hI : Inv p) (hS : OppSafe p) (hG : Generated p m) :
    ∃ b, isLegal p m = .ok b := by
  obtain ⟨r, hr⟩ := Props.C02.makeMove_ok hI hS hG
  exact ⟨r.2, by simp only [isLegal, hr, ok_bind, pure_eq_ok]⟩

/-- the legality filter over a list of generated moves never panics -/
theorem legalFilter_total {p : Position} {ps : List RMove} (hI : Inv p) (hS : OppSafe p)
    (hG : ∀ rm ∈ ps, Generated p rm.mov) :
    ∃ ms, filterM' (fun rm => isLegal p rm.mov) ps = .ok ms ∧
      ∀ rm ∈ ms, Generated p rm.mov ∧ ∃ q, makeMove p rm.mov = .ok (q, true) := by
  obtain ⟨ms, hms, hmem⟩ := filterM'_total (f := fun rm : RMove => isLegal p rm.mov) (l := ps)
    (fun rm hrm => isLegal_ok hI hS (hG rm hrm))
  exact ⟨ms, hms, fun rm hrm => ⟨hG rm (hmem rm hrm).1, isLegal_true_iff.1 (hmem rm hrm).2⟩⟩

/-- the full generator never panics; every listed move is generated and accepted by makeMove -/
theorem generateMoves_total {p : Position} {kt : Killers} (hI : Inv p) (hS : OppSafe p)
    (hk : kt.size = Gen.killerMovesMaxPly) :
    ∃ ms, generateMoves kt p = .ok ms ∧
      ∀ rm ∈ ms, Generated p rm.mov ∧ ∃ q, makeMove p rm.mov = .ok (q, true) := by
  obtain ⟨ps, hps⟩ := Props.C01.genPseudo_ok hI kt hk
  obtain ⟨ms, hms, hmem⟩ := legalFilter_total (ps := ps) hI hS
    (fun rm hrm => ⟨kt, ps, hps, List.mem_map_of_mem hrm⟩)
  exact ⟨ms, by simp only [generateMoves, hps, ok_bind, hms], hmem⟩

theorem generateTacticalMoves_total {p : Position} (hI : Inv p) (hS : OppSafe p) :
    ∃ ts, generateTacticalMoves p = .ok ts ∧
      ∀ rm ∈ ts, Generated p rm.mov ∧ ∃ q, makeMove p rm.mov = .ok (q, true) := by
  obtain ⟨fs, hfs⟩ := Props.C01.genPseudo_ok hI Killers.empty Props.C18.killers_empty_size
  obtain ⟨tps, htps⟩ := genPseudoTactical_total hI
  have hrel : TacRel tps fs := genPseudo_rel (cellsOk_of_inv hI) htps hfs
  obtain ⟨ms, hms, hmem⟩ := legalFilter_total (ps := tps) hI hS (fun rm hrm => by
    refine ⟨Killers.empty, fs, hfs, ?_⟩
    have h1 : rm.mov ∈ tps.map (·.mov) := List.mem_map_of_mem hrm
    rw [hrel] at h1
    obtain ⟨y, hy, hye⟩ := List.mem_map.1 h1
    exact List.mem_map.2 ⟨y, (List.mem_filter.1 hy).1, hye⟩)
  exact ⟨ms, by simp only [generateTacticalMoves, htps, ok_bind, hms], hmem⟩

/-- children of listed moves are again well-formed legal positions (from C02.makeMove_inv) -/
theorem child_good {p q : Position} {m : Move} (hI : Inv p) (hS : OppSafe p) (hG : Generated p m)
    (h : makeMove p m = .ok (q, true)) : Inv q ∧ OppSafe q :=
  Props.C02.makeMove_inv hI hS hG h

/-! ### perft -/

/-- the loop body shared by `perft`, `perftTactical` and the two divide drivers -/
theorem step_total {β} {p : Position} {m : Move} {cap idx : Nat} (hI : Inv p) (hS : OppSafe p)
    (hG : Generated p m) (hq : ∃ q, makeMove p m = .ok (q, true)) (hidx : idx + 1 < cap)
    (k : Position → M β) (hk : ∀ q, Inv q → OppSafe q → ∃ n, k q = .ok n) :
    ∃ n, (if idx + 1 ≥ cap then (throw (.index "posStack" (idx + 1)) : M β) else do
        let r ← makeMove p m
        if !r.2 then throw (.explicit "Applying move resulted in illegal position") else
        k r.1) = .ok n := by
  obtain ⟨q, hq⟩ := hq
  obtain ⟨hI', hS'⟩ := child_good hI hS hG hq
  obtain ⟨n, hn⟩ := hk q hI' hS'
  refine ⟨n, ?_⟩
  rw [if_neg (by omega)]
  simp only [hq, ok_bind, Bool.not_true, Bool.false_eq_true, if_false, hn]

/-- perft never panics (counter totality is a hypothesis here; it is proved in another file) -/
theorem perft_total (hcnt : ∀ q, Inv q → OppSafe q → ∃ n, countMoves q = .ok n)
    {kt : Killers} (hk : kt.size = Gen.killerMovesMaxPly) (cap : Nat) :
    ∀ (d idx : Nat) (p : Position), Inv p → OppSafe p → idx + d < cap → ∃ n, perft kt cap d idx p = .ok n := by
  intro d
  induction d using Nat.strongRecOn with
  | _ d ih =>
    intro idx p hI hS hcap
    match d with
    | 0 => exact ⟨1, rfl⟩
    | 1 => exact hcnt p hI hS
    | d + 2 =>
      obtain ⟨ms, hms, hmem⟩ := generateMoves_total (kt := kt) hI hS hk
      simp only [perft, hms, ok_bind]
      apply sumM'_total
      intro rm hrm
      exact step_total hI hS (hmem rm hrm).1 (hmem rm hrm).2 (by omega) (perft kt cap (d + 1) (idx + 1))
        (fun q hq1 hq2 => ih (d + 1) (by omega) (idx + 1) q hq1 hq2 (by omega))

theorem perftTactical_total (hcnt : ∀ q, Inv q → OppSafe q → ∃ n, countTacticalMoves q = .ok n)
    {kt : Killers} (hk : kt.size = Gen.killerMovesMaxPly) (cap : Nat) :
    ∀ (d idx : Nat) (p : Position), Inv p → OppSafe p → idx + d < cap →
      ∃ n, perftTactical kt cap d idx p = .ok n := by
  intro d
  induction d using Nat.strongRecOn with
  | _ d ih =>
    intro idx p hI hS hcap
    match d with
    | 0 => exact hcnt p hI hS
    | 1 => exact hcnt p hI hS
    | d + 2 =>
      obtain ⟨ms, hms, hmem⟩ := generateMoves_total (kt := kt) hI hS hk
      simp only [perftTactical, hms, ok_bind]
      apply sumM'_total
      intro rm hrm
      exact step_total hI hS (hmem rm hrm).1 (hmem rm hrm).2 (by omega)
        (perftTactical kt cap (d + 1) (idx + 1))
        (fun q hq1 hq2 => ih (d + 1) (by omega) (idx + 1) q hq1 hq2 (by omega))

theorem perftDivide_total (hcnt : ∀ q, Inv q → OppSafe q → ∃ n, countMoves q = .ok n)
    {kt : Killers} (hk : kt.size = Gen.killerMovesMaxPly) {cap d : Nat} {p : Position}
    (hI : Inv p) (hS : OppSafe p) (hd0 : 0 < d) (hd : d < cap) : ∃ r, perftDivide kt cap p d = .ok r := by
  obtain ⟨ms, hms, hmem⟩ := generateMoves_total (kt := kt) hI hS hk
  simp only [perftDivide, hms, ok_bind]
  apply mapM_total
  intro rm hrm
  exact step_total (idx := 0) hI hS (hmem rm hrm).1 (hmem rm hrm).2 (by omega)
    (fun q => do let n ← perft kt cap (d - 1) 1 q; pure (rm.mov, n))
    (fun q hq1 hq2 => by
      obtain ⟨n, hn⟩ := perft_total hcnt hk cap (d - 1) 1 q hq1 hq2 (by omega)
      exact ⟨(rm.mov, n), by simp only [hn, ok_bind, pure_eq_ok]⟩)

set_option linter.unusedVariables false in  -- `hd0` is implied by the case split, kept for a uniform signature
theorem tperftDivide_total (hcnt : ∀ q, Inv q → OppSafe q → ∃ n, countTacticalMoves q = .ok n)
    {kt : Killers} (hk : kt.size = Gen.killerMovesMaxPly) {cap d : Nat} {p : Position}
    (hI : Inv p) (hS : OppSafe p) (hd0 : 0 < d) (hd : d < cap) : ∃ r, tperftDivide kt cap p d = .ok r := by
  unfold tperftDivide
  by_cases h1 : d ≤ 1
  · obtain ⟨ts, hts, _⟩ := generateTacticalMoves_total hI hS
    exact ⟨_, by simp only [h1, if_true, hts, ok_bind, pure_eq_ok]; rfl⟩
  · obtain ⟨ms, hms, hmem⟩ := generateMoves_total (kt := kt) hI hS hk
    simp only [h1, if_false, hms, ok_bind]
    apply mapM_total
    intro rm hrm
    exact step_total (idx := 0) hI hS (hmem rm hrm).1 (hmem rm hrm).2 (by omega)
      (fun q => do let n ← perftTactical kt cap (d - 1) 1 q; pure (rm.mov, n))
      (fun q hq1 hq2 => by
        obtain ⟨n, hn⟩ := perftTactical_total hcnt hk cap (d - 1) 1 q hq1 hq2 (by omega)
        exact ⟨(rm.mov, n), by simp only [hn, ok_bind, pure_eq_ok]⟩)

/-! ### non-vacuity: the start position -/

example : ∃ ms, generateMoves Killers.empty startPosition = .ok ms ∧
    ∀ rm ∈ ms, Generated startPosition rm.mov ∧ ∃ q, makeMove startPosition rm.mov = .ok (q, true) :=
  generateMoves_total inv_startPosition Props.C02.oppSafe_start Props.C18.killers_empty_size

example : Count.CellsOk startPosition := cellsOk_of_inv inv_startPosition

example : ∃ ts, genPseudoTactical startPosition = .ok ts := genPseudoTactical_total inv_startPosition

example : ∃ ts, generateTacticalMoves startPosition = .ok ts ∧
    ∀ rm ∈ ts, Generated startPosition rm.mov ∧ ∃ q, makeMove startPosition rm.mov = .ok (q, true) :=
  generateTacticalMoves_total inv_startPosition Props.C02.oppSafe_start

/-- `child_good` on 1. e4 -/
example : ∃ q, makeMove startPosition ⟨0x14, 0x34, 0, 0x24⟩ = .ok (q, true) ∧ Inv q ∧ OppSafe q := by
  obtain ⟨_, q, h, _⟩ := gameOk_of_B (kt := Killers.empty) (p := startPosition)
    (ms := [⟨0x14, 0x34, 0, 0x24⟩]) (by decide +kernel)
  exact ⟨q, h, child_good inv_startPosition Props.C02.oppSafe_start Props.C02.generated_e2e4 h⟩

/-- the hypotheses of the perft theorems are satisfiable on the start position with the engine's stack
    capacity and any depth the UCI layer admits (`0 < d < plyBufferCapacity`) -/
example (hcnt : ∀ q, Inv q → OppSafe q → ∃ n, countMoves q = .ok n) :
    (∃ n, perft Killers.empty Gen.plyBufferCapacity 5 0 startPosition = .ok n) ∧
    (∃ r, perftDivide Killers.empty Gen.plyBufferCapacity startPosition 5 = .ok r) :=
  ⟨perft_total hcnt Props.C18.killers_empty_size _ 5 0 _ inv_startPosition Props.C02.oppSafe_start (by decide),
   perftDivide_total hcnt Props.C18.killers_empty_size inv_startPosition Props.C02.oppSafe_start (by decide)
     (by decide)⟩

example (hcnt : ∀ q, Inv q → OppSafe q → ∃ n, countTacticalMoves q = .ok n) :
    (∃ n, perftTactical Killers.empty Gen.plyBufferCapacity 5 0 startPosition = .ok n) ∧
    (∃ r, tperftDivide Killers.empty Gen.plyBufferCapacity startPosition 5 = .ok r) ∧
    (∃ r, tperftDivide Killers.empty Gen.plyBufferCapacity startPosition 1 = .ok r) :=
  ⟨perftTactical_total hcnt Props.C18.killers_empty_size _ 5 0 _ inv_startPosition Props.C02.oppSafe_start
     (by decide),
   tperftDivide_total hcnt Props.C18.killers_empty_size inv_startPosition Props.C02.oppSafe_start (by decide)
     (by decide),
   tperftDivide_total hcnt Props.C18.killers_empty_size inv_startPosition Props.C02.oppSafe_start (by decide)
     (by decide)⟩

end Magog.TotalGen
