import Magog.Model.Stack
import Magog.Lemmas.SearchFrame

/-! Lemmas about the explicit stack machine (`Model/Stack.lean`): push/pop restores, the bracket lemma,
    `perftS` / `perftTacticalS` are balanced and refine `perft` / `perftTactical`, the in-place turn flip of
    `LazyEvaluate` is undone. -/

namespace Magog.Model
open Magog

/-- `g'` is `g` as far as the caller can see: same index, same buffer size, slots `0 … idx` unchanged
    (slots above `idx` are scratch space and may have been overwritten) -/
structure Balanced (g g' : GenS) : Prop where
  idx : g'.idx = g.idx
  size : g'.stack.size = g.stack.size
  frame : ∀ i, i ≤ g.idx → g'.stack[i]? = g.stack[i]?

/-- the weaker contract of a callee that may rewrite its own top slot: same index, same size, slots strictly
    below `idx` unchanged -/
structure BalancedBelow (g g' : GenS) : Prop where
  idx : g'.idx = g.idx
  size : g'.stack.size = g.stack.size
  frame : ∀ i, i < g.idx → g'.stack[i]? = g.stack[i]?

theorem Balanced.refl (g : GenS) : Balanced g g := ⟨rfl, rfl, fun _ _ => rfl⟩

theorem Balanced.trans {a b c : GenS} (h1 : Balanced a b) (h2 : Balanced b c) : Balanced a c :=
  ⟨h2.idx.trans h1.idx, h2.size.trans h1.size,
   fun i hi => (h2.frame i (by rw [h1.idx]; exact hi)).trans (h1.frame i hi)⟩

theorem Balanced.below {g g' : GenS} (h : Balanced g g') : BalancedBelow g g' :=
  ⟨h.idx, h.size, fun i hi => h.frame i (Nat.le_of_lt hi)⟩

theorem Balanced.top {g g' : GenS} (h : Balanced g g') : g'.top = g.top := by
  unfold GenS.top
  rw [h.idx]
  exact h.frame _ (Nat.le_refl _)

/-- anatomy of a successful `pushMove` -/
theorem pushMove_ok {g : GenS} {m : Move} {g' : GenS} {b : Bool} (h : pushMove g m = .ok (g', b)) :
    ∃ p r, g.top = some p ∧ g.idx + 1 < g.stack.size ∧ makeMove p m = .ok r ∧ b = r.2 ∧
      g' = { stack := g.stack.setIfInBounds (g.idx + 1) r.1, idx := g.idx + 1 } := by
  unfold pushMove at h
  split at h
  · exact absurd h (by simp [throw_ok])
  rename_i hcap
  have hlt : g.idx + 1 < g.stack.size := by omega
  split at h
  · exact absurd h (by simp [throw_ok])
  rename_i p hp
  have hq : (g.stack.setIfInBounds (g.idx + 1) p)[g.idx + 1]? = some p := by
    rw [Array.getElem?_setIfInBounds]
    simp [hlt]
  dsimp only at h
  rw [hq] at h
  dsimp only at h
  obtain ⟨r, hr, h⟩ := bind_ok.1 h
  simp only [pure_ok, Prod.mk.injEq] at h
  refine ⟨p, r, hp, hlt, hr, h.2.symm, ?_⟩
  rw [← h.1, Array.setIfInBounds_setIfInBounds]

theorem pushMove_idx {g : GenS} {m : Move} {g' : GenS} {b : Bool} (h : pushMove g m = .ok (g', b)) :
    g'.idx = g.idx + 1 := by
  obtain ⟨p, r, _, _, _, _, rfl⟩ := pushMove_ok h
  rfl

theorem pushMove_size {g : GenS} {m : Move} {g' : GenS} {b : Bool} (h : pushMove g m = .ok (g', b)) :
    g'.stack.size = g.stack.size := by
  obtain ⟨p, r, _, _, _, _, rfl⟩ := pushMove_ok h
  simp

/-- copy-make: `pushMove` writes slot `idx + 1` only -/
theorem pushMove_frame {g : GenS} {m : Move} {g' : GenS} {b : Bool} (h : pushMove g m = .ok (g', b)) :
    ∀ i, i ≤ g.idx → g'.stack[i]? = g.stack[i]? := by
  obtain ⟨p, r, _, _, _, _, rfl⟩ := pushMove_ok h
  intro i hi
  simp only [Array.getElem?_setIfInBounds]
  rw [if_neg (by omega)]

/-- the new top is the result of `makeMove` on the old top -/
theorem pushMove_top {g : GenS} {m : Move} {g' : GenS} {b : Bool} (h : pushMove g m = .ok (g', b)) :
    ∃ p q, g.top = some p ∧ makeMove p m = .ok (q, b) ∧ g'.top = some q := by
  obtain ⟨p, r, hp, hlt, hr, rfl, rfl⟩ := pushMove_ok h
  refine ⟨p, r.1, hp, hr, ?_⟩
  unfold GenS.top
  simp only [Array.getElem?_setIfInBounds]
  simp [hlt]

/-- `pushMove` succeeds exactly when there is room and `makeMove` does not panic -/
theorem pushMove_of_makeMove {g : GenS} {m : Move} {p : Position} {r : Position × Bool}
    (hp : g.top = some p) (hlt : g.idx + 1 < g.stack.size) (hr : makeMove p m = .ok r) :
    pushMove g m = .ok ({ stack := g.stack.setIfInBounds (g.idx + 1) r.1, idx := g.idx + 1 }, r.2) := by
  unfold GenS.top at hp
  unfold pushMove
  rw [if_neg (by omega), hp]
  dsimp only
  have hq : (g.stack.setIfInBounds (g.idx + 1) p)[g.idx + 1]? = some p := by
    rw [Array.getElem?_setIfInBounds]
    simp [hlt]
  rw [hq]
  dsimp only
  rw [hr]
  show Except.ok _ = Except.ok _
  rw [Array.setIfInBounds_setIfInBounds]

/-- popping after a push (with anything balanced-below in between) is balanced -/
theorem pop_balanced {g g1 g2 : GenS} (hidx : g1.idx = g.idx + 1) (hsize : g1.stack.size = g.stack.size)
    (hframe : ∀ i, i ≤ g.idx → g1.stack[i]? = g.stack[i]?) (hk : BalancedBelow g1 g2) :
    Balanced g (popMove g2) := by
  refine ⟨?_, ?_, ?_⟩
  · show g2.idx - 1 = g.idx
    rw [hk.idx, hidx]; rfl
  · show g2.stack.size = _
    rw [hk.size, hsize]
  · intro i hi
    show g2.stack[i]? = _
    rw [hk.frame i (by omega), hframe i hi]

theorem push_pop_balanced {g : GenS} {m : Move} {g' : GenS} {b : Bool} (h : pushMove g m = .ok (g', b)) :
    Balanced g (popMove g') :=
  pop_balanced (pushMove_idx h) (pushMove_size h) (pushMove_frame h) ⟨rfl, rfl, fun _ _ => rfl⟩

theorem pushLegal_ok {g : GenS} {m : Move} {g' : GenS} (h : pushLegal g m = .ok g') :
    pushMove g m = .ok (g', true) := by
  unfold pushLegal at h
  obtain ⟨⟨g1, ok⟩, hp, h⟩ := bind_ok.1 h
  dsimp only at h
  split at h
  · exact absurd h (by simp [throw_ok])
  · rename_i hok
    simp only [pure_ok] at h
    subst h
    cases ok <;> simp_all

/-- **bracket lemma** (legality-checking bracket): if the body `k`, run on a generator one level up, comes
    back at that level without touching the slots below it, then the whole bracket is balanced -/
theorem withMove_balanced {α} {g : GenS} {m : Move} {k : GenS → M (α × GenS)} {a : α} {g' : GenS}
    (hk : ∀ g1 a g2, g1.idx = g.idx + 1 → g1.stack.size = g.stack.size → k g1 = .ok (a, g2) → BalancedBelow g1 g2)
    (h : withMove g m k = .ok (a, g')) : Balanced g g' := by
  unfold withMove at h
  obtain ⟨g1, hp, h⟩ := bind_ok.1 h
  obtain ⟨⟨a', g2⟩, hkk, h⟩ := bind_ok.1 h
  simp only [pure_ok, Prod.mk.injEq] at h
  obtain ⟨rfl, rfl⟩ := h
  have hp' := pushLegal_ok hp
  exact pop_balanced (pushMove_idx hp') (pushMove_size hp') (pushMove_frame hp')
    (hk _ _ _ (pushMove_idx hp') (pushMove_size hp') hkk)

/-- **bracket lemma** (unchecked bracket) -/
theorem withMoveUnchecked_balanced {α} {g : GenS} {m : Move} {k : GenS → M (α × GenS)} {a : α} {g' : GenS}
    (hk : ∀ g1 a g2, g1.idx = g.idx + 1 → g1.stack.size = g.stack.size → k g1 = .ok (a, g2) → BalancedBelow g1 g2)
    (h : withMoveUnchecked g m k = .ok (a, g')) : Balanced g g' := by
  unfold withMoveUnchecked at h
  obtain ⟨⟨g1, b⟩, hp, h⟩ := bind_ok.1 h
  obtain ⟨⟨a', g2⟩, hkk, h⟩ := bind_ok.1 h
  simp only [pure_ok, Prod.mk.injEq] at h
  obtain ⟨rfl, rfl⟩ := h
  exact pop_balanced (pushMove_idx hp) (pushMove_size hp) (pushMove_frame hp)
    (hk _ _ _ (pushMove_idx hp) (pushMove_size hp) hkk)

/-! ### the perft loops -/

/-- one step of the functional perft loops (`perft`, `perftTactical`) with the recursive call abstracted -/
def perftStep (cap idx : Nat) (p : Position) (child : Nat → Position → M Nat) (rm : RMove) : M Nat :=
  if idx + 1 ≥ cap then throw (.index "posStack" (idx + 1)) else do
    let r ← makeMove p rm.mov
    if !r.2 then throw (.explicit "Applying move resulted in illegal position") else
    child (idx + 1) r.1

/-- a stack-machine callee `kS` refines the functional `child` (on generators of buffer size `cap`) and is
    balanced -/
def Refines (cap : Nat) (kS : GenS → M (Nat × GenS)) (child : Nat → Position → M Nat) : Prop :=
  ∀ g n g', g.stack.size = cap → kS g = .ok (n, g') →
    Balanced g g' ∧ ∀ q, g.top = some q → child g.idx q = .ok n

theorem withMove_refines {cap : Nat} {kS : GenS → M (Nat × GenS)} {child : Nat → Position → M Nat}
    (hk : Refines cap kS child) {g : GenS} {rm : RMove} {n : Nat} {g' : GenS} (hsz : g.stack.size = cap)
    (h : withMove g rm.mov kS = .ok (n, g')) :
    Balanced g g' ∧ ∀ p, g.top = some p → perftStep cap g.idx p child rm = .ok n := by
  refine ⟨withMove_balanced (fun g1 a g2 _ hs hkk => (hk g1 a g2 (hs.trans hsz) hkk).1.below) h, ?_⟩
  intro p hp
  unfold withMove at h
  obtain ⟨g1, hpl, h⟩ := bind_ok.1 h
  obtain ⟨⟨a', g2⟩, hkk, h⟩ := bind_ok.1 h
  simp only [pure_ok, Prod.mk.injEq] at h
  obtain ⟨rfl, rfl⟩ := h
  have hpm := pushLegal_ok hpl
  obtain ⟨p', q, hp', hmk, htop⟩ := pushMove_top hpm
  rw [hp] at hp'
  cases hp'
  obtain ⟨_, _, _, hlt, _⟩ := pushMove_ok hpm
  have := (hk g1 a' g2 ((pushMove_size hpm).trans hsz) hkk).2 q htop
  rw [pushMove_idx hpm] at this
  unfold perftStep
  rw [if_neg (by omega), hmk]
  exact this

theorem sumS_refines {cap : Nat} {kS : GenS → M (Nat × GenS)} {child : Nat → Position → M Nat}
    (hk : Refines cap kS child) :
    ∀ (ms : List RMove) (g : GenS) (n : Nat) (g' : GenS), g.stack.size = cap →
      sumS (fun rm g => withMove g rm.mov kS) ms g = .ok (n, g') →
      Balanced g g' ∧ ∀ p, g.top = some p → sumM' (perftStep cap g.idx p child) ms = .ok n := by
  intro ms
  induction ms with
  | nil =>
    intro g n g' _ h
    simp only [sumS, pure_ok, Prod.mk.injEq] at h
    obtain ⟨rfl, rfl⟩ := h
    exact ⟨Balanced.refl _, fun p _ => rfl⟩
  | cons rm rest ih =>
    intro g n g' hsz h
    simp only [sumS] at h
    obtain ⟨⟨a, g1⟩, h1, h⟩ := bind_ok.1 h
    obtain ⟨⟨b, g2⟩, h2, h⟩ := bind_ok.1 h
    simp only [pure_ok, Prod.mk.injEq] at h
    obtain ⟨rfl, rfl⟩ := h
    obtain ⟨b1, r1⟩ := withMove_refines hk hsz h1
    obtain ⟨b2, r2⟩ := ih g1 b g2 (b1.size.trans hsz) h2
    refine ⟨b1.trans b2, fun p hp => ?_⟩
    simp only [sumM']
    rw [r1 p hp]
    have := r2 p (by rw [b1.top]; exact hp)
    rw [b1.idx] at this
    rw [bind_ok]
    exact ⟨a, rfl, by rw [this]; rfl⟩

theorem perftS_spec (kt : Killers) : ∀ (d : Nat) (cap : Nat),
    Refines cap (perftS kt d) (fun idx q => perft kt cap d idx q)
  | 0, cap => by
    intro g n g' _ h
    simp only [perftS, pure_ok, Prod.mk.injEq] at h
    obtain ⟨rfl, rfl⟩ := h
    exact ⟨Balanced.refl _, fun q _ => rfl⟩
  | 1, cap => by
    intro g n g' _ h
    simp only [perftS] at h
    split at h
    · exact absurd h (by simp [throw_ok])
    rename_i p hp
    obtain ⟨c, hc, h⟩ := bind_ok.1 h
    simp only [pure_ok, Prod.mk.injEq] at h
    obtain ⟨rfl, rfl⟩ := h
    refine ⟨Balanced.refl _, fun q hq => ?_⟩
    rw [hp] at hq; cases hq
    simpa only [perft] using hc
  | d + 2, cap => by
    intro g n g' hsz h
    simp only [perftS] at h
    split at h
    · exact absurd h (by simp [throw_ok])
    rename_i p hp
    obtain ⟨ms, hms, h⟩ := bind_ok.1 h
    obtain ⟨bal, r⟩ := sumS_refines (perftS_spec kt (d + 1) cap) ms g n g' hsz h
    refine ⟨bal, fun q hq => ?_⟩
    rw [hp] at hq; cases hq
    simp only [perft]
    rw [hms]
    exact r _ hp

theorem perftTacticalS_spec (kt : Killers) : ∀ (d : Nat) (cap : Nat),
    Refines cap (perftTacticalS kt d) (fun idx q => perftTactical kt cap d idx q)
  | 0, cap => by
    intro g n g' _ h
    simp only [perftTacticalS] at h
    split at h
    · exact absurd h (by simp [throw_ok])
    rename_i p hp
    obtain ⟨c, hc, h⟩ := bind_ok.1 h
    simp only [pure_ok, Prod.mk.injEq] at h
    obtain ⟨rfl, rfl⟩ := h
    refine ⟨Balanced.refl _, fun q hq => ?_⟩
    rw [hp] at hq; cases hq
    simpa only [perftTactical] using hc
  | 1, cap => by
    intro g n g' _ h
    simp only [perftTacticalS] at h
    split at h
    · exact absurd h (by simp [throw_ok])
    rename_i p hp
    obtain ⟨c, hc, h⟩ := bind_ok.1 h
    simp only [pure_ok, Prod.mk.injEq] at h
    obtain ⟨rfl, rfl⟩ := h
    refine ⟨Balanced.refl _, fun q hq => ?_⟩
    rw [hp] at hq; cases hq
    simpa only [perftTactical] using hc
  | d + 2, cap => by
    intro g n g' hsz h
    simp only [perftTacticalS] at h
    split at h
    · exact absurd h (by simp [throw_ok])
    rename_i p hp
    obtain ⟨ms, hms, h⟩ := bind_ok.1 h
    obtain ⟨bal, r⟩ := sumS_refines (perftTacticalS_spec kt (d + 1) cap) ms g n g' hsz h
    refine ⟨bal, fun q hq => ?_⟩
    rw [hp] at hq; cases hq
    simp only [perftTactical]
    rw [hms]
    exact r _ hp

/-! ### converse: the stack machine runs whenever the functional model does -/

def Complete (cap : Nat) (kS : GenS → M (Nat × GenS)) (child : Nat → Position → M Nat) : Prop :=
  ∀ g n q, g.stack.size = cap → g.top = some q → child g.idx q = .ok n → ∃ g', kS g = .ok (n, g')

theorem withMove_complete {cap : Nat} {kS : GenS → M (Nat × GenS)} {child : Nat → Position → M Nat}
    (hc : Complete cap kS child) {g : GenS} {rm : RMove} {n : Nat} {p : Position} (hsz : g.stack.size = cap)
    (hp : g.top = some p) (h : perftStep cap g.idx p child rm = .ok n) :
    ∃ g', withMove g rm.mov kS = .ok (n, g') := by
  unfold perftStep at h
  split at h
  · exact absurd h (by simp [throw_ok])
  rename_i hcap
  obtain ⟨r, hr, h⟩ := bind_ok.1 h
  split at h
  · exact absurd h (by simp [throw_ok])
  rename_i hleg
  have hpm := pushMove_of_makeMove hp (by omega) hr
  have hr2 : r.2 = true := by cases hb : r.2 <;> simp_all
  obtain ⟨_, q, hp', hmk, htop⟩ := pushMove_top hpm
  rw [hp] at hp'; cases hp'
  rw [hr] at hmk
  have hq : q = r.1 := by
    have := congrArg Prod.fst (Except.ok.inj hmk)
    exact this.symm
  subst hq
  obtain ⟨g2, hk⟩ := hc _ n r.1 ((pushMove_size hpm).trans hsz) htop (by rw [pushMove_idx hpm]; exact h)
  refine ⟨popMove g2, ?_⟩
  unfold withMove pushLegal
  rw [hpm]
  show (if (!r.2) = true then _ else _) >>= _ = _
  rw [if_neg hleg]
  show (kS _ >>= _) = _
  rw [hk]
  rfl

theorem sumS_complete {cap : Nat} {kS : GenS → M (Nat × GenS)} {child : Nat → Position → M Nat}
    (hk : Refines cap kS child) (hc : Complete cap kS child) :
    ∀ (ms : List RMove) (g : GenS) (n : Nat) (p : Position), g.stack.size = cap → g.top = some p →
      sumM' (perftStep cap g.idx p child) ms = .ok n →
      ∃ g', sumS (fun rm g => withMove g rm.mov kS) ms g = .ok (n, g') := by
  intro ms
  induction ms with
  | nil =>
    intro g n p _ _ h
    simp only [sumM', pure_ok] at h
    subst h
    exact ⟨g, rfl⟩
  | cons rm rest ih =>
    intro g n p hsz hp h
    simp only [sumM'] at h
    obtain ⟨a, h1, h⟩ := bind_ok.1 h
    obtain ⟨b, h2, h⟩ := bind_ok.1 h
    simp only [pure_ok] at h
    subst h
    obtain ⟨g1, hw⟩ := withMove_complete hc hsz hp h1
    obtain ⟨bal, _⟩ := withMove_refines hk hsz hw
    obtain ⟨g2, hs⟩ := ih g1 b p (bal.size.trans hsz) (by rw [bal.top]; exact hp) (by rw [bal.idx]; exact h2)
    refine ⟨g2, ?_⟩
    simp only [sumS]
    rw [hw]
    show (sumS _ rest g1 >>= _) = _
    rw [hs]
    rfl

theorem perftS_complete (kt : Killers) : ∀ (d : Nat) (cap : Nat),
    Complete cap (perftS kt d) (fun idx q => perft kt cap d idx q)
  | 0, cap => by
    intro g n q _ _ h
    simp only [perft, pure_ok] at h
    subst h
    exact ⟨g, rfl⟩
  | 1, cap => by
    intro g n q _ hq h
    simp only [perft] at h
    refine ⟨g, ?_⟩
    simp only [perftS, hq, h]
    rfl
  | d + 2, cap => by
    intro g n q hsz hq h
    simp only [perft] at h
    obtain ⟨ms, hms, h⟩ := bind_ok.1 h
    obtain ⟨g', hs⟩ := sumS_complete (perftS_spec kt (d + 1) cap) (perftS_complete kt (d + 1) cap) ms g n q hsz hq h
    refine ⟨g', ?_⟩
    simp only [perftS, hq, hms]
    exact hs

theorem perftTacticalS_complete (kt : Killers) : ∀ (d : Nat) (cap : Nat),
    Complete cap (perftTacticalS kt d) (fun idx q => perftTactical kt cap d idx q)
  | 0, cap => by
    intro g n q _ hq h
    simp only [perftTactical] at h
    refine ⟨g, ?_⟩
    simp only [perftTacticalS, hq, h]
    rfl
  | 1, cap => by
    intro g n q _ hq h
    simp only [perftTactical] at h
    refine ⟨g, ?_⟩
    simp only [perftTacticalS, hq, h]
    rfl
  | d + 2, cap => by
    intro g n q hsz hq h
    simp only [perftTactical] at h
    obtain ⟨ms, hms, h⟩ := bind_ok.1 h
    obtain ⟨g', hs⟩ := sumS_complete (perftTacticalS_spec kt (d + 1) cap) (perftTacticalS_complete kt (d + 1) cap)
      ms g n q hsz hq h
    refine ⟨g', ?_⟩
    simp only [perftTacticalS, hq, hms]
    exact hs

/-! ### the in-place turn flip of `LazyEvaluate` -/

/-- xor-ing the same mask twice is the identity -/
theorem xor_xor_cancel (a b : Nat) : a ^^^ b ^^^ b = a := by
  rw [Nat.xor_assoc, Nat.xor_self, Nat.xor_zero]

theorem flipTurn_flipTurn (p : Position) : flipTurn (flipTurn p) = p := by
  unfold flipTurn
  simp only [xor_xor_cancel]

/-- the literal (mutating) evaluation is the functional one, and hands the position back unchanged — on every
    path, panics included -/
theorem lazyEvaluateInPlace_eq (blend : Blend) (p : Position) (d a b : Int) :
    lazyEvaluateInPlace blend p d a b = (do let x ← lazyEvaluate blend p d a b; pure (x, p)) := by
  unfold lazyEvaluateInPlace lazyEvaluate
  simp only [bind_assoc]
  congr 1; funext mate
  split
  · rfl
  simp only [bind_assoc]
  congr 1; funext cheap
  split
  · rfl
  simp only [bind_assoc]
  congr 1; funext own
  split
  · rfl
  simp only [bind_assoc]
  show (countMoves (flipTurn p) >>= fun enemy => pure (_, flipTurn (flipTurn p))) = _
  rw [flipTurn_flipTurn]
  rfl

theorem lazyEvaluateInPlace_ok {blend : Blend} {p : Position} {d a b : Int} {x : Int} {p' : Position}
    (h : lazyEvaluateInPlace blend p d a b = .ok (x, p')) : p' = p ∧ lazyEvaluate blend p d a b = .ok x := by
  rw [lazyEvaluateInPlace_eq] at h
  obtain ⟨y, hy, h⟩ := bind_ok.1 h
  simp only [pure_ok, Prod.mk.injEq] at h
  obtain ⟨rfl, rfl⟩ := h
  exact ⟨rfl, hy⟩

theorem setIfInBounds_self {α} {a : Array α} {i : Nat} {x : α} (h : a[i]? = some x) : a.setIfInBounds i x = a := by
  apply Array.ext_getElem?
  intro j
  rw [Array.getElem?_setIfInBounds]
  split
  · rename_i hij; subst hij
    split
    · exact h.symm
    · rename_i hn; rw [Array.getElem?_eq_none (by omega)] at h; cases h
  · rfl

/-- evaluation of the top of the position stack leaves the whole generator unchanged -/
theorem lazyEvaluateTop_ok {blend : Blend} {g : GenS} {d a b : Int} {x : Int} {g' : GenS}
    (h : lazyEvaluateTop blend g d a b = .ok (x, g')) :
    g' = g ∧ ∃ p, g.top = some p ∧ lazyEvaluate blend p d a b = .ok x := by
  unfold lazyEvaluateTop at h
  split at h
  · exact absurd h (by simp [throw_ok])
  rename_i p hp
  obtain ⟨⟨y, p'⟩, hy, h⟩ := bind_ok.1 h
  simp only [pure_ok, Prod.mk.injEq] at h
  obtain ⟨rfl, rfl⟩ := h
  obtain ⟨rfl, hy⟩ := lazyEvaluateInPlace_ok hy
  refine ⟨?_, p', hp, hy⟩
  rw [setIfInBounds_self hp]

/-- witness for the perft examples of `Props/C16.lean`: White Ka1, black Kh8, White to move (3 moves, 9 paths
    of length 2, 54 of length 3) — small enough for kernel evaluation of the stack machine -/
def c16Kings : Position :=
  { board := ((Array.replicate 128 0).setIfInBounds Gen.A1 Gen.WKing).setIfInBounds Gen.H8 Gen.BKing,
    blackPieces := [], whitePieces := [], blackPawns := [], whitePawns := [],
    blackKing := Gen.H8, whiteKing := Gen.A1, flags := Gen.FlagWhiteTurn, ep := InvalidSq, ply := 0 }

end Magog.Model
