import Magog.Lemmas.FenWritePlace
import Magog.Lemmas.FenCount

/-! C08 round trip, counting: the numeric clauses of `Spec.Legal` (one king each, at most 8 pawns and
    15 non-king men per side) are exactly what the loader's `hasRoomFor` and king-count tests need. -/

set_option linter.unusedSimpArgs false

namespace Magog.FenWrite
open Magog Magog.Model Magog.FenSpec Magog.FenLemmas

/-- the clauses of `Spec.Legal`, as propositions -/
structure LegalFacts (P : Spec.Pos) : Prop where
  size : P.board.size = 64
  wKing : Spec.kingsOf P .white = 1
  bKing : Spec.kingsOf P .black = 1
  safe : Spec.inCheck P.board P.turn.other = false
  backPawn : ∀ s : Nat, s < 64 → ∀ c, P.at s = some ⟨c, .pawn⟩ → Spec.rankOf s ≠ 0 ∧ Spec.rankOf s ≠ 7
  wPawns : Spec.pawnsOf P .white ≤ 8
  bPawns : Spec.pawnsOf P .black ≤ 8
  wMen : Spec.pawnsOf P .white + Spec.othersOf P .white ≤ 15
  bMen : Spec.pawnsOf P .black + Spec.othersOf P .black ≤ 15
  wk : P.wk = true → P.at 4 = some ⟨.white, .king⟩ ∧ P.at 7 = some ⟨.white, .rook⟩
  wq : P.wq = true → P.at 4 = some ⟨.white, .king⟩ ∧ P.at 0 = some ⟨.white, .rook⟩
  bk : P.bk = true → P.at 60 = some ⟨.black, .king⟩ ∧ P.at 63 = some ⟨.black, .rook⟩
  bq : P.bq = true → P.at 60 = some ⟨.black, .king⟩ ∧ P.at 56 = some ⟨.black, .rook⟩
  ep : ∀ e : Nat, P.ep = some e → e < 64 ∧
    (P.turn = .white → Spec.rankOf e = 5 ∧ P.at e = none ∧ P.at (e - 8) = some ⟨.black, .pawn⟩ ∧ P.at (e + 8) = none) ∧
    (P.turn = .black → Spec.rankOf e = 2 ∧ P.at e = none ∧ P.at (e + 8) = some ⟨.white, .pawn⟩ ∧ P.at (e - 8) = none)

theorem legalFacts {P : Spec.Pos} (h : Spec.Legal P = true) : LegalFacts P := by
  simp only [Spec.Legal, Bool.and_eq_true, beq_iff_eq, decide_eq_true_eq, Bool.not_eq_true'] at h
  obtain ⟨⟨⟨⟨⟨⟨⟨⟨⟨⟨⟨⟨⟨h1, h2⟩, h3⟩, h4⟩, h5⟩, h6⟩, h7⟩, h8⟩, h9⟩, h10⟩, h11⟩, h12⟩, h13⟩, h14⟩ := h
  refine ⟨h1, h2, h3, h4, ?_, h6, h7, h8, h9, ?_, ?_, ?_, ?_, ?_⟩
  · intro s hs c hc
    rw [List.all_eq_true] at h5
    have := h5 s (by simp [Spec.allSq]; exact hs)
    rw [hc] at this
    simpa using this
  · intro hw; simpa [hw] using h10
  · intro hw; simpa [hw] using h11
  · intro hw; simpa [hw] using h12
  · intro hw; simpa [hw] using h13
  · intro e he
    rw [he] at h14
    simp only [Bool.and_eq_true, decide_eq_true_eq] at h14
    refine ⟨h14.1, ?_, ?_⟩
    · intro ht
      have := h14.2
      rw [ht] at this
      simpa [Option.isNone_iff_eq_none, and_assoc] using this
    · intro ht
      have := h14.2
      rw [ht] at this
      simpa [Option.isNone_iff_eq_none, and_assoc] using this

/-! ### the squares in the order the placement field lists them -/

/-- a8 … h8, a7 … h7, …, a1 … h1 -/
def sqOrder : List Nat :=
  [56, 57, 58, 59, 60, 61, 62, 63, 48, 49, 50, 51, 52, 53, 54, 55, 40, 41, 42, 43, 44, 45, 46, 47,
   32, 33, 34, 35, 36, 37, 38, 39, 24, 25, 26, 27, 28, 29, 30, 31, 16, 17, 18, 19, 20, 21, 22, 23,
   8, 9, 10, 11, 12, 13, 14, 15, 0, 1, 2, 3, 4, 5, 6, 7]

theorem sqOrder_perm : sqOrder.Perm (List.range 64) := by decide +kernel

/-- the rank strings of the placement field -/
def rankRows (P : Spec.Pos) : List Bytes := [7, 6, 5, 4, 3, 2, 1, 0].map fun r => Spec.fenRankBytes P r

theorem rankRows_codes (P : Spec.Pos) :
    ((rankRows P).map expandRank).flatten = sqOrder.map (fun s => optCode (P.at s)) := by
  simp only [rankRows, List.map_cons, List.map_nil, expand_rank]
  rfl

theorem rankRows_get (P : Spec.Pos) (m : Nat) (hm : m < 8) : (rankRows P)[m]? = some (Spec.fenRankBytes P (7 - m)) := by
  match m, hm with
  | 0, _ => rfl | 1, _ => rfl | 2, _ => rfl | 3, _ => rfl | 4, _ => rfl | 5, _ => rfl | 6, _ => rfl | 7, _ => rfl

theorem rankRows_mem (P : Spec.Pos) (row : Bytes) (h : row ∈ rankRows P) : ∃ r, r < 8 ∧ row = Spec.fenRankBytes P r := by
  simp only [rankRows, List.mem_map] at h
  obtain ⟨r, hr, rfl⟩ := h
  refine ⟨r, ?_, rfl⟩
  simp at hr
  omega

theorem rankRows_get_inv (P : Spec.Pos) (m : Nat) (row : Bytes) (h : (rankRows P)[m]? = some row) :
    m < 8 ∧ row = Spec.fenRankBytes P (7 - m) := by
  have hm : m < 8 := by
    rcases Nat.lt_or_ge m 8 with h' | h'
    · exact h'
    · rw [List.getElem?_eq_none (by simpa [rankRows] using h')] at h; cases h
  rw [rankRows_get P m hm] at h
  exact ⟨hm, (Option.some.inj h).symm⟩

/-! ### counting men -/

theorem cnt_codes_eq (P : Spec.Pos) (codes : List Nat) (g : Spec.Man → Bool)
    (hg : ∀ m, codes.contains (manCode m) = g m) (h0 : (0 : Nat) ∉ codes) :
    cnt codes (((rankRows P).map expandRank).flatten) = Spec.countMen P g := by
  rw [rankRows_codes, cnt, List.countP_map, sqOrder_perm.countP_eq, Spec.countMen, Spec.allSq]
  apply List.countP_congr
  intro s _
  simp only [Function.comp]
  cases P.at s with
  | none => simpa [optCode] using h0
  | some m => simp [optCode, ← hg m]

theorem countMen_add (P : Spec.Pos) (f g h : Spec.Man → Bool)
    (hfg : ∀ m, (if h m then 1 else 0) = (if f m then 1 else 0) + (if g m then 1 else 0)) :
    Spec.countMen P h = Spec.countMen P f + Spec.countMen P g := by
  unfold Spec.countMen
  generalize Spec.allSq = l
  induction l with
  | nil => rfl
  | cons s l ih =>
    simp only [List.countP_cons, ih]
    cases P.at s with
    | none => simp
    | some m => have := hfg m; simp only; omega

theorem room_of_legal {P : Spec.Pos} (h : LegalFacts P) :
    Room emptyPosition (((rankRows P).map expandRank).flatten) := by
  have e1 : cnt [Gen.WPawn] (((rankRows P).map expandRank).flatten) = Spec.pawnsOf P .white :=
    cnt_codes_eq P _ _ (by apply man_cases; decide) (by decide)
  have e2 : cnt [Gen.BPawn] (((rankRows P).map expandRank).flatten) = Spec.pawnsOf P .black :=
    cnt_codes_eq P _ _ (by apply man_cases; decide) (by decide)
  have e3 : cnt (Gen.WPawn :: whitePieceCodes) (((rankRows P).map expandRank).flatten) =
      Spec.pawnsOf P .white + Spec.othersOf P .white := by
    rw [cnt_codes_eq P _ (fun m => m.color == .white && m.kind != .king) (by apply man_cases; decide) (by decide)]
    exact countMen_add P _ _ _ (by apply man_cases; decide)
  have e4 : cnt (Gen.BPawn :: blackPieceCodes) (((rankRows P).map expandRank).flatten) =
      Spec.pawnsOf P .black + Spec.othersOf P .black := by
    rw [cnt_codes_eq P _ (fun m => m.color == .black && m.kind != .king) (by apply man_cases; decide) (by decide)]
    exact countMen_add P _ _ _ (by apply man_cases; decide)
  unfold Room
  rw [e1, e2, e3, e4]
  have := h.wPawns; have := h.bPawns; have := h.wMen; have := h.bMen
  simp only [emptyPosition, List.length_nil, pawnCap, pieceCap, Gen.pawnCap, Gen.pieceCap]
  omega

/-! ### the 0x88 board against the 64 squares -/

/-- the engine board holds exactly the men of `P` -/
def BoardIs (P : Spec.Pos) (b : Array Nat) : Prop :=
  b.size = 128 ∧ (∀ i : Nat, i < 64 → b.getD (to88 i) 0 = optCode (P.at i)) ∧
  ∀ i : Nat, i < 128 → ¬ i % 16 < 8 → b.getD i 0 = 0

def offSquares : List Nat := (List.range 128).filter fun i => decide (8 ≤ i % 16)

theorem range128_perm : (List.range 128).Perm ((List.range 64).map to88 ++ offSquares) := by decide +kernel

theorem count128 (g : Nat → Bool) (hoff : ∀ i, i < 128 → ¬ i % 16 < 8 → g i = false) :
    (List.range 128).countP g = (List.range 64).countP (fun i => g (to88 i)) := by
  rw [range128_perm.countP_eq, List.countP_append, List.countP_map]
  have : offSquares.countP g = 0 := by
    rw [List.countP_eq_zero]
    intro i hi
    simp only [offSquares, List.mem_filter, List.mem_range, decide_eq_true_eq] at hi
    rw [hoff i hi.1 (by omega)]
    simp
  rw [this]
  rfl

theorem countKings_boardIs {P : Spec.Pos} {b : Array Nat} (hb : BoardIs P b) (c : Spec.Color) :
    countKings b (manCode ⟨c, .king⟩) = Spec.kingsOf P c := by
  obtain ⟨hs, hon, hoff⟩ := hb
  unfold countKings
  rw [toList_eq_map b hs, List.filter_map, List.length_map, ← List.countP_eq_length_filter]
  rw [count128 _ (fun i hi hv => by
    simp only [Function.comp, hoff i hi hv]
    cases c <;> decide)]
  unfold Spec.kingsOf Spec.countMen Spec.allSq
  apply List.countP_congr
  intro i hi
  simp only [Function.comp, hon i (List.mem_range.1 hi)]
  cases P.at i with
  | none => cases c <;> simp [optCode] <;> decide
  | some m =>
    simp only [optCode]
    revert m
    apply man_cases
    cases c <;> decide

end Magog.FenWrite
