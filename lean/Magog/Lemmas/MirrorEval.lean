import Magog.Lemmas.MirrorCount
import Magog.Lemmas.MirrorPst
import Magog.Lemmas.Inv

/-! C15 helpers, part 10: mate test, lazy and full evaluation under the colour flip; `mirror` is an
    involution on well-formed positions; `Inv → MirrorOk`. -/

namespace Magog.Mir
open Magog Magog.Model Magog.Count Magog.Geo Magog.Atk

theorem isCurrentKingUnderCheck_mirror {p : Position} (h : MirrorOk p) :
    isCurrentKingUnderCheck (mirror p) = isCurrentKingUnderCheck p := by
  have hen := h.side (!whiteTurn p)
  have hcur := h.side (whiteTurn p)
  unfold isCurrentKingUnderCheck
  simp only [whiteTurn_mirror h.flags, side_mirror, Bool.not_not, mirror_board]
  exact isUnderCheck_mirror h.size h.bytes (fun a ha => (hen.pawns a ha).1)
    (fun a ha => by
      obtain ⟨h1, c, hc, hb⟩ := hen.pieces a ha
      refine ⟨h1, fun x hx => ?_⟩
      rw [hb] at hx
      rw [← Option.some.inj hx]
      exact (officer_fin _ c hc).1)
    hen.king.1
    (fun x hx => by
      rw [hen.king.2] at hx
      rw [← Option.some.inj hx]
      exact (rookc_fin (!whiteTurn p)).2.2.2.1)
    hcur.king.1

/-- `MirrorOk` provides the hypotheses of `isUnderCheck_mirror` for either side as the attacker and
    the other side's king as the target -/
theorem isUnderCheck_hyps {p : Position} (h : MirrorOk p) (w : Bool) :
    p.board.size = 128 ∧ (∀ (i x : Nat), p.board[i]? = some x → x < 256) ∧
    (∀ a ∈ (p.side w).pawns, a ∈ sq88) ∧
    (∀ a ∈ (p.side w).pieces, a ∈ sq88 ∧ ∀ x, p.board[a]? = some x → x &&& Pawn = 0) ∧
    (p.side w).king ∈ sq88 ∧ (∀ x, p.board[(p.side w).king]? = some x → oneColour x = true) ∧
    (p.side (!w)).king ∈ sq88 := by
  have hen := h.side w
  refine ⟨h.size, h.bytes, fun a ha => (hen.pawns a ha).1, fun a ha => ?_, hen.king.1, fun x hx => ?_,
    (h.side (!w)).king.1⟩
  · obtain ⟨h1, c, hc, hb⟩ := hen.pieces a ha
    refine ⟨h1, fun x hx => ?_⟩
    rw [hb] at hx
    rw [← Option.some.inj hx]
    exact (officer_fin _ c hc).1
  · rw [hen.king.2] at hx
    rw [← Option.some.inj hx]
    exact (rookc_fin w).2.2.2.1

theorem isCheckMate_okVal_mirror {p : Position} (h : MirrorOk p) :
    okVal (isCheckMate (mirror p)) = okVal (isCheckMate p) := by
  unfold isCheckMate
  simp only [okVal_bind, okVal_andM, isCurrentKingUnderCheck_mirror h, countMoves_okVal_mirror h]

theorem lazyEvaluate_okVal_mirror (blend : Blend) {p : Position} (h : MirrorOk p) (depth alpha beta : Int) :
    okVal (lazyEvaluate blend (mirror p) depth alpha beta) = okVal (lazyEvaluate blend p depth alpha beta) := by
  unfold lazyEvaluate
  have e1 := countMoves_okVal_mirror h.flipTurn
  rw [flipTurn_mirror h.flags] at e1
  simp only [okVal_bind, isCheckMate_okVal_mirror h, pieceSquareScore_mirror_pstOk blend h.pstOk]
  refine Option.bind_congr fun mate _ => ?_
  cases mate
  · simp only [Bool.false_eq_true, if_false, okVal_bind]
    refine Option.bind_congr fun cheap _ => ?_
    simp only [okVal_ite, okVal_bind, countMoves_okVal_mirror h, e1]
  · simp only [if_true]

theorem evaluate_okVal_mirror (blend : Blend) {p : Position} (h : MirrorOk p) (depth : Int) :
    okVal (evaluate blend (mirror p) depth) = okVal (evaluate blend p depth) :=
  lazyEvaluate_okVal_mirror blend h depth _ _

/-! ### `mirror` is an involution -/

theorem mirrorBoard_mirrorBoard {b : Array Nat} (hb : b.size = 128)
    (hbytes : ∀ (i x : Nat), b[i]? = some x → x < 256) : mirrorBoard (mirrorBoard b) = b := by
  apply Array.ext_getElem?
  intro j
  by_cases hj : j < 128
  · rw [getElem?_mirrorBoard_lt _ hj, getD_mirrorBoard hb hj]
    have hjb : j < b.size := hb ▸ hj
    have hx : b[j]? = some b[j] := Array.getElem?_eq_getElem hjb
    rw [hx, getD_of_some hx, mirrorPiece_invol (hbytes _ _ hx)]
  · rw [Array.getElem?_eq_none (by simp; omega), Array.getElem?_eq_none (by omega)]

theorem map_mirrorSq_invol (l : List Nat) : (l.map mirrorSq).map mirrorSq = l := by
  rw [List.map_map]
  conv => rhs; rw [← List.map_id l]
  apply List.map_congr_left
  intro a _
  exact mirrorSq_mirrorSq a

theorem mirror_involutive {p : Position} (h : MirrorOk p) : mirror (mirror p) = p := by
  cases p
  simp only [mirror, map_mirrorSq_invol, mirrorSq_mirrorSq, mirrorEp_mirrorEp, Position.mk.injEq, and_true,
    true_and]
  exact ⟨mirrorBoard_mirrorBoard h.size h.bytes, (flags_fin _ h.flags).2.1⟩

/-! ### `MirrorOk` from the shared invariant, and a Boolean checker -/

theorem code_lt : ∀ v ∈ 0 :: pieceCodes, v < 256 := by decide

theorem flagsOr_fin : ∀ f < 256,
    (f &&& (FWK ||| FWQ) ≠ 0 → (f &&& FWK != 0) = true ∨ (f &&& FWQ != 0) = true) ∧
    (f &&& (FBK ||| FBQ) ≠ 0 → (f &&& FBK != 0) = true ∨ (f &&& FBQ != 0) = true) := by decide +kernel

theorem MirrorOk.of_inv {p : Position} (h : Inv p) : MirrorOk p := by
  have hsz := h.board.size
  have hfl : p.flags < 256 := Nat.lt_trans h.flags (by decide)
  have sideHolds : ∀ w, SideOk p.board (p.side w) w → (p.side w).pieces.Nodup →
      SideHolds p.board (p.side w) w := fun w hs hn =>
    ⟨fun s hs' => by
        obtain ⟨a, b, c⟩ := (hs.pawns s).1 hs'
        exact ⟨mem_sq88.2 ⟨a, b⟩, c⟩,
      fun s hs' => by
        obtain ⟨a, b, c⟩ := (hs.pieces s).1 hs'
        exact ⟨mem_sq88.2 ⟨a, b⟩, c⟩,
      by
        obtain ⟨a, b, c⟩ := (hs.king _).1 rfl
        exact ⟨mem_sq88.2 ⟨a, b⟩, c⟩, hn⟩
  have hcast := h.castling
  simp only [castlingConsistent, Bool.and_eq_true, Bool.not_eq_true', Bool.and_eq_false_iff,
    Bool.or_eq_false_iff, bne_eq_false_iff_eq] at hcast
  obtain ⟨⟨⟨c1, c2⟩, c3⟩, c4⟩ := hcast
  have kingAt : ∀ (w : Bool) (sq : Nat), sq < 128 → isValid sq = true → p.board.getD sq 0 = kingOf w →
      (p.side w).king = sq := by
    intro w sq h1 h2 h3
    have hs : SideOk p.board (p.side w) w := by cases w; exact h.black; exact h.white
    have hlt : sq < p.board.size := hsz ▸ h1
    have : p.board[sq]? = some (kingOf w) := by
      rw [Array.getD_eq_getD_getElem?, Array.getElem?_eq_getElem hlt] at h3
      rw [Array.getElem?_eq_getElem hlt]
      simpa using h3
    exact ((hs.king sq).2 ⟨h1, h2, this⟩).symm
  refine ⟨hsz, ?_, sideHolds true h.white h.wpcNodup, sideHolds false h.black h.bpcNodup, hfl, ?_, ?_, ?_, ?_⟩
  · intro i x hx
    have hi : i < 128 := by
      have := (Array.getElem?_eq_some_iff.1 hx).1
      rw [hsz] at this; exact this
    by_cases hv : isValid i = true
    · obtain ⟨v, hv1, hv2⟩ := h.board.codes i hi hv
      rw [hx] at hv1
      rw [Option.some.inj hv1]
      exact code_lt v (List.mem_cons.2 hv2)
    · have := h.offBoard i hi (by simpa using hv)
      rw [hx] at this
      rw [Option.some.inj this]; decide
  · intro hne
    rcases (flagsOr_fin _ hfl).1 hne with hk | hq
    · rcases c1 with c | c
      · rw [c] at hk; cases hk
      · exact kingAt true Gen.E1 (by decide) (by decide) c.1
    · rcases c2 with c | c
      · rw [c] at hq; cases hq
      · exact kingAt true Gen.E1 (by decide) (by decide) c.1
  · intro hne
    rcases (flagsOr_fin _ hfl).2 hne with hk | hq
    · rcases c3 with c | c
      · rw [c] at hk; cases hk
      · exact kingAt false Gen.E8 (by decide) (by decide) c.1
    · rcases c4 with c | c
      · rw [c] at hq; cases hq
      · exact kingAt false Gen.E8 (by decide) (by decide) c.1
  · rcases h.ep with he | he
    · rw [he]; decide
    · exact Nat.lt_trans he.1 (by decide)
  · intro hlt
    rcases h.ep with he | he
    · rw [he] at hlt; exact absurd hlt (by decide)
    · exact he.2.1

def sideHoldsB (b : Array Nat) (sd : Side) (w : Bool) : Bool :=
  (sd.pawns.all fun s => onBoard s && b[s]? == some (pawnOf w)) &&
  (sd.pieces.all fun s => onBoard s && (officersOf w).any fun c => b[s]? == some c) &&
  (onBoard sd.king && b[sd.king]? == some (kingOf w)) && decide sd.pieces.Nodup

def mirrorOkB (p : Position) : Bool :=
  p.board.size == 128 && p.board.toList.all (fun x => decide (x < 256)) &&
  sideHoldsB p.board (p.side true) true && sideHoldsB p.board (p.side false) false &&
  decide (p.flags < 256) && (p.flags &&& (FWK ||| FWQ) == 0 || p.whiteKing == Gen.E1) &&
  (p.flags &&& (FBK ||| FBQ) == 0 || p.blackKing == Gen.E8) &&
  decide (p.ep < 256) && (!decide (p.ep < 128) || isValid p.ep)

theorem sideHolds_of_B {b : Array Nat} {sd : Side} {w : Bool} (h : sideHoldsB b sd w = true) :
    SideHolds b sd w := by
  simp only [sideHoldsB, Bool.and_eq_true, List.all_eq_true, beq_iff_eq, onBoard_iff, List.any_eq_true,
    decide_eq_true_eq] at h
  obtain ⟨⟨⟨h1, h2⟩, h3⟩, h4⟩ := h
  exact ⟨fun s hs => ⟨mem_sq88.2 (h1 s hs).1, (h1 s hs).2⟩,
    fun s hs => ⟨mem_sq88.2 (h2 s hs).1, (h2 s hs).2⟩, ⟨mem_sq88.2 h3.1, h3.2⟩, h4⟩

theorem mirrorOk_of_B {p : Position} (h : mirrorOkB p = true) : MirrorOk p := by
  simp only [mirrorOkB, Bool.and_eq_true, beq_iff_eq, List.all_eq_true, decide_eq_true_eq, Bool.or_eq_true,
    Bool.not_eq_true', decide_eq_false_iff_not] at h
  obtain ⟨⟨⟨⟨⟨⟨⟨⟨h1, h2⟩, h3⟩, h4⟩, h5⟩, h6⟩, h7⟩, h8⟩, h9⟩ := h
  refine ⟨h1, fun i x hx => ?_, sideHolds_of_B h3, sideHolds_of_B h4, h5, fun hne => ?_, fun hne => ?_, h8,
    fun hlt => ?_⟩
  · obtain ⟨hi, rfl⟩ := Array.getElem?_eq_some_iff.1 hx
    exact h2 _ (by simp)
  · rcases h6 with h6 | h6
    · exact absurd h6 hne
    · exact h6
  · rcases h7 with h7 | h7
    · exact absurd h7 hne
    · exact h7
  · rcases h9 with h9 | h9
    · exact absurd hlt h9
    · exact h9

end Magog.Mir
