import Magog.Lemmas.MirrorBase

/-! C15 helpers, part 2: kernel-decided facts about the generated direction constants and the
    attack / direction tables under the rank mirror (complete domain: 64 squares, 64 × 64 pairs). -/

namespace Magog.Mir
open Magog Magog.Model Magog.Count Magog.Geo

/-! ### directions -/

def allDirs : List Nat := knightDirs ++ kingDirs ++ bishopDirs ++ rookDirs

/-- one step from a board square: the mirrored step lands on the mirrored square, or both leave the board -/
def dirStepOk (s d : Nat) : Bool :=
  let t := addb s d
  let t' := addb (mirrorSq s) (mirDir d)
  isValid t' == isValid t && (!isValid t || t' == mirrorSq t)

theorem dirStep_fin : (sq88.all fun s => allDirs.all fun d => dirStepOk s d) = true := by decide +kernel

/-- **dir_mirror**: for every board square `s` and every knight / bishop / rook / king direction `d`,
    `s + mirDir d` from the mirrored square is on the board iff `s + d` is, and then it is its mirror
    image. (Off the board the two bytes may differ: the file nibble wraps.) -/
theorem dir_mirror {s d : Nat} (hs : s ∈ sq88) (hd : d ∈ allDirs) :
    isValid (addb (mirrorSq s) (mirDir d)) = isValid (addb s d) ∧
    (isValid (addb s d) = true → addb (mirrorSq s) (mirDir d) = mirrorSq (addb s d)) := by
  have h := dirStep_fin
  simp only [List.all_eq_true] at h
  have := h s hs d hd
  simp only [dirStepOk, Bool.and_eq_true, beq_iff_eq, Bool.or_eq_true, Bool.not_eq_true'] at this
  refine ⟨this.1, fun hv => ?_⟩
  rcases this.2 with h2 | h2
  · rw [hv] at h2; cases h2
  · exact h2

theorem knightDirs_perm : (knightDirs.map mirDir).Perm knightDirs := by
  rw [← List.isPerm_iff]; decide
theorem bishopDirs_perm : (bishopDirs.map mirDir).Perm bishopDirs := by
  rw [← List.isPerm_iff]; decide
theorem rookDirs_perm : (rookDirs.map mirDir).Perm rookDirs := by
  rw [← List.isPerm_iff]; decide
theorem kingDirs_perm : (kingDirs.map mirDir).Perm kingDirs := by
  rw [← List.isPerm_iff]; decide

theorem mem_allDirs_knight {d : Nat} (h : d ∈ knightDirs) : d ∈ allDirs := by simp [allDirs, h]
theorem mem_allDirs_king {d : Nat} (h : d ∈ kingDirs) : d ∈ allDirs := by simp [allDirs, h]
theorem mem_allDirs_bishop {d : Nat} (h : d ∈ bishopDirs) : d ∈ allDirs := by simp [allDirs, h]
theorem mem_allDirs_rook {d : Nat} (h : d ∈ rookDirs) : d ∈ allDirs := by simp [allDirs, h]

/-- the pawn's target squares from a board square, advance direction `adv` against `mirDir adv` -/
def pawnStepOk (s adv : Nat) : Bool :=
  let adv' := mirDir adv
  let to1 := addb s adv
  let toQ := addb to1 0xFF; let toQ' := addb (mirrorSq to1) 0xFF
  addb (mirrorSq s) adv' == mirrorSq to1 && addb (mirrorSq to1) adv' == mirrorSq (addb to1 adv) &&
  addb (mirrorSq to1) 1 == mirrorSq (addb to1 1) &&
  isValid toQ' == isValid toQ && (!isValid toQ || toQ' == mirrorSq toQ) &&
  (!decide (to1 < 128) || isValid to1)

theorem pawnStep_fin : (sq88.all fun s => pawnStepOk s Gen.DirN && pawnStepOk s Gen.DirS) = true := by
  decide +kernel

/-- a pawn's advance, double advance and two capture squares are mirrored with it (the queenside
    capture square may leave the board: then on both sides) -/
theorem pawn_step {s adv : Nat} (hs : s ∈ sq88) (hadv : adv = Gen.DirN ∨ adv = Gen.DirS) :
    addb (mirrorSq s) (mirDir adv) = mirrorSq (addb s adv) ∧
    addb (mirrorSq (addb s adv)) (mirDir adv) = mirrorSq (addb (addb s adv) adv) ∧
    addb (mirrorSq (addb s adv)) 1 = mirrorSq (addb (addb s adv) 1) ∧
    isValid (addb (mirrorSq (addb s adv)) 0xFF) = isValid (addb (addb s adv) 0xFF) ∧
    (isValid (addb (addb s adv) 0xFF) = true →
      addb (mirrorSq (addb s adv)) 0xFF = mirrorSq (addb (addb s adv) 0xFF)) ∧
    (addb s adv < 128 → isValid (addb s adv) = true) := by
  have h := pawnStep_fin
  simp only [List.all_eq_true, Bool.and_eq_true] at h
  have h' : pawnStepOk s adv = true := by
    rcases hadv with rfl | rfl
    · exact (h s hs).1
    · exact (h s hs).2
  simp only [pawnStepOk, Bool.and_eq_true, beq_iff_eq, Bool.or_eq_true, Bool.not_eq_true',
    decide_eq_false_iff_not] at h'
  obtain ⟨⟨⟨⟨⟨h1, h2⟩, h3⟩, h4⟩, h5⟩, h6⟩ := h'
  refine ⟨h1, h2, h3, h4, fun hv => ?_, fun hlt => ?_⟩
  · rcases h5 with h5 | h5
    · rw [hv] at h5; cases h5
    · exact h5
  · rcases h6 with h6 | h6
    · exact absurd hlt h6
    · exact h6

theorem mirDir_N : mirDir Gen.DirN = Gen.DirS := by decide
theorem mirDir_S : mirDir Gen.DirS = Gen.DirN := by decide

/-! ### attack and direction tables -/

/-- the squares a slider walk inspects are mirrored one by one -/
def walkMirOk (a t : Nat) : Bool :=
  attackAt a t &&& 60 == 0 ||
  match walkList (dirAt a t) t 8 (addb a (dirAt a t)) with
  | some l => l.all (fun s => decide (s < 128)) &&
      walkList (dirAt (mirrorSq a) (mirrorSq t)) (mirrorSq t) 8
        (addb (mirrorSq a) (dirAt (mirrorSq a) (mirrorSq t))) == some (l.map mirrorSq)
  | none => false

/-- the table index of the mirrored pair: rank difference negated, file difference kept -/
def mirIdx (i : Nat) : Nat := 16 * (14 - i / 16) + i % 16

theorem idxMir_fin : (sq88.all fun a => sq88.all fun t =>
    idxN (mirrorSq a) (mirrorSq t) == mirIdx (idxN a t) && decide (idxN a t < 239)) = true := by
  decide +kernel

def tabMirOk (i : Nat) : Bool :=
  let x := Gen.attackTable.getD i 0
  let x' := Gen.attackTable.getD (mirIdx i) 0
  x' &&& 62 == x &&& 62 &&
  (x' &&& Gen.WPawnAttacks != 0) == (x &&& Gen.BPawnAttacks != 0) &&
  (x' &&& Gen.BPawnAttacks != 0) == (x &&& Gen.WPawnAttacks != 0) &&
  Gen.directionTable.getD (mirIdx i) 0 == mirDir (Gen.directionTable.getD i 0)

theorem tabMir_fin : ((List.range 239).all tabMirOk) = true := by decide +kernel

set_option maxRecDepth 100000 in
theorem walkMir_fin : (sq88.all fun a => sq88.all fun t => walkMirOk a t) = true := by decide +kernel

/-- **attack_mirror**: on the generated tables, for all 64 × 64 pairs of board squares: the entry of the
    mirrored pair has the same knight/bishop/rook/queen/king bits and the two pawn bits exchanged; the
    direction entry is the rank-negated direction -/
theorem attack_mirror {a t : Nat} (ha : a ∈ sq88) (ht : t ∈ sq88) :
    attackAt (mirrorSq a) (mirrorSq t) &&& 62 = attackAt a t &&& 62 ∧
    (attackAt (mirrorSq a) (mirrorSq t) &&& Gen.WPawnAttacks != 0) = (attackAt a t &&& Gen.BPawnAttacks != 0) ∧
    (attackAt (mirrorSq a) (mirrorSq t) &&& Gen.BPawnAttacks != 0) = (attackAt a t &&& Gen.WPawnAttacks != 0) ∧
    dirAt (mirrorSq a) (mirrorSq t) = mirDir (dirAt a t) := by
  have h := idxMir_fin
  simp only [List.all_eq_true, Bool.and_eq_true, beq_iff_eq, decide_eq_true_eq] at h
  obtain ⟨h1, h2⟩ := h a ha t ht
  have h3 := tabMir_fin
  simp only [List.all_eq_true, List.mem_range] at h3
  have := h3 _ h2
  simp only [tabMirOk, Bool.and_eq_true, beq_iff_eq] at this
  simp only [attackAt, dirAt, h1]
  exact ⟨this.1.1.1, this.1.1.2, this.1.2, this.2⟩

theorem walk_mirror {a t : Nat} (ha : a ∈ sq88) (ht : t ∈ sq88) (h60 : attackAt a t &&& 60 ≠ 0) :
    ∃ l, walkList (dirAt a t) t 8 (addb a (dirAt a t)) = some l ∧ (∀ s ∈ l, s < 128) ∧
      walkList (dirAt (mirrorSq a) (mirrorSq t)) (mirrorSq t) 8
        (addb (mirrorSq a) (dirAt (mirrorSq a) (mirrorSq t))) = some (l.map mirrorSq) := by
  have h := walkMir_fin
  simp only [List.all_eq_true] at h
  have hw := h a ha t ht
  simp only [walkMirOk, Bool.or_eq_true, beq_iff_eq] at hw
  rcases hw with hw | hw
  · exact absurd hw h60
  · cases hl : walkList (dirAt a t) t 8 (addb a (dirAt a t)) with
    | none => simp [hl] at hw
    | some l =>
      simp only [hl, Bool.and_eq_true, List.all_eq_true, decide_eq_true_eq, beq_iff_eq] at hw
      exact ⟨l, rfl, hw.1, hw.2⟩

end Magog.Mir
