import Magog.Model.Search

/-! Frame lemmas for the search model: what a call of `quiescence` / `alphaBeta` / `startAlphaBeta`
    can and cannot do to the search state. -/

namespace Magog.Model
open Magog

/-- events that may be printed *inside* an iteration -/
def Event.isSearchInfo : Event → Bool
  | .infoPv .. => true
  | .currmove .. => true
  | _ => false

/-- A relation between the state before and after a piece of search code that is reflexive,
    transitive and preserved by every primitive state update occurring in `Search.lean`. -/
structure FrameRel (env : Env) (R : SS → SS → Prop) : Prop where
  refl : ∀ s, R s s
  trans : ∀ {a b c}, R a b → R b c → R a c
  consult : ∀ s, R s s.consult
  nodes : ∀ s, R s { s with nodes := s.nodes + 1 }
  killers : ∀ s k, R s { s with killers := k }
  rows : ∀ s r, R s { s with rows := r }
  matched : ∀ s m, R s { s with matched := m }
  rootMoves : ∀ s m, R s { s with rootMoves := m }
  firstMoveIdx : ∀ s i, R s { s with firstMoveIdx := i }
  /-- `interrupted = true` is only ever set right after the stop channel answered "yes" -/
  interrupt : ∀ s, env.stopAt (s.tick - 1) = true → R s { s with interrupted := true }
  /-- root pv lines are only printed when non-empty -/
  infoPv : ∀ s score d n pv, pv ≠ [] → R s { s with out := .infoPv score d n pv :: s.out }
  currmove : ∀ s m k n, R s { s with out := .currmove m k n :: s.out }

theorem bind_ok {α β} {x : M α} {f : α → M β} {r : β} :
    (x >>= f) = .ok r ↔ ∃ a, x = .ok a ∧ f a = .ok r := by
  cases x <;> simp [bind, Except.bind]

theorem pure_ok {α} {a r : α} : (pure a : M α) = .ok r ↔ a = r := by
  simp [pure, Except.pure]

theorem throw_ok {α} {e : Panic} {r : α} : (throw e : M α) = .ok r ↔ False := by
  simp [throw, throwThe, MonadExceptOf.throw]

/-- a node function satisfies the frame relation -/
def NodeFrame (R : SS → SS → Prop) (f : NodeFn) : Prop :=
  ∀ p idx d a b l s v l' s', f p idx d a b l s = .ok (v, l', s') → R s s'

theorem updateBestLine_frame {env R} (F : FrameRel env R) {s d subLen mv s' n}
    (h : updateBestLine s d subLen mv = .ok (s', n)) : R s s' := by
  unfold updateBestLine at h
  split at h
  · split at h
    · exact absurd h (by simp [throw_ok])
    · simp only [pure_ok, Prod.mk.injEq] at h
      rw [← h.1]; exact F.rows _ _
  · exact absurd h (by simp [throw_ok])

theorem qLoop_frame {env R} (F : FrameRel env R) {child : NodeFn} (hc : NodeFrame R child)
    (p : Position) (idx depth : Nat) (beta : Int) :
    ∀ (ms : List RMove) (alpha : Int) (curLen subLen : Nat) (s : SS) (r : LoopOut),
      qLoop env child p idx depth beta ms alpha curLen subLen s = .ok r → R s r.st := by
  intro ms
  induction ms with
  | nil => intro alpha curLen subLen s r h; simp only [qLoop, pure_ok] at h; subst h; exact F.refl _
  | cons mv rest ih =>
    intro alpha curLen subLen s r h
    simp only [qLoop] at h
    split at h
    · exact absurd h (by simp [throw_ok])
    simp only [bind_ok] at h
    obtain ⟨mk, _, h⟩ := h
    split at h
    · exact absurd h (by simp [throw_ok])
    simp only [bind_ok] at h
    obtain ⟨⟨v, sl, s1⟩, hch, h⟩ := h
    have h1 : R s s1 := hc _ _ _ _ _ _ _ _ _ _ hch
    have h2 : R s s1.consult := F.trans h1 (F.consult _)
    dsimp only at h
    split at h
    · simp only [pure_ok] at h; subst h; exact h1
    split at h
    · simp only [pure_ok] at h; subst h; exact h2
    split at h
    · simp only [pure_ok] at h; subst h; exact h2
    split at h
    · simp only [bind_ok] at h
      obtain ⟨⟨s2, cl⟩, hu, h⟩ := h
      exact F.trans (F.trans h2 (updateBestLine_frame F hu)) (ih _ _ _ _ _ h)
    · exact F.trans h2 (ih _ _ _ _ _ h)

/-- the `currmove` logging step of `quiescence` -/
def qLog (env : Env) (s : SS) : M SS :=
  if env.logInterval == 0 then throw .divZero
  else if Int.tmod (s.nodes : Int) env.logInterval == 0 then
    match s.rootMoves[s.firstMoveIdx]? with
    | some rm => pure { s with out := .currmove rm.mov (s.firstMoveIdx + 1) s.nodes :: s.out }
    | none => throw (.index "movStack[0]" s.firstMoveIdx)
  else pure s

def qEval (env : Env) (p : Position) (depth : Nat) (alpha beta : Int) : M Int :=
  if env.lazy then lazyEvaluate env.blend p depth alpha beta else evaluate env.blend p depth

theorem quiescence_succ_eq (env : Env) (fuel : Nat) (p : Position) (idx depth : Nat) (alpha beta : Int)
    (curLen : Nat) (s : SS) :
    quiescence env (fuel + 1) p idx depth alpha beta curLen s = (do
      let subLen ← rowLen s (depth + 1)
      let score ← qEval env p depth alpha beta
      let s ← qLog env { s with nodes := s.nodes + 1 }
      if score ≥ beta then pure (beta, curLen, s) else do
      let ms ← generateTacticalMoves p
      let r ← qLoop env (quiescence env fuel) p idx depth beta (env.sortFn ms)
                (if score > alpha then (score, 0) else (alpha, curLen)).1
                (if score > alpha then (score, 0) else (alpha, curLen)).2 subLen s
      pure (r.score, r.curLen, r.st)) := by
  simp only [quiescence, qEval, qLog]
  congr 1; funext subLen
  split <;>
  · congr 1; funext score
    split
    · rfl
    · split
      · split <;> (rename_i heq; rw [heq])
      · rfl

theorem qLog_frame {env R} (F : FrameRel env R) {s s' : SS} (h : qLog env s = .ok s') : R s s' := by
  unfold qLog at h
  split at h
  · exact absurd h (by simp [throw_ok])
  split at h
  · split at h
    · simp only [pure_ok] at h; subst h; exact F.currmove _ _ _ _
    · exact absurd h (by simp [throw_ok])
  · simp only [pure_ok] at h; subst h; exact F.refl _

theorem quiescence_frame {env R} (F : FrameRel env R) (fuel : Nat) : NodeFrame R (quiescence env fuel) := by
  induction fuel with
  | zero => intro p idx d a b l s v l' s' h; simp only [quiescence, throw_ok] at h
  | succ fuel ih =>
    intro p idx d a b l s v l' s' h
    rw [quiescence_succ_eq] at h
    obtain ⟨subLen, _, h⟩ := bind_ok.1 h
    obtain ⟨score, _, h⟩ := bind_ok.1 h
    obtain ⟨s1, hs1, h⟩ := bind_ok.1 h
    have h1 : R s s1 := F.trans (F.nodes s) (qLog_frame F hs1)
    split at h
    · simp only [pure_ok, Prod.mk.injEq] at h; rw [← h.2.2]; exact h1
    · obtain ⟨ms, _, h⟩ := bind_ok.1 h
      obtain ⟨r, hr, h⟩ := bind_ok.1 h
      simp only [pure_ok, Prod.mk.injEq] at h; rw [← h.2.2]
      exact F.trans h1 (qLoop_frame F ih _ _ _ _ _ _ _ _ _ _ hr)

theorem pollAfterMove_frame {env R} (F : FrameRel env R) (s : SS) : R s (pollAfterMove env s).2 := by
  unfold pollAfterMove
  split
  · exact F.refl _
  dsimp only
  split
  · exact F.consult _
  split
  · rename_i hst
    exact F.trans (F.trans (F.consult _) (F.consult _)) (F.interrupt _ hst)
  · exact F.trans (F.consult _) (F.consult _)

/-- `if score > alpha { updateBestLine … }` of the `alphaBeta` move loop -/
def improve (s : SS) (depth subLen : Nat) (mv : Move) (score alpha : Int) (curLen : Nat) : M (Int × Nat × SS) :=
  if score > alpha then do
    let (s, curLen) ← updateBestLine s depth subLen mv
    pure (score, curLen, s)
  else pure (alpha, curLen, s)

theorem abLoop_cons_eq (env : Env) (child : NodeFn) (p : Position) (idx depth : Nat) (beta : Int)
    (mv : RMove) (rest : List RMove) (alpha : Int) (curLen subLen : Nat) (s : SS) :
    abLoop env child p idx depth beta (mv :: rest) alpha curLen subLen s =
      (if s.interrupted then pure ⟨alpha, curLen, s⟩ else
       if idx + 1 ≥ env.stackCap then throw (.index "posStack" (idx + 1)) else do
       let r ← makeMove p mv.mov
       if !r.2 then throw (.explicit "Applying move resulted in illegal position") else do
       let x ← child r.1 (idx + 1) (depth + 1) (-beta) (-alpha) subLen s
       if -x.1 ≥ beta then
         (if !mv.tactical then do
            let kt ← updateKillers x.2.2.killers p.ply mv.mov
            pure ⟨beta, curLen, { x.2.2 with killers := kt }⟩
          else pure ⟨beta, curLen, x.2.2⟩)
       else do
         let y ← improve x.2.2 depth x.2.1 mv.mov (-x.1) alpha curLen
         if (pollAfterMove env y.2.2).1 then pure ⟨y.1, y.2.1, (pollAfterMove env y.2.2).2⟩
         else abLoop env child p idx depth beta rest y.1 y.2.1 x.2.1 (pollAfterMove env y.2.2).2) := by
  simp only [abLoop, improve]
  split
  · rfl
  split
  · rfl
  congr 1; funext r
  split
  · rfl
  congr 1; funext x
  split
  · rfl
  split
  · simp only [bind_assoc]
  · rfl

theorem improve_frame {env R} (F : FrameRel env R) {s depth subLen mv score alpha curLen a l s'}
    (h : improve s depth subLen mv score alpha curLen = .ok (a, l, s')) : R s s' := by
  unfold improve at h
  split at h
  · obtain ⟨⟨s2, cl⟩, hu, h⟩ := bind_ok.1 h
    simp only [pure_ok, Prod.mk.injEq] at h; rw [← h.2.2]
    exact updateBestLine_frame F hu
  · simp only [pure_ok, Prod.mk.injEq] at h; rw [← h.2.2]; exact F.refl _

theorem abLoop_frame {env R} (F : FrameRel env R) {child : NodeFn} (hc : NodeFrame R child)
    (p : Position) (idx depth : Nat) (beta : Int) :
    ∀ (ms : List RMove) (alpha : Int) (curLen subLen : Nat) (s : SS) (r : LoopOut),
      abLoop env child p idx depth beta ms alpha curLen subLen s = .ok r → R s r.st := by
  intro ms
  induction ms with
  | nil => intro alpha curLen subLen s r h; simp only [abLoop, pure_ok] at h; subst h; exact F.refl _
  | cons mv rest ih =>
    intro alpha curLen subLen s r h
    rw [abLoop_cons_eq] at h
    split at h
    · simp only [pure_ok] at h; subst h; exact F.refl _
    split at h
    · exact absurd h (by simp [throw_ok])
    obtain ⟨mk, _, h⟩ := bind_ok.1 h
    split at h
    · exact absurd h (by simp [throw_ok])
    obtain ⟨⟨v, sl, s1⟩, hch, h⟩ := bind_ok.1 h
    have h1 : R s s1 := hc _ _ _ _ _ _ _ _ _ _ hch
    dsimp only at h
    split at h
    · split at h
      · obtain ⟨kt, _, h⟩ := bind_ok.1 h
        simp only [pure_ok] at h; subst h; exact F.trans h1 (F.killers _ _)
      · simp only [pure_ok] at h; subst h; exact h1
    · obtain ⟨⟨a2, l2, s2⟩, hi, h⟩ := bind_ok.1 h
      have h2 : R s (pollAfterMove env s2).2 :=
        F.trans (F.trans h1 (improve_frame F hi)) (pollAfterMove_frame F s2)
      dsimp only at h
      split at h
      · simp only [pure_ok] at h; subst h; exact h2
      · exact F.trans h2 (ih _ _ _ _ _ h)

/-- `maybePrintNewPvInfo` -/
def rootPrint (env : Env) (target : Nat) (score : Int) (curLen : Nat) (s : SS) : M SS :=
  if env.gateOpen (s.tick - 1) then
    if curLen == 0 then throw (.index "bestLine[0]" 0)
    else pure { s with out := .infoPv score target s.nodes (rowPrefix s 0 curLen) :: s.out }
  else pure s

def rootImprove (env : Env) (target : Nat) (s : SS) (subLen : Nat) (mv : Move) (score alpha : Int) (curLen : Nat) :
    M (Int × Nat × SS) :=
  if score > alpha then do
    let x ← updateBestLine s 0 subLen mv
    let s ← rootPrint env target score x.2 x.1.consult
    pure (score, x.2, s)
  else pure (alpha, curLen, s)

/-- the `select { case <-stop }` poll at the end of a root move, and the move counter -/
def rootStop (env : Env) (s : SS) : SS :=
  let s := s.consult
  let s := if env.stopAt (s.tick - 1) then { s with interrupted := true } else s
  { s with firstMoveIdx := s.firstMoveIdx + 1 }

theorem rootLoop_cons_eq (env : Env) (child : NodeFn) (p : Position) (target : Nat) 
    (mv : RMove) (rest : List RMove) (alpha : Int) (curLen subLen : Nat) (s : SS) :
    rootLoop env child p target (mv :: rest) alpha curLen subLen s =
      (if s.interrupted then pure ⟨alpha, curLen, s⟩ else
       if 1 ≥ env.stackCap then throw (.index "posStack" 1) else do
       let r ← makeMove p mv.mov
       if !r.2 then throw (.explicit "Applying move resulted in illegal position") else do
       let x ← child r.1 1 1 (-(Gen.InfinityScore : Int)) (-alpha) subLen s
       let y ← rootImprove env target x.2.2 x.2.1 mv.mov (-x.1) alpha curLen
       if y.2.2.interrupted then pure ⟨y.1, y.2.1, y.2.2⟩ else
       if env.timeUp (y.2.2.consult.tick - 1) then pure ⟨y.1, y.2.1, y.2.2.consult⟩ else
       if nextMoveWins (-x.1) then pure ⟨y.1, y.2.1, y.2.2.consult⟩ else
       rootLoop env child p target rest y.1 y.2.1 x.2.1 (rootStop env y.2.2.consult)) := by
  rw [rootLoop]
  unfold rootImprove rootPrint
  split
  · rfl
  split
  · rfl
  congr 1; funext r
  split
  · rfl
  congr 1; funext x
  obtain ⟨v, sl, s1⟩ := x
  dsimp only
  split
  · simp only [bind_assoc]
    congr 1; funext u
    split
    · split
      · rfl
      · rfl
    · rfl
  · rfl

theorem foldl_setIfInBounds_size {α} (f : Nat → Nat) (g : Nat → α) (l : List Nat) (row : Array α) :
    (l.foldl (fun (r : Array α) i => r.setIfInBounds (f i) (g i)) row).size = row.size := by
  induction l generalizing row with
  | nil => rfl
  | cons a l ih => simp only [List.foldl_cons, ih, Array.size_setIfInBounds]

/-- the line written by `updateBestLine` is non-empty -/
theorem updateBestLine_nonempty {s d subLen mv s' n} (h : updateBestLine s d subLen mv = .ok (s', n)) :
    n = subLen + 1 ∧ (rowPrefix s' d n).length = n := by
  unfold updateBestLine at h
  split at h
  · rename_i row sub hrow hsub
    split at h
    · exact absurd h (by simp [throw_ok])
    · rename_i hsz
      simp only [pure_ok, Prod.mk.injEq] at h
      obtain ⟨h1, h2⟩ := h
      subst h1 h2
      refine ⟨rfl, ?_⟩
      have hd : d < s.rows.size := by
        rcases Array.getElem?_eq_some_iff.1 hrow with ⟨hd, _⟩; exact hd
      simp only [rowPrefix, Array.getD_eq_getD_getElem?, Array.getElem?_setIfInBounds, hd, if_true,
        Option.getD_some, List.length_take, Array.length_toList]
      rw [foldl_setIfInBounds_size (fun i => i + 1) (fun i => sub[i]?.getD Move.zero)]
      simp only [Array.size_setIfInBounds]
      omega
  · exact absurd h (by simp [throw_ok])

theorem alphaBeta_frame {env R} (F : FrameRel env R) (qfuel rem : Nat) : NodeFrame R (alphaBeta env qfuel rem) := by
  induction rem with
  | zero =>
    intro p idx d a b l s v l' s' h
    simp only [alphaBeta] at h
    obtain ⟨_, _, h⟩ := bind_ok.1 h
    exact quiescence_frame F qfuel _ _ _ _ _ _ _ _ _ _ h
  | succ rem ih =>
    intro p idx d a b l s v l' s' h
    simp only [alphaBeta] at h
    obtain ⟨subLen, _, h⟩ := bind_ok.1 h
    obtain ⟨ms, _, h⟩ := bind_ok.1 h
    split at h
    · obtain ⟨tv, _, h⟩ := bind_ok.1 h
      simp only [pure_ok, Prod.mk.injEq] at h; rw [← h.2.2]; exact F.nodes _
    · obtain ⟨r, hr, h⟩ := bind_ok.1 h
      simp only [pure_ok, Prod.mk.injEq] at h; rw [← h.2.2]
      exact F.trans (F.matched _ _) (abLoop_frame F ih _ _ _ _ _ _ _ _ _ _ hr)

theorem rootPrint_frame {env R} (F : FrameRel env R) {target score curLen} {s s' : SS} (hl : (rowPrefix s 0 curLen).length = curLen)
    (h : rootPrint env target score curLen s = .ok s') : R s s' := by
  unfold rootPrint at h
  split at h
  · split at h
    · exact absurd h (by simp [throw_ok])
    · rename_i hne
      simp only [pure_ok] at h; subst h
      apply F.infoPv
      intro h0; rw [h0] at hl
      simp only [List.length_nil] at hl
      subst hl; simp at hne
  · simp only [pure_ok] at h; subst h; exact F.refl _

theorem rootImprove_frame {env R} (F : FrameRel env R) {target s subLen mv score alpha curLen a l s'}
    (h : rootImprove env target s subLen mv score alpha curLen = .ok (a, l, s')) : R s s' := by
  unfold rootImprove at h
  split at h
  · obtain ⟨⟨s2, cl⟩, hu, h⟩ := bind_ok.1 h
    obtain ⟨s3, hp, h⟩ := bind_ok.1 h
    simp only [pure_ok, Prod.mk.injEq] at h; rw [← h.2.2]
    have := (updateBestLine_nonempty hu).2
    exact F.trans (F.trans (updateBestLine_frame F hu) (F.consult _)) (rootPrint_frame F this hp)
  · simp only [pure_ok, Prod.mk.injEq] at h; rw [← h.2.2]; exact F.refl _

theorem rootStop_frame {env R} (F : FrameRel env R) (s : SS) : R s (rootStop env s) := by
  unfold rootStop
  dsimp only
  split
  · rename_i hst
    exact F.trans (F.trans (F.consult _) (F.interrupt _ hst)) (F.firstMoveIdx _ _)
  · exact F.trans (F.consult _) (F.firstMoveIdx _ _)

theorem rootLoop_frame {env R} (F : FrameRel env R) {child : NodeFn} (hc : NodeFrame R child)
    (p : Position) (target : Nat) :
    ∀ (ms : List RMove) (alpha : Int) (curLen subLen : Nat) (s : SS) (r : LoopOut),
      rootLoop env child p target ms alpha curLen subLen s = .ok r → R s r.st := by
  intro ms
  induction ms with
  | nil => intro alpha curLen subLen s r h; simp only [rootLoop, pure_ok] at h; subst h; exact F.refl _
  | cons mv rest ih =>
    intro alpha curLen subLen s r h
    rw [rootLoop_cons_eq] at h
    split at h
    · simp only [pure_ok] at h; subst h; exact F.refl _
    split at h
    · exact absurd h (by simp [throw_ok])
    obtain ⟨mk, _, h⟩ := bind_ok.1 h
    split at h
    · exact absurd h (by simp [throw_ok])
    obtain ⟨⟨v, sl, s1⟩, hch, h⟩ := bind_ok.1 h
    have h1 : R s s1 := hc _ _ _ _ _ _ _ _ _ _ hch
    obtain ⟨⟨a2, l2, s2⟩, hi, h⟩ := bind_ok.1 h
    have h2 : R s s2 := F.trans h1 (rootImprove_frame F hi)
    have h3 : R s s2.consult := F.trans h2 (F.consult _)
    dsimp only at h
    split at h
    · simp only [pure_ok] at h; subst h; exact h2
    split at h
    · simp only [pure_ok] at h; subst h; exact h3
    split at h
    · simp only [pure_ok] at h; subst h; exact h3
    · exact F.trans (F.trans h3 (rootStop_frame F _)) (ih _ _ _ _ _ h)

theorem startAlphaBeta_frame {env R} (F : FrameRel env R) {qfuel p target curLen s v one l s'}
    (h : startAlphaBeta env qfuel p target curLen s = .ok (v, one, l, s')) : R s s' := by
  simp only [startAlphaBeta] at h
  obtain ⟨subLen, _, h⟩ := bind_ok.1 h
  obtain ⟨ms, _, h⟩ := bind_ok.1 h
  split at h
  · obtain ⟨tv, _, h⟩ := bind_ok.1 h
    simp only [pure_ok, Prod.mk.injEq] at h; rw [← h.2.2.2]
    exact F.trans (F.nodes _) (F.rootMoves _ _)
  · obtain ⟨r, hr, h⟩ := bind_ok.1 h
    simp only [pure_ok, Prod.mk.injEq] at h; rw [← h.2.2.2]
    refine F.trans ?_ (rootLoop_frame F (alphaBeta_frame F qfuel _) _ _ _ _ _ _ _ _ hr)
    have e1 := F.matched s (applyPvBonus s.cand s.matched 0 ms).2
    have e2 := F.rootMoves { s with matched := (applyPvBonus s.cand s.matched 0 ms).2 }
      (env.sortFn (applyPvBonus s.cand s.matched 0 ms).1)
    have e3 := F.firstMoveIdx
      { s with
        matched := (applyPvBonus s.cand s.matched 0 ms).2
        rootMoves := (env.sortFn (applyPvBonus s.cand s.matched 0 ms).1) } 0
    exact F.trans (F.trans e1 e2) e3

/-! ### Instantiations -/

/-- `infoPv` / `infoDepth` events carry a non-empty line -/
def Event.pvOk : Event → Bool
  | .infoPv _ _ _ pv => !pv.isEmpty
  | .infoDepth _ _ _ pv => !pv.isEmpty
  | _ => true

/-- what a call of the search proper may do to the state: only `infoPv` (non-empty) / `currmove` events are
    pushed, the stored best line is untouched, the consultation counter only grows and `interrupted` is sticky -/
structure SearchFrame (s s' : SS) : Prop where
  out : ∃ added, s'.out = added ++ s.out ∧ ∀ e ∈ added, e.isSearchInfo = true ∧ e.pvOk = true
  cand : s'.cand = s.cand
  tick : s.tick ≤ s'.tick
  interrupted : s.interrupted = true → s'.interrupted = true

theorem SearchFrame.refl (s : SS) : SearchFrame s s :=
  ⟨⟨[], rfl, by simp⟩, rfl, Nat.le_refl _, id⟩

theorem SearchFrame.trans {a b c : SS} (h1 : SearchFrame a b) (h2 : SearchFrame b c) : SearchFrame a c := by
  obtain ⟨⟨l1, e1, p1⟩, c1, t1, i1⟩ := h1
  obtain ⟨⟨l2, e2, p2⟩, c2, t2, i2⟩ := h2
  refine ⟨⟨l2 ++ l1, by rw [e2, e1, List.append_assoc], ?_⟩, c2.trans c1, Nat.le_trans t1 t2, fun h => i2 (i1 h)⟩
  intro e he
  rcases List.mem_append.1 he with he | he
  · exact p2 e he
  · exact p1 e he

theorem SearchFrame.push (s : SS) (e : Event) (h1 : e.isSearchInfo = true) (h2 : e.pvOk = true) :
    SearchFrame s { s with out := e :: s.out } :=
  ⟨⟨[e], rfl, by intro e' he'; simp only [List.mem_singleton] at he'; subst he'; exact ⟨h1, h2⟩⟩, rfl, Nat.le_refl _, id⟩

theorem searchFrame_rel (env : Env) : FrameRel env SearchFrame where
  refl := SearchFrame.refl
  trans := SearchFrame.trans
  consult s := ⟨⟨[], rfl, by simp⟩, rfl, Nat.le_succ _, id⟩
  nodes s := ⟨⟨[], rfl, by simp⟩, rfl, Nat.le_refl _, id⟩
  killers s k := ⟨⟨[], rfl, by simp⟩, rfl, Nat.le_refl _, id⟩
  rows s r := ⟨⟨[], rfl, by simp⟩, rfl, Nat.le_refl _, id⟩
  matched s m := ⟨⟨[], rfl, by simp⟩, rfl, Nat.le_refl _, id⟩
  rootMoves s m := ⟨⟨[], rfl, by simp⟩, rfl, Nat.le_refl _, id⟩
  firstMoveIdx s i := ⟨⟨[], rfl, by simp⟩, rfl, Nat.le_refl _, id⟩
  interrupt s _ := ⟨⟨[], rfl, by simp⟩, rfl, Nat.le_refl _, fun _ => rfl⟩
  infoPv s score d n pv hpv := SearchFrame.push s _ rfl (by cases pv <;> simp_all [Event.pvOk])
  currmove s m k n := SearchFrame.push s _ rfl rfl

/-- frame property of `quiescence` -/
theorem quiescence_searchFrame {env fuel p idx d a b l s v l' s'}
    (h : quiescence env fuel p idx d a b l s = .ok (v, l', s')) : SearchFrame s s' :=
  quiescence_frame (searchFrame_rel env) fuel _ _ _ _ _ _ _ _ _ _ h

/-- frame property of `alphaBeta` -/
theorem alphaBeta_searchFrame {env qfuel rem p idx d a b l s v l' s'}
    (h : alphaBeta env qfuel rem p idx d a b l s = .ok (v, l', s')) : SearchFrame s s' :=
  alphaBeta_frame (searchFrame_rel env) qfuel rem _ _ _ _ _ _ _ _ _ _ h

/-- frame property of `startAlphaBeta` -/
theorem startAlphaBeta_searchFrame {env qfuel p target curLen s v one l s'}
    (h : startAlphaBeta env qfuel p target curLen s = .ok (v, one, l, s')) : SearchFrame s s' :=
  startAlphaBeta_frame (searchFrame_rel env) h

/-- the oracle never reports a timeout or a stop request -/
def Env.Quiet (env : Env) : Prop := ∀ n, env.timeUp n = false ∧ env.stopAt n = false

/-- under an oracle that never reports a stop request `interrupted` stays `false` -/
def StaysUninterrupted (s s' : SS) : Prop := s.interrupted = false → s'.interrupted = false

theorem staysUninterrupted_rel (env : Env) (hq : ∀ n, env.stopAt n = false) : FrameRel env StaysUninterrupted where
  refl _ := id
  trans h1 h2 := fun h => h2 (h1 h)
  consult _ := id
  nodes _ := id
  killers _ _ := id
  rows _ _ := id
  matched _ _ := id
  rootMoves _ _ := id
  firstMoveIdx _ _ := id
  interrupt s h := by rw [hq] at h; exact absurd h (by simp)
  infoPv _ _ _ _ _ _ := id
  currmove _ _ _ _ := id

theorem startAlphaBeta_quiet {env qfuel p target curLen s v one l s'} (hq : ∀ n, env.stopAt n = false)
    (h : startAlphaBeta env qfuel p target curLen s = .ok (v, one, l, s')) (hs : s.interrupted = false) :
    s'.interrupted = false :=
  startAlphaBeta_frame (staysUninterrupted_rel env hq) h hs

theorem alphaBeta_quiet {env qfuel rem p idx d a b l s v l' s'} (hq : ∀ n, env.stopAt n = false)
    (h : alphaBeta env qfuel rem p idx d a b l s = .ok (v, l', s')) (hs : s.interrupted = false) :
    s'.interrupted = false :=
  alphaBeta_frame (staysUninterrupted_rel env hq) qfuel rem _ _ _ _ _ _ _ _ _ _ h hs

theorem quiescence_quiet {env fuel p idx d a b l s v l' s'} (hq : ∀ n, env.stopAt n = false)
    (h : quiescence env fuel p idx d a b l s = .ok (v, l', s')) (hs : s.interrupted = false) :
    s'.interrupted = false :=
  quiescence_frame (staysUninterrupted_rel env hq) fuel _ _ _ _ _ _ _ _ _ _ h hs

end Magog.Model
