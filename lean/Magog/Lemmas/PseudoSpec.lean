import Magog.Lemmas.GenGeometry
import Magog.Spec.Pseudo

/-! `Spec.pseudo'` (and `Spec.isTactical`, the en-passant target after a move) unfolded per kind of the
    moving man, in the vocabulary of the generator geometry (`pushRel`, `capRel`, …). Specification level
    only: no engine model here. -/

namespace Magog.PseudoSpec
open Magog Magog.GenGeoO

/-- the target square is empty or holds a man of the other colour -/
def tgtOk (P : Spec.Pos) (t : Nat) : Bool :=
  match P.at t with
  | some m => m.color != P.turn
  | none => true

/-- the common part of `Spec.pseudo` -/
def common (P : Spec.Pos) (man : Spec.Man) (m : Spec.Move) : Bool :=
  man.color == P.turn && decide (m.frm < 64) && decide (m.to < 64) && tgtOk P m.to

theorem pseudo'_officer {P : Spec.Pos} {m : Spec.Move} {man : Spec.Man} (hat : P.at m.frm = some man)
    (hp : man.kind ≠ .pawn) (hk : man.kind ≠ .king) :
    Spec.pseudo' P m = (common P man m && (m.promo == none && Spec.manAttacks P.board man m.frm m.to)) := by
  obtain ⟨col, kind⟩ := man
  cases kind <;> first
    | exact absurd rfl hp
    | exact absurd rfl hk
    | (simp only [Spec.pseudo', Spec.pseudo, Spec.kingStepAttacked, hat, common, tgtOk, Bool.not_false,
        Bool.and_true]; rfl)

def castleKClause (P : Spec.Pos) (m : Spec.Move) : Bool :=
  let c := P.turn
  Spec.canCastleK P && m.frm == Spec.mkSq 4 (Spec.homeRank c) && m.to == Spec.mkSq 6 (Spec.homeRank c) &&
    P.at (Spec.mkSq 7 (Spec.homeRank c)) == some ⟨c, .rook⟩ &&
    (P.at (Spec.mkSq 5 (Spec.homeRank c))).isNone && (P.at (Spec.mkSq 6 (Spec.homeRank c))).isNone &&
    !Spec.attacked P.board c.other (Spec.mkSq 4 (Spec.homeRank c)) &&
    !Spec.attacked P.board c.other (Spec.mkSq 5 (Spec.homeRank c)) &&
    !Spec.attacked P.board c.other (Spec.mkSq 6 (Spec.homeRank c))

def castleQClause (P : Spec.Pos) (m : Spec.Move) : Bool :=
  let c := P.turn
  Spec.canCastleQ P && m.frm == Spec.mkSq 4 (Spec.homeRank c) && m.to == Spec.mkSq 2 (Spec.homeRank c) &&
    P.at (Spec.mkSq 0 (Spec.homeRank c)) == some ⟨c, .rook⟩ &&
    (P.at (Spec.mkSq 3 (Spec.homeRank c))).isNone && (P.at (Spec.mkSq 2 (Spec.homeRank c))).isNone &&
    (P.at (Spec.mkSq 1 (Spec.homeRank c))).isNone &&
    !Spec.attacked P.board c.other (Spec.mkSq 4 (Spec.homeRank c)) &&
    !Spec.attacked P.board c.other (Spec.mkSq 3 (Spec.homeRank c)) &&
    !Spec.attacked P.board c.other (Spec.mkSq 2 (Spec.homeRank c))

theorem pseudo'_king {P : Spec.Pos} {m : Spec.Move} {col : Spec.Color} (hat : P.at m.frm = some ⟨col, .king⟩) :
    Spec.pseudo' P m = (common P ⟨col, .king⟩ m &&
      (m.promo == none && (Spec.manAttacks P.board ⟨col, .king⟩ m.frm m.to || castleKClause P m || castleQClause P m)) &&
      !(!(Spec.adiff (Spec.fileOf m.frm) (Spec.fileOf m.to) == 2) && Spec.attacked P.board P.turn.other m.to)) := by
  simp only [Spec.pseudo', Spec.pseudo, Spec.kingStepAttacked, Spec.isCastle, hat, common, tgtOk, castleKClause,
    castleQClause]
  rfl

def promoOkB (c : Spec.Color) (m : Spec.Move) : Bool :=
  if Spec.rankOf m.to == Spec.promoRank c then
    (m.promo == some .queen || m.promo == some .rook || m.promo == some .bishop || m.promo == some .knight)
  else m.promo == none

theorem pseudo'_pawn {P : Spec.Pos} {m : Spec.Move} {col : Spec.Color} (hat : P.at m.frm = some ⟨col, .pawn⟩) :
    Spec.pseudo' P m = (common P ⟨col, .pawn⟩ m &&
      (promoOkB P.turn m && Spec.rankOf m.frm != Spec.promoRank P.turn &&
        (pushRel P.turn m.frm m.to && (P.at m.to).isNone ||
         dblRel P.turn m.frm m.to && (P.at m.to).isNone &&
           (P.at (Spec.mkSq (Spec.fileOf m.frm) (Spec.fwd P.turn (Spec.rankOf m.frm)))).isNone ||
         capRel P.turn m.frm m.to && (P.at m.to).isSome ||
         capRel P.turn m.frm m.to && (P.at m.to).isNone && P.ep == some m.to))) := by
  simp only [Spec.pseudo', Spec.pseudo, Spec.kingStepAttacked, hat, common, tgtOk, promoOkB, pushRel, dblRel, capRel,
    Bool.not_false, Bool.and_true]
  rfl

/-- `Spec.isTactical` with the moving man known -/
theorem isTactical_pawn {P : Spec.Pos} {m : Spec.Move} {col : Spec.Color} (hat : P.at m.frm = some ⟨col, .pawn⟩) :
    Spec.isTactical P m = ((P.at m.to).isSome ||
      (Spec.fileOf m.frm != Spec.fileOf m.to && (P.at m.to).isNone) || m.promo.isSome) := by
  simp only [Spec.isTactical, Spec.isCapture, Spec.isEnPassant, hat]

theorem isTactical_nonpawn {P : Spec.Pos} {m : Spec.Move} {man : Spec.Man} (hat : P.at m.frm = some man)
    (hp : man.kind ≠ .pawn) : Spec.isTactical P m = ((P.at m.to).isSome || m.promo.isSome) := by
  obtain ⟨col, kind⟩ := man
  cases kind <;> first
    | exact absurd rfl hp
    | simp only [Spec.isTactical, Spec.isCapture, Spec.isEnPassant, hat, Bool.or_false]

/-- the en-passant target after a move, with the moving man known -/
theorem apply_ep {P : Spec.Pos} {m : Spec.Move} {man : Spec.Man} (hat : P.at m.frm = some man) :
    (Spec.apply P m).ep = (if man.kind == .pawn && Spec.adiff (Spec.rankOf m.frm) (Spec.rankOf m.to) == 2
      then some (Spec.mkSq (Spec.fileOf m.frm) ((Spec.rankOf m.frm + Spec.rankOf m.to) / 2)) else none) := by
  simp only [Spec.apply, hat]

theorem fwd_adiff (c : Spec.Color) (r : Nat) : Spec.adiff r (Spec.fwd c r) ≠ 2 := by
  have key : ∀ a b : Nat, (b = a + 1 ∨ a = b + 1 ∨ a = b) → Spec.adiff a b ≠ 2 := by
    intro a b h
    unfold Spec.adiff
    split <;> omega
  apply key
  cases c
  · exact Or.inl rfl
  · have : Spec.fwd .black r = r - 1 := rfl
    omega

theorem adiff_one_ne {a b : Nat} (h : Spec.adiff a b = 1) : a ≠ b := by
  intro e; subst e; simp [Spec.adiff] at h

end Magog.PseudoSpec
