import Magog.Lemmas.PvLegal
import Magog.Lemmas.LogIndep
import Magog.Lemmas.KillerIndep
import Magog.Props.C18

/-! Totality of the search model (property C18, search part): given abstract totality facts about the per-node
    engine operations (`SearchOps`), a PV table of the triangular shape `newRows D` allocates, a killer table of
    the allocated size and depth / stack budgets that fit, `quiescence`, `alphaBeta`, `startAlphaBeta` never
    return `Except.error` - for every oracle (`env.timeUp`, `env.stopAt`, `env.gateOpen` are arbitrary).
    The iterative-deepening driver is treated in `SearchTotalIter.lean`. -/

namespace Magog.SearchTotal
open Magog Magog.Model

/-- what the search needs from the per-node engine operations on the positions it can reach -/
structure SearchOps (env : Env) (G : Position → Prop) (μ : Position → Nat) : Prop where
  gen : ∀ p kt, G p → kt.size = Gen.killerMovesMaxPly →
    ∃ ms, generateMoves kt p = .ok ms ∧ ∀ rm ∈ ms, ∃ q, makeMove p rm.mov = .ok (q, true) ∧ G q
  tac : ∀ p, G p → ∃ ts, generateTacticalMoves p = .ok ts ∧
    ∀ rm ∈ ts, ∃ q, makeMove p rm.mov = .ok (q, true) ∧ G q ∧ μ q < μ p
  bound : ∀ p, G p → μ p ≤ Gen.maxQuiescenceDepth
  lazy : ∀ p (d a b : Int), G p → ∃ x, lazyEvaluate env.blend p d a b = .ok x
  eval : ∀ p (d : Int), G p → ∃ x, evaluate env.blend p d = .ok x
  term : ∀ p (d : Int), G p → ∃ x, terminalNodeScore p d = .ok x

/-- the triangular PV table: `D` rows, row `i` has `D - i` slots (what `newRows D` allocates) -/
def RowsTri (rows : Array (Array Move)) (D : Nat) : Prop :=
  rows.size = D ∧ ∀ i r, rows[i]? = some r → r.size = D - i

theorem rowsTri_newRows (D : Nat) : RowsTri (newRows D) D := by
  refine ⟨by simp [newRows], ?_⟩
  intro i r h
  obtain ⟨hi, hr⟩ := Array.getElem?_eq_some_iff.1 h
  subst hr
  simp [newRows]

/-! ### the invariant -/

/-- What a piece of search code below the root keeps: the table shape, the killer-table size, and the fields
    `rootMoves`, `firstMoveIdx` (read by the `currmove` line) and `cand` (the line of the previous iteration). -/
structure Stay (D : Nat) (s s' : SS) : Prop where
  rows : RowsTri s'.rows D
  killers : s'.killers.size = Gen.killerMovesMaxPly
  rootMoves : s'.rootMoves = s.rootMoves
  firstMoveIdx : s'.firstMoveIdx = s.firstMoveIdx
  cand : s'.cand = s.cand

/-- postcondition of a node at depth `d` started in `s`, returning the new length `len` of the header of row `d`
    and the state `s'` -/
structure Post (D d : Nat) (s : SS) (len : Nat) (s' : SS) : Prop where
  rows : RowsTri s'.rows D
  killers : s'.killers.size = Gen.killerMovesMaxPly
  rootMoves : s'.rootMoves = s.rootMoves
  firstMoveIdx : s'.firstMoveIdx = s.firstMoveIdx
  cand : s'.cand = s.cand
  len : len ≤ D - d

theorem Post.stay {D d s len s'} (h : Post D d s len s') : Stay D s s' :=
  ⟨h.rows, h.killers, h.rootMoves, h.firstMoveIdx, h.cand⟩

theorem Stay.post {D d s len s'} (h : Stay D s s') (hl : len ≤ D - d) : Post D d s len s' :=
  ⟨h.rows, h.killers, h.rootMoves, h.firstMoveIdx, h.cand, hl⟩

theorem Stay.refl {D s} (hr : RowsTri s.rows D) (hk : s.killers.size = Gen.killerMovesMaxPly) : Stay D s s :=
  ⟨hr, hk, rfl, rfl, rfl⟩

theorem Stay.trans {D a b c} (h1 : Stay D a b) (h2 : Stay D b c) : Stay D a c :=
  ⟨h2.rows, h2.killers, h2.rootMoves.trans h1.rootMoves, h2.firstMoveIdx.trans h1.firstMoveIdx,
   h2.cand.trans h1.cand⟩

theorem Stay.inRange {D s s'} (h : Stay D s s') (hin : InRange s) : InRange s' := by
  unfold InRange at *
  rw [h.rootMoves, h.firstMoveIdx]; exact hin

theorem Stay.consult {D s s'} (h : Stay D s s') : Stay D s s'.consult :=
  ⟨h.rows, h.killers, h.rootMoves, h.firstMoveIdx, h.cand⟩

/-! ### primitives -/

theorem rowLen_tri {s : SS} {D d : Nat} (hr : RowsTri s.rows D) (hd : d < D) : rowLen s d = .ok (D - d) := by
  unfold rowLen
  have hd' : d < s.rows.size := by rw [hr.1]; exact hd
  have e : s.rows[d]? = some s.rows[d] := Array.getElem?_eq_getElem hd'
  rw [e]
  show Except.ok _ = _
  rw [hr.2 d _ e]

theorem updateBestLine_tri {s : SS} {D d subLen : Nat} (mv : Move) (hr : RowsTri s.rows D) (hd : d + 1 < D)
    (hs : subLen ≤ D - (d + 1)) :
    ∃ rows', updateBestLine s d subLen mv = .ok ({ s with rows := rows' }, subLen + 1) ∧ RowsTri rows' D := by
  unfold updateBestLine
  have hd0 : d < s.rows.size := by rw [hr.1]; omega
  have hd1 : d + 1 < s.rows.size := by rw [hr.1]; exact hd
  have e0 : s.rows[d]? = some s.rows[d] := Array.getElem?_eq_getElem hd0
  have e1 : s.rows[d + 1]? = some s.rows[d + 1] := Array.getElem?_eq_getElem hd1
  have z0 := hr.2 d _ e0
  rw [e0, e1]
  dsimp only
  rw [if_neg (by omega)]
  refine ⟨_, rfl, ?_, ?_⟩
  · rw [Array.size_setIfInBounds]; exact hr.1
  · intro i r hi
    rw [Array.getElem?_setIfInBounds] at hi
    split at hi
    · rename_i hdi
      subst hdi
      simp only [Option.some.injEq] at hi
      subst hi
      rw [foldl_setIfInBounds_size (fun i => i + 1) (fun i => (s.rows[d + 1]).getD i Move.zero)]
      rw [Array.size_setIfInBounds]
      exact z0
    · exact hr.2 i r hi

theorem qLog_stay {env : Env} {D : Nat} {s r : SS} (hr : RowsTri s.rows D)
    (hk : s.killers.size = Gen.killerMovesMaxPly) (h : qLog env s = .ok r) : Stay D s r := by
  obtain ⟨sim, keep⟩ := qLog_self h
  exact ⟨by rw [sim.rows]; exact hr, by rw [sim.killers]; exact hk, keep.1, keep.2, sim.cand⟩

theorem pollAfterMove_stay (env : Env) {D : Nat} {s0 s : SS} (h : Stay D s0 s) :
    Stay D s0 (pollAfterMove env s).2 := by
  rw [pollAfterMove_eq]
  split
  · exact h
  split
  · exact h.consult
  split
  · exact ⟨h.rows, h.killers, h.rootMoves, h.firstMoveIdx, h.cand⟩
  · exact h.consult.consult

theorem qEval_total {env : Env} {G : Position → Prop} {μ : Position → Nat} (H : SearchOps env G μ) {p : Position}
    (hp : G p) (d : Nat) (a b : Int) : ∃ x, qEval env p d a b = .ok x := by
  unfold qEval
  split
  · exact H.lazy p d a b hp
  · exact H.eval p d hp

/-- the child of a node is total and keeps the invariant (`idx`, `d` are the child's stack index and depth) -/
def ChildOk (D : Nat) (G' : Position → Prop) (idx d : Nat) (child : NodeFn) : Prop :=
  ∀ (q : Position) (a b : Int) (curLen : Nat) (s : SS), G' q → RowsTri s.rows D →
    s.killers.size = Gen.killerMovesMaxPly → InRange s → curLen ≤ D - d →
    ∃ v len s', child q idx d a b curLen s = .ok (v, len, s') ∧ Post D d s len s'

/-! ### quiescence -/

theorem qLoop_cons_eq (env : Env) (child : NodeFn) (p : Position) (idx depth : Nat) (beta : Int)
    (mv : RMove) (rest : List RMove) (alpha : Int) (curLen subLen : Nat) (s : SS) :
    qLoop env child p idx depth beta (mv :: rest) alpha curLen subLen s =
      (if idx + 1 ≥ env.stackCap then throw (.index "posStack" (idx + 1)) else do
       let r ← makeMove p mv.mov
       if !r.2 then throw (.explicit "Applying move resulted in illegal position") else do
       let x ← child r.1 (idx + 1) (depth + 1) (-beta) (-alpha) subLen s
       if x.2.2.interrupted then pure ⟨alpha, curLen, x.2.2⟩ else
       if env.timeUp (x.2.2.consult.tick - 1) then pure ⟨alpha, curLen, x.2.2.consult⟩ else
       if -x.1 ≥ beta then pure ⟨beta, curLen, x.2.2.consult⟩ else
       if -x.1 > alpha then do
         let y ← updateBestLine x.2.2.consult depth x.2.1 mv.mov
         qLoop env child p idx depth beta rest (-x.1) y.2 x.2.1 y.1
       else qLoop env child p idx depth beta rest alpha curLen x.2.1 x.2.2.consult) := by
  rw [qLoop]

variable {env : Env} {G : Position → Prop} {μ : Position → Nat}

theorem qLoop_total {D : Nat} {G' : Position → Prop} {child : NodeFn} (p : Position) (idx d : Nat) (beta : Int)
    (hd : d + 1 < D) (hc : ChildOk D G' (idx + 1) (d + 1) child) :
    ∀ (ms : List RMove) (alpha : Int) (curLen subLen : Nat) (s : SS),
      (∀ rm ∈ ms, ∃ q, makeMove p rm.mov = .ok (q, true) ∧ G' q) → (ms ≠ [] → idx + 1 < env.stackCap) →
      RowsTri s.rows D → s.killers.size = Gen.killerMovesMaxPly → InRange s → curLen ≤ D - d →
      subLen ≤ D - (d + 1) →
      ∃ r, qLoop env child p idx d beta ms alpha curLen subLen s = .ok r ∧ Stay D s r.st ∧ r.curLen ≤ D - d := by
  intro ms
  induction ms with
  | nil =>
    intro alpha curLen subLen s _ _ hr hk _ hcl _
    exact ⟨⟨alpha, curLen, s⟩, rfl, Stay.refl hr hk, hcl⟩
  | cons mv rest ih =>
    intro alpha curLen subLen s hmv hst hr hk hin hcl hsl
    rw [qLoop_cons_eq]
    have hst' := hst (by simp)
    rw [if_neg (by omega)]
    obtain ⟨q, hmk, hq⟩ := hmv mv List.mem_cons_self
    rw [hmk, ok_bind]
    rw [if_neg (by simp)]
    obtain ⟨v, sl, s1, hch, post⟩ := hc q (-beta) (-alpha) subLen s hq hr hk hin hsl
    rw [hch, ok_bind]
    dsimp only
    have st1 : Stay D s s1 := post.stay
    have st2 : Stay D s s1.consult := st1.consult
    have hmv' : ∀ rm ∈ rest, ∃ q, makeMove p rm.mov = .ok (q, true) ∧ G' q :=
      fun rm h => hmv rm (List.mem_cons_of_mem _ h)
    have hstr : rest ≠ [] → idx + 1 < env.stackCap := fun _ => hst'
    split
    · exact ⟨_, rfl, st1, hcl⟩
    split
    · exact ⟨_, rfl, st2, hcl⟩
    split
    · exact ⟨_, rfl, st2, hcl⟩
    split
    · obtain ⟨rows', hu, hr'⟩ := updateBestLine_tri (s := s1.consult) mv.mov st2.rows hd post.len
      rw [hu, ok_bind]
      dsimp only
      have st3 : Stay D s { s1.consult with rows := rows' } :=
        ⟨hr', st2.killers, st2.rootMoves, st2.firstMoveIdx, st2.cand⟩
      obtain ⟨r, hq', str, hl⟩ := ih (-v) (sl + 1) sl _ hmv' hstr hr' st3.killers (st3.inRange hin)
        (by have := post.len; omega) post.len
      exact ⟨r, hq', st3.trans str, hl⟩
    · obtain ⟨r, hq', str, hl⟩ := ih alpha curLen sl _ hmv' hstr st2.rows st2.killers (st2.inRange hin) hcl post.len
      exact ⟨r, hq', st2.trans str, hl⟩

/-- quiescence terminates within `μ p` plies and never panics -/
theorem quiescence_total (H : SearchOps env G μ) (hsort : SortSound env) (hlog : env.logInterval ≠ 0) {D : Nat} :
    ∀ (fuel : Nat) (p : Position) (idx d : Nat) (α β : Int) (curLen : Nat) (s : SS),
      G p → μ p < fuel → d + μ p + 1 < D → idx + μ p < env.stackCap → RowsTri s.rows D →
      s.killers.size = Gen.killerMovesMaxPly → InRange s → curLen ≤ D - d →
      ∃ v len s', quiescence env fuel p idx d α β curLen s = .ok (v, len, s') ∧ Post D d s len s' := by
  intro fuel
  induction fuel with
  | zero => intro p idx d α β curLen s _ hf; omega
  | succ fuel ih =>
    intro p idx d α β curLen s hp hf hD hS hr hk hin hcl
    rw [quiescence_succ_eq]
    rw [rowLen_tri hr (by omega : d + 1 < D), ok_bind]
    obtain ⟨score, hsc⟩ := qEval_total H hp d α β
    rw [hsc, ok_bind]
    have hr0 : RowsTri ({ s with nodes := s.nodes + 1 } : SS).rows D := hr
    have hk0 : ({ s with nodes := s.nodes + 1 } : SS).killers.size = Gen.killerMovesMaxPly := hk
    have hin0 : InRange ({ s with nodes := s.nodes + 1 } : SS) := hin
    obtain ⟨s1, hs1⟩ := qLog_total hlog hin0
    rw [hs1, ok_bind]
    have st1' := qLog_stay hr0 hk0 hs1
    have st1 : Stay D s s1 := ⟨st1'.rows, st1'.killers, st1'.rootMoves, st1'.firstMoveIdx, st1'.cand⟩
    split
    · exact ⟨_, _, _, rfl, st1.post hcl⟩
    obtain ⟨ts, hts, hmv⟩ := H.tac p hp
    rw [hts, ok_bind]
    have hc : ChildOk D (fun q => G q ∧ μ q < μ p) (idx + 1) (d + 1) (quiescence env fuel) := by
      intro q a b cl s2 hq hr2 hk2 hin2 hcl2
      exact ih q (idx + 1) (d + 1) a b cl s2 hq.1 (by omega) (by omega) (by omega) hr2 hk2 hin2 hcl2
    have hmv' : ∀ rm ∈ env.sortFn ts, ∃ q, makeMove p rm.mov = .ok (q, true) ∧ G q ∧ μ q < μ p :=
      fun rm h => hmv rm (hsort.mem _ _ h)
    have hst : env.sortFn ts ≠ [] → idx + 1 < env.stackCap := by
      intro hne
      obtain ⟨rm, hrm⟩ := List.exists_mem_of_ne_nil _ hne
      obtain ⟨q, _, _, hlt⟩ := hmv' rm hrm
      omega
    have hcl' : (if score > α then (score, 0) else (α, curLen)).2 ≤ D - d := by
      split
      · exact Nat.zero_le _
      · exact hcl
    obtain ⟨r, hq, str, hl⟩ := qLoop_total (env := env) p idx d β (by omega) hc (env.sortFn ts)
      (if score > α then (score, 0) else (α, curLen)).1 _ (D - (d + 1)) s1 hmv' hst st1.rows st1.killers
      (st1.inRange hin) hcl' (Nat.le_refl _)
    rw [hq, ok_bind]
    exact ⟨_, _, _, rfl, (st1.trans str).post hl⟩

/-! ### alphaBeta -/

theorem improve_total {D d subLen : Nat} (s : SS) (mv : Move) (score alpha : Int) (curLen : Nat)
    (hr : RowsTri s.rows D) (hk : s.killers.size = Gen.killerMovesMaxPly) (hd : d + 1 < D)
    (hs : subLen ≤ D - (d + 1)) (hcl : curLen ≤ D - d) :
    ∃ y, improve s d subLen mv score alpha curLen = .ok y ∧ Stay D s y.2.2 ∧ y.2.1 ≤ D - d := by
  unfold improve
  split
  · obtain ⟨rows', hu, hr'⟩ := updateBestLine_tri (s := s) mv hr hd hs
    rw [hu, ok_bind]
    exact ⟨_, rfl, ⟨hr', hk, rfl, rfl, rfl⟩, by dsimp only; omega⟩
  · exact ⟨_, rfl, Stay.refl hr hk, hcl⟩

theorem abLoop_total {D : Nat} {G' : Position → Prop} {child : NodeFn} (p : Position) (idx d : Nat) (beta : Int)
    (hd : d + 1 < D) (hc : ChildOk D G' (idx + 1) (d + 1) child) :
    ∀ (ms : List RMove) (alpha : Int) (curLen subLen : Nat) (s : SS),
      (∀ rm ∈ ms, ∃ q, makeMove p rm.mov = .ok (q, true) ∧ G' q) → (ms ≠ [] → idx + 1 < env.stackCap) →
      RowsTri s.rows D → s.killers.size = Gen.killerMovesMaxPly → InRange s → curLen ≤ D - d →
      subLen ≤ D - (d + 1) →
      ∃ r, abLoop env child p idx d beta ms alpha curLen subLen s = .ok r ∧ Stay D s r.st ∧ r.curLen ≤ D - d := by
  intro ms
  induction ms with
  | nil =>
    intro alpha curLen subLen s _ _ hr hk _ hcl _
    exact ⟨⟨alpha, curLen, s⟩, rfl, Stay.refl hr hk, hcl⟩
  | cons mv rest ih =>
    intro alpha curLen subLen s hmv hst hr hk hin hcl hsl
    rw [abLoop_cons_eq]
    split
    · exact ⟨_, rfl, Stay.refl hr hk, hcl⟩
    have hst' := hst (by simp)
    rw [if_neg (by omega)]
    obtain ⟨q, hmk, hq⟩ := hmv mv List.mem_cons_self
    rw [hmk, ok_bind]
    rw [if_neg (by simp)]
    obtain ⟨v, sl, s1, hch, post⟩ := hc q (-beta) (-alpha) subLen s hq hr hk hin hsl
    rw [hch, ok_bind]
    dsimp only
    have st1 : Stay D s s1 := post.stay
    have hmv' : ∀ rm ∈ rest, ∃ q, makeMove p rm.mov = .ok (q, true) ∧ G' q :=
      fun rm h => hmv rm (List.mem_cons_of_mem _ h)
    have hstr : rest ≠ [] → idx + 1 < env.stackCap := fun _ => hst'
    split
    · split
      · obtain ⟨kt, hkt, hsz⟩ := Props.C18.updateKillers_total s1.killers st1.killers p.ply mv.mov
        rw [hkt, ok_bind]
        exact ⟨_, rfl, ⟨st1.rows, hsz, st1.rootMoves, st1.firstMoveIdx, st1.cand⟩, hcl⟩
      · exact ⟨_, rfl, st1, hcl⟩
    · obtain ⟨y, hy, sty, hyl⟩ := improve_total s1 mv.mov (-v) alpha curLen st1.rows st1.killers hd post.len hcl
      rw [hy, ok_bind]
      have st2 : Stay D s (pollAfterMove env y.2.2).2 := pollAfterMove_stay env (st1.trans sty)
      split
      · exact ⟨_, rfl, st2, hyl⟩
      · obtain ⟨r, hq', str, hl⟩ := ih y.1 y.2.1 sl _ hmv' hstr st2.rows st2.killers (st2.inRange hin) hyl post.len
        exact ⟨r, hq', st2.trans str, hl⟩

/-- every move of the sorted, bonus-adjusted list is one of the generated moves -/
theorem mem_sorted_bonus (hsort : SortSound env) {cand : List Move} {matched depth : Nat} {ms : List RMove}
    {rm : RMove} (h : rm ∈ env.sortFn (applyPvBonus cand matched depth ms).1) : ∃ rm' ∈ ms, rm'.mov = rm.mov := by
  have h1 := hsort.mem _ _ h
  have h2 : rm.mov ∈ (applyPvBonus cand matched depth ms).1.map (·.mov) := List.mem_map.2 ⟨rm, h1, rfl⟩
  rw [applyPvBonus_movs] at h2
  obtain ⟨rm', h3, h4⟩ := List.mem_map.1 h2
  exact ⟨rm', h3, h4⟩

theorem alphaBeta_total (H : SearchOps env G μ) (hsort : SortSound env) (hlog : env.logInterval ≠ 0)
    {D qfuel : Nat} (hq : Gen.maxQuiescenceDepth < qfuel) :
    ∀ (rem : Nat) (p : Position) (idx d : Nat) (α β : Int) (curLen : Nat) (s : SS),
      G p → d + rem + Gen.maxQuiescenceDepth + 1 < D → idx + rem + Gen.maxQuiescenceDepth < env.stackCap →
      RowsTri s.rows D → s.killers.size = Gen.killerMovesMaxPly → InRange s → curLen ≤ D - d →
      ∃ v len s', alphaBeta env qfuel rem p idx d α β curLen s = .ok (v, len, s') ∧ Post D d s len s' := by
  intro rem
  induction rem with
  | zero =>
    intro p idx d α β curLen s hp hD hS hr hk hin hcl
    simp only [alphaBeta]
    rw [rowLen_tri hr (by omega : d + 1 < D), ok_bind]
    have hb := H.bound p hp
    exact quiescence_total H hsort hlog qfuel p idx d α β curLen s hp (by omega) (by omega) (by omega) hr hk hin hcl
  | succ rem ih =>
    intro p idx d α β curLen s hp hD hS hr hk hin hcl
    simp only [alphaBeta]
    rw [rowLen_tri hr (by omega : d + 1 < D), ok_bind]
    obtain ⟨ms, hms, hmv⟩ := H.gen p s.killers hp hk
    rw [hms, ok_bind]
    split
    · obtain ⟨x, hx⟩ := H.term p d hp
      rw [hx, ok_bind]
      exact ⟨_, _, _, rfl, ⟨hr, hk, rfl, rfl, rfl, Nat.zero_le _⟩⟩
    · have hc : ChildOk D G (idx + 1) (d + 1) (alphaBeta env qfuel rem) := by
        intro q a b cl s2 hq2 hr2 hk2 hin2 hcl2
        exact ih q (idx + 1) (d + 1) a b cl s2 hq2 (by omega) (by omega) hr2 hk2 hin2 hcl2
      have hmv' : ∀ rm ∈ env.sortFn (applyPvBonus s.cand s.matched d ms).1,
          ∃ q, makeMove p rm.mov = .ok (q, true) ∧ G q := by
        intro rm h
        obtain ⟨rm', h1, h2⟩ := mem_sorted_bonus hsort h
        rw [← h2]; exact hmv rm' h1
      obtain ⟨r, hl, str, hlen⟩ := abLoop_total (env := env) p idx d β (by omega) hc _ α curLen (D - (d + 1))
        ({ s with matched := (applyPvBonus s.cand s.matched d ms).2 } : SS) hmv' (fun _ => by omega) hr hk hin hcl
        (Nat.le_refl _)
      rw [hl, ok_bind]
      exact ⟨_, _, _, rfl, ⟨str.rows, str.killers, str.rootMoves, str.firstMoveIdx, str.cand, hlen⟩⟩

/-! ### the root -/

theorem rootImprove_total {D subLen : Nat} (target : Nat) (s : SS) (mv : Move) (score alpha : Int) (curLen : Nat)
    (hr : RowsTri s.rows D) (hk : s.killers.size = Gen.killerMovesMaxPly) (hD : 1 < D) (hs : subLen ≤ D - 1) :
    ∃ y, rootImprove env target s subLen mv score alpha curLen = .ok y ∧ Stay D s y.2.2 ∧
      (1 ≤ curLen → 1 ≤ y.2.1) := by
  unfold rootImprove
  split
  · obtain ⟨rows', hu, hr'⟩ := updateBestLine_tri (s := s) (d := 0) mv hr hD hs
    rw [hu, ok_bind]
    unfold rootPrint
    dsimp only
    split
    · rw [if_neg (by simp)]
      exact ⟨_, rfl, ⟨hr', hk, rfl, rfl, rfl⟩, fun _ => Nat.le_add_left _ _⟩
    · exact ⟨_, rfl, ⟨hr', hk, rfl, rfl, rfl⟩, fun _ => Nat.le_add_left _ _⟩
  · exact ⟨_, rfl, Stay.refl hr hk, id⟩

theorem rootStop_keeps (env : Env) (s : SS) :
    (rootStop env s).rows = s.rows ∧ (rootStop env s).killers = s.killers ∧ (rootStop env s).cand = s.cand := by
  unfold rootStop
  dsimp only
  split <;> exact ⟨rfl, rfl, rfl⟩

theorem rootLoop_total {D : Nat} {G' : Position → Prop} {child : NodeFn} (p : Position) (target : Nat)
    (hD : 1 < D) (hcap : 1 < env.stackCap) (hc : ChildOk D G' 1 1 child) :
    ∀ (ms : List RMove) (alpha : Int) (curLen subLen : Nat) (s : SS),
      (∀ rm ∈ ms, ∃ q, makeMove p rm.mov = .ok (q, true) ∧ G' q) →
      RowsTri s.rows D → s.killers.size = Gen.killerMovesMaxPly →
      s.firstMoveIdx + ms.length = s.rootMoves.length → subLen ≤ D - 1 →
      ∃ r, rootLoop env child p target ms alpha curLen subLen s = .ok r ∧ RowsTri r.st.rows D ∧
        r.st.killers.size = Gen.killerMovesMaxPly ∧ r.st.cand = s.cand ∧ (1 ≤ curLen → 1 ≤ r.curLen) := by
  intro ms
  induction ms with
  | nil =>
    intro alpha curLen subLen s _ hr hk _ _
    exact ⟨⟨alpha, curLen, s⟩, rfl, hr, hk, rfl, id⟩
  | cons mv rest ih =>
    intro alpha curLen subLen s hmv hr hk hidx hsl
    have hin : InRange s := by
      unfold InRange
      rw [List.length_cons] at hidx
      omega
    rw [rootLoop_cons_eq]
    split
    · exact ⟨_, rfl, hr, hk, rfl, id⟩
    rw [if_neg (by omega)]
    obtain ⟨q, hmk, hq⟩ := hmv mv List.mem_cons_self
    rw [hmk, ok_bind]
    rw [if_neg (by simp)]
    obtain ⟨v, sl, s1, hch, post⟩ := hc q (-(Gen.InfinityScore : Int)) (-alpha) subLen s hq hr hk hin hsl
    rw [hch, ok_bind]
    dsimp only
    have st1 : Stay D s s1 := post.stay
    obtain ⟨y, hy, sty, hyl⟩ := rootImprove_total (env := env) target s1 mv.mov (-v) alpha curLen st1.rows
      st1.killers hD post.len
    rw [hy, ok_bind]
    have st2 : Stay D s y.2.2 := st1.trans sty
    have st3 : Stay D s y.2.2.consult := st2.consult
    split
    · exact ⟨_, rfl, st2.rows, st2.killers, st2.cand, hyl⟩
    split
    · exact ⟨_, rfl, st3.rows, st3.killers, st3.cand, hyl⟩
    split
    · exact ⟨_, rfl, st3.rows, st3.killers, st3.cand, hyl⟩
    · obtain ⟨k1, k2, k3⟩ := rootStop_keeps env y.2.2.consult
      obtain ⟨k4, k5⟩ := rootStop_root env y.2.2.consult
      obtain ⟨r, hq', hr', hk', hc', hl'⟩ := ih y.1 y.2.1 sl (rootStop env y.2.2.consult)
        (fun rm h => hmv rm (List.mem_cons_of_mem _ h)) (by rw [k1]; exact st3.rows) (by rw [k2]; exact st3.killers)
        (by rw [k4, k5, st3.rootMoves, st3.firstMoveIdx]; rw [List.length_cons] at hidx; omega) post.len
      exact ⟨r, hq', hr', hk', by rw [hc', k3]; exact st3.cand, fun h => hl' (hyl h)⟩

theorem startAlphaBeta_total (H : SearchOps env G μ) (hsort : SortSound env) (hlog : env.logInterval ≠ 0)
    {D qfuel : Nat} (hq : Gen.maxQuiescenceDepth < qfuel) {p : Position} (target : Nat) (curLen : Nat) (s : SS) :
    G p → 1 ≤ target → target + Gen.maxQuiescenceDepth + 1 < D → target + Gen.maxQuiescenceDepth < env.stackCap →
    RowsTri s.rows D → s.killers.size = Gen.killerMovesMaxPly →
    ∃ score one len s', startAlphaBeta env qfuel p target curLen s = .ok (score, one, len, s') ∧ RowsTri s'.rows D ∧
      s'.killers.size = Gen.killerMovesMaxPly ∧ s'.cand = s.cand ∧
      ∃ ms, generateMoves s.killers p = .ok ms ∧ (ms = [] → len = 0) ∧ (ms ≠ [] → 1 ≤ curLen → 1 ≤ len) := by
  intro hp ht hD hS hr hk
  simp only [startAlphaBeta]
  rw [rowLen_tri hr (by omega : 1 < D), ok_bind]
  obtain ⟨ms, hms, hmv⟩ := H.gen p s.killers hp hk
  rw [hms, ok_bind]
  split
  · rename_i hemp
    obtain ⟨x, hx⟩ := H.term p (0 : Int) hp
    rw [hx, ok_bind]
    exact ⟨_, _, _, _, rfl, hr, hk, rfl, ms, rfl, fun _ => rfl, fun hne => absurd (List.isEmpty_iff.1 hemp) hne⟩
  · rename_i hne
    have hc : ChildOk D G 1 1 (alphaBeta env qfuel (target - 1)) := by
      intro q a b cl s2 hq2 hr2 hk2 hin2 hcl2
      exact alphaBeta_total H hsort hlog hq (target - 1) q 1 1 a b cl s2 hq2 (by omega) (by omega) hr2 hk2 hin2 hcl2
    have hmv' : ∀ rm ∈ env.sortFn (applyPvBonus s.cand s.matched 0 ms).1,
        ∃ q, makeMove p rm.mov = .ok (q, true) ∧ G q := by
      intro rm h
      obtain ⟨rm', h1, h2⟩ := mem_sorted_bonus hsort h
      rw [← h2]; exact hmv rm' h1
    obtain ⟨r, hl, hr', hk', hc', hlen⟩ := rootLoop_total (env := env) p target (by omega) (by omega) hc _
      Gen.MinusInfinityScore curLen (D - 1)
      ({ s with matched := (applyPvBonus s.cand s.matched 0 ms).2,
                rootMoves := env.sortFn (applyPvBonus s.cand s.matched 0 ms).1, firstMoveIdx := 0 } : SS)
      hmv' hr hk (Nat.zero_add _) (Nat.le_refl _)
    rw [hl, ok_bind]
    exact ⟨_, _, _, _, rfl, hr', hk', hc', ms, rfl,
      fun h0 => absurd (by rw [h0]; rfl : ms.isEmpty = true) hne, fun _ => hlen⟩

end Magog.SearchTotal
