import Magog.Lemmas.Attack
import Magog.Model.MoveGen

/-! Finite geometry of the move generator's direction arithmetic on the 0x88 board (for property C01),
    decided by kernel evaluation over the complete domain (64 origin squares × directions × 64 targets)
    and lifted to ∀-statements. `Nat`/`List`/`Bool` only. -/

namespace Magog.GenGeoO
open Magog Magog.Model Magog.Geo Magog.Atk

theorem addb_lt (a b : Nat) : addb a b < 256 := by unfold addb; omega

set_option maxRecDepth 100000 in
theorem valid_lt128 {s : Nat} (h : s < 256) (hv : isValid s = true) : s < 128 := by
  have : ∀ s < 256, isValid s = true → s < 128 := by decide +kernel
  exact this s h hv

theorem addb_mem {a b : Nat} (hv : isValid (addb a b) = true) : addb a b ∈ sq88 :=
  mem_sq88.2 ⟨valid_lt128 (addb_lt a b) hv, hv⟩

theorem to64_inj {a b : Nat} (ha : a ∈ sq88) (hb : b ∈ sq88) (h : to64 a = to64 b) : a = b := by
  rw [← to88_to64 ha, ← to88_to64 hb, h]

/-- Boolean duplicate-freeness (cheap in kernel evaluation) -/
def nodupB : List Nat → Bool
  | [] => true
  | a :: l => !l.contains a && nodupB l

theorem nodup_of_nodupB : ∀ {l : List Nat}, nodupB l = true → l.Nodup
  | [], _ => List.nodup_nil
  | a :: l, h => by
    simp only [nodupB, Bool.and_eq_true, Bool.not_eq_true', List.contains_eq_mem, decide_eq_false_iff_not] at h
    exact List.nodup_cons.2 ⟨h.1, nodup_of_nodupB h.2⟩

/-! ### single steps (knight, king) -/

/-- the on-board squares one step from `s` in the given directions -/
def stepSqs (s : Nat) (dirs : List Nat) : List Nat := (dirs.map (addb s)).filter isValid

def stepOk (dirs : List Nat) (man : Spec.Man) (s : Nat) : Bool :=
  nodupB (stepSqs s dirs) &&
  sq88.all fun t => (stepSqs s dirs).contains t == Spec.manAttacks emptyBoard man (to64 s) (to64 t)

set_option maxRecDepth 100000 in
theorem knightSteps_ok : sq88.all (stepOk knightDirs ⟨.white, .knight⟩) = true := by decide +kernel

set_option maxRecDepth 100000 in
theorem kingSteps_ok : sq88.all (stepOk kingDirs ⟨.white, .king⟩) = true := by decide +kernel

/-! ### rays (bishop, rook, queen) -/

/-- the on-board squares from `sq` onwards in direction `dir` (on an empty board); `none` = out of fuel -/
def ray (dir : Nat) : Nat → Nat → Option (List Nat)
  | 0, _ => none
  | fuel + 1, sq => if !isValid sq then some [] else (ray dir fuel (addb sq dir)).map (sq :: ·)

def rayOf (s d : Nat) : List Nat := (ray d 8 (addb s d)).getD []

/-- the fuel-8 walk ends on the board edge; every visited square is a board square; the squares strictly
    between the origin and the i-th ray square are the first i ray squares -/
def rayOk (s d : Nat) : Bool :=
  match ray d 8 (addb s d) with
  | none => false
  | some l =>
    l.all (fun t => decide (t < 128) && isValid t) &&
    (List.range l.length).all fun i => Spec.between (to64 s) (to64 (l.getD i 0)) == (l.take i).map to64

set_option maxRecDepth 100000 in
theorem rayOk_all : sq88.all (fun s => kingDirs.all (rayOk s)) = true := by decide +kernel

set_option maxRecDepth 100000 in
theorem rays_nodup_all : sq88.all (fun s => nodupB (kingDirs.flatMap (rayOf s)) &&
    nodupB (rookDirs.flatMap (rayOf s)) && nodupB (bishopDirs.flatMap (rayOf s))) = true := by
  decide +kernel

set_option maxRecDepth 100000 in
theorem rays_line_all : sq88.all (fun s => sq88.all fun t =>
    Spec.onLine (to64 s) (to64 t) == (rookDirs.flatMap (rayOf s)).contains t) = true := by decide +kernel

set_option maxRecDepth 100000 in
theorem rays_diag_all : sq88.all (fun s => sq88.all fun t =>
    Spec.onDiag (to64 s) (to64 t) == (bishopDirs.flatMap (rayOf s)).contains t) = true := by decide +kernel

/-! ### pawns -/

def advOf (w : Bool) : Nat := if w then Gen.DirN else Gen.DirS
def startRankOf (w : Bool) : Nat := if w then Gen.Rank2 else Gen.Rank7
def promoRankOf (w : Bool) : Nat := if w then Gen.Rank8 else Gen.Rank1
def notBack (s : Nat) : Bool := rankOf s != Gen.Rank1 && rankOf s != Gen.Rank8

/-- the specification's pawn geometry, as relations between origin and target (0..63) -/
def pushRel (c : Spec.Color) (f t : Nat) : Bool :=
  Spec.fileOf t == Spec.fileOf f && Spec.rankOf t == Spec.fwd c (Spec.rankOf f)
def dblRel (c : Spec.Color) (f t : Nat) : Bool :=
  Spec.fileOf t == Spec.fileOf f && Spec.rankOf f == Spec.pawnStart c &&
    Spec.rankOf t == Spec.fwd c (Spec.fwd c (Spec.rankOf f))
def capRel (c : Spec.Color) (f t : Nat) : Bool :=
  Spec.adiff (Spec.fileOf t) (Spec.fileOf f) == 1 && Spec.rankOf t == Spec.fwd c (Spec.rankOf f)

/-- everything the generator's pawn arithmetic needs, for a pawn of colour `w` on `s` (not on a back
    rank): the push square is on the board, the unguarded king-side capture index and (from the start
    rank) the double-push index are inside the array, and push / double push / capture targets are exactly
    the specification's -/
def pawnOk (w : Bool) (s : Nat) : Bool :=
  let c := colorOf w
  let to1 := addb s (advOf w); let toQ := addb to1 255; let toK := addb to1 1; let to2 := addb to1 (advOf w)
  !notBack s ||
  (decide (to1 < 128) && isValid to1 && decide (toK < 128) &&
   (rankOf s != startRankOf w || (decide (to2 < 128) && isValid to2)) &&
   (Spec.rankOf (to64 s) != Spec.promoRank c) &&
   (Spec.mkSq (Spec.fileOf (to64 s)) (Spec.fwd c (Spec.rankOf (to64 s))) == to64 to1) &&
   (toQ != InvalidSq && toK != InvalidSq) &&
   (rankOf s != startRankOf w ||
     (rankOf to2 != promoRankOf w && Spec.adiff (Spec.rankOf (to64 s)) (Spec.rankOf (to64 to2)) == 2 &&
      Spec.mkSq (Spec.fileOf (to64 s)) ((Spec.rankOf (to64 s) + Spec.rankOf (to64 to2)) / 2) == to64 to1)) &&
   sq88.all fun t =>
     (pushRel c (to64 s) (to64 t) == (t == to1)) &&
     (dblRel c (to64 s) (to64 t) == (rankOf s == startRankOf w && t == to2)) &&
     (capRel c (to64 s) (to64 t) == (t == toQ || t == toK)))

set_option maxRecDepth 100000 in
theorem pawnOk_all : ∀ w : Bool, sq88.all (pawnOk w) = true := by decide +kernel

def promoRankOk (w : Bool) (t : Nat) : Bool :=
  (Spec.rankOf (to64 t) == Spec.promoRank (colorOf w)) == (rankOf t == promoRankOf w)

theorem promoRank_all : ∀ w : Bool, sq88.all (promoRankOk w) = true := by decide +kernel

/-! ### lifted statements -/

theorem stepSqs_mem {s t : Nat} {dirs : List Nat} (h : t ∈ stepSqs s dirs) : t ∈ sq88 := by
  simp only [stepSqs, List.mem_filter, List.mem_map] at h
  obtain ⟨⟨d, _, rfl⟩, hv⟩ := h
  exact addb_mem hv

theorem stepSqs_iff {s t : Nat} {dirs : List Nat} :
    t ∈ stepSqs s dirs ↔ ∃ d ∈ dirs, addb s d = t ∧ isValid t = true := by
  simp only [stepSqs, List.mem_filter, List.mem_map]
  constructor
  · rintro ⟨⟨d, hd, rfl⟩, hv⟩; exact ⟨d, hd, rfl, hv⟩
  · rintro ⟨d, hd, rfl, hv⟩; exact ⟨⟨d, hd, rfl⟩, hv⟩

theorem step_nodup {dirs : List Nat} {man : Spec.Man} (hall : sq88.all (stepOk dirs man) = true)
    {s : Nat} (hs : s ∈ sq88) : (stepSqs s dirs).Nodup := by
  have := List.all_eq_true.1 hall s hs
  simp only [stepOk, Bool.and_eq_true] at this
  exact nodup_of_nodupB this.1

theorem step_spec {dirs : List Nat} {man : Spec.Man} (hall : sq88.all (stepOk dirs man) = true)
    {s t : Nat} (hs : s ∈ sq88) (ht : t ∈ sq88) :
    t ∈ stepSqs s dirs ↔ Spec.manAttacks emptyBoard man (to64 s) (to64 t) = true := by
  have := List.all_eq_true.1 hall s hs
  simp only [stepOk, Bool.and_eq_true, List.all_eq_true, beq_iff_eq] at this
  rw [← this.2 t ht, List.contains_iff_mem]

theorem ray_some {s d : Nat} (hs : s ∈ sq88) (hd : d ∈ kingDirs) :
    ray d 8 (addb s d) = some (rayOf s d) := by
  have := List.all_eq_true.1 (List.all_eq_true.1 rayOk_all s hs) d hd
  unfold rayOk at this
  unfold rayOf
  cases h : ray d 8 (addb s d) with
  | none => simp [h] at this
  | some l => rfl

theorem rayOf_valid {s d t : Nat} (hs : s ∈ sq88) (hd : d ∈ kingDirs) (ht : t ∈ rayOf s d) : t ∈ sq88 := by
  have := List.all_eq_true.1 (List.all_eq_true.1 rayOk_all s hs) d hd
  unfold rayOk at this
  rw [ray_some hs hd] at this
  simp only [Bool.and_eq_true, List.all_eq_true, decide_eq_true_eq] at this
  exact mem_sq88.2 (this.1 t ht)

theorem ray_between {s d t : Nat} {pre post : List Nat} (hs : s ∈ sq88) (hd : d ∈ kingDirs)
    (h : rayOf s d = pre ++ t :: post) : Spec.between (to64 s) (to64 t) = pre.map to64 := by
  have := List.all_eq_true.1 (List.all_eq_true.1 rayOk_all s hs) d hd
  unfold rayOk at this
  rw [ray_some hs hd] at this
  simp only [Bool.and_eq_true, List.all_eq_true, List.mem_range, beq_iff_eq] at this
  have h2 := this.2 pre.length (by rw [h]; simp)
  rw [h] at h2
  simpa [List.getD_eq_getElem?_getD] using h2

theorem rays_nodup {s : Nat} (hs : s ∈ sq88) : (kingDirs.flatMap (rayOf s)).Nodup ∧
    (rookDirs.flatMap (rayOf s)).Nodup ∧ (bishopDirs.flatMap (rayOf s)).Nodup := by
  have := List.all_eq_true.1 rays_nodup_all s hs
  simp only [Bool.and_eq_true] at this
  exact ⟨nodup_of_nodupB this.1.1, nodup_of_nodupB this.1.2, nodup_of_nodupB this.2⟩

theorem line_iff {s t : Nat} (hs : s ∈ sq88) (ht : t ∈ sq88) :
    Spec.onLine (to64 s) (to64 t) = true ↔ ∃ d ∈ rookDirs, t ∈ rayOf s d := by
  have := List.all_eq_true.1 (List.all_eq_true.1 rays_line_all s hs) t ht
  rw [beq_iff_eq] at this
  rw [this, List.contains_iff_mem, List.mem_flatMap]

theorem diag_iff {s t : Nat} (hs : s ∈ sq88) (ht : t ∈ sq88) :
    Spec.onDiag (to64 s) (to64 t) = true ↔ ∃ d ∈ bishopDirs, t ∈ rayOf s d := by
  have := List.all_eq_true.1 (List.all_eq_true.1 rays_diag_all s hs) t ht
  rw [beq_iff_eq] at this
  rw [this, List.contains_iff_mem, List.mem_flatMap]

theorem kingDirs_iff {d : Nat} : d ∈ kingDirs ↔ d ∈ rookDirs ∨ d ∈ bishopDirs := by
  simp only [kingDirs, Gen.kingDirections, rookDirs, bishopDirs, Gen.DirN, Gen.DirS, Gen.DirE, Gen.DirW,
    Gen.DirNE, Gen.DirSE, Gen.DirNW, Gen.DirSW, List.mem_cons, List.not_mem_nil, or_false]
  omega

theorem rookDirs_sub {d : Nat} (h : d ∈ rookDirs) : d ∈ kingDirs := kingDirs_iff.2 (.inl h)
theorem bishopDirs_sub {d : Nat} (h : d ∈ bishopDirs) : d ∈ kingDirs := kingDirs_iff.2 (.inr h)

theorem queen_iff {s t : Nat} (hs : s ∈ sq88) (ht : t ∈ sq88) :
    (Spec.onLine (to64 s) (to64 t) || Spec.onDiag (to64 s) (to64 t)) = true ↔ ∃ d ∈ kingDirs, t ∈ rayOf s d := by
  rw [Bool.or_eq_true, line_iff hs ht, diag_iff hs ht]
  constructor
  · rintro (⟨d, hd, h⟩ | ⟨d, hd, h⟩)
    · exact ⟨d, rookDirs_sub hd, h⟩
    · exact ⟨d, bishopDirs_sub hd, h⟩
  · rintro ⟨d, hd, h⟩
    rcases kingDirs_iff.1 hd with h' | h'
    · exact .inl ⟨d, h', h⟩
    · exact .inr ⟨d, h', h⟩

/-- the pawn facts of `pawnOk`, as propositions -/
structure PawnGeo (w : Bool) (s : Nat) : Prop where
  to1_mem : addb s (advOf w) ∈ sq88
  toK_lt : addb (addb s (advOf w)) 1 < 128
  to2_mem : rankOf s = startRankOf w → addb (addb s (advOf w)) (advOf w) ∈ sq88
  notPromo : Spec.rankOf (to64 s) ≠ Spec.promoRank (colorOf w)
  mid : Spec.mkSq (Spec.fileOf (to64 s)) (Spec.fwd (colorOf w) (Spec.rankOf (to64 s))) = to64 (addb s (advOf w))
  toQ_ne : addb (addb s (advOf w)) 255 ≠ InvalidSq
  toK_ne : addb (addb s (advOf w)) 1 ≠ InvalidSq
  dblAux : rankOf s = startRankOf w →
    rankOf (addb (addb s (advOf w)) (advOf w)) ≠ promoRankOf w ∧
    Spec.adiff (Spec.rankOf (to64 s)) (Spec.rankOf (to64 (addb (addb s (advOf w)) (advOf w)))) = 2 ∧
    Spec.mkSq (Spec.fileOf (to64 s))
      ((Spec.rankOf (to64 s) + Spec.rankOf (to64 (addb (addb s (advOf w)) (advOf w)))) / 2) = to64 (addb s (advOf w))
  push : ∀ t ∈ sq88, pushRel (colorOf w) (to64 s) (to64 t) = (t == addb s (advOf w))
  dbl : ∀ t ∈ sq88, dblRel (colorOf w) (to64 s) (to64 t)
      = (rankOf s == startRankOf w && t == addb (addb s (advOf w)) (advOf w))
  cap : ∀ t ∈ sq88, capRel (colorOf w) (to64 s) (to64 t)
      = (t == addb (addb s (advOf w)) 255 || t == addb (addb s (advOf w)) 1)

theorem pawnGeo (w : Bool) {s : Nat} (hs : s ∈ sq88) (hb : notBack s = true) : PawnGeo w s := by
  have h := List.all_eq_true.1 (pawnOk_all w) s hs
  simp only [pawnOk, hb, Bool.not_true, Bool.false_or, Bool.and_eq_true, decide_eq_true_eq, Bool.or_eq_true,
    bne_iff_ne, ne_eq, beq_iff_eq, List.all_eq_true] at h
  obtain ⟨⟨⟨⟨⟨⟨⟨⟨h1, h2⟩, h3⟩, h4⟩, h5⟩, h6⟩, h8⟩, h9⟩, h7⟩ := h
  refine ⟨mem_sq88.2 ⟨h1, h2⟩, h3, fun hr => ?_, h5, h6, h8.1, h8.2, fun hr => ?_,
    fun t ht => ?_, fun t ht => ?_, fun t ht => ?_⟩
  · rcases h4 with h4 | h4
    · exact absurd hr h4
    · exact mem_sq88.2 h4
  · rcases h9 with h9 | h9
    · exact absurd hr h9
    · exact ⟨h9.1.1, h9.1.2, h9.2⟩
  · have := (h7 t ht).1.1
    cases hb1 : pushRel (colorOf w) (to64 s) (to64 t) <;> cases hb2 : (t == addb s (advOf w)) <;> simp_all
  · have := (h7 t ht).1.2
    cases hb1 : dblRel (colorOf w) (to64 s) (to64 t) <;>
      cases hb2 : (rankOf s == startRankOf w && t == addb (addb s (advOf w)) (advOf w)) <;> simp_all
  · have := (h7 t ht).2
    cases hb1 : capRel (colorOf w) (to64 s) (to64 t) <;>
      cases hb2 : (t == addb (addb s (advOf w)) 255 || t == addb (addb s (advOf w)) 1) <;> simp_all

theorem promoRank_iff (w : Bool) {t : Nat} (ht : t ∈ sq88) :
    (Spec.rankOf (to64 t) == Spec.promoRank (colorOf w)) = (rankOf t == promoRankOf w) := by
  have := List.all_eq_true.1 (promoRank_all w) t ht
  simpa [promoRankOk] using this

/-! ### castling squares -/

def kingHome (w : Bool) : Nat := if w then Gen.E1 else Gen.E8

/-- the generator's `int8` index arithmetic around the king's home square -/
theorem castle_idx (w : Bool) :
    add8 (int8 (kingHome w)) (-1) = ((kingHome w - 1 : Nat) : Int) ∧
    add8 (int8 (kingHome w)) (-2) = ((kingHome w - 2 : Nat) : Int) ∧
    add8 (int8 (kingHome w)) (-3) = ((kingHome w - 3 : Nat) : Int) ∧
    add8 (int8 (kingHome w)) 1 = ((kingHome w + 1 : Nat) : Int) ∧
    add8 (int8 (kingHome w)) 2 = ((kingHome w + 2 : Nat) : Int) := by
  cases w <;> decide

theorem castle_sq (w : Bool) :
    kingHome w ∈ sq88 ∧ kingHome w - 1 ∈ sq88 ∧ kingHome w - 2 ∈ sq88 ∧ kingHome w - 3 ∈ sq88 ∧
    kingHome w + 1 ∈ sq88 ∧ kingHome w + 2 ∈ sq88 ∧ kingHome w - 4 ∈ sq88 ∧ kingHome w + 3 ∈ sq88 := by
  cases w <;> decide

theorem castle_to64 (w : Bool) :
    to64 (kingHome w) = Spec.mkSq 4 (Spec.homeRank (colorOf w)) ∧
    to64 (kingHome w - 1) = Spec.mkSq 3 (Spec.homeRank (colorOf w)) ∧
    to64 (kingHome w - 2) = Spec.mkSq 2 (Spec.homeRank (colorOf w)) ∧
    to64 (kingHome w - 3) = Spec.mkSq 1 (Spec.homeRank (colorOf w)) ∧
    to64 (kingHome w - 4) = Spec.mkSq 0 (Spec.homeRank (colorOf w)) ∧
    to64 (kingHome w + 1) = Spec.mkSq 5 (Spec.homeRank (colorOf w)) ∧
    to64 (kingHome w + 2) = Spec.mkSq 6 (Spec.homeRank (colorOf w)) ∧
    to64 (kingHome w + 3) = Spec.mkSq 7 (Spec.homeRank (colorOf w)) := by
  cases w <;> decide

/-- the castling targets are not king steps -/
theorem castle_not_step (w : Bool) :
    kingHome w - 2 ∉ stepSqs (kingHome w) kingDirs ∧ kingHome w + 2 ∉ stepSqs (kingHome w) kingDirs := by
  cases w <;> decide

end Magog.GenGeoO
