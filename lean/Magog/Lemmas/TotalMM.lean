import Magog.Lemmas.MMSpecial
import Magog.Model.Eval

/-! `makeMove` never panics on a broad class of "simple" moves, WITHOUT the hypothesis that the side not
    to move is safe (`MM.OppSafe`), without the promotion-rank discipline of the generator (a pawn may
    arrive on the last rank with `promo = 0`, as in `countPawnMoves`), and allowing the capture of the
    enemy KING (as happens in `countMoves (flipTurn p)` when the side to move of `p` is in check).

    Only totality is claimed (`∃ r, makeMove p m = .ok r`); the result need not satisfy `Inv`. -/

namespace Magog.Total
open Magog Magog.Model Magog.Atk Magog.Geo Magog.MM Magog.Count

/-! ### `anyM'` and `isUnderCheck` -/

theorem anyM'_total {α} {f : α → M Bool} :
    ∀ {l : List α}, (∀ x ∈ l, ∃ b, f x = .ok b) → ∃ b, anyM' f l = .ok b := by
  intro l
  induction l with
  | nil => intro _; exact ⟨false, rfl⟩
  | cons x xs ih =>
    intro h
    obtain ⟨b, hb⟩ := h x List.mem_cons_self
    obtain ⟨b', hb'⟩ := ih (fun y hy => h y (List.mem_cons_of_mem _ hy))
    cases b
    · exact ⟨b', by simp only [anyM', hb, ok_bind, Bool.false_eq_true, if_false, hb']⟩
    · exact ⟨true, by simp only [anyM', hb, ok_bind, if_true, pure_eq_ok]⟩

/-- `isUnderCheck` never panics; nothing is assumed about what stands on `en.king` -/
theorem isUnderCheck_total {B : Array Nat} {en : Side} {d : Nat} (hb : BoardOk B)
    (hp : ∀ s ∈ en.pawns, s ∈ sq88)
    (hq : ∀ s ∈ en.pieces, s ∈ sq88 ∧ ∃ w c, c ∈ officersOf w ∧ B[s]? = some c)
    (hk : en.king ∈ sq88) (hd : d ∈ sq88) : ∃ b, isUnderCheck B en d = .ok b := by
  have hklt : en.king < B.size := by rw [hb.size]; exact (mem_sq88.mp hk).1
  have hkc : bget B en.king = .ok B[en.king] := by
    simp [bget, hklt, pure_eq_ok]
  have hP : ∀ flag, ∃ b, anyM' (pawnAttacks flag d) en.pawns = .ok b := fun flag =>
    anyM'_total fun s hs => ⟨attackAt s d &&& flag != 0, by
      simp only [pawnAttacks, tget_attack (hp s hs) hd, ok_bind, pure_eq_ok]⟩
  have hQ : ∃ b, anyM' (pieceAttacks B d) en.pieces = .ok b :=
    anyM'_total fun s hs => by
      obtain ⟨h1, w, c, hc, hbc⟩ := hq s hs
      exact ⟨_, pieceAttacks_spec hb h1 hd hbc hc⟩
  obtain ⟨b1, hb1⟩ := hP (if B[en.king] &&& BlackBit == 0 then Gen.WPawnAttacks else Gen.BPawnAttacks)
  obtain ⟨b2, hb2⟩ := hQ
  cases b1
  · cases b2
    · exact ⟨attackAt en.king d &&& Gen.KingAttacks != 0, by
        simp only [isUnderCheck, hkc, ok_bind, hb1, hb2, Bool.false_eq_true, if_false,
          tget_attack hk hd, pure_eq_ok]⟩
    · exact ⟨true, by simp only [isUnderCheck, hkc, ok_bind, hb1, hb2, Bool.false_eq_true, if_false, if_true,
        pure_eq_ok]⟩
  · exact ⟨true, by simp only [isUnderCheck, hkc, ok_bind, hb1, if_true, pure_eq_ok]⟩

/-! ### the invariant with the en-passant field ignored -/

/-- `Inv` with the en-passant field ignored -/
def InvNoEp (p : Position) : Prop := Inv { p with ep := InvalidSq }

theorem invNoEp_of_inv {p : Position} (h : Inv p) : InvNoEp p :=
  { board := h.board, offBoard := h.offBoard, white := h.white, black := h.black
    wpNodup := h.wpNodup, bpNodup := h.bpNodup, wpcNodup := h.wpcNodup, bpcNodup := h.bpcNodup
    wpLen := h.wpLen, bpLen := h.bpLen, wLen := h.wLen, bLen := h.bLen
    noBackPawn := h.noBackPawn, flags := h.flags, castling := h.castling, ep := .inl rfl }

theorem flip_flags_fin : ∀ f < 32, (f ^^^ FWhiteTurn) < 32 ∧ (f ^^^ FWhiteTurn) &&& FWK = f &&& FWK ∧
    (f ^^^ FWhiteTurn) &&& FWQ = f &&& FWQ ∧ (f ^^^ FWhiteTurn) &&& FBK = f &&& FBK ∧
    (f ^^^ FWhiteTurn) &&& FBQ = f &&& FBQ ∧
    ((f ^^^ FWhiteTurn) &&& FWhiteTurn != 0) = !(f &&& FWhiteTurn != 0) := by decide

theorem whiteTurn_flip {p : Position} (hf : p.flags < 32) : whiteTurn (flipTurn p) = !whiteTurn p :=
  (flip_flags_fin p.flags hf).2.2.2.2.2

theorem invNoEp_flip {p : Position} (h : Inv p) : InvNoEp (flipTurn p) := by
  obtain ⟨f0, f1, f2, f3, f4, _⟩ := flip_flags_fin p.flags h.flags
  have hc : castlingConsistent { flipTurn p with ep := InvalidSq } = castlingConsistent p := by
    simp only [castlingConsistent, flipTurn, f1, f2, f3, f4]
  exact
    { board := h.board, offBoard := h.offBoard, white := h.white, black := h.black
      wpNodup := h.wpNodup, bpNodup := h.bpNodup, wpcNodup := h.wpcNodup, bpcNodup := h.bpcNodup
      wpLen := h.wpLen, bpLen := h.bpLen, wLen := h.wLen, bLen := h.bLen
      noBackPawn := h.noBackPawn, flags := f0, castling := hc.trans h.castling, ep := .inl rfl }

theorem InvNoEp.boardInv {p : Position} (h : InvNoEp p) : BoardInv p.board :=
  Inv.boardInv (p := { p with ep := InvalidSq }) h
theorem InvNoEp.sideInv {p : Position} (h : InvNoEp p) (w : Bool) : SideInv p.board (p.side w) w :=
  Inv.sideInv (p := { p with ep := InvalidSq }) h w
theorem InvNoEp.flags {p : Position} (h : InvNoEp p) : p.flags < 32 :=
  Inv.flags (p := { p with ep := InvalidSq }) h
theorem InvNoEp.castling {p : Position} (h : InvNoEp p) : castlingConsistent p = true :=
  Inv.castling (p := { p with ep := InvalidSq }) h

/-! ### simple moves -/

/-- a "simple" move: one man of the side to move goes from frm to to; the target is empty or ANY enemy man
    (also the king); a pawn may arrive on the last rank with promo = 0; no en-passant capture, no castling
    shape -/
structure MoveOk (p : Position) (w : Bool) (m : Move) (v t : Nat) : Prop where
  frm : m.frm ∈ sq88
  to : m.to ∈ sq88
  hv : p.board[m.frm]? = some v
  man : Man w v
  ht : p.board[m.to]? = some t
  tgt : t = 0 ∨ Man (!w) t
  promo : v = pawnOf w → m.promo = 0 ∨ m.promo ∈ promoKinds
  nonPawn : v ≠ pawnOf w → m.promo = 0
  notEp : v = pawnOf w → m.to ≠ p.ep
  notCastle : v = kingOf w → ¬ (fileOf m.frm = Gen.E ∧ (fileOf m.to = Gen.C ∨ fileOf m.to = Gen.G))

/-- `mmCapture` on an empty square or on any enemy man (also the king): succeeds, the enemy lists only
    lose the target square, the king field is unchanged -/
theorem capture_total {B : Array Nat} {en : Side} {m : Move} {w : Bool} {t : Nat}
    (hs : SideInv B en (!w)) (hto : m.to ∈ sq88) (htv : B[m.to]? = some t) (ht : t = 0 ∨ Man (!w) t) :
    ∃ en', mmCapture B en m (colorBit (!w)) = .ok en' ∧ en'.king = en.king ∧
      (∀ s ∈ en'.pawns, s ∈ en.pawns ∧ s ≠ m.to) ∧ (∀ s ∈ en'.pieces, s ∈ en.pieces ∧ s ≠ m.to) := by
  obtain ⟨mp, mq, _⟩ := hs.ok.mem_of_man hto htv
  have d1 := pawnOf_not_officer (!w) (!w)
  have d2 := pawnOf_ne_kingOf (!w) (!w)
  have d3 := kingOf_not_officer (!w) (!w)
  rcases ht with h0 | hp | ho | hk
  · subst h0
    obtain ⟨htp, htq, _⟩ := hs.ok.not_mem_of_not_man htv (not_man_zero (!w))
    refine ⟨en, ?_, rfl, fun s h => ⟨h, fun e => htp (e ▸ h)⟩, fun s h => ⟨h, fun e => htq (e ▸ h)⟩⟩
    simp only [mmCapture, bget_eq, htv, ok_bind, bne_self_eq_false, Bool.false_eq_true, if_false, pure_eq_ok]
  · subst hp
    have htp := mp rfl
    have htq : m.to ∉ en.pieces := fun hm => by
      obtain ⟨o, ho, e⟩ := (hs.ok.piece_cell hm).2
      rw [htv] at e; cases e; exact d1 ho
    obtain ⟨l', hk, hm, _, _⟩ := kill_spec "enemyPawns" htp hs.ndPawns
    refine ⟨{ en with pawns := l' }, ?_, rfl, fun s h => (hm s).mp h, fun s h => ⟨h, fun e => htq (e ▸ h)⟩⟩
    have e0 : (pawnOf (!w) != 0) = true := by simpa using pawnOf_ne_zero (!w)
    have e1 : (pawnOf (!w) != kingOf (!w)) = true := by simpa using d2
    simp only [mmCapture, bget_eq, htv, ok_bind, e0, if_true, king_code, e1, pawn_code, beq_self_eq_true, hk,
      pure_eq_ok]
  · have htq := mq ho
    have htp' : t ≠ pawnOf (!w) := fun e => d1 (e ▸ ho)
    have htk' : t ≠ kingOf (!w) := fun e => d3 (e ▸ ho)
    have htp : m.to ∉ en.pawns := fun hm => by
      have e := (hs.ok.pawn_cell hm).2
      rw [htv] at e; cases e; exact htp' rfl
    obtain ⟨l', hk, hm, _, _⟩ := kill_spec "enemyPieces" htq hs.ndPieces
    refine ⟨{ en with pieces := l' }, ?_, rfl, fun s h => ⟨h, fun e => htp (e ▸ h)⟩, fun s h => (hm s).mp h⟩
    have e0 : (t != 0) = true := by simpa using officer_ne_zero ho
    have e1 : (t != kingOf (!w)) = true := by simpa using htk'
    have e2 : (t == pawnOf (!w)) = false := by simpa using htp'
    simp only [mmCapture, bget_eq, htv, ok_bind, e0, if_true, king_code, e1, pawn_code, e2, Bool.false_eq_true,
      if_false, hk, pure_eq_ok]
  · subst hk
    have htp : m.to ∉ en.pawns := fun hm => by
      have e := (hs.ok.pawn_cell hm).2
      rw [htv] at e; exact d2 (Option.some.inj e).symm
    have htq : m.to ∉ en.pieces := fun hm => by
      obtain ⟨o, ho, e⟩ := (hs.ok.piece_cell hm).2
      rw [htv] at e; cases e; exact d3 ho
    refine ⟨en, ?_, rfl, fun s h => ⟨h, fun e => htp (e ▸ h)⟩, fun s h => ⟨h, fun e => htq (e ▸ h)⟩⟩
    have e0 : (kingOf (!w) != 0) = true := by simpa using kingOf_ne_zero (!w)
    simp only [mmCapture, bget_eq, htv, ok_bind, e0, if_true, king_code, bne_self_eq_false, Bool.false_eq_true,
      if_false, pure_eq_ok]

/-- `makeMove` never panics on a simple move of a position that is well-formed up to its en-passant field -/
theorem makeMove_total_of_moveOk {p : Position} {w : Bool} {m : Move} {v t : Nat}
    (hI : InvNoEp p) (hw : whiteTurn p = w) (h : MoveOk p w m v t) : ∃ r, makeMove p m = .ok r := by
  have hB := hI.boardInv
  have hcur := hI.sideInv w
  have hen := hI.sideInv (!w)
  obtain ⟨hf1, hf2⟩ := mem_sq88.mp h.frm
  obtain ⟨ht1, ht2⟩ := mem_sq88.mp h.to
  have hnot : ¬ Man w t := by
    rcases h.tgt with rfl | ht
    · exact not_man_zero w
    · exact fun h' => man_not_other h' ht
  have hne : m.frm ≠ m.to := by
    intro e
    have := h.hv; rw [e, h.ht] at this; cases this; exact hnot h.man
  -- the value written to `to`
  have hv' : Man w (if m.promo = 0 then v else m.promo ||| colorBit w) := by
    by_cases h0 : m.promo = 0
    · rw [if_pos h0]; exact h.man
    · rw [if_neg h0]
      have hvp : v = pawnOf w := Classical.byContradiction fun e => h0 (h.nonPawn e)
      rcases h.promo hvp with h' | h'
      · exact absurd h' h0
      · exact .inr (.inl (promo_code_mem w h'))
  obtain ⟨cur', h1, hspec1⟩ := mover_simple (flags := p.flags) hcur h.frm h.hv h.man h.ht hnot h.promo h.nonPawn
    h.notCastle
  obtain ⟨en', h2, hk2, hp2, hq2⟩ := capture_total (m := m) hen h.to h.ht h.tgt
  have h3 : mmBoard p.board en' m p.ep (colorBit w) = .ok ((p.board.setIfInBounds m.to
      (if m.promo = 0 then v else m.promo ||| colorBit w)).setIfInBounds m.frm 0, en') := by
    by_cases h0 : m.promo = 0
    · rw [if_pos h0]
      refine board_plain hB.ok.size hf1 ht1 h0 h.hv ?_
      rintro ⟨e1, e2⟩
      rw [pawn_code] at e2
      exact h.notEp e2 e1.symm
    · rw [if_neg h0]
      exact board_promo hB.ok.size hf1 ht1 h0
  have hU := upd2_set (v' := if m.promo = 0 then v else m.promo ||| colorBit w) hB.ok.size hf1 ht1
  -- the updated board
  have hB2 : BoardOk ((p.board.setIfInBounds m.to
      (if m.promo = 0 then v else m.promo ||| colorBit w)).setIfInBounds m.frm 0) := by
    refine ⟨hU.1.trans hB.ok.size, fun s hs hv => ?_⟩
    rw [hU.2 s]
    by_cases e1 : s = m.frm
    · exact ⟨0, by simp [e1], .inl rfl⟩
    · by_cases e2 : s = m.to
      · subst e2
        exact ⟨_, by rw [if_neg e1, if_pos rfl], .inr (man_mem_codes hv')⟩
      · simp only [e1, e2, if_false]
        exact hB.ok.codes s hs hv
  have hnv : ¬ Man (!w) v := fun h' => man_not_other h' (by simpa using h.man)
  obtain ⟨hfp, hfq, _⟩ := hen.ok.not_mem_of_not_man h.hv hnv
  have hkd : cur'.king ∈ sq88 := by
    rcases (hspec1.hk cur'.king).mp rfl with ⟨_, _, e⟩ | ⟨e, _⟩
    · rw [e]; exact hcur.ok.king_cell.1
    · rw [e]; exact h.to
  obtain ⟨chk, h4⟩ := isUnderCheck_total (en := en') (d := cur'.king) hB2
    (fun s hs => (hen.ok.pawn_cell (hp2 s hs).1).1)
    (fun s hs => by
      obtain ⟨hm, hnt⟩ := hq2 s hs
      obtain ⟨h88, o, ho, ho'⟩ := hen.ok.piece_cell hm
      refine ⟨h88, !w, o, ho, ?_⟩
      rw [hU.2 s, if_neg (fun e : s = m.frm => hfq (e ▸ hm)), if_neg hnt]
      exact ho')
    (by rw [hk2]; exact hen.ok.king_cell.1) hkd
  exact ⟨_, makeMove_eq hw h1 h2 h3 h4⟩

theorem isLegal_total_of_moveOk {p : Position} {w : Bool} {m : Move} {v t : Nat}
    (hI : InvNoEp p) (hw : whiteTurn p = w) (h : MoveOk p w m v t) : ∃ b, isLegal p m = .ok b := by
  obtain ⟨r, hr⟩ := makeMove_total_of_moveOk hI hw h
  exact ⟨r.2, by simp only [isLegal, hr, ok_bind, pure_eq_ok]⟩

/-! ### non-vacuity -/

example : InvNoEp startPosition := invNoEp_of_inv inv_startPosition
example : InvNoEp (flipTurn startPosition) := invNoEp_flip inv_startPosition

/-- e2-e4 in the initial position -/
example : MoveOk startPosition true ⟨0x14, 0x34, 0, 0x24⟩ Gen.WPawn 0 := by
  refine ⟨by decide, by decide, by decide +kernel, by decide, by decide +kernel, .inl rfl, fun _ => .inl rfl,
    fun _ => rfl, fun _ => by decide, fun h => absurd h (by decide)⟩

example : ∃ r, makeMove startPosition ⟨0x14, 0x34, 0, 0x24⟩ = .ok r :=
  makeMove_total_of_moveOk (invNoEp_of_inv inv_startPosition) (w := true) (by decide)
    (v := Gen.WPawn) (t := 0)
    ⟨by decide, by decide, by decide +kernel, by decide, by decide +kernel, .inl rfl, fun _ => .inl rfl,
      fun _ => rfl, fun _ => by decide, fun h => absurd h (by decide)⟩

end Magog.Total
