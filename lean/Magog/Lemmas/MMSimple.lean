import Magog.Lemmas.MMStages
import Magog.Spec.MakeMove

/-! `makeMove` on a simple move (one man goes from `frm` to `to`, possibly capturing a non-king man,
    possibly promoting; no castling, no en-passant capture): explicit result and invariant. Also the
    generic final step (`finish`) shared with the castling and en-passant cases. -/

namespace Magog.MM
open Magog Magog.Model Magog.Atk Magog.Geo Magog.Count

theorem homeRanks (w : Bool) {r : Nat} (h1 : r ≠ homeRank w) (h2 : r ≠ homeRank (!w)) :
    r ≠ Gen.Rank1 ∧ r ≠ Gen.Rank8 := by
  cases w
  · exact ⟨h2, h1⟩
  · exact ⟨h1, h2⟩

theorem whiteTurn_flagsAfter {p : Position} {w : Bool} (hw : whiteTurn p = w) (hf : p.flags < 32)
    (B : Array Nat) (cur en : Side) (km b1 b2 b3 b4 : Bool) (e : Nat) :
    whiteTurn (mkPos p w B cur en (flagsAfter w p.flags km b1 b2 b3 b4) e) = !w := by
  have := (flagsAfter_fin w p.flags hf km b1 b2 b3 b4).2.1
  unfold whiteTurn at hw ⊢
  rw [mkPos_flags, this, hw]

/-- The generic last step: from the three stages and the invariant of their results to the headline
    statement about `makeMove`. -/
theorem finish {p : Position} {m : Move} {w km : Bool} (hI : Inv p) (hw : whiteTurn p = w)
    {B1 : Array Nat} {cur1 en1 : Side} {B2 : Array Nat} {en2 : Side}
    (h1 : mmMover p.board p.flags (p.side w) m (colorBit w) (homeRank w) (flagK w) (flagQ w)
      = .ok (B1, (if km then clearBits p.flags (flagK w ||| flagQ w) else p.flags), cur1))
    (h2 : mmCapture B1 (p.side (!w)) m (colorBit (!w)) = .ok en1)
    (h3 : mmBoard B1 en1 m p.ep (colorBit w) = .ok (B2, en2))
    (hb : BoardInv B2) (hc : SideInv B2 cur1 w) (he : SideInv B2 en2 (!w))
    (hcast : CastlingOk B2 (flagsAfter w p.flags km (cornerA m w) (cornerH m w) (cornerA' m w) (cornerH' m w)))
    (hep : m.ep = InvalidSq ∨
      FenSpec.EpOk (mkPos p w B2 cur1 en2
        (flagsAfter w p.flags km (cornerA m w) (cornerH m w) (cornerA' m w) (cornerH' m w)) m.ep)) :
    ∃ p' b, makeMove p m = .ok (p', b) ∧ Inv p' ∧ (b = true ↔ OppSafe p') := by
  have hk : cur1.king ∈ sq88 := hc.ok.king_cell.1
  have h4 := isUnderCheck_eq (d := cur1.king) hb.ok he.ok hk
  have hmm := makeMove_eq hw h1 h2 h3 h4
  rw [newFlags_eq] at hmm
  refine ⟨_, _, hmm, ?_, ?_⟩
  · have hfl := (flagsAfter_fin w p.flags hI.flags km (cornerA m w) (cornerH m w) (cornerA' m w) (cornerH' m w)).1
    apply inv_of_parts
    · rw [mkPos_board]; exact hb
    · rw [mkPos_board]
      cases w
      · exact he
      · exact hc
    · rw [mkPos_board]
      cases w
      · exact hc
      · exact he
    · rw [mkPos_flags]; exact hfl
    · rw [castlingConsistent_iff (by rw [mkPos_board]; exact hb.ok.size), mkPos_board, mkPos_flags]
      exact hcast
    · rw [mkPos_ep]; exact hep
  · unfold OppSafe
    rw [whiteTurn_flagsAfter hw hI.flags, Bool.not_not, mkPos_board, mkPos_side_en, mkPos_side_cur, h4]
    cases Spec.attacked (absBoard B2) (colorOf !w) (to64 cur1.king) <;> simp

/-- what the proof needs to know about a simple move -/
structure SimpleMove (p : Position) (w : Bool) (m : Move) (v t : Nat) : Prop where
  frm : m.frm ∈ sq88
  to : m.to ∈ sq88
  hv : p.board[m.frm]? = some v
  man : Man w v
  ht : p.board[m.to]? = some t
  tgt : t = 0 ∨ t = pawnOf (!w) ∨ t ∈ officersOf (!w)
  promo : v = pawnOf w → (if rankOf m.to = homeRank (!w) then m.promo ∈ promoKinds else m.promo = 0)
  pawnRank : v = pawnOf w → rankOf m.to ≠ homeRank w
  notEp : v = pawnOf w → m.to ≠ p.ep
  nonPawn : v ≠ pawnOf w → m.promo = 0
  notCastle : v = kingOf w → ¬ (fileOf m.frm = Gen.E ∧ (fileOf m.to = Gen.C ∨ fileOf m.to = Gen.G))

theorem officer_not_pawn_code {w : Bool} {v : Nat} (h : v ∈ officersOf w) : v ≠ Gen.WPawn ∧ v ≠ Gen.BPawn := by
  have : ∀ w : Bool, ∀ v ∈ officersOf w, v ≠ Gen.WPawn ∧ v ≠ Gen.BPawn := by decide
  exact this w v h

theorem man_pawn_code {w : Bool} {v : Nat} (h : Man w v) (hp : v = Gen.WPawn ∨ v = Gen.BPawn) : v = pawnOf w := by
  have : ∀ w : Bool, ∀ v ∈ pieceCodes, Man w v → (v = Gen.WPawn ∨ v = Gen.BPawn) → v = pawnOf w := by decide
  exact this w v (man_mem_codes h) h hp

theorem rookOf_not_other (w : Bool) : ¬ Man w (rookOf (!w)) := by cases w <;> decide
theorem kingOf_not_other (w : Bool) : ¬ Man w (kingOf (!w)) := by cases w <;> decide
theorem rookOf_man (w : Bool) : Man w (rookOf w) := .inr (.inl (rookOf_mem w))
theorem kingOf_man (w : Bool) : Man w (kingOf w) := .inr (.inr rfl)

/-- the result of a simple move, before the en-passant field is considered -/
theorem simple_result {p : Position} {w : Bool} {m : Move} {v t : Nat} (hI : Inv p) (hw : whiteTurn p = w)
    (hs : SimpleMove p w m v t)
    (hep : ∀ B' cur' en' f', Upd2 p.board B' m.frm m.to (if m.promo = 0 then v else m.promo ||| colorBit w) →
      whiteTurn (mkPos p w B' cur' en' f' m.ep) = (!w) →
      m.ep = InvalidSq ∨ FenSpec.EpOk (mkPos p w B' cur' en' f' m.ep)) :
    ∃ p' b, makeMove p m = .ok (p', b) ∧ Inv p' ∧ (b = true ↔ OppSafe p') := by
  have hB := hI.boardInv
  have hcur := hI.sideInv w
  have hen := hI.sideInv (!w)
  obtain ⟨hf1, hf2⟩ := mem_sq88.mp hs.frm
  obtain ⟨ht1, ht2⟩ := mem_sq88.mp hs.to
  have hnot : ¬ Man w t := by
    rcases hs.tgt with rfl | rfl | h
    · exact fun h => man_ne_zero h rfl
    · exact fun h => man_not_other h (.inl rfl)
    · exact fun h' => man_not_other h' (.inr (.inl h))
  have hne : m.frm ≠ m.to := by
    intro e
    have := hs.hv; rw [e, hs.ht] at this; cases this; exact hnot hs.man
  have hpromo : v = pawnOf w → m.promo = 0 ∨ m.promo ∈ promoKinds := fun e => by
    have := hs.promo e
    split at this
    · exact .inr this
    · exact .inl this
  -- the value written to `to`
  have hv' : Man w (if m.promo = 0 then v else m.promo ||| colorBit w) := by
    by_cases h0 : m.promo = 0
    · rw [if_pos h0]; exact hs.man
    · rw [if_neg h0]
      have hvp : v = pawnOf w := Classical.byContradiction fun e => h0 (hs.nonPawn e)
      rcases hpromo hvp with h | h
      · exact absurd h h0
      · exact .inr (.inl (promo_code_mem w h))
  obtain ⟨cur', h1, hspec1⟩ := mover_simple (flags := p.flags) hcur hs.frm hs.hv hs.man hs.ht hnot hpromo hs.nonPawn
    hs.notCastle
  obtain ⟨en', h2, hspec2⟩ := victim_simple hen hs.to hs.hv hs.man hs.ht hs.tgt hv'
  have h3 : mmBoard p.board en' m p.ep (colorBit w) = .ok ((p.board.setIfInBounds m.to
      (if m.promo = 0 then v else m.promo ||| colorBit w)).setIfInBounds m.frm 0, en') := by
    by_cases h0 : m.promo = 0
    · rw [if_pos h0]
      refine board_plain hB.ok.size hf1 ht1 h0 hs.hv ?_
      rintro ⟨e1, e2⟩
      rw [pawn_code] at e2
      exact hs.notEp e2 e1.symm
    · rw [if_neg h0]
      exact board_promo hB.ok.size hf1 ht1 h0
  have hU := upd2_set (v' := if m.promo = 0 then v else m.promo ||| colorBit w) hB.ok.size hf1 ht1
  have hkm : (if v = kingOf w then clearBits p.flags (flagK w ||| flagQ w) else p.flags) =
      (if (decide (v = kingOf w)) = true then clearBits p.flags (flagK w ||| flagQ w) else p.flags) := by simp
  rw [hkm] at h1
  refine finish (km := decide (v = kingOf w)) hI hw h1 h2 h3 ?_ (sideInv_upd2 hcur hs.to hne hU hspec1)
    (sideInv_upd2 hen hs.to hne hU hspec2) ?_ ?_
  · -- board
    refine boardInv_upd2 hB hs.frm hs.to hU (man_mem_codes hv') fun hp => ?_
    by_cases h0 : m.promo = 0
    · rw [if_pos h0] at hp
      have hvp := man_pawn_code hs.man hp
      have h := hs.promo hvp
      have hr : rankOf m.to ≠ homeRank (!w) := by
        intro e
        rw [if_pos e, h0] at h
        exact promoKinds_ne_zero h rfl
      exact homeRanks w (hs.pawnRank hvp) hr
    · rw [if_neg h0] at hv' hp
      have hvp : v = pawnOf w := Classical.byContradiction fun e => h0 (hs.nonPawn e)
      rcases hpromo hvp with h | h
      · exact absurd h h0
      · have := officer_not_pawn_code (promo_code_mem w h)
        rcases hp with hp | hp
        · exact absurd hp this.1
        · exact absurd hp this.2
  · -- castling
    have hold := (castlingConsistent_iff hB.ok.size).mp hI.castling
    refine castlingOk_step hI.flags hold hf1 ht1 [m.frm, m.to] (fun s hs' => ?_) (fun s hs' hk => ?_)
      (fun s hs' hr => ?_) (fun s hs' hk => ?_) (fun s hs' hr => ?_)
    · simp only [List.mem_cons, List.not_mem_nil, or_false, not_or] at hs'
      rw [hU.2 s, if_neg hs'.1, if_neg hs'.2]
    · simp only [List.mem_cons, List.not_mem_nil, or_false] at hs'
      rcases hs' with rfl | rfl
      · rw [hs.hv] at hk; simpa using Option.some.inj hk
      · rw [hs.ht] at hk; exact absurd (Option.some.inj hk ▸ kingOf_man w) hnot
    · simp only [List.mem_cons, List.not_mem_nil, or_false] at hs'
      rcases hs' with rfl | rfl
      · exact .inl rfl
      · rw [hs.ht] at hr; exact absurd (Option.some.inj hr ▸ rookOf_man w) hnot
    · simp only [List.mem_cons, List.not_mem_nil, or_false] at hs'
      rcases hs' with rfl | rfl
      · rw [hs.hv] at hk; exact kingOf_not_other w (Option.some.inj hk ▸ hs.man)
      · rw [hs.ht] at hk
        have e := Option.some.inj hk
        rcases hs.tgt with h | h | h
        · exact kingOf_ne_zero (!w) (e ▸ h)
        · exact pawnOf_ne_kingOf (!w) (!w) (e ▸ h).symm
        · exact kingOf_not_officer (!w) (!w) (e ▸ h)
    · simp only [List.mem_cons, List.not_mem_nil, or_false] at hs'
      rcases hs' with rfl | rfl
      · rw [hs.hv] at hr; exact absurd (Option.some.inj hr ▸ hs.man) (rookOf_not_other w)
      · rfl
  · exact hep _ _ _ _ hU (whiteTurn_flagsAfter hw hI.flags _ _ _ _ _ _ _ _ _)

end Magog.MM
