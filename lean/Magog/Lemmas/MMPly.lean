import Magog.Lemmas.Count

/-! `makeMove` advances the ply counter by one (with int16 wrap) and flips the side to move —
    unconditionally (no invariant needed). -/

namespace Magog.MM
open Magog Magog.Model Magog.Count

theorem and_one_cases (x : Nat) : x &&& 1 = 0 ∨ x &&& 1 = 1 := by
  rw [Nat.and_one_is_mod]; omega

theorem clearBits_bit0 (x m : Nat) (hm : m &&& 1 = 0) : clearBits x m &&& 1 = x &&& 1 := by
  unfold clearBits
  rw [Nat.and_assoc, Nat.and_xor_distrib_right, hm]
  rfl

theorem xor_one_bit0 (x : Nat) : ((x ^^^ 1) &&& 1 != 0) = !(x &&& 1 != 0) := by
  rw [Nat.and_xor_distrib_right]
  rcases and_one_cases x with h | h <;> rw [h] <;> rfl

theorem mmCorners_bit0 (f : Nat) (m : Move) (cr er cK cQ eK eQ : Nat) (h1 : cK &&& 1 = 0) (h2 : cQ &&& 1 = 0)
    (h3 : eK &&& 1 = 0) (h4 : eQ &&& 1 = 0) : mmCorners f m cr er cK cQ eK eQ &&& 1 = f &&& 1 := by
  unfold mmCorners
  simp only []
  repeat' split
  all_goals simp only [clearBits_bit0, h1, h2, h3, h4]

theorem mmMover_flags {board : Array Nat} {flags : Nat} {cur : Side} {m : Move} {cc cr ck cq : Nat}
    {b' : Array Nat} {f' : Nat} {cur' : Side}
    (h : mmMover board flags cur m cc cr ck cq = .ok (b', f', cur')) :
    f' = flags ∨ f' = clearBits flags (ck ||| cq) := by
  unfold mmMover at h
  simp only [bind_ok] at h
  obtain ⟨fp, _, h⟩ := h
  repeat' split at h
  all_goals
    simp only [bind_ok, pure_eq_ok, Except.ok.injEq, Prod.mk.injEq] at h
  all_goals first
    | (obtain ⟨_, rfl, _⟩ := h; exact .inl rfl)
    | (obtain ⟨_, rfl, _⟩ := h; exact .inr rfl)
    | (obtain ⟨_, _, _, rfl, _⟩ := h; exact .inl rfl)
    | (obtain ⟨_, _, _, _, _, rfl, _⟩ := h; exact .inr rfl)

theorem or_bit0 {a b : Nat} (ha : a &&& 1 = 0) (hb : b &&& 1 = 0) : (a ||| b) &&& 1 = 0 := by
  rw [Nat.and_or_distrib_right, ha, hb]; rfl

/-- ply and side to move after `makeMove` -/
theorem makeMove_ply_aux {p : Position} {m : Move} {p' : Position} {b : Bool} (h : makeMove p m = .ok (p', b)) :
    p'.ply = wrap16 (p.ply + 1) ∧ whiteTurn p' = !whiteTurn p := by
  unfold makeMove at h
  simp only [bind_ok, pure_eq_ok, Except.ok.injEq, Prod.mk.injEq] at h
  obtain ⟨⟨board, flags, cur⟩, h1, en, h2, ⟨board', en'⟩, h3, chk, h4, hp, _⟩ := h
  have hfl := mmMover_flags h1
  have k1 : FWK &&& 1 = 0 := by decide
  have k2 : FWQ &&& 1 = 0 := by decide
  have k3 : FBK &&& 1 = 0 := by decide
  have k4 : FBQ &&& 1 = 0 := by decide
  have hw : FWhiteTurn = 1 := by decide
  cases hwt : whiteTurn p
  · simp only [hwt, Bool.false_eq_true, if_false] at hp hfl
    subst hp
    refine ⟨rfl, ?_⟩
    have hwt' := hwt
    unfold whiteTurn at hwt' ⊢
    simp only [hw] at hwt' ⊢
    rw [xor_one_bit0, mmCorners_bit0 _ _ _ _ _ _ _ _ k3 k4 k1 k2]
    rcases hfl with rfl | rfl
    · rw [hwt']
    · rw [clearBits_bit0 _ _ (or_bit0 k3 k4), hwt']
  · simp only [hwt, if_true] at hp hfl
    subst hp
    refine ⟨rfl, ?_⟩
    have hwt' := hwt
    unfold whiteTurn at hwt' ⊢
    simp only [hw] at hwt' ⊢
    rw [xor_one_bit0, mmCorners_bit0 _ _ _ _ _ _ _ _ k1 k2 k3 k4]
    rcases hfl with rfl | rfl
    · rw [hwt']
    · rw [clearBits_bit0 _ _ (or_bit0 k1 k2), hwt']

end Magog.MM
