import Magog.Lemmas.Deadline

/-! The instrumented search: `Model/Search.lean` with a ghost `g : Option Nat` threaded through that records the
    node count at the moment the consultation counter first reaches a tick at which the clock answers `true`
    (`upd`, applied after EVERY consultation and to the initial state). The instrumented functions `…G` are copies of
    the model's functions (in the decomposed form of the `…_eq` lemmas of SearchFrame / SearchIter) and have no
    influence on the search state: `…_spec` proves that whenever the model's function returns `r`, the instrumented
    one returns the same `r` together with a ghost, and what that ghost satisfies.

    Used for `Props/C13Deadline.deadline_honoured`. -/

namespace Magog.Model
open Magog

abbrev Ghost := Option Nat

/-- record the node count the first time the state is late (`env.timeUp s.tick`) -/
def upd (env : Env) (s : SS) : Ghost → Ghost
  | some n => some n
  | none => if env.timeUp s.tick then some s.nodes else none

abbrev NodeFnG := Position → Nat → Nat → Int → Int → Nat → SS → Ghost → M ((Int × Nat × SS) × Ghost)

/-- `qLoop` with the ghost -/
def qLoopG (env : Env) (child : NodeFnG) (p : Position) (idx depth : Nat) (beta : Int) :
    List RMove → Int → Nat → Nat → SS → Ghost → M (LoopOut × Ghost)
  | [], alpha, curLen, _, s, g => pure (⟨alpha, curLen, s⟩, g)
  | mv :: rest, alpha, curLen, subLen, s, g => do
    if idx + 1 ≥ env.stackCap then throw (.index "posStack" (idx + 1)) else
    let r ← makeMove p mv.mov
    if !r.2 then throw (.explicit "Applying move resulted in illegal position") else
    let x ← child r.1 (idx + 1) (depth + 1) (-beta) (-alpha) subLen s g
    -- x = ((v, subLen, s), g)
    if x.1.2.2.interrupted then pure (⟨alpha, curLen, x.1.2.2⟩, x.2) else
    let s1 := x.1.2.2.consult
    let g1 := upd env s1 x.2
    if env.timeUp (s1.tick - 1) then pure (⟨alpha, curLen, s1⟩, g1) else
    if -x.1.1 ≥ beta then pure (⟨beta, curLen, s1⟩, g1) else
    if -x.1.1 > alpha then do
      let u ← updateBestLine s1 depth x.1.2.1 mv.mov
      qLoopG env child p idx depth beta rest (-x.1.1) u.2 x.1.2.1 u.1 g1
    else qLoopG env child p idx depth beta rest alpha curLen x.1.2.1 s1 g1

/-! ### what the ghost satisfies -/

/-- the ghost is set exactly in late states -/
def GI (env : Env) (s : SS) : Ghost → Prop
  | none => env.timeUp s.tick = false
  | some _ => env.timeUp s.tick = true

/-- relation between ghost before (`g`, in state `s`) and after (`g'`, in state `s'`) a piece of search code:
    the ghost stays what it is once set, and when it is set during the code, at most `L` nodes were evaluated
    since -/
structure GOut (env : Env) (L : Nat) (g : Ghost) (s' : SS) (g' : Ghost) : Prop where
  gi : GI env s' g'
  keep : ∀ n, g = some n → g' = some n
  bound : g = none → ∀ n, g' = some n → s'.nodes ≤ n + L

theorem upd_some (env : Env) (s : SS) (n : Nat) : upd env s (some n) = some n := rfl

theorem GI.late {env : Env} (hm : ClockMono env) {s : SS} {n : Nat} (h : GI env s (some n)) : Late env s :=
  late_of_timeUp hm h (Nat.le_refl _)

/-- after a consultation (or any step that does not lower the tick) the updated ghost is consistent again -/
theorem upd_GI {env : Env} (hm : ClockMono env) {s0 s : SS} {g : Ghost} (h : GI env s0 g) (ht : s0.tick ≤ s.tick) :
    GI env s (upd env s g) := by
  cases g with
  | some n => exact hm _ _ ht h
  | none =>
    unfold upd
    cases hc : env.timeUp s.tick with
    | true => simpa [GI] using hc
    | false => simpa [GI] using hc

theorem upd_none_eq {env : Env} {s : SS} {n : Nat} (h : upd env s none = some n) : n = s.nodes := by
  simp only [upd] at h
  split at h
  · cases h; rfl
  · cases h

/-- an instrumented node function follows the model's and its ghost satisfies `GOut` -/
def NodeSpecG (env : Env) (L : Nat) (f : NodeFn) (fG : NodeFnG) : Prop :=
  ∀ p idx d a b l s g v l' s', GI env s g → f p idx d a b l s = .ok (v, l', s') →
    ∃ g', fG p idx d a b l s g = .ok ((v, l', s'), g') ∧ GOut env L g s' g'

theorem GOut.refl {env : Env} {L : Nat} {s : SS} {g : Ghost} (h : GI env s g) : GOut env L g s g :=
  ⟨h, fun _ h => h, fun h n hn => by rw [h] at hn; cases hn⟩

/-- composition: first `g → g1` (ending in `s1`), then `g1 → g2` (ending in `s2`), where the second piece, when
    entered late, evaluates at most `L` nodes -/
theorem GOut.trans {env : Env} {L : Nat} {g g1 g2 : Ghost} {s1 s2 : SS}
    (h1 : GOut env L g s1 g1) (h2 : GOut env L g1 s2 g2)
    (hlate : ∀ n, g1 = some n → g = none → s2.nodes ≤ n + L) : GOut env L g s2 g2 where
  gi := h2.gi
  keep n hn := h2.keep n (h1.keep n hn)
  bound hg n hn := by
    cases hg1 : g1 with
    | none => exact h2.bound hg1 n hn
    | some m =>
      have := h2.keep m hg1
      rw [this] at hn
      cases hn
      exact hlate _ hg1 hg

theorem okb {α β} (a : α) (f : α → M β) : ((Except.ok a : M α) >>= f) = f a := rfl
theorem pureb {α β} (a : α) (f : α → M β) : ((pure a : M α) >>= f) = f a := rfl

theorem GI.of_tick {env : Env} {s s' : SS} {g : Ghost} (h : GI env s g) (ht : s'.tick = s.tick) : GI env s' g := by
  cases g <;> simpa [GI, ht] using h

/-- one more step that does not evaluate a node, followed by a ghost update -/
theorem GOut.step {env : Env} (hm : ClockMono env) {L : Nat} {g g1 : Ghost} {s1 s2 : SS} (h : GOut env L g s1 g1)
    (ht : s1.tick ≤ s2.tick) (hn : s2.nodes = s1.nodes) : GOut env L g s2 (upd env s2 g1) where
  gi := upd_GI hm h.gi ht
  keep n hn' := by rw [h.keep n hn']; rfl
  bound hg n hn' := by
    cases hg1 : g1 with
    | some m =>
      rw [hg1] at hn'
      cases hn'
      rw [hn]; exact h.bound hg _ hg1
    | none =>
      rw [hg1] at hn'
      rw [upd_none_eq hn']; exact Nat.le_add_right _ _

/-- the same state seen with another name (equal tick and node count) -/
theorem GOut.of_eq {env : Env} {L : Nat} {g g1 : Ghost} {s1 s2 : SS} (h : GOut env L g s1 g1)
    (ht : s2.tick = s1.tick) (hn : s2.nodes = s1.nodes) : GOut env L g s2 g1 :=
  ⟨h.gi.of_tick ht, h.keep, fun hg n hn' => by rw [hn]; exact h.bound hg n hn'⟩

/-- continuing from `(s3, g2)` with a piece of code that, entered late, evaluates at most `L` nodes -/
theorem GOut.continue {env : Env} {L : Nat} {g g2 g' : Ghost} {s3 s' : SS}
    (h2 : GOut env L g s3 g2) (h3 : GOut env L g2 s' g')
    (hlate : ∀ n, g2 = some n → s'.nodes ≤ s3.nodes + L)
    (hfresh : g = none → ∀ n, g2 = some n → n = s3.nodes) : GOut env L g s' g' where
  gi := h3.gi
  keep n hn := h3.keep n (h2.keep n hn)
  bound hg n hn := by
    cases hg2 : g2 with
    | none => exact h3.bound hg2 n hn
    | some m =>
      have := h3.keep m hg2
      rw [this] at hn
      cases hn
      have e := hfresh hg _ hg2
      have := hlate _ hg2
      omega

theorem updateBestLine_same {s d subLen mv s' n} (h : updateBestLine s d subLen mv = .ok (s', n)) :
    s'.tick = s.tick ∧ s'.nodes = s.nodes ∧ s'.interrupted = s.interrupted := by
  unfold updateBestLine at h
  split at h
  · split at h
    · exact absurd h (by simp [throw_ok])
    · simp only [pure_ok, Prod.mk.injEq] at h
      rw [← h.1]; exact ⟨rfl, rfl, rfl⟩
  · exact absurd h (by simp [throw_ok])

theorem qLoopG_spec {env : Env} (hm : ClockMono env) {L : Nat} {child : NodeFn} {childG : NodeFnG}
    (hs : NodeSpecG env L child childG) (hf : NodeFrame TickLe child) (hb : NodeLate env L child)
    (p : Position) (idx depth : Nat) (beta : Int) :
    ∀ (ms : List RMove) (alpha : Int) (curLen subLen : Nat) (s : SS) (g : Ghost) (r : LoopOut), GI env s g →
      qLoop env child p idx depth beta ms alpha curLen subLen s = .ok r →
      ∃ g', qLoopG env childG p idx depth beta ms alpha curLen subLen s g = .ok (r, g') ∧ GOut env L g r.st g' := by
  intro ms
  induction ms with
  | nil =>
    intro alpha curLen subLen s g r hgi h
    simp only [qLoop, pure_ok] at h; subst h
    exact ⟨g, rfl, GOut.refl hgi⟩
  | cons mv rest ih =>
    intro alpha curLen subLen s g r hgi h
    simp only [qLoop] at h
    split at h
    · exact absurd h (by simp [throw_ok])
    next hcap =>
    obtain ⟨mk, hmk, h⟩ := bind_ok.1 h
    split at h
    · exact absurd h (by simp [throw_ok])
    next hleg =>
    obtain ⟨⟨v, sl, s1⟩, hch, h⟩ := bind_ok.1 h
    obtain ⟨g1, hG, o1⟩ := hs _ _ _ _ _ _ _ _ _ _ _ hgi hch
    rw [qLoopG, if_neg hcap, hmk, okb, if_neg hleg, hG, okb]
    dsimp only at h ⊢
    split at h
    · next hi =>
      simp only [pure_ok] at h; subst h
      rw [if_pos hi]
      exact ⟨g1, rfl, o1⟩
    next hi =>
    rw [if_neg hi]
    have o2 : GOut env L g s1.consult (upd env s1.consult g1) := o1.step hm (Nat.le_succ _) rfl
    split at h
    · next hto =>
      simp only [pure_ok] at h; subst h
      rw [if_pos hto]
      exact ⟨_, rfl, o2⟩
    next hto =>
    rw [if_neg hto]
    split at h
    · next hcut =>
      simp only [pure_ok] at h; subst h
      rw [if_pos hcut]
      exact ⟨_, rfl, o2⟩
    next hcut =>
    rw [if_neg hcut]
    -- the loop goes on: the child did not return late, so the ghost was not set before this consultation
    have hto' : env.timeUp s1.tick = false := by
      simpa [SS.consult_tick] using hto
    have hg1 : g1 = none := by
      cases g1 with
      | none => rfl
      | some m => have := o1.gi; simp only [GI] at this; rw [this] at hto'; cases hto'
    have hfresh : g = none → ∀ n, upd env s1.consult g1 = some n → n = s1.consult.nodes := by
      intro _ n hn; rw [hg1] at hn; exact upd_none_eq hn
    split at h
    · next himp =>
      rw [if_pos himp]
      obtain ⟨⟨s3, cl⟩, hu, h⟩ := bind_ok.1 h
      have e3 := updateBestLine_same hu
      rw [hu, okb]
      dsimp only at h ⊢
      have o3 : GOut env L g s3 (upd env s1.consult g1) := o2.of_eq e3.1 e3.2.1
      obtain ⟨g', hG', o'⟩ := ih _ _ _ _ _ _ o3.gi h
      refine ⟨g', hG', o3.continue o' (fun n hn => ?_) (fun hg n hn => by rw [e3.2.1]; exact hfresh hg n hn)⟩
      have hl3 : Late env s3 := GI.late hm (by have := o3.gi; rw [hn] at this; exact this)
      exact qLoop_late_nodes hb hf hl3 h
    · next himp =>
      rw [if_neg himp]
      obtain ⟨g', hG', o'⟩ := ih _ _ _ _ _ _ o2.gi h
      refine ⟨g', hG', o2.continue o' (fun n hn => ?_) hfresh⟩
      have hl3 : Late env s1.consult := GI.late hm (by have := o2.gi; rw [hn] at this; exact this)
      exact qLoop_late_nodes hb hf hl3 h

/-! ### `quiescence` -/

/-- `quiescence` with the ghost (no consultation of its own; the node is counted on entry) -/
def quiescenceG (env : Env) : Nat → NodeFnG
  | 0 => fun _ _ _ _ _ _ _ _ => throw (.hang "quiescence")
  | fuel + 1 => fun p idx depth alpha beta curLen s g => do
    let subLen ← rowLen s (depth + 1)
    let score ← qEval env p depth alpha beta
    let s ← qLog env { s with nodes := s.nodes + 1 }
    if score ≥ beta then pure ((beta, curLen, s), g) else do
    let ms ← generateTacticalMoves p
    let r ← qLoopG env (quiescenceG env fuel) p idx depth beta (env.sortFn ms)
              (if score > alpha then (score, 0) else (alpha, curLen)).1
              (if score > alpha then (score, 0) else (alpha, curLen)).2 subLen s g
    pure ((r.1.score, r.1.curLen, r.1.st), r.2)

theorem quiescenceG_spec {env : Env} (hm : ClockMono env) {L : Nat} :
    ∀ fuel, fuel ≤ L → NodeSpecG env L (quiescence env fuel) (quiescenceG env fuel) := by
  intro fuel
  induction fuel with
  | zero => intro _ p idx d a b l s g v l' s' _ h; simp only [quiescence, throw_ok] at h
  | succ fuel ih =>
    intro hL p idx d a b l s g v l' s' hgi h
    rw [quiescence_succ_eq] at h
    obtain ⟨subLen, hsl, h⟩ := bind_ok.1 h
    obtain ⟨score, hsc, h⟩ := bind_ok.1 h
    obtain ⟨s1, hs1, h⟩ := bind_ok.1 h
    have e1 := qLog_same hs1
    have hgi1 : GI env s1 g := hgi.of_tick e1.1
    simp only [quiescenceG]
    rw [hsl, okb, hsc, okb, hs1, okb]
    split at h
    · next hcut =>
      rw [if_pos hcut]
      simp only [pure_ok, Prod.mk.injEq] at h
      obtain ⟨rfl, rfl, rfl⟩ := h
      exact ⟨g, rfl, GOut.refl hgi1⟩
    · next hcut =>
      rw [if_neg hcut]
      obtain ⟨ms, hms, h⟩ := bind_ok.1 h
      obtain ⟨r, hr, h⟩ := bind_ok.1 h
      simp only [pure_ok, Prod.mk.injEq] at h
      obtain ⟨rfl, rfl, rfl⟩ := h
      rw [hms, okb]
      obtain ⟨g', hG, o⟩ := qLoopG_spec hm (ih (by omega)) (quiescence_frame (tickLe_rel env) fuel)
        ((quiescence_nodeLate env fuel).mono (by omega)) _ _ _ _ _ _ _ _ _ _ _ hgi1 hr
      rw [hG, okb]
      exact ⟨g', rfl, o⟩

/-! ### `abLoop`, `alphaBeta` -/

/-- `pollAfterMove` with the ghost -/
def pollAfterMoveG (env : Env) (s : SS) (g : Ghost) : Bool × SS × Ghost :=
  if s.interrupted then (true, s, g) else
  let s := s.consult
  let g := upd env s g
  if env.timeUp (s.tick - 1) then (true, s, g) else
  let s := s.consult
  let g := upd env s g
  if env.stopAt (s.tick - 1) then (false, { s with interrupted := true }, g) else (false, s, g)

theorem pollAfterMoveG_eq (env : Env) (s : SS) (g : Ghost) : pollAfterMoveG env s g =
    if s.interrupted then (true, s, g) else
    if env.timeUp s.tick then (true, s.consult, upd env s.consult g) else
    if env.stopAt (s.tick + 1) then
      (false, { s.consult.consult with interrupted := true }, upd env s.consult.consult (upd env s.consult g))
    else (false, s.consult.consult, upd env s.consult.consult (upd env s.consult g)) := by
  unfold pollAfterMoveG
  simp only [SS.consult_tick, Nat.add_sub_cancel]

theorem pollAfterMoveG_spec {env : Env} (hm : ClockMono env) {L : Nat} {g0 g : Ghost} {s : SS}
    (o : GOut env L g0 s g) :
    (pollAfterMoveG env s g).1 = (pollAfterMove env s).1 ∧ (pollAfterMoveG env s g).2.1 = (pollAfterMove env s).2 ∧
    GOut env L g0 (pollAfterMove env s).2 (pollAfterMoveG env s g).2.2 ∧
    ((pollAfterMove env s).1 = false → g = none) ∧
    (g = none → ∀ n, (pollAfterMoveG env s g).2.2 = some n → n = s.nodes) ∧
    (pollAfterMove env s).2.nodes = s.nodes := by
  rw [pollAfterMoveG_eq, pollAfterMove_eq]
  by_cases hi : s.interrupted = true
  · rw [if_pos hi, if_pos hi]
    exact ⟨rfl, rfl, o, (fun h => by cases h), (fun hg n hn => by rw [hg] at hn; cases hn), rfl⟩
  rw [if_neg hi, if_neg hi]
  have o1 : GOut env L g0 s.consult (upd env s.consult g) := o.step hm (Nat.le_succ _) rfl
  by_cases hto : env.timeUp s.tick = true
  · rw [if_pos hto, if_pos hto]
    refine ⟨rfl, rfl, o1, (fun h => by cases h), fun hg n hn => ?_, rfl⟩
    rw [hg] at hn
    have := upd_none_eq hn
    exact this
  rw [if_neg hto, if_neg hto]
  have hto' : env.timeUp s.tick = false := by simpa using hto
  have hg : g = none := by
    cases g with
    | none => rfl
    | some m => have := o.gi; simp only [GI] at this; rw [this] at hto'; cases hto'
  have o2 : GOut env L g0 s.consult.consult (upd env s.consult.consult (upd env s.consult g)) :=
    o1.step hm (Nat.le_succ _) rfl
  have fresh : ∀ n, upd env s.consult.consult (upd env s.consult g) = some n → n = s.nodes := by
    intro n hn
    rw [hg] at hn
    cases h1 : upd env s.consult none with
    | none =>
      rw [h1] at hn
      have := upd_none_eq hn
      exact this
    | some m =>
      rw [h1] at hn; cases hn
      have := upd_none_eq h1
      exact this
  by_cases hst : env.stopAt (s.tick + 1) = true
  · rw [if_pos hst, if_pos hst]
    exact ⟨rfl, rfl, o2.of_eq rfl rfl, fun _ => hg, fun _ => fresh, rfl⟩
  · rw [if_neg hst, if_neg hst]
    exact ⟨rfl, rfl, o2, fun _ => hg, fun _ => fresh, rfl⟩

/-- `abLoop` with the ghost -/
def abLoopG (env : Env) (child : NodeFnG) (p : Position) (idx depth : Nat) (beta : Int) :
    List RMove → Int → Nat → Nat → SS → Ghost → M (LoopOut × Ghost)
  | [], alpha, curLen, _, s, g => pure (⟨alpha, curLen, s⟩, g)
  | mv :: rest, alpha, curLen, subLen, s, g =>
    if s.interrupted then pure (⟨alpha, curLen, s⟩, g) else
    if idx + 1 ≥ env.stackCap then throw (.index "posStack" (idx + 1)) else do
    let r ← makeMove p mv.mov
    if !r.2 then throw (.explicit "Applying move resulted in illegal position") else do
    let x ← child r.1 (idx + 1) (depth + 1) (-beta) (-alpha) subLen s g
    if -x.1.1 ≥ beta then
      (if !mv.tactical then do
         let kt ← updateKillers x.1.2.2.killers p.ply mv.mov
         pure (⟨beta, curLen, { x.1.2.2 with killers := kt }⟩, x.2)
       else pure (⟨beta, curLen, x.1.2.2⟩, x.2))
    else do
      let y ← improve x.1.2.2 depth x.1.2.1 mv.mov (-x.1.1) alpha curLen
      if (pollAfterMoveG env y.2.2 x.2).1 then
        pure (⟨y.1, y.2.1, (pollAfterMoveG env y.2.2 x.2).2.1⟩, (pollAfterMoveG env y.2.2 x.2).2.2)
      else (abLoopG env child p idx depth beta rest y.1 y.2.1 x.1.2.1
        (pollAfterMoveG env y.2.2 x.2).2.1 (pollAfterMoveG env y.2.2 x.2).2.2)

theorem abLoopG_spec {env : Env} (hm : ClockMono env) {L : Nat} {child : NodeFn} {childG : NodeFnG}
    (hs : NodeSpecG env L child childG) (hf : NodeFrame TickLe child) (hb : NodeLate env L child)
    (p : Position) (idx depth : Nat) (beta : Int) :
    ∀ (ms : List RMove) (alpha : Int) (curLen subLen : Nat) (s : SS) (g : Ghost) (r : LoopOut), GI env s g →
      abLoop env child p idx depth beta ms alpha curLen subLen s = .ok r →
      ∃ g', abLoopG env childG p idx depth beta ms alpha curLen subLen s g = .ok (r, g') ∧ GOut env L g r.st g' := by
  intro ms
  induction ms with
  | nil =>
    intro alpha curLen subLen s g r hgi h
    simp only [abLoop, pure_ok] at h; subst h
    exact ⟨g, rfl, GOut.refl hgi⟩
  | cons mv rest ih =>
    intro alpha curLen subLen s g r hgi h
    rw [abLoop_cons_eq] at h
    rw [abLoopG]
    split at h
    · next hi =>
      simp only [pure_ok] at h; subst h
      rw [if_pos hi]
      exact ⟨g, rfl, GOut.refl hgi⟩
    next hi =>
    rw [if_neg hi]
    split at h
    · exact absurd h (by simp [throw_ok])
    next hcap =>
    rw [if_neg hcap]
    obtain ⟨mk, hmk, h⟩ := bind_ok.1 h
    split at h
    · exact absurd h (by simp [throw_ok])
    next hleg =>
    obtain ⟨⟨v, sl, s1⟩, hch, h⟩ := bind_ok.1 h
    obtain ⟨g1, hG, o1⟩ := hs _ _ _ _ _ _ _ _ _ _ _ hgi hch
    rw [hmk, okb, if_neg hleg, hG, okb]
    dsimp only at h ⊢
    split at h
    · next hcut =>
      rw [if_pos hcut]
      split at h
      · next htac =>
        rw [if_pos htac]
        obtain ⟨kt, hkt, h⟩ := bind_ok.1 h
        simp only [pure_ok] at h; subst h
        rw [hkt, okb]
        exact ⟨g1, rfl, o1.of_eq rfl rfl⟩
      · next htac =>
        rw [if_neg htac]
        simp only [pure_ok] at h; subst h
        exact ⟨g1, rfl, o1⟩
    next hcut =>
    rw [if_neg hcut]
    obtain ⟨⟨a2, l2, s2⟩, hi2, h⟩ := bind_ok.1 h
    have e2 := improve_tick hi2
    rw [hi2, okb]
    dsimp only at h ⊢
    have o2 : GOut env L g s2 g1 := o1.of_eq e2.1 e2.2.1
    obtain ⟨p1, p2, p3, p4, p5, p6⟩ := pollAfterMoveG_spec hm o2
    rw [p1, p2]
    split at h
    · next hbrk =>
      simp only [pure_ok] at h; subst h
      rw [if_pos hbrk]
      exact ⟨_, rfl, p3⟩
    next hbrk =>
    rw [if_neg hbrk]
    have hbrk' : (pollAfterMove env s2).1 = false := by simpa using hbrk
    have hg1 : g1 = none := p4 hbrk'
    obtain ⟨g', hG', o'⟩ := ih _ _ _ _ _ _ p3.gi h
    refine ⟨g', hG', p3.continue o' (fun n hn => ?_) (fun _ n hn => by rw [p6]; exact p5 hg1 n hn)⟩
    have hl3 : Late env (pollAfterMove env s2).2 := GI.late hm (by have := p3.gi; rw [hn] at this; exact this)
    exact abLoop_late_nodes hb hf hl3 h

/-- `alphaBeta` with the ghost -/
def alphaBetaG (env : Env) (qfuel : Nat) : Nat → NodeFnG
  | 0 => fun p idx depth alpha beta curLen s g => do
    let _ ← rowLen s (depth + 1)
    quiescenceG env qfuel p idx depth alpha beta curLen s g
  | rem + 1 => fun p idx depth alpha beta curLen s g => do
    let subLen ← rowLen s (depth + 1)
    let ms ← generateMoves s.killers p
    if ms.isEmpty then do
      let v ← terminalNodeScore p depth
      pure ((v, 0, { s with nodes := s.nodes + 1 }), g)
    else do
      let r ← abLoopG env (alphaBetaG env qfuel rem) p idx depth beta
        (env.sortFn (applyPvBonus s.cand s.matched depth ms).1) alpha curLen subLen
        { s with matched := (applyPvBonus s.cand s.matched depth ms).2 } g
      pure ((r.1.score, r.1.curLen, r.1.st), r.2)

theorem alphaBetaG_spec {env : Env} (hm : ClockMono env) (qfuel : Nat) :
    ∀ rem, NodeSpecG env (max qfuel 1) (alphaBeta env qfuel rem) (alphaBetaG env qfuel rem) := by
  intro rem
  induction rem with
  | zero =>
    intro p idx d a b l s g v l' s' hgi h
    simp only [alphaBeta] at h
    obtain ⟨x, hx, h⟩ := bind_ok.1 h
    simp only [alphaBetaG]
    rw [hx, okb]
    exact quiescenceG_spec hm qfuel (Nat.le_max_left _ _) _ _ _ _ _ _ _ _ _ _ _ hgi h
  | succ rem ih =>
    intro p idx d a b l s g v l' s' hgi h
    simp only [alphaBeta] at h
    obtain ⟨subLen, hsl, h⟩ := bind_ok.1 h
    obtain ⟨ms, hms, h⟩ := bind_ok.1 h
    simp only [alphaBetaG]
    rw [hsl, okb, hms, okb]
    split at h
    · next he =>
      rw [if_pos he]
      obtain ⟨tv, htv, h⟩ := bind_ok.1 h
      simp only [pure_ok, Prod.mk.injEq] at h
      obtain ⟨rfl, rfl, rfl⟩ := h
      rw [htv, okb]
      exact ⟨g, rfl, GOut.refl (hgi.of_tick rfl)⟩
    · next he =>
      rw [if_neg he]
      obtain ⟨r, hr, h⟩ := bind_ok.1 h
      simp only [pure_ok, Prod.mk.injEq] at h
      obtain ⟨rfl, rfl, rfl⟩ := h
      obtain ⟨g', hG, o⟩ := abLoopG_spec hm ih (alphaBeta_frame (tickLe_rel env) qfuel rem)
        (alphaBeta_nodeLate env qfuel rem) _ _ _ _ _ _ _ _ _ _ _
        (GI.of_tick (s' := { s with matched := (applyPvBonus s.cand s.matched d ms).2 }) hgi rfl) hr
      rw [hG, okb]
      exact ⟨g', rfl, o⟩

/-! ### the root -/

/-- `rootLoop` with the ghost (updated after the print-gate consultation inside `rootImprove`, after the clock
    consultation and after the stop-channel consultation in `rootStop`) -/
def rootLoopG (env : Env) (child : NodeFnG) (p : Position) (target : Nat) :
    List RMove → Int → Nat → Nat → SS → Ghost → M (LoopOut × Ghost)
  | [], alpha, curLen, _, s, g => pure (⟨alpha, curLen, s⟩, g)
  | mv :: rest, alpha, curLen, subLen, s, g =>
    if s.interrupted then pure (⟨alpha, curLen, s⟩, g) else
    if 1 ≥ env.stackCap then throw (.index "posStack" 1) else do
    let r ← makeMove p mv.mov
    if !r.2 then throw (.explicit "Applying move resulted in illegal position") else do
    let x ← child r.1 1 1 (-(Gen.InfinityScore : Int)) (-alpha) subLen s g
    let y ← rootImprove env target x.1.2.2 x.1.2.1 mv.mov (-x.1.1) alpha curLen
    if y.2.2.interrupted then pure (⟨y.1, y.2.1, y.2.2⟩, upd env y.2.2 x.2) else
    if env.timeUp (y.2.2.consult.tick - 1) then
      pure (⟨y.1, y.2.1, y.2.2.consult⟩, upd env y.2.2.consult (upd env y.2.2 x.2)) else
    if nextMoveWins (-x.1.1) then
      pure (⟨y.1, y.2.1, y.2.2.consult⟩, upd env y.2.2.consult (upd env y.2.2 x.2)) else
    (rootLoopG env child p target rest y.1 y.2.1 x.1.2.1 (rootStop env y.2.2.consult)
      (upd env (rootStop env y.2.2.consult) (upd env y.2.2.consult (upd env y.2.2 x.2))))

theorem rootStop_same (env : Env) (s : SS) : (rootStop env s).tick = s.tick + 1 ∧ (rootStop env s).nodes = s.nodes := by
  unfold rootStop
  dsimp only
  split <;> exact ⟨rfl, rfl⟩

theorem rootLoopG_spec {env : Env} (hm : ClockMono env) {L : Nat} {child : NodeFn} {childG : NodeFnG}
    (hs : NodeSpecG env L child childG) (hf : NodeFrame TickLe child) (hb : NodeLate env L child)
    (p : Position) (target : Nat) :
    ∀ (ms : List RMove) (alpha : Int) (curLen subLen : Nat) (s : SS) (g : Ghost) (r : LoopOut), GI env s g →
      rootLoop env child p target ms alpha curLen subLen s = .ok r →
      ∃ g', rootLoopG env childG p target ms alpha curLen subLen s g = .ok (r, g') ∧ GOut env L g r.st g' := by
  intro ms
  induction ms with
  | nil =>
    intro alpha curLen subLen s g r hgi h
    simp only [rootLoop, pure_ok] at h; subst h
    exact ⟨g, rfl, GOut.refl hgi⟩
  | cons mv rest ih =>
    intro alpha curLen subLen s g r hgi h
    rw [rootLoop_cons_eq] at h
    rw [rootLoopG]
    split at h
    · next hi =>
      simp only [pure_ok] at h; subst h
      rw [if_pos hi]
      exact ⟨g, rfl, GOut.refl hgi⟩
    next hi =>
    rw [if_neg hi]
    split at h
    · exact absurd h (by simp [throw_ok])
    next hcap =>
    rw [if_neg hcap]
    obtain ⟨mk, hmk, h⟩ := bind_ok.1 h
    split at h
    · exact absurd h (by simp [throw_ok])
    next hleg =>
    obtain ⟨⟨v, sl, s1⟩, hch, h⟩ := bind_ok.1 h
    obtain ⟨g1, hG, o1⟩ := hs _ _ _ _ _ _ _ _ _ _ _ hgi hch
    obtain ⟨⟨a2, l2, s2⟩, hi2, h⟩ := bind_ok.1 h
    have e2 := rootImprove_tick hi2
    rw [hmk, okb, if_neg hleg, hG, okb]
    dsimp only at h ⊢
    rw [hi2, okb]
    dsimp only at h ⊢
    have o2 : GOut env L g s2 (upd env s2 g1) := o1.step hm e2.1 e2.2.2.1
    split at h
    · next hint =>
      simp only [pure_ok] at h; subst h
      rw [if_pos hint]
      exact ⟨_, rfl, o2⟩
    next hint =>
    rw [if_neg hint]
    have o3 : GOut env L g s2.consult (upd env s2.consult (upd env s2 g1)) := o2.step hm (Nat.le_succ _) rfl
    split at h
    · next hto =>
      simp only [pure_ok] at h; subst h
      rw [if_pos hto]
      exact ⟨_, rfl, o3⟩
    next hto =>
    rw [if_neg hto]
    split at h
    · next hwin =>
      simp only [pure_ok] at h; subst h
      rw [if_pos hwin]
      exact ⟨_, rfl, o3⟩
    next hwin =>
    rw [if_neg hwin]
    have e4 := rootStop_same env s2.consult
    have o4 : GOut env L g (rootStop env s2.consult)
        (upd env (rootStop env s2.consult) (upd env s2.consult (upd env s2 g1))) :=
      o3.step hm (by rw [e4.1]; exact Nat.le_succ _) e4.2
    -- the loop goes on: the clock said no at tick `s2.tick`, so the ghost was not set up to there
    have hto' : env.timeUp s2.tick = false := by simpa [SS.consult_tick] using hto
    have hg2 : upd env s2 g1 = none := by
      cases hu : upd env s2 g1 with
      | none => rfl
      | some m => have := o2.gi; rw [hu] at this; simp only [GI] at this; rw [this] at hto'; cases hto'
    have fresh : ∀ n, upd env (rootStop env s2.consult) (upd env s2.consult (upd env s2 g1)) = some n →
        n = (rootStop env s2.consult).nodes := by
      intro n hn
      rw [hg2] at hn
      cases h1 : upd env s2.consult none with
      | none =>
        rw [h1] at hn
        exact upd_none_eq hn
      | some m =>
        rw [h1] at hn; cases hn
        have := upd_none_eq h1
        rw [e4.2]; exact this
    obtain ⟨g', hG', o'⟩ := ih _ _ _ _ _ _ o4.gi h
    refine ⟨g', hG', o4.continue o' (fun n hn => ?_) (fun _ n hn => fresh n hn)⟩
    have hl3 : Late env (rootStop env s2.consult) := GI.late hm (by have := o4.gi; rw [hn] at this; exact this)
    exact rootLoop_late_nodes hb hf hl3 h

/-- `startAlphaBeta` with the ghost -/
def startAlphaBetaG (env : Env) (qfuel : Nat) (p : Position) (target : Nat) (curLen : Nat) (s : SS) (g : Ghost) :
    M ((Int × Bool × Nat × SS) × Ghost) := do
  let subLen ← rowLen s 1
  let ms ← generateMoves s.killers p
  if ms.isEmpty then do
    let v ← terminalNodeScore p 0
    pure ((v, false, 0, { s with nodes := s.nodes + 1, rootMoves := [] }), g)
  else do
    let r ← rootLoopG env (alphaBetaG env qfuel (target - 1)) p target
      (env.sortFn (applyPvBonus s.cand s.matched 0 ms).1) (Gen.MinusInfinityScore) curLen subLen
      { s with matched := (applyPvBonus s.cand s.matched 0 ms).2,
               rootMoves := env.sortFn (applyPvBonus s.cand s.matched 0 ms).1, firstMoveIdx := 0 } g
    pure ((r.1.score, (env.sortFn (applyPvBonus s.cand s.matched 0 ms).1).length == 1, r.1.curLen, r.1.st), r.2)

theorem startAlphaBetaG_spec {env : Env} (hm : ClockMono env) {qfuel : Nat} {p : Position} {target curLen : Nat}
    {s : SS} {g : Ghost} {v : Int} {one : Bool} {l : Nat} {s' : SS} (hgi : GI env s g)
    (h : startAlphaBeta env qfuel p target curLen s = .ok (v, one, l, s')) :
    ∃ g', startAlphaBetaG env qfuel p target curLen s g = .ok ((v, one, l, s'), g') ∧
      GOut env (max qfuel 1) g s' g' := by
  simp only [startAlphaBeta] at h
  obtain ⟨subLen, hsl, h⟩ := bind_ok.1 h
  obtain ⟨ms, hms, h⟩ := bind_ok.1 h
  simp only [startAlphaBetaG]
  rw [hsl, okb, hms, okb]
  split at h
  · next he =>
    rw [if_pos he]
    obtain ⟨tv, htv, h⟩ := bind_ok.1 h
    simp only [pure_ok, Prod.mk.injEq] at h
    obtain ⟨rfl, rfl, rfl, rfl⟩ := h
    rw [htv, okb]
    exact ⟨g, rfl, GOut.refl (hgi.of_tick rfl)⟩
  · next he =>
    rw [if_neg he]
    obtain ⟨r, hr, h⟩ := bind_ok.1 h
    simp only [pure_ok, Prod.mk.injEq] at h
    obtain ⟨rfl, rfl, rfl, rfl⟩ := h
    obtain ⟨g', hG, o⟩ := rootLoopG_spec hm (alphaBetaG_spec hm qfuel (target - 1))
      (alphaBeta_frame (tickLe_rel env) qfuel (target - 1)) (alphaBeta_nodeLate env qfuel (target - 1))
      _ _ _ _ _ _ _ _ _
      (GI.of_tick (s' := { s with matched := (applyPvBonus s.cand s.matched 0 ms).2,
                                  rootMoves := env.sortFn (applyPvBonus s.cand s.matched 0 ms).1,
                                  firstMoveIdx := 0 }) hgi rfl) hr
    rw [hG, okb]
    exact ⟨g', rfl, o⟩

/-! ### iterative deepening -/

/-- `deepenLoop` with the ghost -/
def deepenLoopG (env : Env) (qfuel : Nat) (p : Position) (maxDepth : Nat) :
    Nat → Nat → Int → Nat → Nat → SS → Ghost → M ((Int × Nat × SS) × Ghost)
  | 0, _, best, done, _, s, g => pure ((best, done, s), g)
  | n + 1, cur, best, done, len0, s, g =>
    if cur > maxDepth then pure ((best, done, s), g) else do
    let x ← startAlphaBetaG env qfuel p cur len0 s g
    if env.timeUp (x.1.2.2.2.consult.tick - 1) then
      pure ((best, done, x.1.2.2.2.consult), upd env x.1.2.2.2.consult x.2) else
    if x.1.2.2.2.consult.interrupted then
      pure ((best, done, x.1.2.2.2.consult), upd env x.1.2.2.2.consult x.2) else do
    let s3 ← printInfoAfterDepth (copyBestLine x.1.2.2.2.consult x.1.2.2.1) x.1.1 cur
    if pliesToMate x.1.1 == cur then pure ((x.1.1, cur, s3), upd env x.1.2.2.2.consult x.2) else
    if x.1.2.1 then pure ((x.1.1, cur, s3), upd env x.1.2.2.2.consult x.2) else
    deepenLoopG env qfuel p maxDepth n (cur + 1) x.1.1 cur x.1.2.2.1 s3 (upd env x.1.2.2.2.consult x.2)

theorem deepenLoopG_spec {env : Env} (hm : ClockMono env) {qfuel : Nat} {p : Position} {maxDepth : Nat} :
    ∀ (n cur : Nat) (best : Int) (done len0 : Nat) (s : SS) (g : Ghost) (best' : Int) (done' : Nat) (s' : SS),
      GI env s g → deepenLoop env qfuel p maxDepth n cur best done len0 s = .ok (best', done', s') →
      ∃ g', deepenLoopG env qfuel p maxDepth n cur best done len0 s g = .ok ((best', done', s'), g') ∧
        GOut env (max qfuel 1) g s' g' := by
  intro n
  induction n with
  | zero =>
    intro cur best done len0 s g best' done' s' hgi h
    simp only [deepenLoop, pure_ok, Prod.mk.injEq] at h
    obtain ⟨rfl, rfl, rfl⟩ := h
    exact ⟨g, rfl, GOut.refl hgi⟩
  | succ n ih =>
    intro cur best done len0 s g best' done' s' hgi h
    rw [deepenLoop_succ_eq] at h
    rw [deepenLoopG]
    split at h
    · next hc =>
      simp only [pure_ok, Prod.mk.injEq] at h
      obtain ⟨rfl, rfl, rfl⟩ := h
      rw [if_pos hc]
      exact ⟨g, rfl, GOut.refl hgi⟩
    next hc =>
    rw [if_neg hc]
    obtain ⟨⟨v, one, l, s1⟩, hsab, h⟩ := bind_ok.1 h
    obtain ⟨g1, hG, o1⟩ := startAlphaBetaG_spec hm hgi hsab
    rw [hG, okb]
    dsimp only at h ⊢
    have o2 : GOut env (max qfuel 1) g s1.consult (upd env s1.consult g1) := o1.step hm (Nat.le_succ _) rfl
    split at h
    · next hto =>
      simp only [pure_ok, Prod.mk.injEq] at h
      obtain ⟨rfl, rfl, rfl⟩ := h
      rw [if_pos hto]
      exact ⟨_, rfl, o2⟩
    next hto =>
    rw [if_neg hto]
    split at h
    · next hint =>
      simp only [pure_ok, Prod.mk.injEq] at h
      obtain ⟨rfl, rfl, rfl⟩ := h
      rw [if_pos hint]
      exact ⟨_, rfl, o2⟩
    next hint =>
    rw [if_neg hint]
    obtain ⟨s3, hp3, h⟩ := bind_ok.1 h
    obtain ⟨_, e3⟩ := printInfoAfterDepth_ok hp3
    have t3 : s3.tick = s1.consult.tick := by rw [e3]; rfl
    have n3 : s3.nodes = s1.consult.nodes := by rw [e3]; rfl
    have o3 : GOut env (max qfuel 1) g s3 (upd env s1.consult g1) := o2.of_eq t3 n3
    rw [hp3, okb]
    split at h
    · next hmate =>
      simp only [pure_ok, Prod.mk.injEq] at h
      obtain ⟨rfl, rfl, rfl⟩ := h
      rw [if_pos hmate]
      exact ⟨_, rfl, o3⟩
    next hmate =>
    rw [if_neg hmate]
    split at h
    · next hone =>
      simp only [pure_ok, Prod.mk.injEq] at h
      obtain ⟨rfl, rfl, rfl⟩ := h
      rw [if_pos hone]
      exact ⟨_, rfl, o3⟩
    next hone =>
    rw [if_neg hone]
    have hto' : env.timeUp s1.tick = false := by simpa [SS.consult_tick] using hto
    have hg1 : g1 = none := by
      cases g1 with
      | none => rfl
      | some m => have := o1.gi; simp only [GI] at this; rw [this] at hto'; cases hto'
    obtain ⟨g', hG', o'⟩ := ih _ _ _ _ _ _ _ _ _ o3.gi h
    refine ⟨g', hG', o3.continue o' (fun m hm' => ?_) (fun _ m hm' => ?_)⟩
    · have hl3 : Late env s3 := GI.late hm (by have := o3.gi; rw [hm'] at this; exact this)
      exact (deepenLoop_late hl3 h).2.2
    · rw [hg1] at hm'
      rw [n3]; exact upd_none_eq hm'

/-- `iterDeep` with the ghost: initialised on the fresh state (tick 0) -/
def iterDeepG (env : Env) (qfuel : Nat) (p : Position) (maxDepth : Nat) (killers : Killers)
    (rows : Array (Array Move)) (len0 : Nat) : M (SS × Ghost) := do
  let x ← startAlphaBetaG env qfuel p 1 len0 (initSS rows killers) (upd env (initSS rows killers) none)
  if (copyBestLine x.1.2.2.2 x.1.2.2.1).cand.isEmpty then
    pure ({ copyBestLine x.1.2.2.2 x.1.2.2.1 with out := .bestmoveNone :: .infoTerminal x.1.1 :: x.1.2.2.2.out }, x.2)
  else do
    let y ← (if !env.timeUp ((copyBestLine x.1.2.2.2 x.1.2.2.1).consult.tick - 1) &&
                !(copyBestLine x.1.2.2.2 x.1.2.2.1).consult.interrupted && !x.1.2.1 then
              deepenLoopG env qfuel p maxDepth maxDepth 2 x.1.1 1 x.1.2.2.1 (copyBestLine x.1.2.2.2 x.1.2.2.1).consult
                (upd env (copyBestLine x.1.2.2.2 x.1.2.2.1).consult x.2)
            else pure ((x.1.1, 1, (copyBestLine x.1.2.2.2 x.1.2.2.1).consult),
              upd env (copyBestLine x.1.2.2.2 x.1.2.2.1).consult x.2))
    let s2 ← announce y.1.2.2 y.1.1 y.1.2.1
    pure (s2, y.2)

/-- **The instrumented search follows the model, and its ghost bounds the work after the deadline.**
    Whenever `iterDeep` returns `s`, `iterDeepG` returns the same `s` and a ghost `g`:
    * `g = some n₀`: the consultation counter reached a late tick during the run, `n₀` nodes had been evaluated at
      that moment, and at most `max qfuel 1` were evaluated afterwards;
    * `g = none`: it never did (the clock would still answer `false` at the final tick). -/
theorem iterDeepG_spec {env : Env} (hm : ClockMono env) {qfuel : Nat} {p : Position} {maxDepth : Nat}
    {killers : Killers} {rows : Array (Array Move)} {len0 : Nat} {s : SS}
    (h : iterDeep env qfuel p maxDepth killers rows len0 = .ok s) :
    ∃ g, iterDeepG env qfuel p maxDepth killers rows len0 = .ok (s, g) ∧
      (∀ n₀, g = some n₀ → s.nodes ≤ n₀ + max qfuel 1) ∧ (g = none → env.timeUp s.tick = false) := by
  have h00 := h
  rw [iterDeep_eq] at h
  obtain ⟨⟨v, one, l, s1⟩, hsab, h⟩ := bind_ok.1 h
  have hgi0 : GI env (initSS rows killers) (upd env (initSS rows killers) none) := by
    have : GI env (initSS rows killers) none ∨ env.timeUp (initSS rows killers).tick = true := by
      cases hc : env.timeUp (initSS rows killers).tick with
      | true => exact .inr rfl
      | false => exact .inl hc
    rcases this with h0 | h0
    · exact upd_GI hm h0 (Nat.le_refl _)
    · simp only [upd, h0, if_true, GI]
  obtain ⟨g1, hG, o1⟩ := startAlphaBetaG_spec hm hgi0 hsab
  -- the bound for the whole run from the `GOut` of its pieces: either the ghost was set at tick 0 (the search
  -- started after its deadline) or `GOut.bound` applies
  have final : ∀ (sf : SS) (gf : Ghost), GOut env (max qfuel 1) (upd env (initSS rows killers) none) sf gf →
      sf.nodes = s.nodes → sf.tick = s.tick →
      (∀ n₀, gf = some n₀ → s.nodes ≤ n₀ + max qfuel 1) ∧ (gf = none → env.timeUp s.tick = false) := by
    intro sf gf o en et
    refine ⟨fun n₀ hn => ?_, fun hn => ?_⟩
    · cases h0 : upd env (initSS rows killers) none with
      | none => rw [← en]; exact o.bound h0 n₀ hn
      | some m =>
        have hk := o.keep m h0
        rw [hk] at hn; cases hn
        have ht0 : env.timeUp 0 = true := by
          have := hgi0; rw [h0] at this; exact this
        have := (iterDeep_late_start hm ht0 h00).1
        omega
    · have := o.gi
      rw [hn] at this
      rw [← et]; exact this
  simp only [iterDeepG]
  rw [hG, okb]
  dsimp only at h ⊢
  split at h
  · next hemp =>
    simp only [pure_ok] at h
    rw [if_pos hemp]
    refine ⟨g1, by rw [← h]; rfl, ?_⟩
    exact final s1 g1 o1 (by rw [← h]; rfl) (by rw [← h]; rfl)
  next hemp =>
  rw [if_neg hemp]
  obtain ⟨⟨best, done, s2⟩, hd, h⟩ := bind_ok.1 h
  obtain ⟨m, tl, hc, hs⟩ := announce_ok h
  have o2 : GOut env (max qfuel 1) (upd env (initSS rows killers) none) (copyBestLine s1 l).consult
      (upd env (copyBestLine s1 l).consult g1) := o1.step hm (Nat.le_succ _) rfl
  unfold deepenFrom at hd
  split at hd
  · next hgo =>
    rw [if_pos hgo]
    have hto' : env.timeUp s1.tick = false := by
      have : env.timeUp ((copyBestLine s1 l).consult.tick - 1) = false := by
        simp only [Bool.and_eq_true, Bool.not_eq_true'] at hgo; exact hgo.1.1
      simpa [copyBestLine, SS.consult_tick] using this
    have hg1 : g1 = none := by
      cases g1 with
      | none => rfl
      | some m => have := o1.gi; simp only [GI] at this; rw [this] at hto'; cases hto'
    obtain ⟨g', hG', o'⟩ := deepenLoopG_spec hm _ _ _ _ _ _ _ _ _ _ o2.gi hd
    rw [hG', okb]
    dsimp only
    rw [h, okb]
    refine ⟨g', rfl, ?_⟩
    have o3 := o2.continue o' (fun k hk => ?_) (fun _ k hk => ?_)
    · exact final s2 g' o3 (by rw [hs]) (by rw [hs])
    · have hl3 : Late env (copyBestLine s1 l).consult := GI.late hm (by have := o2.gi; rw [hk] at this; exact this)
      exact (deepenLoop_late hl3 hd).2.2
    · rw [hg1] at hk
      exact upd_none_eq hk
  · next hgo =>
    rw [if_neg hgo]
    simp only [pure_ok, Prod.mk.injEq] at hd
    obtain ⟨rfl, rfl, rfl⟩ := hd
    rw [pureb]
    dsimp only at h ⊢
    rw [h, okb]
    refine ⟨_, rfl, ?_⟩
    exact final _ _ o2 (by rw [hs]) (by rw [hs])

end Magog.Model
