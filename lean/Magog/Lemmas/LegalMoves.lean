import Magog.Props.C02
import Magog.Props.C02Abs
import Magog.Lemmas.GenPseudo
import Magog.Lemmas.CastleSpec
import Mathlib.Data.List.Nodup

/-! Helpers for the headline theorems of property C01 ("the moves the engine treats as playable are
    exactly the legal moves, each once"):

    * `oppSafe_iff`   — the precondition `OppSafe` is the rules' "side not to move is not in check";
    * `isLegal_spec`  — the engine's king-safety verdict (`isLegal` = `makeMove` on a copy) is the rules';
    * `generateMoves_ok`, `generateMoves_eq` — the legality filter never panics and is a pure filter;
    * `candidates_nodup`, `mem_legalMoves` — the specification's move list is duplicate-free and contains
      exactly the legal moves;
    * `legal_perm`    — the two lists are permutations of each other. -/

set_option autoImplicit false

namespace Magog.LegalMoves
open Magog Magog.Model Magog.Atk Magog.Geo Magog.Count Magog.MM Magog.GenPure Magog.GenPseudo Magog.GenGeoO

/-- `MM.Generated` (C02, invariant half) and `MMAbs.Generated` (C02, abstraction half) are the same predicate -/
theorem generated_iff {p : Position} {m : Move} : MM.Generated p m ↔ MMAbs.Generated p m := Iff.rfl

/-! ### `OppSafe` is "the side not to move is not in check" -/

theorem isUnderCheck_opp {p : Position} (hI : Inv p) :
    isUnderCheck p.board (p.side (whiteTurn p)) (p.side (!whiteTurn p)).king
      = .ok (Spec.inCheck (abs p).board (abs p).turn.other) := by
  have h := inCheck_eq (me := p.side (!whiteTurn p)) (enemy := p.side (whiteTurn p)) (w := !whiteTurn p)
    hI.board (MMAbs.inv_side hI _) (by rw [Bool.not_not]; exact MMAbs.inv_side hI _)
  rw [h, turn_eq, other_colorOf]
  rfl

theorem oppSafe_iff {p : Position} (hI : Inv p) :
    OppSafe p ↔ Spec.inCheck (abs p).board (abs p).turn.other = false := by
  unfold OppSafe
  rw [isUnderCheck_opp hI]
  constructor
  · intro h; exact Except.ok.inj h
  · intro h; rw [h]

theorem oppSafe_iff_of {p : Position} (hI : Inv p) {B : Array (Option Spec.Man)} {c : Spec.Color}
    (hB : (abs p).board = B) (hc : (abs p).turn.other = c) : OppSafe p ↔ Spec.inCheck B c = false := by
  subst hB hc
  exact oppSafe_iff hI

/-- a well-formed chess position (`Spec.Legal`) has the side not to move out of check -/
theorem oppSafe_of_legal {p : Position} (hI : Inv p) (hL : Spec.Legal (abs p) = true) : OppSafe p := by
  rw [oppSafe_iff hI]
  simp only [Spec.Legal, Bool.and_eq_true, Bool.not_eq_true'] at hL
  exact hL.1.1.1.1.1.1.1.1.1.1.2

/-! ### the king-safety verdict -/

theorem turn_other_after {p p' : Position} (h : whiteTurn p' = !whiteTurn p) :
    (abs p').turn.other = (abs p).turn := by
  rw [turn_eq, turn_eq, h, other_colorOf, Bool.not_not]

/-- **The engine's king-safety verdict is the rule's**: for a generated move of a well-formed position
    with the opponent not in check, `isLegal` returns normally and says exactly "after the move, the
    mover is not in check". -/
theorem isLegal_spec {p : Position} {m : Move} (hI : Inv p) (hS : OppSafe p) (hG : Generated p m) :
    isLegal p m = .ok (!(Spec.inCheck (Spec.apply (abs p) (absMove m)).board (abs p).turn)) := by
  obtain ⟨p', b, h, hI', hb⟩ := makeMove_spec hI hS hG
  have hboard := Props.C02Abs.makeMove_abs_board hI hG h
  have hturn := turn_other_after (makeMove_ply_aux h).2
  have hb' := hb.trans (oppSafe_iff_of hI' hboard hturn)
  have : isLegal p m = .ok b := by
    unfold isLegal
    rw [h]
    rfl
  rw [this]
  generalize Spec.inCheck (Spec.apply (abs p) (absMove m)).board (abs p).turn = c at hb'
  cases b <;> cases c <;> first | rfl | (simp at hb')

/-! ### the legality filter -/

theorem filterM'_of_ok {α} {f : α → M Bool} {g : α → Bool} {l : List α} (h : ∀ x ∈ l, f x = .ok (g x)) :
    filterM' f l = .ok (l.filter g) := by
  induction l with
  | nil => rfl
  | cons x xs ih =>
    simp only [filterM', h x List.mem_cons_self, ok_bind, ih (fun y hy => h y (List.mem_cons_of_mem _ hy)),
      pure_eq_ok, List.filter_cons]

/-- the rules' king-safety test on a specification move -/
def safeAfter (P : Spec.Pos) (sm : Spec.Move) : Bool := !(Spec.inCheck (Spec.apply P sm).board P.turn)

theorem generated_of_mem {p : Position} {kt : Killers} {ps : List RMove} (h : genPseudo kt p = .ok ps)
    {rm : RMove} (hrm : rm ∈ ps) : Generated p rm.mov :=
  ⟨kt, ps, h, List.mem_map.2 ⟨rm, hrm, rfl⟩⟩

/-- `generateMoves` is the pseudo-legal list filtered by the rules' king-safety test -/
theorem generateMoves_eq {p : Position} {kt : Killers} {ps : List RMove} (hI : Inv p) (hS : OppSafe p)
    (hps : genPseudo kt p = .ok ps) :
    generateMoves kt p = .ok (ps.filter fun rm => safeAfter (abs p) (absMove rm.mov)) := by
  simp only [generateMoves, hps, ok_bind]
  exact filterM'_of_ok fun rm hrm => isLegal_spec hI hS (generated_of_mem hps hrm)

theorem generateMoves_ok {p : Position} {kt : Killers} (hI : Inv p) (hS : OppSafe p)
    (hk : kt.size = Gen.killerMovesMaxPly) : ∃ ms, generateMoves kt p = .ok ms := by
  obtain ⟨ps, hps, _⟩ := genPseudo_genList hI hk
  exact ⟨_, generateMoves_eq hI hS hps⟩

/-- the pseudo-legal list behind a successful `generateMoves` -/
theorem generateMoves_inv {p : Position} {kt : Killers} {ms : List RMove} (hI : Inv p) (hS : OppSafe p)
    (h : generateMoves kt p = .ok ms) :
    ∃ ps, genPseudo kt p = .ok ps ∧ ms = ps.filter fun rm => safeAfter (abs p) (absMove rm.mov) := by
  cases hps : genPseudo kt p with
  | error e => simp [generateMoves, hps] at h
  | ok ps =>
    refine ⟨ps, rfl, ?_⟩
    rw [generateMoves_eq hI hS hps] at h
    exact (Except.ok.inj h).symm

/-! ### the pseudo-legal list against `Spec.pseudo'` (restated from the pure list) -/

theorem pseudo_mem_iff {p : Position} {kt : Killers} {ps : List RMove} (hI : Inv p)
    (h : genPseudo kt p = .ok ps) (sm : Spec.Move) :
    sm ∈ ps.map (fun rm => absMove rm.mov) ↔ Spec.pseudo' (abs p) sm = true := by
  have spec := genList_spec (env_of_inv hI Props.C18.killers_empty_size)
  constructor
  · intro hm
    obtain ⟨rm, hrm, rfl⟩ := List.mem_map.1 hm
    have := mem_view hrm
    rw [genPseudo_view_eq hI h] at this
    exact (spec.1 _ this).1
  · intro hs
    obtain ⟨y, hy, hye⟩ := spec.2.1 sm hs
    rw [← genPseudo_view_eq hI h] at hy
    obtain ⟨rm, hrm, rfl⟩ := List.mem_map.1 hy
    exact List.mem_map.2 ⟨rm, hrm, hye⟩

theorem pseudo_nodup {p : Position} {kt : Killers} {ps : List RMove} (hI : Inv p)
    (h : genPseudo kt p = .ok ps) : (ps.map fun rm => absMove rm.mov).Nodup := by
  have := (genList_spec (env_of_inv hI Props.C18.killers_empty_size)).2.2
  rw [← genPseudo_view_eq hI h, List.map_map] at this
  exact this

theorem legal_iff_pseudo' {p : Position} (hI : Inv p) (sm : Spec.Move) :
    Spec.legal (abs p) sm = true ↔ (Spec.pseudo' (abs p) sm = true ∧ safeAfter (abs p) sm = true) := by
  constructor
  · intro h
    refine ⟨GenPseudo.legal_pseudo' (env_of_inv hI Props.C18.killers_empty_size) h, ?_⟩
    simp only [Spec.legal, Bool.and_eq_true] at h
    exact h.2
  · rintro ⟨h1, h2⟩
    simp only [Spec.legal, Bool.and_eq_true]
    exact ⟨Spec.pseudo_of_pseudo' h1, h2⟩

/-! ### the specification's move list -/

theorem nodup_flatMap_keyed {α β γ : Type} {l : List α} {f : α → List β} (orig : α → γ) (key : β → γ)
    (hl : (l.map orig).Nodup) (hf : ∀ x ∈ l, (f x).Nodup) (hk : ∀ x ∈ l, ∀ b ∈ f x, key b = orig x) :
    (l.flatMap f).Nodup := by
  induction l with
  | nil => simp
  | cons a l ih =>
    rw [List.map_cons, List.nodup_cons] at hl
    rw [List.flatMap_cons, List.nodup_append]
    refine ⟨hf a List.mem_cons_self,
      ih hl.2 (fun x hx => hf x (List.mem_cons_of_mem _ hx)) (fun x hx => hk x (List.mem_cons_of_mem _ hx)), ?_⟩
    intro b hb b' hb' e
    obtain ⟨x', hx', hbx⟩ := List.mem_flatMap.1 hb'
    have e1 := hk a List.mem_cons_self b hb
    have e2 := hk x' (List.mem_cons_of_mem _ hx') b' hbx
    rw [← e, e1] at e2
    exact hl.1 (List.mem_map.2 ⟨x', hx', e2.symm⟩)

theorem promos_nodup : Spec.promos.Nodup := by decide

/-- `Spec.candidates` (64 × 64 × 5 moves) has no duplicates — structurally, not by evaluation -/
theorem candidates_nodup : Spec.candidates.Nodup := by
  unfold Spec.candidates Spec.allSq
  refine nodup_flatMap_keyed (orig := id) (key := Spec.Move.frm) (by rw [List.map_id]; exact List.nodup_range)
    (fun a _ => ?_) (fun a _ b hb => ?_)
  · refine nodup_flatMap_keyed (orig := id) (key := Spec.Move.to) (by rw [List.map_id]; exact List.nodup_range)
      (fun b _ => ?_) (fun b _ m hm => ?_)
    · exact List.Nodup.map_on (fun x _ y _ h => by cases h; rfl) promos_nodup
    · obtain ⟨pr, _, rfl⟩ := List.mem_map.1 hm; rfl
  · obtain ⟨b', _, hm⟩ := List.mem_flatMap.1 hb
    obtain ⟨pr, _, rfl⟩ := List.mem_map.1 hm; rfl

theorem mem_candidates {m : Spec.Move} : m ∈ Spec.candidates ↔ m.frm < 64 ∧ m.to < 64 ∧ m.promo ∈ Spec.promos := by
  simp only [Spec.candidates, Spec.allSq, List.mem_flatMap, List.mem_map, List.mem_range]
  constructor
  · rintro ⟨a, ha, b, hb, pr, hpr, rfl⟩
    exact ⟨ha, hb, hpr⟩
  · rintro ⟨h1, h2, h3⟩
    exact ⟨m.frm, h1, m.to, h2, m.promo, h3, rfl⟩

/-- a move allowed by the movement rules is one of the 20480 candidates -/
theorem pseudo_candidate {P : Spec.Pos} {m : Spec.Move} (h : Spec.pseudo P m = true) : m ∈ Spec.candidates := by
  rw [mem_candidates]
  unfold Spec.pseudo at h
  cases hat : P.at m.frm with
  | none => simp [hat] at h
  | some man =>
    simp only [hat, Bool.and_eq_true, decide_eq_true_eq] at h
    obtain ⟨⟨⟨⟨_, h1⟩, h2⟩, _⟩, hk⟩ := h
    refine ⟨h1, h2, ?_⟩
    obtain ⟨c, k⟩ := man
    cases k
    · -- pawn
      simp only [Bool.and_eq_true] at hk
      have hp := hk.1.1
      split at hp
      · simp only [Bool.or_eq_true, beq_iff_eq] at hp
        rcases hp with ((hp | hp) | hp) | hp <;> rw [hp] <;> decide
      · rw [beq_iff_eq] at hp; rw [hp]; decide
    all_goals
      simp only [Bool.and_eq_true, beq_iff_eq] at hk
      rw [hk.1]; decide

theorem legalMoves_nodup (P : Spec.Pos) : (Spec.legalMoves P).Nodup :=
  List.Nodup.filter _ candidates_nodup

theorem mem_legalMoves {P : Spec.Pos} {m : Spec.Move} : m ∈ Spec.legalMoves P ↔ Spec.legal P m = true := by
  simp only [Spec.legalMoves, List.mem_filter]
  constructor
  · exact fun h => h.2
  · intro h
    refine ⟨pseudo_candidate (P := P) ?_, h⟩
    simp only [Spec.legal, Bool.and_eq_true] at h
    exact h.1

/-! ### C01: the two lists are permutations of each other -/

theorem legal_map_eq {p : Position} {ps ms : List RMove}
    (hms : ms = ps.filter fun rm => safeAfter (abs p) (absMove rm.mov)) :
    ms.map (fun rm => absMove rm.mov) = (ps.map fun rm => absMove rm.mov).filter (safeAfter (abs p)) := by
  rw [hms, List.filter_map]
  simp only [Function.comp_def]

theorem legal_perm {p : Position} {kt : Killers} {ms : List RMove} (hI : Inv p) (hS : OppSafe p)
    (h : generateMoves kt p = .ok ms) :
    (ms.map fun rm => absMove rm.mov).Perm (Spec.legalMoves (abs p)) := by
  obtain ⟨ps, hps, hms⟩ := generateMoves_inv hI hS h
  rw [legal_map_eq hms]
  rw [List.perm_ext_iff_of_nodup (List.Nodup.filter _ (pseudo_nodup hI hps)) (legalMoves_nodup _)]
  intro sm
  rw [mem_legalMoves, legal_iff_pseudo' hI, List.mem_filter, pseudo_mem_iff hI hps]

/-! ### castling: the path test implies the legality filter (`Count.CastleSafe`) -/

theorem generated_pseudo {p : Position} {m : Move} (hI : Inv p) (hG : Generated p m) :
    Spec.pseudo' (abs p) (absMove m) = true := by
  obtain ⟨kt, ps, hps, hm⟩ := hG
  obtain ⟨rm, hrm, rfl⟩ := List.mem_map.1 hm
  exact (pseudo_mem_iff hI hps _).1 (List.mem_map.2 ⟨rm, hrm, rfl⟩)

/-- a castling move passing the engine's path test is one of the generated moves -/
theorem castle_generated {p : Position} (hI : Inv p) :
    (p.ctx.qOk = true → castleQOk p p.ctx = .ok true →
      Generated p ⟨p.ctx.cur.king, castleQTo p.ctx, 0, InvalidSq⟩) ∧
    (p.ctx.kOk = true → castleKOk p p.ctx = .ok true →
      Generated p ⟨p.ctx.cur.king, castleKTo p.ctx, 0, InvalidSq⟩) := by
  obtain ⟨ps, hps, _⟩ := genPseudo_genList hI Props.C18.killers_empty_size
  have hps' := hps
  simp only [genPseudo, bind_ok, pure_eq_ok, Except.ok.injEq] at hps'
  obtain ⟨a, _, b, _, k, _, cs, hcs, rfl⟩ := hps'
  rw [Count.castleGen_eq] at hcs
  simp only [bind_ok, pure_eq_ok, Except.ok.injEq] at hcs
  obtain ⟨q, hq, k', hk', rfl⟩ := hcs
  constructor
  · intro h1 h2
    rcases Count.castleQPart_shape hq with ⟨_, h | h⟩ | ⟨mv, rfl, hm, _⟩
    · rw [h1] at h; cases h
    · rw [h2] at h; cases h
    · exact ⟨_, _, hps, List.mem_map.2 ⟨mv, by simp, hm⟩⟩
  · intro h1 h2
    rcases Count.castleKPart_shape hk' with ⟨_, h | h⟩ | ⟨mv, rfl, hm, _⟩
    · rw [h1] at h; cases h
    · rw [h2] at h; cases h
    · exact ⟨_, _, hps, List.mem_map.2 ⟨mv, by simp, hm⟩⟩

theorem castleTo_eq (w : Bool) :
    toByte (add8 (int8 (GenGeoO.kingHome w)) 2) = GenGeoO.kingHome w + 2 ∧
      toByte (add8 (int8 (GenGeoO.kingHome w)) (-2)) = GenGeoO.kingHome w - 2 := by
  cases w <;> decide

/-- a generated king move over two files is accepted by `isLegal` -/
theorem castle_isLegal {p : Position} {m : Move} (hI : Inv p) (hS : OppSafe p) (hG : Generated p m)
    (hfrm : m.frm = p.ctx.cur.king)
    (hfar : (Spec.adiff (Spec.fileOf (to64 m.frm)) (Spec.fileOf (to64 m.to)) == 2) = true) :
    isLegal p m = .ok true := by
  have env := env_of_inv hI Props.C18.killers_empty_size
  obtain ⟨hx, hcell⟩ := king_mem env
  have hat : (abs p).at (absMove m).frm = some ⟨(abs p).turn, .king⟩ := by
    show (abs p).at (to64 m.frm) = _
    rw [hfrm, at_eq env hx, hcell, turn_eq]; exact decode_king _
  have hin := CastleSpec.castle_not_inCheck (abs_board_size p) hat
    (fun s hs h => abs_unique_king env s hs _ (by show to64 m.frm < 64; rw [hfrm]; exact to64_lt hx) h hat)
    (Spec.pseudo_of_pseudo' (generated_pseudo hI hG))
    (by simp only [Spec.isCastle, hat]; exact hfar)
  rw [isLegal_spec hI hS hG, hin]
  rfl

/-- **`CastleSafe` holds on every well-formed position**: once the engine's castling path test passes,
    the castling move also passes the `isLegal` filter (so `countMoves`, which counts it on the path test
    alone, and the generator agree). -/
theorem castleSafe_of_inv {p : Position} (hI : Inv p) (hS : OppSafe p) : CastleSafe p := by
  have env := env_of_inv hI Props.C18.killers_empty_size
  obtain ⟨f1, f2⟩ := castle_far (whiteTurn p)
  obtain ⟨t1, t2⟩ := castleTo_eq (whiteTurn p)
  refine ⟨fun h1 h2 => ?_, fun h1 h2 => ?_⟩
  · refine castle_isLegal hI hS ((castle_generated hI).1 h1 h2) rfl ?_
    show (Spec.adiff (Spec.fileOf (to64 p.ctx.cur.king)) (Spec.fileOf (to64 (castleQTo p.ctx))) == 2) = true
    rw [castleQTo, (env.castleQ h1).1, t2]
    exact f1
  · refine castle_isLegal hI hS ((castle_generated hI).2 h1 h2) rfl ?_
    show (Spec.adiff (Spec.fileOf (to64 p.ctx.cur.king)) (Spec.fileOf (to64 (castleKTo p.ctx))) == 2) = true
    rw [castleKTo, (env.castleK h1).1, t1]
    exact f2

/-! ### no generated move captures the enemy king (specification-level argument) -/


theorem adiff_comm (a b : Nat) : Spec.adiff a b = Spec.adiff b a := by
  unfold Spec.adiff; split <;> split <;> omega

/-- a move allowed by the movement rules onto an occupied square is an attack of the mover on it -/
theorem pseudo_attacks {P : Spec.Pos} {m : Spec.Move} {t : Spec.Man} (hp : Spec.pseudo P m = true)
    (ht : P.at m.to = some t) : Spec.attacked P.board P.turn m.to = true := by
  unfold Spec.pseudo at hp
  cases hat : P.at m.frm with
  | none => simp [hat] at hp
  | some man =>
    have hgoal : ∀ (hcol : man.color = P.turn) (hfl : m.frm < 64)
        (hma : Spec.manAttacks P.board man m.frm m.to = true), Spec.attacked P.board P.turn m.to = true := by
      intro hcol hfl hma
      simp only [Spec.attacked, Spec.allSq, List.any_eq_true]
      refine ⟨m.frm, List.mem_range.2 hfl, ?_⟩
      have : P.board.getD m.frm none = some man := hat
      simp only [this, hcol, hma, beq_self_eq_true, Bool.and_self]
    obtain ⟨c, k⟩ := man
    cases k <;> simp only [hat, ht, Bool.and_eq_true, decide_eq_true_eq, beq_iff_eq] at hp <;>
      obtain ⟨⟨⟨⟨hcol, hfl⟩, _⟩, _⟩, hk⟩ := hp <;> subst hcol
    · -- pawn
      simp only [Option.isNone_some, Option.isSome_some, Bool.and_false, Bool.false_and, Bool.or_false, Bool.false_or,
        Bool.and_true, Bool.and_eq_true, beq_iff_eq, bne_iff_ne, ne_eq] at hk
      obtain ⟨⟨_, hnp⟩, hdf, hr⟩ := hk
      refine hgoal rfl hfl ?_
      simp only [Spec.manAttacks, Bool.and_eq_true, beq_iff_eq]
      refine ⟨by rw [adiff_comm]; exact hdf, ?_⟩
      cases hc : P.turn <;> simp only [hc, Spec.fwd, Spec.promoRank] at hr hnp ⊢
      · simpa using hr
      · simp only [beq_iff_eq]; omega
    · exact hgoal rfl hfl hk.2
    · exact hgoal rfl hfl hk.2
    · exact hgoal rfl hfl hk.2
    · exact hgoal rfl hfl hk.2
    · -- king: castling needs an empty destination
      simp only [Bool.and_eq_true, Bool.or_eq_true, beq_iff_eq] at hk
      rcases hk.2 with (h | h) | h
      · exact hgoal rfl hfl h
      · have h1 := h.1.1.1.2
        have h2 := h.1.1.1.1.1.1.2
        rw [← h2, ht] at h1; simp at h1
      · have h1 := h.1.1.1.1.2
        have h2 := h.1.1.1.1.1.1.1.2
        rw [← h2, ht] at h1; simp at h1

theorem generated_not_king {p : Position} {m : Move} (hI : Inv p) (hS : OppSafe p) (hG : Generated p m) :
    m.to ≠ (p.side (!whiteTurn p)).king := by
  intro e
  have env := env_of_inv hI Props.C18.killers_empty_size
  have hp := Spec.pseudo_of_pseudo' (generated_pseudo hI hG)
  have hen := MMAbs.inv_side hI (!whiteTurn p)
  obtain ⟨h1, h2, h3⟩ := (hen.king _).1 rfl
  have hk88 : (p.side (!whiteTurn p)).king ∈ sq88 := mem_sq88.2 ⟨h1, h2⟩
  have hat : (abs p).at (absMove m).to = some ⟨colorOf (!whiteTurn p), .king⟩ := by
    show (abs p).at (to64 m.to) = _
    rw [e, at_eq env hk88, cell_of_some h3]; exact decode_king _
  have hatt := pseudo_attacks hp hat
  have hchk : Spec.inCheck (abs p).board (abs p).turn.other = true := by
    rw [turn_eq] at hatt ⊢
    rw [other_colorOf]
    show Spec.inCheck (absBoard p.board) (colorOf (!whiteTurn p)) = true
    rw [Spec.inCheck, kingSq_eq hI.board hen]
    simp only [other_colorOf, Bool.not_not]
    rw [← e]
    exact hatt
  rw [(oppSafe_iff hI).1 hS] at hchk
  cases hchk

/-- `makeMove` commutes with the abstraction for every generated move of a position with the opponent not
    in check (`makeMove_abs` with its no-king-capture hypothesis discharged) -/
theorem makeMove_abs' {p : Position} {m : Move} {p' : Position} {b : Bool} (hI : Inv p) (hS : OppSafe p)
    (hG : Generated p m) (h : makeMove p m = .ok (p', b)) : abs p' = Spec.apply (abs p) (absMove m) :=
  Props.C02Abs.makeMove_abs hI hG (generated_not_king hI hS hG) h

end Magog.LegalMoves
