import Magog.Lemmas.UciTotal
import Magog.Lemmas.PositionCmd
import Magog.Props.C13

/-! Frame lemmas for the command interpreter `Model.uciStep` (Magog/Model/Uci.lean): which components of the
    state (`posGen`, `search`, `currmoveLogInterval`, `Quit`, `killerMoves`) each command can write.
    Used by `Props/C16Uci.lean` (queries keep the position), `Props/C14Uci.lean` (a `position` command resets
    what an analysis depends on) and `Props/C03Forms.lean` (the forms of `go`). -/

namespace Magog.UciFrame
open Magog Magog.Model Magog.UciTotal

/-! ### `go` -/

/-- what a `go` command can do to the state, exactly as in `doGo`:
    * no position: a message, the state is untouched;
    * a position, the token scanner `return`s: the search object exists now, nothing else changed;
    * a position, a search is started: the search object exists, the killer table is cleared. -/
inductive GoFrame (st : UciState) : UciState → List UOut → Prop where
  | noPosition (h : st.pos = none) : GoFrame st st [.noPositionGo]
  | rejected (p : Position) (h : st.pos = some p) : GoFrame st { st with searchAllocated := true } []
  | started (p : Position) (h : st.pos = some p) (millis depth : Int) :
      GoFrame st { st with searchAllocated := true, killers := Killers.empty } [.searchStarted millis depth]

theorem doGo_frame {st st' : UciState} {cmd : Bytes} {out : List UOut} (h : doGo st cmd = .ok (st', out)) :
    GoFrame st st' out := by
  unfold doGo at h
  split at h
  · next hp => cases h; exact .noPosition hp
  · next p hp =>
    cases hg : goParams (!whiteTurn p) cmd with
    | error e => rw [hg] at h; cases h
    | ok r =>
      rw [hg] at h
      cases r with
      | none => cases h; exact .rejected p hp
      | some g => cases h; exact .started p hp g.millis g.depth

theorem GoFrame.pos {st st' : UciState} {out : List UOut} (h : GoFrame st st' out) : st'.pos = st.pos := by
  cases h <;> rfl

theorem GoFrame.logInterval {st st' : UciState} {out : List UOut} (h : GoFrame st st' out) :
    st'.logInterval = st.logInterval := by
  cases h <;> rfl

theorem GoFrame.quit {st st' : UciState} {out : List UOut} (h : GoFrame st st' out) : st'.quit = st.quit := by
  cases h <;> rfl

/-- the output of `doGo` depends on the position only (not on the other globals) -/
theorem doGo_out_congr {st₁ st₂ : UciState} (cmd : Bytes) (hp : st₁.pos = st₂.pos) :
    (doGo st₁ cmd).map Prod.snd = (doGo st₂ cmd).map Prod.snd := by
  unfold doGo
  rw [hp]
  cases st₂.pos with
  | none => rfl
  | some p =>
    dsimp only
    cases goParams (!whiteTurn p) cmd with
    | error e => rfl
    | ok r => cases r <;> rfl

/-! ### `setoption` -/

/-- `setOption` writes `currmoveLogInterval` only -/
theorem setOption_frame {st st' : UciState} {cmd : Bytes} (h : setOption st cmd = .ok st') :
    ∃ v, st' = { st with logInterval := v } := by
  have hst : ∃ v, st = { st with logInterval := v } := ⟨st.logInterval, rfl⟩
  unfold setOption at h
  dsimp only at h
  split at h
  · cases h; exact hst
  · cases h0 : idx "tokens" (splitOn 32 cmd) 0 with
    | error e => rw [h0] at h; cases h
    | ok t0 =>
      rw [h0] at h
      simp only [ok_bind] at h
      cases hb : orM (t0 != Gen.uOptionName_bytes) (do
          let t2 ← idx "tokens" (splitOn 32 cmd) 2
          pure (t2 != Gen.uOptionValue_bytes)) with
      | error e => rw [hb] at h; cases h
      | ok bad =>
        rw [hb] at h
        simp only [ok_bind] at h
        split at h
        · cases h; exact hst
        · cases h1 : idx "tokens" (splitOn 32 cmd) 1 with
          | error e => rw [h1] at h; cases h
          | ok t1 =>
            rw [h1] at h
            simp only [ok_bind] at h
            split at h
            · cases h3 : idx "tokens" (splitOn 32 cmd) 3 with
              | error e => rw [h3] at h; cases h
              | ok t3 =>
                rw [h3] at h
                simp only [ok_bind] at h
                split at h
                · cases h; exact hst
                · split at h
                  · cases h; exact ⟨_, rfl⟩
                  · cases h; exact hst
            · cases h; exact hst

/-! ### `perft` / `tperft` -/

theorem doPerft_state {tactical : Bool} {ops : EngineOps} {st st' : UciState} {arg : Bytes} {out : List UOut}
    (h : doPerft tactical ops st arg = .ok (st', out)) : st' = st := by
  unfold doPerft at h
  split at h
  · cases h; rfl
  · split at h
    · cases h; rfl
    · split at h
      · cases h; rfl
      · next p hp =>
        cases he : (if tactical = true then ops.tperftDivOp p _ else ops.perftDivOp p _) with
        | error e => rw [he] at h; cases h
        | ok es => rw [he] at h; cases h; rfl

/-! ### the dispatcher on lines that are not `position` commands -/

/-- what a line that is not a `position` command can do to the state -/
inductive QueryFrame (st : UciState) : UciState → List UOut → Prop where
  | same (out : List UOut) : QueryFrame st st out
  | alloc (out : List UOut) : QueryFrame st { st with searchAllocated := true } out
  | quit : QueryFrame st { st with quit := true } []
  | go (st' : UciState) (out : List UOut) (h : GoFrame st st' out) : QueryFrame st st' out
  | option (v : Int) : QueryFrame st { st with logInterval := v } []

theorem uciStep_queryFrame {ops : EngineOps} {st st' : UciState} {line : Bytes} {out : List UOut}
    (hnp : hasPrefix line Gen.uPosition_bytes = false) (h : uciStep ops st line = .ok (st', out)) :
    QueryFrame st st' out := by
  unfold uciStep at h
  simp only [hnp, Bool.false_eq_true, if_false] at h
  split at h
  · cases h; exact .alloc _
  split at h
  · split at h
    · cases h; exact .same _
    · next p _ =>
      cases he : ops.evalOp p with
      | error e => rw [he] at h; cases h
      | ok v => rw [he] at h; cases h; exact .same _
  split at h
  · cases h; exact .quit
  split at h
  · cases h; exact .same _
  split at h
  · exact .go _ _ (doGo_frame h)
  split at h
  · cases h; exact .same _
  split at h
  · cases hs : setOption st (ops.str.trimSpace (trimPrefix line Gen.uOptionSet_bytes)) with
    | error e => rw [hs] at h; cases h
    | ok s1 =>
      rw [hs] at h
      cases h
      obtain ⟨v, rfl⟩ := setOption_frame hs
      exact .option v
  split at h
  · split at h
    · cases h; exact .same _
    · split at h <;> (cases h; exact .same _)
  split at h
  · rw [doPerft_state h]; exact .same _
  split at h
  · rw [doPerft_state h]; exact .same _
  split at h
  · cases h; exact .same _
  · cases h; exact .same _

theorem QueryFrame.pos {st st' : UciState} {out : List UOut} (h : QueryFrame st st' out) : st'.pos = st.pos := by
  cases h with
  | go _ _ hg => exact hg.pos
  | _ => rfl

/-- a `go` line reaches `doGo` -/
theorem uciStep_go {ops : EngineOps} {st : UciState} {line : Bytes} (hgo : hasPrefix line Gen.uGo_bytes = true) :
    uciStep ops st line = doGo st (ops.str.trimSpace (trimPrefix line Gen.uGo_bytes)) := by
  have hne : ∀ kw : Bytes, hasPrefix kw Gen.uGo_bytes = false → (line == kw) = false := by
    intro kw hk
    cases hh : (line == kw) with
    | false => rfl
    | true =>
      have := eq_of_beq hh
      subst this
      rw [hgo] at hk; cases hk
  have hnp : hasPrefix line Gen.uPosition_bytes = false := by
    cases hh : hasPrefix line Gen.uPosition_bytes with
    | false => rfl
    | true =>
      exfalso
      unfold hasPrefix at hh hgo
      match line, hh, hgo with
      | c :: _, hh, hgo =>
        simp only [Gen.uPosition_bytes, Gen.uGo_bytes, List.isPrefixOf, Bool.and_eq_true, beq_iff_eq] at hh hgo
        omega
  unfold uciStep
  simp only [hne Gen.uIsReady_bytes (by decide), hne kwEval (by decide), hne kwQuit (by decide), hnp,
    hne Gen.uUci_bytes (by decide), hgo, Bool.false_eq_true, if_false, if_true]

/-! ### `position`: an accepted command determines the position and clears the killer table, whatever the
    state before -/

/-- `parsePosition` answers `true`: the new position is a function of the text alone -/
theorem parsePosition_accept {ops : EngineOps} {st r : UciState} {s : Bytes}
    (h : parsePosition ops st s = .ok (r, none)) :
    ∃ p, r = { st with pos := some p } ∧
      ∀ st₂ : UciState, parsePosition ops st₂ s = .ok ({ st₂ with pos := some p }, none) := by
  unfold parsePosition at h ⊢
  split at h
  · next hs =>
    cases h
    exact ⟨ops.startPos, rfl, fun st₂ => by simp only [hs, if_true]; rfl⟩
  · next hs =>
    dsimp only at h ⊢
    cases hf : parseFen (if hasPrefix s (Gen.uFen_bytes ++ [32]) = true then ops.str.trimSpace (trimPrefix s Gen.uFen_bytes) else s) with
    | error x => rw [hf] at h; cases h
    | ok v =>
      rw [hf] at h
      cases v with
      | error e => cases h
      | ok p =>
        cases h
        exact ⟨p, rfl, fun st₂ => by simp only [hs]; rfl⟩

/-- the move loop ran to its end (no `Invalid position command`): the resulting position depends on the position
    it started from only, and the killer table is cleared -/
theorem applyMoves_accept {ops : EngineOps} : ∀ (l : List Bytes) (st₁ st₁' st₂ : UciState),
    applyMoves ops st₁ l = .ok (st₁', []) → st₂.pos = st₁.pos →
    ∃ st₂', applyMoves ops st₂ l = .ok (st₂', []) ∧ st₂'.pos = st₁'.pos ∧
      st₁'.killers = Killers.empty ∧ st₂'.killers = Killers.empty ∧
      ((∃ p, st₁.pos = some p) → ∃ p, st₁'.pos = some p)
  | [], st₁, st₁', st₂, h, hp => by
    cases h
    exact ⟨st₂.clearKillers, rfl, hp, rfl, rfl, fun h => h⟩
  | ms :: rest, st₁, st₁', st₂, h, hp => by
    unfold applyMoves at h ⊢
    cases hm : parseMoveString ops.str.lower ms with
    | none => rw [hm] at h; cases h
    | some mv =>
      rw [hm] at h
      dsimp only at h ⊢
      rw [hp]
      cases h1 : st₁.pos with
      | none => rw [h1] at h; cases h
      | some p =>
        rw [h1] at h
        dsimp only at h ⊢
        cases ha : ops.applyMove p mv with
        | error x => rw [ha] at h; cases h
        | ok p' =>
          rw [ha] at h
          simp only [ok_bind] at h ⊢
          obtain ⟨st₂', a, b, c, d, e⟩ := applyMoves_accept rest { st₁ with pos := some p' } st₁'
            { st₂ with pos := some p' } h rfl
          exact ⟨st₂', a, b, c, d, fun _ => e ⟨p', rfl⟩⟩

/-- **an accepted `position` command** (it printed nothing: no `invalid FEN`, no `Invalid position command`):
    run from ANY other state it is accepted as well, sets the SAME position, and in both runs the killer table is
    empty afterwards -/
theorem doPosition_accept {ops : EngineOps} {st₁ st₁' : UciState} {cmd : Bytes}
    (h : doPosition ops st₁ cmd = .ok (st₁', [])) (st₂ : UciState) :
    ∃ st₂', doPosition ops st₂ cmd = .ok (st₂', []) ∧ st₂'.pos = st₁'.pos ∧
      st₁'.killers = Killers.empty ∧ st₂'.killers = Killers.empty ∧ ∃ p, st₁'.pos = some p := by
  unfold doPosition positionHead at h
  unfold doPosition positionHead
  cases hi : indexOf Gen.uMoves_bytes cmd with
  | none =>
    rw [hi] at h
    dsimp only at h ⊢
    cases h2 : parsePosition ops st₁ cmd with
    | error x => rw [h2] at h; cases h
    | ok r =>
      rw [h2] at h
      obtain ⟨s1, e1⟩ := r
      simp only [ok_bind, pure_bind'] at h
      cases e1 with
      | some e => cases h
      | none =>
        cases h
        obtain ⟨p, rfl, hall⟩ := parsePosition_accept h2
        refine ⟨({ st₂ with pos := some p } : UciState).clearKillers, ?_, rfl, rfl, rfl, p, rfl⟩
        rw [hall st₂]
        rfl
  | some i =>
    rw [hi] at h
    dsimp only at h ⊢
    cases h1 : sliceTo cmd i with
    | error x => rw [h1] at h; cases h
    | ok hd =>
      rw [h1] at h
      simp only [ok_bind] at h ⊢
      cases h2 : parsePosition ops st₁ (ops.str.trimSpace hd) with
      | error x => rw [h2] at h; cases h
      | ok r =>
        rw [h2] at h
        obtain ⟨s1, e1⟩ := r
        simp only [ok_bind] at h
        cases e1 with
        | some e => cases h
        | none =>
          dsimp only at h
          obtain ⟨p, rfl, hall⟩ := parsePosition_accept h2
          rw [hall st₂]
          simp only [ok_bind]
          cases h4 : sliceFrom cmd (i + Gen.uMoves_bytes.length) with
          | error x => rw [h4] at h; cases h
          | ok tl =>
            rw [h4] at h
            simp only [ok_bind, pure_bind'] at h ⊢
            obtain ⟨st₂', a, b, c, d, e⟩ := applyMoves_accept _ _ _ { st₂ with pos := some p } h rfl
            exact ⟨st₂', a, b, c, d, e ⟨p, rfl⟩⟩

/-- the same for a whole input line with the prefix `position` -/
theorem uciStep_position_accept {ops : EngineOps} {st₁ st₁' : UciState} {line : Bytes}
    (hl : hasPrefix line Gen.uPosition_bytes = true) (h : uciStep ops st₁ line = .ok (st₁', [])) (st₂ : UciState) :
    ∃ st₂', uciStep ops st₂ line = .ok (st₂', []) ∧ st₂'.pos = st₁'.pos ∧
      st₁'.killers = Killers.empty ∧ st₂'.killers = Killers.empty ∧ ∃ p, st₁'.pos = some p := by
  rw [uciStep_position' hl] at h ⊢
  exact doPosition_accept h st₂

/-! ### sessions -/

theorem uciRun_pos {ops : EngineOps} : ∀ (lines : List Bytes) {st st' : UciState} {outs : List (List UOut)},
    (∀ l ∈ lines, hasPrefix l Gen.uPosition_bytes = false) → uciRun ops st lines = .ok (st', outs) →
    st'.pos = st.pos
  | [], st, st', outs, _, h => by
    cases h; rfl
  | l :: ls, st, st', outs, hnp, h => by
    unfold uciRun at h
    cases h1 : uciStep ops st l with
    | error e => rw [h1] at h; cases h
    | ok r =>
      rw [h1] at h
      simp only [ok_bind] at h
      cases h2 : uciRun ops r.1 ls with
      | error e => rw [h2] at h; cases h
      | ok rs =>
        rw [h2] at h
        cases h
        obtain ⟨s1, o1⟩ := r
        obtain ⟨s2, o2⟩ := rs
        have a := (uciStep_queryFrame (hnp l List.mem_cons_self) h1).pos
        have b := uciRun_pos ls (fun x hx => hnp x (List.mem_cons_of_mem _ hx)) h2
        exact b.trans a


/-! ## the forms of `go` (used by Props/C03Forms.lean) -/

section goForms
open Magog.PosCmd

/-! ### numerals -/

theorem isDigit_clean {c : Nat} (h : isDigit c = true) : CleanByte c := by
  unfold isDigit at h
  simp only [Bool.and_eq_true, decide_eq_true_eq] at h
  have h1 : c < 128 := by omega
  refine ⟨h1, ?_⟩
  unfold asciiSpace
  have : c ≠ 9 ∧ c ≠ 10 ∧ c ≠ 11 ∧ c ≠ 12 ∧ c ≠ 13 ∧ c ≠ 32 := by omega
  simp [this]

/-- the digit string of an accepted numeral -/
theorem atoi_digits {s : Bytes} {v : Int} (h : atoi s = some v) :
    ∃ ds : Bytes, ds ≠ [] ∧ (∀ c ∈ ds, isDigit c = true) ∧ (s = ds ∨ s = 45 :: ds ∨ s = 43 :: ds) := by
  unfold atoi at h
  split at h
  next neg ds heq =>
    split at h
    · cases h
    · next hc =>
      simp only [Bool.or_eq_true, Bool.not_eq_true', not_or, Bool.not_eq_false, Bool.not_eq_true] at hc
      obtain ⟨hne, hall⟩ := hc
      have hne' : ds ≠ [] := by intro e; subst e; simp at hne
      have hall' : ∀ c ∈ ds, isDigit c = true := by
        simpa [List.all_eq_true] using hall
      refine ⟨ds, hne', hall', ?_⟩
      split at heq
      · cases heq; exact .inr (.inl rfl)
      · cases heq; exact .inr (.inr rfl)
      · cases heq; exact .inl rfl

/-- a string accepted by `strconv.Atoi` is a word: not empty, ASCII, no white space -/
theorem atoi_word {s : Bytes} {v : Int} (h : atoi s = some v) : Word s := by
  obtain ⟨ds, hne, hall, hs⟩ := atoi_digits h
  have hd : ∀ c ∈ ds, CleanByte c := fun c hc => isDigit_clean (hall c hc)
  rcases hs with rfl | rfl | rfl
  · exact ⟨hne, hd⟩
  · refine ⟨by simp, ?_⟩
    intro c hc
    rcases List.mem_cons.1 hc with rfl | hc
    · exact ⟨by decide, by decide⟩
    · exact hd c hc
  · refine ⟨by simp, ?_⟩
    intro c hc
    rcases List.mem_cons.1 hc with rfl | hc
    · exact ⟨by decide, by decide⟩
    · exact hd c hc

/-- the first byte of an accepted numeral is a sign or a digit -/
theorem atoi_head {s : Bytes} {v : Int} (h : atoi s = some v) : ∃ c r, s = c :: r ∧ c < 58 := by
  obtain ⟨ds, hne, hall, hs⟩ := atoi_digits h
  match ds, hne, hall with
  | d :: r, _, hall =>
    have hd : isDigit d = true := hall d List.mem_cons_self
    unfold isDigit at hd
    simp only [Bool.and_eq_true, decide_eq_true_eq] at hd
    rcases hs with rfl | rfl | rfl
    · exact ⟨d, r, rfl, by omega⟩
    · exact ⟨45, _, rfl, by omega⟩
    · exact ⟨43, _, rfl, by omega⟩

/-- every keyword of `go` starts with a letter -/
def goKeywords : List Bytes := [kwMoveTime, kwInfinite, kwWtime, kwBtime, kwWinc, kwBinc, kwMovesToGo, kwDepth]

theorem goKeywords_head : ∀ k ∈ goKeywords, ∃ c r, k = c :: r ∧ 97 ≤ c := by
  intro k hk
  simp only [goKeywords, List.mem_cons, List.not_mem_nil, or_false] at hk
  rcases hk with rfl | rfl | rfl | rfl | rfl | rfl | rfl | rfl <;> exact ⟨_, _, rfl, by decide⟩

theorem atoi_ne_kw {s : Bytes} {v : Int} (h : atoi s = some v) {k : Bytes} (hk : k ∈ goKeywords) : (s == k) = false := by
  rw [beq_eq_false_iff_ne]
  intro e
  subst e
  obtain ⟨c, r, h1, h2⟩ := atoi_head h
  obtain ⟨c', r', h1', h2'⟩ := goKeywords_head s hk
  rw [h1] at h1'
  cases h1'
  omega

/-- a numeral in token position is skipped by the scanner -/
theorem goScan_numeral {s : Bytes} {v : Int} (h : atoi s = some v) (rest : List Bytes) (a : GoAcc) :
    goScan (s :: rest) a = goScan rest a := by
  rw [goScan.eq_def]
  simp only [atoi_ne_kw h (k := kwMoveTime) (by decide), atoi_ne_kw h (k := kwInfinite) (by decide),
    atoi_ne_kw h (k := kwWtime) (by decide), atoi_ne_kw h (k := kwBtime) (by decide),
    atoi_ne_kw h (k := kwWinc) (by decide), atoi_ne_kw h (k := kwBinc) (by decide),
    atoi_ne_kw h (k := kwMovesToGo) (by decide), atoi_ne_kw h (k := kwDepth) (by decide),
    Bool.false_eq_true, if_false]

/-- the empty token (as in `strings.Split("", " ")`, or between two blanks) is skipped -/
theorem goScan_empty (rest : List Bytes) (a : GoAcc) : goScan ([] :: rest) a = goScan rest a := by
  rw [goScan.eq_def]
  simp only [show (([] : Bytes) == kwMoveTime) = false by decide, show (([] : Bytes) == kwInfinite) = false by decide,
    show (([] : Bytes) == kwWtime) = false by decide, show (([] : Bytes) == kwBtime) = false by decide,
    show (([] : Bytes) == kwWinc) = false by decide, show (([] : Bytes) == kwBinc) = false by decide,
    show (([] : Bytes) == kwMovesToGo) = false by decide, show (([] : Bytes) == kwDepth) = false by decide,
    Bool.false_eq_true, if_false]

/-! ### decimal numerals: every `int64` value has a text that `strconv.Atoi` reads back -/

def natDigits : Nat → Nat → Bytes
  | 0, _ => []
  | f + 1, n => if n < 10 then [48 + n] else natDigits f (n / 10) ++ [48 + n % 10]

/-- the decimal text of a natural number -/
def natText (n : Nat) : Bytes := natDigits (n + 1) n

/-- the decimal text of an integer -/
def intText (i : Int) : Bytes := if i < 0 then 45 :: natText i.natAbs else natText i.natAbs

theorem digitsVal_append (l : Bytes) (c acc : Nat) : digitsVal (l ++ [c]) acc = digitsVal l acc * 10 + (c - 48) := by
  induction l generalizing acc with
  | nil => rfl
  | cons x xs ih => exact ih _

theorem natDigits_spec : ∀ (f n : Nat), n + 1 ≤ f →
    digitsVal (natDigits f n) 0 = n ∧ (∀ c ∈ natDigits f n, isDigit c = true) ∧
      ∃ d r, natDigits f n = d :: r ∧ isDigit d = true
  | 0, n, h => by omega
  | f + 1, n, h => by
    unfold natDigits
    by_cases hn : n < 10
    · have hd : isDigit (48 + n) = true := by unfold isDigit; simp; omega
      simp only [hn, if_true]
      refine ⟨by simp [digitsVal], ?_, _, _, rfl, hd⟩
      intro c hc
      rw [List.mem_singleton.1 hc]
      exact hd
    · obtain ⟨a, b, d, r, e, hd⟩ := natDigits_spec f (n / 10) (by omega)
      have hl : isDigit (48 + n % 10) = true := by unfold isDigit; simp; omega
      simp only [hn, if_false]
      refine ⟨?_, ?_, d, r ++ [48 + n % 10], by rw [e]; rfl, hd⟩
      · rw [digitsVal_append, a]; omega
      · intro c hc
        rcases List.mem_append.1 hc with hc | hc
        · exact b c hc
        · rw [List.mem_singleton.1 hc]; exact hl

theorem atoi_natText {n : Nat} (h : n ≤ 9223372036854775807) : atoi (natText n) = some (n : Int) := by
  obtain ⟨a, b, d, r, e, hd⟩ := natDigits_spec (n + 1) n (Nat.le_refl _)
  unfold natText
  have hall : (natDigits (n + 1) n).all isDigit = true := List.all_eq_true.2 b
  rw [e] at a hall ⊢
  have h45 : d ≠ 45 ∧ d ≠ 43 := by
    unfold isDigit at hd; simp only [Bool.and_eq_true, decide_eq_true_eq] at hd; omega
  unfold atoi
  split
  next neg ds heq =>
    split at heq
    · next hh => cases hh; exact absurd rfl h45.1
    · next hh => cases hh; exact absurd rfl h45.2
    · cases heq
      simp only [List.isEmpty_cons, hall, Bool.not_true, Bool.or_self, Bool.false_eq_true, if_false, a]
      rw [if_neg (by simp only [Bool.or_eq_true, decide_eq_true_eq]; omega)]

theorem atoi_neg_natText {n : Nat} (h : n ≤ 9223372036854775808) : atoi (45 :: natText n) = some (-(n : Int)) := by
  obtain ⟨a, b, d, r, e, hd⟩ := natDigits_spec (n + 1) n (Nat.le_refl _)
  unfold natText
  have hall : (natDigits (n + 1) n).all isDigit = true := List.all_eq_true.2 b
  rw [e] at a hall ⊢
  unfold atoi
  simp only [List.isEmpty_cons, hall, Bool.not_true, Bool.or_self, Bool.false_eq_true, if_false, a, if_true]
  rw [if_neg (by simp only [Bool.or_eq_true, decide_eq_true_eq]; omega)]

/-- **every `int64` value is the value of its decimal text** -/
theorem atoi_intText {i : Int} (h1 : -9223372036854775808 ≤ i) (h2 : i ≤ 9223372036854775807) :
    atoi (intText i) = some i := by
  unfold intText
  by_cases hneg : i < 0
  · rw [if_pos hneg, atoi_neg_natText (by omega)]
    congr 1; omega
  · rw [if_neg hneg, atoi_natText (by omega)]
    congr 1; omega

/-! ### keyword / value fields -/

/-- the keywords of `go` that are followed by a value and do not end the scan -/
inductive GoKey where
  | wtime | btime | winc | binc | movestogo | depth
  deriving DecidableEq, Repr

def GoKey.bytes : GoKey → Bytes
  | .wtime => kwWtime | .btime => kwBtime | .winc => kwWinc | .binc => kwBinc
  | .movestogo => kwMovesToGo | .depth => kwDepth

/-- the values `doGo` accepts for the keyword: `movestogo` and `depth` must be at least 1 -/
def GoKey.admits : GoKey → Int → Prop
  | .movestogo, v => 1 ≤ v
  | .depth, v => 1 ≤ v
  | _, _ => True

/-- the assignment `doGo` makes for the keyword -/
def GoKey.store : GoKey → Int → GoAcc → GoAcc
  | .wtime, v, a => { a with whiteLeft := v }
  | .btime, v, a => { a with blackLeft := v }
  | .winc, v, a => { a with whiteInc := v }
  | .binc, v, a => { a with blackInc := v }
  | .movestogo, v, a => { a with movesToGo := v }
  | .depth, v, a => { a with depth := min v Gen.MaxSearchDepth }

/-- a field `keyword value` as sent (`text` is the numeral), with the value it denotes -/
structure GoField where
  key : GoKey
  text : Bytes
  val : Int

def GoField.Ok (f : GoField) : Prop := atoi f.text = some f.val ∧ f.key.admits f.val

def fieldTokens : List GoField → List Bytes
  | [] => []
  | f :: fs => f.key.bytes :: f.text :: fieldTokens fs

def storeAll : List GoField → GoAcc → GoAcc
  | [], a => a
  | f :: fs, a => storeAll fs (f.key.store f.val a)

theorem goScan_field (f : GoField) (hf : f.Ok) (rest : List Bytes) (a : GoAcc) :
    goScan (f.key.bytes :: f.text :: rest) a = goScan rest (f.key.store f.val a) := by
  obtain ⟨k, s, v⟩ := f
  obtain ⟨hs, hadm⟩ := hf
  dsimp only at hs hadm
  rw [goScan]
  cases k
  · simp only [GoKey.bytes, GoKey.store, show (kwWtime == kwMoveTime) = false by decide,
      show (kwWtime == kwInfinite) = false by decide, beq_self_eq_true,
      Bool.false_eq_true, if_false, if_true, pure_bind', hs]
    exact goScan_numeral hs rest _
  · simp only [GoKey.bytes, GoKey.store, show (kwBtime == kwMoveTime) = false by decide,
      show (kwBtime == kwInfinite) = false by decide, show (kwBtime == kwWtime) = false by decide, beq_self_eq_true,
      Bool.false_eq_true, if_false, if_true, pure_bind', hs]
    exact goScan_numeral hs rest _
  · simp only [GoKey.bytes, GoKey.store, show (kwWinc == kwMoveTime) = false by decide,
      show (kwWinc == kwInfinite) = false by decide, show (kwWinc == kwWtime) = false by decide,
      show (kwWinc == kwBtime) = false by decide, beq_self_eq_true,
      Bool.false_eq_true, if_false, if_true, pure_bind', hs]
    exact goScan_numeral hs rest _
  · simp only [GoKey.bytes, GoKey.store, show (kwBinc == kwMoveTime) = false by decide,
      show (kwBinc == kwInfinite) = false by decide, show (kwBinc == kwWtime) = false by decide,
      show (kwBinc == kwBtime) = false by decide, show (kwBinc == kwWinc) = false by decide, beq_self_eq_true,
      Bool.false_eq_true, if_false, if_true, pure_bind', hs]
    exact goScan_numeral hs rest _
  · have hv : ¬ v < 1 := by simp only [GoKey.admits] at hadm; omega
    simp only [GoKey.bytes, GoKey.store, show (kwMovesToGo == kwMoveTime) = false by decide,
      show (kwMovesToGo == kwInfinite) = false by decide, show (kwMovesToGo == kwWtime) = false by decide,
      show (kwMovesToGo == kwBtime) = false by decide, show (kwMovesToGo == kwWinc) = false by decide,
      show (kwMovesToGo == kwBinc) = false by decide, beq_self_eq_true,
      Bool.false_eq_true, if_false, if_true, pure_bind', hs, hv]
    exact goScan_numeral hs rest _
  · have hv : ¬ v < 1 := by simp only [GoKey.admits] at hadm; omega
    simp only [GoKey.bytes, GoKey.store, show (kwDepth == kwMoveTime) = false by decide,
      show (kwDepth == kwInfinite) = false by decide, show (kwDepth == kwWtime) = false by decide,
      show (kwDepth == kwBtime) = false by decide, show (kwDepth == kwWinc) = false by decide,
      show (kwDepth == kwBinc) = false by decide, show (kwDepth == kwMovesToGo) = false by decide, beq_self_eq_true,
      Bool.false_eq_true, if_false, if_true, pure_bind', hs, hv]
    exact goScan_numeral hs rest _

/-- **the scanner on a list of well-formed fields** (any keywords, any order, repetitions allowed): all
    assignments are made, left to right, then the scan goes on behind them -/
theorem goScan_fields : ∀ (fs : List GoField), (∀ f ∈ fs, f.Ok) → ∀ (tail : List Bytes) (a : GoAcc),
    goScan (fieldTokens fs ++ tail) a = goScan tail (storeAll fs a)
  | [], _, tail, a => rfl
  | f :: fs, h, tail, a => by
    show goScan (f.key.bytes :: f.text :: (fieldTokens fs ++ tail)) a = _
    rw [goScan_field f (h f List.mem_cons_self), goScan_fields fs (fun g hg => h g (List.mem_cons_of_mem _ hg))]
    rfl

theorem goScan_movetime' (s : Bytes) (rest : List Bytes) (a : GoAcc) (T : Int) (hs : atoi s = some T) :
    goScan (kwMoveTime :: s :: rest) a = .ok (.done { a with moveTime := T }) := by
  rw [goScan]
  simp only [beq_self_eq_true, ↓reduceIte, bind, Except.bind, pure, Except.pure, hs]

theorem goScan_infinite (rest : List Bytes) (a : GoAcc) : goScan (kwInfinite :: rest) a = .ok (.done a) := by
  rw [goScan.eq_def]
  simp only [show (kwInfinite == kwMoveTime) = false by decide, beq_self_eq_true, Bool.false_eq_true, if_false, if_true]
  rfl

/-! ### the deadline arithmetic in range -/

open Magog.Props.C13 (InRange allotPure)

/-- clock mode (`movetime` not given), values in range: the thinking time is `allotPure` of the mover's clock -/
theorem goFinish_clock (black : Bool) (a : GoAcc) (hmt : a.moveTime = -1)
    (hbl : InRange a.blackLeft) (hbi : InRange a.blackInc) (hwl : InRange a.whiteLeft) (hwi : InRange a.whiteInc)
    (hm : 0 < a.movesToGo) :
    goFinish black a = .ok ⟨allotPure (if black then a.blackLeft else a.whiteLeft)
      (if black then a.blackInc else a.whiteInc) a.movesToGo, a.depth⟩ := by
  unfold goFinish
  rw [hmt, if_neg (by decide), Props.C13.allot_eq black _ _ _ _ _ hbl hbi hwl hwi hm]
  have hb := Props.C13.allot_bounds (if black then a.blackLeft else a.whiteLeft)
    (if black then a.blackInc else a.whiteInc) a.movesToGo
  have hl : InRange (if black then a.blackLeft else a.whiteLeft) := by cases black <;> assumption
  unfold InRange at hl
  simp only [Gen.antiflagMillis] at hb
  generalize allotPure _ _ _ = x at hb
  simp only [ok_bind]
  rw [Props.C13.wrap64_id (by omega) (by omega), Int.mul_tdiv_cancel_left _ (by decide)]
  rfl

/-- `movetime T` with `T` in range (and `T ≠ -1`, the engine's "not given" marker): `T − margin` -/
theorem goFinish_movetime (black : Bool) (a : GoAcc) (hne : a.moveTime ≠ -1) (hT : InRange a.moveTime) :
    goFinish black a = .ok ⟨a.moveTime - (Gen.antiflagMillis : Int), a.depth⟩ := by
  unfold InRange at hT
  have h1 : (a.moveTime != -1) = true := by simp [hne]
  unfold goFinish
  simp only [h1, if_true, Gen.antiflagMillis]
  rw [Props.C13.wrap64_id (x := a.moveTime - ((50 : Nat) : Int)) (by omega) (by omega)]
  rw [Props.C13.wrap64_id (by omega) (by omega)]
  rw [Int.mul_tdiv_cancel _ (by decide)]
  rfl

theorem inRange_default : InRange (100000000000 : Int) ∧ InRange (0 : Int) := by
  unfold InRange; omega

/-- the thinking time when no clock is given at all (`go`, `go infinite`, `go depth N`): the default clock of
    10¹¹ ms divided by the default number of moves, less the safety margin -/
def defaultMillis : Int := allotPure 100000000000 0 Gen.ExpectedFullMovesToBePlayed

theorem defaultMillis_val : defaultMillis = 100000000000 / 30 - 50 := by decide +kernel

theorem goFinish_default (black : Bool) (d : Int) : goFinish black { depth := d } = .ok ⟨defaultMillis, d⟩ := by
  rw [goFinish_clock black _ rfl inRange_default.1 inRange_default.2 inRange_default.1 inRange_default.2
    (by show (0 : Int) < ((Gen.ExpectedFullMovesToBePlayed : Nat) : Int); decide)]
  cases black <;> rfl

/-! ### invariants of the accumulated parameters -/

theorem storeAll_movesToGo : ∀ (fs : List GoField), (∀ f ∈ fs, f.Ok) → ∀ a : GoAcc, 0 < a.movesToGo →
    0 < (storeAll fs a).movesToGo
  | [], _, a, ha => ha
  | f :: fs, h, a, ha => by
    apply storeAll_movesToGo fs (fun g hg => h g (List.mem_cons_of_mem _ hg))
    obtain ⟨k, s, v⟩ := f
    have := (h _ List.mem_cons_self).2
    cases k <;> first | exact ha | (simp only [GoKey.admits] at this; simp only [GoKey.store]; omega)

theorem storeAll_depth : ∀ (fs : List GoField), (∀ f ∈ fs, f.Ok) → ∀ a : GoAcc,
    1 ≤ a.depth ∧ a.depth ≤ Gen.MaxSearchDepth →
    1 ≤ (storeAll fs a).depth ∧ (storeAll fs a).depth ≤ Gen.MaxSearchDepth
  | [], _, a, ha => ha
  | f :: fs, h, a, ha => by
    apply storeAll_depth fs (fun g hg => h g (List.mem_cons_of_mem _ hg))
    obtain ⟨k, s, v⟩ := f
    have := (h _ List.mem_cons_self).2
    cases k <;> first | exact ha | (simp only [GoKey.admits] at this; simp only [GoKey.store, Gen.MaxSearchDepth]; omega)

theorem storeAll_moveTime : ∀ (fs : List GoField) (a : GoAcc), (storeAll fs a).moveTime = a.moveTime
  | [], a => rfl
  | f :: fs, a => by
    rw [storeAll, storeAll_moveTime fs]
    obtain ⟨k, s, v⟩ := f
    cases k <;> rfl

/-! ### `doGo` through its tokens; the rendered command line -/

/-- the state after a `go` that started a search -/
def UciState.started (st : UciState) : UciState := { st with searchAllocated := true, killers := Killers.empty }

theorem doGo_tokens {st : UciState} {p : Position} (hp : st.pos = some p) (cmd : Bytes) :
    doGo st cmd = (do
      match (← goTokens (!whiteTurn p) (splitOn 32 cmd)) with
      | none => pure ({ st with searchAllocated := true }, [])
      | some g => pure (UciState.started st, [.searchStarted g.millis g.depth])) := by
  unfold doGo goParams
  split
  · next h => rw [hp] at h; cases h
  · next q hq => rw [hp] at hq; cases hq; rfl

/-- `go` started a search when the scanner finished with the parameters `a` -/
theorem doGo_done {st : UciState} {p : Position} (hp : st.pos = some p) {cmd : Bytes} {a : GoAcc}
    (hs : goScan (splitOn 32 cmd) {} = .ok (.done a)) {g : GoParams} (hg : goFinish (!whiteTurn p) a = .ok g) :
    doGo st cmd = .ok (UciState.started st, [.searchStarted g.millis g.depth]) := by
  rw [doGo_tokens hp]
  unfold goTokens
  simp only [hs, ok_bind, hg]
  rfl

/-- the line `go t₁ t₂ … tₖ` -/
def goLine (toks : List Bytes) : Bytes := Gen.uGo_bytes ++ 32 :: joinSp toks

theorem uciStep_goLine {ops : EngineOps} (hts : ops.str.trimSpace = trimSpace) (st : UciState) {toks : List Bytes}
    (hne : toks ≠ []) (hw : ∀ t ∈ toks, Word t) :
    uciStep ops st (goLine toks) = doGo st (joinSp toks) ∧ splitOn 32 (joinSp toks) = toks := by
  have hpre : hasPrefix (goLine toks) Gen.uGo_bytes = true := isPrefixOf_append _ _
  have htrim : trimPrefix (goLine toks) Gen.uGo_bytes = 32 :: joinSp toks := by
    unfold trimPrefix
    rw [hpre, if_pos rfl]
    exact List.drop_left
  rw [uciStep_go hpre, htrim, hts, (joinSp_ends toks hne hw).trim_sp_left]
  exact ⟨rfl, splitOn_joinSp toks hne (fun t ht => (hw t ht).no_sp)⟩

/-- the bare line `go` -/
theorem uciStep_goBare {ops : EngineOps} (hts : ops.str.trimSpace = trimSpace) (st : UciState) :
    uciStep ops st Gen.uGo_bytes = doGo st [] := by
  rw [uciStep_go (by decide), hts]
  rfl

theorem word_of_clean {t : Bytes} (hne : t ≠ []) (h : t.all (fun c => decide (c < 128) && !asciiSpace c) = true) : Word t := by
  refine ⟨hne, fun c hc => ?_⟩
  have := List.all_eq_true.1 h c hc
  simpa [CleanByte] using this

theorem goKey_word (k : GoKey) : Word k.bytes := by
  cases k <;> exact word_of_clean (by decide) (by decide)

theorem word_movetime : Word kwMoveTime := word_of_clean (by decide) (by decide)
theorem word_infinite : Word kwInfinite := word_of_clean (by decide) (by decide)

theorem fieldTokens_words : ∀ (fs : List GoField), (∀ f ∈ fs, f.Ok) → ∀ t ∈ fieldTokens fs, Word t
  | [], _, t, ht => by cases ht
  | f :: fs, h, t, ht => by
    rcases List.mem_cons.1 ht with rfl | ht
    · exact goKey_word _
    rcases List.mem_cons.1 ht with rfl | ht
    · exact atoi_word (h f List.mem_cons_self).1
    · exact fieldTokens_words fs (fun g hg => h g (List.mem_cons_of_mem _ hg)) t ht

/-! ### when does `go` return without starting a search -/

/-- the value read after a keyword (`tokens[i+1]`); a keyword in last position reads the empty string, which is
    not a number -/
def argOf : List Bytes → Bytes
  | nxt :: _ => nxt
  | [] => []

/-- the keywords after which `doGo` reads a value -/
def valueKeywords : List Bytes := [kwMoveTime, kwWtime, kwBtime, kwWinc, kwBinc, kwMovesToGo, kwDepth]

/-- the keyword `tok` followed by the tokens `rest` makes `doGo` return: its value is missing or not a number,
    or it is `movestogo` / `depth` with a value below 1 -/
def BadValue (tok : Bytes) (rest : List Bytes) : Prop :=
  tok ∈ valueKeywords ∧
    (atoi (argOf rest) = none ∨ ((tok = kwMovesToGo ∨ tok = kwDepth) ∧ ∃ v, atoi (argOf rest) = some v ∧ v < 1))

/-- the token list makes `doGo` return without starting a search: some value keyword with a bad value is reached
    by the scan (no `movetime` / `infinite` token stands before it) -/
def GoRejected (toks : List Bytes) : Prop :=
  ∃ pre tok rest, toks = pre ++ tok :: rest ∧ (∀ t ∈ pre, t ≠ kwMoveTime ∧ t ≠ kwInfinite) ∧ BadValue tok rest

theorem goScan_cons_eq (tok : Bytes) (rest : List Bytes) (a : GoAcc) : goScan (tok :: rest) a =
    if tok == kwMoveTime then
      (match atoi (argOf rest) with | none => pure .reject | some v => pure (.done { a with moveTime := v }))
    else if tok == kwInfinite then pure (.done a)
    else if tok == kwWtime then
      (match atoi (argOf rest) with | none => pure .reject | some v => goScan rest { a with whiteLeft := v })
    else if tok == kwBtime then
      (match atoi (argOf rest) with | none => pure .reject | some v => goScan rest { a with blackLeft := v })
    else if tok == kwWinc then
      (match atoi (argOf rest) with | none => pure .reject | some v => goScan rest { a with whiteInc := v })
    else if tok == kwBinc then
      (match atoi (argOf rest) with | none => pure .reject | some v => goScan rest { a with blackInc := v })
    else if tok == kwMovesToGo then
      (match atoi (argOf rest) with
       | none => pure .reject
       | some v => if v < 1 then pure .reject else goScan rest { a with movesToGo := v })
    else if tok == kwDepth then
      (match atoi (argOf rest) with
       | none => pure .reject
       | some v => if v < 1 then pure .reject else goScan rest { a with depth := min v Gen.MaxSearchDepth })
    else goScan rest a := by
  rw [goScan.eq_def]
  cases rest <;> rfl

/-- one step of the scanner, by cases on the token -/
theorem goScan_cons_cases (tok : Bytes) (rest : List Bytes) (a : GoAcc) :
    (tok = kwMoveTime ∧ ((BadValue tok rest ∧ goScan (tok :: rest) a = .ok .reject) ∨
        (¬ BadValue tok rest ∧ ∃ a', goScan (tok :: rest) a = .ok (.done a')))) ∨
    (tok = kwInfinite ∧ goScan (tok :: rest) a = .ok (.done a)) ∨
    (tok ≠ kwMoveTime ∧ tok ≠ kwInfinite ∧ ((BadValue tok rest ∧ goScan (tok :: rest) a = .ok .reject) ∨
        (¬ BadValue tok rest ∧ ∃ a', goScan (tok :: rest) a = goScan rest a'))) := by
  rw [goScan_cons_eq]
  by_cases h1 : tok = kwMoveTime
  · subst h1
    refine .inl ⟨rfl, ?_⟩
    simp only [beq_self_eq_true, if_true]
    cases hv : atoi (argOf rest) with
    | none => exact .inl ⟨⟨by decide, .inl hv⟩, rfl⟩
    | some v =>
      refine .inr ⟨?_, _, rfl⟩
      rintro ⟨_, h | ⟨h, _⟩⟩
      · rw [hv] at h; cases h
      · revert h; decide
  by_cases h2 : tok = kwInfinite
  · subst h2
    exact .inr (.inl ⟨rfl, rfl⟩)
  refine .inr (.inr ⟨h1, h2, ?_⟩)
  have e1 : (tok == kwMoveTime) = false := by simpa using h1
  have e2 : (tok == kwInfinite) = false := by simpa using h2
  simp only [e1, e2, Bool.false_eq_true, if_false]
  -- the four clock keywords
  have plain : ∀ (k : Bytes) (upd : Int → GoAcc), k ∈ valueKeywords → k ≠ kwMovesToGo → k ≠ kwDepth →
      (BadValue k rest ∧ (match atoi (argOf rest) with
          | none => (pure GoScan.reject : M GoScan) | some v => goScan rest (upd v)) = .ok .reject) ∨
      (¬ BadValue k rest ∧ ∃ a', (match atoi (argOf rest) with
          | none => (pure GoScan.reject : M GoScan) | some v => goScan rest (upd v)) = goScan rest a') := by
    intro k upd hk n1 n2
    cases hv : atoi (argOf rest) with
    | none => exact .inl ⟨⟨hk, .inl hv⟩, rfl⟩
    | some v =>
      refine .inr ⟨?_, _, rfl⟩
      rintro ⟨_, h | ⟨h | h, _⟩⟩
      · rw [hv] at h; cases h
      · exact n1 h
      · exact n2 h
  -- the two keywords with a lower bound
  have bounded : ∀ (k : Bytes) (upd : Int → GoAcc), k ∈ valueKeywords → (k = kwMovesToGo ∨ k = kwDepth) →
      (BadValue k rest ∧ (match atoi (argOf rest) with
          | none => (pure GoScan.reject : M GoScan)
          | some v => if v < 1 then pure .reject else goScan rest (upd v)) = .ok .reject) ∨
      (¬ BadValue k rest ∧ ∃ a', (match atoi (argOf rest) with
          | none => (pure GoScan.reject : M GoScan)
          | some v => if v < 1 then pure .reject else goScan rest (upd v)) = goScan rest a') := by
    intro k upd hk hkk
    cases hv : atoi (argOf rest) with
    | none => exact .inl ⟨⟨hk, .inl hv⟩, rfl⟩
    | some v =>
      by_cases hlt : v < 1
      · exact .inl ⟨⟨hk, .inr ⟨hkk, v, hv, hlt⟩⟩, by simp only [hlt, if_true]; rfl⟩
      · refine .inr ⟨?_, upd v, by simp only [hlt, if_false]⟩
        rintro ⟨_, h | ⟨_, w, hw, hw1⟩⟩
        · rw [hv] at h; cases h
        · rw [hv] at hw; cases hw; exact hlt hw1
  by_cases h3 : tok = kwWtime
  · subst h3
    simp only [beq_self_eq_true, if_true]
    exact plain _ _ (by decide) (by decide) (by decide)
  have e3 : (tok == kwWtime) = false := by simpa using h3
  by_cases h4 : tok = kwBtime
  · subst h4
    simp only [show (kwBtime == kwWtime) = false by decide, beq_self_eq_true, Bool.false_eq_true, if_false, if_true]
    exact plain _ _ (by decide) (by decide) (by decide)
  have e4 : (tok == kwBtime) = false := by simpa using h4
  by_cases h5 : tok = kwWinc
  · subst h5
    simp only [show (kwWinc == kwWtime) = false by decide, show (kwWinc == kwBtime) = false by decide,
      beq_self_eq_true, Bool.false_eq_true, if_false, if_true]
    exact plain _ _ (by decide) (by decide) (by decide)
  have e5 : (tok == kwWinc) = false := by simpa using h5
  by_cases h6 : tok = kwBinc
  · subst h6
    simp only [show (kwBinc == kwWtime) = false by decide, show (kwBinc == kwBtime) = false by decide,
      show (kwBinc == kwWinc) = false by decide, beq_self_eq_true, Bool.false_eq_true, if_false, if_true]
    exact plain _ _ (by decide) (by decide) (by decide)
  have e6 : (tok == kwBinc) = false := by simpa using h6
  by_cases h7 : tok = kwMovesToGo
  · subst h7
    simp only [show (kwMovesToGo == kwWtime) = false by decide, show (kwMovesToGo == kwBtime) = false by decide,
      show (kwMovesToGo == kwWinc) = false by decide, show (kwMovesToGo == kwBinc) = false by decide,
      beq_self_eq_true, Bool.false_eq_true, if_false, if_true]
    exact bounded _ _ (by decide) (.inl rfl)
  have e7 : (tok == kwMovesToGo) = false := by simpa using h7
  by_cases h8 : tok = kwDepth
  · subst h8
    simp only [show (kwDepth == kwWtime) = false by decide, show (kwDepth == kwBtime) = false by decide,
      show (kwDepth == kwWinc) = false by decide, show (kwDepth == kwBinc) = false by decide,
      show (kwDepth == kwMovesToGo) = false by decide, beq_self_eq_true, Bool.false_eq_true, if_false, if_true]
    exact bounded _ _ (by decide) (.inr rfl)
  have e8 : (tok == kwDepth) = false := by simpa using h8
  simp only [e3, e4, e5, e6, e7, e8, Bool.false_eq_true, if_false]
  refine .inr ⟨?_, a, rfl⟩
  rintro ⟨hm, _⟩
  simp only [valueKeywords, List.mem_cons, List.not_mem_nil, or_false] at hm
  rcases hm with h | h | h | h | h | h | h
  · exact h1 h
  · exact h3 h
  · exact h4 h
  · exact h5 h
  · exact h6 h
  · exact h7 h
  · exact h8 h

/-- the scanner never panics (restated for use here) and **rejects exactly the token lists in `GoRejected`** -/
theorem goScan_reject_iff : ∀ (toks : List Bytes) (a : GoAcc),
    (goScan toks a = .ok .reject ↔ GoRejected toks) ∧ (∃ r, goScan toks a = .ok r)
  | [], a => by
    refine ⟨⟨(fun h => by cases h), ?_⟩, _, rfl⟩
    rintro ⟨pre, tok, rest, h, _⟩
    cases pre <;> cases h
  | tok :: rest, a => by
    have step := goScan_cons_cases tok rest a
    have here : BadValue tok rest → GoRejected (tok :: rest) := fun hb => ⟨[], tok, rest, rfl, by simp, hb⟩
    -- a rejection of `tok :: rest` is at `tok` or inside `rest` (then `tok` is not a terminator)
    have split : GoRejected (tok :: rest) →
        BadValue tok rest ∨ (tok ≠ kwMoveTime ∧ tok ≠ kwInfinite ∧ GoRejected rest) := by
      rintro ⟨pre, t, r, h, hpre, hb⟩
      cases pre with
      | nil =>
        simp only [List.nil_append, List.cons.injEq] at h
        obtain ⟨rfl, rfl⟩ := h
        exact .inl hb
      | cons x xs =>
        simp only [List.cons_append, List.cons.injEq] at h
        obtain ⟨rfl, rfl⟩ := h
        exact .inr ⟨(hpre _ List.mem_cons_self).1, (hpre _ List.mem_cons_self).2,
          xs, t, r, rfl, fun u hu => hpre u (List.mem_cons_of_mem _ hu), hb⟩
    rcases step with ⟨rfl, ⟨hb, hr⟩ | ⟨hnb, a', hr⟩⟩ | ⟨rfl, hr⟩ | ⟨n1, n2, ⟨hb, hr⟩ | ⟨hnb, a', hr⟩⟩
    · exact ⟨⟨fun _ => here hb, fun _ => hr⟩, _, hr⟩
    · refine ⟨⟨(fun h => by rw [hr] at h; cases h), fun h => ?_⟩, _, hr⟩
      rcases split h with h | ⟨h, _⟩
      · exact absurd h hnb
      · exact absurd rfl h
    · refine ⟨⟨(fun h => by rw [hr] at h; cases h), fun h => ?_⟩, _, hr⟩
      rcases split h with ⟨hm, _⟩ | ⟨_, h, _⟩
      · exact absurd hm (by decide)
      · exact absurd rfl h
    · exact ⟨⟨fun _ => here hb, fun _ => hr⟩, _, hr⟩
    · have ih := goScan_reject_iff rest a'
      rw [hr]
      refine ⟨⟨fun h => ?_, fun h => ?_⟩, ih.2⟩
      · obtain ⟨pre, t, r, e, hpre, hb⟩ := ih.1.1 h
        refine ⟨tok :: pre, t, r, by rw [e]; rfl, ?_, hb⟩
        intro u hu
        rcases List.mem_cons.1 hu with rfl | hu
        · exact ⟨n1, n2⟩
        · exact hpre u hu
      · rcases split h with h | ⟨_, _, h⟩
        · exact absurd h hnb
        · exact ih.1.2 h

/-- a finished scan never leaves a zero divisor (from `UciTotal.goScan_total`) -/
theorem goScan_done_movesToGo {toks : List Bytes} {a' : GoAcc} (h : goScan toks {} = .ok (.done a')) :
    a'.movesToGo ≠ 0 := by
  obtain ⟨r, hr, hm⟩ := goScan_total toks {} defaultAcc_movesToGo
  rw [h] at hr
  cases hr
  exact hm a' rfl

/-- **`go` with a position set starts a search unless its token list is rejected** -/
theorem doGo_started_iff {st st' : UciState} {p : Position} (hp : st.pos = some p) {cmd : Bytes} {out : List UOut}
    (h : doGo st cmd = .ok (st', out)) :
    (GoRejected (splitOn 32 cmd) → st' = { st with searchAllocated := true } ∧ out = []) ∧
    (¬ GoRejected (splitOn 32 cmd) → ∃ millis depth, st' = UciState.started st ∧ out = [.searchStarted millis depth]) := by
  rw [doGo_tokens hp] at h
  unfold goTokens at h
  have hi := goScan_reject_iff (splitOn 32 cmd) {}
  obtain ⟨r, hr⟩ := hi.2
  rw [hr] at h
  cases r with
  | reject =>
    simp only [ok_bind, pure_bind'] at h
    cases h
    exact ⟨fun _ => ⟨rfl, rfl⟩, fun hn => absurd (hi.1.1 hr) hn⟩
  | done a =>
    simp only [ok_bind] at h
    obtain ⟨g, hg⟩ := goFinish_total (!whiteTurn p) a (goScan_done_movesToGo hr)
    rw [hg] at h
    simp only [ok_bind, pure_bind'] at h
    cases h
    refine ⟨fun hrj => ?_, fun _ => ⟨_, _, rfl, rfl⟩⟩
    have := hi.1.2 hrj
    rw [hr] at this
    cases this

/-! ### a rendered `go` line whose scan finishes starts a search -/

theorem goFinish_depth {black : Bool} {a : GoAcc} {g : GoParams} (h : goFinish black a = .ok g) : g.depth = a.depth := by
  unfold goFinish at h
  split at h
  · cases h; rfl
  · cases ha : allot black a.blackLeft a.blackInc a.whiteLeft a.whiteInc a.movesToGo with
    | error e => rw [ha] at h; cases h
    | ok ms => rw [ha] at h; cases h; rfl

theorem goLine_started {ops : EngineOps} (hts : ops.str.trimSpace = trimSpace) {st : UciState} {p : Position}
    (hp : st.pos = some p) {toks : List Bytes} (hne : toks ≠ []) (hw : ∀ t ∈ toks, Word t) {a : GoAcc}
    (hs : goScan toks {} = .ok (.done a)) {g : GoParams} (hg : goFinish (!whiteTurn p) a = .ok g) :
    uciStep ops st (goLine toks) = .ok (UciState.started st, [.searchStarted g.millis g.depth]) := by
  obtain ⟨h1, h2⟩ := uciStep_goLine hts st hne hw
  rw [h1]
  exact doGo_done hp (by rw [h2]; exact hs) hg

theorem default_movesToGo : (0 : Int) < ({} : GoAcc).movesToGo := by
  show (0 : Int) < ((Gen.ExpectedFullMovesToBePlayed : Nat) : Int)
  decide

theorem default_depth : (1 : Int) ≤ ({} : GoAcc).depth ∧ ({} : GoAcc).depth ≤ Gen.MaxSearchDepth := by
  show (1 : Int) ≤ ((Gen.MaxSearchDepth : Nat) : Int) ∧ ((Gen.MaxSearchDepth : Nat) : Int) ≤ Gen.MaxSearchDepth
  decide

/-- the parameters accumulated from well-formed fields always yield a deadline -/
theorem goFinish_fields (black : Bool) {fs : List GoField} (hfs : ∀ f ∈ fs, f.Ok) :
    ∃ g, goFinish black (storeAll fs {}) = .ok g ∧ g.depth = (storeAll fs {}).depth ∧
      1 ≤ g.depth ∧ g.depth ≤ Gen.MaxSearchDepth := by
  have hm := storeAll_movesToGo fs hfs {} default_movesToGo
  obtain ⟨g, hg⟩ := goFinish_total black (storeAll fs {}) (by omega)
  have hd := goFinish_depth hg
  have := storeAll_depth fs hfs {} default_depth
  exact ⟨g, hg, hd, by rw [hd]; exact this.1, by rw [hd]; exact this.2⟩

/-! ### the clock form `go wtime a btime b [winc c binc d] [movestogo m]` -/

/-- the fields of `go wtime a btime b [winc c binc d] [movestogo m]`: each value as (numeral, value) -/
def clockFields (wt bt : Bytes × Int) (inc : Option ((Bytes × Int) × (Bytes × Int))) (mtg : Option (Bytes × Int)) :
    List GoField :=
  [⟨.wtime, wt.1, wt.2⟩, ⟨.btime, bt.1, bt.2⟩] ++
  (match inc with | none => [] | some (wi, bi) => [⟨.winc, wi.1, wi.2⟩, ⟨.binc, bi.1, bi.2⟩]) ++
  (match mtg with | none => [] | some m => [⟨.movestogo, m.1, m.2⟩])

/-- the increment of the side to move (0 when `winc` / `binc` are not given) -/
def clockInc (white : Bool) : Option ((Bytes × Int) × (Bytes × Int)) → Int
  | none => 0
  | some (wi, bi) => if white then wi.2 else bi.2

/-- the moves to go (`ExpectedFullMovesToBePlayed` when `movestogo` is not given) -/
def clockMtg : Option (Bytes × Int) → Int
  | none => Gen.ExpectedFullMovesToBePlayed
  | some m => m.2

end goForms

end Magog.UciFrame
