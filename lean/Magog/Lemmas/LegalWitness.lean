import Magog.Lemmas.LegalCount
import Magog.Lemmas.MateWitness
import Magog.Lemmas.GenExamples

/-! Concrete witnesses (kernel-evaluated runs of the model) for the non-vacuity examples of the C01 / C06
    specification-level theorems: a mated position (fool's mate), a stalemate position, the start position. -/

set_option autoImplicit false

namespace Magog.LegalWitness
open Magog Magog.Model Magog.Count Magog.MM Magog.Lemmas.AlphaBeta

/-- injectivity of `.ok`, as a plain lemma (no `whnf` on the arguments, which may be closed model runs) -/
theorem ok_inj {α} {a b : α} (h : (Except.ok a : M α) = .ok b) : a = b := by cases h; rfl

set_option maxRecDepth 100000 in
/-- fool's mate (1. f3 e5 2. g4 Qh4#, White to move) is well-formed -/
theorem inv_foolsMate : Inv foolsMate := inv_of_invB (by decide +kernel)

set_option maxRecDepth 100000 in
theorem oppSafe_foolsMate : OppSafe foolsMate := okVal_eq_some (by decide +kernel)

/-- Black Kh8, White Qf7 Kg6, Black to move: stalemate -/
def stalematePos : Position := ofFen "7k/5Q2/6K1/8/8/8/8/8 b - - 0 1"

set_option maxRecDepth 100000 in
theorem inv_stalematePos : Inv stalematePos := inv_of_invB (by decide +kernel)

set_option maxRecDepth 100000 in
theorem oppSafe_stalematePos : OppSafe stalematePos := okVal_eq_some (by decide +kernel)

set_option maxRecDepth 100000 in
theorem stale_moves : okIs ((fun ms => ms.map (·.mov)) <$> generateMoves Killers.empty stalematePos) [] = true := by
  decide +kernel

theorem stale_gen : generateMoves Killers.empty stalematePos = .ok [] := by
  obtain ⟨ms, hms, hnil⟩ := map_ok (okIs_eq stale_moves)
  rw [hms, List.map_eq_nil_iff.mp hnil]

set_option maxRecDepth 100000 in
theorem stale_check : isCurrentKingUnderCheck stalematePos = .ok false := okIs_eq (by decide +kernel)

set_option maxRecDepth 100000 in
/-- the start position: 20 moves generated -/
theorem start_gen_len : okVal ((generateMoves Killers.empty startPosition).map (·.length)) = some 20 := by
  decide +kernel

set_option maxRecDepth 100000 in
/-- the castling witness of C06 (`c06Witness`): well-formed, opponent not in check -/
theorem oppSafe_c06Witness : OppSafe c06Witness := okVal_eq_some (by decide +kernel)

set_option maxRecDepth 100000 in
theorem oppSafe_c06PromoWitness : OppSafe c06PromoWitness := okVal_eq_some (by decide +kernel)

set_option maxRecDepth 100000 in
/-- king and pawn against king (White Ka1 Pa2, Black Kh8, White to move) -/
theorem inv_kpaPos : Inv kpaPos := inv_of_invB (by decide +kernel)

set_option maxRecDepth 100000 in
theorem oppSafe_kpaPos : OppSafe kpaPos := okVal_eq_some (by decide +kernel)

set_option maxRecDepth 100000 in
/-- perft 2 there: 4 white moves (Kb1, Kb2, a3, a4) × 3 black replies -/
theorem kpa_perft2 : perft Killers.empty 200 2 0 kpaPos = .ok 12 := okVal_eq_some (by decide +kernel)

set_option maxRecDepth 100000 in
theorem kpa_perft3 : perft Killers.empty 200 3 0 kpaPos = .ok 69 := okVal_eq_some (by decide +kernel)

end Magog.LegalWitness
