import Magog.Lemmas.CountInv

/-! `countMoves`, `countTacticalMoves` and the tactical generator never panic on a well-formed position with
    the opponent not in check.

    The counter probes `isLegal` (= `makeMove` on a copy) with every move the generator emits, plus two kinds
    of moves the generator never emits: king steps onto squares attacked on the current board (`kingGen`
    drops them before the filter) and pawn moves to the last rank with the promotion field left 0 (the
    generator emits the four promotion moves instead). For the generated ones `makeMove_ok` (C02) applies;
    for the king steps the `SimpleMove` stage lemmas apply directly; for the `promo = 0` probes the stages
    of the queen promotion transfer (`makeMove_promo0_ok`, with `isUnderCheck_congr`). -/

set_option linter.unusedSimpArgs false

set_option autoImplicit false

namespace Magog.CountNoPanic
open Magog Magog.Model Magog.Count Magog.MM

theorem makeMove_of_stages {p : Position} {m : Move} {board : Array Nat} {flags : Nat} {cur en : Side}
    {board' : Array Nat} {en' : Side} {chk : Bool}
    (h1 : mmMover p.board p.flags p.ctx.cur m p.ctx.curBit (if whiteTurn p then Gen.Rank1 else Gen.Rank8)
        (if whiteTurn p then FWK else FBK) (if whiteTurn p then FWQ else FBQ) = .ok (board, flags, cur))
    (h2 : mmCapture board p.ctx.en m p.ctx.enBit = .ok en)
    (h3 : mmBoard board en m p.ep p.ctx.curBit = .ok (board', en'))
    (h4 : isUnderCheck board' en' cur.king = .ok chk) : ∃ q, makeMove p m = .ok (q, !chk) := by
  rw [ctx_cur, ctx_curBit] at h1
  rw [ctx_en, ctx_enBit] at h2
  rw [ctx_curBit] at h3
  unfold makeMove
  simp only [h1, h2, h3, h4, ok_bind, pure_eq_ok]
  exact ⟨_, rfl⟩

theorem mmMover_pawn0 {board : Array Nat} {flags : Nat} {cur : Side} {f t e cc cr ck cq : Nat}
    (hp : board[f]? = some (Pawn ||| cc)) :
    mmMover board flags cur ⟨f, t, 0, e⟩ cc cr ck cq =
      .ok (board, flags, { cur with pawns := replaceFirst cur.pawns f t }) := by
  unfold mmMover
  rw [bget_eq, hp]
  simp only [ok_bind, beq_self_eq_true, if_true, pure_eq_ok]

theorem mmBoard_promoK_bounds {board : Array Nat} {en en' : Side} {f t k e ep cc : Nat} {B : Array Nat}
    (hk : k ≠ 0) (h : mmBoard board en ⟨f, t, k, e⟩ ep cc = .ok (B, en')) : t < board.size ∧ f < board.size := by
  unfold mmBoard at h
  have hne : (k == 0) = false := by simpa using hk
  simp only [hne, Bool.false_eq_true, if_false, bind_ok, pure_eq_ok, Except.ok.injEq, Prod.mk.injEq,
    bset_ok_iff] at h
  obtain ⟨b1, ⟨h1, rfl⟩, b2, ⟨h2, rfl⟩, _, _⟩ := h
  exact ⟨h1, by simpa using h2⟩

theorem mmBoard_promo0_ok {board : Array Nat} {en : Side} {f t e ep cc : Nat}
    (hp : board[f]? = some (Pawn ||| cc)) (hep : t ≠ ep) (ht : t < board.size) (hf : f < board.size) :
    mmBoard board en ⟨f, t, 0, e⟩ ep cc = .ok ((board.setIfInBounds t (Pawn ||| cc)).setIfInBounds f 0, en) := by
  unfold mmBoard
  have hne : (ep == t) = false := by simpa using fun hh : ep = t => hep hh.symm
  simp only [beq_self_eq_true, if_true, bget_eq, hp, ok_bind, hne, Bool.false_and, Bool.false_eq_true, if_false,
    bset, ht, Array.size_setIfInBounds, hf, pure_eq_ok]

/-- a pawn move with the promotion field left 0 runs whenever the same move with a promotion piece runs,
    with the same king-safety verdict (cf. `promo_legal_uniform`) -/
theorem makeMove_promo0_ok {p : Position} {f t k e : Nat} {q1 : Position} {b1 : Bool}
    (hcap : CaptureOk p) (hpawn : p.board[f]? = some (Pawn ||| p.ctx.curBit)) (hep : t ≠ p.ep)
    (hk : k ≠ 0) (hkb : k &&& BlackBit = 0)
    (h1 : makeMove p ⟨f, t, k, e⟩ = .ok (q1, b1)) : ∃ q0, makeMove p ⟨f, t, 0, e⟩ = .ok (q0, b1) := by
  obtain ⟨bd1, fl1, cur1, en1, B1, en1', chk1, hm1, hc1, hb1, hu1, rfl⟩ := makeMove_ok h1
  obtain ⟨rfl, hking1⟩ := mmMover_pawn hpawn hm1
  rw [mmCapture_promo] at hc1
  obtain ⟨hnot, _⟩ := mmCapture_not_mem hcap.1 hcap.2 hc1
  obtain ⟨htl, hfl⟩ := mmBoard_promoK_bounds hk hb1
  obtain ⟨rfl, rfl⟩ := mmBoard_promoK hk hb1
  have hcc : p.ctx.curBit ≠ 0 := by
    rw [ctx_curBit]; split <;> decide
  have hcb : (Pawn ||| p.ctx.curBit) &&& BlackBit = (k ||| p.ctx.curBit) &&& BlackBit := by
    rw [Nat.and_or_distrib_right, Nat.and_or_distrib_right, hkb]
    rfl
  have hcong := isUnderCheck_congr (B := (p.board.setIfInBounds t (Pawn ||| p.ctx.curBit)).setIfInBounds f 0)
    (B' := (p.board.setIfInBounds t (k ||| p.ctx.curBit)).setIfInBounds f 0) en1' p.ctx.cur.king
    (by simp) ?_ ?_ ?_
  · refine makeMove_of_stages (mmMover_pawn0 hpawn) hc1 (mmBoard_promo0_ok hpawn hep htl hfl) ?_
    show isUnderCheck _ en1' p.ctx.cur.king = _
    rw [hcong, ← hking1]
    exact hu1
  · intro i
    simp only [Array.getElem?_setIfInBounds, Array.size_setIfInBounds]
    split
    · rfl
    · split
      · simp [or_ne_zero_of_right hcc]
      · rfl
  · intro a ha
    have hat : t ≠ a := fun hh => hnot (hh ▸ ha)
    simp only [Array.getElem?_setIfInBounds, Array.size_setIfInBounds, hat, if_false]
  · simp only [Array.getElem?_setIfInBounds, Array.size_setIfInBounds]
    split
    · rfl
    · split
      · simp [hcb]
      · rfl

theorem sumM'_isOk {α} {f : α → M Nat} {l : List α} (h : ∀ x ∈ l, IsOk (f x)) : IsOk (sumM' f l) := by
  induction l with
  | nil => exact ⟨0, rfl⟩
  | cons x xs ih =>
    obtain ⟨a, ha⟩ := h x List.mem_cons_self
    obtain ⟨b, hb⟩ := ih (fun y hy => h y (List.mem_cons_of_mem _ hy))
    exact ⟨a + b, by simp only [sumM', ha, hb, ok_bind, pure_eq_ok]⟩

theorem isOk_of_mov {p : Position} {a : List RMove} (hok : ∀ rm ∈ a, IsOk (isLegal p rm.mov)) {m : Move}
    (hm : m ∈ a.map (·.mov)) : IsOk (isLegal p m) := by
  obtain ⟨rm, hrm, rfl⟩ := List.mem_map.1 hm
  exact hok rm hrm

/-! ### knights, sliders -/

theorem knight_ok {p : Position} {c kt frm a} (ha : knightGen p c kt frm = .ok a)
    (hok : ∀ rm ∈ a, IsOk (isLegal p rm.mov)) : IsOk (knightCount p c frm) := by
  unfold knightCount
  unfold knightGen at ha
  refine sumM'_isOk fun d hd => ?_
  obtain ⟨b, hb, hsub⟩ := flatMapM'_mem_ok ha d hd
  dsimp only at hb ⊢
  simp only [bind_ok] at hb
  obtain ⟨ok, h1, hb⟩ := hb
  rw [h1]
  cases ok
  · exact ⟨0, rfl⟩
  · simp only [if_true, bind_ok, pure_eq_ok, Except.ok.injEq] at hb
    obtain ⟨x, _, pc, _, mv, hmv, rfl⟩ := hb
    have := hok mv (hsub mv (by simp))
    rw [moveOrCapture_mov hmv] at this
    obtain ⟨l, hl⟩ := this
    exact ⟨b2n l, by simp only [ok_bind, if_true, hl, pure_eq_ok]⟩

theorem slideDir_ok {p : Position} {c : Ctx} {kt : Killers} {frm att dir : Nat} :
    ∀ (fuel t : Nat) (a : List RMove), slideDir p.board c kt p.ply frm att dir fuel t = .ok a →
      (∀ rm ∈ a, IsOk (isLegal p rm.mov)) → IsOk (slideDirCount p c frm dir fuel t) := by
  intro fuel
  induction fuel with
  | zero => intro t a ha; simp [slideDir, throw_eq_error] at ha
  | succ fuel ih =>
    intro t a ha hok
    unfold slideDirCount
    unfold slideDir at ha
    cases hv : isValid t
    · exact ⟨0, by simp [pure_eq_ok]⟩
    · cases hx : bget p.board t with
      | error e => simp [hv, hx] at ha
      | ok x =>
        simp only [hv, hx, Bool.not_true, Bool.false_eq_true, if_false, ok_bind, pure_eq_ok] at ha ⊢
        cases hcb : (x &&& c.curBit != 0)
        · simp only [hcb, Bool.false_eq_true, if_false, bind_ok] at ha ⊢
          obtain ⟨mv, hmv, ha⟩ := ha
          cases he : (x &&& c.enBit != 0)
          · simp only [he, Bool.false_eq_true, if_false, bind_ok, Except.ok.injEq] at ha
            obtain ⟨rest', hrest', rfl⟩ := ha
            have h1 := hok mv (by simp)
            rw [moveOrCapture_mov hmv] at h1
            obtain ⟨l, hl⟩ := h1
            obtain ⟨r, hr⟩ := ih _ _ hrest' (fun rm hrm => hok rm (List.mem_cons_of_mem _ hrm))
            exact ⟨b2n l + r, by simp only [hl, ok_bind, he, Bool.false_eq_true, if_false, hr, pure_eq_ok]⟩
          · simp only [he, if_true, Except.ok.injEq] at ha
            subst ha
            have h1 := hok mv (by simp)
            rw [moveOrCapture_mov hmv] at h1
            obtain ⟨l, hl⟩ := h1
            exact ⟨b2n l, by simp only [hl, ok_bind, he, if_true, pure_eq_ok]⟩
        · exact ⟨0, by simp only [hcb, if_true]⟩

theorem slide_ok {p : Position} {c kt frm dirs a} (ha : slideGen p c kt frm dirs = .ok a)
    (hok : ∀ rm ∈ a, IsOk (isLegal p rm.mov)) :
    IsOk (sumM' (fun d => slideDirCount p c frm d 8 (addb frm d)) dirs) := by
  simp only [slideGen, bind_ok] at ha
  obtain ⟨pc, _, ha⟩ := ha
  refine sumM'_isOk fun d hd => ?_
  obtain ⟨b, hb, hsub⟩ := flatMapM'_mem_ok ha d hd
  exact slideDir_ok _ _ _ hb (fun rm hrm => hok rm (hsub rm hrm))

theorem piece_ok {p : Position} {c kt frm a} (ha : pieceGen p c kt frm = .ok a)
    (hok : ∀ rm ∈ a, IsOk (isLegal p rm.mov)) : IsOk (pieceCount p c frm) := by
  simp only [pieceGen, bind_ok] at ha
  obtain ⟨pc, hpc, ha⟩ := ha
  simp only [pieceCount, hpc, ok_bind]
  split at ha
  · rename_i h; rw [if_pos h]; exact knight_ok ha hok
  · rename_i h; rw [if_neg h]
    split at ha
    · rename_i h; rw [if_pos h]; exact slide_ok ha hok
    · rename_i h; rw [if_neg h]
      split at ha
      · rename_i h; rw [if_pos h]; exact slide_ok ha hok
      · rename_i h; rw [if_neg h]
        split at ha
        · rename_i h; rw [if_pos h]; exact slide_ok ha hok
        · simp [throw_eq_error] at ha

/-! ### king steps (including steps onto attacked squares, which the generator never emits) -/

open Magog.MM Magog.Atk Magog.Geo in
theorem kingStep_isLegal_ok {p : Position} (hI : Inv p) (hS : OppSafe p) {d x : Nat} (hd : d ∈ kingDirs)
    (hv : isValid (addb p.ctx.cur.king d) = true) (hx : p.board[addb p.ctx.cur.king d]? = some x)
    (hcb : x &&& p.ctx.curBit = 0) :
    IsOk (isLegal p ⟨p.ctx.cur.king, addb p.ctx.cur.king d, 0, InvalidSq⟩) := by
  obtain ⟨c1, _, _, c4, _⟩ := ctx_fields (p := p) rfl
  rw [c1] at hv hx ⊢
  rw [c4] at hcb
  have hcur := hI.sideInv (whiteTurn p)
  have hsafe := safe_of_oppSafe hI rfl hS
  have hkc := hcur.ok.king_cell
  have ht88 := sq88_of_cell hI hv hx
  have hnk : x ≠ kingOf (!whiteTurn p) := by
    intro e
    subst e
    have hkk := king_unique hI ht88 hx
    have h0 := hsafe.king
    rw [← hkk] at h0
    exact GenGeo.king_geo hkc.1 hd ht88 h0
  have hs := simple_of_step hI hkc.1 hkc.2 (kingOf_man _) (fun e => pawnOf_ne_kingOf _ _ e.symm) rfl hv hx hcb hnk
    (fun _ ⟨hE, hCG⟩ => by
      have := king_step_not_castle (p.side (whiteTurn p)).king hd hE
      rcases hCG with h | h
      · exact this.1 h
      · exact this.2 h)
  obtain ⟨p', b, h, _⟩ := simple_result hI rfl hs (fun _ _ _ _ _ _ => .inl rfl)
  exact ⟨b, by simp only [isLegal, h, ok_bind, pure_eq_ok]⟩

theorem king_ok {p : Position} (hI : Inv p) (hS : OppSafe p) : IsOk (kingCount p p.ctx) := by
  unfold kingCount
  refine sumM'_isOk fun d hd => ?_
  dsimp only
  cases hv : isValid (addb p.ctx.cur.king d)
  · exact ⟨0, by simp only [andM_false, ok_bind, Bool.false_eq_true, if_false, pure_eq_ok]⟩
  · have hlt : addb p.ctx.cur.king d < 128 := by
      exact GenGeoO.valid_lt128 (Nat.mod_lt _ (by decide)) hv
    obtain ⟨x, hx, _⟩ := hI.board.codes _ hlt hv
    simp only [andM_true, Atk.bget_of_some hx, ok_bind, pure_eq_ok]
    cases hcb : (x &&& p.ctx.curBit == 0)
    · exact ⟨0, by simp only [Bool.false_eq_true, if_false]⟩
    · obtain ⟨l, hl⟩ := kingStep_isLegal_ok hI hS hd hv hx (by simpa using hcb)
      exact ⟨b2n l, by simp only [if_true, hl, ok_bind]⟩

/-! ### pawns -/

/-- the `promo = 0` probe of `countPawnMoves` on the last rank runs whenever the queen promotion runs -/
structure PawnOkHyp (p : Position) (c : Ctx) (frm : Nat) : Prop where
  promo0 : ∀ t, (rankOf t == c.promoRank) = true → IsOk (isLegal p ⟨frm, t, Queen, InvalidSq⟩) →
    IsOk (isLegal p ⟨frm, t, 0, InvalidSq⟩)

theorem countPawn_ok {p : Position} {c : Ctx} {frm t : Nat} {a : List RMove} (hh : PawnOkHyp p c frm)
    (hmov : a.map (·.mov) = pawnMovs frm t c.promoRank) (hok : ∀ rm ∈ a, IsOk (isLegal p rm.mov)) :
    IsOk (countPawnMoves p frm t c.promoRank) := by
  have h0 : IsOk (isLegal p ⟨frm, t, 0, InvalidSq⟩) := by
    cases hr : (rankOf t == c.promoRank)
    · refine isOk_of_mov hok ?_
      rw [hmov, pawnMovs, hr]; simp
    · refine hh.promo0 t hr (isOk_of_mov hok ?_)
      rw [hmov, pawnMovs, hr]; simp
  obtain ⟨l, hl⟩ := h0
  unfold countPawnMoves
  rw [hl]
  cases l
  · exact ⟨_, rfl⟩
  · exact ⟨_, rfl⟩

theorem pawnQ_ok {g : Bool} {p : Position} {c : Ctx} {frm : Nat} {a : List RMove} (hh : PawnOkHyp p c frm)
    (ha : pawnCapQ p c frm = .ok a) (hok : ∀ rm ∈ a, IsOk (isLegal p rm.mov)) : IsOk (pawnCntQG g p c frm) := by
  unfold pawnCntQG
  unfold pawnCapQ at ha
  dsimp only at ha ⊢
  cases hv : isValid (addb (addb frm c.adv) 255)
  · exact ⟨0, by simp only [andM_false, ok_bind, Bool.false_eq_true, if_false, pure_eq_ok]⟩
  · cases hx : bget p.board (addb (addb frm c.adv) 255) with
    | error e => simp [hv, hx] at ha
    | ok x =>
      simp only [hv, hx, andM_true, ok_bind, pure_eq_ok] at ha ⊢
      cases he : (x &&& c.enBit != 0)
      · simp only [he, Bool.false_or, Bool.false_eq_true, if_false] at ha ⊢
        cases hq : (addb (addb frm c.adv) 255 == p.ep)
        · exact ⟨0, by simp only [Bool.false_and, Bool.false_eq_true, if_false, pure_eq_ok]⟩
        · simp only [hq, if_true, Bool.true_and] at ha ⊢
          cases g
          · exact ⟨0, by simp only [Bool.false_eq_true, if_false, pure_eq_ok]⟩
          · simp only [if_true]
            exact countPawn_ok hh (pawnCaptures_movs ha) hok
      · simp only [he, Bool.true_or, if_true] at ha ⊢
        exact countPawn_ok hh (pawnCaptures_movs ha) hok

theorem pawnK_ok {g : Bool} {p : Position} {c : Ctx} {frm : Nat} {a : List RMove} (hh : PawnOkHyp p c frm)
    (ha : pawnCapK p c frm = .ok a) (hok : ∀ rm ∈ a, IsOk (isLegal p rm.mov)) : IsOk (pawnCntKG g p c frm) := by
  unfold pawnCntKG
  unfold pawnCapK at ha
  dsimp only at ha ⊢
  cases hx : bget p.board (addb (addb frm c.adv) 1) with
  | error e => simp [hx] at ha
  | ok x =>
    simp only [hx, ok_bind, pure_eq_ok] at ha ⊢
    cases he : (x &&& c.enBit != 0)
    · simp only [he, Bool.false_or, Bool.false_eq_true, if_false] at ha ⊢
      cases hq : (addb (addb frm c.adv) 1 == p.ep)
      · exact ⟨0, by simp only [Bool.false_and, Bool.false_eq_true, if_false, pure_eq_ok]⟩
      · simp only [hq, if_true, Bool.true_and] at ha ⊢
        cases g
        · exact ⟨0, by simp only [Bool.false_eq_true, if_false, pure_eq_ok]⟩
        · simp only [if_true]
          exact countPawn_ok hh (pawnCaptures_movs ha) hok
    · simp only [he, Bool.true_or, if_true] at ha ⊢
      exact countPawn_ok hh (pawnCaptures_movs ha) hok

theorem pawnPush_ok {p : Position} {c : Ctx} {kt : Killers} {frm : Nat} {a : List RMove} (hh : PawnOkHyp p c frm)
    (ha : pawnPushGen p c kt frm = .ok a) (hok : ∀ rm ∈ a, IsOk (isLegal p rm.mov)) :
    IsOk (pawnCntPush p c frm) := by
  simp only [pawnPushGen, bind_ok] at ha
  obtain ⟨y, hy, ha⟩ := ha
  simp only [pawnCntPush, hy, ok_bind]
  cases h0 : (y == 0)
  · exact ⟨0, by simp only [Bool.false_eq_true, if_false, pure_eq_ok]⟩
  · simp only [h0, if_true, bind_ok, pure_eq_ok] at ha ⊢
    obtain ⟨sa, hsa, dbl, hdbl, ha⟩ := ha
    cases dbl
    · simp only [Bool.false_eq_true, if_false, Except.ok.injEq] at ha
      subst ha
      obtain ⟨n, hn⟩ := countPawn_ok hh (pawnPushes_movs hsa) hok
      exact ⟨n, by simp only [hn, ok_bind, hdbl, Bool.false_eq_true, if_false, pure_eq_ok]⟩
    · simp only [if_true, Except.ok.injEq] at ha
      subst ha
      obtain ⟨n, hn⟩ := countPawn_ok hh (pawnPushes_movs hsa)
        (fun rm hrm => hok rm (List.mem_append_left _ hrm))
      obtain ⟨l, hl⟩ := hok ⟨⟨frm, addb (addb frm c.adv) c.adv, 0, addb frm c.adv⟩, 0, false⟩ (by simp)
      exact ⟨n + b2n l, by simp only [hn, ok_bind, hdbl, if_true, hl, pure_eq_ok]⟩

theorem pawn_ok {p : Position} {c : Ctx} {kt : Killers} {frm : Nat} {a : List RMove} (hh : PawnOkHyp p c frm)
    (ha : pawnGen p c kt frm = .ok a) (hok : ∀ rm ∈ a, IsOk (isLegal p rm.mov)) : IsOk (pawnCount p c frm) := by
  rw [pawnCount_eq]
  rw [pawnGen_eq] at ha
  simp only [bind_ok, pure_eq_ok, Except.ok.injEq] at ha
  obtain ⟨a1, g1, a2, g2, a3, g3, rfl⟩ := ha
  obtain ⟨n1, h1⟩ := pawnQ_ok (g := rankOf frm != c.startRank) hh g1
    (fun rm hrm => hok rm (List.mem_append_left _ (List.mem_append_left _ hrm)))
  obtain ⟨n2, h2⟩ := pawnK_ok (g := rankOf frm != c.startRank) hh g2
    (fun rm hrm => hok rm (List.mem_append_left _ (List.mem_append_right _ hrm)))
  obtain ⟨n3, h3⟩ := pawnPush_ok hh g3 (fun rm hrm => hok rm (List.mem_append_right _ hrm))
  exact ⟨n1 + n2 + n3, by simp only [h1, h2, h3, ok_bind, pure_eq_ok]⟩

/-! ### assembly: `countMoves` never panics -/

open Magog.LegalMoves Magog.CountInv Magog.GenPure in
theorem pawnOkHyp_of_inv {p : Position} (hI : Inv p) {frm : Nat} (hf : frm ∈ p.ctx.cur.pawns) :
    PawnOkHyp p p.ctx frm := by
  refine ⟨fun t hr hq => ?_⟩
  obtain ⟨b, hb⟩ := hq
  simp only [isLegal, bind_ok, pure_eq_ok, Except.ok.injEq] at hb
  obtain ⟨⟨q1, b1⟩, h1, _⟩ := hb
  have hep : t ≠ p.ep := by
    intro e
    rw [e, beq_iff_eq] at hr
    exact ep_not_promoRank (epRankOk_of_inv hI) hr
  obtain ⟨q0, h0⟩ := makeMove_promo0_ok (captureOk_of_inv hI) (pawnsOk_of_inv hI frm hf) hep
    (by decide : Queen ≠ 0) (by decide : Queen &&& BlackBit = 0) h1
  exact ⟨b1, by simp only [isLegal, h0, ok_bind, pure_eq_ok]⟩

open Magog.GenPure in
theorem castleCnt_ok {p : Position} (hI : Inv p) : IsOk (castleQCnt p p.ctx) ∧ IsOk (castleKCnt p p.ctx) := by
  have env := env_of_inv hI Props.C18.killers_empty_size
  constructor
  · unfold castleQCnt
    cases hq : p.ctx.qOk
    · exact ⟨0, rfl⟩
    · rw [if_pos rfl, castleQOk_eq env (env.castleQ hq).1]
      exact ⟨_, rfl⟩
  · unfold castleKCnt
    cases hq : p.ctx.kOk
    · exact ⟨0, rfl⟩
    · rw [if_pos rfl, castleKOk_eq env (env.castleK hq).1]
      exact ⟨_, rfl⟩

open Magog.LegalMoves Magog.GenPure in
/-- **`countMoves` never panics** on a well-formed position with the opponent not in check. (Its `isLegal`
    probes include moves the generator never emits: king steps onto attacked squares, and pawn moves to the
    last rank with the promotion field left 0.) -/
theorem countMoves_ok {p : Position} (hI : Inv p) (hS : OppSafe p) : ∃ n, countMoves p = .ok n := by
  obtain ⟨ps, hps, _⟩ := genPseudo_genList hI Props.C18.killers_empty_size
  have hall : ∀ rm ∈ ps, IsOk (isLegal p rm.mov) := fun rm hrm =>
    ⟨_, isLegal_spec hI hS (generated_of_mem hps hrm)⟩
  have hps' := hps
  simp only [genPseudo, bind_ok, pure_eq_ok, Except.ok.injEq] at hps'
  obtain ⟨a, ha, b, hb, k, hk, cs, hcs, rfl⟩ := hps'
  rw [countMoves_eq]
  obtain ⟨n1, h1⟩ := sumM'_isOk (f := pawnCount p p.ctx) (l := p.ctx.cur.pawns) (fun x hx => by
    obtain ⟨ax, hax, hsub⟩ := flatMapM'_mem_ok ha x hx
    exact pawn_ok (pawnOkHyp_of_inv hI hx) hax (fun rm hrm => hall rm (by
      simp only [List.mem_append]; exact .inl (.inl (.inl (hsub rm hrm))))))
  obtain ⟨n2, h2⟩ := sumM'_isOk (f := pieceCount p p.ctx) (l := p.ctx.cur.pieces) (fun x hx => by
    obtain ⟨ax, hax, hsub⟩ := flatMapM'_mem_ok hb x hx
    exact piece_ok hax (fun rm hrm => hall rm (by
      simp only [List.mem_append]; exact .inl (.inl (.inr (hsub rm hrm))))))
  obtain ⟨n3, h3⟩ := king_ok hI hS
  obtain ⟨⟨n4, h4⟩, ⟨n5, h5⟩⟩ := castleCnt_ok hI
  exact ⟨n1 + n2 + n3 + n4 + n5, by simp only [h1, h2, h3, h4, h5, ok_bind, pure_eq_ok]⟩

/-! ### the tactical counter -/

/-- on a valid square, a cell with the enemy's colour bit has not the mover's -/
def EnemyNotOwn (p : Position) (c : Ctx) : Prop :=
  ∀ i x, isValid i = true → bget p.board i = .ok x → (x &&& c.enBit != 0) = true → (x &&& c.curBit == 0) = true

theorem knight_tok {p : Position} {c kt frm a} (hcell : EnemyNotOwn p c) (ha : knightGen p c kt frm = .ok a)
    (hok : ∀ rm ∈ a, IsOk (isLegal p rm.mov)) : IsOk (knightCountTactical p c frm) := by
  unfold knightCountTactical
  unfold knightGen at ha
  refine sumM'_isOk fun d hd => ?_
  obtain ⟨b, hb, hsub⟩ := flatMapM'_mem_ok ha d hd
  dsimp only at hb ⊢
  cases hv : isValid (addb frm d)
  · exact ⟨0, by simp only [andM_false, ok_bind, Bool.false_eq_true, if_false, pure_eq_ok]⟩
  · cases hx : bget p.board (addb frm d) with
    | error e => simp [hv, hx] at hb
    | ok x =>
      simp only [hv, hx, andM_true, ok_bind, pure_eq_ok] at hb ⊢
      cases he : (x &&& c.enBit != 0)
      · exact ⟨0, by simp only [Bool.false_eq_true, if_false]⟩
      · simp only [hcell _ _ hv hx he, if_true, bind_ok, Except.ok.injEq] at hb
        obtain ⟨pc, _, mv, hmv, rfl⟩ := hb
        have := hok mv (hsub mv (by simp))
        rw [moveOrCapture_mov hmv] at this
        obtain ⟨l, hl⟩ := this
        exact ⟨b2n l, by simp only [if_true, hl, ok_bind]⟩

theorem slideDir_tok {p : Position} {c : Ctx} {kt : Killers} {frm att dir : Nat} :
    ∀ (fuel t : Nat) (a : List RMove), slideDir p.board c kt p.ply frm att dir fuel t = .ok a →
      (∀ rm ∈ a, IsOk (isLegal p rm.mov)) → IsOk (slideDirCountTactical p c frm dir fuel t) := by
  intro fuel
  induction fuel with
  | zero => intro t a ha; simp [slideDir, throw_eq_error] at ha
  | succ fuel ih =>
    intro t a ha hok
    unfold slideDirCountTactical
    unfold slideDir at ha
    cases hv : isValid t
    · exact ⟨0, by simp [pure_eq_ok]⟩
    · cases hx : bget p.board t with
      | error e => simp [hv, hx] at ha
      | ok x =>
        simp only [hv, hx, Bool.not_true, Bool.false_eq_true, if_false, ok_bind, pure_eq_ok] at ha ⊢
        cases hcb : (x &&& c.curBit != 0)
        · simp only [hcb, Bool.false_eq_true, if_false, bind_ok] at ha ⊢
          obtain ⟨mv, hmv, ha⟩ := ha
          cases he : (x &&& c.enBit != 0)
          · simp only [he, Bool.false_eq_true, if_false, bind_ok, Except.ok.injEq] at ha ⊢
            obtain ⟨rest', hrest', rfl⟩ := ha
            exact ih _ _ hrest' (fun rm hrm => hok rm (List.mem_cons_of_mem _ hrm))
          · simp only [he, if_true, Except.ok.injEq] at ha ⊢
            subst ha
            have h1 := hok mv (by simp)
            rw [moveOrCapture_mov hmv] at h1
            obtain ⟨l, hl⟩ := h1
            exact ⟨b2n l, by simp only [hl, ok_bind]⟩
        · exact ⟨0, by simp only [hcb, if_true]⟩

theorem slide_tok {p : Position} {c kt frm dirs a} (ha : slideGen p c kt frm dirs = .ok a)
    (hok : ∀ rm ∈ a, IsOk (isLegal p rm.mov)) :
    IsOk (sumM' (fun d => slideDirCountTactical p c frm d 8 (addb frm d)) dirs) := by
  simp only [slideGen, bind_ok] at ha
  obtain ⟨pc, _, ha⟩ := ha
  refine sumM'_isOk fun d hd => ?_
  obtain ⟨b, hb, hsub⟩ := flatMapM'_mem_ok ha d hd
  exact slideDir_tok _ _ _ hb (fun rm hrm => hok rm (hsub rm hrm))

theorem piece_tok {p : Position} {c kt frm a} (hcell : EnemyNotOwn p c) (ha : pieceGen p c kt frm = .ok a)
    (hok : ∀ rm ∈ a, IsOk (isLegal p rm.mov)) : IsOk (pieceCountTactical p c frm) := by
  simp only [pieceGen, bind_ok] at ha
  obtain ⟨pc, hpc, ha⟩ := ha
  simp only [pieceCountTactical, hpc, ok_bind]
  split at ha
  · rename_i h; rw [if_pos h]; exact knight_tok hcell ha hok
  · rename_i h; rw [if_neg h]
    split at ha
    · rename_i h; rw [if_pos h]; exact slide_tok ha hok
    · rename_i h; rw [if_neg h]
      split at ha
      · rename_i h; rw [if_pos h]; exact slide_tok ha hok
      · rename_i h; rw [if_neg h]
        split at ha
        · rename_i h; rw [if_pos h]; exact slide_tok ha hok
        · simp [throw_eq_error] at ha

theorem king_tok {p : Position} (hI : Inv p) (hS : OppSafe p) (hcell : EnemyNotOwn p p.ctx) :
    IsOk (kingCountTactical p p.ctx) := by
  unfold kingCountTactical
  refine sumM'_isOk fun d hd => ?_
  dsimp only
  cases hv : isValid (addb p.ctx.cur.king d)
  · exact ⟨0, by simp only [andM_false, ok_bind, Bool.false_eq_true, if_false, pure_eq_ok]⟩
  · have hlt : addb p.ctx.cur.king d < 128 := GenGeoO.valid_lt128 (Nat.mod_lt _ (by decide)) hv
    obtain ⟨x, hx, _⟩ := hI.board.codes _ hlt hv
    simp only [andM_true, Atk.bget_of_some hx, ok_bind, pure_eq_ok]
    cases he : (x &&& p.ctx.enBit != 0)
    · exact ⟨0, by simp only [Bool.false_eq_true, if_false]⟩
    · have hcb := hcell _ _ hv (Atk.bget_of_some hx) he
      obtain ⟨l, hl⟩ := kingStep_isLegal_ok hI hS hd hv hx (by simpa using hcb)
      exact ⟨b2n l, by simp only [if_true, hl, ok_bind]⟩

theorem pawnTPush_ok {p : Position} {c : Ctx} {kt : Killers} {frm : Nat} {a : List RMove} (hh : PawnOkHyp p c frm)
    (ha : pawnPushGen p c kt frm = .ok a) (hok : ∀ rm ∈ a, IsOk (isLegal p rm.mov)) :
    IsOk (pawnTCntPush p c frm) := by
  simp only [pawnPushGen, bind_ok] at ha
  obtain ⟨y, hy, ha⟩ := ha
  simp only [pawnTCntPush, hy, ok_bind]
  cases h0 : (y == 0)
  · exact ⟨0, by simp only [Bool.false_and, Bool.false_eq_true, if_false, pure_eq_ok]⟩
  · simp only [h0, if_true, bind_ok, pure_eq_ok, Bool.true_and] at ha ⊢
    obtain ⟨sa, hsa, dbl, hdbl, ha⟩ := ha
    cases hr : (rankOf (addb frm c.adv) == c.promoRank)
    · exact ⟨0, by simp only [Bool.false_eq_true, if_false]⟩
    · simp only [if_true]
      refine countPawn_ok hh (pawnPushes_movs hsa) (fun rm hrm => hok rm ?_)
      simp only [Except.ok.injEq] at ha
      subst ha
      split
      · exact List.mem_append_left _ hrm
      · exact hrm

theorem pawn_tok {p : Position} {c : Ctx} {kt : Killers} {frm : Nat} {a : List RMove} (hh : PawnOkHyp p c frm)
    (ha : pawnGen p c kt frm = .ok a) (hok : ∀ rm ∈ a, IsOk (isLegal p rm.mov)) :
    IsOk (pawnCountTactical p c frm) := by
  rw [pawnCountTactical_eq]
  rw [pawnGen_eq] at ha
  simp only [bind_ok, pure_eq_ok, Except.ok.injEq] at ha
  obtain ⟨a1, g1, a2, g2, a3, g3, rfl⟩ := ha
  obtain ⟨n1, h1⟩ := pawnQ_ok (g := true) hh g1
    (fun rm hrm => hok rm (List.mem_append_left _ (List.mem_append_left _ hrm)))
  obtain ⟨n2, h2⟩ := pawnK_ok (g := true) hh g2
    (fun rm hrm => hok rm (List.mem_append_left _ (List.mem_append_right _ hrm)))
  obtain ⟨n3, h3⟩ := pawnTPush_ok hh g3 (fun rm hrm => hok rm (List.mem_append_right _ hrm))
  exact ⟨n1 + n2 + n3, by simp only [h1, h2, h3, ok_bind, pure_eq_ok]⟩

open Magog.GenPure Magog.LegalMoves in
theorem enemyNotOwn_of_inv {p : Position} (hI : Inv p) : EnemyNotOwn p p.ctx := by
  obtain ⟨_, _, _, c4, c5, _⟩ := ctx_fields (p := p) rfl
  intro i x hv hx he
  rw [c5] at he
  rw [c4]
  rw [bget_ok_iff] at hx
  have hlt : i < 128 := by
    rw [← hI.board.size]; exact (Array.getElem?_eq_some_iff.mp hx).1
  obtain ⟨v, hv', hcode⟩ := hI.board.codes i hlt hv
  rw [hx] at hv'
  cases hv'
  have key : ∀ w : Bool, ∀ v ∈ 0 :: Atk.pieceCodes, v &&& MM.colorBit (!w) ≠ 0 → v &&& MM.colorBit w = 0 := by
    decide
  have := key (whiteTurn p) x (List.mem_cons.2 hcode) (by simpa using he)
  simpa using this

open Magog.GenPure Magog.LegalMoves in
/-- **`countTacticalMoves` never panics** on a well-formed position with the opponent not in check -/
theorem countTactical_ok {p : Position} (hI : Inv p) (hS : OppSafe p) : ∃ n, countTacticalMoves p = .ok n := by
  obtain ⟨ps, hps, _⟩ := genPseudo_genList hI Props.C18.killers_empty_size
  have hall : ∀ rm ∈ ps, IsOk (isLegal p rm.mov) := fun rm hrm =>
    ⟨_, isLegal_spec hI hS (generated_of_mem hps hrm)⟩
  have hcell := enemyNotOwn_of_inv hI
  have hps' := hps
  simp only [genPseudo, bind_ok, pure_eq_ok, Except.ok.injEq] at hps'
  obtain ⟨a, ha, b, hb, k, hk, cs, hcs, rfl⟩ := hps'
  unfold countTacticalMoves
  obtain ⟨n1, h1⟩ := sumM'_isOk (f := pawnCountTactical p p.ctx) (l := p.ctx.cur.pawns) (fun x hx => by
    obtain ⟨ax, hax, hsub⟩ := flatMapM'_mem_ok ha x hx
    exact pawn_tok (pawnOkHyp_of_inv hI hx) hax (fun rm hrm => hall rm (by
      simp only [List.mem_append]; exact .inl (.inl (.inl (hsub rm hrm))))))
  obtain ⟨n2, h2⟩ := sumM'_isOk (f := pieceCountTactical p p.ctx) (l := p.ctx.cur.pieces) (fun x hx => by
    obtain ⟨ax, hax, hsub⟩ := flatMapM'_mem_ok hb x hx
    exact piece_tok hcell hax (fun rm hrm => hall rm (by
      simp only [List.mem_append]; exact .inl (.inl (.inr (hsub rm hrm))))))
  obtain ⟨n3, h3⟩ := king_tok hI hS hcell
  exact ⟨n1 + n2 + n3, by simp only [h1, h2, h3, ok_bind, pure_eq_ok]⟩


/-! ### the tactical generator never panics (derived from the full generator's run) -/

theorem flatMapM'_isOk {α β} {f : α → M (List β)} {l : List α} (h : ∀ x ∈ l, IsOk (f x)) :
    IsOk (flatMapM' f l) := by
  induction l with
  | nil => exact ⟨[], rfl⟩
  | cons x xs ih =>
    obtain ⟨a, ha⟩ := h x List.mem_cons_self
    obtain ⟨b, hb⟩ := ih (fun y hy => h y (List.mem_cons_of_mem _ hy))
    exact ⟨a ++ b, by simp only [flatMapM', ha, hb, ok_bind, pure_eq_ok]⟩

/-- on a valid square, a cell with the enemy's colour bit carries a piece kind -/
def EnemyKind (p : Position) (c : Ctx) : Prop :=
  ∀ i x, isValid i = true → bget p.board i = .ok x → (x &&& c.enBit != 0) = true → (x &&& Colorless == 0) = false

theorem captureRM_isOk {mov : Move} {a b : Nat} :
    IsOk (captureRM mov a b) ↔ IsOk (pieceToScore b) ∧ IsOk (pieceToScore a) := by
  unfold captureRM
  constructor
  · rintro ⟨r, h⟩
    simp only [bind_ok] at h
    obtain ⟨s1, h1, s2, h2, _⟩ := h
    exact ⟨⟨s1, h1⟩, ⟨s2, h2⟩⟩
  · rintro ⟨⟨s1, h1⟩, ⟨s2, h2⟩⟩
    rw [h1, ok_bind, h2, ok_bind]
    exact ⟨_, rfl⟩

theorem score_of_moveOrCapture {kt ply frm t att x mv} (h : moveOrCapture kt ply frm t att x = .ok mv)
    (hx : (x == 0) = false) : IsOk (pieceToScore x) ∧ IsOk (pieceToScore att) := by
  unfold moveOrCapture at h
  rw [hx] at h
  exact captureRM_isOk.1 ⟨mv, h⟩

theorem score_knight : IsOk (pieceToScore Knight) := ⟨_, rfl⟩
theorem score_king : IsOk (pieceToScore King) := ⟨_, rfl⟩

theorem knightGenT_ok {p : Position} {c kt frm a} (hcell : EnemyNotOwn p c) (hkind : EnemyKind p c)
    (ha : knightGen p c kt frm = .ok a) : IsOk (knightGenTactical p c frm) := by
  unfold knightGenTactical
  unfold knightGen at ha
  refine flatMapM'_isOk fun d hd => ?_
  obtain ⟨b, hb, _⟩ := flatMapM'_mem_ok ha d hd
  dsimp only at hb ⊢
  cases hv : isValid (addb frm d)
  · exact ⟨[], by simp only [andM_false, ok_bind, Bool.false_eq_true, if_false, pure_eq_ok]⟩
  · cases hx : bget p.board (addb frm d) with
    | error e => simp [hv, hx] at hb
    | ok x =>
      simp only [hv, hx, andM_true, ok_bind, pure_eq_ok] at hb ⊢
      cases he : (x &&& c.enBit != 0)
      · exact ⟨[], by simp only [Bool.false_eq_true, if_false]⟩
      · simp only [hcell _ _ hv hx he, if_true, bind_ok, Except.ok.injEq] at hb
        obtain ⟨pc, _, mv, hmv, rfl⟩ := hb
        obtain ⟨s1, _⟩ := score_of_moveOrCapture hmv (hkind _ _ hv hx he)
        obtain ⟨r, hr⟩ := captureRM_isOk (mov := ⟨frm, addb frm d, 0, InvalidSq⟩).2 ⟨s1, score_knight⟩
        exact ⟨[r], by simp only [if_true, hr, ok_bind]⟩

theorem slideDirT_ok {p : Position} {c : Ctx} {kt : Killers} {frm a0 dir : Nat}
    (hkind : EnemyKind p c) (hfrm : bget p.board frm = .ok a0) :
    ∀ (fuel t : Nat) (a : List RMove), slideDir p.board c kt p.ply frm (a0 &&& Colorless) dir fuel t = .ok a →
      IsOk (slideDirTactical p.board c frm dir fuel t) := by
  intro fuel
  induction fuel with
  | zero => intro t a ha; simp [slideDir, throw_eq_error] at ha
  | succ fuel ih =>
    intro t a ha
    unfold slideDirTactical
    unfold slideDir at ha
    cases hv : isValid t
    · exact ⟨[], by simp [pure_eq_ok]⟩
    · cases hx : bget p.board t with
      | error e => simp [hv, hx] at ha
      | ok x =>
        simp only [hv, hx, Bool.not_true, Bool.false_eq_true, if_false, ok_bind, pure_eq_ok] at ha ⊢
        cases hcb : (x &&& c.curBit != 0)
        · simp only [hcb, Bool.false_eq_true, if_false, bind_ok] at ha ⊢
          obtain ⟨mv, hmv, ha⟩ := ha
          cases he : (x &&& c.enBit != 0)
          · simp only [he, Bool.false_eq_true, if_false, bind_ok, Except.ok.injEq] at ha ⊢
            obtain ⟨rest', hrest', rfl⟩ := ha
            exact ih _ _ hrest'
          · simp only [he, if_true, hfrm, ok_bind]
            obtain ⟨r, hr⟩ := captureRM_isOk (mov := ⟨frm, t, 0, InvalidSq⟩).2
              (score_of_moveOrCapture hmv (hkind _ _ hv hx he))
            exact ⟨[r], by simp only [hr, ok_bind, pure_eq_ok]⟩
        · exact ⟨[], by simp only [hcb, if_true]⟩

theorem slideT_ok {p : Position} {c kt frm dirs a} (hkind : EnemyKind p c)
    (ha : slideGen p c kt frm dirs = .ok a) :
    IsOk (flatMapM' (fun d => slideDirTactical p.board c frm d 8 (addb frm d)) dirs) := by
  simp only [slideGen, bind_ok] at ha
  obtain ⟨pc, hpc, ha⟩ := ha
  refine flatMapM'_isOk fun d hd => ?_
  obtain ⟨b, hb, _⟩ := flatMapM'_mem_ok ha d hd
  exact slideDirT_ok hkind hpc _ _ _ hb

theorem pieceGenT_ok {p : Position} {c kt frm a} (hcell : EnemyNotOwn p c) (hkind : EnemyKind p c)
    (ha : pieceGen p c kt frm = .ok a) : IsOk (pieceGenTactical p c frm) := by
  simp only [pieceGen, bind_ok] at ha
  obtain ⟨pc, hpc, ha⟩ := ha
  simp only [pieceGenTactical, hpc, ok_bind]
  split at ha
  · rename_i h; rw [if_pos h]; exact knightGenT_ok hcell hkind ha
  · rename_i h; rw [if_neg h]
    split at ha
    · rename_i h; rw [if_pos h]; exact slideT_ok hkind ha
    · rename_i h; rw [if_neg h]
      split at ha
      · rename_i h; rw [if_pos h]; exact slideT_ok hkind ha
      · rename_i h; rw [if_neg h]
        split at ha
        · rename_i h; rw [if_pos h]; exact slideT_ok hkind ha
        · simp [throw_eq_error] at ha

theorem kingGenT_ok {p : Position} {c kt a} (hcell : EnemyNotOwn p c) (hkind : EnemyKind p c)
    (ha : kingGen p c kt = .ok a) : IsOk (kingGenTactical p c) := by
  unfold kingGenTactical
  unfold kingGen at ha
  refine flatMapM'_isOk fun d hd => ?_
  obtain ⟨b, hb, _⟩ := flatMapM'_mem_ok ha d hd
  dsimp only at hb ⊢
  cases hv : isValid (addb c.cur.king d)
  · exact ⟨[], by simp only [andM_false, ok_bind, Bool.false_eq_true, if_false, pure_eq_ok]⟩
  · cases hx : bget p.board (addb c.cur.king d) with
    | error e => simp [hv, hx] at hb
    | ok x =>
      simp only [hv, hx, andM_true, ok_bind, pure_eq_ok] at hb ⊢
      cases he : (x &&& c.enBit != 0)
      · exact ⟨[], by simp only [andM_false, ok_bind, Bool.false_eq_true, if_false]⟩
      · simp only [hcell _ _ hv hx he, andM_true] at hb ⊢
        cases hu : isUnderCheck p.board c.en (addb c.cur.king d) with
        | error e => simp [hu] at hb
        | ok chk =>
          simp only [hu, ok_bind] at hb ⊢
          cases chk
          · simp only [Bool.not_false, if_true, bind_ok, Except.ok.injEq] at hb
            obtain ⟨pc, _, mv, hmv, rfl⟩ := hb
            obtain ⟨s1, _⟩ := score_of_moveOrCapture hmv (hkind _ _ hv hx he)
            obtain ⟨r, hr⟩ := captureRM_isOk (mov := ⟨c.cur.king, addb c.cur.king d, 0, InvalidSq⟩).2
              ⟨s1, score_king⟩
            exact ⟨[r], by simp only [Bool.not_false, if_true, hr, ok_bind, pure_eq_ok]⟩
          · exact ⟨[], by simp only [Bool.not_true, Bool.false_eq_true, if_false]⟩

theorem pawnGenT_ok {p : Position} {c kt frm a} (ha : pawnGen p c kt frm = .ok a) :
    IsOk (pawnGenTactical p c frm) := by
  rw [pawnGenTactical_eq]
  rw [pawnGen_eq] at ha
  simp only [bind_ok, pure_eq_ok, Except.ok.injEq] at ha
  obtain ⟨a1, g1, a2, g2, a3, g3, rfl⟩ := ha
  simp only [pawnPushGen, bind_ok] at g3
  obtain ⟨y, hy, _⟩ := g3
  rw [g1, ok_bind, g2, ok_bind]
  unfold pawnPushTac
  dsimp only
  rw [hy, ok_bind]
  exact ⟨_, rfl⟩

theorem enemyKind_of_inv {p : Position} (hI : Inv p) : EnemyKind p p.ctx := by
  obtain ⟨_, _, _, _, c5, _⟩ := ctx_fields (p := p) rfl
  intro i x hv hx he
  rw [c5] at he
  rw [bget_ok_iff] at hx
  have hlt : i < 128 := by
    rw [← hI.board.size]; exact (Array.getElem?_eq_some_iff.mp hx).1
  obtain ⟨v, hv', hcode⟩ := hI.board.codes i hlt hv
  rw [hx] at hv'
  cases hv'
  have key : ∀ w : Bool, ∀ v ∈ 0 :: Atk.pieceCodes, v &&& MM.colorBit (!w) ≠ 0 → (v &&& Colorless == 0) = false := by
    decide
  exact key (whiteTurn p) x (List.mem_cons.2 hcode) (by simpa using he)

open Magog.GenPure Magog.LegalMoves in
theorem genPseudoTactical_ok {p : Position} (hI : Inv p) : ∃ ts, genPseudoTactical p = .ok ts := by
  obtain ⟨ps, hps, _⟩ := genPseudo_genList hI Props.C18.killers_empty_size
  have hcell := enemyNotOwn_of_inv hI
  have hkind := enemyKind_of_inv hI
  simp only [genPseudo, bind_ok, pure_eq_ok, Except.ok.injEq] at hps
  obtain ⟨a, ha, b, hb, k, hk, cs, hcs, rfl⟩ := hps
  unfold genPseudoTactical
  obtain ⟨t1, h1⟩ := flatMapM'_isOk (f := pawnGenTactical p p.ctx) (l := p.ctx.cur.pawns) (fun x hx => by
    obtain ⟨ax, hax, _⟩ := flatMapM'_mem_ok ha x hx
    exact pawnGenT_ok hax)
  obtain ⟨t2, h2⟩ := flatMapM'_isOk (f := pieceGenTactical p p.ctx) (l := p.ctx.cur.pieces) (fun x hx => by
    obtain ⟨ax, hax, _⟩ := flatMapM'_mem_ok hb x hx
    exact pieceGenT_ok hcell hkind hax)
  obtain ⟨t3, h3⟩ := kingGenT_ok hcell hkind hk
  exact ⟨t1 ++ t2 ++ t3, by simp only [h1, h2, h3, ok_bind, pure_eq_ok]⟩

open Magog.GenPure Magog.LegalMoves Magog.CountInv in
/-- **The tactical generator never panics** on a well-formed position with the opponent not in check. -/
theorem generateTacticalMoves_ok {p : Position} (hI : Inv p) (hS : OppSafe p) :
    ∃ ts, generateTacticalMoves p = .ok ts := by
  obtain ⟨ps, hps, _⟩ := genPseudo_genList hI Props.C18.killers_empty_size
  obtain ⟨tps, htps⟩ := genPseudoTactical_ok hI
  have hrel := genPseudo_rel (cellsOk_of_inv hI) htps hps
  unfold TacRel at hrel
  have hall : ∀ rm ∈ tps, IsOk (isLegal p rm.mov) := by
    intro rm hrm
    have : rm.mov ∈ tps.map (·.mov) := List.mem_map.2 ⟨rm, hrm, rfl⟩
    rw [hrel] at this
    obtain ⟨rm', hrm', e⟩ := List.mem_map.1 this
    rw [← e]
    exact ⟨_, isLegal_spec hI hS (generated_of_mem hps (List.mem_filter.1 hrm').1)⟩
  unfold generateTacticalMoves
  rw [htps, ok_bind]
  exact ⟨_, filterM'_of_ok (g := fun rm => okTrue (isLegal p rm.mov)) (fun rm hrm => by
    obtain ⟨b, hb⟩ := hall rm hrm
    rw [hb, okTrue_ok])⟩


end Magog.CountNoPanic
